#!/usr/bin/env python3
"""applyextra.py Cxx work/props_Cxx_extra.json — folds an extension delivered by a builder into props.json."""
import json, sys
pid, f = sys.argv[1], sys.argv[2]
P = json.load(open('props.json')); x = json.load(open(f)); c = P[pid]
for m in x.get('extra_proof_modules', []):
    c.setdefault('extra_proof_modules', [])
    if m not in c['extra_proof_modules']: c['extra_proof_modules'].append(m)
if x.get('level_text_addition') and x['level_text_addition'] not in c.get('level_text', ''):
    c['level_text'] = c.get('level_text', '') + ' ' + x['level_text_addition']
def drop(lst, subs): return [i for i in lst if not any(s[:60] in i for s in subs)]
c['partial'] = drop(c.get('partial', []), x.get('partial_remove', [])) + [a for a in x.get('partial_add_suggested', x.get('partial_add', [])) if a not in c.get('partial', [])]
c['trusted'] = drop(c.get('trusted', []), x.get('trusted_remove', []))
c['assumptions'] = drop(c.get('assumptions', []), x.get('assumptions_remove', [])) + [a for a in x.get('assumptions_add', []) if a not in c.get('assumptions', [])]
c['trusted'] = c['trusted'] + [a for a in x.get('trusted_add', []) if a not in c['trusted']]
if x.get('level_note_addition') and x['level_note_addition'] not in c.get('level_note', ''): c['level_note'] = c.get('level_note', '') + ' ' + x['level_note_addition']
if x.get('rule_addition') and x['rule_addition'] not in c.get('rule', ''): c['rule'] = c.get('rule', '') + ' ' + x['rule_addition']
c['functions'] = c.get('functions', []) + [f for f in x.get('functions_add', []) if f not in c.get('functions', [])]
if x.get('functions_tied'): c['functions_tied'] = sorted(set(c.get('functions_tied', []) + x['functions_tied']))
json.dump(P, open('props.json', 'w'), indent=1)
print(pid, 'extra modules:', c.get('extra_proof_modules'))
