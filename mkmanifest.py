#!/usr/bin/env python3
"""Regenerates MANIFEST.json from props.json (claimed checks) and properties.jsonl."""
import json, os
ROOT = os.path.dirname(os.path.abspath(__file__))
props = json.load(open(os.path.join(ROOT, "props.json")))
ids = [json.loads(l)["id"] for l in open(os.path.join(ROOT, "properties.jsonl")) if l.strip()]
checks = []
for pid in ids:
    c = props.get(pid)
    if not c or not c.get("claimed", True):
        continue
    checks.append({
        "property_id": pid,
        "quick_cmd": f"./check {pid} --tier quick",
        "thorough_cmd": f"./check {pid} --tier thorough",
        "evidence_file": f"evidence/{pid}.json",
        "replay_cmd_template": f"./check {pid} --replay {{path}}",
        "engine": "lean-proof+correspondence",
        "level_claimed": {
            "category": "proof",
            "text": c["level_text"],
            "design_ref": f"DESIGN.md §9.9 {pid}",
        },
        "level_note": c["level_note"],
        "technique": c.get("technique", "Lean 4 theorems about an executable model + differential correspondence with the Go code"),
    })
na = [{"property_id": pid, "reason": (props.get(pid) or {}).get("na_reason", "machinery for this property is not built yet (work in progress; see DESIGN.md §8 build order)")}
      for pid in ids if pid not in [c["property_id"] for c in checks]]
m = {
    "version": 1,
    "setup_cmd": "./setup.sh",
    "hooks": {
        "guard": "verif",
        "enable": "go build -tags verif (the harness module /verif/harness replaces github.com/paulmach/orb with /repo)",
        "baseline_off_cmd": "cd /repo && go test -mod=mod -vet=off -count=1 -timeout 25m ./...",
        "source_commits": json.load(open(os.path.join(ROOT, "hooks.json")))["source_commits"],
        "add_only": True,
    },
    "engines": [
        {"name": "lean-proof+correspondence", "path": "check", "serves_properties": [c["property_id"] for c in checks],
         "kind_free_text": "Lean 4 theorems (lean/OrbProofs) about hand-written executable models (lean/Orb) whose constants/tables are regenerated from /repo by harness/cmd/factgen; the models are run side by side with the Go code by harness/ (corr) through the compiled Lean driver (lean/Driver)"},
    ],
    "checks": checks,
    "not_applicable": na,
    "notes": "See DESIGN.md. known_findings.json lists genuine defects recorded rather than repaired and the fix: commits made to /repo.",
}
json.dump(m, open(os.path.join(ROOT, "MANIFEST.json"), "w"), indent=1)
print("checks:", [c["property_id"] for c in checks], "na:", len(na))
