#!/usr/bin/env python3
"""seedcheck.py <property> <mutant-dir> <name> [--props C06,C20]

Confirms a seeded change (patch.diff + demo_test.go from an independent sub-agent) and runs our
checks against it:  applies the patch to /repo, runs the unedited baseline (must pass), runs the
demonstration (must fail), runs ./check for the listed properties (quick tier), reverts /repo,
runs the demonstration on the clean tree (must pass), and stores everything in seeded/<name>/.
"""
import sys, os, re, json, subprocess, shutil, time, fcntl

ROOT = os.path.dirname(os.path.abspath(__file__))
ENV = dict(os.environ, GOFLAGS="-mod=mod", GOPROXY="off", GOSUMDB="off", GOTOOLCHAIN="local")

def sh(cmd, cwd=None, timeout=3600):
    p = subprocess.run(cmd, shell=True, cwd=cwd, env=ENV, stdout=subprocess.PIPE, stderr=subprocess.STDOUT, text=True, timeout=timeout)
    return p.returncode, p.stdout

def main():
    prop, mdir, name = sys.argv[1:4]
    props = [prop]
    if "--props" in sys.argv:
        props = sys.argv[sys.argv.index("--props") + 1].split(",")
    race = "-race " if "--race-demo" in sys.argv else ""
    tier = "quick"
    if "--tier" in sys.argv:
        tier = sys.argv[sys.argv.index("--tier") + 1]
    patch = os.path.join(mdir, "patch.diff")
    demo = os.path.join(mdir, "demo_test.go")
    first = open(demo).readline()
    m = re.search(r"place in:\s*(\S+)", first)
    pkgdir = (m.group(1) if m else ".").rstrip("/")
    if pkgdir in ("", "."):
        pkgdir = "."
    rc, out = sh("git -C /repo status --porcelain")
    assert out.strip() == "", "/repo not clean: " + out
    meta = {"property": prop, "name": name, "checked_at": time.strftime("%Y-%m-%dT%H:%M:%SZ", time.gmtime()), "ran": []}
    demo_dst = os.path.join("/repo", pkgdir, "zz_seed_demo_test.go")
    # exclusive lock on /repo for as long as the change is applied (checks take it shared while they build)
    lockf = open("/repo/.git/verif-seed.lock", "w")
    fcntl.flock(lockf, fcntl.LOCK_EX)
    ENV["VERIF_SEED_HOLDER"] = "1"
    try:
        rc, out = sh(f"git -C /repo apply {patch}")
        assert rc == 0, "patch does not apply: " + out
        rc, out = sh("go build ./... && go test -vet=off -count=1 ./...", cwd="/repo")
        meta["baseline_with_patch_passes"] = (rc == 0)
        meta["ran"].append("cd /repo && go test -vet=off -count=1 ./...   (with patch) -> rc=%d" % rc)
        shutil.copy(demo, demo_dst)
        rc, out = sh(f"go test {race}-vet=off -count=1 ./{pkgdir}/ 2>&1 | tail -15", cwd="/repo")
        fails = ("FAIL" in out)
        meta["demo_fails_with_patch"] = fails
        meta["ran"].append(f"demo in {pkgdir}/ with patch -> {'FAIL' if fails else 'pass'}")
        os.remove(demo_dst)
        meta["checks"] = {}
        for p in props:
            t0 = time.time()
            rc, out = sh(f"./check {p} --tier {tier}", cwd=ROOT)
            vio = [l for l in out.splitlines() if l.startswith("VIOLATION")]
            rep = None
            if vio:
                mm = re.search(r"replay=(\S+)", vio[0])
                if mm and os.path.exists(os.path.join(ROOT, mm.group(1))):
                    rp = json.load(open(os.path.join(ROOT, mm.group(1))))
                    rep = {"kind": rp.get("kind"), "case": (rp.get("case") or "")[:400], "verdict": rp.get("verdict"),
                           "broken": [b.get("kind") for b in rp.get("broken_obligations", [])]}
            meta["checks"][p] = {"rc": rc, "violation_line": vio[0] if vio else None, "replay": rep, "wall_s": round(time.time() - t0, 1)}
            meta["ran"].append(f"./check {p} --tier {tier} (with patch) -> rc={rc}")
    finally:
        if os.path.exists(demo_dst):
            os.remove(demo_dst)
        sh("git -C /repo checkout -- . && git -C /repo clean -fdq -- . ':!quadtree/verif_hooks.go'")
        # evidence files now describe a run against the CHANGED tree: put the committed ones back
        sh("git checkout -- evidence/", cwd=ROOT)
        ENV.pop("VERIF_SEED_HOLDER", None)
        fcntl.flock(lockf, fcntl.LOCK_UN); lockf.close()
    shutil.copy(demo, demo_dst)
    rc, out = sh(f"go test {race}-vet=off -count=1 ./{pkgdir}/ 2>&1 | tail -5", cwd="/repo")
    os.remove(demo_dst)
    meta["demo_passes_without_patch"] = ("FAIL" not in out and rc == 0) or ("ok" in out and "FAIL" not in out)
    meta["ran"].append(f"demo in {pkgdir}/ on the clean tree -> {'pass' if meta['demo_passes_without_patch'] else 'FAIL'}")
    notes = os.path.join(mdir, "notes.md")
    meta["needs_to_manifest"] = open(notes).read()[:1500] if os.path.exists(notes) else ""
    oldmeta = os.path.join(mdir, "meta.json")
    if not meta["needs_to_manifest"] and os.path.exists(oldmeta):   # a refresh run on seeded/<name>/ itself
        meta["needs_to_manifest"] = json.load(open(oldmeta)).get("needs_to_manifest", "")
    meta["caught_by"] = [p for p, r in meta["checks"].items() if r["rc"] != 0 and r["violation_line"]]
    dst = os.path.join(ROOT, "seeded", name)
    os.makedirs(dst, exist_ok=True)
    if os.path.abspath(mdir) != os.path.abspath(dst):
        shutil.copy(patch, os.path.join(dst, "patch.diff"))
        shutil.copy(demo, os.path.join(dst, "demo_test.go"))
    json.dump(meta, open(os.path.join(dst, "meta.json"), "w"), indent=1)
    ok = meta["baseline_with_patch_passes"] and meta["demo_fails_with_patch"] and meta["demo_passes_without_patch"]
    print(json.dumps({"name": name, "valid_mutant": ok, "caught_by": meta["caught_by"],
                      "checks": {p: (r["violation_line"], (r["replay"] or {}).get("kind"), (r["replay"] or {}).get("verdict")) for p, r in meta["checks"].items()}}, indent=1))

if __name__ == "__main__":
    main()
