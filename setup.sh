#!/bin/sh
# Build the framework from files on disk only (offline).
set -e
cd "$(dirname "$0")"
export GOFLAGS=-mod=mod GOPROXY=off GOSUMDB=off GOTOOLCHAIN=local
mkdir -p work evidence replays
cp /repo/go.sum harness/go.sum
(cd harness && go build -o ../work/factgen ./cmd/factgen && go build -tags verif -o ../work/corr .)
rm -f lean/Generated/*.lean
./work/factgen -repo /repo -out lean/Generated -sigs work/sigs.json
(cd lean && lake build)
echo setup done
