#!/bin/sh
# Build the framework from files on disk only (offline).
set -e
cd "$(dirname "$0")"
export GOFLAGS=-mod=mod GOPROXY=off GOSUMDB=off GOTOOLCHAIN=local
mkdir -p work evidence replays
cp /repo/go.sum harness/go.sum
(cd harness && go build -o ../work/factgen ./cmd/factgen && go build -tags verif -o ../work/corr .)
mkdir -p lean/Generated; rm -f lean/Generated/*.lean
./work/factgen -repo /repo -out lean/Generated -sigs work/sigs.json
# models + driver must build; proof modules are pre-built here to warm the cache, and each
# property's own check re-builds and audits its module (a failure there is reported by that check)
(cd lean && lake build Generated Orb Driver orbdriver)
(cd lean && lake build OrbProofs) || echo "setup: some proof modules did not build (reported by the affected checks)"
echo setup done
