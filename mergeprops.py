#!/usr/bin/env python3
"""mergeprops.py Cxx [--claim]: merge work/props_Cxx.json into props.json and register the driver handler."""
import json, sys, re, os
pid = sys.argv[1]
claim = "--claim" in sys.argv
p = json.load(open("props.json"))
f = f"work/props_{pid}.json"
if os.path.exists(f):
    d = json.load(open(f))
    d = d.get(pid, d)
    p[pid] = d
if claim:
    p[pid]["claimed"] = True
json.dump(p, open("props.json", "w"), indent=1)
a = open("lean/Driver/All.lean").read()
if f"import Driver.{pid}\n" not in a:
    ids = sorted(set(re.findall(r"import Driver\.(C\d+)", a)) | {pid})
    out = "".join(f"import Driver.{i}\n" for i in ids)
    out += "\nnamespace Driver\ndef dispatch (p : String) (rest : List String) : String :=\n  match p with\n"
    out += "".join(f'  | "{i}" => {i}.handle rest\n' for i in ids)
    out += '  | _ => "bad unknown-property " ++ p\nend Driver\n'
    open("lean/Driver/All.lean", "w").write(out)
print("merged", pid, "claimed" if p[pid].get("claimed") else "unclaimed")
