#!/usr/bin/env python3
"""Regenerates §9 of DESIGN.md: hand-written prose (design9_prose.md) + tables derived from
props.json, known_findings.json, hooks.json, seeded/*/meta.json and the theorem lists."""
import json, os, re, glob, subprocess
R = os.path.dirname(os.path.abspath(__file__))
props = json.load(open(f"{R}/props.json"))
kf = json.load(open(f"{R}/known_findings.json"))
ids = [json.loads(l)["id"] for l in open(f"{R}/properties.jsonl") if l.strip()]
titles = {json.loads(l)["id"]: json.loads(l)["title"] for l in open(f"{R}/properties.jsonl") if l.strip()}

def nthm(pid):
    p = f"{R}/lean/OrbProofs/{pid}.lean"
    if not os.path.exists(p): return 0
    return len(re.findall(r"^theorem ", open(p).read(), flags=re.M))

out = ["## 9. As built\n", open(f"{R}/design9_prose.md").read(), ""]
out.append("### 9.4 Status per property\n")
out.append("| | claimed | theorems in OrbProofs/Cxx.lean | model | what stays partial (from props.json) |")
out.append("|---|---|---|---|---|")
for pid in ids:
    c = props.get(pid, {})
    part = "; ".join(x[:160] for x in c.get("partial", [])[:3]) or "—"
    model = ""
    f = f"{R}/lean/OrbProofs/{pid}Lemmas.lean"
    out.append(f"| {pid} | {'yes' if c.get('claimed') else 'no'} | {nthm(pid)} | {c.get('proof_module','—')} | {part} |")
out.append("")
out.append("### 9.5 Genuine defects of paulmach/orb: repaired (`fix:` commits in /repo)\n")
out.append("Every fix keeps the unedited 1375-test baseline green (`hooks.baseline_off_cmd`).\n")
out.append("| property | commit | what failed |")
out.append("|---|---|---|")
for f in kf.get("fixed", []):
    w = re.sub(r"^fixed: property=\S+ \S+ ", "", f["what"])
    out.append(f"| {f['property']} | {f['commit']} | {w} |")
out.append("")
out.append("### 9.6 Genuine defects recorded as known findings (not repaired)\n")
out.append("Each is matched by the driver's verdict AND the case line; a different violation of the same property is still reported.\n")
out.append("| id | what fails | why not repaired |")
out.append("|---|---|---|")
why = {
 "C13-polar-clamp-center": "the ±85.0511 snap is documented behaviour of maptile.At; changing it is a maintainer decision",
 "C01-wkb-scanner-prefix-ambiguous": "inherent in the deprecated retry heuristic; ewkb.ScannerPrefixSRID is the supported path",
 "C07-corner-touch-rounding": "floating-point rounding; no small safe repair",
 "C07-open-zero-length-touch": "smartclip consumed these pieces; repaired on the smartclip side (9b9a9e0) instead of changing clip's output",
 "C15-tile-polar-clamp": "mercator.ToPlanar's 0.9999 clamp is deliberate; only zoom-0/1 buffer pixels beyond 89.19° are affected",
 "C10-collection-lowerdim-centroid": "the repair needs a new traversal of nested collections (≈30 lines, a new type switch): larger than a minimal fix",
}
for f in kf.get("findings", []):
    out.append(f"| {f['id']} | {f['what'][:400]} | {f.get('why_not_fixed') or why[f['id']]} |")
out.append("")
out.append("### 9.7 Seeded changes and the checks that catch them\n")
out.append("Each change was written by a fresh sub-agent that saw only the property text and its own worktree; it compiles, passes the whole existing test suite, and breaks the property (its own demonstration fails with it and passes without it — re-confirmed by `seedcheck.py`, see `seeded/<id>/meta.json`).\n")
out.append("| change | what it does / needs | caught by | how (replay) |")
out.append("|---|---|---|---|")
for m in sorted(glob.glob(f"{R}/seeded/*/meta.json")):
    d = json.load(open(m))
    notes = d.get("needs_to_manifest", "").strip().splitlines()
    first = next((l.strip("# ").strip() for l in notes if l.strip() and not l.startswith("```")), "")[:200]
    diff = open(os.path.join(os.path.dirname(m), "patch.diff")).read()
    files = ", ".join(sorted(set(re.findall(r"^\+\+\+ b/(\S+)", diff, flags=re.M))))
    how = []
    for p, r in d.get("checks", {}).items():
        rep = r.get("replay") or {}
        how.append(f"{p}: {rep.get('verdict') or rep.get('kind') or ('rc=%s' % r.get('rc'))}")
    ok = d.get("baseline_with_patch_passes") and d.get("demo_fails_with_patch") and d.get("demo_passes_without_patch")
    out.append(f"| {d['name']}{'' if ok else ' (NOT a valid change)'} | {files}: {first} | {', '.join(d.get('caught_by', [])) or 'MISSED'} | {'; '.join(how)} |")
out.append("")

# ---- 9.9 per-property verification level as built (from props.json)
def para(t): return re.sub(r"\s+", " ", t or "").strip()
sec99 = ["### 9.9 Per-property level as built\n",
         "What each check decides and how, as recorded in `props.json` (the same text feeds MANIFEST.json). §4 above is the plan written before the build; where the two differ, this section is what exists.\n"]
for pid in ids:
    c = props.get(pid, {})
    sec99.append(f"#### {pid} — {titles[pid]}\n")
    sec99.append(f"*Level.* {para(c.get('level_text'))}\n")
    if c.get('level_note'): sec99.append(f"*Note.* {para(c.get('level_note'))}\n")
    if c.get('rule'): sec99.append(f"*Correspondence rule (generator and judging).* {para(c.get('rule'))}\n")
    if c.get('assumptions'): sec99.append("*Assumptions.* " + "; ".join(para(a) for a in c['assumptions']) + "\n")
    if c.get('trusted'): sec99.append("*Trusted beyond the common base.* " + "; ".join(para(a) for a in c['trusted']) + "\n")
    if c.get('partial'):
        sec99.append("*Partial / not decided:*\n")
        for a in c['partial']: sec99.append(f"* {para(a)}")
        sec99.append("")
# ---- 9.8 theorem index (from the Lean sources: name + first sentence of its doc comment)
def theorem_index(path):
    if not os.path.exists(path): return []
    src = open(path).read()
    res = []
    for m in re.finditer(r"(?:/--(.*?)-/\s*)?^theorem\s+(\S+)", src, flags=re.S | re.M):
        doc = (m.group(1) or "").strip()
        # the doc group may have swallowed earlier text when there was no docstring: keep only a tail docstring
        if "theorem " in doc or "\nend " in doc or "\ndef " in doc: doc = ""
        doc = re.sub(r"\s+", " ", doc)
        first = re.split(r"(?<=[.:;])\s", doc, maxsplit=1)[0] if doc else ""
        res.append((m.group(2), first[:220].replace("|", "\\|")))
    return res
out.append("### 9.8 Theorem index\n")
out.append("Generated from the Lean sources.  Every name below is audited by `./check` (`#print axioms`; allowed: propext, Classical.choice, Quot.sound).\n")
for pid in ids:
    c = props.get(pid, {})
    mods = [c.get("proof_module", f"OrbProofs.{pid}")] + c.get("extra_proof_modules", [])
    out.append(f"**{pid} — {titles[pid]}**\n")
    for mod in mods:
        ti = theorem_index(f"{R}/lean/" + mod.replace(".", "/") + ".lean")
        out.append(f"* `{mod}` ({len(ti)} theorems)")
        for n, d in ti:
            out.append(f"  * `{n}`" + (f" — {d}" if d else ""))
    if c.get("functions_tied"):
        out.append(f"* translation-tied functions: {', '.join(c['functions_tied'])}")
    out.append("")
out += sec99
s = open(f"{R}/DESIGN.md").read()
i = s.find("\n## 9. As built")
if i >= 0:
    s = s[:i]
s = s.rstrip("-\n ") + "\n\n---------------------------------------------------------------------------\n\n" + "\n".join(out) + "\n"
open(f"{R}/DESIGN.md", "w").write(s)
print("DESIGN.md §9 regenerated:", len(out), "lines")
