#!/bin/bash
# mkseed2.sh C07 ...: second-round seeding — worktree /tmp/seed2-cxx + prompt that lists the first-round ideas to avoid
for P in "$@"; do
  lp=$(echo $P | tr 'A-Z' 'a-z')
  git -C /repo worktree add --detach /tmp/seed2-$lp HEAD -q
  python3 - "$P" "$lp" <<'PY'
import sys, json, glob, re, os
P, lp = sys.argv[1], sys.argv[2]
for l in open('/verif/properties.jsonl'):
    p = json.loads(l)
    if p['id'] == P:
        prop = f"{p['title']}\n\nSTATEMENT: {p['statement']}\n\nQUANTIFIER: {p['quantifier']['text']}\n\nCODE ANCHORS: {', '.join(p['anchors']['files'])}\n"
tried = []
for m in sorted(glob.glob(f'/verif/seeded/{P}-m*/meta.json')):
    d = json.load(open(m)); diff = open(os.path.dirname(m) + '/patch.diff').read()
    files = ", ".join(sorted(set(re.findall(r"^\+\+\+ b/(\S+)", diff, flags=re.M))))
    funcs = ", ".join(sorted(set(re.findall(r"^@@.*@@ func (?:\([^)]*\) )?(\w+)", diff, flags=re.M))))
    tried.append(f" - {files} ({funcs})")
t = open('/verif/seed_prompt.txt').read().replace('WORKTREE', f'/tmp/seed2-{lp}').replace('PROPERTY', prop)
t = t.replace("TASK: produce THREE", "This is a SECOND round: an earlier round already changed these places — choose DIFFERENT functions and different clauses of the property, and make the changes subtler (they should survive a casual differential test on random inputs: think of rarely taken branches, exact-boundary values, degenerate shapes, state carried between calls, big-endian / non-default options, integer widths, NaN/±0, deep nesting, the second or later element of something, interactions between two public functions):\n" + "\n".join(tried) + "\n\nTASK: produce THREE")
open(f'/tmp/seed2_prompt_{P}.txt', 'w').write(t)
PY
done
