package main

// Corpus of hostile GeoJSON / BSON documents on which model and implementation once disagreed.
// genGeoJSONHostileCorpus emits them before anything else (C02 op `hostile`, C05 op `gj`).
// One `json <hex>` / `bson <hex>` per line; `#` starts a comment line.
const c02HostileCorpus = `
# 2026-09-30, C05 thorough (/verif/work/c05bson), minimised.  B = a BSON boolean whose payload byte is
# neither 0 nor 1: bsoncore (the harness's tree parser) read it as false, bsonrw.ReadBoolean rejects it.
# The struct decoder skips it, bson.RawValue copies it; float64 / interface{} decoders fail on it.
# {"0": B, features: [], type: FC} - foreign top-level member: FeatureCollection decodes it into interface{}
bson 340000000830001f0466656174757265730005000000000274797065001200000046656174757265436f6c6c656374696f6e0000
# {type: Feature, geometry: {type: Point, coordinates: [-0.5, B]}, properties: null} - a coordinate
bson 630000000274797065000800000046656174757265000367656f6d65747279003600000002747970650006000000506f696e740004636f6f7264696e617465730014000000013000000000000000e0bf0831004100000a70726f706572746965730000
# {TYPE: Feature, geometry: null, properties: {a: [B, null]}} - inside a property value
bson 410000000254595045000800000046656174757265000a67656f6d65747279000370726f7065727469657300140000000461000c0000000830007e0a3100000000
# {features: [{type: Feature, geometry: null, properties: {a: B}}], type: FC} - property of a nested feature
bson 69000000046665617475726573003e000000033000360000000274797065000800000046656174757265000a67656f6d65747279000370726f706572746965730009000000086100310000000274797065001200000046656174757265436f6c6c656374696f6e0000
# {coordinates: [[B]], type: LineString} - a coordinate two levels down
bson 3800000004636f6f7264696e617465730011000000043000090000000830002000000274797065000b0000004c696e65537472696e670000
# {x: [{ab: {geometries: [B]}}], features: [], type: FC} - deep inside a foreign member
bson 5e0000000478002b00000003300023000000036162001a0000000467656f6d6574726965730009000000083000c2000000000466656174757265730005000000000274797065001200000046656174757265436f6c6c656374696f6e0000
# {type: FC, coordinates: [B]} - foreign member array
bson 370000000274797065001200000046656174757265436f6c6c656374696f6e0004636f6f7264696e617465730009000000083000030000
# {Type: B, bbox: [true], features: [], type: FC} - case-variant key (a foreign member for the collection)
bson 46000000085479706500110462626f78000900000008300001000466656174757265730005000000000274797065001200000046656174757265436f6c6c656374696f6e0000
# {id: B}
bson 0a00000008696400ba00
# harness crash (C02 thorough): a length field of 0 makes bsoncore.Document.Validate index d[-1]; bsonTree recovers
bson 0000000000
bson 0d000000036100000000000000
`
