package main

import (
	"fmt"
	"strings"
	"sync"

	"github.com/paulmach/orb"
	"github.com/paulmach/orb/quadtree"
)

func init() { register(&Prop{ID: "C19", Run: runC19, Gen: genC19}) }

// one read-only query, parsed once, runnable many times
type c19Query func(q *quadtree.Quadtree, buf []orb.Pointer) string

func parseQuery(r *tokReader) c19Query {
	switch op := r.next(); op {
	case "f":
		p := r.pt()
		return func(q *quadtree.Quadtree, _ []orb.Pointer) string {
			v := q.Find(p)
			if v == nil {
				return "-"
			}
			return qid(v)
		}
	case "m":
		p := r.pt()
		m, rr := r.int(), r.int()
		return func(q *quadtree.Quadtree, _ []orb.Pointer) string {
			v := q.Matching(p, modFilter(m, rr))
			if v == nil {
				return "-"
			}
			return qid(v)
		}
	case "k":
		p := r.pt()
		k, m, rr := r.int(), r.int(), r.int()
		md := r.next()
		return func(q *quadtree.Quadtree, buf []orb.Pointer) string {
			if md == "-" {
				return qids(q.KNearestMatching(buf, p, k, modFilter(m, rr)))
			}
			return qids(q.KNearestMatching(buf, p, k, modFilter(m, rr), pf(md)))
		}
	case "b":
		b := orb.Bound{Min: r.pt(), Max: r.pt()}
		m, rr := r.int(), r.int()
		return func(q *quadtree.Quadtree, buf []orb.Pointer) string {
			return qids(q.InBoundMatching(buf, b, modFilter(m, rr)))
		}
	default:
		panic("bad query op " + op)
	}
}

func runC19(op string, in []string) string {
	return guard(func() string {
		if op != "conc" {
			return "badop"
		}
		r := &tokReader{t: in}
		bnd := orb.Bound{Min: r.pt(), Max: r.pt()}
		nb := r.int()
		q := quadtree.New(bnd)
		for i := 0; i < nb; i++ {
			switch o := r.next(); o {
			case "a":
				id := r.int()
				q.Add(&qpt{id, r.pt()})
			case "ri":
				id := r.int()
				q.Remove(&qpt{-1, r.pt()}, func(p orb.Pointer) bool { return p.(*qpt).id == id })
			case "rp":
				q.Remove(&qpt{-1, r.pt()}, nil)
			default:
				panic("bad build op " + o)
			}
		}
		m := r.int()
		qs := make([]c19Query, m)
		for i := range qs {
			qs[i] = parseQuery(r)
		}
		g, rounds, useBuf := r.int(), r.int(), r.int() == 1
		before := q.VerifDump(qid)
		seq := make([]string, m)
		for i, f := range qs {
			seq[i] = f(q, nil)
		}
		// concurrent phase: G goroutines, each running all queries `rounds` times from its own offset
		same := true
		var mu sync.Mutex
		var wg sync.WaitGroup
		start := make(chan struct{})
		for t := 0; t < g; t++ {
			wg.Add(1)
			go func(t int) {
				defer wg.Done()
				var buf []orb.Pointer
				if useBuf {
					buf = make([]orb.Pointer, 0, 16) // per-goroutine buffer
				}
				<-start
				for rd := 0; rd < rounds; rd++ {
					for j := 0; j < m; j++ {
						i := (j + t) % m
						if got := qs[i](q, buf); got != seq[i] {
							mu.Lock()
							same = false
							mu.Unlock()
						}
					}
				}
			}(t)
		}
		close(start)
		wg.Wait()
		after := q.VerifDump(qid)
		out := append(seq, fmt.Sprintf("F %s %s %d", b2s(same), b2s(before == after), raceCount()))
		return strings.Join(out, " ; ")
	})
}

func genC19(c *Ctx) {
	r := c.Rng
	bound := "c024000000000000 c024000000000000 4024000000000000 4024000000000000"
	for k := 0; k < c.Budget && !c.Exhausted(); k++ {
		h := &histGen{c: c}
		na := 4 + r.Intn(12)
		for i := 0; i < na; i++ {
			if r.Intn(4) == 0 {
				h.pts = append(h.pts, orb.Point{[]float64{0, 5, -5, 2.5, 10, -10}[r.Intn(6)], []float64{0, 5, -5, 2.5, 10, -10}[r.Intn(6)]})
			} else {
				h.pts = append(h.pts, orb.Point{float64(r.Intn(41)-20) / 2, float64(r.Intn(41)-20) / 2})
			}
		}
		var build, queries []string
		nb := 5 + r.Intn(80)
		withRemovals := r.Intn(2) == 0
		for len(build) < nb {
			o := h.op()
			switch o[0] {
			case 'a':
				build = append(build, o)
			case 'r':
				if withRemovals {
					build = append(build, o)
				}
			}
		}
		m := 4 + r.Intn(20)
		for len(queries) < m {
			o := h.op()
			if o[0] == 'f' || o[0] == 'm' || o[0] == 'k' || o[0] == 'b' {
				queries = append(queries, o)
			}
		}
		g := []int{2, 2, 4, 8, 16, 32}[r.Intn(6)]
		rounds := 1 + r.Intn(8)
		c.Case("conc", fmt.Sprintf("%s %d %s %d %s %d %d %d", bound, len(build), strings.Join(build, " "), m, strings.Join(queries, " "), g, rounds, r.Intn(2)))
	}
}
