package main

import (
	"fmt"
	"math"
	"math/rand"
	"strings"
	"sync"

	"github.com/paulmach/orb"
	"github.com/paulmach/orb/quadtree"
)

func init() { register(&Prop{ID: "C19", Run: runC19, Gen: genC19}) }

// one read-only query, parsed once, runnable many times.  `alt` (may be nil) is the same query issued
// through the non-Matching wrapper of the API (KNearest, InBound), which must answer identically.
// Both return the rendered answer and, for the queries that answer with a slice (`slice`), the very
// slice the library returned (so that the caller can keep it, look at it again later, or hand it back
// as the buffer of its next query).  `whole` marks an unfiltered in-bound query whose box covers the
// bound of the tree (a listing of everything).
//
// `lim` is the variadic distance limit of a k-nearest query AS A SLICE: the runner passes it with
// `lim...`, so the library receives the caller's own slice (no copy).  During the concurrent phase
// every goroutine passes the SAME slice for the same query — a sub-slice of one limits array per case,
// as a caller does who keeps its limits in a configuration slice shared read-only by its workers.
// The per-goroutine contract covers result buffers only; nothing allows the library to write this one.
type c19Query struct {
	run, alt     func(q *quadtree.Quadtree, buf []orb.Pointer, lim []float64) (string, []orb.Pointer)
	slice, whole bool
	md           string    // limit token of a k-nearest query ("-": none; "": not a k-nearest query)
	lim          []float64 // the shared limits slice of this query (nil: no limit)
}

func parseQuery(r *tokReader, tree orb.Bound) c19Query {
	one := func(v orb.Pointer) (string, []orb.Pointer) {
		if v == nil {
			return "-", nil
		}
		return qid(v), nil
	}
	many := func(ps []orb.Pointer) (string, []orb.Pointer) { return qids(ps), ps }
	switch op := r.next(); op {
	case "f":
		p := r.pt()
		return c19Query{run: func(q *quadtree.Quadtree, _ []orb.Pointer, _ []float64) (string, []orb.Pointer) {
			return one(q.Find(p))
		}, alt: func(q *quadtree.Quadtree, _ []orb.Pointer, _ []float64) (string, []orb.Pointer) {
			return one(q.Matching(p, nil))
		}}
	case "m":
		p := r.pt()
		m, rr := r.int(), r.int()
		return c19Query{run: func(q *quadtree.Quadtree, _ []orb.Pointer, _ []float64) (string, []orb.Pointer) {
			return one(q.Matching(p, modFilter(m, rr)))
		}}
	case "k":
		p := r.pt()
		k, m, rr := r.int(), r.int(), r.int()
		md := r.next()
		if md != "-" {
			pf(md) // a malformed token is a harness bug
		}
		// the limit is whatever slice the runner hands in (nil: no limit), passed on with `lim...`
		qq := c19Query{slice: true, md: md, run: func(q *quadtree.Quadtree, buf []orb.Pointer, lim []float64) (string, []orb.Pointer) {
			return many(q.KNearestMatching(buf, p, k, modFilter(m, rr), lim...))
		}}
		if m == 1 { // no filter: the KNearest wrapper is the same query
			qq.alt = func(q *quadtree.Quadtree, buf []orb.Pointer, lim []float64) (string, []orb.Pointer) {
				return many(q.KNearest(buf, p, k, lim...))
			}
		}
		return qq
	case "b":
		b := orb.Bound{Min: r.pt(), Max: r.pt()}
		m, rr := r.int(), r.int()
		qq := c19Query{slice: true, run: func(q *quadtree.Quadtree, buf []orb.Pointer, _ []float64) (string, []orb.Pointer) {
			return many(q.InBoundMatching(buf, b, modFilter(m, rr)))
		}}
		if m == 1 {
			qq.alt = func(q *quadtree.Quadtree, buf []orb.Pointer, _ []float64) (string, []orb.Pointer) {
				return many(q.InBound(buf, b))
			}
			qq.whole = b.Min[0] <= tree.Min[0] && b.Min[1] <= tree.Min[1] && b.Max[0] >= tree.Max[0] && b.Max[1] >= tree.Max[1]
		}
		return qq
	default:
		panic("bad query op " + op)
	}
}

// a result slice a goroutine received and did not hand back to the library afterwards: it belongs
// to that goroutine, so it must still read `got` (what it read when it was returned) at any later time
type c19Kept struct {
	i   int // query index
	res []orb.Pointer
	got string
}

// c19Listings are the "give me everything" queries, all with a nil buffer: InBound over the tree's
// bound (twice through the wrapper, once through InBoundMatching, once with a box beyond the bound)
// and KNearest with k at least the number of stored pointers from the centre and two corners.
func c19Listings(q *quadtree.Quadtree, bnd orb.Bound) string {
	n := len(q.VerifContents())
	big := orb.Bound{Min: orb.Point{bnd.Min[0] - 1, bnd.Min[1] - 1}, Max: orb.Point{bnd.Max[0] + 1, bnd.Max[1] + 1}}
	out := []string{
		"ib " + qids(q.InBound(nil, bnd)),
		"ibm " + qids(q.InBoundMatching(nil, bnd, nil)),
		"ib2 " + qids(q.InBound(nil, bnd)),
		"ibBig " + qids(q.InBound(nil, big)),
	}
	for _, p := range []orb.Point{{(bnd.Min[0] + bnd.Max[0]) / 2, (bnd.Min[1] + bnd.Max[1]) / 2}, bnd.Min, bnd.Max} {
		out = append(out, "kn "+qids(q.KNearest(nil, p, n)), "kn+ "+qids(q.KNearest(nil, p, n+7)),
			"knm "+qids(q.KNearestMatching(nil, p, n+1, nil)))
	}
	return strings.Join(out, " / ")
}

// everything of the tree a query could disturb: the node structure (verif hook), the tree's bound
// (public accessor) and the coordinates of every stored pointer, in tree order.  If the hook
// proposed in work/proposed_fixes/C19-hook.diff is present (VerifDumpFull: bound and coordinates
// read from inside the package) its output is included as well.
func c19Dump(q *quadtree.Quadtree) string {
	var sb strings.Builder
	sb.WriteString(q.VerifDump(qid))
	b := q.Bound()
	sb.WriteString(" | B " + fpt(b.Min) + " " + fpt(b.Max) + " | P")
	for _, p := range q.VerifContents() {
		sb.WriteString(" " + qid(p) + ":" + fpt(p.Point()))
	}
	if f, ok := interface{}(q).(interface {
		VerifDumpFull(func(orb.Pointer) string) string
	}); ok {
		sb.WriteString(" | FULL " + f.VerifDumpFull(qid))
	}
	return sb.String()
}

type c19Build struct {
	op string
	id int
	p  orb.Point
}

func c19Tree(bnd orb.Bound, ops []c19Build) *quadtree.Quadtree {
	q := quadtree.New(bnd)
	for _, o := range ops {
		o := o
		switch o.op {
		case "a":
			q.Add(&qpt{o.id, o.p})
		case "ri":
			q.Remove(&qpt{-1, o.p}, func(p orb.Pointer) bool { return p.(*qpt).id == o.id })
		case "rp":
			q.Remove(&qpt{-1, o.p}, nil)
		}
	}
	return q
}

func runC19(op string, in []string) string {
	return guard(func() string {
		if op != "conc" {
			return "badop"
		}
		r := &tokReader{t: in}
		bnd := orb.Bound{Min: r.pt(), Max: r.pt()}
		nb := r.int()
		ops := make([]c19Build, nb)
		for i := range ops {
			switch o := r.next(); o {
			case "a", "ri":
				ops[i] = c19Build{op: o, id: r.int()}
				ops[i].p = r.pt()
			case "rp":
				ops[i] = c19Build{op: o, p: r.pt()}
			default:
				panic("bad build op " + o)
			}
		}
		m := r.int()
		qs := make([]c19Query, m)
		for i := range qs {
			qs[i] = parseQuery(r, bnd)
		}
		// bufMode: 0 = every query with a nil buffer; 1 = the idiom `buf = q.Query(buf, …)` throughout
		// (one buffer per goroutine, the previous result is always the next buffer); >= 2 = mixed, drawn
		// per call from a per-goroutine generator seeded with bufMode: nil / the goroutine's PREVIOUS
		// result slice resliced to [:0] / a fresh dirty buffer
		g, rounds, bufMode := r.int(), r.int(), r.int()

		// ONE limits array per case, shared by all goroutines: [s, l_0, s, l_1, …, s] with a sentinel s
		// around every limit; the limited k-nearest query number j passes the sub-slice [2j+1:2j+2]
		// (its capacity runs on to the end of the array).  The oracle pass gets private copies.
		const limSentinel = 24680.125
		var limWant []float64
		limWant = append(limWant, limSentinel)
		for i := range qs {
			if qs[i].md != "" && qs[i].md != "-" {
				limWant = append(limWant, pf(qs[i].md), limSentinel)
			}
		}
		lims := append([]float64(nil), limWant...)
		oracleLims := append([]float64(nil), limWant...)
		for i, j := 0, 0; i < len(qs); i++ {
			if qs[i].md != "" && qs[i].md != "-" {
				qs[i].lim = lims[2*j+1 : 2*j+2]
				j++
			}
		}
		oracleLim := func(i int) []float64 { // the same position in the oracle's own array
			if qs[i].lim == nil {
				return nil
			}
			for k := range lims {
				if &lims[k] == &qs[i].lim[0] {
					return oracleLims[k : k+1]
				}
			}
			panic("limit slice not in the array")
		}
		limsIntact := func(a []float64) bool {
			for k := range a {
				if math.Float64bits(a[k]) != math.Float64bits(limWant[k]) {
					return false
				}
			}
			return true
		}

		// The tree the goroutines will query is NEVER queried before they start: the oracle answers
		// come from a second tree built by the same history, so that state a query writes lazily
		// (a cache, a size hint, a pruned leaf) is not warmed up by the oracle pass.
		q := c19Tree(bnd, ops)
		oracle := c19Tree(bnd, ops)
		before := c19Dump(q)
		oracleBefore := c19Dump(oracle)
		seq := make([]string, m)
		for i, f := range qs {
			seq[i], _ = f.run(oracle, nil, oracleLim(i))
		}
		oracleAfter := c19Dump(oracle)
		argsSame := limsIntact(oracleLims) && limsIntact(lims)

		// concurrent phase: G goroutines, each running all queries `rounds` times from its own offset,
		// alternating between the *Matching methods and their wrappers, and reading Bound().
		// Every goroutine KEEPS every result slice it receives, except those it hands back itself as
		// the buffer of a later query; the kept ones are looked at again when all goroutines are done.
		same, boundSame := true, true
		var allKept [][]c19Kept
		var mu sync.Mutex
		var wg sync.WaitGroup
		start := make(chan struct{})
		for t := 0; t < g; t++ {
			wg.Add(1)
			go func(t int) {
				defer wg.Done()
				rng := rand.New(rand.NewSource(int64(bufMode)*1000003 + int64(t)))
				var kept []c19Kept
				var prev []orb.Pointer // the last result slice this goroutine received (the last entry of kept)
				havePrev := false
				ok, bok := true, true
				<-start
				for rd := 0; rd < rounds; rd++ {
					for j := 0; j < m; j++ {
						i := (j + t) % m
						f := qs[i].run
						if qs[i].alt != nil && (t+j+rd)%2 == 1 {
							f = qs[i].alt
						}
						var buf []orb.Pointer
						if qs[i].slice {
							reuse := false
							switch {
							case bufMode == 0:
							case bufMode == 1:
								if havePrev {
									reuse = true
								} else {
									buf = make([]orb.Pointer, 0, 16) // per-goroutine buffer
								}
							case qs[i].whole && rd == 0:
								// in the first round every goroutine lists the whole tree with a nil
								// buffer through the InBound wrapper
								f = qs[i].alt
							default:
								switch x := rng.Intn(10); {
								case x < 3:
								case x < 8:
									reuse = havePrev
								default:
									buf = dirtyBuf(rng.Intn(3), rng.Intn(24))
								}
							}
							if reuse && prev != nil {
								// real-world buffer reuse: the previous answer is given up (it is this
								// goroutine's own memory, the library may overwrite it now)
								buf = prev[:0]
								kept = kept[:len(kept)-1]
							}
						}
						got, res := f(q, buf, qs[i].lim) // the limits slice is shared by all goroutines
						if got != seq[i] {
							ok = false
						}
						if qs[i].slice {
							kept = append(kept, c19Kept{i, res, got})
							prev, havePrev = res, true
						}
					}
					if q.Bound() != bnd {
						bok = false
					}
				}
				mu.Lock()
				same = same && ok
				boundSame = boundSame && bok
				allKept = append(allKept, kept)
				mu.Unlock()
			}(t)
		}
		close(start)
		wg.Wait()
		argsSame = argsSame && limsIntact(lims)
		after := c19Dump(q)
		// per-goroutine result buffers: an answer is still what it was when it was returned (keptStable)
		// and what the query answers alone (keptOracle), now that every goroutine has finished
		keptStable, keptOracle := true, true
		for _, kept := range allKept {
			for _, k := range kept {
				now := qids(k.res)
				if now != k.got {
					keptStable = false
				}
				if now != seq[k.i] {
					keptOracle = false
				}
			}
		}
		// and once more sequentially on the tree the goroutines used
		late := true
		for i, f := range qs {
			if got, _ := f.run(q, nil, f.lim); got != seq[i] {
				late = false
			}
			if f.alt != nil {
				if got, _ := f.alt(q, nil, f.lim); got != seq[i] {
					late = false
				}
			}
		}
		argsSame = argsSame && limsIntact(lims) && limsIntact(oracleLims)
		// whole-tree listings of the shared tree against those of the identically built oracle tree
		listSame := c19Listings(q, bnd) == c19Listings(oracle, bnd)
		afterLate := c19Dump(q)
		oracleAfter2 := c19Dump(oracle)
		out := append(seq, fmt.Sprintf("F %s %s %s %s %s %s %s %s %s %s", b2s(same), b2s(before == after && after == afterLate), b2s(before == oracleBefore),
			b2s(oracleBefore == oracleAfter && oracleAfter == oracleAfter2), b2s(late), b2s(boundSame), b2s(keptStable), b2s(keptOracle), b2s(listSame), b2s(argsSame)))
		return strings.Join(out, " ; ")
	})
}

func genC19(c *Ctx) {
	r := c.Rng
	bound := "c024000000000000 c024000000000000 4024000000000000 4024000000000000"
	for k := 0; k < c.Budget && !c.Exhausted(); k++ {
		h := &histGen{c: c}
		na := 4 + r.Intn(12)
		for i := 0; i < na; i++ {
			if r.Intn(4) == 0 {
				h.pts = append(h.pts, orb.Point{[]float64{0, 5, -5, 2.5, 10, -10}[r.Intn(6)], []float64{0, 5, -5, 2.5, 10, -10}[r.Intn(6)]})
			} else {
				h.pts = append(h.pts, orb.Point{float64(r.Intn(41)-20) / 2, float64(r.Intn(41)-20) / 2})
			}
		}
		var build, queries []string
		nb := 5 + r.Intn(80)
		withRemovals := r.Intn(2) == 0
		for len(build) < nb {
			o := h.op()
			switch o[0] {
			case 'a':
				build = append(build, o)
			case 'r':
				if withRemovals {
					build = append(build, o)
				}
			}
		}
		m := 4 + r.Intn(20)
		for len(queries) < m {
			o := h.op()
			if o[0] == 'f' || o[0] == 'm' || o[0] == 'k' || o[0] == 'b' {
				queries = append(queries, o)
			}
		}
		// "give me everything": InBound over the tree's bound (or a box beyond it) and KNearest with
		// k beyond the number of stored pointers, at a random position among the queries
		ins := func(o string) {
			at := r.Intn(len(queries) + 1)
			queries = append(queries[:at], append([]string{o}, queries[at:]...)...)
		}
		if r.Intn(5) != 0 {
			if r.Intn(4) == 0 {
				ins("b c026000000000000 c028000000000000 4026000000000000 4039000000000000 1 0")
			} else {
				ins("b " + bound + " 1 0")
			}
		}
		if r.Intn(2) == 0 {
			ins(fmt.Sprintf("k %s %d 1 0 -", fpt(h.pt()), []int{85, 100, 300}[r.Intn(3)]))
		}
		// k-nearest WITH a distance limit (the limits slice is shared by the goroutines): through the
		// wrapper and through the filtered method, positive, negative (acts as its absolute value) and
		// the same limit twice
		if r.Intn(4) != 0 {
			lim := fb(float64(1+r.Intn(30)) / 2)
			ins(fmt.Sprintf("k %s %d 1 0 %s", fpt(h.pt()), 1+r.Intn(12), lim))
			if r.Intn(2) == 0 {
				ins(fmt.Sprintf("k %s %d 2 %d %s", fpt(h.pt()), 1+r.Intn(12), r.Intn(2), []string{lim, fb(-float64(1+r.Intn(30)) / 2)}[r.Intn(2)]))
			}
		}
		g := []int{2, 2, 4, 8, 16, 32}[r.Intn(6)]
		rounds := 1 + r.Intn(8)
		bufMode := r.Intn(6) // 0: nil buffers, 1: one reused buffer per goroutine, else mixed
		if bufMode >= 2 {
			bufMode = 2 + r.Intn(1000)
		}
		c.Case("conc", fmt.Sprintf("%s %d %s %d %s %d %d %d", bound, len(build), strings.Join(build, " "), len(queries), strings.Join(queries, " "), g, rounds, bufMode))
	}
}
