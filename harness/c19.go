package main

import (
	"fmt"
	"strings"
	"sync"

	"github.com/paulmach/orb"
	"github.com/paulmach/orb/quadtree"
)

func init() { register(&Prop{ID: "C19", Run: runC19, Gen: genC19}) }

// one read-only query, parsed once, runnable many times.  `alt` (may be nil) is the same query issued
// through the non-Matching wrapper of the API (KNearest, InBound), which must answer identically.
type c19Query struct {
	run, alt func(q *quadtree.Quadtree, buf []orb.Pointer) string
}

func parseQuery(r *tokReader) c19Query {
	switch op := r.next(); op {
	case "f":
		p := r.pt()
		return c19Query{run: func(q *quadtree.Quadtree, _ []orb.Pointer) string {
			v := q.Find(p)
			if v == nil {
				return "-"
			}
			return qid(v)
		}, alt: func(q *quadtree.Quadtree, _ []orb.Pointer) string {
			v := q.Matching(p, nil)
			if v == nil {
				return "-"
			}
			return qid(v)
		}}
	case "m":
		p := r.pt()
		m, rr := r.int(), r.int()
		return c19Query{run: func(q *quadtree.Quadtree, _ []orb.Pointer) string {
			v := q.Matching(p, modFilter(m, rr))
			if v == nil {
				return "-"
			}
			return qid(v)
		}}
	case "k":
		p := r.pt()
		k, m, rr := r.int(), r.int(), r.int()
		md := r.next()
		qq := c19Query{run: func(q *quadtree.Quadtree, buf []orb.Pointer) string {
			if md == "-" {
				return qids(q.KNearestMatching(buf, p, k, modFilter(m, rr)))
			}
			return qids(q.KNearestMatching(buf, p, k, modFilter(m, rr), pf(md)))
		}}
		if m == 1 { // no filter: the KNearest wrapper is the same query
			qq.alt = func(q *quadtree.Quadtree, buf []orb.Pointer) string {
				if md == "-" {
					return qids(q.KNearest(buf, p, k))
				}
				return qids(q.KNearest(buf, p, k, pf(md)))
			}
		}
		return qq
	case "b":
		b := orb.Bound{Min: r.pt(), Max: r.pt()}
		m, rr := r.int(), r.int()
		qq := c19Query{run: func(q *quadtree.Quadtree, buf []orb.Pointer) string {
			return qids(q.InBoundMatching(buf, b, modFilter(m, rr)))
		}}
		if m == 1 {
			qq.alt = func(q *quadtree.Quadtree, buf []orb.Pointer) string {
				return qids(q.InBound(buf, b))
			}
		}
		return qq
	default:
		panic("bad query op " + op)
	}
}

// everything of the tree a query could disturb: the node structure (verif hook), the tree's bound
// (public accessor) and the coordinates of every stored pointer, in tree order.  If the hook
// proposed in work/proposed_fixes/C19-hook.diff is present (VerifDumpFull: bound and coordinates
// read from inside the package) its output is included as well.
func c19Dump(q *quadtree.Quadtree) string {
	var sb strings.Builder
	sb.WriteString(q.VerifDump(qid))
	b := q.Bound()
	sb.WriteString(" | B " + fpt(b.Min) + " " + fpt(b.Max) + " | P")
	for _, p := range q.VerifContents() {
		sb.WriteString(" " + qid(p) + ":" + fpt(p.Point()))
	}
	if f, ok := interface{}(q).(interface {
		VerifDumpFull(func(orb.Pointer) string) string
	}); ok {
		sb.WriteString(" | FULL " + f.VerifDumpFull(qid))
	}
	return sb.String()
}

type c19Build struct {
	op string
	id int
	p  orb.Point
}

func c19Tree(bnd orb.Bound, ops []c19Build) *quadtree.Quadtree {
	q := quadtree.New(bnd)
	for _, o := range ops {
		o := o
		switch o.op {
		case "a":
			q.Add(&qpt{o.id, o.p})
		case "ri":
			q.Remove(&qpt{-1, o.p}, func(p orb.Pointer) bool { return p.(*qpt).id == o.id })
		case "rp":
			q.Remove(&qpt{-1, o.p}, nil)
		}
	}
	return q
}

func runC19(op string, in []string) string {
	return guard(func() string {
		if op != "conc" {
			return "badop"
		}
		r := &tokReader{t: in}
		bnd := orb.Bound{Min: r.pt(), Max: r.pt()}
		nb := r.int()
		ops := make([]c19Build, nb)
		for i := range ops {
			switch o := r.next(); o {
			case "a", "ri":
				ops[i] = c19Build{op: o, id: r.int()}
				ops[i].p = r.pt()
			case "rp":
				ops[i] = c19Build{op: o, p: r.pt()}
			default:
				panic("bad build op " + o)
			}
		}
		m := r.int()
		qs := make([]c19Query, m)
		for i := range qs {
			qs[i] = parseQuery(r)
		}
		g, rounds, useBuf := r.int(), r.int(), r.int() == 1

		// The tree the goroutines will query is NEVER queried before they start: the oracle answers
		// come from a second tree built by the same history, so that state a query writes lazily
		// (a cache, a size hint, a pruned leaf) is not warmed up by the oracle pass.
		q := c19Tree(bnd, ops)
		oracle := c19Tree(bnd, ops)
		before := c19Dump(q)
		oracleBefore := c19Dump(oracle)
		seq := make([]string, m)
		for i, f := range qs {
			seq[i] = f.run(oracle, nil)
		}
		oracleAfter := c19Dump(oracle)

		// concurrent phase: G goroutines, each running all queries `rounds` times from its own offset,
		// alternating between the *Matching methods and their wrappers, and reading Bound()
		same, boundSame := true, true
		var mu sync.Mutex
		var wg sync.WaitGroup
		start := make(chan struct{})
		for t := 0; t < g; t++ {
			wg.Add(1)
			go func(t int) {
				defer wg.Done()
				var buf []orb.Pointer
				if useBuf {
					buf = make([]orb.Pointer, 0, 16) // per-goroutine buffer
				}
				ok, bok := true, true
				<-start
				for rd := 0; rd < rounds; rd++ {
					for j := 0; j < m; j++ {
						i := (j + t) % m
						f := qs[i].run
						if qs[i].alt != nil && (t+j+rd)%2 == 1 {
							f = qs[i].alt
						}
						if got := f(q, buf); got != seq[i] {
							ok = false
						}
					}
					if q.Bound() != bnd {
						bok = false
					}
				}
				mu.Lock()
				same = same && ok
				boundSame = boundSame && bok
				mu.Unlock()
			}(t)
		}
		close(start)
		wg.Wait()
		after := c19Dump(q)
		// and once more sequentially on the tree the goroutines used
		late := true
		for i, f := range qs {
			if f.run(q, nil) != seq[i] {
				late = false
			}
			if f.alt != nil && f.alt(q, nil) != seq[i] {
				late = false
			}
		}
		afterLate := c19Dump(q)
		out := append(seq, fmt.Sprintf("F %s %s %s %s %s %s", b2s(same), b2s(before == after && after == afterLate), b2s(before == oracleBefore),
			b2s(oracleBefore == oracleAfter), b2s(late), b2s(boundSame)))
		return strings.Join(out, " ; ")
	})
}

func genC19(c *Ctx) {
	r := c.Rng
	bound := "c024000000000000 c024000000000000 4024000000000000 4024000000000000"
	for k := 0; k < c.Budget && !c.Exhausted(); k++ {
		h := &histGen{c: c}
		na := 4 + r.Intn(12)
		for i := 0; i < na; i++ {
			if r.Intn(4) == 0 {
				h.pts = append(h.pts, orb.Point{[]float64{0, 5, -5, 2.5, 10, -10}[r.Intn(6)], []float64{0, 5, -5, 2.5, 10, -10}[r.Intn(6)]})
			} else {
				h.pts = append(h.pts, orb.Point{float64(r.Intn(41)-20) / 2, float64(r.Intn(41)-20) / 2})
			}
		}
		var build, queries []string
		nb := 5 + r.Intn(80)
		withRemovals := r.Intn(2) == 0
		for len(build) < nb {
			o := h.op()
			switch o[0] {
			case 'a':
				build = append(build, o)
			case 'r':
				if withRemovals {
					build = append(build, o)
				}
			}
		}
		m := 4 + r.Intn(20)
		for len(queries) < m {
			o := h.op()
			if o[0] == 'f' || o[0] == 'm' || o[0] == 'k' || o[0] == 'b' {
				queries = append(queries, o)
			}
		}
		g := []int{2, 2, 4, 8, 16, 32}[r.Intn(6)]
		rounds := 1 + r.Intn(8)
		c.Case("conc", fmt.Sprintf("%s %d %s %d %s %d %d %d", bound, len(build), strings.Join(build, " "), m, strings.Join(queries, " "), g, rounds, r.Intn(2)))
	}
}
