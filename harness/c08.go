package main

import (
	"fmt"
	"math"
	"strings"

	"github.com/paulmach/orb"
	"github.com/paulmach/orb/clip"
)

func init() { register(&Prop{ID: "C08", Run: runC08, Gen: genC08}) }

func ringOrNil(r orb.Ring) string {
	if len(r) == 0 {
		return "nil"
	}
	return spts(r)
}

func runC08(op string, in []string) string {
	return guard(func() string {
		r := &tokReader{t: in}
		switch op {
		case "ring":
			box := rdBound(r)
			rg := orb.Ring(r.pts())
			return ringOrNil(clip.Ring(box, rg.Clone()))
		case "split":
			box := rdBound(r)
			axis := r.int()
			c := r.f()
			rg := orb.Ring(r.pts())
			b1, b2 := box, box
			if axis == 0 {
				b1.Max[0], b2.Min[0] = c, c
			} else {
				b1.Max[1], b2.Min[1] = c, c
			}
			return ringOrNil(clip.Ring(box, rg.Clone())) + " ; " + ringOrNil(clip.Ring(b1, rg.Clone())) + " ; " + ringOrNil(clip.Ring(b2, rg.Clone()))
		case "geom":
			box := rdBound(r)
			g := r.geom()
			out := clip.Geometry(box, orb.Clone(g))
			if out == nil {
				return "nil"
			}
			return gs(out)
		case "cliph": // <box> <heap> <sgeom> : clip.Geometry on the caller's own memory (NOT a clone); lean/Orb/HeapOps.lean
			box := rdBound(r)
			arrays := rdHeap(r)
			g := rdSGeom(r, arrays)
			out := clip.Geometry(box, g)
			// every backing array afterwards and, for each slice of the result, the input array it aliases (or fresh)
			return heapString(arrays) + " " + locString(out, arrays)
		}
		return "badop"
	})
}

// genClosedRing draws closed vertex lists: convex, star-shaped, arbitrary (self-intersecting), on several grids.
func genClosedRing(c *Ctx, mode int) orb.Ring {
	r := c.Rng
	var ps []orb.Point
	switch r.Intn(4) {
	case 0: // star-shaped around a centre
		n := 3 + r.Intn(8)
		cx, cy := r.Float64()*6, r.Float64()*6
		for i := 0; i < n; i++ {
			a := 2 * math.Pi * (float64(i) + r.Float64()*0.8) / float64(n)
			rad := 0.5 + r.Float64()*3.5
			ps = append(ps, orb.Point{cx + rad*math.Cos(a), cy + rad*math.Sin(a)})
		}
	case 1: // axis-aligned rectangle (edges along the box boundary are likely on grids)
		x0, y0 := float64(r.Intn(6)), float64(r.Intn(6))
		x1, y1 := x0+1+float64(r.Intn(4)), y0+1+float64(r.Intn(4))
		ps = []orb.Point{{x0, y0}, {x1, y0}, {x1, y1}, {x0, y1}}
	default: // arbitrary closed vertex list
		n := 3 + r.Intn(7)
		for i := 0; i < n; i++ {
			ps = append(ps, orb.Point{r.Float64() * 7, r.Float64() * 7})
		}
	}
	for i := range ps {
		switch mode {
		case 0:
			ps[i] = orb.Point{math.Round(ps[i][0]), math.Round(ps[i][1])}
		case 1:
			ps[i] = orb.Point{math.Round(ps[i][0]*2) / 2, math.Round(ps[i][1]*2) / 2}
		}
	}
	if r.Intn(10) != 0 {
		ps = append(ps, ps[0])
	}
	if r.Intn(2) == 0 { // reverse orientation
		for i, j := 0, len(ps)-1; i < j; i, j = i+1, j-1 {
			ps[i], ps[j] = ps[j], ps[i]
		}
	}
	return orb.Ring(ps)
}

func genC08(c *Ctx) {
	r := c.Rng
	for k := 0; k < c.Budget && !c.Exhausted(); k++ {
		mode := r.Intn(3)
		x0, y0 := float64(1+r.Intn(3)), float64(1+r.Intn(3))
		x1, y1 := x0+float64(1+r.Intn(3)), y0+float64(1+r.Intn(3))
		if mode == 2 && r.Intn(2) == 0 {
			x0, y0 = r.Float64()*3, r.Float64()*3
			x1, y1 = x0+0.5+r.Float64()*3, y0+0.5+r.Float64()*3
		}
		box := fmt.Sprintf("%s %s %s %s", fb(x0), fb(y0), fb(x1), fb(y1))
		rg := genClosedRing(c, mode)
		qs := make([]orb.Point, 12)
		for i := range qs {
			qs[i] = orb.Point{x0 + (x1-x0)*r.Float64(), y0 + (y1-y0)*r.Float64()}
		}
		c.Case("ring", box+" "+spts(rg)+" "+spts(qs))
		// split the box
		axis := r.Intn(2)
		var cc float64
		if axis == 0 {
			cc = x0 + (x1-x0)*float64(1+r.Intn(3))/4
		} else {
			cc = y0 + (y1-y0)*float64(1+r.Intn(3))/4
		}
		if len(rg) > 0 && rg[0] == rg[len(rg)-1] {
			c.Case("split", fmt.Sprintf("%s %d %s %s", box, axis, fb(cc), spts(rg)))
		}
		// generic entry point over every kind
		var g orb.Geometry
		switch r.Intn(5) {
		case 0:
			p := orb.Polygon{genClosedRing(c, mode)}
			for h := r.Intn(3); h > 0; h-- {
				p = append(p, genClosedRing(c, mode))
			}
			g = p
		case 1:
			mp := orb.MultiPolygon{}
			for h := r.Intn(3); h >= 0; h-- {
				mp = append(mp, orb.Polygon{genClosedRing(c, mode)})
			}
			g = mp
		default:
			g = genGeom(r, GenOpts{Mode: []CoordMode{CoordSmallInt, CoordHalf, CoordModest}[mode], MaxPts: 6, MaxDepth: 2}, 0)
		}
		if strings.Contains(gs(g), "n") && false {
			continue
		}
		c.Case("geom", box+" "+gs(g))

		// the same entry point on the caller's own memory, slices sharing backing arrays
		hb := &heapBuilder{r: r,
			content: func(kind string) []orb.Point {
				switch kind {
				case "R", "PG", "MPG":
					return genClosedRing(c, mode)
				}
				// 0-d / 1-d members: vertices around the box so that lines are cut into several pieces
				n := size(r, 6)
				ps := make([]orb.Point, n)
				for i := range ps {
					ps[i] = orb.Point{r.Float64()*8 - 0.5, r.Float64()*8 - 0.5}
					switch mode {
					case 0:
						ps[i] = orb.Point{math.Round(ps[i][0]), math.Round(ps[i][1])}
					case 1:
						ps[i] = orb.Point{math.Round(ps[i][0]*2) / 2, math.Round(ps[i][1]*2) / 2}
					}
				}
				return ps
			},
			filler: func() orb.Point {
				p := orb.Point{r.Float64()*8 - 0.5, r.Float64()*8 - 0.5}
				switch mode {
				case 0:
					p = orb.Point{math.Round(p[0]), math.Round(p[1])}
				case 1:
					p = orb.Point{math.Round(p[0]*2) / 2, math.Round(p[1]*2) / 2}
				}
				return p
			}}
		c.Case("cliph", box+" "+hb.build(clipHKinds, r.Intn(4)))
	}
}

var clipHKinds = []string{"R", "R", "PG", "PG", "PG", "MPG", "MPG", "C", "C", "C", "LS", "MLS", "MP", "P", "B"}
