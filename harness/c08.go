package main

import (
	"fmt"
	"math"
	"math/rand"
	"strconv"
	"strings"
	"unsafe"

	"github.com/paulmach/orb"
	"github.com/paulmach/orb/clip"
	"github.com/paulmach/orb/encoding/mvt"
	"github.com/paulmach/orb/geojson"
)

func init() { register(&Prop{ID: "C08", Run: runC08, Gen: genC08}) }

func ringOrNil(r orb.Ring) string {
	if len(r) == 0 {
		return "nil"
	}
	return spts(r)
}

func runC08(op string, in []string) string {
	return guard(func() string {
		r := &tokReader{t: in}
		switch op {
		case "ring":
			box := rdBound(r)
			rg := orb.Ring(r.pts())
			return ringOrNil(clip.Ring(box, rg.Clone()))
		case "split":
			box := rdBound(r)
			axis := r.int()
			c := r.f()
			rg := orb.Ring(r.pts())
			b1, b2 := box, box
			if axis == 0 {
				b1.Max[0], b2.Min[0] = c, c
			} else {
				b1.Max[1], b2.Min[1] = c, c
			}
			return ringOrNil(clip.Ring(box, rg.Clone())) + " ; " + ringOrNil(clip.Ring(b1, rg.Clone())) + " ; " + ringOrNil(clip.Ring(b2, rg.Clone()))
		case "geom":
			box := rdBound(r)
			g := r.geom()
			out := clip.Geometry(box, orb.Clone(g))
			if out == nil {
				return "nil"
			}
			return gs(out)
		case "reach": // <n>: the generator's reach self-test (clipreach.go), judged by the driver
			return in[0]
		case "layer": // <box> [E<Extent>v<Version>] <L> (<k> <gval>^k)^L : (*mvt.Layer).Clip (one layer) / mvt.Layers.Clip (several)
			box := rdBound(r)
			extent, version := 4096, 2
			if r.i < len(r.t) && strings.HasPrefix(r.t[r.i], "E") { // the receiver's other fields are part of the case
				ev := strings.SplitN(r.next()[1:], "v", 2)
				extent, version = pi(ev[0]), pi(ev[1])
			}
			layers := make(mvt.Layers, r.int())
			origs := make([][]*geojson.Feature, len(layers))
			id := 0
			for i := range layers {
				fs := make([]*geojson.Feature, r.int())
				for j := range fs {
					fs[j] = geojson.NewFeature(r.geom())
					fs[j].ID = id
					id++
				}
				origs[i] = fs
				layers[i] = &mvt.Layer{Name: "l" + strconv.Itoa(i), Version: uint32(version), Extent: uint32(extent), Features: fs}
			}
			if len(layers) == 1 {
				layers[0].Clip(box)
			} else {
				layers.Clip(box)
			}
			// per layer: the surviving features (identity + geometry), then the identities the cells
			// [len, n) of the ORIGINAL backing array now hold, then a (same array) / m (moved)
			var parts []string
			for i, l := range layers {
				o := origs[i]
				sb := []string{strconv.Itoa(len(l.Features))}
				for _, f := range l.Features {
					sb = append(sb, strconv.Itoa(f.ID.(int)), gs(f.Geometry))
				}
				sb = append(sb, strconv.Itoa(len(o)-len(l.Features)))
				for _, f := range o[len(l.Features):] {
					sb = append(sb, strconv.Itoa(f.ID.(int)))
				}
				same := cap(l.Features) == cap(o) && len(l.Features) <= len(o)
				if same && cap(o) > 0 {
					same = unsafe.Pointer(&l.Features[:1][0]) == unsafe.Pointer(&o[:1][0])
				}
				// the cells [0, len) of the original array ARE the survivors (in-place compaction)
				for j := range l.Features {
					if same && o[j] != l.Features[j] {
						same = false
					}
				}
				if same {
					sb = append(sb, "a")
				} else {
					sb = append(sb, "m")
				}
				parts = append(parts, strings.Join(sb, " "))
			}
			if len(parts) == 0 {
				return "none"
			}
			return strings.Join(parts, " ")
		case "cliph": // <box> <heap> <sgeom> : clip.Geometry on the caller's own memory (NOT a clone); lean/Orb/HeapOps.lean
			box := rdBound(r)
			arrays := rdHeap(r)
			g := rdSGeom(r, arrays)
			out := clip.Geometry(box, g)
			// every backing array afterwards and, for each slice of the result, the input array it aliases (or fresh)
			return heapString(arrays) + " " + locString(out, arrays)
		}
		return "badop"
	})
}

// genClosedRing draws closed vertex lists: convex, star-shaped, arbitrary (self-intersecting), on several grids.
func genClosedRing(c *Ctx, mode int) orb.Ring {
	r := c.Rng
	var ps []orb.Point
	switch r.Intn(4) {
	case 0: // star-shaped around a centre
		n := 3 + r.Intn(8)
		cx, cy := r.Float64()*6, r.Float64()*6
		for i := 0; i < n; i++ {
			a := 2 * math.Pi * (float64(i) + r.Float64()*0.8) / float64(n)
			rad := 0.5 + r.Float64()*3.5
			ps = append(ps, orb.Point{cx + rad*math.Cos(a), cy + rad*math.Sin(a)})
		}
	case 1: // axis-aligned rectangle (edges along the box boundary are likely on grids)
		x0, y0 := float64(r.Intn(6)), float64(r.Intn(6))
		x1, y1 := x0+1+float64(r.Intn(4)), y0+1+float64(r.Intn(4))
		ps = []orb.Point{{x0, y0}, {x1, y0}, {x1, y1}, {x0, y1}}
	default: // arbitrary closed vertex list
		n := 3 + r.Intn(7)
		for i := 0; i < n; i++ {
			ps = append(ps, orb.Point{r.Float64() * 7, r.Float64() * 7})
		}
	}
	for i := range ps {
		switch mode {
		case 0:
			ps[i] = orb.Point{math.Round(ps[i][0]), math.Round(ps[i][1])}
		case 1:
			ps[i] = orb.Point{math.Round(ps[i][0]*2) / 2, math.Round(ps[i][1]*2) / 2}
		}
	}
	if r.Intn(10) != 0 {
		ps = append(ps, ps[0])
	}
	if r.Intn(2) == 0 { // reverse orientation
		for i, j := 0, len(ps)-1; i < j; i, j = i+1, j-1 {
			ps[i], ps[j] = ps[j], ps[i]
		}
	}
	return orb.Ring(ps)
}

// snap puts a coordinate on the grid of the mode (0 integer, 1 half-integer, 2 general position).
func snap(mode int, v float64) float64 {
	switch mode {
	case 0:
		return math.Round(v)
	case 1:
		return math.Round(v*2) / 2
	}
	return v
}

// genWrapRing draws closed rings that go AROUND the box without entering it, or only touch it: a frame
// with a slit (narrow, or a whole side: a C), at inner margin mi >= 0 (0: the frame's inner edge runs along
// the box boundary) and outer margin mo > mi; or a rectangle that shares an edge / a corner with the box.
// Sutherland-Hodgman leaves zero-area rings along the box boundary for these.
func genWrapRing(r *rand.Rand, mode int, x0, y0, x1, y1 float64) orb.Ring {
	step := []float64{1, 0.5, 0.3}[mode]
	var ps []orb.Point
	transpose := r.Intn(2) == 0
	if transpose {
		x0, y0, x1, y1 = y0, x0, y1, x1
	}
	switch r.Intn(5) {
	case 4: // inscribed: every vertex in the closed box, most of them ON its sides and corners ("unchanged")
		n := 3 + r.Intn(5)
		for i := 0; i < n; i++ {
			x := snap(mode, x0+r.Float64()*(x1-x0))
			y := snap(mode, y0+r.Float64()*(y1-y0))
			switch r.Intn(6) {
			case 0:
				x = x0
			case 1:
				x = x1
			case 2:
				y = y0
			case 3:
				y = y1
			case 4:
				x, y = []float64{x0, x1}[r.Intn(2)], []float64{y0, y1}[r.Intn(2)]
			}
			if x < x0 || x > x1 {
				x = x1
			}
			if y < y0 || y > y1 {
				y = y1
			}
			ps = append(ps, orb.Point{x, y})
		}
	case 0: // rectangle sharing (part of) the right edge
		d := step * float64(1+r.Intn(3))
		a, b := y0-step*float64(r.Intn(3)), y1+step*float64(r.Intn(3))
		if r.Intn(3) == 0 {
			a = y0 + step
			if a >= b {
				a = y0
			}
		}
		ps = []orb.Point{{x1, a}, {x1 + d, a}, {x1 + d, b}, {x1, b}}
	case 1: // rectangle touching a corner only
		d := step * float64(1+r.Intn(3))
		ps = []orb.Point{{x1, y1}, {x1 + d, y1}, {x1 + d, y1 + d}, {x1, y1 + d}}
	default: // frame with a slit in its top side
		mi := step * float64(r.Intn(3))
		if mode == 2 && mi > 0 {
			mi = r.Float64()
		}
		mo := mi + step*float64(1+r.Intn(2))
		a := x0 + step*float64(r.Intn(2))
		b := a + step
		if r.Intn(4) == 0 { // the whole top side is missing: a C
			a, b = x0-mi, x1+mi
		}
		if b > x1+mi {
			b = x1 + mi
		}
		ps = []orb.Point{{x0 - mo, y0 - mo}, {x1 + mo, y0 - mo}, {x1 + mo, y1 + mo}, {b, y1 + mo}, {b, y1 + mi},
			{x1 + mi, y1 + mi}, {x1 + mi, y0 - mi}, {x0 - mi, y0 - mi}, {x0 - mi, y1 + mi}, {a, y1 + mi}, {a, y1 + mo}, {x0 - mo, y1 + mo}}
	}
	if r.Intn(2) == 0 { // mirror top <-> bottom
		for i := range ps {
			ps[i][1] = y0 + y1 - ps[i][1]
		}
	}
	if transpose {
		for i := range ps {
			ps[i][0], ps[i][1] = ps[i][1], ps[i][0]
		}
	}
	// start anywhere, either orientation, explicitly closed
	k := r.Intn(len(ps))
	ps = append(append([]orb.Point{}, ps[k:]...), ps[:k]...)
	if r.Intn(2) == 0 {
		for i, j := 0, len(ps)-1; i < j; i, j = i+1, j-1 {
			ps[i], ps[j] = ps[j], ps[i]
		}
	}
	return orb.Ring(append(ps, ps[0]))
}

// c08Box is the clip box of one iteration together with the generators positioned relative to it.
type c08Box struct {
	c              *Ctx
	mode           int
	x0, y0, x1, y1 float64
	off            float64 // shift applied to genClosedRing's [0,7] window (boxes around the origin)
}

func (b *c08Box) bound() orb.Bound {
	return orb.Bound{Min: orb.Point{b.x0, b.y0}, Max: orb.Point{b.x1, b.y1}}
}

func (b *c08Box) ring() orb.Ring {
	rg := b.ring0()
	// one ring in six: some of its vertices are moved to a NEAR MISS of the box (clipnear.go: one ulp, a few
	// ulps, 1e-15 .. 1e-7 inside or outside an edge, one or both coordinates); a closed ring stays closed
	if b.c.Rng.Intn(6) == 0 {
		rg = clipNudgeGeom(b.c.Rng, b.bound(), rg, 1+b.c.Rng.Intn(4)).(orb.Ring)
	}
	return rg
}

func (b *c08Box) ring0() orb.Ring {
	if b.c.Rng.Intn(6) == 0 {
		return genWrapRing(b.c.Rng, b.mode, b.x0, b.y0, b.x1, b.y1)
	}
	rg := genClosedRing(b.c, b.mode)
	if b.off != 0 {
		for i := range rg {
			rg[i][0] += b.off
			rg[i][1] += b.off
		}
	}
	return rg
}

// nearCoord draws one coordinate around [lo, hi]: in the interval grown by 1 or by 2 (on the grid of the
// mode), or — one time in four — exactly lo / exactly hi (general-position boxes have no other way to get
// a 0-d / 1-d vertex ON the boundary) or a NEAR MISS of lo / hi, inside or outside (clipnear.go).
func (b *c08Box) nearCoord(lo, hi float64) float64 {
	r := b.c.Rng
	switch r.Intn(8) {
	case 0:
		if r.Intn(2) == 0 {
			return lo
		}
		return hi
	case 1:
		return clipNearCoord(r, lo, hi, false)
	}
	m := float64(1 + r.Intn(2))
	return snap(b.mode, lo-m+r.Float64()*(hi-lo+2*m))
}

// near draws a point around the box (see nearCoord): points, multi-point members, line vertices, Bound corners.
func (b *c08Box) near() orb.Point {
	return orb.Point{b.nearCoord(b.x0, b.x1), b.nearCoord(b.y0, b.y1)}
}

func (b *c08Box) nearPts(max int) []orb.Point {
	ps := make([]orb.Point, size(b.c.Rng, max))
	for i := range ps {
		ps[i] = b.near()
	}
	return ps
}

func (b *c08Box) polygon() orb.Polygon {
	p := orb.Polygon{b.ring()}
	for h := b.c.Rng.Intn(3); h > 0; h-- {
		p = append(p, b.ring())
	}
	return p
}

// nearGeom draws a geometry of any kind whose members lie around the box (so that several members of a
// collection survive), including the empty values whose Bound() is the emptyBound sentinel {(1,1),(-1,-1)}
// and ill-formed / empty Bounds.
func (b *c08Box) nearGeom(depth int) orb.Geometry {
	r := b.c.Rng
	k := r.Intn(11)
	if k == 10 && depth >= 2 {
		k = r.Intn(10)
	}
	switch k {
	case 0:
		return b.near()
	case 1:
		return orb.MultiPoint(b.nearPts(4))
	case 2:
		return orb.LineString(b.nearPts(5))
	case 3:
		m := make(orb.MultiLineString, size(r, 3))
		for i := range m {
			m[i] = orb.LineString(b.nearPts(4))
		}
		return m
	case 4:
		return b.ring()
	case 5:
		return b.polygon()
	case 6:
		m := make(orb.MultiPolygon, size(r, 3))
		for i := range m {
			m[i] = b.polygon()
			if r.Intn(6) == 0 {
				m[i] = orb.Polygon{} // Bound() of an empty polygon is the sentinel
			}
		}
		return m
	case 7:
		p, q := b.near(), b.near()
		if p[0] > q[0] {
			p[0], q[0] = q[0], p[0]
		}
		if p[1] > q[1] {
			p[1], q[1] = q[1], p[1]
		}
		switch r.Intn(8) {
		case 0: // inverted on both axes
			p, q = q, p
		case 1: // inverted on one axis
			p[0], q[0] = q[0], p[0]
		case 2: // the package's empty sentinel
			p, q = orb.Point{1, 1}, orb.Point{-1, -1}
		case 3: // the zero value
			p, q = orb.Point{}, orb.Point{}
		}
		return orb.Bound{Min: p, Max: q}
	case 8: // an empty value: its Bound() is the sentinel, which a box around the origin intersects
		switch r.Intn(7) {
		case 0:
			return orb.MultiPoint{}
		case 1:
			return orb.LineString{}
		case 2:
			return orb.MultiLineString{}
		case 3:
			return orb.Ring{}
		case 4:
			return orb.Polygon{}
		case 5:
			return orb.MultiPolygon{}
		default:
			return orb.Collection{}
		}
	case 9:
		return b.polygon()
	default:
		c := make(orb.Collection, 1+r.Intn(4))
		for i := range c {
			c[i] = b.nearGeom(depth + 1)
		}
		return c
	}
}

// the reviewers' witnesses, replayed at the head of every run (shard 0)
var c08Fixed = []string{
	// frame with a slit around [1,3]^2 at distance 0.5: a ring disjoint from the box
	"ring 1 1 3 3 | 0 0 4 0 4 4 2.1 4 2.1 3.5 3.5 3.5 3.5 0.5 0.5 0.5 0.5 3.5 1.9 3.5 1.9 4 0 4 0 0 | 2 2",
	"geom 1 1 3 3 PG 1 | 0 0 4 0 4 4 2.1 4 2.1 3.5 3.5 3.5 3.5 0.5 0.5 0.5 0.5 3.5 1.9 3.5 1.9 4 0 4 0 0",
	// rectangle sharing the right edge of the box
	"ring 1 1 3 3 | 3 1 5 1 5 3 3 3 3 1 | 2 2",
	// empty Bound arguments (former finding C08-empty-bound-returns-box, fixed in orb: must clip to nil)
	"geom -2 -2 2 2 B 1 1 -1 -1",
	"geom 1 1 4 4 B 3 2 2 3",
	// a hole that covers the box
	"geom 1 1 3 3 PG 2 | 0 0 5 0 5 5 0 5 0 0 | 0.5 0.5 0.5 4 4 4 4 0.5 0.5 0.5",
	// outer ring and hole adjacent in one buffer: buf[0:5], buf[5:10] (review item 2)
	"cliph 1 1 3 3 1 | 2 -1 5 2 2 5 -1 2 2 -1 1.5 1.5 1.5 2.5 2.5 2.5 2.5 1.5 1.5 1.5 PG 2 0 0 5 10 0 5 5 5",
	// empty values inside a box around the origin (the emptyBound sentinel passes the pre-test)
	"geom -2 -2 2 2 C 3 PG 0 MP | B 0 0 0 0",
	"layer -2 -2 2 2 1 4 P 5 5 P 0 0 nil P 1 1",
}

// fixedLine turns the readable form above (decimal coordinates, "|" before a vertex list whose count is
// to be inserted) into protocol tokens.
func fixedLine(s string) (op, in string) {
	f := strings.Fields(s)
	op = f[0]
	var out []string
	isNum := func(t string) bool { _, err := strconv.ParseFloat(t, 64); return err == nil }
	i := 1
	nbox := 4
	for ; i < len(f) && nbox > 0; i, nbox = i+1, nbox-1 { // the box
		v, _ := strconv.ParseFloat(f[i], 64)
		out = append(out, fb(v))
	}
	for i < len(f) {
		t := f[i]
		switch {
		case t == "|": // vertex list: count + coordinates
			j := i + 1
			for j < len(f) && isNum(f[j]) {
				j++
			}
			out = append(out, strconv.Itoa((j-i-1)/2))
			for _, c := range f[i+1 : j] {
				v, _ := strconv.ParseFloat(c, 64)
				out = append(out, fb(v))
			}
			i = j
		case t == "P" || t == "B": // coordinates follow directly
			n := 2
			if t == "B" {
				n = 4
			}
			out = append(out, t)
			for _, c := range f[i+1 : i+1+n] {
				v, _ := strconv.ParseFloat(c, 64)
				out = append(out, fb(v))
			}
			i += 1 + n
		default:
			out = append(out, t)
			i++
		}
	}
	return op, strings.Join(out, " ")
}

// c08NearBoxes: the boxes of the deterministic near-miss sweep (around the origin included: the emptyBound
// sentinel intersects it).
var c08NearBoxes = []orb.Bound{
	{Min: orb.Point{1, 2}, Max: orb.Point{3, 5}},
	{Min: orb.Point{0, 0}, Max: orb.Point{1, 1}},
	{Min: orb.Point{-2, -1.5}, Max: orb.Point{1.5, 2}},
	{Min: orb.Point{0.3137066217615, 1.7713900482}, Max: orb.Point{2.90210746105, 3.1000000000001}},
}

// genC08Near: for every box above, axis, edge (lo / hi) and offset of clipNearOffsets (1, 2, 5 ulps, 1e-15 .. 1e-7,
// inside and outside the edge): a vertex P with that coordinate, the other coordinate inside / exactly on
// an edge of the other axis / the same near miss of it (next to a corner), in every kind of geometry —
// point, multi-point (alone, with a far member, with an inside member), Bound (P as the near corner of a
// Bound that otherwise lies inside, and of one that lies outside), line string, multi line string, ring and
// polygon (a triangle with apex P; a rectangle with a side through P) — through clip.Geometry (`geom`),
// clip.Ring (`ring`) and (*mvt.Layer).Clip (`layer`).  In every tier and run, sharded.
func genC08Near(c *Ctx) {
	idx := 0
	for _, b := range c08NearBoxes {
		bt := fmt.Sprintf("%s %s %s %s", fb(b.Min[0]), fb(b.Min[1]), fb(b.Max[0]), fb(b.Max[1]))
		w := [2]float64{b.Max[0] - b.Min[0], b.Max[1] - b.Min[1]}
		mid := orb.Point{b.Min[0] + w[0]*0.375, b.Min[1] + w[1]*0.625}
		mid2 := orb.Point{b.Min[0] + w[0]*0.75, b.Min[1] + w[1]*0.25}
		qs := spts([]orb.Point{mid, mid2, {b.Min[0] + w[0]*0.5, b.Min[1] + w[1]*0.5}})
		for axis := 0; axis < 2; axis++ {
			o := 1 - axis
			for edge := 0; edge < 2; edge++ {
				e, eo, sgn := b.Min[axis], b.Min[o], -1.0
				if edge == 1 {
					e, eo, sgn = b.Max[axis], b.Max[o], 1.0
				}
				offs, offsO := clipNearOffsets(e), clipNearOffsets(eo)
				for k, v := range offs {
					idx++
					if !c.Mine(idx) {
						continue
					}
					for other := 0; other < 3; other++ {
						var p, far, out2 orb.Point
						p[axis] = v
						switch other {
						case 0:
							p[o] = mid[o]
						case 1:
							p[o] = eo
						default:
							p[o] = offsO[k%len(offsO)]
						}
						far[axis], far[o] = e+sgn*2*w[axis], mid[o]  // well outside, beyond the same edge
						out2[axis], out2[o] = e+sgn*w[axis], mid2[o] // another point outside beyond that edge
						// a Bound from P to an inside point / to an outside point, corners ordered
						mk := func(a, q orb.Point) orb.Bound {
							return orb.Bound{Min: orb.Point{math.Min(a[0], q[0]), math.Min(a[1], q[1])}, Max: orb.Point{math.Max(a[0], q[0]), math.Max(a[1], q[1])}}
						}
						// a rectangle with one side on the line (axis = v), reaching to the inside point mid2 / to the outside point out2
						rect := func(q orb.Point) orb.Ring {
							var a, bb, cc, d orb.Point
							a[axis], a[o] = v, mid[o]
							bb[axis], bb[o] = v, q[o]
							cc[axis], cc[o] = q[axis], q[o]
							d[axis], d[o] = q[axis], mid[o]
							return orb.Ring{a, bb, cc, d, a}
						}
						gsv := []orb.Geometry{
							p,
							orb.MultiPoint{p}, orb.MultiPoint{p, far}, orb.MultiPoint{far, p, mid}, orb.MultiPoint{p, p},
							mk(p, mid), mk(p, far),
							orb.LineString{mid, p}, orb.LineString{p, out2}, orb.LineString{far, p}, orb.LineString{p, far, out2},
							orb.MultiLineString{{mid, p}, {p, out2}}, orb.MultiLineString{{far, p}},
							orb.Ring{mid, p, mid2, mid}, orb.Ring{far, p, out2, far},
							rect(mid2), rect(out2),
							orb.Polygon{rect(mid2)}, orb.Polygon{{far, p, out2, far}},
							orb.MultiPolygon{{rect(out2)}, {{mid, p, mid2, mid}}},
							orb.Collection{p, orb.MultiPoint{p, far}, orb.LineString{p, out2}, mk(p, far)},
						}
						var feats []string
						for _, g := range gsv {
							c.Case("geom", bt+" "+gs(g))
							if rg, ok := g.(orb.Ring); ok {
								c.Case("ring", bt+" "+spts(rg)+" "+qs)
							}
							feats = append(feats, gs(g))
						}
						c.Case("layer", fmt.Sprintf("%s 1 %d %s", bt, len(feats), strings.Join(feats, " ")))
					}
				}
			}
		}
	}
}

// c08Extents: the Extent of the receiver of (*mvt.Layer).Clip (0: a layer that was never projected / built by hand).
var c08Extents = []int{0, 1, 2, 4, 256, 4096}

// genC08Extent: (*mvt.Layer).Clip / Layers.Clip with the receiver's Extent (and Version) as part of the case
// (token `E<Extent>v<Version>` after the box), on boxes placed relative to the tile square [0, Extent]^2 — equal to it, covering it (by a
// sixteenth, a half, a whole extent: mvt.MapboxGLDefaultExtentBound for 4096; by one unit), straddling it,
// inside it, beside it — with features (points, multi points, lines, rectangles, triangles, collections)
// whose vertices lie inside, outside and across the BOX, at tile-coordinate magnitudes (integer and
// general position).  Clipping must not depend on the Extent: a box that covers the tile still cuts the
// features of a buffered tile.
func genC08Extent(c *Ctx, n int) {
	r := c.Rng
	for k := 0; k < n; k++ {
		ext := c08Extents[r.Intn(len(c08Extents))]
		e := float64(ext)
		if ext == 0 {
			e = []float64{1, 4, 4096}[r.Intn(3)]
		}
		var x0, y0, x1, y1 float64
		switch r.Intn(9) {
		case 0: // the tile square itself
			x0, y0, x1, y1 = 0, 0, e, e
		case 1: // the buffered tile of mapbox-gl
			if ext == 4096 || r.Intn(3) == 0 {
				b := mvt.MapboxGLDefaultExtentBound
				x0, y0, x1, y1 = b.Min[0], b.Min[1], b.Max[0], b.Max[1]
			} else {
				x0, y0, x1, y1 = -e, -e, 2*e-1, 2*e-1
				if x1 <= x0 {
					x1, y1 = 2*e, 2*e
				}
			}
		case 2: // covers the tile by a buffer
			m := e * []float64{0.0625, 0.5, 1, 3}[r.Intn(4)]
			x0, y0, x1, y1 = -m, -m, e+m, e+m
		case 3: // covers the tile by one unit / by a general-position margin, per side
			mg := func() float64 {
				if r.Intn(2) == 0 {
					return float64(r.Intn(2))
				}
				return r.Float64() * e / 8
			}
			x0, y0, x1, y1 = -mg(), -mg(), e+mg(), e+mg()
		case 4: // straddles the tile: contains one of its corners only
			x0, y0, x1, y1 = e/4, e/4, e*1.5, e*1.5
			if r.Intn(2) == 0 {
				x0, y0, x1, y1 = -e/2, -e/2, e/2, e/2
			}
			if r.Intn(2) == 0 {
				y0, y1 = -e/8, e+e/8
			}
		case 5: // inside the tile
			x0, y0 = e*float64(r.Intn(3))/8, e*float64(r.Intn(3))/8
			x1, y1 = x0+e*float64(1+r.Intn(4))/8, y0+e*float64(1+r.Intn(4))/8
		case 6: // beside the tile
			x0, y0, x1, y1 = e+e/4, 0, 2*e+e/4, e
		case 7: // general position around the tile
			x0, y0 = -r.Float64()*e, -r.Float64()*e
			x1, y1 = e+(r.Float64()-0.3)*e, e+(r.Float64()-0.3)*e
			if !(x0 < x1 && y0 < y1) {
				x1, y1 = x0+e, y0+e
			}
		default: // the small boxes of the main loop: with Extent 1, 2, 4 they cover the tile
			x0, y0 = float64(r.Intn(4))-2, float64(r.Intn(4))-2
			x1, y1 = x0+float64(1+r.Intn(5)), y0+float64(1+r.Intn(5))
		}
		w, h := x1-x0, y1-y0
		integer := r.Intn(2) == 0
		coord := func(lo, wd float64) float64 {
			var v float64
			switch r.Intn(10) {
			case 0:
				v = lo
			case 1:
				v = lo + wd
			case 2, 3: // beyond the low side
				v = lo - (0.01+r.Float64()*1.5)*wd
			case 4, 5: // beyond the high side
				v = lo + wd + (0.01+r.Float64()*1.5)*wd
			case 6:
				return clipNearCoord(r, lo, lo+wd, false)
			default:
				v = lo + r.Float64()*wd
			}
			if integer {
				v = math.Round(v)
			}
			return v
		}
		pt := func() orb.Point { return orb.Point{coord(x0, w), coord(y0, h)} }
		// a point certainly outside the box / certainly inside it
		outPt := func() orb.Point {
			p := pt()
			if r.Intn(2) == 0 {
				p[0] = x1 + (0.1+r.Float64())*w
			} else {
				p[1] = y0 - (0.1+r.Float64())*h
			}
			return p
		}
		inPt := func() orb.Point { return orb.Point{x0 + (0.1+0.8*r.Float64())*w, y0 + (0.1+0.8*r.Float64())*h} }
		rect := func(a, b orb.Point) orb.Ring {
			if a[0] == b[0] {
				b[0] += w / 4
			}
			if a[1] == b[1] {
				b[1] += h / 4
			}
			return orb.Ring{a, {b[0], a[1]}, b, {a[0], b[1]}, a}
		}
		var feat func(depth int) orb.Geometry
		feat = func(depth int) orb.Geometry {
			switch r.Intn(12) {
			case 0:
				return pt()
			case 1:
				return outPt()
			case 2:
				return orb.MultiPoint{pt(), outPt(), pt()}
			case 3:
				return orb.LineString{pt(), pt(), pt()}
			case 4: // a line wholly outside, beyond one side
				a, b := outPt(), outPt()
				a[0], b[0] = x1+0.2*w, x1+0.9*w
				return orb.LineString{a, b}
			case 5: // across
				return orb.LineString{inPt(), outPt()}
			case 6: // a rectangle wholly outside the box
				a := orb.Point{x1 + (0.05+r.Float64())*w, coord(y0, h)}
				return orb.Polygon{rect(a, orb.Point{a[0] + (0.1+r.Float64())*w, a[1] + (0.1+r.Float64())*h})}
			case 7: // a rectangle across the boundary
				return orb.Polygon{rect(inPt(), outPt())}
			case 8: // inside
				return orb.Polygon{rect(inPt(), inPt())}
			case 9:
				a, b, cc := pt(), pt(), pt()
				return orb.Ring{a, b, cc, a}
			case 10:
				return orb.MultiLineString{{pt(), pt()}, {outPt(), inPt(), outPt()}}
			default:
				if depth > 0 {
					return inPt()
				}
				return orb.Collection{feat(1), feat(1)}
			}
		}
		nl := 1 + r.Intn(2)
		parts := []string{fb(x0), fb(y0), fb(x1), fb(y1), fmt.Sprintf("E%dv%d", ext, 1+r.Intn(2)), strconv.Itoa(nl)}
		for i := 0; i < nl; i++ {
			nf := 1 + r.Intn(5)
			parts = append(parts, strconv.Itoa(nf))
			for j := 0; j < nf; j++ {
				if r.Intn(16) == 0 {
					parts = append(parts, "nil")
				} else {
					parts = append(parts, gs(feat(0)))
				}
			}
		}
		c.Case("layer", strings.Join(parts, " "))
	}
}

// c08CornerDraws: segments drawn per shard by genC08Corner (the clamp arm of clip.line is taken by about one in a
// thousand of them: see clipreach.go).
const c08CornerDraws = 25000

// genC08Corner: the corner-shot family.  A general-position box, a segment from a point inside the box (or
// beside it) aimed exactly at a corner and continued beyond it, the far end computed in float64: the exact
// line misses the corner by rounding only, which is what makes clip.line clip the leaving end twice (against
// the horizontal and the vertical line) and, when it is still a hair outside, snap it with clampToBound.
// c08CornerDraws segments are drawn per shard; those on which a replica of the loop (clipReachClamp) takes
// the clamp arm, and one in sixty of the others, become cases: as a line string (both directions, alone,
// with more vertices, in a multi line string, in a collection), as an mvt feature, and as a ring edge
// (clip.Ring, polygon).  Every reaching case is followed by a `reach 1` line (tag `reach-clamp`); a shard
// that reaches the arm on no case at all emits `reach 0`, which the driver answers `bad reach-gate`.
func genC08Corner(c *Ctx) {
	r := c.Rng
	reached := 0
	for k := 0; k < c08CornerDraws; k++ {
		var box orb.Bound
		switch r.Intn(4) {
		case 0: // around the origin
			box = orb.Bound{Min: orb.Point{-1 - r.Float64()*2, -1 - r.Float64()*2}, Max: orb.Point{1 + r.Float64()*2, 1 + r.Float64()*2}}
		case 1: // tile-coordinate magnitudes
			x0, y0 := (r.Float64()*2-1)*4096, (r.Float64()*2-1)*4096
			box = orb.Bound{Min: orb.Point{x0, y0}, Max: orb.Point{x0 + 1 + r.Float64()*4096, y0 + 1 + r.Float64()*4096}}
		default:
			x0, y0 := r.Float64()*3, r.Float64()*3
			box = orb.Bound{Min: orb.Point{x0, y0}, Max: orb.Point{x0 + 0.5 + r.Float64()*3, y0 + 0.5 + r.Float64()*3}}
		}
		start, far, corner := clipCornerShot(r, box, r.Intn(3) != 0)
		a, b := clipReachClamp(box, []orb.Point{start, far}, false)
		a2, b2 := clipReachClamp(box, []orb.Point{far, start}, false)
		hit := a+b+a2+b2 > 0
		if !hit && k%60 != 0 {
			continue
		}
		bt := fmt.Sprintf("%s %s %s %s", fb(box.Min[0]), fb(box.Min[1]), fb(box.Max[0]), fb(box.Max[1]))
		w, h := box.Max[0]-box.Min[0], box.Max[1]-box.Min[1]
		in2 := orb.Point{box.Min[0] + (0.1+0.8*r.Float64())*w, box.Min[1] + (0.1+0.8*r.Float64())*h}
		// a third vertex beside the box, on the far side of one axis as seen from the corner
		third := orb.Point{2*corner[0] - start[0] + (r.Float64()-0.5)*w, start[1] + (r.Float64()-0.5)*h}
		if r.Intn(2) == 0 {
			third = orb.Point{start[0] + (r.Float64()-0.5)*w, 2*corner[1] - start[1] + (r.Float64()-0.5)*h}
		}
		ls := orb.LineString{start, far}
		rev := orb.LineString{far, start}
		gsv := []orb.Geometry{
			ls, rev,
			orb.LineString{in2, start, far, third, in2},
			orb.LineString{third, far, start, in2},
			orb.MultiLineString{ls, {in2, third}, rev},
			orb.Collection{far, ls, orb.MultiLineString{rev}},
			orb.Polygon{{start, far, third, start}},
		}
		feats := make([]string, len(gsv))
		for i, g := range gsv {
			c.Case("geom", bt+" "+gs(g))
			feats[i] = gs(g)
		}
		qs := make([]orb.Point, 8)
		for i := range qs {
			qs[i] = orb.Point{box.Min[0] + w*r.Float64(), box.Min[1] + h*r.Float64()}
		}
		c.Case("ring", bt+" "+spts([]orb.Point{start, far, third, start})+" "+spts(qs))
		c.Case("ring", bt+" "+spts([]orb.Point{third, far, start, third})+" "+spts(qs))
		c.Case("layer", fmt.Sprintf("%s E%dv%d 1 %d %s", bt, c08Extents[r.Intn(len(c08Extents))], 1+r.Intn(2), len(feats), strings.Join(feats, " ")))
		if hit {
			reached++
			c.Case("reach", "1")
		}
	}
	if reached == 0 {
		c.Case("reach", "0")
	}
}

func genC08(c *Ctx) {
	r := c.Rng
	genC08Near(c)
	genC08Corner(c)
	genC08Extent(c, 200+c.Budget/8)
	if c.Mine(0) {
		for _, s := range c08Fixed {
			op, in := fixedLine(s)
			if op == "cliph" { // heap: <A> then per array a vertex list; the header numbers are plain tokens
				c.Case(op, in)
				continue
			}
			c.Case(op, in)
		}
	}
	for k := 0; k < c.Budget && !c.Exhausted(); k++ {
		mode := r.Intn(3)
		bx := &c08Box{c: c, mode: mode}
		x0, y0 := float64(1+r.Intn(3)), float64(1+r.Intn(3))
		x1, y1 := x0+float64(1+r.Intn(3)), y0+float64(1+r.Intn(3))
		if mode == 2 && r.Intn(2) == 0 {
			x0, y0 = r.Float64()*3, r.Float64()*3
			x1, y1 = x0+0.5+r.Float64()*3, y0+0.5+r.Float64()*3
		}
		if r.Intn(4) == 0 { // a box around the origin: contains [-1,1]^2, so the emptyBound sentinel intersects it
			bx.off = -4
			x0, y0 = -float64(1+r.Intn(3)), -float64(1+r.Intn(3))
			x1, y1 = float64(1+r.Intn(3)), float64(1+r.Intn(3))
			if mode == 2 && r.Intn(2) == 0 {
				x0, y0 = -1-r.Float64()*2, -1-r.Float64()*2
				x1, y1 = 1+r.Float64()*2, 1+r.Float64()*2
			}
		}
		bx.x0, bx.y0, bx.x1, bx.y1 = x0, y0, x1, y1
		box := fmt.Sprintf("%s %s %s %s", fb(x0), fb(y0), fb(x1), fb(y1))
		rg := bx.ring()
		qs := make([]orb.Point, 12)
		for i := range qs {
			qs[i] = orb.Point{x0 + (x1-x0)*r.Float64(), y0 + (y1-y0)*r.Float64()}
		}
		c.Case("ring", box+" "+spts(rg)+" "+spts(qs))
		// split the box
		axis := r.Intn(2)
		var cc float64
		if axis == 0 {
			cc = x0 + (x1-x0)*float64(1+r.Intn(3))/4
		} else {
			cc = y0 + (y1-y0)*float64(1+r.Intn(3))/4
		}
		if len(rg) > 0 && rg[0] == rg[len(rg)-1] {
			c.Case("split", fmt.Sprintf("%s %d %s %s", box, axis, fb(cc), spts(rg)))
		}
		// generic entry point over every kind
		var g orb.Geometry
		switch r.Intn(8) {
		case 0:
			g = bx.polygon()
		case 1:
			mp := orb.MultiPolygon{}
			for h := r.Intn(3); h >= 0; h-- {
				mp = append(mp, orb.Polygon{bx.ring()})
			}
			g = mp
		case 2, 3: // members around the box, empty values, odd Bounds
			g = bx.nearGeom(0)
		case 4: // a collection whose members lie around the box, so that several survive
			cl := make(orb.Collection, 2+r.Intn(3))
			for i := range cl {
				cl[i] = bx.nearGeom(1)
			}
			g = cl
		default:
			g = genGeom(r, GenOpts{Mode: []CoordMode{CoordSmallInt, CoordHalf, CoordModest}[mode], MaxPts: 6, MaxDepth: 2, TopNil: true}, 0)
			if g != nil && r.Intn(3) == 0 { // the shared generator's geometry with some vertices next to the box edges
				g = clipNudgeGeom(r, bx.bound(), g, 1+r.Intn(4))
			}
		}
		c.Case("geom", box+" "+gs(g))

		// mvt: Layer.Clip / Layers.Clip compact the Features slice in place
		if k%3 == 0 {
			nl := 1 + r.Intn(2)
			parts := []string{box, strconv.Itoa(nl)}
			if r.Intn(2) == 0 { // the receiver's Extent / Version as part of the case: with 1, 2, 4 the box covers the tile
				parts = []string{box, fmt.Sprintf("E%dv%d", c08Extents[r.Intn(len(c08Extents))], 1+r.Intn(2)), strconv.Itoa(nl)}
			}
			for i := 0; i < nl; i++ {
				nf := size(r, 5)
				parts = append(parts, strconv.Itoa(nf))
				for j := 0; j < nf; j++ {
					switch r.Intn(10) {
					case 0:
						parts = append(parts, "nil")
					case 1:
						parts = append(parts, []string{"nMP", "nLS", "nMLS", "nR", "nPG", "nMPG", "nC"}[r.Intn(7)])
					default:
						parts = append(parts, gs(bx.nearGeom(1)))
					}
				}
			}
			c.Case("layer", strings.Join(parts, " "))
		}

		// the same entry point on the caller's own memory, slices sharing backing arrays
		hb := &heapBuilder{r: r,
			content: func(kind string) []orb.Point {
				switch kind {
				case "R", "PG", "MPG":
					return bx.ring()
				}
				// 0-d / 1-d members: vertices around the box so that lines are cut into several pieces
				return bx.nearPts(6)
			},
			filler: func() orb.Point { return bx.near() }}
		c.Case("cliph", box+" "+hb.build(clipHKinds, r.Intn(4)))
	}
}

var clipHKinds = []string{"R", "R", "PG", "PG", "PG", "MPG", "MPG", "C", "C", "C", "LS", "MLS", "MP", "P", "B"}
