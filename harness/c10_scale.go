package main

import (
	"math"
	"math/rand"
	"strconv"

	"github.com/paulmach/orb"
	"github.com/paulmach/orb/planar"
)

// Scale invariance by powers of two (white-box round): multiplying every coordinate by 2^k is exact in float64 as long
// as nothing under- or overflows, and every operation of planar/area.go, length.go, distance_from.go commutes with it,
// so CentroidArea(2^k g) = (2^k c, 4^k a), Length(2^k g) = 2^k Length(g), DistanceFrom(2^k g, 2^k q) = 2^k DistanceFrom(g, q)
// BIT FOR BIT (model theorems centroidArea_scale, length_scale, distanceFromWithIndex_scale).  Any absolute threshold
// ("almost zero" areas, "too short" segments, epsilons) breaks it for some k.

// c10ScaleGeom: a deep copy of g with every coordinate multiplied by 2^k (nil stays nil, typed nil stays typed nil).
func c10ScaleGeom(g orb.Geometry, k int) orb.Geometry {
	sp := func(p orb.Point) orb.Point { return orb.Point{math.Ldexp(p[0], k), math.Ldexp(p[1], k)} }
	sps := func(ps []orb.Point) []orb.Point {
		if ps == nil {
			return nil
		}
		out := make([]orb.Point, len(ps))
		for i, p := range ps {
			out[i] = sp(p)
		}
		return out
	}
	spss := func(pg orb.Polygon) orb.Polygon {
		if pg == nil {
			return nil
		}
		out := make(orb.Polygon, len(pg))
		for i, r := range pg {
			out[i] = orb.Ring(sps(r))
		}
		return out
	}
	switch v := g.(type) {
	case nil:
		return nil
	case orb.Point:
		return sp(v)
	case orb.MultiPoint:
		return orb.MultiPoint(sps(v))
	case orb.LineString:
		return orb.LineString(sps(v))
	case orb.Ring:
		return orb.Ring(sps(v))
	case orb.MultiLineString:
		if v == nil {
			return orb.MultiLineString(nil)
		}
		out := make(orb.MultiLineString, len(v))
		for i, l := range v {
			out[i] = orb.LineString(sps(l))
		}
		return out
	case orb.Polygon:
		return spss(v)
	case orb.MultiPolygon:
		if v == nil {
			return orb.MultiPolygon(nil)
		}
		out := make(orb.MultiPolygon, len(v))
		for i, p := range v {
			out[i] = spss(p)
		}
		return out
	case orb.Bound:
		return orb.Bound{Min: sp(v.Min), Max: sp(v.Max)}
	case orb.Collection:
		if v == nil {
			return orb.Collection(nil)
		}
		out := make(orb.Collection, len(v))
		for i, m := range v {
			out[i] = c10ScaleGeom(m, k)
		}
		return out
	}
	panic("c10ScaleGeom: unknown geometry")
}

// c10All: the eight numbers of op `scale` for one geometry and one query point.
func c10All(g orb.Geometry, p orb.Point) string {
	c, a := planar.CentroidArea(g)
	a2 := planar.Area(g)
	l := planar.Length(g)
	d, idx := planar.DistanceFromWithIndex(g, p)
	d2 := planar.DistanceFrom(g, p)
	return fb(c[0]) + " " + fb(c[1]) + " " + fb(a) + " " + fb(a2) + " " + fb(l) + " " + fb(d) + " " + strconv.Itoa(idx) + " " + fb(d2)
}

// runC10Scale: `scale k <gval> px py => <8 numbers of g, p> <8 numbers of 2^k g, 2^k p>`
func runC10Scale(r *tokReader) string {
	k, err := strconv.Atoi(r.next())
	if err != nil {
		return "badk"
	}
	g := r.geom()
	p := r.pt()
	before := gs(g)
	base := c10All(g, p)
	if gs(g) != before {
		return "mutated-argument"
	}
	sg := c10ScaleGeom(g, k)
	sq := orb.Point{math.Ldexp(p[0], k), math.Ldexp(p[1], k)}
	return base + " " + c10All(sg, sq)
}

// c10ExpRange: the binary exponents spanned by the non-zero coordinates: hi = exponent of the largest magnitude,
// lo = exponent of the lowest set bit of any coordinate (every coordinate is a multiple of 2^lo).  ok = false when
// there is no non-zero finite coordinate.
func c10ExpRange(vals []float64) (lo, hi int, ok bool) {
	lo, hi = 1<<30, -(1 << 30)
	for _, v := range vals {
		if v == 0 || math.IsInf(v, 0) || math.IsNaN(v) {
			continue
		}
		fr, e := math.Frexp(math.Abs(v)) // v = fr * 2^e, fr in [0.5, 1)
		m := uint64(math.Ldexp(fr, 53))   // 53-bit integer mantissa
		tz := 0
		for m&1 == 0 {
			m >>= 1
			tz++
		}
		if e > hi {
			hi = e
		}
		if l := e - 53 + tz; l < lo {
			lo = l
		}
		ok = true
	}
	return
}

func c10Coords(g orb.Geometry, extra ...orb.Point) []float64 {
	var vs []float64
	var walk func(g orb.Geometry)
	walk = func(g orb.Geometry) {
		switch v := g.(type) {
		case nil:
		case orb.Point:
			vs = append(vs, v[0], v[1])
		case orb.Bound:
			vs = append(vs, v.Min[0], v.Min[1], v.Max[0], v.Max[1])
		case orb.Collection:
			for _, m := range v {
				walk(m)
			}
		default:
			forEachVertex(g, func(p *orb.Point) { vs = append(vs, p[0], p[1]) })
		}
	}
	walk(g)
	for _, p := range extra {
		vs = append(vs, p[0], p[1])
	}
	return vs
}

// c10SafeK draws a scale exponent k != 0 for which 2^k·g is computed without under- or overflow at any intermediate
// value.  Derivation: let every coordinate be a multiple of 2^lo with magnitude below 2^hi, S = hi - lo.  The values
// the code forms are polynomials of degree <= 3 in the coordinates (cross products, centroid sums, centroid*area) and
// quotients of those; a non-zero one has magnitude >= 2^(3·lo') - a few rounding steps of 53 bits - and <= 2^(3·hi'+8),
// primes denoting the scaled exponents.  With -200 <= hi' <= 250 and S <= 110 everything stays between 2^-1000 and
// 2^+800 with room for the cancellation levels of nested weighted means; the driver re-checks with the Float twin of
// the model and answers `skip scale-inexact` if the model itself is not exactly scale-covariant on the case.
func c10SafeK(r *rand.Rand, vals []float64) (int, bool) {
	lo, hi, ok := c10ExpRange(vals)
	if !ok {
		lo, hi = 0, 0
	}
	if hi-lo > 110 {
		return 0, false
	}
	kmin, kmax := -200-hi, 250-hi
	for tries := 0; tries < 20; tries++ {
		var k int
		switch r.Intn(8) {
		case 0: // the whole safe range
			k = kmin + r.Intn(kmax-kmin+1)
		case 1: // next to 1: factors 2, 4, 1/2, ...
			k = r.Intn(9) - 4
		default: // where absolute thresholds of every plausible size live: 2^-75 .. 2^75
			k = r.Intn(151) - 75
		}
		if k != 0 && k >= kmin && k <= kmax {
			return k, true
		}
	}
	return 0, false
}

// c10DyadicExp: the exponent of a tiny / huge dyadic coordinate pool (integer pools times 2^e): e in -70..-8 or 8..70,
// sometimes out to +-200.
func c10DyadicExp(r *rand.Rand) int {
	e := 8 + r.Intn(63)
	if r.Intn(8) == 0 {
		e = 8 + r.Intn(193)
	}
	if r.Intn(3) != 0 { // tiny twice as often as huge: absolute epsilons are small numbers
		e = -e
	}
	return e
}

// c10Pool: with probability 1/5 the exponent of a tiny / huge pool for this case, otherwise 0 (the pool as drawn).
func c10Pool(r *rand.Rand) int {
	if r.Intn(5) == 0 {
		return c10DyadicExp(r)
	}
	return 0
}

func c10ScalePt(p orb.Point, e int) orb.Point { return orb.Point{math.Ldexp(p[0], e), math.Ldexp(p[1], e)} }

// c10ScaleFixed: the fixed family of op `scale`: the adversaries' witnesses (two small boxes as a multi-polygon / a
// collection, a polygon with a hole, short lines of lengths 1:3) and orb.AllGeometries, each over a ladder of exponents.
func c10ScaleFixed(c *Ctx) {
	box := func(x, y, w float64) orb.Ring {
		return orb.Ring{{x, y}, {x + w, y}, {x + w, y + w}, {x, y + w}, {x, y}}
	}
	fam := []orb.Geometry{
		orb.MultiPolygon{{box(10, 20, 2)}, {box(30, 40, 2)}},
		orb.Collection{orb.Polygon{box(10, 20, 2)}, orb.Polygon{box(30, 40, 2)}},
		orb.Polygon{box(0, 0, 8), box(2, 2, 4)},
		orb.Polygon{box(1, 1, 1)},
		box(3, 5, 2),
		orb.Bound{Min: orb.Point{1, 2}, Max: orb.Point{3, 5}},
		orb.LineString{{0, 0}, {2, 0}, {2, 2}},
		orb.MultiLineString{{{0, 0}, {1, 0}}, {{100, 100}, {100, 103}}},
		orb.MultiLineString{{{0, 0}, {3, 4}}, {{7, 7}, {7, 7}}, {}},
		orb.Collection{orb.Polygon{box(0, 0, 4)}, orb.LineString{{0, 0}, {9, 9}}, orb.Collection{box(8, 8, 2)}},
		orb.MultiPoint{{1, 2}, {3, 4}, {5, 9}},
		orb.Polygon{{{0, 0}, {2, 0}, {4, 0}, {0, 0}}}, // flat: falls back to the outer ring as a line
	}
	for _, g := range orb.AllGeometries {
		fam = append(fam, g)
	}
	qs := []orb.Point{{1, 1}, {0, 0}, {5, 7}, {-3, 2}}
	i := 0
	for _, g := range fam {
		for _, k := range []int{-200, -120, -75, -60, -52, -45, -40, -35, -30, -25, -20, -16, -12, -8, -4, -1, 1, 4, 10, 20, 30, 40, 52, 60, 75, 120, 200} {
			q := qs[i%len(qs)]
			i++
			c.Case("scale", strconv.Itoa(k)+" "+gs(g)+" "+fb(q[0])+" "+fb(q[1]))
		}
	}
}

// c10ScaleCase: one random case of op `scale` from the families of the ordinary ops.
func c10ScaleCase(c *Ctx, mode int) {
	r := c.Rng
	var g orb.Geometry
	switch x := r.Intn(40); {
	case x == 0:
		g = genGeom(r, GenOpts{Mode: CoordSmallInt, MaxPts: 4, MaxDepth: 2, TopNil: true}, 0)
	case x < 4:
		g = c10Degenerate(r, mode%2)
	case x < 8:
		g = c10Tied(r, mode)
	default:
		g = c10Geom(r, mode, 0)
	}
	q := c10Query(r, mode, g)
	if mode != 2 {
		q = clampPt(q)
	}
	if e := c10Pool(r); e != 0 { // the base geometry itself from a tiny / huge pool
		g, q = c10ScaleGeom(g, e), c10ScalePt(q, e)
	}
	k, ok := c10SafeK(r, c10Coords(g, q))
	if !ok {
		return
	}
	c.Case("scale", strconv.Itoa(k)+" "+gs(g)+" "+fb(q[0])+" "+fb(q[1]))
}
