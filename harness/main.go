// Command corr is the correspondence harness: it generates cases from one PRNG
// state, runs the real orb code in-process (under recover), pipes each case
// "<prop> <op> <input> => <impl outcome>" to the Lean driver, and collects the
// driver's verdicts (ok / diff / propfail / skip / bad) into a JSON summary.
package main

import (
	"bufio"
	"encoding/json"
	"flag"
	"fmt"
	"hash/fnv"
	"io"
	"math/rand"
	"os"
	"os/exec"
	"regexp"
	"sort"
	"strconv"
	"strings"
	"sync"
	"sync/atomic"
	"time"
)

// Prop is one property's plug-in.
type Prop struct {
	ID string
	// Run executes the implementation on the input tokens of op and returns the
	// canonical outcome tokens. It must not panic (use guard()).
	Run func(op string, in []string) string
	// Gen emits cases through c.Case. It should honour c.Tier and c.Budget.
	Gen func(c *Ctx)
}

var registry = map[string]*Prop{}

func register(p *Prop) { registry[p.ID] = p }

type failure struct {
	Line    string `json:"line"`
	Verdict string `json:"verdict"`
}

// Ctx is handed to generators.
type Ctx struct {
	Rng    *rand.Rand
	Tier   string // quick | thorough
	Budget int    // number of random cases suggested for this shard
	Shard  int
	Shards int
	Stale  bool // model signature mismatch: generators may widen

	prop    *Prop
	pending chan string
	wg      sync.WaitGroup
	drvIn   *bufio.Writer

	mu        sync.Mutex
	evals     int
	tags      map[string]int
	ops       map[string]int
	distinct  map[uint64]struct{}
	nontriv   map[uint64]struct{}
	failures  []failure
	nfail     map[string]int
	samples   []string
	seq       int
	deadline  time.Time
	lineHashQ chan uint64
	lastCase  *os.File
	known          []knownPat
	answered       int64 // atomic: lines answered by the driver
	desync         bool
	knownHits      map[string]int
	unmatched      map[string]int
	nUnmatchedKept int
}

// knownPat mirrors an entry of known_findings.json (id + match.verdict_regex / match.line_regex).
type knownPat struct {
	id      string
	verdict *regexp.Regexp
	line    *regexp.Regexp
}

func (c *Ctx) matchKnown(line, verdict string) string {
	for _, k := range c.known {
		if k.verdict == nil && k.line == nil {
			continue
		}
		if k.verdict != nil && !k.verdict.MatchString(verdict) {
			continue
		}
		if k.line != nil && !k.line.MatchString(line) {
			continue
		}
		return k.id
	}
	return ""
}

func loadKnown(path, prop string) []knownPat {
	var out []knownPat
	if path == "" {
		return out
	}
	data, err := os.ReadFile(path)
	if err != nil {
		return out
	}
	var doc struct {
		Findings []struct {
			ID       string `json:"id"`
			Property string `json:"property"`
			Match    struct {
				Verdict string `json:"verdict_regex"`
				Line    string `json:"line_regex"`
			} `json:"match"`
		} `json:"findings"`
	}
	if json.Unmarshal(data, &doc) != nil {
		return out
	}
	for _, f := range doc.Findings {
		if f.Property != prop {
			continue
		}
		k := knownPat{id: f.ID}
		if f.Match.Verdict != "" {
			k.verdict, _ = regexp.Compile(f.Match.Verdict)
		}
		if f.Match.Line != "" {
			k.line, _ = regexp.Compile(f.Match.Line)
		}
		out = append(out, k)
	}
	return out
}

// Exhausted reports whether the time budget of this shard is used up.
func (c *Ctx) Exhausted() bool { return time.Now().After(c.deadline) }

// Mine reports whether the i-th item of an exhaustive enumeration belongs to this shard.
func (c *Ctx) Mine(i int) bool { return i%c.Shards == c.Shard }

// Case runs the implementation on (op, input) and sends the case to the driver.
func (c *Ctx) Case(op string, input string) {
	in := strings.Fields(input)
	if c.lastCase != nil { // so that a fatal (unrecoverable) crash leaves the failing input behind
		rec := c.prop.ID + " " + op + " " + strings.Join(in, " ") + "\n"
		c.lastCase.Truncate(0)
		c.lastCase.WriteAt([]byte(rec), 0)
	}
	out := c.prop.Run(op, in)
	line := c.prop.ID + " " + op + " " + strings.Join(in, " ") + " => " + out
	h := fnv.New64a()
	h.Write([]byte(line))
	c.lineHashQ <- h.Sum64()
	c.pending <- line
	c.drvIn.WriteString("#" + strconv.Itoa(c.seq) + " ")
	c.drvIn.WriteString(line)
	c.drvIn.WriteByte('\n')
	c.seq++
	if c.seq%256 == 0 {
		c.drvIn.Flush()
	}
}

func (c *Ctx) collect(r io.Reader) {
	defer c.wg.Done()
	sc := bufio.NewScanner(r)
	sc.Buffer(make([]byte, 1<<20), 1<<28)
	for sc.Scan() {
		v := sc.Text()
		line := <-c.pending
		hash := <-c.lineHashQ
		// the driver echoes the sequence number of the case it answers
		want := "#" + strconv.Itoa(c.evals) + " "
		if strings.HasPrefix(v, want) {
			v = v[len(want):]
		} else if !c.desync {
			c.desync = true
			v = "bad protocol-desync expected " + strings.TrimSpace(want) + " got " + firstN(v, 40)
		} else {
			v = "bad protocol-desync (after the first)"
		}
		c.evals++
		atomic.AddInt64(&c.answered, 1)
		f := strings.Fields(line)
		if len(f) > 1 {
			c.ops[f[1]]++
		}
		c.distinct[hash] = struct{}{}
		vf := strings.Fields(v)
		kind := ""
		if len(vf) > 0 {
			kind = vf[0]
		}
		switch kind {
		case "ok":
			tag := strings.Join(vf[1:], " ")
			c.tags["ok "+tag]++
			if !strings.HasPrefix(tag, "triv") {
				c.nontriv[hash] = struct{}{}
			}
			if len(c.samples) < 6 && c.evals%97 == 1 {
				s := line
				if len(s) > 400 {
					s = s[:400] + "…"
				}
				c.samples = append(c.samples, s)
			}
		case "skip":
			c.tags[v]++
		default:
			key := kind
			if len(vf) > 1 && kind != "diff" {
				key += " " + vf[1]
			}
			c.nfail[key]++
			// Failures matching a known finding must never crowd out the others: they are counted
			// per finding (a few examples kept), every other failure is kept per verdict key.
			if id := c.matchKnown(line, v); id != "" {
				c.knownHits[id]++
				if c.knownHits[id] <= 20 {
					c.failures = append(c.failures, failure{line, v})
				}
			} else {
				c.unmatched[key]++
				if c.unmatched[key] <= 40 && c.nUnmatchedKept < 600 {
					c.nUnmatchedKept++
					c.failures = append(c.failures, failure{line, v})
				}
			}
		}
	}
}

type summary struct {
	Prop        string         `json:"prop"`
	Seed        int64          `json:"seed"`
	Tier        string         `json:"tier"`
	Shard       int            `json:"shard"`
	Evaluations int            `json:"evaluations"`
	Distinct    int            `json:"distinct"`
	Nontrivial  int            `json:"distinct_nontrivial"`
	Tags        map[string]int `json:"tags"`
	Ops         map[string]int `json:"ops"`
	FailKinds   map[string]int `json:"fail_kinds"`
	Failures    []failure      `json:"failures"`
	KnownHits   map[string]int `json:"known_hits"`
	Unmatched   map[string]int `json:"unmatched_kinds"`
	Samples     []string       `json:"samples"`
	WallS       float64        `json:"wall_s"`
}

func main() {
	var (
		propID  = flag.String("prop", "", "property id")
		seed    = flag.Int64("seed", 1, "PRNG seed")
		tier    = flag.String("tier", "quick", "quick|thorough")
		shard   = flag.Int("shard", 0, "shard index")
		shards  = flag.Int("shards", 1, "number of shards")
		driver  = flag.String("driver", "", "path to the Lean driver executable")
		budget  = flag.Int("budget", 0, "random-case budget for this shard (0 = default for tier)")
		secs    = flag.Int("secs", 0, "soft time limit for this shard in seconds")
		replay  = flag.String("replay", "", "file of case lines to re-run (input part is re-executed)")
		only    = flag.String("emit", "", "write case lines to this file instead of piping to the driver")
		stale   = flag.Bool("stale", false, "model signature mismatch: widen generators")
		listOps = flag.Bool("list", false, "list registered properties")
		lastFile = flag.String("last", "", "file that always holds the case being executed (survives a fatal crash)")
		knownF   = flag.String("known", "", "known_findings.json: failures matching a listed finding are counted apart")
	)
	flag.Parse()
	if *listOps {
		ids := []string{}
		for id := range registry {
			ids = append(ids, id)
		}
		sort.Strings(ids)
		fmt.Println(strings.Join(ids, " "))
		return
	}
	p := registry[*propID]
	if p == nil {
		fmt.Fprintln(os.Stderr, "unknown property", *propID)
		os.Exit(2)
	}
	t0 := time.Now()
	c := &Ctx{
		Rng: rand.New(rand.NewSource(*seed*1000003 + int64(*shard))), Tier: *tier, Shard: *shard, Shards: *shards,
		Stale: *stale, prop: p, pending: make(chan string, 1<<14), lineHashQ: make(chan uint64, 1<<14),
		tags: map[string]int{}, ops: map[string]int{}, distinct: map[uint64]struct{}{}, nontriv: map[uint64]struct{}{},
		nfail: map[string]int{}, knownHits: map[string]int{}, unmatched: map[string]int{},
	}
	c.known = loadKnown(*knownF, *propID)
	c.Budget = *budget
	if c.Budget == 0 {
		if *tier == "thorough" {
			c.Budget = 20000
		} else {
			c.Budget = 2000
		}
	}
	if *stale {
		c.Budget *= 4
	}
	if *secs == 0 {
		*secs = 3600
	}
	c.deadline = t0.Add(time.Duration(*secs) * time.Second)
	if *lastFile != "" {
		if f, err := os.Create(*lastFile); err == nil {
			c.lastCase = f
			defer func() { f.Close(); os.Remove(*lastFile) }()
		}
	}

	var cmd *exec.Cmd
	var drvStdin io.WriteCloser
	if *only != "" {
		f, err := os.Create(*only)
		if err != nil {
			panic(err)
		}
		c.drvIn = bufio.NewWriterSize(f, 1<<20)
		go func() {
			for range c.pending {
			}
		}()
		go func() {
			for range c.lineHashQ {
			}
		}()
		defer f.Close()
	} else {
		cmd = exec.Command(*driver)
		stdin, _ := cmd.StdinPipe()
		drvStdin = stdin
		stdout, _ := cmd.StdoutPipe()
		cmd.Stderr = os.Stderr
		if err := cmd.Start(); err != nil {
			fmt.Fprintln(os.Stderr, "cannot start driver:", err)
			os.Exit(2)
		}
		c.drvIn = bufio.NewWriterSize(stdin, 1<<16)
		c.wg.Add(1)
		go c.collect(stdout)
	}

	if *replay != "" {
		data, err := os.ReadFile(*replay)
		if err != nil {
			panic(err)
		}
		for _, l := range strings.Split(string(data), "\n") {
			f := strings.Fields(l)
			if len(f) < 2 || f[0] != p.ID {
				continue
			}
			in := f[2:]
			for i, t := range in {
				if t == "=>" {
					in = in[:i]
					break
				}
			}
			c.Case(f[1], strings.Join(in, " "))
		}
	} else {
		p.Gen(c)
	}
	c.drvIn.Flush()
	if *only != "" {
		return
	}
	// close stdin so the driver terminates
	if drvStdin != nil {
		drvStdin.Close()
	}
	closeDriver(cmd, c)
	s := summary{Prop: p.ID, Seed: *seed, Tier: *tier, Shard: *shard, Evaluations: c.evals, Distinct: len(c.distinct),
		Nontrivial: len(c.nontriv), Tags: c.tags, Ops: c.ops, FailKinds: c.nfail, Failures: c.failures, KnownHits: c.knownHits, Unmatched: c.unmatched, Samples: c.samples,
		WallS: time.Since(t0).Seconds()}
	if c.evals != c.seq {
		s.FailKinds["driver-lost-lines"] = c.seq - c.evals
		s.Failures = append(s.Failures, failure{"(driver)", fmt.Sprintf("bad driver answered %d of %d lines", c.evals, c.seq)})
	}
	enc := json.NewEncoder(os.Stdout)
	enc.Encode(s)
}

func closeDriver(cmd *exec.Cmd, c *Ctx) {
	if cmd == nil {
		return
	}
	done := make(chan struct{})
	go func() { c.wg.Wait(); close(done) }()
	// the driver is killed when it has not answered a single line for 10 minutes (not: when the
	// whole backlog takes longer than that, which only depends on the load of the machine)
	last := c.progress()
	tk := time.NewTicker(time.Minute)
	defer tk.Stop()
	idle := 0
wait:
	for {
		select {
		case <-done:
			break wait
		case <-tk.C:
			if n := c.progress(); n != last {
				last, idle = n, 0
			} else if idle++; idle >= 10 {
				cmd.Process.Kill()
				break wait
			}
		}
	}
	cmd.Wait()
}

// progress: lines answered by the driver so far
func (c *Ctx) progress() int64 { return atomic.LoadInt64(&c.answered) }

func firstN(s string, n int) string {
	if len(s) > n {
		return s[:n]
	}
	return s
}

// guard runs f and maps a Go panic to the outcome "panic".
func guard(f func() string) (out string) {
	defer func() {
		if r := recover(); r != nil {
			out = "panic"
		}
	}()
	return f()
}
