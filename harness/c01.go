package main

import (
	"bytes"
	"encoding/binary"
	"encoding/hex"
	"fmt"
	"io"
	"strings"

	"github.com/paulmach/orb"
	"github.com/paulmach/orb/encoding/ewkb"
	"github.com/paulmach/orb/encoding/wkb"
)

func init() { register(&Prop{ID: "C01", Run: runC01, Gen: genC01}) }

func order(s string) binary.ByteOrder {
	if s == "1" {
		return binary.LittleEndian
	}
	return binary.BigEndian
}

func hexOrEmpty(b []byte) string {
	if len(b) == 0 {
		return "empty"
	}
	return hex.EncodeToString(b)
}

func wkbErrClass(err error) string {
	switch err {
	case ewkb.ErrNotEWKB, wkb.ErrNotWKB:
		return "notwkb"
	case ewkb.ErrIncorrectGeometry, wkb.ErrIncorrectGeometry:
		return "incorrect"
	case ewkb.ErrUnsupportedGeometry, wkb.ErrUnsupportedGeometry:
		return "unsupported"
	case ewkb.ErrUnsupportedDataType, wkb.ErrUnsupportedDataType:
		return "datatype"
	case io.EOF:
		return "eof"
	case io.ErrUnexpectedEOF:
		return "ueof"
	}
	return "other"
}

func wkbOutcome(g orb.Geometry, srid int, err error) string {
	if err != nil {
		return "err " + wkbErrClass(err)
	}
	return fmt.Sprintf("ok %d %s", srid, gs(g))
}

// newDest returns a pointer destination for the scanner and a func reading it back.
func newDest(d string) (interface{}, func() orb.Geometry) {
	switch d {
	case "any":
		return nil, nil
	case "P":
		v := new(orb.Point)
		return v, func() orb.Geometry { return *v }
	case "MP":
		v := new(orb.MultiPoint)
		return v, func() orb.Geometry { return *v }
	case "LS":
		v := new(orb.LineString)
		return v, func() orb.Geometry { return *v }
	case "MLS":
		v := new(orb.MultiLineString)
		return v, func() orb.Geometry { return *v }
	case "R":
		v := new(orb.Ring)
		return v, func() orb.Geometry { return *v }
	case "PG":
		v := new(orb.Polygon)
		return v, func() orb.Geometry { return *v }
	case "MPG":
		v := new(orb.MultiPolygon)
		return v, func() orb.Geometry { return *v }
	case "C":
		v := new(orb.Collection)
		return v, func() orb.Geometry { return *v }
	case "B":
		v := new(orb.Bound)
		return v, func() orb.Geometry { return *v }
	}
	panic("bad dest " + d)
}

func frame(framing string, psrid uint32, b []byte) []byte {
	switch framing {
	case "raw":
		return append([]byte(nil), b...)
	case "hex":
		return []byte(hex.EncodeToString(b))
	case "HEX":
		return []byte(strings.ToUpper(hex.EncodeToString(b)))
	case "xhex":
		return []byte(`\x` + hex.EncodeToString(b))
	case "prefix":
		d := make([]byte, 4, 4+len(b))
		binary.LittleEndian.PutUint32(d, psrid)
		return append(d, b...)
	}
	panic("bad framing")
}

func runC01(op string, in []string) string {
	r := &tokReader{t: in}
	switch op {
	case "rt":
		o := order(r.next())
		srid := r.int()
		g := r.geom()
		hexs := guard(func() string {
			b, err := ewkb.Marshal(g, srid, o)
			if err != nil {
				return "err"
			}
			return hexOrEmpty(b)
		})
		if hexs == "panic" || hexs == "err" {
			return hexs
		}
		var data []byte
		if hexs != "empty" {
			data, _ = hex.DecodeString(hexs)
		}
		um := guard(func() string {
			g2, s2, err := ewkb.Unmarshal(append([]byte(nil), data...))
			return wkbOutcome(g2, s2, err)
		})
		st := guard(func() string {
			g2, s2, err := ewkb.NewDecoder(bytes.NewReader(data)).Decode()
			return wkbOutcome(g2, s2, err)
		})
		return hexs + " ; " + um + " ; " + st
	case "seq":
		// one Encoder reused for several Encode calls with changing byte order / SRID (via SetSRID or
		// the per-call argument), then one Decoder reading the values back from the stream
		return guard(func() string {
			n := r.int()
			var buf bytes.Buffer
			enc := ewkb.NewEncoder(&buf)
			want := 0
			for i := 0; i < n; i++ {
				o := order(r.next())
				srid := r.int()
				how := r.next()
				g := r.geom()
				enc.SetByteOrder(o)
				var err error
				if how == "set" {
					enc.SetSRID(srid)
					err = enc.Encode(g)
				} else {
					err = enc.Encode(g, srid)
				}
				if err != nil {
					return "err encode"
				}
				want++
			}
			data := buf.Bytes()
			out := []string{hexOrEmpty(data)}
			dec := ewkb.NewDecoder(bytes.NewReader(data))
			for i := 0; i < want+1; i++ {
				g2, s2, err := dec.Decode()
				out = append(out, wkbOutcome(g2, s2, err))
				if err != nil {
					break
				}
			}
			return strings.Join(out, " ; ")
		})
	case "sc":
		return guard(func() string {
			o := order(r.next())
			srid := r.int()
			d := r.next()
			framing := r.next()
			psrid := uint32(pu(r.next()))
			g := r.geom()
			b, err := ewkb.Marshal(g, srid, o)
			if err != nil {
				return "err marshal"
			}
			data := frame(framing, psrid, b)
			dest, read := newDest(d)
			var s *ewkb.GeometryScanner
			if framing == "prefix" {
				s = ewkb.ScannerPrefixSRID(dest)
			} else {
				s = ewkb.Scanner(dest)
			}
			if err := s.Scan(data); err != nil {
				return "err " + wkbErrClass(err)
			}
			if !s.Valid {
				return "invalid"
			}
			if read != nil && gs(read()) != gs(s.Geometry) {
				return "dest-differs " + gs(read())
			}
			return fmt.Sprintf("ok %d %s", s.SRID, gs(s.Geometry))
		})
	case "wsc":
		return guard(func() string {
			d := r.next()
			framing := r.next()
			psrid := uint32(pu(r.next()))
			g := r.geom()
			b, err := wkb.Marshal(g)
			if err != nil {
				return "err marshal"
			}
			data := frame(framing, psrid, b)
			dest, read := newDest(d)
			s := wkb.Scanner(dest)
			if err := s.Scan(data); err != nil {
				return "err " + wkbErrClass(err)
			}
			if !s.Valid {
				return "invalid"
			}
			if read != nil && gs(read()) != gs(s.Geometry) {
				return "dest-differs " + gs(read())
			}
			return fmt.Sprintf("ok 0 %s", gs(s.Geometry))
		})
	}
	return "badop"
}

var c01Dests = []string{"any", "P", "MP", "LS", "MLS", "R", "PG", "MPG", "C", "B"}
var c01Framings = []string{"raw", "hex", "HEX", "xhex", "prefix"}

func genSrid(c *Ctx) int {
	switch c.Rng.Intn(6) {
	case 0, 1:
		return 0
	case 2:
		return 4326
	case 3:
		return 1
	case 4:
		return 1<<31 - 1
	default:
		return 1 + c.Rng.Intn(1<<31-1)
	}
}

// coercible returns a geometry that the destination d accepts more often than chance.
func genForDest(c *Ctx, o GenOpts, d string) orb.Geometry {
	r := c.Rng
	if r.Intn(3) == 0 {
		return genGeom(r, o, 0)
	}
	switch d {
	case "P":
		if r.Intn(2) == 0 {
			return genPoint(r, o.Mode)
		}
		return orb.MultiPoint{genPoint(r, o.Mode)}
	case "MP":
		if r.Intn(2) == 0 {
			return genPoint(r, o.Mode)
		}
		return orb.MultiPoint(genPoints(r, o.Mode, o.MaxPts))
	case "LS", "MLS":
		switch r.Intn(3) {
		case 0:
			return orb.LineString(genPoints(r, o.Mode, o.MaxPts))
		case 1:
			return orb.MultiLineString{orb.LineString(genPoints(r, o.Mode, o.MaxPts))}
		}
		return orb.MultiLineString{orb.LineString(genPoints(r, o.Mode, o.MaxPts)), orb.LineString(genPoints(r, o.Mode, o.MaxPts))}
	case "R", "PG", "MPG":
		switch r.Intn(5) {
		case 0:
			return genRing(r, o.Mode, o.MaxPts)
		case 1:
			return orb.Polygon{genRing(r, o.Mode, o.MaxPts)}
		case 2:
			return genPolygon(r, o.Mode, o.MaxPts)
		case 3:
			return orb.MultiPolygon{genPolygon(r, o.Mode, o.MaxPts)}
		}
		return genGeom(r, GenOpts{Mode: o.Mode, MaxPts: o.MaxPts}, 0)
	case "C":
		n := size(r, 3)
		cc := make(orb.Collection, n)
		for i := range cc {
			cc[i] = genGeom(r, o, 1)
		}
		return cc
	}
	return genGeom(r, o, 0)
}

func genC01(c *Ctx) {
	r := c.Rng
	if c.Shard == 0 {
		for _, g := range orb.AllGeometries {
			for _, o := range []string{"0", "1"} {
				c.Case("rt", o+" 0 "+gs(g))
				c.Case("rt", o+" 4326 "+gs(g))
			}
		}
	}
	for k := 0; k < c.Budget && !c.Exhausted(); k++ {
		mode := []CoordMode{CoordBits, CoordBits, CoordFloat, CoordSmallInt}[r.Intn(4)]
		opt := GenOpts{Mode: mode, MaxPts: 6, MaxDepth: 4, TopNil: true, InnerNil: true}
		g := genGeom(r, opt, 0)
		c.Case("rt", fmt.Sprintf("%d %d %s", r.Intn(2), genSrid(c), gsN(g)))
		// scanner: destination x framing
		d := c01Dests[r.Intn(len(c01Dests))]
		fr := c01Framings[r.Intn(len(c01Framings))]
		opt.TopNil = false
		g2 := genForDest(c, opt, d)
		c.Case("sc", fmt.Sprintf("%d %d %s %s %d %s", r.Intn(2), genSrid(c), d, fr, genSrid(c), gs(g2)))
		if k%3 == 0 { // encoder / decoder reuse over a stream of values
			n := 1 + r.Intn(4)
			parts := []string{fmt.Sprint(n)}
			for i := 0; i < n; i++ {
				o2 := opt
				o2.TopNil = r.Intn(4) == 0
				parts = append(parts, fmt.Sprintf("%d %d %s %s", r.Intn(2), genSrid(c), []string{"set", "arg"}[r.Intn(2)], gs(genGeom(r, o2, 0))))
			}
			c.Case("seq", strings.Join(parts, " "))
		}
		// deprecated wkb.Scanner incl. its MySQL prefix retry; prefix bytes uniform so the ambiguous class is hit
		fr2 := c01Framings[r.Intn(len(c01Framings))]
		ps := r.Uint32()
		if r.Intn(3) == 0 {
			ps = uint32(r.Intn(70000))
		}
		c.Case("wsc", fmt.Sprintf("%s %s %d %s", d, fr2, ps, gs(g2)))
	}
}
