package main

import (
	"bytes"
	"encoding/binary"
	"encoding/hex"
	"fmt"
	"hash/fnv"
	"io"
	"math"
	"sort"
	"strconv"
	"strings"

	"github.com/paulmach/orb"
	"github.com/paulmach/orb/encoding/ewkb"
	"github.com/paulmach/orb/encoding/wkb"
)

func init() { register(&Prop{ID: "C01", Run: runC01, Gen: genC01}) }

func order(s string) binary.ByteOrder {
	if s == "1" {
		return binary.LittleEndian
	}
	return binary.BigEndian
}

func hexOrEmpty(b []byte) string {
	if len(b) == 0 {
		return "empty"
	}
	return hex.EncodeToString(b)
}

func wkbErrClass(err error) string {
	switch err {
	case ewkb.ErrNotEWKB, wkb.ErrNotWKB:
		return "notwkb"
	case ewkb.ErrIncorrectGeometry, wkb.ErrIncorrectGeometry:
		return "incorrect"
	case ewkb.ErrUnsupportedGeometry, wkb.ErrUnsupportedGeometry:
		return "unsupported"
	case ewkb.ErrUnsupportedDataType, wkb.ErrUnsupportedDataType:
		return "datatype"
	case ewkb.ErrNestingTooDeep, wkb.ErrNestingTooDeep:
		return "toodeep"
	case io.EOF:
		return "eof"
	case io.ErrUnexpectedEOF:
		return "ueof"
	}
	return "other"
}

func wkbOutcome(g orb.Geometry, srid int, err error) string {
	if err != nil {
		return "err " + wkbErrClass(err)
	}
	return fmt.Sprintf("ok %d %s", srid, gs(g))
}

// newDest returns a pointer destination for the scanner and a func reading it back.
func newDest(d string) (interface{}, func() orb.Geometry) {
	switch d {
	case "any":
		return nil, nil
	case "P":
		v := new(orb.Point)
		return v, func() orb.Geometry { return *v }
	case "MP":
		v := new(orb.MultiPoint)
		return v, func() orb.Geometry { return *v }
	case "LS":
		v := new(orb.LineString)
		return v, func() orb.Geometry { return *v }
	case "MLS":
		v := new(orb.MultiLineString)
		return v, func() orb.Geometry { return *v }
	case "R":
		v := new(orb.Ring)
		return v, func() orb.Geometry { return *v }
	case "PG":
		v := new(orb.Polygon)
		return v, func() orb.Geometry { return *v }
	case "MPG":
		v := new(orb.MultiPolygon)
		return v, func() orb.Geometry { return *v }
	case "C":
		v := new(orb.Collection)
		return v, func() orb.Geometry { return *v }
	case "B":
		v := new(orb.Bound)
		return v, func() orb.Geometry { return *v }
	}
	panic("bad dest " + d)
}

func frame(framing string, psrid uint32, b []byte) []byte {
	switch framing {
	case "raw":
		return append([]byte(nil), b...)
	case "hex":
		return []byte(hex.EncodeToString(b))
	case "HEX":
		return []byte(strings.ToUpper(hex.EncodeToString(b)))
	case "xhex":
		return []byte(`\x` + hex.EncodeToString(b))
	case "prefix":
		d := make([]byte, 4, 4+len(b))
		binary.LittleEndian.PutUint32(d, psrid)
		return append(d, b...)
	}
	panic("bad framing")
}

// canonGo is the value a WKB round trip denotes: rings and bounds become one-ring polygons.
func canonGo(g orb.Geometry) orb.Geometry {
	switch g := g.(type) {
	case orb.Ring:
		return orb.Polygon{g}
	case orb.Bound:
		return g.ToPolygon()
	case orb.Collection:
		c := make(orb.Collection, len(g))
		for i := range g {
			c[i] = canonGo(g[i])
		}
		return c
	}
	return g
}

// boundOracle: orb's own Bound() of the canonical value, the reference for the *orb.Bound destination
// ("anything to its bound"); it lets the driver compare that destination bit for bit even when
// coordinates are NaN or -0 (where the Lean bound model is not bit-compatible with math.Min/Max).
func boundOracle(g orb.Geometry) string {
	return guard(func() string { return gs(canonGo(g).Bound()) })
}

func fnvHex(s string) string {
	h := fnv.New64a()
	h.Write([]byte(s))
	return fmt.Sprintf("%016x", h.Sum64())
}

// digest of a decode outcome for the large cases: kind, number of points, FNV-1a of the protocol text
func wkbDigest(g orb.Geometry, srid int, err error) string {
	if err != nil {
		return "err " + wkbErrClass(err)
	}
	t := gs(g)
	f := strings.Fields(t)
	n := 0
	for _, x := range f {
		if len(x) == 16 {
			n++
		}
	}
	return fmt.Sprintf("ok %d %s %d %s", srid, f[0], n/2, fnvHex(t))
}

// bigGeom builds the parametric large geometries (mirrored by Driver.C01.bigGeom): point number k is
// (bits base+2k, bits base+2k+1).
func bigGeom(shape string, n int, base uint64) orb.Geometry {
	pt := func(k int) orb.Point {
		return orb.Point{math.Float64frombits(base + 2*uint64(k)), math.Float64frombits(base + 2*uint64(k) + 1)}
	}
	pts := func(k0, m int) []orb.Point {
		ps := make([]orb.Point, m)
		for i := range ps {
			ps[i] = pt(k0 + i)
		}
		return ps
	}
	switch shape {
	case "LS":
		return orb.LineString(pts(0, n))
	case "R":
		return orb.Ring(pts(0, n))
	case "MP":
		return orb.MultiPoint(pts(0, n))
	case "MLS":
		m := make(orb.MultiLineString, n)
		for i := range m {
			m[i] = pts(3*i, i%3)
		}
		return m
	case "PG":
		m := make(orb.Polygon, n)
		for i := range m {
			m[i] = pts(3*i, i%3)
		}
		return m
	case "MPG":
		m := make(orb.MultiPolygon, n)
		for i := range m {
			pg := make(orb.Polygon, i%2+1)
			for j := range pg {
				pg[j] = pts(6*i+3*j, (i+j)%3)
			}
			m[i] = pg
		}
		return m
	case "C":
		c := make(orb.Collection, n)
		for i := range c {
			switch i % 4 {
			case 0:
				c[i] = pt(i)
			case 1:
				c[i] = orb.LineString(pts(2*i, 2))
			case 2:
				c[i] = orb.MultiPoint(pts(i, 1))
			default:
				c[i] = orb.Polygon{}
			}
		}
		return c
	case "CC":
		in := make(orb.Collection, n)
		for i := range in {
			in[i] = pt(i)
		}
		return orb.Collection{in, pt(n)}
	case "PGR":
		return orb.Polygon{pts(0, n), pts(n, 3)}
	case "MLSL":
		return orb.MultiLineString{pts(0, n), pts(n, 2)}
	case "MPGR":
		return orb.MultiPolygon{{pts(0, n), pts(n, 1)}, {pts(n+1, 2)}}
	case "CLS":
		return orb.Collection{orb.LineString(pts(0, n)), pt(n), orb.Polygon{pts(n+1, n)}}
	case "NEST", "NESTW":
		// n collection levels around one point; NESTW: a sibling point after the inner collection at
		// every level (the loop of the outer collection goes on after the nested decoder has returned)
		var g orb.Geometry = pt(0)
		for k := 1; k <= n; k++ {
			c := orb.Collection{g}
			if shape == "NESTW" && k >= 2 {
				c = append(c, pt(k-1))
			}
			g = c
		}
		return g
	case "NESTM":
		// n collection levels around one point, members of every kind before / after the inner
		// collection on the way down (mirrored by Driver.C01.bigGeom.nestM)
		mixed := func(k int) orb.Geometry {
			switch k % 7 {
			case 0:
				return pt(k)
			case 1:
				return orb.LineString(pts(k, 2))
			case 2:
				return orb.Polygon{pts(k, 3)}
			case 3:
				return orb.MultiPoint(pts(k, 2))
			case 4:
				return orb.Collection{}
			case 5:
				return orb.MultiPolygon{{pts(k, 1)}}
			}
			return orb.MultiLineString{pts(k, 1), pts(k+1, 0)}
		}
		var g orb.Geometry = pt(0)
		for k := 1; k <= n; k++ {
			c := orb.Collection{}
			if k%3 == 1 {
				c = append(c, mixed(k))
			}
			c = append(c, g)
			if k%2 == 0 {
				c = append(c, mixed(k+1))
			}
			g = c
		}
		return g
	}
	panic("bad big shape " + shape)
}

// apiAgree runs the remaining exported encoder entry points and reports which of them do not write
// exactly `want` ("same" when all agree).
func apiAgree(want []byte, variants map[string]func() ([]byte, error)) string {
	var bad []string
	names := make([]string, 0, len(variants))
	for k := range variants {
		names = append(names, k)
	}
	sort.Strings(names)
	for _, k := range names {
		f := variants[k]
		r := guard(func() string {
			b, err := f()
			if err != nil {
				return "err"
			}
			if !bytes.Equal(b, want) {
				return "differs"
			}
			return ""
		})
		if r != "" {
			bad = append(bad, r+":"+k)
		}
	}
	if len(bad) == 0 {
		return "same"
	}
	return strings.Join(bad, ",")
}

func unhex(s string) ([]byte, error) {
	if s == "" {
		return nil, nil
	}
	return hex.DecodeString(s)
}

// wscDest splits the destination token of `wsc`: "PG" (little endian, no SRID: wkb.Marshal) or
// "PG:<order>:<srid>" (bytes written by ewkb.Marshal in that order with that SRID).
func wscDest(tok string) (d string, ext bool, o binary.ByteOrder, srid int) {
	f := strings.Split(tok, ":")
	if len(f) == 3 {
		return f[0], true, order(f[1]), pi(f[2])
	}
	return tok, false, binary.LittleEndian, 0
}

func runC01(op string, in []string) string {
	r := &tokReader{t: in}
	switch op {
	case "rt":
		o := order(r.next())
		srid := r.int()
		g := r.geom()
		hexs := guard(func() string {
			b, err := ewkb.Marshal(g, srid, o)
			if err != nil {
				return "err"
			}
			return hexOrEmpty(b)
		})
		if hexs == "panic" || hexs == "err" {
			return hexs
		}
		var data []byte
		if hexs != "empty" {
			data, _ = hex.DecodeString(hexs)
		}
		um := guard(func() string {
			g2, s2, err := ewkb.Unmarshal(append([]byte(nil), data...))
			return wkbOutcome(g2, s2, err)
		})
		dec := func(rd io.Reader) []decOut { return decodeAll(rd, 1) }
		plain, stPanic := guardOuts(func() []decOut { return dec(bytes.NewReader(data)) })
		st := "panic"
		if !stPanic {
			st = showOuts(plain)
		}
		// every other exported EWKB encoder entry point must write the same bytes
		vs := map[string]func() ([]byte, error){
			"MustMarshal": func() ([]byte, error) { return ewkb.MustMarshal(g, srid, o), nil },
			"MarshalToHex": func() ([]byte, error) {
				h, err := ewkb.MarshalToHex(g, srid, o)
				if err != nil {
					return nil, err
				}
				return unhex(h)
			},
			"MustMarshalToHex": func() ([]byte, error) { return unhex(ewkb.MustMarshalToHex(g, srid, o)) },
			"EncoderSetSRID": func() ([]byte, error) {
				var buf bytes.Buffer
				err := ewkb.NewEncoder(&buf).SetByteOrder(o).SetSRID(srid).Encode(g)
				return buf.Bytes(), err
			},
			"EncoderArgSRID": func() ([]byte, error) {
				var buf bytes.Buffer
				err := ewkb.NewEncoder(&buf).SetByteOrder(o).Encode(g, srid)
				return buf.Bytes(), err
			},
		}
		if o == binary.LittleEndian {
			vs["MarshalDefaultOrder"] = func() ([]byte, error) { return ewkb.Marshal(g, srid) }
		}
		if srid == ewkb.DefaultSRID {
			vs["EncoderDefaultSRID"] = func() ([]byte, error) {
				var buf bytes.Buffer
				err := ewkb.NewEncoder(&buf).SetByteOrder(o).Encode(g)
				return buf.Bytes(), err
			}
		}
		// the exported package variables are knobs the caller may SET: an encoder created while
		// ewkb.DefaultSRID (and ewkb.DefaultByteOrder) hold the case's values writes the same bytes
		vs["DefaultSRIDVar"] = func() ([]byte, error) {
			old := ewkb.DefaultSRID
			ewkb.DefaultSRID = srid
			defer func() { ewkb.DefaultSRID = old }()
			var buf bytes.Buffer
			err := ewkb.NewEncoder(&buf).SetByteOrder(o).Encode(g)
			return buf.Bytes(), err
		}
		vs["DefaultVars"] = func() ([]byte, error) {
			oldS, oldO := ewkb.DefaultSRID, ewkb.DefaultByteOrder
			ewkb.DefaultSRID, ewkb.DefaultByteOrder = srid, o
			defer func() { ewkb.DefaultSRID, ewkb.DefaultByteOrder = oldS, oldO }()
			var buf bytes.Buffer
			err := ewkb.NewEncoder(&buf).Encode(g)
			return buf.Bytes(), err
		}
		vs["DefaultSRIDVarThenSet"] = func() ([]byte, error) {
			// the variable at another value must not leak into an encoder given the SRID explicitly
			old := ewkb.DefaultSRID
			ewkb.DefaultSRID = srid + 1
			defer func() { ewkb.DefaultSRID = old }()
			var buf bytes.Buffer
			err := ewkb.NewEncoder(&buf).SetByteOrder(o).SetSRID(srid).Encode(g)
			return buf.Bytes(), err
		}
		// … whatever kind of writer the encoder was given
		addWriterVariants(vs, data, "EncoderSetSRID", func(w io.Writer) error {
			return ewkb.NewEncoder(w).SetByteOrder(o).SetSRID(srid).Encode(g)
		})
		addWriterVariants(vs, data, "EncoderArgSRID", func(w io.Writer) error {
			return ewkb.NewEncoder(w).SetByteOrder(o).Encode(g, srid)
		})
		// and the stream decoder must not depend on how the reader fragments the bytes
		fr := "same"
		if !stPanic {
			fr = fragAgreeG(plain, data, dec, false)
		}
		return hexs + " ; " + um + " ; " + st + " ; " + apiAgree(data, vs) + " ; " + fr
	case "wrt":
		// the wkb package: Marshal with a byte order (+ every other encoder entry point), Unmarshal, NewDecoder
		o := order(r.next())
		g := r.geom()
		hexs := guard(func() string {
			b, err := wkb.Marshal(g, o)
			if err != nil {
				return "err"
			}
			return hexOrEmpty(b)
		})
		if hexs == "panic" || hexs == "err" {
			return hexs
		}
		var data []byte
		if hexs != "empty" {
			data, _ = hex.DecodeString(hexs)
		}
		wo := func(g2 orb.Geometry, err error) string {
			if err != nil {
				return "err " + wkbErrClass(err)
			}
			return "ok 0 " + gs(g2)
		}
		um := guard(func() string { return wo(wkb.Unmarshal(append([]byte(nil), data...))) })
		dec := func(rd io.Reader) []decOut {
			g2, err := wkb.NewDecoder(rd).Decode()
			return []decOut{{g2, 0, err}}
		}
		plain, stPanic := guardOuts(func() []decOut { return dec(bytes.NewReader(data)) })
		st := "panic"
		if !stPanic {
			st = wo(plain[0].g, plain[0].err)
		}
		vs := map[string]func() ([]byte, error){
			"MustMarshal": func() ([]byte, error) { return wkb.MustMarshal(g, o), nil },
			"MarshalToHex": func() ([]byte, error) {
				h, err := wkb.MarshalToHex(g, o)
				if err != nil {
					return nil, err
				}
				return unhex(h)
			},
			"MustMarshalToHex": func() ([]byte, error) { return unhex(wkb.MustMarshalToHex(g, o)) },
			"Encoder": func() ([]byte, error) {
				var buf bytes.Buffer
				err := wkb.NewEncoder(&buf).SetByteOrder(o).Encode(g)
				return buf.Bytes(), err
			},
			"ewkbMarshalSRID0": func() ([]byte, error) { return ewkb.Marshal(g, 0, o) },
		}
		if o == binary.LittleEndian {
			vs["MarshalDefaultOrder"] = func() ([]byte, error) { return wkb.Marshal(g) }
		}
		addWriterVariants(vs, data, "Encoder", func(w io.Writer) error {
			return wkb.NewEncoder(w).SetByteOrder(o).Encode(g)
		})
		fr := "same"
		if !stPanic {
			fr = fragAgreeG(plain, data, dec, false)
		}
		return hexs + " ; " + um + " ; " + st + " ; " + apiAgree(data, vs) + " ; " + fr
	case "val":
		// driver.Valuer of each package, read back by the matching scanner:
		//   w: wkb.Value / wkb.Scanner   e: ewkb.Value / ewkb.Scanner   p: ewkb.ValuePrefixSRID / ewkb.ScannerPrefixSRID
		return guard(func() string {
			kind := r.next()
			srid := r.int()
			g := r.geom()
			var v interface{}
			var err error
			switch kind {
			case "w":
				v, err = wkb.Value(g).Value()
			case "e":
				v, err = ewkb.Value(g, srid).Value()
			case "p":
				v, err = ewkb.ValuePrefixSRID(g, srid).Value()
			default:
				return "badkind"
			}
			if err != nil {
				return "err value"
			}
			vtok := "nil"
			if v != nil {
				b, ok := v.([]byte)
				if !ok {
					return "notbytes"
				}
				if b == nil {
					vtok = "typednil"
				} else {
					vtok = hexOrEmpty(b)
				}
			}
			var serr error
			var valid bool
			var sg orb.Geometry
			ssrid := 0
			switch kind {
			case "w":
				s := wkb.Scanner(nil)
				serr = s.Scan(v)
				valid, sg = s.Valid, s.Geometry
			case "e":
				s := ewkb.Scanner(nil)
				serr = s.Scan(v)
				valid, sg, ssrid = s.Valid, s.Geometry, s.SRID
			case "p":
				s := ewkb.ScannerPrefixSRID(nil)
				serr = s.Scan(v)
				valid, sg, ssrid = s.Valid, s.Geometry, s.SRID
			}
			out := ""
			switch {
			case serr != nil:
				out = "err " + wkbErrClass(serr)
			case !valid:
				out = "null"
			default:
				out = fmt.Sprintf("ok %d %s", ssrid, gs(sg))
			}
			return vtok + " ; " + out
		})
	case "big":
		// sizes above the decoders' allocation caps, every decode path; outcomes as digests
		return guard(func() string {
			shape := r.next()
			n := r.int()
			o := order(r.next())
			srid := r.int()
			base, err := strconv.ParseUint(r.next(), 16, 64)
			if err != nil {
				return "badbase"
			}
			g := bigGeom(shape, n, base)
			data, err := ewkb.Marshal(g, srid, o)
			if err != nil {
				return "err marshal"
			}
			out := []string{fmt.Sprintf("%d %s", len(data), fnvHex(hex.EncodeToString(data)))}
			out = append(out, guard(func() string { return wkbDigest(ewkb.Unmarshal(append([]byte(nil), data...))) }))
			var plainG orb.Geometry
			var plainSrid int
			var plainErr error
			st := guard(func() string {
				plainG, plainSrid, plainErr = ewkb.NewDecoder(bytes.NewReader(data)).Decode()
				return wkbDigest(plainG, plainSrid, plainErr)
			})
			// through the other readers: the digest is printed only when the value is not the one above
			dec := func(rd io.Reader) string {
				g2, s2, err := ewkb.NewDecoder(rd).Decode()
				if plainErr == nil && err == nil && s2 == plainSrid && sameBits(g2, plainG) {
					return st
				}
				return wkbDigest(g2, s2, err)
			}
			out = append(out, st)
			for _, d := range c01Dests {
				out = append(out, guard(func() string {
					dest, read := newDest(d)
					s := ewkb.Scanner(dest)
					if err := s.Scan(append([]byte(nil), data...)); err != nil {
						return "err " + wkbErrClass(err)
					}
					if !s.Valid {
						return "invalid"
					}
					if read != nil && gs(read()) != gs(s.Geometry) {
						return "dest-differs"
					}
					return wkbDigest(s.Geometry, s.SRID, nil)
				}))
			}
			// the encoder into writers that are not a *bytes.Buffer, the decoder from fragmenting readers
			wvs := map[string]func() ([]byte, error){}
			for _, k := range []string{"only", "bufio4k", "pipe"} {
				k := k
				wvs["Encoder/"+k] = func() ([]byte, error) {
					return encVia(k, data, func(w io.Writer) error { return ewkb.NewEncoder(w).SetByteOrder(o).Encode(g, srid) })
				}
			}
			out = append(out, "wr "+apiAgree(data, wvs), "fr "+fragAgree(st, data, dec))
			return strings.Join(out, " ; ")
		})
	case "scq":
		// ONE scanner value reused for a sequence of Scan calls (rows), incl. NULL rows and rows that fail
		return guard(func() string {
			which := r.next()
			d := r.next()
			n := r.int()
			dest, read := newDest(d)
			var es *ewkb.GeometryScanner
			var ws *wkb.GeometryScanner
			switch which {
			case "e":
				es = ewkb.Scanner(dest)
			case "p":
				es = ewkb.ScannerPrefixSRID(dest)
			case "w":
				ws = wkb.Scanner(dest)
			default:
				return "badwhich"
			}
			var out []string
			// what the caller got for row i (s.Geometry and the destination's value: the slices themselves, not
			// copies) is kept over the following rows and printed again after the last one
			type keptRow struct {
				sg, dv   orb.Geometry
				sgs, dvs string
			}
			var kept []keptRow
			for i := 0; i < n; i++ {
				var in interface{}
				switch k := r.next(); k {
				case "null":
					in = nil
				case "nilb":
					in = []byte(nil)
				case "b":
					o := order(r.next())
					srid := r.int()
					framing := r.next()
					psrid := uint32(pu(r.next()))
					g := r.geom()
					b, err := ewkb.Marshal(g, srid, o)
					if err != nil {
						return "err marshal"
					}
					in = frame(framing, psrid, b)
				default:
					return "baditem"
				}
				var err error
				var valid bool
				var sg orb.Geometry
				ssrid := 0
				if es != nil {
					err = es.Scan(in)
					valid, sg, ssrid = es.Valid, es.Geometry, es.SRID
				} else {
					err = ws.Scan(in)
					valid, sg = ws.Valid, ws.Geometry
				}
				e := "-"
				if err != nil {
					e = wkbErrClass(err)
				}
				step := fmt.Sprintf("%s %s %d %s", e, b2s(valid), ssrid, gs(sg))
				if err == nil && valid && read != nil && gs(read()) != gs(sg) {
					step += " dest-differs"
				}
				out = append(out, step)
				kr := keptRow{sg: sg, sgs: gs(sg)}
				if read != nil {
					kr.dv = read()
					kr.dvs = gs(kr.dv)
				}
				kept = append(kept, kr)
				if b, ok := in.([]byte); ok { // database drivers reuse the row buffer: nothing kept may live in it
					for j := range b {
						b[j] ^= 0x5a
					}
				}
			}
			for i, kr := range kept {
				if gs(kr.sg) != kr.sgs || (read != nil && gs(kr.dv) != kr.dvs) {
					out[i] += " kept-changed"
				}
			}
			return strings.Join(out, " ; ")
		})
	case "seq":
		// one Encoder reused for several Encode calls with changing byte order / SRID (via SetSRID or
		// the per-call argument), then one Decoder reading the values back from the stream; the same again
		// with the encoder on other kinds of writers and the decoder on fragmenting readers
		return guard(func() string {
			n := r.int()
			type item struct {
				o    binary.ByteOrder
				srid int
				how  string
				g    orb.Geometry
			}
			items := make([]item, n)
			for i := range items {
				items[i] = item{order(r.next()), r.int(), r.next(), r.geom()}
			}
			encAll := func(w io.Writer) error {
				enc := ewkb.NewEncoder(w)
				for _, it := range items {
					enc.SetByteOrder(it.o)
					var err error
					if it.how == "set" {
						enc.SetSRID(it.srid)
						err = enc.Encode(it.g)
					} else {
						err = enc.Encode(it.g, it.srid)
					}
					if err != nil {
						return err
					}
				}
				return nil
			}
			var buf bytes.Buffer
			if err := encAll(&buf); err != nil {
				return "err encode"
			}
			want := n
			data := buf.Bytes()
			out := []string{hexOrEmpty(data)}
			decAll := func(rd io.Reader) []decOut { return decodeAll(rd, want+1) }
			plain := decAll(bytes.NewReader(data))
			out = append(out, showOuts(plain))
			wvs := map[string]func() ([]byte, error){}
			addWriterVariants(wvs, data, "Encoder", encAll)
			out = append(out, "wr "+apiAgree(data, wvs), "fr "+fragAgreeG(plain, data, decAll, false))
			return strings.Join(out, " ; ")
		})
	case "sc":
		return guard(func() string {
			o := order(r.next())
			srid := r.int()
			d := r.next()
			framing := r.next()
			psrid := uint32(pu(r.next()))
			g := r.geom()
			b, err := ewkb.Marshal(g, srid, o)
			if err != nil {
				return "err marshal"
			}
			data := frame(framing, psrid, b)
			dest, read := newDest(d)
			var s *ewkb.GeometryScanner
			if framing == "prefix" {
				s = ewkb.ScannerPrefixSRID(dest)
			} else {
				s = ewkb.Scanner(dest)
			}
			if err := s.Scan(data); err != nil {
				return "err " + wkbErrClass(err)
			}
			if !s.Valid {
				return "invalid"
			}
			if read != nil && gs(read()) != gs(s.Geometry) {
				return "dest-differs " + gs(read())
			}
			res := fmt.Sprintf("ok %d %s", s.SRID, gs(s.Geometry))
			if d == "B" {
				res += " ; " + boundOracle(g)
			}
			return res
		})
	case "wsc":
		return guard(func() string {
			d, ext, o, srid := wscDest(r.next())
			framing := r.next()
			psrid := uint32(pu(r.next()))
			g := r.geom()
			var b []byte
			var err error
			if ext {
				b, err = ewkb.Marshal(g, srid, o)
			} else {
				b, err = wkb.Marshal(g)
			}
			if err != nil {
				return "err marshal"
			}
			data := frame(framing, psrid, b)
			dest, read := newDest(d)
			s := wkb.Scanner(dest)
			if err := s.Scan(data); err != nil {
				return "err " + wkbErrClass(err)
			}
			if !s.Valid {
				return "invalid"
			}
			if read != nil && gs(read()) != gs(s.Geometry) {
				return "dest-differs " + gs(read())
			}
			res := fmt.Sprintf("ok 0 %s", gs(s.Geometry))
			if d == "B" {
				res += " ; " + boundOracle(g)
			}
			return res
		})
	case "bo", "trunc", "zread":
		return runC01wb(op, r)
	}
	return "badop"
}

var c01Dests = []string{"any", "P", "MP", "LS", "MLS", "R", "PG", "MPG", "C", "B"}
var c01Framings = []string{"raw", "hex", "HEX", "xhex", "prefix"}

func genSrid(c *Ctx) int {
	switch c.Rng.Intn(6) {
	case 0, 1:
		return 0
	case 2:
		return 4326
	case 3:
		return 1
	case 4:
		return 1<<31 - 1
	default:
		return 1 + c.Rng.Intn(1<<31-1)
	}
}

// coercible returns a geometry that the destination d accepts more often than chance.
func genForDest(c *Ctx, o GenOpts, d string) orb.Geometry {
	r := c.Rng
	if r.Intn(3) == 0 {
		return genGeom(r, o, 0)
	}
	switch d {
	case "P":
		switch r.Intn(5) {
		case 0, 1:
			return genPoint(r, o.Mode)
		case 2: // a multi with 2+ members must be rejected, not truncated
			return orb.MultiPoint{genPoint(r, o.Mode), genPoint(r, o.Mode)}
		}
		return orb.MultiPoint{genPoint(r, o.Mode)}
	case "MP":
		if r.Intn(2) == 0 {
			return genPoint(r, o.Mode)
		}
		return orb.MultiPoint(genPoints(r, o.Mode, o.MaxPts))
	case "LS", "MLS":
		switch r.Intn(3) {
		case 0:
			return orb.LineString(genPoints(r, o.Mode, o.MaxPts))
		case 1:
			return orb.MultiLineString{orb.LineString(genPoints(r, o.Mode, o.MaxPts))}
		}
		return orb.MultiLineString{orb.LineString(genPoints(r, o.Mode, o.MaxPts)), orb.LineString(genPoints(r, o.Mode, o.MaxPts))}
	case "R", "PG", "MPG":
		switch r.Intn(6) {
		case 5: // a multi with 2+ members: only *orb.MultiPolygon (and the bound) may accept it
			m := orb.MultiPolygon{genPolygon(r, o.Mode, o.MaxPts), genPolygon(r, o.Mode, o.MaxPts)}
			if r.Intn(3) == 0 {
				m = append(m, genPolygon(r, o.Mode, o.MaxPts))
			}
			return m
		case 0:
			return genRing(r, o.Mode, o.MaxPts)
		case 1:
			return orb.Polygon{genRing(r, o.Mode, o.MaxPts)}
		case 2:
			return genPolygon(r, o.Mode, o.MaxPts)
		case 3:
			return orb.MultiPolygon{genPolygon(r, o.Mode, o.MaxPts)}
		}
		return genGeom(r, GenOpts{Mode: o.Mode, MaxPts: o.MaxPts}, 0)
	case "C":
		n := size(r, 3)
		cc := make(orb.Collection, n)
		for i := range cc {
			cc[i] = genGeom(r, o, 1)
		}
		return cc
	}
	return genGeom(r, o, 0)
}

// c01NilMembers: values whose MEMBERS are nil slices (finding D1: the encoder used to count such a
// member and then write nothing for it).
func c01NilMembers() []orb.Geometry {
	ls := orb.LineString{{1, 2}, {3, 4}}
	pg := orb.Polygon{{{0, 0}, {1, 0}, {1, 1}, {0, 0}}}
	return []orb.Geometry{
		orb.MultiLineString{nil, ls},
		orb.MultiLineString{ls, nil},
		orb.MultiLineString{nil},
		make(orb.MultiPolygon, 1),
		orb.MultiPolygon{nil, pg},
		orb.MultiPolygon{pg, nil, pg},
		orb.MultiPolygon{{nil}},
		orb.Polygon{nil},
		orb.Polygon{nil, pg[0]},
		orb.Collection{orb.LineString(nil), orb.Point{1, 2}},
		orb.Collection{orb.MultiPoint(nil)},
		orb.Collection{orb.Point{1, 2}, orb.Polygon(nil), orb.MultiLineString(nil), orb.MultiPolygon(nil), orb.Ring(nil), orb.Collection(nil), orb.Point{3, 4}},
		orb.Collection{orb.Collection{orb.MultiLineString{nil, ls}}, orb.MultiPolygon{nil}},
	}
}

// sizes around the decoders' allocation caps (wkbcommon.MaxMultiAlloc = 100, MaxPointsAlloc = 10000)
var c01BigMulti = []string{"MP", "MLS", "PG", "MPG", "C", "CC"}            // capped at MaxMultiAlloc somewhere
var c01BigPoints = []string{"LS", "R", "MP", "PGR", "MLSL", "MPGR", "CLS"} // capped at MaxPointsAlloc somewhere
var c01BigBases = []uint64{0x3ff0000000000000, 0x4024000000000000, 0xc024000000000000}

func genScqItem(c *Ctx, opt GenOpts, which, d string) string {
	r := c.Rng
	switch r.Intn(8) {
	case 0:
		return "null"
	case 1:
		return "nilb"
	}
	fr := c01Framings[r.Intn(len(c01Framings))]
	if which == "p" {
		fr = "prefix"
	} else if r.Intn(2) == 0 {
		fr = "raw"
	}
	srid := genSrid(c)
	if r.Intn(2) == 0 {
		srid = 0 // rows without an SRID after rows with one: the stale-SRID shape
	}
	ps := genSrid(c)
	if which == "p" && r.Intn(2) == 0 {
		ps = 0
	}
	return fmt.Sprintf("b %d %d %s %d %s", r.Intn(2), srid, fr, ps, gsN(genForDest(c, opt, d)))
}

func genC01(c *Ctx) {
	r := c.Rng
	idx := 0
	mine := func() bool { idx++; return c.Mine(idx) }
	// ---- fixed families (spread over the shards)
	for _, g := range orb.AllGeometries {
		for _, o := range []string{"0", "1"} {
			if mine() {
				c.Case("rt", o+" 0 "+gs(g))
				c.Case("rt", o+" 4326 "+gs(g))
				c.Case("wrt", o+" "+gs(g))
				for _, k := range []string{"w", "e", "p"} {
					c.Case("val", k+" 4326 "+gs(g))
				}
			}
		}
	}
	for _, g := range c01NilMembers() {
		for _, o := range []string{"0", "1"} {
			if !mine() {
				continue
			}
			t := gsN(g)
			c.Case("rt", o+" 0 "+t)
			c.Case("rt", o+" 4326 "+t)
			c.Case("wrt", o+" "+t)
			c.Case("sc", o+" 4326 any raw 0 "+t)
			c.Case("sc", o+" 0 any hex 0 "+t)
			c.Case("seq", "2 "+o+" 4326 set "+t+" "+o+" 0 arg "+t)
			c.Case("wsc", "any:"+o+":0 raw 0 "+t)
			c.Case("val", "e 4326 "+t)
		}
	}
	for _, k := range []string{"w", "e", "p"} { // NULL: nil interface and typed nil slices
		for _, t := range []string{"nil", "nMP", "nLS", "nMLS", "nR", "nPG", "nMPG", "nC"} {
			if mine() {
				c.Case("val", k+" 4326 "+t)
			}
		}
	}
	// sizes just above (and at) the allocation caps, both byte orders, every decode path
	bigCase := func(shape string, n int, o int, srid int, base uint64) {
		c.Case("big", fmt.Sprintf("%s %d %d %d %016x", shape, n, o, srid, base))
	}
	for _, sh := range c01BigMulti {
		for o := 0; o < 2; o++ {
			if mine() {
				bigCase(sh, 101, o, 4326*o, c01BigBases[0])
			}
			if mine() {
				bigCase(sh, 100, o, 4326*(1-o), c01BigBases[1])
			}
		}
	}
	for _, sh := range c01BigPoints {
		for o := 0; o < 2; o++ {
			if mine() {
				bigCase(sh, 10001, o, 4326*o, c01BigBases[0])
			}
		}
	}
	// collection nesting: shallow, around the decoders' depth limit (wkbcommon.MaxCollectionDepth = 10000:
	// the round trip holds up to it, ErrNestingTooDeep beyond), and far beyond
	// (the model glue flattens the coordinates of a decoded value once per destination, quadratic for the
	// wide shape: a few seconds per wide value that is accepted at the limit, so quick has one of them)
	for _, f := range []struct {
		sh     string
		depths []int
	}{
		{"NEST", []int{1, 2, 3, 100, 101, 9999, 10000, 10001, 10002, 30000}},
		{"NESTW", []int{2, 3, 101, 10000, 10001, 30000}},
	} {
		for i, n := range f.depths {
			if mine() {
				bigCase(f.sh, n, i%2, 4326*((i/2)%2), c01BigBases[i%3])
			}
		}
	}
	if c.Tier == "thorough" {
		for _, sh := range []string{"NEST", "NESTW"} {
			for o := 0; o < 2; o++ {
				for _, n := range []int{9998, 9999, 10000, 10001, 10002, 10003, 100000} {
					if mine() {
						bigCase(sh, n, o, 4326*(1-o), c01BigBases[2])
					}
				}
			}
		}
		for _, sh := range c01BigPoints {
			for o := 0; o < 2; o++ {
				for _, n := range []int{10000, 10002, 20001} {
					if mine() {
						bigCase(sh, n, o, 4326*(1-o), c01BigBases[2])
					}
				}
			}
		}
	}
	genC01wb(c, mine, bigCase)
	// two-row scanner reuse: a row with an SRID, then one without (and NULL rows)
	p12 := "P 3ff0000000000000 4000000000000000"
	for _, w := range []string{"e", "p", "w"} {
		fr := "raw"
		if w == "p" {
			fr = "prefix"
		}
		if mine() {
			c.Case("scq", fmt.Sprintf("%s any 2 b 1 4326 %s 0 %s b 1 0 %s 0 LS 1 3ff0000000000000 4000000000000000", w, fr, p12, fr))
			c.Case("scq", fmt.Sprintf("%s any 3 b 1 4326 %s 7 %s null b 0 0 %s 0 %s", w, fr, p12, fr, p12))
			c.Case("scq", fmt.Sprintf("%s P 4 b 1 4326 %s 7 %s nilb b 0 0 %s 0 LS 0 b 1 0 %s 0 %s", w, fr, p12, fr, fr, p12))
		}
	}

	// rows of shrinking / equal / growing sizes into one typed destination (a destination whose storage were
	// reused for the next row would change the value kept from the row before)
	for _, w := range []string{"e", "p", "w"} {
		fr := "raw"
		if w == "p" {
			fr = "prefix"
		}
		for _, d := range []string{"any", "LS", "MP", "MLS", "PG", "MPG", "C"} {
			for _, sizes := range [][]int{{3, 2}, {3, 3}, {4, 1, 3, 2}, {1, 2, 2, 1}, {5, 0, 4, 5}} {
				if !mine() {
					continue
				}
				parts := []string{w, d, fmt.Sprint(len(sizes))}
				for i, k := range sizes {
					parts = append(parts, fmt.Sprintf("b %d %d %s 0 %s", i%2, []int{0, 4326, 3857}[i%3], fr, gs(c01SizedFor(d, k, float64(10*(i+1))))))
				}
				c.Case("scq", strings.Join(parts, " "))
			}
		}
	}

	// ---- random families
	for k := 0; k < c.Budget && !c.Exhausted(); k++ {
		mode := []CoordMode{CoordBits, CoordBits, CoordFloat, CoordSmallInt}[r.Intn(4)]
		opt := GenOpts{Mode: mode, MaxPts: 6, MaxDepth: 4, TopNil: true, InnerNil: true}
		g := genGeom(r, opt, 0)
		c.Case("rt", fmt.Sprintf("%d %d %s", r.Intn(2), genSrid(c), gsN(g)))
		if k%2 == 0 {
			c.Case("wrt", fmt.Sprintf("%d %s", r.Intn(2), gsN(g)))
		} else {
			c.Case("val", fmt.Sprintf("%s %d %s", []string{"w", "e", "p"}[r.Intn(3)], genSrid(c), gsN(g)))
		}
		// scanner: destination x framing
		d := c01Dests[r.Intn(len(c01Dests))]
		fr := c01Framings[r.Intn(len(c01Framings))]
		opt.TopNil = false
		g2 := genForDest(c, opt, d)
		c.Case("sc", fmt.Sprintf("%d %d %s %s %d %s", r.Intn(2), genSrid(c), d, fr, genSrid(c), gsN(g2)))
		if k%3 == 0 { // encoder / decoder reuse over a stream of values
			n := 1 + r.Intn(4)
			parts := []string{fmt.Sprint(n)}
			for i := 0; i < n; i++ {
				o2 := opt
				o2.TopNil = r.Intn(4) == 0
				parts = append(parts, fmt.Sprintf("%d %d %s %s", r.Intn(2), genSrid(c), []string{"set", "arg"}[r.Intn(2)], gsN(genGeom(r, o2, 0))))
			}
			c.Case("seq", strings.Join(parts, " "))
		}
		if k%3 == 1 { // one scanner value reused over several rows
			w := []string{"e", "p", "w"}[r.Intn(3)]
			d2 := c01Dests[r.Intn(len(c01Dests))]
			if r.Intn(2) == 0 || (d2 == "B" && mode == CoordBits) { // NaN / -0 bounds are judged by sc / wsc
				d2 = "any"
			}
			n := 2 + r.Intn(4)
			parts := []string{w, d2, fmt.Sprint(n)}
			for i := 0; i < n; i++ {
				parts = append(parts, genScqItem(c, opt, w, d2))
			}
			c.Case("scq", strings.Join(parts, " "))
		}
		// deprecated wkb.Scanner incl. its MySQL prefix retry; prefix bytes uniform so the ambiguous class is hit
		fr2 := c01Framings[r.Intn(len(c01Framings))]
		ps := r.Uint32()
		if r.Intn(3) == 0 {
			ps = uint32(r.Intn(70000))
		}
		dtok := d
		if r.Intn(2) == 0 { // big endian and/or EWKB bytes with an SRID (which wkb.Scanner drops)
			dtok = fmt.Sprintf("%s:%d:%d", d, r.Intn(2), genSrid(c))
		}
		c.Case("wsc", fmt.Sprintf("%s %s %d %s", dtok, fr2, ps, gsN(g2)))
		genC01wbRandom(c, k, opt, bigCase)
		if c.Tier == "thorough" && k%4000 == 2017 { // random nesting depths, most of them around the limit
			n := 1 + r.Intn(300)
			if r.Intn(3) != 0 {
				n = 9990 + r.Intn(20)
			}
			bigCase([]string{"NEST", "NESTW"}[r.Intn(2)], n, r.Intn(2), genSrid(c), c01BigBases[r.Intn(3)])
		}
		if c.Tier == "thorough" && k%4000 == 17 { // random sizes around the caps
			if r.Intn(2) == 0 {
				bigCase(c01BigMulti[r.Intn(len(c01BigMulti))], 99+r.Intn(120), r.Intn(2), genSrid(c), c01BigBases[r.Intn(3)])
			} else {
				bigCase(c01BigPoints[r.Intn(len(c01BigPoints))], 9999+r.Intn(4), r.Intn(2), genSrid(c), c01BigBases[r.Intn(3)])
			}
		}
	}
}

// c01SizedFor: a geometry a destination of kind d accepts, every slice in it of length k, coordinates from base on.
func c01SizedFor(d string, k int, base float64) orb.Geometry {
	pts := func(off float64) []orb.Point {
		ps := make([]orb.Point, k)
		for i := range ps {
			ps[i] = orb.Point{base + off + float64(i), -(base + off) - float64(i)/2}
		}
		return ps
	}
	ring := func(off float64) orb.Ring {
		ps := pts(off)
		if k > 0 {
			ps = append(ps, ps[0])
		}
		return orb.Ring(ps)
	}
	poly := func(off float64) orb.Polygon {
		pg := make(orb.Polygon, k)
		for i := range pg {
			pg[i] = ring(off + float64(100*i))
		}
		return pg
	}
	switch d {
	case "MP":
		return orb.MultiPoint(pts(0))
	case "MLS":
		m := make(orb.MultiLineString, k)
		for i := range m {
			m[i] = orb.LineString(pts(float64(100 * i)))
		}
		return m
	case "PG":
		return poly(0)
	case "MPG":
		m := make(orb.MultiPolygon, k)
		for i := range m {
			m[i] = poly(float64(1000 * i))
		}
		return m
	case "C":
		m := make(orb.Collection, k)
		for i := range m {
			if i%2 == 0 {
				m[i] = orb.LineString(pts(float64(100 * i)))
			} else {
				m[i] = orb.MultiPoint(pts(float64(100 * i)))
			}
		}
		return m
	}
	return orb.LineString(pts(0))
}
