package main

import (
	"bufio"
	"fmt"
	"io"
	"math"
	"math/rand"
	"os"
	"os/exec"
	"sort"
	"strings"
	"time"

	"github.com/paulmach/orb"
	"github.com/paulmach/orb/clip"
	"github.com/paulmach/orb/clip/smartclip"
)

// C16 — smart clipping closes cut rings around the box with the asked winding.
//
// Case lines (o = 1 for orb.CCW, -1 for orb.CW, anything else is outside the quantifier and only
// compared with the model; qs = sample points inside the box):
//   ring  <o> <box> <pts> <qs>               smartclip.Ring on a (usually closed) ring
//   open  <o> <box> <path> <full> <qs>       smartclip.Ring on an open sub-path of the closed ring <full>
//                                            (<full> = <path> ++ omitted vertices ++ [path[0]])
//   arc   <o> <box> <path> <qs>              smartclip.Ring on a one-piece open path leaving at boundary
//                                            code A and re-entering at code B (the nexts/pointFor tables)
//   poly  <o> <box> PG … <qs>                smartclip.Polygon
//   mpoly <o> <box> MPG … <qs>               smartclip.MultiPolygon
//   geom  <o> <box> <gval>                   smartclip.Geometry (<gval> may hold nil members, gsN)
//   aring / apoly / ampoly <o> <box> <pts> | PG … | MPG …
//                                            the same three entry points on inputs whose rings are
//                                            sub-slices of ONE caller buffer (see c16Alias)
// Outcome: nil | MPG … | <gval> | panic | hang | crash; the a* ops append
//   `alias <wS> <sameS> <wB> <sameB>`.
//
// WATCHDOG.  Every call of the real code runs in a persistent child process of this binary (the
// worker, environment variable ORBVERIF_C16_WORKER): the parent writes `<op> <tokens>` to its stdin
// and waits for one outcome line.  No answer after c16CPULimit of the worker's CPU time => the worker is
// killed and a fresh one repeats the case once with a doubled limit; no answer again => outcome `hang`.  A worker that dies
// (fatal error, not a recoverable panic) twice on the same case => outcome `crash`.  Nothing leaks:
// the spinning process is gone.  (Before /repo 2c23ded clip.line's inner `for {}` did not terminate in
// float arithmetic when an intersection landed one ulp beyond the neighbouring box line — a vertex
// exactly on a corner of a general-position box; the corner/side-snapped family below found it.
// `hang` is a plain property failure now.)

const c16WorkerEnv = "ORBVERIF_C16_WORKER"

// A case is a hang when the WORKER HAS BURNT c16CPULimit of CPU time on it (/proc/<pid>/stat) — the
// non-terminating loop spins — not when wall time has passed: with 16 shards, 16 workers and 16 Lean
// drivers on a machine that other jobs load to 60, a worker can go unscheduled for many seconds, and
// a wall-clock limit of 3 s + 6 s reported hangs that replayed clean.  A worker that neither answers
// nor computes (blocked) is given c16WallCap.  Without /proc the limit is wall time, ten times longer.
const c16CPULimit = 2 * time.Second

const c16WallCap = 5 * time.Minute

// CPU time (user + system) consumed so far by process pid; ok = false when /proc is not available
func c16ProcCPU(pid int) (time.Duration, bool) {
	data, err := os.ReadFile(fmt.Sprintf("/proc/%d/stat", pid))
	if err != nil {
		return 0, false
	}
	str := string(data)
	i := strings.LastIndexByte(str, ')')
	if i < 0 {
		return 0, false
	}
	f := strings.Fields(str[i+1:])
	if len(f) < 13 {
		return 0, false
	}
	var ut, st int64
	if _, err := fmt.Sscan(f[11], &ut); err != nil {
		return 0, false
	}
	if _, err := fmt.Sscan(f[12], &st); err != nil {
		return 0, false
	}
	return time.Duration(ut+st) * (time.Second / 100), true // USER_HZ = 100
}

func init() {
	if os.Getenv(c16WorkerEnv) != "" {
		c16WorkerMain()
		os.Exit(0)
	}
	register(&Prop{ID: "C16", Run: runC16, Gen: genC16})
}

func c16WorkerMain() {
	in := bufio.NewReaderSize(os.Stdin, 1<<20)
	out := bufio.NewWriterSize(os.Stdout, 1<<20)
	for {
		line, err := in.ReadString('\n')
		if f := strings.Fields(line); len(f) > 0 {
			out.WriteString(c16Call(f[0], f[1:]))
			out.WriteByte('\n')
			out.Flush()
		}
		if err != nil {
			return
		}
	}
}

type c16Worker struct {
	cmd   *exec.Cmd
	stdin io.WriteCloser
	w     *bufio.Writer
	out   chan string // one line per case; closed when the worker's stdout ends
}

var c16W *c16Worker
var c16NoWorker bool // the worker could not be started: fall back to in-process calls (no watchdog)

func c16Start() *c16Worker {
	exe, err := os.Executable()
	if err != nil {
		return nil
	}
	cmd := exec.Command(exe)
	cmd.Env = append(os.Environ(), c16WorkerEnv+"=1")
	cmd.Stderr = io.Discard
	stdin, err1 := cmd.StdinPipe()
	stdout, err2 := cmd.StdoutPipe()
	if err1 != nil || err2 != nil || cmd.Start() != nil {
		return nil
	}
	w := &c16Worker{cmd: cmd, stdin: stdin, w: bufio.NewWriterSize(stdin, 1<<20), out: make(chan string, 1)}
	go func() {
		rd := bufio.NewReaderSize(stdout, 1<<20)
		for {
			line, err := rd.ReadString('\n')
			if strings.HasSuffix(line, "\n") {
				w.out <- strings.TrimRight(line, "\n")
			}
			if err != nil {
				close(w.out)
				return
			}
		}
	}()
	return w
}

func (w *c16Worker) kill() {
	w.stdin.Close()
	w.cmd.Process.Kill()
	w.cmd.Wait()
}

func runC16(op string, in []string) string {
	if op == "reach" { // <n>: the generator's reach self-test (clipreach.go), judged by the driver
		return in[0]
	}
	if c16NoWorker {
		return c16Call(op, in)
	}
	res := "hang"
	limit := c16CPULimit
	for attempt := 0; attempt < 2; attempt++ {
		if c16W == nil {
			if c16W = c16Start(); c16W == nil {
				c16NoWorker = true
				return c16Call(op, in)
			}
		}
		w := c16W
		w.w.WriteString(op)
		for _, t := range in {
			w.w.WriteByte(' ')
			w.w.WriteString(t)
		}
		w.w.WriteByte('\n')
		w.w.Flush()
		pid := w.cmd.Process.Pid
		cpu0, haveCPU := c16ProcCPU(pid)
		t0 := time.Now()
		tick := time.NewTicker(200 * time.Millisecond)
		for waiting := true; waiting; {
			select {
			case s, ok := <-w.out:
				if ok {
					tick.Stop()
					return s
				}
				res, waiting = "crash", false
			case <-tick.C:
				if haveCPU {
					if cpu, ok := c16ProcCPU(pid); ok && cpu-cpu0 >= limit {
						res, waiting = "hang", false
					}
					if time.Since(t0) > c16WallCap {
						res, waiting = "hang", false
					}
				} else if time.Since(t0) > 10*limit {
					res, waiting = "hang", false
				}
			}
		}
		tick.Stop()
		w.kill()
		c16W = nil
		limit *= 2
	}
	return res
}

func mpOut(mp orb.MultiPolygon) string {
	if mp == nil {
		return "nil"
	}
	return gs(mp)
}

// c16Call runs the real code (in the worker process).
func c16Call(op string, in []string) string {
	return guard(func() string {
		r := &tokReader{t: in}
		o := orb.Orientation(r.int())
		box := rdBound(r)
		switch op {
		case "ring", "open", "arc":
			rg := orb.Ring(r.pts())
			return mpOut(smartclip.Ring(box, rg.Clone(), o))
		case "poly":
			g := r.geom()
			return mpOut(smartclip.Polygon(box, g.(orb.Polygon).Clone(), o))
		case "mpoly":
			g := r.geom()
			return mpOut(smartclip.MultiPolygon(box, g.(orb.MultiPolygon).Clone(), o))
		case "geom":
			g := r.geom()
			out := smartclip.Geometry(box, orb.Clone(g), o)
			if out == nil {
				return "nil"
			}
			return gs(out)
		case "aring":
			return c16Alias("ring", box, o, orb.MultiPolygon{{orb.Ring(r.pts())}})
		case "apoly":
			return c16Alias("poly", box, o, orb.MultiPolygon{r.geom().(orb.Polygon)})
		case "ampoly":
			return c16Alias("mpoly", box, o, r.geom().(orb.MultiPolygon))
		}
		return "badop"
	})
}

// c16Alias: the caller's rings are sub-slices of ONE buffer, as they are after decoding a geometry
// into a single coordinate array.  The entry point is run three times:
//   * on a deep copy with cap == len (the reference result, reported first);
//   * layout S: every ring is followed by one spare sentinel slot (and its capacity runs on to the end
//     of the buffer);
//   * layout B: the rings lie back to back, so that the slot after a ring is the first vertex of the
//     next ring (two sentinel slots after the last).
// For both layouts the whole buffer is compared before / after the call (w = number of slots whose
// bits changed) and the result is compared with the reference (same = 1 | 0, p = panic).
func c16Alias(kind string, box orb.Bound, o orb.Orientation, mp orb.MultiPolygon) string {
	call := func(m orb.MultiPolygon) orb.MultiPolygon {
		switch kind {
		case "ring":
			return smartclip.Ring(box, m[0][0], o)
		case "poly":
			return smartclip.Polygon(box, m[0], o)
		}
		return smartclip.MultiPolygon(box, m, o)
	}
	exact := func() orb.MultiPolygon {
		m := make(orb.MultiPolygon, len(mp))
		for i, pg := range mp {
			m[i] = make(orb.Polygon, len(pg))
			for j, rg := range pg {
				m[i][j] = append(make(orb.Ring, 0, len(rg)), rg...)
			}
		}
		return m
	}
	ref := mpOut(call(exact()))
	res := ref + " alias"
	for _, gap := range []int{1, 0} {
		total := 2
		for _, pg := range mp {
			for _, rg := range pg {
				total += len(rg) + gap
			}
		}
		buf := make([]orb.Point, total)
		for i := range buf {
			buf[i] = orb.Point{box.Min[0] + 0.3125*(box.Max[0]-box.Min[0]) + float64(i)/1024, box.Min[1] + 0.4375*(box.Max[1]-box.Min[1])}
		}
		m := make(orb.MultiPolygon, len(mp))
		at := 0
		for i, pg := range mp {
			m[i] = make(orb.Polygon, len(pg))
			for j, rg := range pg {
				copy(buf[at:], rg)
				m[i][j] = orb.Ring(buf[at : at+len(rg)])
				at += len(rg) + gap
			}
		}
		before := append([]orb.Point(nil), buf...)
		same := guard(func() string {
			if mpOut(call(m)) == ref {
				return "1"
			}
			return "0"
		})
		if same == "panic" {
			same = "p"
		}
		w := 0
		for i := range buf {
			if math.Float64bits(buf[i][0]) != math.Float64bits(before[i][0]) || math.Float64bits(buf[i][1]) != math.Float64bits(before[i][1]) {
				w++
			}
		}
		res += fmt.Sprintf(" %d %s", w, same)
	}
	return res
}

// ---------------------------------------------------------------- geometry helpers (generator side only)

func c16Area2(ps []orb.Point) float64 {
	s := 0.0
	for i := range ps {
		a, b := ps[i], ps[(i+1)%len(ps)]
		s += a[0]*b[1] - b[0]*a[1]
	}
	return s
}

func c16Orient(a, b, c orb.Point) float64 {
	return (b[0]-a[0])*(c[1]-a[1]) - (b[1]-a[1])*(c[0]-a[0])
}

func c16OnSeg(a, b, p orb.Point) bool {
	return math.Min(a[0], b[0]) <= p[0] && p[0] <= math.Max(a[0], b[0]) &&
		math.Min(a[1], b[1]) <= p[1] && p[1] <= math.Max(a[1], b[1])
}

// closed segments a-b and c-d share a point
func c16SegsMeet(a, b, c, d orb.Point) bool {
	d1, d2 := c16Orient(c, d, a), c16Orient(c, d, b)
	d3, d4 := c16Orient(a, b, c), c16Orient(a, b, d)
	if ((d1 > 0 && d2 < 0) || (d1 < 0 && d2 > 0)) && ((d3 > 0 && d4 < 0) || (d3 < 0 && d4 > 0)) {
		return true
	}
	return (d1 == 0 && c16OnSeg(c, d, a)) || (d2 == 0 && c16OnSeg(c, d, b)) ||
		(d3 == 0 && c16OnSeg(a, b, c)) || (d4 == 0 && c16OnSeg(a, b, d))
}

// c16Simple: the implicitly closed vertex list is a simple polygon with non-zero area
func c16Simple(ps []orb.Point) bool {
	n := len(ps)
	if n < 3 || c16Area2(ps) == 0 {
		return false
	}
	for i := 0; i < n; i++ {
		a, b := ps[i], ps[(i+1)%n]
		if a == b {
			return false
		}
		for j := i + 1; j < n; j++ {
			c, d := ps[j], ps[(j+1)%n]
			adjacent := j == i+1 || (i == 0 && j == n-1)
			if !adjacent {
				if c16SegsMeet(a, b, c, d) {
					return false
				}
				continue
			}
			// adjacent edges must only share their common vertex
			if j == i+1 {
				if c16Orient(a, b, d) == 0 && c16OnSeg(a, b, d) || c16Orient(b, d, a) == 0 && c16OnSeg(b, d, a) {
					return false
				}
			} else {
				// edges (n-1 -> 0) and (0 -> 1): c=ps[n-1], d=ps[0]=a
				if c16Orient(a, b, c) == 0 && c16OnSeg(a, b, c) || c16Orient(c, a, b) == 0 && c16OnSeg(c, a, b) {
					return false
				}
			}
		}
	}
	return true
}

func c16Inside(ps []orb.Point, q orb.Point) bool {
	in := false
	for i := range ps {
		s, e := ps[i], ps[(i+1)%len(ps)]
		if (s[1] > q[1]) != (e[1] > q[1]) && q[0] < s[0]+(q[1]-s[1])*(e[0]-s[0])/(e[1]-s[1]) {
			in = !in
		}
	}
	return in
}

func c16DistToRing(ps []orb.Point, q orb.Point) float64 {
	best := math.Inf(1)
	for i := range ps {
		a, b := ps[i], ps[(i+1)%len(ps)]
		dx, dy := b[0]-a[0], b[1]-a[1]
		l2 := dx*dx + dy*dy
		t := 0.0
		if l2 > 0 {
			t = math.Max(0, math.Min(1, ((q[0]-a[0])*dx+(q[1]-a[1])*dy)/l2))
		}
		d := math.Hypot(q[0]-(a[0]+t*dx), q[1]-(a[1]+t*dy))
		if d < best {
			best = d
		}
	}
	return best
}

func c16Reverse(ps []orb.Point) []orb.Point {
	out := make([]orb.Point, len(ps))
	for i, p := range ps {
		out[len(ps)-1-i] = p
	}
	return out
}

// c16Wind returns the vertex list wound as o (1 CCW, -1 CW).
func c16Wind(ps []orb.Point, o int) []orb.Point {
	if (c16Area2(ps) > 0) != (o > 0) {
		return c16Reverse(ps)
	}
	return ps
}

func c16Close(ps []orb.Point) orb.Ring {
	out := append(orb.Ring{}, ps...)
	return append(out, ps[0])
}

func c16Rotate(ps []orb.Point, k int) []orb.Point {
	n := len(ps)
	out := make([]orb.Point, n)
	for i := range ps {
		out[i] = ps[(i+k)%n]
	}
	return out
}

type c16Box struct{ x0, y0, x1, y1 float64 }

func (b c16Box) String() string {
	return fmt.Sprintf("%s %s %s %s", fb(b.x0), fb(b.y0), fb(b.x1), fb(b.y1))
}
func (b c16Box) bound() orb.Bound {
	return orb.Bound{Min: orb.Point{b.x0, b.y0}, Max: orb.Point{b.x1, b.y1}}
}

func c16GenBox(r *rand.Rand, mode int) c16Box {
	if mode == 2 {
		x0, y0 := r.Float64()*3, r.Float64()*3
		return c16Box{x0, y0, x0 + 0.5 + r.Float64()*4, y0 + 0.5 + r.Float64()*4}
	}
	x0, y0 := float64(1+r.Intn(3)), float64(1+r.Intn(3))
	return c16Box{x0, y0, x0 + float64(1+r.Intn(4)), y0 + float64(1+r.Intn(4))}
}

func c16Samples(r *rand.Rand, b c16Box, n int) []orb.Point {
	qs := make([]orb.Point, 0, n)
	for i := 0; i < n; i++ {
		if i%4 == 3 { // near an edge or corner of the box
			fx, fy := r.Float64(), r.Float64()
			if r.Intn(2) == 0 {
				fx = []float64{0.01, 0.99}[r.Intn(2)]
			}
			if r.Intn(2) == 0 {
				fy = []float64{0.01, 0.99}[r.Intn(2)]
			}
			qs = append(qs, orb.Point{b.x0 + (b.x1-b.x0)*fx, b.y0 + (b.y1-b.y0)*fy})
		} else {
			qs = append(qs, orb.Point{b.x0 + (b.x1-b.x0)*r.Float64(), b.y0 + (b.y1-b.y0)*r.Float64()})
		}
	}
	return qs
}

// star-shaped simple polygon (CCW, unclosed) around (cx, cy); snap: 0 none, 1 half-integers, 2 integers
func c16Star(r *rand.Rand, cx, cy float64, n int, rmin, rmax float64, snap int) []orb.Point {
	for try := 0; try < 20; try++ {
		ps := make([]orb.Point, 0, n)
		for i := 0; i < n; i++ {
			a := 2 * math.Pi * (float64(i) + r.Float64()*0.8) / float64(n)
			rad := rmin + r.Float64()*(rmax-rmin)
			p := orb.Point{cx + rad*math.Cos(a), cy + rad*math.Sin(a)}
			switch snap {
			case 1:
				p = orb.Point{math.Round(p[0]*2) / 2, math.Round(p[1]*2) / 2}
			case 2:
				p = orb.Point{math.Round(p[0]), math.Round(p[1])}
			}
			ps = append(ps, p)
		}
		if snap == 0 || c16Simple(ps) {
			return ps
		}
	}
	return nil
}

// integer-grid simple polygon with many vertices on the box edges and corners (unclosed, any winding)
func c16GridPoly(r *rand.Rand, b c16Box) []orb.Point {
	for try := 0; try < 40; try++ {
		n := 3 + r.Intn(7)
		seen := map[orb.Point]bool{}
		var ps []orb.Point
		for len(ps) < n {
			var p orb.Point
			for k := 0; k < 2; k++ {
				lo, hi := b.x0, b.x1
				if k == 1 {
					lo, hi = b.y0, b.y1
				}
				switch r.Intn(5) {
				case 0:
					p[k] = lo
				case 1:
					p[k] = hi
				default:
					p[k] = lo - 1 + float64(r.Intn(int(hi-lo)+3))
				}
			}
			if !seen[p] {
				seen[p] = true
				ps = append(ps, p)
			}
		}
		cx := b.x0 - 0.9 + r.Float64()*(b.x1-b.x0+1.8)
		cy := b.y0 - 0.9 + r.Float64()*(b.y1-b.y0+1.8)
		sort.Slice(ps, func(i, j int) bool {
			ai := math.Atan2(ps[i][1]-cy, ps[i][0]-cx)
			aj := math.Atan2(ps[j][1]-cy, ps[j][0]-cx)
			if ai != aj {
				return ai < aj
			}
			return math.Hypot(ps[i][0]-cx, ps[i][1]-cy) < math.Hypot(ps[j][0]-cx, ps[j][1]-cy)
		})
		if c16Simple(ps) {
			return ps
		}
	}
	return nil
}

// rectilinear ring with edges on the grid lines of the box (rectangle or L-shape), CCW, unclosed
func c16Rectilinear(r *rand.Rand, b c16Box) []orb.Point {
	xs := []float64{b.x0 - 1, b.x0, b.x0 + 1, b.x1 - 1, b.x1, b.x1 + 1}
	ys := []float64{b.y0 - 1, b.y0, b.y0 + 1, b.y1 - 1, b.y1, b.y1 + 1}
	sort.Float64s(xs)
	sort.Float64s(ys)
	for try := 0; try < 20; try++ {
		xa, xb := xs[r.Intn(len(xs))], xs[r.Intn(len(xs))]
		ya, yb := ys[r.Intn(len(ys))], ys[r.Intn(len(ys))]
		if xa >= xb || ya >= yb {
			continue
		}
		ps := []orb.Point{{xa, ya}, {xb, ya}, {xb, yb}, {xa, yb}}
		if r.Intn(2) == 0 && xb-xa >= 2 && yb-ya >= 2 { // cut a notch out of a corner
			xm := xa + float64(1+r.Intn(int(xb-xa)-1))
			ym := ya + float64(1+r.Intn(int(yb-ya)-1))
			ps = []orb.Point{{xa, ya}, {xb, ya}, {xb, ym}, {xm, ym}, {xm, yb}, {xa, yb}}
			// mirror at random
			if r.Intn(2) == 0 {
				for i := range ps {
					ps[i][0] = xa + xb - ps[i][0]
				}
			}
			if r.Intn(2) == 0 {
				for i := range ps {
					ps[i][1] = ya + yb - ps[i][1]
				}
			}
		}
		if c16Simple(ps) {
			return c16Wind(ps, 1)
		}
	}
	return nil
}

// rotate the configuration by k quarter turns about the centre of the (square-agnostic) box: maps the box to itself
// only for k even or square boxes, so we map into box coordinates [0,1]² and back.
func c16Turn(b c16Box, ps []orb.Point, k int) []orb.Point {
	out := make([]orb.Point, len(ps))
	for i, p := range ps {
		u, v := (p[0]-b.x0)/(b.x1-b.x0), (p[1]-b.y0)/(b.y1-b.y0)
		for t := 0; t < k; t++ {
			u, v = 1-v, u
		}
		out[i] = orb.Point{b.x0 + u*(b.x1-b.x0), b.y0 + v*(b.y1-b.y0)}
	}
	return out
}

// comb: a CCW ring inside the box touching the LEFT side m times, each time arriving along a horizontal
// edge (equal `Before` key => a tie in sortableEndpoints.Less).  Box must be at least 2 wide; uses box
// coordinates scaled so that everything stays dyadic.
func c16Comb(b c16Box, m int, diag bool) []orb.Point {
	h := (b.y1 - b.y0) / float64(2*m+2)
	w := (b.x1 - b.x0) / 4
	var ps []orb.Point
	y := b.y1 - h
	for k := 0; k < m; k++ {
		ps = append(ps, orb.Point{b.x0 + w, y}, orb.Point{b.x0, y})
		if diag {
			ps = append(ps, orb.Point{b.x0 + w, y - h})
		} else {
			ps = append(ps, orb.Point{b.x0 + w/2, y - h/2}, orb.Point{b.x0 + w, y - h})
		}
		y -= 2 * h
	}
	ps = append(ps, orb.Point{b.x0 + 2*w, b.y0 + h/2}, orb.Point{b.x0 + 2*w, b.y1 - h/2})
	return ps
}

// boundary point of the box with open bit code `code` (1,2,4,8 sides: a point strictly within the side at
// fraction f; 5,6,9,10 corners)
func c16CodePoint(b c16Box, code int, f float64) (p, outward orb.Point) {
	mx, my := b.x0+(b.x1-b.x0)*f, b.y0+(b.y1-b.y0)*f
	switch code {
	case 1:
		return orb.Point{b.x0, my}, orb.Point{-1, 0}
	case 2:
		return orb.Point{b.x1, my}, orb.Point{1, 0}
	case 4:
		return orb.Point{mx, b.y0}, orb.Point{0, -1}
	case 8:
		return orb.Point{mx, b.y1}, orb.Point{0, 1}
	case 5:
		return orb.Point{b.x0, b.y0}, orb.Point{-1, -1}
	case 6:
		return orb.Point{b.x1, b.y0}, orb.Point{1, -1}
	case 9:
		return orb.Point{b.x0, b.y1}, orb.Point{-1, 1}
	default:
		return orb.Point{b.x1, b.y1}, orb.Point{1, 1}
	}
}

var c16Codes = []int{1, 2, 4, 5, 6, 8, 9, 10}

// hole: a small star ring strictly inside `outer`, away from `avoid` rings; nil if none found
func c16Hole(r *rand.Rand, outer []orb.Point, avoid [][]orb.Point, near c16Box, snap int) []orb.Point {
	minx, miny, maxx, maxy := math.Inf(1), math.Inf(1), math.Inf(-1), math.Inf(-1)
	for _, p := range outer {
		minx, maxx = math.Min(minx, p[0]), math.Max(maxx, p[0])
		miny, maxy = math.Min(miny, p[1]), math.Max(maxy, p[1])
	}
	for try := 0; try < 30; try++ {
		c := orb.Point{minx + r.Float64()*(maxx-minx), miny + r.Float64()*(maxy-miny)}
		if try%2 == 0 { // prefer holes near the box so that they get cut or stay inside
			c = orb.Point{near.x0 - 0.5 + r.Float64()*(near.x1-near.x0+1), near.y0 - 0.5 + r.Float64()*(near.y1-near.y0+1)}
		}
		if snap > 0 {
			c = orb.Point{math.Round(c[0]*2) / 2, math.Round(c[1]*2) / 2}
		}
		if !c16Inside(outer, c) {
			continue
		}
		d := c16DistToRing(outer, c)
		for _, a := range avoid {
			if c16Inside(a, c) {
				d = 0
			}
			d = math.Min(d, c16DistToRing(a, c))
		}
		if d < 0.3 {
			continue
		}
		rad := d * (0.35 + 0.5*r.Float64())
		h := c16Star(r, c[0], c[1], 3+r.Intn(4), rad*0.5, rad, 0)
		if snap > 0 {
			// a small axis-aligned diamond / square on the half-integer grid
			s := math.Floor(rad*2) / 2
			if s < 0.5 {
				continue
			}
			if r.Intn(2) == 0 {
				s2 := math.Floor(s/math.Sqrt2*2) / 2
				if s2 < 0.5 {
					continue
				}
				h = []orb.Point{{c[0] - s2, c[1] - s2}, {c[0] + s2, c[1] - s2}, {c[0] + s2, c[1] + s2}, {c[0] - s2, c[1] + s2}}
			} else {
				h = []orb.Point{{c[0] - s, c[1]}, {c[0], c[1] - s}, {c[0] + s, c[1]}, {c[0], c[1] + s}}
			}
		}
		if h != nil {
			return h
		}
	}
	return nil
}

func c16MeetsOpenBox(b c16Box, ring orb.Ring) bool {
	return len(clip.LineString(b.bound(), orb.LineString(ring), clip.OpenBound(true))) > 0
}

// a simple ring near the box: star-shaped (float / half-integer / integer), grid polygon or rectilinear
func c16SimpleRing(r *rand.Rand, b c16Box, mode int) []orb.Point {
	for try := 0; try < 20; try++ {
		var ps []orb.Point
		w, h := b.x1-b.x0, b.y1-b.y0
		switch {
		case mode == 2 || r.Intn(3) == 0:
			cx := b.x0 - 0.3*w + r.Float64()*1.6*w
			cy := b.y0 - 0.3*h + r.Float64()*1.6*h
			big := math.Max(w, h)
			snap := 0
			if mode == 1 {
				snap = 1
			} else if mode == 0 {
				snap = 2
			}
			ps = c16Star(r, cx, cy, 3+r.Intn(10), 0.2*big, (0.4+r.Float64())*big, snap)
		case r.Intn(3) == 0:
			ps = c16Rectilinear(r, b)
		default:
			ps = c16GridPoly(r, b)
		}
		if ps != nil {
			return ps
		}
	}
	return nil
}

// c16CornerDraws: edges drawn per shard by c16GenCorner (the clamp arm of clip.line is taken by about one in a
// thousand of them: see clipreach.go).
const c16CornerDraws = 25000

// c16GenCorner: the edge-through-corner family.  A general-position box; a ring EDGE from a point inside the
// box (or beside it, so that the edge crosses the whole box) aimed exactly at a corner and continued beyond it,
// the far end computed in float64 as corner + t*(corner - start): the exact line misses the corner by rounding
// only, which is what makes clip.line clip the leaving end twice and, when it is still a hair outside, snap it
// with clampToBound — the end point smartWrap then classifies by pointSide.  The edge is closed to a triangle
// or a quadrilateral by vertices beside the box (simple, wound as requested or the other way for a hole of a
// large outer ring; both traversal directions of the edge occur).  c16CornerDraws edges are drawn per shard;
// the rings on which a replica of the open-mode loop (clipReachClamp) takes the clamp arm, and one in eighty of
// the others, become `ring` / `poly` / `geom` / `aring` cases.  Every reaching case is followed by a
// `reach 1` line (tag `reach-clamp`); a shard with no reaching case emits `reach 0`, which the driver
// answers `bad reach-gate clamp-arm-unreached`.
func c16GenCorner(c *Ctx, r *rand.Rand) {
	reached := 0
	for k := 0; k < c16CornerDraws; k++ {
		var bb c16Box
		switch r.Intn(4) {
		case 0: // around the origin
			bb = c16Box{-0.5 - r.Float64()*2, -0.5 - r.Float64()*2, 0.5 + r.Float64()*2, 0.5 + r.Float64()*2}
		case 1: // larger magnitudes
			x0, y0 := (r.Float64()*2-1)*100, (r.Float64()*2-1)*100
			bb = c16Box{x0, y0, x0 + 1 + r.Float64()*50, y0 + 1 + r.Float64()*50}
		default:
			bb = c16GenBox(r, 2)
		}
		box := bb.bound()
		w, h := bb.x1-bb.x0, bb.y1-bb.y0
		start, far, corner := clipCornerShot(r, box, r.Intn(3) != 0)
		// a third vertex beside the box: mirrored across the corner on one axis
		third := orb.Point{2*corner[0] - start[0] + (r.Float64()-0.5)*w*0.5, start[1] + (r.Float64()-0.5)*h*0.5}
		if r.Intn(2) == 0 {
			third = orb.Point{start[0] + (r.Float64()-0.5)*w*0.5, 2*corner[1] - start[1] + (r.Float64()-0.5)*h*0.5}
		}
		ps := []orb.Point{start, far, third}
		if r.Intn(3) == 0 { // a fourth vertex between third and start
			q := orb.Point{(third[0]+start[0])/2 + (r.Float64()-0.5)*w*0.3, (third[1]+start[1])/2 + (r.Float64()-0.5)*h*0.3}
			if ps4 := append(append([]orb.Point{}, ps...), q); c16Simple(ps4) {
				ps = ps4
			}
		}
		if c16Area2(ps) == 0 || !c16Simple(ps) {
			continue
		}
		o := 1 - 2*r.Intn(2)
		hole := r.Intn(5) == 0
		wo := o
		if hole {
			wo = -o
		}
		ring := c16Close(c16Rotate(c16Wind(ps, wo), r.Intn(len(ps))))
		a, b := clipReachClamp(box, ring, true)
		hit := a+b > 0
		if !hit && k%80 != 0 {
			continue
		}
		qq := spts(c16Samples(r, bb, 16))
		if hole {
			// a large outer ring around the box and the hole
			minx, miny, maxx, maxy := bb.x0, bb.y0, bb.x1, bb.y1
			for _, p := range ps {
				minx, maxx = math.Min(minx, p[0]), math.Max(maxx, p[0])
				miny, maxy = math.Min(miny, p[1]), math.Max(maxy, p[1])
			}
			m := 0.5 + r.Float64()
			outer := c16Close(c16Rotate(c16Wind([]orb.Point{{minx - m*w, miny - m*h}, {maxx + m*w, miny - m*h}, {maxx + m*w, maxy + m*h}, {minx - m*w, maxy + m*h}}, o), r.Intn(4)))
			c.Case("poly", fmt.Sprintf("%d %s %s %s", o, bb, gs(orb.Polygon{outer, ring}), qq))
		} else {
			c.Case("ring", fmt.Sprintf("%d %s %s %s", o, bb, spts(ring), qq))
			switch r.Intn(4) {
			case 0:
				c.Case("poly", fmt.Sprintf("%d %s %s %s", o, bb, gs(orb.Polygon{ring}), qq))
			case 1:
				c.Case("geom", fmt.Sprintf("%d %s %s", o, bb, gs(ring)))
			case 2:
				c.Case("aring", fmt.Sprintf("%d %s %s", o, bb, spts(ring)))
			}
		}
		if hit {
			reached++
			c.Case("reach", "1")
		}
	}
	if reached == 0 {
		c.Case("reach", "0")
	}
}

func genC16(c *Ctx) {
	r := c.Rng
	c16GenCorner(c, r)
	oTok := func(o int) string { return fmt.Sprint(o) }

	// ---- exhaustive: the nexts / pointFor tables through smartclip.Ring (all 8x8 code pairs, both orientations,
	// both orders along one side), on an integer, a half-integer and an oblong box
	idx := 0
	for _, b := range []c16Box{{0, 0, 4, 4}, {1, 2, 6, 5}, {-2.5, -1.5, 0.5, 6.5}} {
		cpt := orb.Point{b.x0 + (b.x1-b.x0)*0.4375, b.y0 + (b.y1-b.y0)*0.625}
		for _, ca := range c16Codes {
			for _, cb := range c16Codes {
				for _, fr := range [][2]float64{{0.25, 0.75}, {0.75, 0.25}, {0.5, 0.5}} {
					for _, o := range []int{1, -1} {
						idx++
						if !c.Mine(idx) {
							continue
						}
						pa, na := c16CodePoint(b, ca, fr[0])
						pb, nb := c16CodePoint(b, cb, fr[1])
						// enters at pb, leaves at pa
						path := []orb.Point{{pb[0] + nb[0], pb[1] + nb[1]}, pb, cpt, pa, {pa[0] + na[0], pa[1] + na[1]}}
						c.Case("arc", fmt.Sprintf("%s %s %s %s", oTok(o), b, spts(path), spts(c16Samples(r, b, 12))))
					}
				}
			}
		}
	}

	// ---- degenerate family (known defect classes and their neighbours)
	{
		b := c16Box{1, 1, 5, 5}
		deg := []string{
			"geom 1 " + b.String() + " MPG 1 0",                                  // MultiPolygon{{}}
			"geom -1 " + b.String() + " MPG 2 0 1 " + spts(c16Close([]orb.Point{{2, 2}, {7, 2}, {7, 3}, {2, 3}})),
			"geom 1 " + b.String() + " PG 1 0",                                   // polygon with a zero-vertex ring
			"geom 1 " + b.String() + " PG 2 " + spts(c16Close([]orb.Point{{2, 2}, {7, 2}, {7, 3}, {2, 3}})) + " 0",
			"geom 1 " + b.String() + " R 0",
			"geom 1 " + b.String() + " nR", "geom 1 " + b.String() + " nPG", "geom 1 " + b.String() + " nMPG",
			"geom 1 " + b.String() + " nC", "geom 1 " + b.String() + " nil", "geom 1 " + b.String() + " C 0",
			"geom 1 " + b.String() + " PG 0", "geom 1 " + b.String() + " MPG 0",
			// 2-vertex open rings: an endpoint strictly inside the box
			"geom 1 " + b.String() + " R " + spts([]orb.Point{{2, 2}, {7, 2}}),
			"geom -1 " + b.String() + " R " + spts([]orb.Point{{7, 2}, {2, 2}}),
			"geom 1 " + b.String() + " R " + spts([]orb.Point{{2, 2}, {3, 3}}),
			"geom 1 " + b.String() + " R " + spts([]orb.Point{{0, 2}, {7, 2}}),
			"geom 1 " + b.String() + " R " + spts([]orb.Point{{1, 2}, {5, 2}}),
			"geom 1 " + b.String() + " R " + spts([]orb.Point{{1, 2}, {3, 2}}),
			"geom 1 " + b.String() + " R " + spts([]orb.Point{{2, 2}}),
			"geom 1 " + b.String() + " R " + spts([]orb.Point{{0, 0}}),
			"geom 1 " + b.String() + " R " + spts([]orb.Point{{1, 1}}),
			"geom 1 " + b.String() + " R " + spts([]orb.Point{{2, 2}, {7, 2}, {2, 2}}),
			"geom 1 " + b.String() + " R " + spts([]orb.Point{{2, 2}, {2, 2}, {2, 2}, {2, 2}}),
			"geom 1 " + b.String() + " R " + spts([]orb.Point{{0, 0}, {6, 6}}),   // through two corners
			"geom 1 " + b.String() + " R " + spts([]orb.Point{{0, 2}, {2, 0}, {0, 0}, {0, 2}}), // cuts the corner point only
			// orientations other than CW / CCW (outside the quantifier: model agreement only; `nexts[o]` is the zero array)
			"ring 0 " + b.String() + " " + spts(c16Close([]orb.Point{{2, 2}, {7, 2}, {7, 3}, {2, 3}})) + " 0",
			"ring 2 " + b.String() + " " + spts(c16Close([]orb.Point{{2, 2}, {7, 2}, {7, 3}, {2, 3}})) + " 0",
			"ring -2 " + b.String() + " " + spts(c16Close([]orb.Point{{0, 2}, {7, 2}, {7, 3}, {0, 3}})) + " 0",
			"ring 0 " + b.String() + " " + spts(c16Close([]orb.Point{{2, 2}, {3, 2}, {3, 3}})) + " 0",
			"ring 2 " + b.String() + " " + spts(c16Close([]orb.Point{{7, 2}, {8, 2}, {8, 3}})) + " 0",
			"poly 0 " + b.String() + " PG 1 " + spts(c16Close([]orb.Point{{2, 2}, {7, 2}, {7, 3}, {2, 3}})) + " 0",
			"mpoly -2 " + b.String() + " MPG 1 1 " + spts(c16Close([]orb.Point{{2, 2}, {7, 2}, {7, 3}, {2, 3}})) + " 0",
			"geom 2 " + b.String() + " R " + spts(c16Close([]orb.Point{{2, 2}, {7, 2}, {7, 3}, {2, 3}})),
			"geom 0 " + b.String() + " C 2 P " + fb(2) + " " + fb(2) + " R " + spts(c16Close([]orb.Point{{2, 2}, {7, 2}, {7, 3}, {2, 3}})),
			// nil members below the top level (gsN): nil ring in a polygon, nil polygon in a multi-polygon, typed nils in a collection
			"geom 1 " + b.String() + " PG 2 " + spts(c16Close([]orb.Point{{2, 2}, {7, 2}, {7, 3}, {2, 3}})) + " n",
			"geom 1 " + b.String() + " PG 2 n " + spts(c16Close([]orb.Point{{2, 2}, {7, 2}, {7, 3}, {2, 3}})),
			"geom -1 " + b.String() + " MPG 3 n 1 " + spts(c16Close([]orb.Point{{2, 2}, {2, 3}, {7, 3}, {7, 2}})) + " 2 n n",
			"geom 1 " + b.String() + " C 3 nR nPG C 2 nMPG R " + spts(c16Close([]orb.Point{{2, 2}, {7, 2}, {7, 3}, {2, 3}})),
			"mpoly 1 " + b.String() + " MPG 3 0 1 " + spts(c16Close([]orb.Point{{2, 2}, {7, 2}, {7, 3}, {2, 3}})) + " 0 0",
			"mpoly 1 " + b.String() + " MPG 3 0 1 " + spts(c16Close([]orb.Point{{2, 2}, {4, 2}, {4, 3}, {2, 3}})) + " 0 0",
			// island in a lake (review D3): B with hole H, A inside H with hole Ha; the box [0,8]² cuts B only
			"mpoly 1 " + c16Box{0, 0, 8, 8}.String() + " " + gs(c16Island(orb.Point{3, 3}, [4]float64{4.5, 2.5, 1.5, 0.5}, 1, false)) + " 0",
			"mpoly -1 " + c16Box{0, 0, 8, 8}.String() + " " + gs(c16Island(orb.Point{3, 3}, [4]float64{4.5, 2.5, 1.5, 0.5}, -1, true)) + " 0",
			"mpoly 1 " + c16Box{0, 0, 8, 8}.String() + " " + gs(c16Island(orb.Point{3, 3}, [4]float64{4.5, 2.5, 1.5, 0}, 1, false)) + " 0",
			"geom 1 " + c16Box{0, 0, 8, 8}.String() + " " + gs(c16Island(orb.Point{3, 3}, [4]float64{4.5, 2.5, 1.5, 0.5}, 1, false)),
			// the whole island configuration inside the box / the outermost ring swallowing the box
			"mpoly 1 " + c16Box{-4, -4, 8, 8}.String() + " " + gs(c16Island(orb.Point{3, 3}, [4]float64{4.5, 2.5, 1.5, 0.5}, 1, false)) + " 0",
			"mpoly 1 " + b.String() + " " + gs(c16Island(orb.Point{3, 3}, [4]float64{4, 1.5, 1, 0.5}, 1, false)) + " 0",
			// the outer ring swallows the box, the hole is inside / cut / outside
			"poly 1 " + b.String() + " " + gs(c16Island(orb.Point{3, 3}, [4]float64{4, 1, 0, 0}, 1, false)[0]) + " 0",
			"poly 1 " + b.String() + " " + gs(c16Island(orb.Point{5, 3}, [4]float64{6, 1, 0, 0}, 1, false)[0]) + " 0",
			"poly -1 " + b.String() + " " + gs(c16Island(orb.Point{7, 3}, [4]float64{8, 1, 0, 0}, -1, false)[0]) + " 0",
			// caller buffers (review D2): open ring with its first vertex inside the box, closed ring, polygon with an open hole
			"aring 1 " + b.String() + " " + spts([]orb.Point{{2, 2}, {7, 2}, {7, 4}}),
			"aring 1 " + b.String() + " " + spts(c16Close([]orb.Point{{2, 2}, {7, 2}, {7, 4}})),
			"aring 1 " + b.String() + " " + spts([]orb.Point{{0, 2}, {7, 2}, {7, 4}}),
			"apoly 1 " + b.String() + " PG 2 " + spts([]orb.Point{{2, 2}, {7, 2}, {7, 4}}) + " " + spts(c16Close([]orb.Point{{3, 2.5}, {4, 3}, {4, 2.5}})),
			"ampoly 1 " + b.String() + " MPG 2 1 " + spts([]orb.Point{{2, 2}, {7, 2}, {7, 4}}) + " 1 " + spts(c16Close([]orb.Point{{2, 4.5}, {3, 4.5}, {3, 4.75}})),
		}
		for i, l := range deg {
			if c.Mine(i) {
				var op, rest string
				fmt.Sscanf(l, "%s", &op)
				rest = l[len(op)+1:]
				c.Case(op, rest)
			}
		}
	}

	for k := 0; k < c.Budget && !c.Exhausted(); k++ {
		mode := r.Intn(3) // 0 integer grid, 1 half-integer grid, 2 general position
		b := c16GenBox(r, mode)
		o := 1 - 2*r.Intn(2)
		qs := spts(c16Samples(r, b, 16))
		switch s := r.Intn(32); {
		// the families of the white-box round (c16_near.go) come ON TOP of the budget: the older families
		// below keep their 27 shares of it
		case s >= 27 && s < 30: // vertices NEXT TO the box lines
			k--
			c16GenNear(c, r, mode, o)
		case s == 30: // rings touching in one point on / next to / away from the box boundary
			k--
			c16GenTouch(c, r, mode, o)
		case s == 31: // k bands / teeth crossing the box: up to 28 endpoints, every polygon stitched from two pieces
			k--
			c16GenBands(c, r, mode, o)
		case s >= 20 && s < 23: // general position, vertices snapped onto box corners and sides (review D1)
			bb := c16GenBox(r, 2)
			var ps []orb.Point
			if r.Intn(2) == 0 {
				// a triangle through the box ending exactly on a corner: far vertex, corner, a vertex beside the box
				cx, cy := []float64{bb.x0, bb.x1}[r.Intn(2)], []float64{bb.y0, bb.y1}[r.Intn(2)]
				w, h := bb.x1-bb.x0, bb.y1-bb.y0
				far := orb.Point{2*(bb.x0+bb.x1)/2 - cx + (r.Float64()-0.3)*w*1.2*sgn(bb.x0+bb.x1-2*cx), 2*(bb.y0+bb.y1)/2 - cy + (r.Float64()-0.7)*h*0.9*sgn(bb.y0+bb.y1-2*cy)}
				side := orb.Point{far[0] + (r.Float64()-0.5)*w*0.5, cy - sgn(bb.y0+bb.y1-2*cy)*(0.1+r.Float64())*h}
				ps = []orb.Point{far, {cx, cy}, side}
			} else {
				ps = c16SimpleRing(r, bb, 2)
				if ps == nil {
					continue
				}
				ps = append([]orb.Point(nil), ps...)
				for n := 1 + r.Intn(3); n > 0; n-- {
					i := r.Intn(len(ps))
					p := ps[i]
					nx := bb.x0
					if math.Abs(p[0]-bb.x1) < math.Abs(p[0]-bb.x0) {
						nx = bb.x1
					}
					ny := bb.y0
					if math.Abs(p[1]-bb.y1) < math.Abs(p[1]-bb.y0) {
						ny = bb.y1
					}
					switch r.Intn(4) {
					case 0: // onto the nearest vertical side
						ps[i] = orb.Point{nx, p[1]}
					case 1: // onto the nearest horizontal side
						ps[i] = orb.Point{p[0], ny}
					default: // onto the nearest corner
						ps[i] = orb.Point{nx, ny}
					}
				}
			}
			if c16Area2(ps) == 0 {
				continue
			}
			ring := c16Close(c16Rotate(c16Wind(ps, o), r.Intn(len(ps))))
			qq := spts(c16Samples(r, bb, 16))
			switch r.Intn(6) {
			case 0:
				c.Case("poly", fmt.Sprintf("%d %s %s %s", o, bb, gs(orb.Polygon{ring}), qq))
			case 1:
				c.Case("geom", fmt.Sprintf("%d %s %s", o, bb, gs(ring)))
			default:
				c.Case("ring", fmt.Sprintf("%d %s %s %s", o, bb, spts(ring), qq))
			}
		case s == 23: // caller buffers (review D2): the rings are sub-slices of one buffer
			ps := c16SimpleRing(r, b, mode)
			if ps == nil {
				continue
			}
			ps = c16Rotate(c16Wind(ps, o), r.Intn(len(ps)))
			ring := c16Close(ps)
			if r.Intn(2) == 0 {
				ring = ring[:len(ring)-1] // not explicitly closed: smartclip closes it when an end is in the box
			}
			switch r.Intn(3) {
			case 0:
				c.Case("aring", fmt.Sprintf("%d %s %s", o, b, spts(ring)))
			case 1:
				pg := orb.Polygon{ring}
				snap := 0
				if mode != 2 {
					snap = 1
				}
				for hN := r.Intn(3); hN > 0; hN-- {
					if h := c16Hole(r, ps, nil, b, snap); h != nil {
						hr := c16Close(c16Wind(h, -o))
						if r.Intn(2) == 0 {
							hr = hr[:len(hr)-1]
						}
						pg = append(pg, hr)
					}
				}
				c.Case("apoly", fmt.Sprintf("%d %s %s", o, b, gs(pg)))
			default:
				mp := orb.MultiPolygon{{ring}}
				w := b.x1 - b.x0
				for n := r.Intn(3); n > 0; n-- {
					sh := orb.Point{(2 + r.Float64()) * w * float64(1-2*r.Intn(2)), 0}
					if mode != 2 {
						sh[0] = math.Round(sh[0])
					}
					var rg orb.Ring
					for _, p := range ring {
						rg = append(rg, orb.Point{p[0] + sh[0], p[1]})
					}
					mp = append(mp, orb.Polygon{rg})
				}
				c.Case("ampoly", fmt.Sprintf("%d %s %s", o, b, gs(mp)))
			}
		case s == 24 || s == 25: // concentric members: island in a lake (review D3), outer ring swallowing the box, empty members
			// a box large enough for the inner rings to fit in
			b := c16Box{b.x0, b.y0, b.x0 + float64(4+r.Intn(7)), b.y0 + float64(4+r.Intn(7))}
			if mode == 2 {
				b.x1, b.y1 = b.x1+r.Float64(), b.y1+r.Float64()
			}
			qs := spts(c16Samples(r, b, 16))
			w, h := b.x1-b.x0, b.y1-b.y0
			ctr := orb.Point{b.x0 + w*(r.Float64()*1.6-0.3), b.y0 + h*(r.Float64()*1.6-0.3)}
			unit := 0.5
			if mode == 2 {
				unit = 0.2 + r.Float64()*0.5
			} else {
				ctr = orb.Point{math.Round(ctr[0]*2) / 2, math.Round(ctr[1]*2) / 2}
			}
			var rad [4]float64
			acc := 0.0
			for i := 3; i >= 0; i-- {
				acc += unit * float64(1+r.Intn(4))
				rad[i] = acc
			}
			if r.Intn(2) == 0 {
				// the island well inside the box, the lake around it inside or across the box edge, the outermost
				// ring across it (review D3: hole of a closed member while another member is cut)
				ctr = orb.Point{b.x0 + w*(0.3+0.4*r.Float64()), b.y0 + h*(0.3+0.4*r.Float64())}
				if mode != 2 {
					ctr = orb.Point{math.Round(ctr[0]*2) / 2, math.Round(ctr[1]*2) / 2}
				}
				d := math.Min(math.Min(ctr[0]-b.x0, b.x1-ctr[0]), math.Min(ctr[1]-b.y0, b.y1-ctr[1]))
				q := func(x float64) float64 {
					if mode != 2 {
						return math.Max(0.5, math.Floor(x*2)/2)
					}
					return x
				}
				rad[3] = q(d * (0.1 + 0.15*r.Float64()))
				rad[2] = rad[3] + q(d*(0.1+0.2*r.Float64()))
				rad[1] = rad[2] + q(d*(0.1+0.6*r.Float64()))
				rad[0] = rad[1] + q(0.5+r.Float64()*(w+h)/2)
			}
			if r.Intn(4) == 0 { // make the outermost ring swallow the box
				rad[0] = math.Max(rad[0], math.Ceil(2*(w+h)+1))
			}
			if r.Intn(3) == 0 {
				rad[3] = 0 // the island has no hole
			}
			mp := c16Island(ctr, rad, o, r.Intn(2) == 0)
			if r.Intn(4) == 0 { // a single polygon with one hole (the swallow family)
				c.Case("poly", fmt.Sprintf("%d %s %s %s", o, b, gs(c16Island(ctr, [4]float64{rad[0], rad[1], 0, 0}, o, false)[0]), qs))
				continue
			}
			if r.Intn(3) == 0 { // empty members in between (`if len(p) == 0 { continue }`)
				var m2 orb.MultiPolygon
				for _, pg := range mp {
					if r.Intn(2) == 0 {
						m2 = append(m2, orb.Polygon{})
					}
					m2 = append(m2, pg)
				}
				mp = append(m2, orb.Polygon{})
			}
			c.Case("mpoly", fmt.Sprintf("%d %s %s %s", o, b, gs(mp), qs))
			if r.Intn(8) == 0 {
				c.Case("geom", fmt.Sprintf("%d %s %s", o, b, gs(mp)))
			}
		case s == 26: // outside the quantifier: orientations other than CW / CCW (model agreement only)
			ps := c16SimpleRing(r, b, mode)
			if ps == nil {
				continue
			}
			ring := c16Close(c16Rotate(ps, r.Intn(len(ps))))
			bad := []int{0, 2, -2}[r.Intn(3)]
			switch r.Intn(4) {
			case 0:
				c.Case("poly", fmt.Sprintf("%d %s %s %s", bad, b, gs(orb.Polygon{ring}), qs))
			case 1:
				c.Case("geom", fmt.Sprintf("%d %s %s", bad, b, gs(ring)))
			default:
				c.Case("ring", fmt.Sprintf("%d %s %s %s", bad, b, spts(ring), qs))
			}
		case s < 7: // simple closed ring wound as o
			ps := c16SimpleRing(r, b, mode)
			if k%16 == 5 { // a small ring strictly inside the box, or beside it
				w, h := b.x1-b.x0, b.y1-b.y0
				cx, cy := b.x0+w*(0.3+0.4*r.Float64()), b.y0+h*(0.3+0.4*r.Float64())
				if r.Intn(3) == 0 {
					cx += w
				}
				ps = c16Star(r, cx, cy, 3+r.Intn(6), 0.05*math.Min(w, h), 0.28*math.Min(w, h), 0)
			}
			if ps == nil {
				continue
			}
			ring := c16Close(c16Rotate(c16Wind(ps, o), r.Intn(len(ps))))
			if !c16MeetsOpenBox(b, ring) && r.Intn(8) != 0 {
				continue // precondition of the property; a few are kept (tagged by the driver)
			}
			oo := o
			if r.Intn(40) == 0 {
				oo = -o // mis-wound: model agreement only
			}
			if r.Intn(30) == 0 {
				ring = ring[:len(ring)-1] // not explicitly closed, an endpoint is usually in or near the box
			}
			c.Case("ring", fmt.Sprintf("%d %s %s %s", oo, b, spts(ring), qs))
		case s < 9: // the tie stream: combs touching one side with aligned arrivals
			m := 1 + r.Intn(6)
			if r.Intn(12) == 0 {
				m = 7 + r.Intn(3) // more than 12 endpoints: pdqsort territory
			}
			bb := c16Box{0, 0, 8, 16}
			if mode == 2 {
				bb = b
			}
			ps := c16Comb(bb, m, r.Intn(2) == 0)
			ps = c16Turn(bb, ps, r.Intn(4))
			if r.Intn(2) == 0 { // mirror
				for i := range ps {
					ps[i][0] = bb.x0 + bb.x1 - ps[i][0]
				}
			}
			ps = c16Wind(ps, o)
			ring := c16Close(c16Rotate(ps, r.Intn(len(ps))))
			c.Case("ring", fmt.Sprintf("%d %s %s %s", o, bb, spts(ring), spts(c16Samples(r, bb, 16))))
		case s < 12: // open sub-path of a simple ring
			ps := c16SimpleRing(r, b, mode)
			if ps == nil {
				continue
			}
			ps = c16Wind(ps, o)
			n := len(ps)
			// pick a run of consecutive edges that do not meet the open box and drop it
			start := r.Intn(n)
			found := false
			for t := 0; t < n && !found; t++ {
				i := (start + t) % n
				if !c16MeetsOpenBox(b, orb.Ring{ps[i], ps[(i+1)%n]}) {
					// extend the run forward
					j := i
					for ext := r.Intn(3); ext > 0; ext-- {
						if (j+2)%n != i && !c16MeetsOpenBox(b, orb.Ring{ps[(j+1)%n], ps[(j+2)%n]}) {
							j++
						}
					}
					// omitted edges i..j: path = ps[j+1], ..., ps[i]
					full := c16Rotate(ps, (j+1)%n)
					plen := n - (j - i)
					if plen < 2 {
						break
					}
					path := full[:plen]
					c.Case("open", fmt.Sprintf("%d %s %s %s %s", o, b, spts(path), spts(c16Close(full)), qs))
					found = true
				}
			}
		case s < 16: // polygon with 0..2 holes
			ps := c16SimpleRing(r, b, mode)
			if k%10 == 7 { // a small polygon strictly inside the box ("returned unchanged"), or beside it
				w, h := b.x1-b.x0, b.y1-b.y0
				cx, cy := b.x0+w*(0.35+0.3*r.Float64()), b.y0+h*(0.35+0.3*r.Float64())
				if r.Intn(4) == 0 {
					cx += w
				}
				ps = c16Star(r, cx, cy, 3+r.Intn(6), 0.2*math.Min(w, h), 0.3*math.Min(w, h), 0)
				if ps != nil {
					pg := orb.Polygon{c16Close(c16Rotate(c16Wind(ps, o), r.Intn(len(ps))))}
					for hN := r.Intn(3); hN > 0; hN-- {
						if hole := c16Star(r, cx+(float64(hN)-1.5)*0.08*math.Min(w, h), cy, 3+r.Intn(3), 0.01*math.Min(w, h), 0.035*math.Min(w, h), 0); hole != nil {
							pg = append(pg, c16Close(c16Wind(hole, -o)))
						}
					}
					c.Case("poly", fmt.Sprintf("%d %s %s %s", o, b, gs(pg), qs))
					continue
				}
			}
			if ps == nil {
				continue
			}
			outer := c16Wind(ps, o)
			pg := orb.Polygon{c16Close(c16Rotate(outer, r.Intn(len(outer))))}
			var holes [][]orb.Point
			snap := 0
			if mode != 2 {
				snap = 1
			}
			for hN := r.Intn(3); hN > 0; hN-- {
				h := c16Hole(r, outer, holes, b, snap)
				if h == nil {
					continue
				}
				holes = append(holes, h)
				pg = append(pg, c16Close(c16Wind(h, -o)))
			}
			c.Case("poly", fmt.Sprintf("%d %s %s %s", o, b, gs(pg), qs))
			if r.Intn(6) == 0 {
				c.Case("geom", fmt.Sprintf("%d %s %s", o, b, gs(pg)))
			}
		case s < 19: // multi-polygon of 1..3 disjoint polygons, some with a hole
			var mp orb.MultiPolygon
			var outers [][]orb.Point
			w, h := b.x1-b.x0, b.y1-b.y0
			for pN := 1 + r.Intn(3); pN > 0; pN-- {
				for try := 0; try < 10; try++ {
					cx := b.x0 - 0.3*w + r.Float64()*1.6*w
					cy := b.y0 - 0.3*h + r.Float64()*1.6*h
					big := math.Max(w, h)
					snap := 0
					if mode == 1 {
						snap = 1
					} else if mode == 0 {
						snap = 2
					}
					ps := c16Star(r, cx, cy, 3+r.Intn(7), 0.15*big, (0.25+0.5*r.Float64())*big, snap)
					if ps == nil {
						continue
					}
					ok := true
					for _, q := range outers {
						if c16Inside(q, ps[0]) || c16Inside(ps, q[0]) {
							ok = false
						}
						for i := range ps {
							for j := range q {
								if c16SegsMeet(ps[i], ps[(i+1)%len(ps)], q[j], q[(j+1)%len(q)]) {
									ok = false
								}
							}
						}
					}
					if !ok {
						continue
					}
					outers = append(outers, ps)
					pg := orb.Polygon{c16Close(c16Rotate(c16Wind(ps, o), r.Intn(len(ps))))}
					if r.Intn(3) == 0 {
						hs := 0
						if mode != 2 {
							hs = 1
						}
						if hole := c16Hole(r, ps, nil, b, hs); hole != nil {
							pg = append(pg, c16Close(c16Wind(hole, -o)))
						}
					}
					mp = append(mp, pg)
					break
				}
			}
			if len(mp) == 0 {
				continue
			}
			if k%8 == 3 { // members that are not cut: one strictly inside the box, one outside (with a hole now and then)
				mp = nil
				for _, dx := range []float64{0, 1.5, -1.5} {
					if r.Intn(3) == 0 {
						continue
					}
					cx, cy := b.x0+w*(0.5+dx), b.y0+h*(0.4+0.2*r.Float64())
					ps := c16Star(r, cx, cy, 3+r.Intn(5), 0.12*math.Min(w, h), 0.3*math.Min(w, h), 0)
					pg := orb.Polygon{c16Close(c16Wind(ps, o))}
					if r.Intn(2) == 0 {
						hole := c16Star(r, cx, cy, 3+r.Intn(3), 0.03*math.Min(w, h), 0.08*math.Min(w, h), 0)
						pg = append(pg, c16Close(c16Wind(hole, -o)))
					}
					mp = append(mp, pg)
				}
				if len(mp) == 0 {
					continue
				}
			}
			c.Case("mpoly", fmt.Sprintf("%d %s %s %s", o, b, gs(mp), qs))
			if r.Intn(6) == 0 {
				c.Case("geom", fmt.Sprintf("%d %s %s", o, b, gs(mp)))
			}
		default: // the generic entry point over every kind, incl. garbage rings, collections and typed nils
			cm := []CoordMode{CoordSmallInt, CoordHalf, CoordModest}[mode]
			g := genGeom(r, GenOpts{Mode: cm, MaxPts: 6, MaxDepth: 2, TopNil: true, InnerNil: true}, 0)
			if r.Intn(3) == 0 {
				var coll orb.Collection
				for n := 1 + r.Intn(3); n > 0; n-- {
					if ps := c16SimpleRing(r, b, mode); ps != nil && r.Intn(2) == 0 {
						coll = append(coll, orb.Polygon{c16Close(c16Wind(ps, o))})
					} else {
						coll = append(coll, genGeom(r, GenOpts{Mode: cm, MaxPts: 5, MaxDepth: 1}, 1))
					}
				}
				g = coll
			}
			bb := b
			if mode != 2 {
				bb = c16Box{b.x0 - 4, b.y0 - 4, b.x1 - 4, b.y1 - 4} // genGeom's pools are centred on the origin
			}
			c.Case("geom", fmt.Sprintf("%d %s %s", o, bb, gsN(g)))
		}
	}
}

func sgn(x float64) float64 {
	if x < 0 {
		return -1
	}
	return 1
}

// c16Island: concentric axis-aligned squares of half-sizes rad[0] > rad[1] > rad[2] > rad[3] around ctr:
// member B = square 0 with hole square 1, member A = square 2 (inside B's hole) with hole square 3
// (rad[3] = 0: no hole; rad[2] = 0: no island).  Outer rings wound o, holes -o; islandFirst swaps the members.
func c16Island(ctr orb.Point, rad [4]float64, o int, islandFirst bool) orb.MultiPolygon {
	sq := func(s float64, w int) orb.Ring {
		ps := []orb.Point{{ctr[0] - s, ctr[1] - s}, {ctr[0] + s, ctr[1] - s}, {ctr[0] + s, ctr[1] + s}, {ctr[0] - s, ctr[1] + s}}
		return c16Close(c16Wind(ps, w))
	}
	bm := orb.Polygon{sq(rad[0], o), sq(rad[1], -o)}
	if rad[2] == 0 {
		return orb.MultiPolygon{bm}
	}
	am := orb.Polygon{sq(rad[2], o)}
	if rad[3] != 0 {
		am = append(am, sq(rad[3], -o))
	}
	if islandFirst {
		return orb.MultiPolygon{am, bm}
	}
	return orb.MultiPolygon{bm, am}
}
