package main

import (
	"math"
	"math/rand"
	"strconv"
	"strings"

	"github.com/paulmach/orb"
	"github.com/paulmach/orb/geo"
)

// C18 — package geo: distances, bearing, midpoint, destination, areas, lengths, bounds.
//
// Every outcome ends with the table "T n (fn arg.. value)*" of the libm calls the Go code makes on
// this input.  The table is recorded by the mirror functions below (same expressions as package geo,
// with math.Sin/Cos/Asin/Atan2 routed through the recorder); the values are Go's own.  The Lean
// driver redoes all the arithmetic on top of these values and must reproduce the *implementation's*
// result (not the mirror's) bit for bit; an argument missing from the table is reported by the driver.

func init() { register(&Prop{ID: "C18", Run: runC18, Gen: genC18}) }

type trigRec struct {
	sb   strings.Builder
	n    int
	seen map[string]bool
}

func newRec() *trigRec { return &trigRec{seen: map[string]bool{}} }

func (t *trigRec) add(fn string, v float64, args ...float64) {
	var k strings.Builder
	k.WriteString(" " + fn)
	for _, a := range args {
		k.WriteString(" " + fb(a))
	}
	key := k.String()
	if t.seen[key] {
		return
	}
	t.seen[key] = true
	t.n++
	t.sb.WriteString(key + " " + fb(v))
}
func (t *trigRec) sin(x float64) float64  { v := math.Sin(x); t.add("s", v, x); return v }
func (t *trigRec) cos(x float64) float64  { v := math.Cos(x); t.add("c", v, x); return v }
func (t *trigRec) asin(x float64) float64 { v := math.Asin(x); t.add("as", v, x); return v }
func (t *trigRec) atan2(y, x float64) float64 {
	v := math.Atan2(y, x)
	t.add("at", v, y, x)
	return v
}
func (t *trigRec) String() string { return "T " + strconv.Itoa(t.n) + t.sb.String() }

func d2r(d float64) float64 { return d * math.Pi / 180.0 }
func r2d(r float64) float64 { return 180.0 * r / math.Pi }

// --- mirrors (only their libm arguments matter) ---

func (t *trigRec) distance(p1, p2 orb.Point) float64 {
	dLat := d2r(p1[1] - p2[1])
	dLon := d2r(p1[0] - p2[0])
	dLon = math.Abs(dLon)
	if dLon > math.Pi {
		dLon = 2*math.Pi - dLon
	}
	x := dLon * t.cos(d2r((p1[1]+p2[1])/2.0))
	return math.Sqrt(dLat*dLat+x*x) * orb.EarthRadius
}

func (t *trigRec) haversine(p1, p2 orb.Point) float64 {
	dLat := d2r(p1[1] - p2[1])
	dLon := d2r(p1[0] - p2[0])
	dLat2Sin := t.sin(dLat / 2)
	dLon2Sin := t.sin(dLon / 2)
	a := dLat2Sin*dLat2Sin + t.cos(d2r(p2[1]))*t.cos(d2r(p1[1]))*dLon2Sin*dLon2Sin
	a = math.Min(a, 1)
	return 2.0 * orb.EarthRadius * t.atan2(math.Sqrt(a), math.Sqrt(1-a))
}

func (t *trigRec) bearing(from, to orb.Point) float64 {
	dLon := d2r(to[0] - from[0])
	fromLatRad := d2r(from[1])
	toLatRad := d2r(to[1])
	y := t.sin(dLon) * t.cos(toLatRad)
	x := t.cos(fromLatRad)*t.sin(toLatRad) - t.sin(fromLatRad)*t.cos(toLatRad)*t.cos(dLon)
	return r2d(t.atan2(y, x))
}

func (t *trigRec) midpoint(p, p2 orb.Point) orb.Point {
	dLon := d2r(p2[0] - p[0])
	aLatRad := d2r(p[1])
	bLatRad := d2r(p2[1])
	x := t.cos(bLatRad) * t.cos(dLon)
	y := t.cos(bLatRad) * t.sin(dLon)
	r := orb.Point{
		d2r(p[0]) + t.atan2(y, t.cos(aLatRad)+x),
		t.atan2(t.sin(aLatRad)+t.sin(bLatRad), math.Sqrt((t.cos(aLatRad)+x)*(t.cos(aLatRad)+x)+y*y)),
	}
	return orb.Point{r2d(r[0]), r2d(r[1])}
}

func (t *trigRec) dest(p orb.Point, bearing, distance float64) orb.Point {
	aLat := d2r(p[1])
	aLon := d2r(p[0])
	br := d2r(bearing)
	dr := distance / orb.EarthRadius
	bLat := t.asin(math.Max(math.Min(t.sin(aLat)*t.cos(dr)+t.cos(aLat)*t.sin(dr)*t.cos(br), 1), -1))
	bLon := aLon + t.atan2(t.sin(br)*t.sin(dr)*t.cos(aLat), t.cos(dr)-t.sin(aLat)*t.sin(bLat))
	return orb.Point{r2d(bLon), r2d(bLat)}
}

func (t *trigRec) along(ls orb.LineString, distance float64) {
	if len(ls) == 0 || distance < 0 || len(ls) == 1 {
		return
	}
	travelled := 0.0
	var from, to orb.Point
	for i := 1; i < len(ls); i++ {
		from, to = ls[i-1], ls[i]
		actual := t.haversine(from, to)
		expected := distance - travelled
		if expected < actual {
			b := t.bearing(from, to)
			t.dest(from, b, expected)
			return
		}
		travelled += actual
	}
	t.bearing(from, to)
}

func (t *trigRec) ringSins(r []orb.Point) {
	for _, p := range r {
		t.sin(d2r(p[1]))
	}
}

func (t *trigRec) boundAround(center orb.Point, distance float64) {
	radDist := distance / orb.EarthRadius
	radLat := d2r(center[1])
	t.asin(t.sin(radDist) / t.cos(radLat))
}

// forEachRing visits every ring Area looks at, in Area's traversal order.
func forEachRing(g orb.Geometry, f func(orb.Ring)) {
	switch g := g.(type) {
	case orb.Ring:
		f(g)
	case orb.Bound:
		f(g.ToRing())
	case orb.Polygon:
		for _, r := range g {
			f(r)
		}
	case orb.MultiPolygon:
		for _, p := range g {
			for _, r := range p {
				f(r)
			}
		}
	case orb.Collection:
		for _, m := range g {
			forEachRing(m, f)
		}
	}
}

// forEachLine visits every vertex sequence Length walks, in traversal order.
func forEachLine(g orb.Geometry, f func([]orb.Point)) {
	switch g := g.(type) {
	case orb.LineString:
		f(g)
	case orb.Ring:
		f(g)
	case orb.Bound:
		f(g.ToRing())
	case orb.MultiLineString:
		for _, l := range g {
			f(l)
		}
	case orb.Polygon:
		for _, r := range g {
			f(r)
		}
	case orb.MultiPolygon:
		for _, p := range g {
			for _, r := range p {
				f(r)
			}
		}
	case orb.Collection:
		for _, m := range g {
			forEachLine(m, f)
		}
	}
}

func isNilGeom(g orb.Geometry) bool {
	s := gs(g)
	return s == "nil" || (strings.HasPrefix(s, "n") && !strings.Contains(s, " "))
}

func ptsClosed(ps []orb.Point) bool { return len(ps) > 0 && ps[0] == ps[len(ps)-1] }

// ringRotations: for a closed ring the distinct vertices are rotated and the ring re-closed.
func ringRotations(r []orb.Point) [][]orb.Point {
	v := r
	closed := ptsClosed(r)
	if closed {
		v = r[:len(r)-1]
	}
	out := make([][]orb.Point, 0, len(v))
	for k := 0; k < len(v); k++ {
		w := append(append([]orb.Point{}, v[k:]...), v[:k]...)
		if closed && len(w) > 0 {
			w = append(w, w[0])
		}
		out = append(out, w)
	}
	return out
}

func runC18(op string, in []string) string {
	return guard(func() string {
		r := &tokReader{t: in}
		t := newRec()
		switch op {
		case "consts":
			return fb(math.Pi) + " " + fb(orb.EarthRadius) + " " + fb(geo.BoundHeight(orb.Bound{Min: orb.Point{0, 0}, Max: orb.Point{0, 1}}))
		case "dist":
			p, q := r.pt(), r.pt()
			t.distance(p, q)
			t.distance(q, p)
			t.haversine(p, q)
			t.haversine(q, p)
			return strings.Join([]string{fb(geo.Distance(p, q)), fb(geo.Distance(q, p)),
				fb(geo.DistanceHaversine(p, q)), fb(geo.DistanceHaversine(q, p)), t.String()}, " ")
		case "dest":
			p := r.pt()
			b, d := r.f(), r.f()
			q := geo.PointAtBearingAndDistance(p, b, d)
			t.dest(p, b, d)
			t.haversine(p, q)
			return fb(q[0]) + " " + fb(q[1]) + " " + fb(geo.DistanceHaversine(p, q)) + " " + t.String()
		case "mid":
			p, q := r.pt(), r.pt()
			m := geo.Midpoint(p, q)
			t.midpoint(p, q)
			t.haversine(p, m)
			t.haversine(m, q)
			t.haversine(p, q)
			return strings.Join([]string{fb(m[0]), fb(m[1]), fb(geo.DistanceHaversine(p, m)), fb(geo.DistanceHaversine(m, q)),
				fb(geo.DistanceHaversine(p, q)), t.String()}, " ")
		case "ring":
			rg := orb.Ring(r.pts())
			t.ringSins(rg)
			return fb(geo.SignedArea(rg)) + " " + fb(geo.Area(rg)) + " " + t.String()
		case "ringinv":
			rg := r.pts()
			t.ringSins(rg)
			var sb strings.Builder
			sb.WriteString(fb(geo.SignedArea(orb.Ring(rg))))
			rots := ringRotations(rg)
			sb.WriteString(" " + strconv.Itoa(len(rots)))
			for _, w := range rots {
				sb.WriteString(" " + fb(geo.SignedArea(orb.Ring(w))))
			}
			rev := orb.Ring(append([]orb.Point{}, rg...))
			rev.Reverse()
			sb.WriteString(" " + fb(geo.SignedArea(rev)))
			return sb.String() + " " + t.String()
		case "box":
			lo, hi := r.pt(), r.pt()
			b := orb.Bound{Min: lo, Max: hi}
			t.ringSins(b.ToRing())
			return fb(geo.Area(b)) + " " + t.String()
		case "area":
			g := r.geom()
			var sb strings.Builder
			n := 0
			forEachRing(g, func(rg orb.Ring) {
				n++
				sb.WriteString(" " + fb(geo.SignedArea(rg)))
				t.ringSins(rg)
			})
			return fb(geo.Area(g)) + " " + strconv.Itoa(n) + sb.String() + " " + t.String()
		case "len":
			g := r.geom()
			var sb strings.Builder
			n := 0
			forEachLine(g, func(ps []orb.Point) {
				for i := 1; i < len(ps); i++ {
					n++
					sb.WriteString(" " + fb(geo.Distance(ps[i], ps[i-1])) + " " + fb(geo.DistanceHaversine(ps[i], ps[i-1])))
					t.distance(ps[i], ps[i-1])
					t.haversine(ps[i], ps[i-1])
				}
			})
			// LengthHaversign is the deprecated misspelt twin of LengthHaversine (geo/length.go:18)
			return fb(geo.Length(g)) + " " + fb(geo.LengthHaversine(g)) + " " + fb(geo.LengthHaversign(g)) + " " + strconv.Itoa(n) + sb.String() + " " + t.String()
		case "along":
			ls := orb.LineString(r.pts())
			d := r.f()
			p, b := geo.PointAtDistanceAlongLine(ls, d)
			t.along(ls, d)
			return fb(p[0]) + " " + fb(p[1]) + " " + fb(b) + " " + t.String()
		case "bap":
			c := r.pt()
			d := r.f()
			b := geo.NewBoundAroundPoint(c, d)
			t.boundAround(c, d)
			return sbound(b) + " " + t.String()
		case "pad":
			b := rdBound(r)
			m := r.f()
			t.cos(d2r(b.Max[1]))
			t.cos(d2r(b.Min[1]))
			c := (b.Min[1] + b.Max[1]) / 2.0
			t.distance(orb.Point{b.Min[0], c}, orb.Point{b.Max[0], c})
			return sbound(geo.BoundPad(b, m)) + " " + fb(geo.BoundHeight(b)) + " " + fb(geo.BoundWidth(b)) + " " + t.String()
		}
		return "badop"
	})
}

// ---------- generators ----------

func sp(p orb.Point) string { return fb(p[0]) + " " + fb(p[1]) }

func clampLL(p orb.Point) orb.Point {
	for p[0] > 180 {
		p[0] -= 360
	}
	for p[0] < -180 {
		p[0] += 360
	}
	if p[1] > 89 {
		p[1] = 89
	}
	if p[1] < -89 {
		p[1] = -89
	}
	return p
}

// geoPoint draws a lon/lat point inside the property's quantifier.
func geoPoint(r *rand.Rand) orb.Point {
	switch r.Intn(8) {
	case 0: // integer degrees
		return orb.Point{float64(r.Intn(361) - 180), float64(r.Intn(179) - 89)}
	case 1: // on the antimeridian / near it
		return orb.Point{[]float64{180, -180, 179.999999, -179.999999, 179.5, -179.5}[r.Intn(6)], r.Float64()*178 - 89}
	case 2: // extreme latitudes
		return orb.Point{r.Float64()*360 - 180, []float64{89, -89, 88.999, -88.999, 80, -80, 79.999, 0}[r.Intn(8)]}
	case 3: // half degrees
		return orb.Point{float64(r.Intn(721)-360) / 2, float64(r.Intn(357)-178) / 2}
	default:
		return orb.Point{r.Float64()*360 - 180, r.Float64()*178 - 89}
	}
}

// partner draws a second point related to p in one of the ways the quantifier names.
func partner(r *rand.Rand, p orb.Point) orb.Point {
	switch r.Intn(10) {
	case 0:
		return p
	case 1: // within 10 km
		return clampLL(geo.PointAtBearingAndDistance(p, r.Float64()*360-180, r.Float64()*9990))
	case 2: // within a few metres
		return clampLL(orb.Point{p[0] + (r.Float64()-0.5)*1e-4, p[1] + (r.Float64()-0.5)*1e-4})
	case 3: // across the antimeridian from p's mirror
		q := orb.Point{-p[0] + (r.Float64()-0.5)*0.2, p[1] + (r.Float64()-0.5)*0.2}
		if math.Abs(p[0]) < 170 {
			q[0] = math.Copysign(180-r.Float64()*0.05, -p[0])
		}
		return clampLL(q)
	case 4: // same meridian / same parallel
		if r.Intn(2) == 0 {
			return orb.Point{p[0], r.Float64()*178 - 89}
		}
		return orb.Point{r.Float64()*360 - 180, p[1]}
	case 5: // antipodal and nearly antipodal
		q := orb.Point{p[0] + 180, -p[1]}
		if r.Intn(2) == 0 {
			s := math.Pow(10, -float64(r.Intn(12)))
			q[0] += (r.Float64() - 0.5) * s
			q[1] += (r.Float64() - 0.5) * s
		}
		return clampLL(q)
	case 6: // up to 5000 km
		return clampLL(geo.PointAtBearingAndDistance(p, r.Float64()*360-180, r.Float64()*5e6))
	default:
		return geoPoint(r)
	}
}

// geoRing draws n distinct-ish vertices around a centre, optionally closed.
func geoRing(r *rand.Rand, n int, closed bool) []orb.Point {
	ps := make([]orb.Point, 0, n+1)
	mode := r.Intn(5)
	c := geoPoint(r)
	span := []float64{1e-4, 0.01, 1, 3, 30}[r.Intn(5)]
	for i := 0; i < n; i++ {
		var p orb.Point
		switch mode {
		case 0: // integer degrees, world-wide
			p = orb.Point{float64(r.Intn(361) - 180), float64(r.Intn(179) - 89)}
		case 1: // roughly convex, counter-clockwise or clockwise
			a := 2 * math.Pi * (float64(i) + r.Float64()*0.8) / float64(n)
			p = clampLL(orb.Point{c[0] + span*math.Cos(a), c[1] + span*math.Sin(a)*0.5})
		case 2: // small integer offsets with coincidences
			p = clampLL(orb.Point{math.Round(c[0]) + float64(r.Intn(5)-2), math.Round(c[1]) + float64(r.Intn(5)-2)})
		default:
			p = clampLL(orb.Point{c[0] + (r.Float64()-0.5)*span, c[1] + (r.Float64()-0.5)*span})
		}
		if i > 0 && r.Intn(12) == 0 {
			p = ps[r.Intn(i)] // repeated vertex
		}
		ps = append(ps, p)
	}
	if closed && n > 0 {
		ps = append(ps, ps[0])
	}
	return ps
}

func geoBox(r *rand.Rand) orb.Bound {
	c := geoPoint(r)
	w := []float64{0, 1e-5, 0.01, 0.5, 1, 3, 5}[r.Intn(7)] * r.Float64()
	h := []float64{0, 1e-5, 0.01, 0.5, 1, 3, 5}[r.Intn(7)] * r.Float64()
	if r.Intn(4) == 0 { // integer box
		c = orb.Point{math.Round(c[0]), math.Round(c[1])}
		w, h = float64(r.Intn(5)), float64(r.Intn(5))
	}
	lo := orb.Point{c[0] - w/2, c[1] - h/2}
	hi := orb.Point{c[0] + w/2, c[1] + h/2}
	if lo[1] < -89 {
		lo[1] = -89
	}
	if hi[1] > 89 {
		hi[1] = 89
	}
	if lo[0] < -180 {
		lo[0] = -180
	}
	if hi[0] > 180 {
		hi[0] = 180
	}
	return orb.Bound{Min: lo, Max: hi}
}

func geoPolygon(r *rand.Rand) orb.Polygon {
	n := size(r, 3)
	p := make(orb.Polygon, 0, n)
	for i := 0; i < n; i++ {
		k := 3 + r.Intn(6)
		if r.Intn(10) == 0 {
			k = r.Intn(3)
		}
		p = append(p, orb.Ring(geoRing(r, k, r.Intn(4) != 0)))
	}
	return p
}

func geoGeom(r *rand.Rand, depth int) orb.Geometry {
	if depth == 0 && r.Intn(20) == 0 {
		return genGeom(r, GenOpts{Mode: CoordSmallInt, MaxPts: 0, MaxDepth: 0, TopNil: true}, 0)
	}
	k := r.Intn(9)
	if k == 8 && depth >= 2 {
		k = r.Intn(8)
	}
	switch k {
	case 0:
		return geoPoint(r)
	case 1:
		return orb.MultiPoint(geoRing(r, size(r, 4), false))
	case 2:
		return orb.LineString(geoRing(r, size(r, 8), false))
	case 3:
		n := size(r, 3)
		m := make(orb.MultiLineString, n)
		for i := range m {
			m[i] = orb.LineString(geoRing(r, size(r, 5), false))
		}
		return m
	case 4:
		return orb.Ring(geoRing(r, 3+r.Intn(10), r.Intn(3) != 0))
	case 5:
		return geoPolygon(r)
	case 6:
		n := size(r, 3)
		m := make(orb.MultiPolygon, n)
		for i := range m {
			m[i] = geoPolygon(r)
		}
		return m
	case 7:
		return geoBox(r)
	default:
		n := size(r, 3)
		c := make(orb.Collection, n)
		for i := range c {
			// a nil-INTERFACE member (orb.Collection{nil, ring}): geo.Area and length.Length return 0 for a
			// nil geometry, so it contributes nothing; one member in eight, at every nesting depth
			if r.Intn(8) == 0 {
				continue
			}
			c[i] = geoGeom(r, depth+1)
		}
		return c
	}
}

// geoNilMemberCases: the fixed family of collections with nil-interface members — alone, first /
// middle / last among members of every kind (incl. a Bound, whose Area / Length go through ToRing),
// repeated, nested one and two levels down, next to typed-nil members.
func geoNilMemberCases() []orb.Geometry {
	ring := orb.Ring{{0, 0}, {1, 0}, {1, 1}, {0, 1}, {0, 0}}
	ls := orb.LineString{{10, 50}, {11, 51}, {12, 50}}
	out := []orb.Geometry{
		orb.Collection{nil},
		orb.Collection{nil, nil},
		orb.Collection{nil, ring},
		orb.Collection{ring, nil},
		orb.Collection{nil, ls},
		orb.Collection{ls, nil, ring},
		orb.Collection{orb.Collection{nil}},
		orb.Collection{ls, orb.Collection{nil}},
		orb.Collection{orb.Collection{nil, ring}, nil, orb.Collection{ls, orb.Collection{nil, ring, nil}}},
		orb.Collection{nil, orb.Bound{Min: orb.Point{0, 0}, Max: orb.Point{1, 1}}},
		orb.Collection{orb.Ring(nil), nil, orb.Collection(nil), ring},
	}
	for _, g := range orb.AllGeometries {
		out = append(out, orb.Collection{nil, g}, orb.Collection{g, nil}, orb.Collection{g, nil, g}, orb.Collection{orb.Collection{g, nil}})
	}
	return out
}

// alongDistances: 0, every running prefix length of ls — accumulated exactly as
// PointAtDistanceAlongLine accumulates `travelled` — and thereby the total.
func alongDistances(ls []orb.Point) []float64 {
	out := []float64{0}
	travelled := 0.0
	for i := 1; i < len(ls); i++ {
		travelled += geo.DistanceHaversine(ls[i-1], ls[i])
		out = append(out, travelled)
	}
	return out
}

func genC18(c *Ctx) {
	r := c.Rng
	if c.Shard == 0 {
		c.Case("consts", "")
		// literal city pairs of the package's own tests, plus fixed corner cases
		fixed := [][2]orb.Point{
			{{-1.8444, 53.1506}, {0.1406, 52.2047}}, {{0, 0}, {0, 0}}, {{0, 0}, {180, 0}}, {{0, 0}, {-180, 0}},
			{{180, 10}, {-180, 10}}, {{179.9, 10}, {-179.9, 10}}, {{0, 89}, {180, 89}}, {{0, -89}, {0, 89}},
			{{-31.11084432852735, -67.66660941529037}, {148.88915567147265, 67.66660914420795}},
		}
		for _, f := range fixed {
			c.Case("dist", sp(f[0])+" "+sp(f[1]))
			c.Case("mid", sp(f[0])+" "+sp(f[1]))
		}
		for _, g := range orb.AllGeometries {
			c.Case("area", gs(g))
			c.Case("len", gs(g))
		}
		c.Case("along", "0 "+fb(1))
		// PointAtDistanceAlongLine at the equality cases of `expected < actual` (distance.go:114):
		// distance 0, every running prefix length (summed as the code sums them), the total; on a line
		// with a zero-length segment in the middle and on a plain one
		for _, ls := range [][]orb.Point{{{0, 0}, {1, 0}, {1, 0}, {1, 1}}, {{0, 0}, {0, 0}, {1, 1}}, {{10, 50}, {11, 51}, {12, 50}}} {
			for _, ad := range alongDistances(ls) {
				c.Case("along", spts(ls)+" "+fb(ad))
			}
		}
		// BoundPad with the +-90 / +-180 clamps binding (bound.go:54-58)
		c.Case("pad", sbound(orb.Bound{Min: orb.Point{0, 88.5}, Max: orb.Point{1, 89}})+" "+fb(2e5))
		c.Case("pad", sbound(orb.Bound{Min: orb.Point{-1, -89}, Max: orb.Point{0, -88.5}})+" "+fb(2e5))
		c.Case("pad", sbound(orb.Bound{Min: orb.Point{-179.5, -1}, Max: orb.Point{179.5, 1}})+" "+fb(1e5))
		c.Case("pad", sbound(orb.Bound{Min: orb.Point{-10, -10}, Max: orb.Point{10, 10}})+" "+fb(3e7))
		// destination within metres of a pole (finding C18-dest-near-pole-asin)
		c.Case("dest", sp(orb.Point{10, 60})+" "+fb(0)+" "+fb(3339584.713798207))
		c.Case("dest", sp(orb.Point{-180, 89})+" "+fb(0)+" "+fb(111319.39079327357))
		c.Case("area", "nil")
		c.Case("len", "nil")
		for _, s := range []string{"nR", "nPG", "nMPG", "nC", "nLS", "nMLS", "nMP"} {
			c.Case("area", s)
			c.Case("len", s)
		}
		for _, g := range geoNilMemberCases() {
			c.Case("area", gs(g))
			c.Case("len", gs(g))
		}
	}
	// exhaustive family: every 3- (and 4-) vertex list over a 3x3 grid of 10-degree points,
	// closed and unclosed, with every rotation and the reversal
	grid := []orb.Point{}
	for _, x := range []float64{0, 10, 20} {
		for _, y := range []float64{0, 10, 20} {
			grid = append(grid, orb.Point{x, y})
		}
	}
	idx := 0
	maxLen := 3
	if c.Tier == "thorough" {
		maxLen = 4
	}
	for n := 3; n <= maxLen; n++ {
		total := 1
		for i := 0; i < n; i++ {
			total *= len(grid)
		}
		for code := 0; code < total; code++ {
			idx++
			if !c.Mine(idx) {
				continue
			}
			ps := make([]orb.Point, n)
			x := code
			for i := range ps {
				ps[i] = grid[x%len(grid)]
				x /= len(grid)
			}
			c.Case("ringinv", spts(ps))
			c.Case("ringinv", spts(append(ps, ps[0])))
		}
	}
	for k := 0; k < c.Budget && !c.Exhausted(); k++ {
		p := geoPoint(r)
		q := partner(r, p)
		c.Case("dist", sp(p)+" "+sp(q))
		c.Case("mid", sp(p)+" "+sp(q))
		brg := []float64{0, 90, -90, 180, -180, 45}[r.Intn(6)]
		if r.Intn(3) != 0 {
			brg = r.Float64()*360 - 180
		}
		d := r.Float64() * 5e6
		switch r.Intn(6) {
		case 0:
			d = []float64{0, 1e-3, 1, 5e6, 1e4}[r.Intn(5)]
		case 1:
			d = r.Float64() * 1e4
		}
		c.Case("dest", sp(p)+" "+fb(brg)+" "+fb(d))
		if k%16 == 3 {
			// head for a pole: due north / south (or a hair off), landing within 10^-3..10^4 m of it
			// (asin is ill-conditioned there); only when the pole is within the 5000 km of the quantifier
			pb, pole := 0.0, 90.0
			if p[1] < 0 {
				pb, pole = 180, -90
			}
			if r.Intn(3) == 0 {
				pb += (r.Float64() - 0.5) * math.Pow(10, -float64(r.Intn(8)))
			}
			toPole := d2r(math.Abs(pole-p[1])) * orb.EarthRadius
			off := (r.Float64()*2 - 1) * math.Pow(10, float64(r.Intn(8)-3))
			if pd := toPole + off; pd >= 0 && pd <= 5e6 {
				c.Case("dest", sp(p)+" "+fb(pb)+" "+fb(pd))
			}
		}

		n := 3 + r.Intn(10)
		if r.Intn(15) == 0 {
			n = r.Intn(3)
		}
		closed := r.Intn(2) == 0
		rg := geoRing(r, n, closed)
		c.Case("ring", spts(rg))
		c.Case("ringinv", spts(rg))
		b := geoBox(r)
		c.Case("box", sbound(b))
		g := geoGeom(r, 0)
		c.Case("area", gs(g))
		c.Case("len", gs(g))
		if k%2 == 0 {
			ls := geoRing(r, 1+r.Intn(6), false)
			tot := geo.LengthHaversine(orb.LineString(ls))
			ad := r.Float64() * tot * 1.2
			switch r.Intn(10) {
			case 0:
				ad = -1
			case 1, 2: // exactly 0, a running prefix length, the total: equality in `expected < actual`
				ds := alongDistances(ls)
				ad = ds[r.Intn(len(ds))]
			}
			c.Case("along", spts(ls)+" "+fb(ad))
			c.Case("bap", sp(p)+" "+fb([]float64{d, r.Float64() * 1e5, 2e7}[r.Intn(3)]))
			pad := r.Float64() * 1e5
			pb := b
			switch r.Intn(4) {
			case 0: // up to 300 km: reaches past +-90 from the +-89 boxes, past +-180 at high latitude
				pad = r.Float64() * 3e5
			case 1: // a box hugging the +-89 / +-180 limits of the quantifier
				pad = r.Float64() * 3e5
				w, h := pb.Max[0]-pb.Min[0], pb.Max[1]-pb.Min[1]
				if r.Intn(2) == 0 {
					pb.Max[1], pb.Min[1] = 89, 89-h
				} else {
					pb.Min[1], pb.Max[1] = -89, -89+h
				}
				if r.Intn(2) == 0 {
					pb.Max[0], pb.Min[0] = 180, 180-w
				} else if r.Intn(2) == 0 {
					pb.Min[0], pb.Max[0] = -180, -180+w
				}
			}
			c.Case("pad", sbound(pb)+" "+fb(pad))
		}
	}
}
