package main

import (
	"fmt"
	"sort"
	"strings"

	"github.com/paulmach/orb"
	"github.com/paulmach/orb/clip"
	"github.com/paulmach/orb/clip/smartclip"
	"github.com/paulmach/orb/encoding/ewkb"
	"github.com/paulmach/orb/encoding/wkb"
	"github.com/paulmach/orb/encoding/wkt"
	"github.com/paulmach/orb/geo"
	"github.com/paulmach/orb/geojson"
	"github.com/paulmach/orb/maptile"
	"github.com/paulmach/orb/maptile/tilecover"
	"github.com/paulmach/orb/planar"
	"github.com/paulmach/orb/project"
	"github.com/paulmach/orb/simplify"
)

func init() { register(&Prop{ID: "C20", Run: runC20, Gen: genC20}) }

// entry is one exported function with an orb.Geometry parameter.
type entry struct {
	name     string
	readOnly bool
	// combine: how a collection relates to its members: "" (not checked), "sum", "min", "map", "mapdrop", "union"
	combine string
	call    func(g orb.Geometry) string
	// typed returns the kind-specific function's outcome ("-" when there is none for this kind)
	typed func(g orb.Geometry) string
}

var c20Box = orb.Bound{Min: orb.Point{0, 0}, Max: orb.Point{4, 4}}
var c20Pt = orb.Point{1.5, 2.5}

func shift(p orb.Point) orb.Point { return orb.Point{p[0]*2 + 1, p[1]*3 - 2} }

func sset(s maptile.Set, err error) string {
	if err != nil {
		return "err"
	}
	var ts []string
	for t, ok := range s {
		if ok {
			ts = append(ts, fmt.Sprintf("%d/%d/%d", t.Z, t.X, t.Y))
		}
	}
	sort.Strings(ts)
	return fmt.Sprintf("set%d:%s", len(ts), strings.Join(ts, ","))
}

func gsn(g orb.Geometry) string { return strings.ReplaceAll(gs(g), " ", "_") }

func simpEntry(name string, mk func() orb.Simplifier) entry {
	return entry{name: name, combine: "map", call: func(g orb.Geometry) string { return gsn(mk().Simplify(g)) },
		typed: func(g orb.Geometry) string {
			s := mk()
			switch v := g.(type) {
			case orb.LineString:
				return gsn(s.LineString(v))
			case orb.MultiLineString:
				return gsn(s.MultiLineString(v))
			case orb.Ring:
				return gsn(s.Ring(v))
			case orb.Polygon:
				return gsn(s.Polygon(v))
			case orb.MultiPolygon:
				return gsn(s.MultiPolygon(v))
			case orb.Collection:
				return gsn(s.Collection(v))
			}
			return "-"
		}}
}

var c20Entries = []entry{
	{name: "clone", readOnly: true, combine: "map", call: func(g orb.Geometry) string { return gsn(orb.Clone(g)) },
		typed: func(g orb.Geometry) string {
			switch v := g.(type) {
			case orb.MultiPoint:
				return gsn(v.Clone())
			case orb.LineString:
				return gsn(v.Clone())
			case orb.MultiLineString:
				return gsn(v.Clone())
			case orb.Ring:
				return gsn(v.Clone())
			case orb.Polygon:
				return gsn(v.Clone())
			case orb.MultiPolygon:
				return gsn(v.Clone())
			case orb.Collection:
				return gsn(v.Clone())
			}
			return "-"
		}},
	{name: "equal", readOnly: true, call: func(g orb.Geometry) string { return b2s(orb.Equal(g, orb.Clone(g))) },
		typed: func(g orb.Geometry) string {
			switch v := g.(type) {
			case orb.Point:
				return b2s(v.Equal(v))
			case orb.MultiPoint:
				return b2s(v.Equal(v.Clone()))
			case orb.LineString:
				return b2s(v.Equal(v.Clone()))
			case orb.MultiLineString:
				return b2s(v.Equal(v.Clone()))
			case orb.Ring:
				return b2s(v.Equal(v.Clone()))
			case orb.Polygon:
				return b2s(v.Equal(v.Clone()))
			case orb.MultiPolygon:
				return b2s(v.Equal(v.Clone()))
			case orb.Collection:
				return b2s(v.Equal(v.Clone()))
			case orb.Bound:
				return b2s(v.Equal(v))
			}
			return "-"
		}},
	{name: "bound", readOnly: true, combine: "", call: func(g orb.Geometry) string {
		if g == nil {
			return "nilgeom"
		}
		return strings.ReplaceAll(sbound(g.Bound()), " ", "_")
	}},
	{name: "round", combine: "map", call: func(g orb.Geometry) string { return gsn(orb.Round(g, 10)) }},
	{name: "planar.area", readOnly: true, call: func(g orb.Geometry) string { return fb(planar.Area(g)) }},
	{name: "planar.centroid", readOnly: true, call: func(g orb.Geometry) string {
		c, a := planar.CentroidArea(g)
		return fb(c[0]) + "_" + fb(c[1]) + "_" + fb(a)
	}},
	{name: "planar.length", readOnly: true, combine: "sum", call: func(g orb.Geometry) string { return fb(planar.Length(g)) }},
	{name: "planar.distfrom", readOnly: true, combine: "min", call: func(g orb.Geometry) string { return fb(planar.DistanceFrom(g, c20Pt)) }},
	{name: "geo.area", readOnly: true, combine: "sum", call: func(g orb.Geometry) string { return fb(geo.Area(g)) }},
	{name: "geo.length", readOnly: true, combine: "sum", call: func(g orb.Geometry) string { return fb(geo.Length(g)) }},
	{name: "geo.lengthhav", readOnly: true, combine: "sum", call: func(g orb.Geometry) string { return fb(geo.LengthHaversine(g)) }},
	{name: "clip", combine: "mapdrop", call: func(g orb.Geometry) string { return gsn(clip.Geometry(c20Box, g)) },
		typed: func(g orb.Geometry) string {
			wrap := func(r orb.Geometry, n int) string {
				if n == 0 {
					return "nil"
				}
				return gsn(r)
			}
			if g == nil || !c20Box.Intersects(g.Bound()) {
				return "-"
			}
			switch v := g.(type) {
			case orb.Ring:
				r := clip.Ring(c20Box, v)
				return wrap(r, len(r))
			case orb.Polygon:
				r := clip.Polygon(c20Box, v)
				return wrap(r, len(r))
			}
			return "-"
		}},
	{name: "smartclip", combine: "mapdrop", call: func(g orb.Geometry) string { return gsn(smartclip.Geometry(c20Box, g, orb.CCW)) }},
	{name: "project", combine: "map", call: func(g orb.Geometry) string { return gsn(project.Geometry(g, shift)) },
		typed: func(g orb.Geometry) string {
			switch v := g.(type) {
			case orb.Point:
				return gsn(project.Point(v, shift))
			case orb.MultiPoint:
				return gsn(project.MultiPoint(v, shift))
			case orb.LineString:
				return gsn(project.LineString(v, shift))
			case orb.MultiLineString:
				return gsn(project.MultiLineString(v, shift))
			case orb.Ring:
				return gsn(project.Ring(v, shift))
			case orb.Polygon:
				return gsn(project.Polygon(v, shift))
			case orb.MultiPolygon:
				return gsn(project.MultiPolygon(v, shift))
			case orb.Collection:
				return gsn(project.Collection(v, shift))
			case orb.Bound:
				return gsn(project.Bound(v, shift))
			}
			return "-"
		}},
	simpEntry("simplify.dp", func() orb.Simplifier { return simplify.DouglasPeucker(0.5) }),
	simpEntry("simplify.radial", func() orb.Simplifier { return simplify.Radial(planar.Distance, 0.5) }),
	simpEntry("simplify.vis", func() orb.Simplifier { return simplify.VisvalingamThreshold(0.5) }),
	{name: "tilecover", readOnly: true, combine: "union", call: func(g orb.Geometry) string { return sset(tilecover.Geometry(g, 6)) },
		typed: func(g orb.Geometry) string {
			switch v := g.(type) {
			case orb.Point:
				return sset(tilecover.Point(v, 6), nil)
			case orb.MultiPoint:
				return sset(tilecover.MultiPoint(v, 6), nil)
			case orb.LineString:
				return sset(tilecover.LineString(v, 6), nil)
			case orb.MultiLineString:
				return sset(tilecover.MultiLineString(v, 6), nil)
			case orb.Ring:
				return sset(tilecover.Ring(v, 6))
			case orb.Polygon:
				return sset(tilecover.Polygon(v, 6))
			case orb.MultiPolygon:
				return sset(tilecover.MultiPolygon(v, 6))
			case orb.Collection:
				return sset(tilecover.Collection(v, 6))
			case orb.Bound:
				return sset(tilecover.Bound(v, 6), nil)
			}
			return "-"
		}},
	{name: "wkb", readOnly: true, call: func(g orb.Geometry) string {
		b, err := wkb.Marshal(g)
		if err != nil {
			return "err"
		}
		return hexOrEmpty(b)
	}},
	{name: "ewkb", readOnly: true, call: func(g orb.Geometry) string {
		b, err := ewkb.Marshal(g, 4326)
		if err != nil {
			return "err"
		}
		return hexOrEmpty(b)
	}},
	{name: "wkt", readOnly: true, call: func(g orb.Geometry) string {
		s := wkt.MarshalString(g)
		if s == "" {
			return "empty"
		}
		return strings.ReplaceAll(s, " ", "_")
	}},
	{name: "geojson", readOnly: true, call: func(g orb.Geometry) string {
		b, err := geojson.NewGeometry(g).MarshalJSON()
		if err != nil {
			return "err"
		}
		return strings.ReplaceAll(string(b), " ", "_")
	}},
}

func c20Entry(name string) *entry {
	for i := range c20Entries {
		if c20Entries[i].name == name {
			return &c20Entries[i]
		}
	}
	return nil
}

// runC20: `<entry> <gval>` => generic | typed | unchanged | k member-outcomes…
func runC20(op string, in []string) string {
	if op != "call" {
		return "badop"
	}
	e := c20Entry(in[0])
	if e == nil {
		return "badentry"
	}
	parse := func() orb.Geometry { g, _ := parseGeom(in[1:]); return g }
	g := parse()
	before := gs(g)
	generic := guard(func() string { return e.call(g) })
	unchanged := gs(g) == before
	typed := "-"
	if e.typed != nil {
		typed = guard(func() string { return e.typed(parse()) })
	}
	parts := []string{generic, typed, b2s(unchanged)}
	if c, ok := parse().(orb.Collection); ok && c != nil && e.combine != "" {
		ms := []string{}
		for _, m := range c {
			m := m
			ms = append(ms, guard(func() string { return e.call(orb.Clone(m)) }))
		}
		parts = append(parts, strings.TrimSpace(fmt.Sprint(len(ms))+" "+strings.Join(ms, " ")))
	} else {
		parts = append(parts, "-1")
	}
	return strings.Join(parts, " | ")
}

// degenerate family: every kind x {typed nil, empty, one vertex, ordinary} with degenerate members at every level
func c20Leaves() []orb.Geometry {
	p, q, r := orb.Point{1, 1}, orb.Point{3, 1}, orb.Point{3, 3}
	ring4 := orb.Ring{p, q, r, p}
	big := orb.Ring{{-1, -1}, {6, -1}, {6, 6}, {-1, 6}, {-1, -1}}
	poly := orb.Polygon{ring4}
	return []orb.Geometry{
		p,
		orb.MultiPoint(nil), orb.MultiPoint{}, orb.MultiPoint{p}, orb.MultiPoint{p, q},
		orb.LineString(nil), orb.LineString{}, orb.LineString{p}, orb.LineString{p, p}, orb.LineString{p, q, r},
		orb.MultiLineString(nil), orb.MultiLineString{}, orb.MultiLineString{{}}, orb.MultiLineString{{p}}, orb.MultiLineString{{}, {p, q}}, orb.MultiLineString{{p, q}, {q, r}},
		orb.Ring(nil), orb.Ring{}, orb.Ring{p}, orb.Ring{p, q}, orb.Ring{p, p, p, p}, ring4, big,
		orb.Polygon(nil), orb.Polygon{}, orb.Polygon{orb.Ring{}}, orb.Polygon{orb.Ring{p}}, poly, orb.Polygon{ring4, orb.Ring{}}, orb.Polygon{big, ring4},
		orb.MultiPolygon(nil), orb.MultiPolygon{}, orb.MultiPolygon{{}}, orb.MultiPolygon{{orb.Ring{}}}, orb.MultiPolygon{{orb.Ring{p}}}, orb.MultiPolygon{poly}, orb.MultiPolygon{{}, poly}, orb.MultiPolygon{poly, {big}},
		orb.Bound{Min: p, Max: p}, orb.Bound{Min: p, Max: r}, orb.Bound{}, orb.Bound{Min: orb.Point{5, 5}, Max: orb.Point{9, 9}},
		orb.Collection(nil), orb.Collection{},
	}
}

func genC20(c *Ctx) {
	leaves := c20Leaves()
	var vals []orb.Geometry
	vals = append(vals, nil)
	vals = append(vals, leaves...)
	// depth 1: one- and two-member collections
	for _, a := range leaves { // typed nil slices are members too (written nXX, read back as nil)
		vals = append(vals, orb.Collection{a})
	}
	for i, a := range leaves {
		for j, b := range leaves {
			if (i+j)%3 != 0 && c.Tier != "thorough" {
				continue
			}
			vals = append(vals, orb.Collection{a, b})
		}
	}
	// depth 2 (and 3 in the thorough tier)
	for _, a := range leaves {
		vals = append(vals, orb.Collection{orb.Collection{a}}, orb.Collection{orb.Collection{}, orb.Collection{a, orb.Point{2, 2}}})
		if c.Tier == "thorough" {
			vals = append(vals, orb.Collection{orb.Collection{orb.Collection{a}}, a})
		}
	}
	idx := 0
	for _, e := range c20Entries {
		for _, v := range vals {
			idx++
			if !c.Mine(idx) {
				continue
			}
			c.Case("call", e.name+" "+gsN(orb.Clone(v)))
		}
	}
	// ordinary random values
	for k := 0; k < c.Budget && !c.Exhausted(); k++ {
		e := c20Entries[c.Rng.Intn(len(c20Entries))]
		g := genGeom(c.Rng, GenOpts{Mode: []CoordMode{CoordSmallInt, CoordHalf, CoordModest}[c.Rng.Intn(3)], MaxPts: 6, MaxDepth: 3, TopNil: true, InnerNil: true}, 0)
		c.Case("call", e.name+" "+gsN(g))
	}
}

func isTypedNil(g orb.Geometry) bool {
	switch v := g.(type) {
	case orb.MultiPoint:
		return v == nil
	case orb.LineString:
		return v == nil
	case orb.MultiLineString:
		return v == nil
	case orb.Ring:
		return v == nil
	case orb.Polygon:
		return v == nil
	case orb.MultiPolygon:
		return v == nil
	case orb.Collection:
		return v == nil
	}
	return false
}
