package main

import (
	"encoding/hex"
	"fmt"
	"math"
	"os"
	"sort"
	"strings"

	"github.com/paulmach/orb"
	"github.com/paulmach/orb/clip"
	"github.com/paulmach/orb/clip/smartclip"
	"github.com/paulmach/orb/encoding/ewkb"
	"github.com/paulmach/orb/encoding/mvt"
	"github.com/paulmach/orb/encoding/wkb"
	"github.com/paulmach/orb/encoding/wkt"
	"github.com/paulmach/orb/geo"
	"github.com/paulmach/orb/geojson"
	"github.com/paulmach/orb/maptile"
	"github.com/paulmach/orb/planar"
	"github.com/paulmach/orb/simplify"
)

func init() {
	if os.Getenv(c20WorkerEnv) != "" {
		c20WorkerMain()
		os.Exit(0)
	}
	register(&Prop{ID: "C20", Run: runC20, Gen: genC20})
}

// entry is one exported function with an orb.Geometry parameter (or, for mvt, the exported function
// through which the generic switch `encodeGeometry` is reached).
type entry struct {
	name     string
	readOnly bool
	// combine is documentation only: the rule by which a collection's outcome is rebuilt from its
	// members' outcomes is the DRIVER's table (Driver/C20.lean `combineOf`), so nothing here can weaken it.
	combine string
	call    func(g orb.Geometry) string
	// typed returns the RAW outcome of the kind-specific function ("-" when there is none for this
	// kind).  How the generic function wraps it (bound pre-test, nil for an empty result, single-member
	// unwrapping) is stated in the driver (`relate`), not here.
	typed func(g orb.Geometry) string
	// nilMemberAsEmpty: the member outcome of a typed-nil MEMBER is taken on the empty value of its
	// kind (WKB/EWKB only: at top level a typed nil writes no bytes, as a member it is written as the
	// empty value — fix 968afdb —, so the stand-alone encoding of the nil is not what the collection holds)
	nilMemberAsEmpty bool
	// alts: also report the outcome on the equivalent values of the neighbouring kinds (c20Alts); the
	// relation they must satisfy is the driver's (`altRule`)
	alts bool
}

var c20Box = orb.Bound{Min: orb.Point{0, 0}, Max: orb.Point{4, 4}}
var c20Pt = orb.Point{1.5, 2.5}
var c20DegBoxes = []orb.Bound{
	{Min: orb.Point{2, 2}, Max: orb.Point{2, 2}}, // a point
	{Min: orb.Point{0, 2}, Max: orb.Point{4, 2}}, // flat
	{Min: orb.Point{1, 0}, Max: orb.Point{1, 4}}, // flat the other way
	{Min: orb.Point{4, 4}, Max: orb.Point{0, 0}}, // inverted
}

func shift(p orb.Point) orb.Point { return orb.Point{p[0]*2 + 1, p[1]*3 - 2} }

func sset(s maptile.Set, err error) string {
	if err != nil {
		return "err"
	}
	var ts []string
	for t, ok := range s {
		if ok {
			ts = append(ts, fmt.Sprintf("%d/%d/%d", t.Z, t.X, t.Y))
		}
	}
	sort.Strings(ts)
	return fmt.Sprintf("set%d:%s", len(ts), strings.Join(ts, ","))
}

func gsn(g orb.Geometry) string { return strings.ReplaceAll(gs(g), " ", "_") }

func us(s string) string { return strings.ReplaceAll(s, " ", "_") }

func bytesOut(b []byte, err error) string {
	if err != nil {
		return "err"
	}
	return hexOrEmpty(b)
}

// asPolygon: the value the encoders write a ring / a bound as ("-" typed outcome otherwise)
func asPolygon(g orb.Geometry) (orb.Geometry, bool) {
	switch v := g.(type) {
	case orb.Ring:
		if v == nil {
			return nil, false
		}
		return orb.Polygon{v}, true
	case orb.Bound:
		return v.ToPolygon(), true
	}
	return nil, false
}

// encEntry: an encoder; its "kind-specific" counterpart is the encoding of the polygon a ring / bound is written as
func encEntry(name, combine string, nilAsEmpty bool, call func(g orb.Geometry) string) entry {
	return entry{name: name, readOnly: true, combine: combine, nilMemberAsEmpty: nilAsEmpty, call: call,
		typed: func(g orb.Geometry) string {
			if p, ok := asPolygon(g); ok {
				return call(p)
			}
			return "-"
		}}
}

// aliasEntry: an exported convenience wrapper that must return exactly what `ref` returns
func aliasEntry(name string, call, ref func(g orb.Geometry) string) entry {
	return entry{name: name, readOnly: true, combine: "", call: call, typed: ref}
}

func simpEntry(name string, mk func() orb.Simplifier) entry {
	return entry{name: name, combine: "map", call: func(g orb.Geometry) string { return gsn(mk().Simplify(g)) },
		typed: func(g orb.Geometry) string {
			s := mk()
			switch v := g.(type) {
			case orb.Point:
				return gsn(v) // returned as it is
			case orb.MultiPoint:
				return gsn(v)
			case orb.Bound:
				return gsn(v)
			case orb.LineString:
				return gsn(s.LineString(v))
			case orb.MultiLineString:
				return gsn(s.MultiLineString(v))
			case orb.Ring:
				return gsn(s.Ring(v))
			case orb.Polygon:
				return gsn(s.Polygon(v))
			case orb.MultiPolygon:
				return gsn(s.MultiPolygon(v))
			case orb.Collection:
				return gsn(s.Collection(v))
			}
			return "-"
		}}
}

// clipTyped: the raw result of the kind's own clip function
func clipTypedB(box orb.Bound) func(g orb.Geometry) string {
	return func(g orb.Geometry) string {
		switch v := g.(type) {
		case orb.Point:
			return gsn(v) // no function of its own: kept iff the pre-test passes
		case orb.MultiPoint:
			return gsn(clip.MultiPoint(box, v))
		case orb.LineString:
			return gsn(clip.LineString(box, v))
		case orb.MultiLineString:
			return gsn(clip.MultiLineString(box, v))
		case orb.Ring:
			return gsn(clip.Ring(box, v))
		case orb.Polygon:
			return gsn(clip.Polygon(box, v))
		case orb.MultiPolygon:
			return gsn(clip.MultiPolygon(box, v))
		case orb.Collection:
			return gsn(clip.Collection(box, v))
		case orb.Bound:
			return gsn(clip.Bound(box, v))
		}
		return "-"
	}
}

var clipTyped = clipTypedB(c20Box)

func wkbMarshal(g orb.Geometry) string  { return bytesOut(wkb.Marshal(g)) }
func ewkbMarshal(g orb.Geometry) string { return bytesOut(ewkb.Marshal(g, 4326)) }
func wktMarshal(g orb.Geometry) string {
	s := wkt.MarshalString(g)
	if s == "" {
		return "empty"
	}
	return us(s)
}
func geojsonMarshal(g orb.Geometry) string {
	b, err := geojson.NewGeometry(g).MarshalJSON()
	if err != nil {
		return "err"
	}
	return us(string(b))
}
func mvtMarshal(g orb.Geometry) string {
	fc := geojson.NewFeatureCollection()
	fc.Append(geojson.NewFeature(g))
	return bytesOut(mvt.Marshal(mvt.NewLayers(map[string]*geojson.FeatureCollection{"l": fc})))
}
func driverValue(v interface{}, err error) string {
	if err != nil {
		return "err"
	}
	if v == nil {
		return "empty"
	}
	b, ok := v.([]byte)
	if !ok {
		return "notbytes"
	}
	return hexOrEmpty(b)
}
func hexString(s string, err error) string {
	if err != nil {
		return "err"
	}
	if s == "" {
		return "empty"
	}
	return s
}

// lengthEntry: a length function of the geometry interface; the kind-specific counterpart of a line
// (and of a ring, which is measured as the line of its vertices) is the sum of the EXPORTED distance
// function over its segments, in the order and with the argument order of internal/length
func lengthEntry(name string, f func(orb.Geometry) float64, df orb.DistanceFunc) entry {
	sum := func(ps []orb.Point) string {
		s := 0.0
		for i := 1; i < len(ps); i++ {
			s += df(ps[i], ps[i-1])
		}
		return fb(s)
	}
	return entry{name: name, readOnly: true, alts: true, combine: "sum", call: func(g orb.Geometry) string { return fb(f(g)) },
		typed: func(g orb.Geometry) string {
			switch v := g.(type) {
			case orb.LineString:
				return sum(v)
			case orb.Ring:
				return sum(v)
			}
			return "-"
		}}
}

var c20Entries = []entry{
	{name: "clone", readOnly: true, alts: true, combine: "map", call: func(g orb.Geometry) string { return gsn(orb.Clone(g)) },
		typed: func(g orb.Geometry) string {
			switch v := g.(type) {
			case orb.MultiPoint:
				return gsn(v.Clone())
			case orb.LineString:
				return gsn(v.Clone())
			case orb.MultiLineString:
				return gsn(v.Clone())
			case orb.Ring:
				return gsn(v.Clone())
			case orb.Polygon:
				return gsn(v.Clone())
			case orb.MultiPolygon:
				return gsn(v.Clone())
			case orb.Collection:
				return gsn(v.Clone())
			}
			return "-"
		}},
	{name: "equal", readOnly: true, call: func(g orb.Geometry) string { return b2s(orb.Equal(g, orb.Clone(g))) },
		typed: func(g orb.Geometry) string {
			switch v := g.(type) {
			case orb.Point:
				return b2s(v.Equal(v))
			case orb.MultiPoint:
				return b2s(v.Equal(v.Clone()))
			case orb.LineString:
				return b2s(v.Equal(v.Clone()))
			case orb.MultiLineString:
				return b2s(v.Equal(v.Clone()))
			case orb.Ring:
				return b2s(v.Equal(v.Clone()))
			case orb.Polygon:
				return b2s(v.Equal(v.Clone()))
			case orb.MultiPolygon:
				return b2s(v.Equal(v.Clone()))
			case orb.Collection:
				return b2s(v.Equal(v.Clone()))
			case orb.Bound:
				return b2s(v.Equal(v))
			}
			return "-"
		}},
	{name: "bound", readOnly: true, alts: true, combine: "bound", call: func(g orb.Geometry) string {
		if g == nil {
			return "nilgeom"
		}
		return us(sbound(g.Bound()))
	}},
	roundEntry("round", []int{10}),
	{name: "planar.area", readOnly: true, alts: true, combine: "sum", call: func(g orb.Geometry) string { return fb(planar.Area(g)) }},
	{name: "planar.centroid", readOnly: true, alts: true, combine: "centroid", call: func(g orb.Geometry) string {
		c, a := planar.CentroidArea(g)
		return fb(c[0]) + "_" + fb(c[1]) + "_" + fb(a)
	}},
	lengthEntry("planar.length", planar.Length, planar.Distance),
	distEntry("planar.distfrom", c20Pt),
	distIdxEntry("planar.distfromidx", c20Pt),
	{name: "geo.area", readOnly: true, alts: true, combine: "sum", call: func(g orb.Geometry) string { return fb(geo.Area(g)) },
		// the ring's own exported function: geo.SignedArea, of which geo.Area is the absolute value
		typed: func(g orb.Geometry) string {
			if r, ok := g.(orb.Ring); ok {
				return fb(math.Abs(geo.SignedArea(r)))
			}
			return "-"
		}},
	lengthEntry("geo.length", geo.Length, geo.Distance),
	lengthEntry("geo.lengthhav", geo.LengthHaversine, geo.DistanceHaversine),
	// the deprecated, misspelt twin: must return exactly what LengthHaversine returns
	{name: "geo.lengthhaversign", readOnly: true, alts: true, combine: "sum", call: func(g orb.Geometry) string { return fb(geo.LengthHaversign(g)) },
		typed: func(g orb.Geometry) string { return fb(geo.LengthHaversine(g)) }},
	clipEntry("clip", c20Box),
	smartEntry("smartclip", c20Box, orb.CCW),
	// boxes the totality theorems of the models do NOT cover (`BoxOK`: positive size): a point, a flat
	// and an inverted box.  Judged for totality only.
	{name: "clip.degbox", combine: "", call: func(g orb.Geometry) string {
		out := []string{}
		for _, b := range c20DegBoxes {
			out = append(out, gsn(clip.Geometry(b, orb.Clone(g))))
		}
		return strings.Join(out, ";")
	}},
	{name: "smartclip.degbox", combine: "", call: func(g orb.Geometry) string {
		out := []string{}
		for _, b := range c20DegBoxes {
			for _, o := range []orb.Orientation{orb.CCW, orb.CW} {
				out = append(out, gsn(smartclip.Geometry(b, orb.Clone(g), o)))
			}
		}
		return strings.Join(out, ";")
	}},
	projEntry("project", shift),
	simpEntry("simplify.dp", func() orb.Simplifier { return simplify.DouglasPeucker(0.5) }),
	simpEntry("simplify.radial", func() orb.Simplifier { return simplify.Radial(planar.Distance, 0.5) }),
	simpEntry("simplify.vis", func() orb.Simplifier { return simplify.VisvalingamThreshold(0.5) }),
	coverEntry("tilecover", 6),
	encEntry("wkb", "wkb", true, wkbMarshal),
	encEntry("ewkb", "ewkb", true, ewkbMarshal),
	encEntry("wkt", "wkt", false, wktMarshal),
	encEntry("geojson", "geojson", false, geojsonMarshal),
	// convenience wrappers around the encoders: each must return exactly what Marshal returns
	aliasEntry("wkb.hex", func(g orb.Geometry) string { return hexString(wkb.MarshalToHex(g)) }, wkbMarshal),
	aliasEntry("wkb.must", func(g orb.Geometry) string { return hexOrEmpty(wkb.MustMarshal(g)) }, wkbMarshal),
	aliasEntry("wkb.musthex", func(g orb.Geometry) string { return hexString(wkb.MustMarshalToHex(g), nil) }, wkbMarshal),
	aliasEntry("wkb.value", func(g orb.Geometry) string { return driverValue(wkb.Value(g).Value()) }, wkbMarshal),
	aliasEntry("ewkb.hex", func(g orb.Geometry) string { return hexString(ewkb.MarshalToHex(g, 4326)) }, ewkbMarshal),
	aliasEntry("ewkb.must", func(g orb.Geometry) string { return hexOrEmpty(ewkb.MustMarshal(g, 4326)) }, ewkbMarshal),
	aliasEntry("ewkb.musthex", func(g orb.Geometry) string { return hexString(ewkb.MustMarshalToHex(g, 4326), nil) }, ewkbMarshal),
	aliasEntry("ewkb.value", func(g orb.Geometry) string { return driverValue(ewkb.Value(g, 4326).Value()) }, ewkbMarshal),
	// the 4-byte little-endian SRID followed by the plain encoding (nothing for a value that writes no bytes)
	aliasEntry("ewkb.prefix", func(g orb.Geometry) string { return driverValue(ewkb.ValuePrefixSRID(g, 4326).Value()) },
		func(g orb.Geometry) string {
			b, err := ewkb.Marshal(g, 0)
			if err != nil {
				return "err"
			}
			if len(b) == 0 {
				return "empty"
			}
			return "e6100000" + hex.EncodeToString(b)
		}),
	aliasEntry("wkt.bytes", func(g orb.Geometry) string {
		b := wkt.Marshal(g)
		if len(b) == 0 {
			return "empty"
		}
		return us(string(b))
	}, wktMarshal),
	// GeoJSON feature and BSON paths (geojson.NewFeature / NewGeometry(..).MarshalBSON)
	{name: "geojson.feature", readOnly: true, combine: "", call: func(g orb.Geometry) string {
		b, err := geojson.NewFeature(g).MarshalJSON()
		if err != nil {
			return "err"
		}
		return us(string(b))
	}, typed: func(g orb.Geometry) string {
		inner := geojsonMarshal(g)
		if inner == "err" { // a coordinate JSON cannot write (NaN, ±Inf): the feature fails as its geometry does
			return "err"
		}
		return us(`{"type":"Feature","geometry":`) + inner + us(`,"properties":null}`)
	}},
	{name: "geojson.bson", readOnly: true, combine: "", call: func(g orb.Geometry) string {
		return bytesOut(geojson.NewGeometry(g).MarshalBSON())
	}, typed: func(g orb.Geometry) string {
		if p, ok := asPolygon(g); ok {
			return bytesOut(geojson.NewGeometry(p).MarshalBSON())
		}
		return "-"
	}},
	{name: "geojson.featurebson", readOnly: true, combine: "", call: func(g orb.Geometry) string {
		return bytesOut(geojson.NewFeature(g).MarshalBSON())
	}},
	// mvt.encodeGeometry, reached through mvt.Marshal of a one-feature layer
	encEntry("mvt", "", false, mvtMarshal),
}

func c20Entry(name string) *entry {
	for i := range c20Entries {
		if c20Entries[i].name == name {
			return &c20Entries[i]
		}
	}
	return nil
}

func emptyOfKind(g orb.Geometry) orb.Geometry {
	switch g.(type) {
	case orb.MultiPoint:
		return orb.MultiPoint{}
	case orb.LineString:
		return orb.LineString{}
	case orb.MultiLineString:
		return orb.MultiLineString{}
	case orb.Ring:
		return orb.Ring{}
	case orb.Polygon:
		return orb.Polygon{}
	case orb.MultiPolygon:
		return orb.MultiPolygon{}
	case orb.Collection:
		return orb.Collection{}
	}
	return g
}

// c20Call (in the worker process; runC20 in c20w.go is the parent's side):
//
//	call <entry> <gval>       => generic | typed | unchanged | k member-outcomes… | alts
//	                             (alts: `-`, or pairs <relation> <outcome on the neighbouring kind's value>)
//	                             or hang | crash | hang-aux | crash-aux (watchdog, c20w.go)
//	callp <entry> <params> <gval> => the same, with non-default parameter values (c20p.go)
//	eq <gval1> <gval2>        => Equal(g1,g2) Equal(g2,g1) typed unchanged
func c20Call(op string, in []string) string {
	switch op {
	case "call":
		return runC20Call(in)
	case "eq":
		return runC20Eq(in)
	case "callp":
		return runC20CallP(in)
	}
	return "badop"
}

func runC20Call(in []string) string {
	e := c20Entry(in[0])
	if e == nil {
		return "badentry"
	}
	return runC20Entry(e, in[1:])
}

// runC20CallP: `callp <entry> <params> <gval>` — the entry point called with the parameter values of
// the case line (orientation, box, threshold, factor, point function, zoom, byte order …).  ONE entry
// value, closed over those parameters, produces the generic outcome, the kind-specific outcome and
// every member's outcome.
func runC20CallP(in []string) string {
	if len(in) < 2 {
		return "badentry"
	}
	e := c20ParamEntry(in[0], in[1])
	if e == nil {
		return "badentry"
	}
	return runC20Entry(e, in[2:])
}

func runC20Entry(e *entry, gtoks []string) string {
	// every slice of every value handed to the code has spare capacity holding sentinels
	parse := func() orb.Geometry { g, _ := parseGeom(gtoks); return c20Spare(g) }
	g := parse()
	before := gsN(g)
	snap := c20Snap(g)
	generic := guard(func() string { return e.call(g) })
	if c20GenericOnly {
		return "genericonly"
	}
	// read-only: the serialised value AND everything reachable through the argument's slice headers
	// (data pointers, lengths, capacities, the spare slots behind len) bit for bit
	unchanged := gsN(g) == before && sameSnap(c20Snap(g), snap)
	typed := "-"
	if e.typed != nil {
		typed = guard(func() string { return e.typed(parse()) })
	}
	parts := []string{generic, typed, b2s(unchanged)}
	if c, ok := parse().(orb.Collection); ok && c != nil {
		ms := []string{}
		for _, m := range c {
			m := c20Spare(orb.Clone(m))
			if e.nilMemberAsEmpty && isTypedNil(m) {
				m = emptyOfKind(m)
			}
			ms = append(ms, guard(func() string { return e.call(m) }))
		}
		parts = append(parts, strings.TrimSpace(fmt.Sprint(len(ms))+" "+strings.Join(ms, " ")))
	} else {
		parts = append(parts, "-1")
	}
	alts := []string{}
	if e.alts {
		for _, a := range c20Alts(parse()) {
			a := a
			alts = append(alts, a.rel, guard(func() string { return e.call(c20Spare(a.g)) }))
		}
	}
	if len(alts) == 0 {
		parts = append(parts, "-")
	} else {
		parts = append(parts, strings.Join(alts, " "))
	}
	return strings.Join(parts, " | ")
}

func typedEqual(a, b orb.Geometry) string {
	switch v := a.(type) {
	case orb.Point:
		if w, ok := b.(orb.Point); ok {
			return b2s(v.Equal(w))
		}
	case orb.MultiPoint:
		if w, ok := b.(orb.MultiPoint); ok {
			return b2s(v.Equal(w))
		}
	case orb.LineString:
		if w, ok := b.(orb.LineString); ok {
			return b2s(v.Equal(w))
		}
	case orb.MultiLineString:
		if w, ok := b.(orb.MultiLineString); ok {
			return b2s(v.Equal(w))
		}
	case orb.Ring:
		if w, ok := b.(orb.Ring); ok {
			return b2s(v.Equal(w))
		}
	case orb.Polygon:
		if w, ok := b.(orb.Polygon); ok {
			return b2s(v.Equal(w))
		}
	case orb.MultiPolygon:
		if w, ok := b.(orb.MultiPolygon); ok {
			return b2s(v.Equal(w))
		}
	case orb.Collection:
		if w, ok := b.(orb.Collection); ok {
			return b2s(v.Equal(w))
		}
	case orb.Bound:
		if w, ok := b.(orb.Bound); ok {
			return b2s(v.Equal(w))
		}
	}
	return "-"
}

func runC20Eq(in []string) string {
	parse := func() (orb.Geometry, orb.Geometry) {
		a, rest := parseGeom(in)
		b, _ := parseGeom(rest)
		return c20Spare(a), c20Spare(b)
	}
	a, b := parse()
	ba, bb := gsN(a), gsN(b)
	sa, sb := c20Snap(a), c20Snap(b)
	g1 := guard(func() string { return b2s(orb.Equal(a, b)) })
	g2 := guard(func() string { return b2s(orb.Equal(b, a)) })
	if c20GenericOnly {
		return "genericonly"
	}
	unchanged := gsN(a) == ba && gsN(b) == bb && sameSnap(c20Snap(a), sa) && sameSnap(c20Snap(b), sb)
	ty := guard(func() string { x, y := parse(); return typedEqual(x, y) })
	return g1 + " " + g2 + " " + ty + " " + b2s(unchanged)
}

// degenerate family: every kind x {typed nil, empty, one vertex, ordinary} with degenerate members at every level
func c20Leaves() []orb.Geometry {
	p, q, r := orb.Point{1, 1}, orb.Point{3, 1}, orb.Point{3, 3}
	ring4 := orb.Ring{p, q, r, p}
	big := orb.Ring{{-1, -1}, {6, -1}, {6, 6}, {-1, 6}, {-1, -1}}
	poly := orb.Polygon{ring4}
	return []orb.Geometry{
		p,
		orb.MultiPoint(nil), orb.MultiPoint{}, orb.MultiPoint{p}, orb.MultiPoint{p, q},
		orb.LineString(nil), orb.LineString{}, orb.LineString{p}, orb.LineString{p, p}, orb.LineString{p, q, r},
		orb.MultiLineString(nil), orb.MultiLineString{}, orb.MultiLineString{{}}, orb.MultiLineString{{p}}, orb.MultiLineString{{}, {p, q}}, orb.MultiLineString{{p, q}, {q, r}},
		orb.Ring(nil), orb.Ring{}, orb.Ring{p}, orb.Ring{p, q}, orb.Ring{p, p, p, p}, ring4, big,
		orb.Polygon(nil), orb.Polygon{}, orb.Polygon{orb.Ring{}}, orb.Polygon{orb.Ring{p}}, poly, orb.Polygon{ring4, orb.Ring{}}, orb.Polygon{big, ring4},
		orb.MultiPolygon(nil), orb.MultiPolygon{}, orb.MultiPolygon{{}}, orb.MultiPolygon{{orb.Ring{}}}, orb.MultiPolygon{{orb.Ring{p}}}, orb.MultiPolygon{poly}, orb.MultiPolygon{{}, poly}, orb.MultiPolygon{poly, {big}},
		orb.Bound{Min: p, Max: p}, orb.Bound{Min: p, Max: r}, orb.Bound{}, orb.Bound{Min: orb.Point{5, 5}, Max: orb.Point{9, 9}},
		orb.Collection(nil), orb.Collection{},
		// nil slices below the top level (written with the count token `n`)
		orb.MultiLineString{nil}, orb.MultiLineString{nil, {p, q}}, orb.Polygon{nil}, orb.Polygon{ring4, nil},
		orb.MultiPolygon{nil}, orb.MultiPolygon{nil, poly}, orb.MultiPolygon{{nil}},
	}
}

// c20Vals: the leaves, alone and as members of collections nested to depth 2 (3 in the thorough tier)
func c20Vals(tier string) []orb.Geometry {
	leaves := c20Leaves()
	var vals []orb.Geometry
	vals = append(vals, nil)
	vals = append(vals, leaves...)
	// depth 1: one- and two-member collections
	for _, a := range leaves { // typed nil slices are members too (written nXX, read back as nil)
		vals = append(vals, orb.Collection{a})
	}
	for i, a := range leaves {
		for j, b := range leaves {
			if (i+j)%3 != 0 && tier != "thorough" {
				continue
			}
			vals = append(vals, orb.Collection{a, b})
		}
	}
	// three members (the single-member unwrapping and two-member cases are not the general case):
	// the leaf first / in the middle / last / twice, among members of dimension 0, 1 and 2 inside the clip box
	in2 := orb.Polygon{{{1, 2}, {2, 2}, {2, 3}, {1, 2}}}
	in1 := orb.LineString{{0.5, 0.5}, {3.5, 0.5}, {3.5, 1.5}}
	for _, a := range leaves {
		vals = append(vals, orb.Collection{a, in2, in1}, orb.Collection{in2, a, orb.Point{2, 2}}, orb.Collection{in1, orb.Ring(in2[0]), a},
			orb.Collection{a, in2, a, in2})
	}
	// depth 2 (and 3 in the thorough tier)
	for _, a := range leaves {
		vals = append(vals, orb.Collection{orb.Collection{a}}, orb.Collection{orb.Collection{}, orb.Collection{a, orb.Point{2, 2}}})
		if tier == "thorough" {
			vals = append(vals, orb.Collection{orb.Collection{orb.Collection{a}}, a})
		}
	}
	return vals
}

// perturb returns variants of g that differ from it in one place (a coordinate, a vertex more or
// less, a member more or less), for the unequal pairs of `eq`.
func perturb(g orb.Geometry) []orb.Geometry {
	var out []orb.Geometry
	bump := func(ps []orb.Point) {
		if len(ps) > 0 {
			ps[len(ps)-1][1] += 0.5
		}
	}
	switch v := g.(type) {
	case orb.Point:
		out = append(out, orb.Point{v[0], v[1] + 0.5}, orb.Point{v[0] + 0.5, v[1]})
	case orb.Bound:
		out = append(out, orb.Bound{Min: v.Min, Max: orb.Point{v.Max[0], v.Max[1] + 0.5}}, orb.Bound{Min: orb.Point{v.Min[0] - 0.5, v.Min[1]}, Max: v.Max})
	case orb.MultiPoint:
		c := v.Clone()
		bump(c)
		out = append(out, c, append(v.Clone(), orb.Point{7, 7}))
		if len(v) > 0 {
			out = append(out, v.Clone()[:len(v)-1])
		}
	case orb.LineString:
		c := v.Clone()
		bump(c)
		out = append(out, c, append(v.Clone(), orb.Point{7, 7}))
		if len(v) > 0 {
			out = append(out, v.Clone()[:len(v)-1])
		}
	case orb.Ring:
		c := v.Clone()
		bump(c)
		out = append(out, c, append(v.Clone(), orb.Point{7, 7}))
		if len(v) > 0 {
			out = append(out, v.Clone()[:len(v)-1])
		}
	case orb.MultiLineString:
		c := v.Clone()
		if len(c) > 0 {
			bump(c[len(c)-1])
		}
		out = append(out, c, append(v.Clone(), orb.LineString{{7, 7}}), append(v.Clone(), orb.LineString{}))
		if len(v) > 0 {
			out = append(out, v.Clone()[:len(v)-1])
		}
	case orb.Polygon:
		c := v.Clone()
		if len(c) > 0 {
			bump(c[len(c)-1])
		}
		out = append(out, c, append(v.Clone(), orb.Ring{{7, 7}}), append(v.Clone(), orb.Ring{}))
		if len(v) > 0 {
			out = append(out, v.Clone()[:len(v)-1])
		}
	case orb.MultiPolygon:
		c := v.Clone()
		if len(c) > 0 && len(c[len(c)-1]) > 0 {
			bump(c[len(c)-1][len(c[len(c)-1])-1])
		}
		out = append(out, c, append(v.Clone(), orb.Polygon{{{7, 7}}}), append(v.Clone(), orb.Polygon{}))
		if len(v) > 0 {
			out = append(out, v.Clone()[:len(v)-1])
		}
	case orb.Collection:
		out = append(out, append(v.Clone(), orb.Point{7, 7}))
		if len(v) > 0 {
			out = append(out, v.Clone()[:len(v)-1])
			for _, m := range perturb(v[len(v)-1]) {
				c := v.Clone()
				c[len(c)-1] = m
				out = append(out, c)
			}
		}
	}
	return out
}

// lookalikes returns values of ANOTHER kind that share g's GeoJSON type or vertex list (ring vs its
// one-ring polygon vs the bound's polygon, line vs ring vs multi-point on the same vertices): the
// pairs that get past `g1.GeoJSONType() != g2.GeoJSONType()` and reach the unchecked / checked type
// assertions of orb.Equal.
func lookalikes(g orb.Geometry) []orb.Geometry {
	switch v := g.(type) {
	case orb.Point:
		return []orb.Geometry{orb.MultiPoint{v}, orb.Bound{Min: v, Max: v}}
	case orb.MultiPoint:
		return []orb.Geometry{orb.LineString(v), orb.Ring(v)}
	case orb.LineString:
		return []orb.Geometry{orb.MultiPoint(v), orb.Ring(v), orb.MultiLineString{v}}
	case orb.Ring:
		return []orb.Geometry{orb.Polygon{v}, orb.LineString(v), v.Bound(), orb.MultiPolygon{{v}}}
	case orb.Polygon:
		out := []orb.Geometry{orb.MultiPolygon{v}, orb.MultiLineString(nil), v.Bound()}
		if len(v) > 0 {
			out = append(out, v[0])
		} else {
			out = append(out, orb.Ring{}, orb.Ring(nil))
		}
		return out
	case orb.MultiPolygon:
		if len(v) > 0 {
			return []orb.Geometry{v[0], orb.Collection{v[0]}}
		}
		return []orb.Geometry{orb.Polygon{}, orb.Collection{}}
	case orb.Bound:
		return []orb.Geometry{v.ToPolygon(), v.ToRing(), v.Min}
	case orb.Collection:
		if len(v) == 1 {
			return []orb.Geometry{v[0]}
		}
	}
	return nil
}

func genC20(c *Ctx) {
	vals := c20Vals(c.Tier)
	idx := 0
	for _, e := range c20Entries {
		for _, v := range vals {
			idx++
			if !c.Mine(idx) {
				continue
			}
			c.Case("call", e.name+" "+gsN(orb.Clone(v)))
		}
	}
	// values with non-finite / huge / tiny / signed-zero coordinates (the quantifier is over ALL geometry
	// values: it names no coordinate range), alone and beside an ordinary member; tile cover only on the
	// explicit witnesses (c20TileRisk)
	specials := c20SpecialLeaves()
	for _, e := range c20Entries {
		vs := specials
		if c20TileEntry(e.name) {
			vs = c20TileWitnesses(c.Tier)
		}
		for _, v := range vs {
			ws := []orb.Geometry{v, orb.Collection{v, orb.Point{2, 2}}}
			if c20TileEntry(e.name) {
				ws = ws[:1]
			}
			for _, w := range ws {
				idx++
				if !c.Mine(idx) {
					continue
				}
				c.Case("call", e.name+" "+gsN(orb.Clone(w)))
			}
		}
	}
	idx = genC20Params(c, idx)
	// orb.Equal on PAIRS: every leaf against every leaf (cross-kind: all 9 x 9 kind pairs, nil
	// interface and typed nils on either side), against its look-alikes of another kind, against
	// one-place perturbations of itself, and the same inside collections
	leaves := append([]orb.Geometry{nil}, c20Leaves()...)
	pair := func(a, b orb.Geometry) {
		idx++
		if !c.Mine(idx) {
			return
		}
		c.Case("eq", gsN(orb.Clone(a))+" "+gsN(orb.Clone(b)))
	}
	for _, a := range leaves {
		for _, b := range leaves {
			pair(a, b)
		}
		for _, b := range lookalikes(a) {
			pair(a, b)
			pair(b, a)
			pair(orb.Collection{a}, orb.Collection{b})
			pair(orb.Collection{orb.Point{2, 2}, a}, orb.Collection{orb.Point{2, 2}, b})
		}
		for _, b := range perturb(a) {
			pair(a, b)
			pair(b, a)
			pair(orb.Collection{a}, orb.Collection{b})
		}
		if a != nil {
			pair(orb.Collection{a}, a)
			pair(orb.Collection{a}, orb.Collection{a, a})
			pair(orb.Collection{a, orb.Point{2, 2}}, orb.Collection{orb.Point{2, 2}, a})
			pair(orb.Collection{orb.Collection{a}}, orb.Collection{a})
		}
	}
	for i, a := range specials {
		pair(a, a)
		pair(orb.Collection{a}, orb.Collection{a})
		if i%3 == 0 {
			for _, b := range lookalikes(a) {
				pair(a, b)
				pair(b, a)
			}
			for _, b := range perturb(a) {
				pair(a, b)
			}
		}
	}
	// random values: ordinary coordinates mostly; one in five with full-range finite floats or arbitrary
	// bit patterns (NaN payloads, infinities, -0, subnormals)
	opts := func() GenOpts {
		m := []CoordMode{CoordSmallInt, CoordHalf, CoordModest}[c.Rng.Intn(3)]
		if c.Rng.Intn(5) == 0 {
			m = []CoordMode{CoordFloat, CoordBits}[c.Rng.Intn(2)]
		}
		return GenOpts{Mode: m, MaxPts: 6, MaxDepth: 3, TopNil: true, InnerNil: true}
	}
	safeOpts := func() GenOpts {
		return GenOpts{Mode: []CoordMode{CoordSmallInt, CoordHalf, CoordModest}[c.Rng.Intn(3)], MaxPts: 6, MaxDepth: 3, TopNil: true, InnerNil: true}
	}
	for k := 0; k < c.Budget && !c.Exhausted(); k++ {
		if k%8 == 7 { // a random pair for orb.Equal: equal copy / look-alike / perturbation / unrelated value
			g := genGeom(c.Rng, opts(), 0)
			var h orb.Geometry
			switch c.Rng.Intn(4) {
			case 0:
				h = orb.Clone(g)
			case 1:
				if l := lookalikes(g); len(l) > 0 {
					h = l[c.Rng.Intn(len(l))]
				} else {
					h = orb.Clone(g)
				}
			case 2:
				if l := perturb(g); len(l) > 0 {
					h = l[c.Rng.Intn(len(l))]
				} else {
					h = genGeom(c.Rng, opts(), 0)
				}
			default:
				h = genGeom(c.Rng, opts(), 0)
			}
			if c.Rng.Intn(2) == 0 {
				g, h = h, g
			}
			c.Case("eq", gsN(g)+" "+gsN(h))
			continue
		}
		e := c20Entries[c.Rng.Intn(len(c20Entries))]
		g := genGeom(c.Rng, opts(), 0)
		if c20TileEntry(e.name) && c20TileRisk(g, 6) {
			g = genGeom(c.Rng, safeOpts(), 0)
		}
		c.Case("call", e.name+" "+gsN(g))
	}
	genC20ParamsRandom(c, opts, safeOpts)
}

func isTypedNil(g orb.Geometry) bool {
	switch v := g.(type) {
	case orb.MultiPoint:
		return v == nil
	case orb.LineString:
		return v == nil
	case orb.MultiLineString:
		return v == nil
	case orb.Ring:
		return v == nil
	case orb.Polygon:
		return v == nil
	case orb.MultiPolygon:
		return v == nil
	case orb.Collection:
		return v == nil
	}
	return false
}
