//go:build !race

package main

func raceCount() int { return 0 }

const raceEnabled = false
