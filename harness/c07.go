package main

import (
	"fmt"
	"os"
	"os/exec"
	"strings"
	"time"

	"github.com/paulmach/orb"
	"github.com/paulmach/orb/clip"
)

const c07ProbeEnv = "ORBVERIF_C07_PROBE"

func init() {
	// probe mode (see c07Returns): make the bare clip call described by the environment variable and exit
	if probe := os.Getenv(c07ProbeEnv); probe != "" {
		f := strings.Fields(probe)
		c07Call(f[0], f[1:])
		os.Exit(0)
	}
	register(&Prop{ID: "C07", Run: runC07, Gen: genC07})
}

// c07Call makes the clip call of a `line` / `mls` case and nothing else.
func c07Call(op string, in []string) {
	r := &tokReader{t: in}
	open := r.int() == 1
	box := rdBound(r)
	if op == "line" {
		clip.LineString(box, orb.LineString(r.pts()), clip.OpenBound(open))
		return
	}
	mls := make(orb.MultiLineString, r.int())
	for i := range mls {
		mls[i] = orb.LineString(r.pts())
	}
	clip.MultiLineString(box, mls, clip.OpenBound(open))
}

func smls(m orb.MultiLineString) string {
	var sb strings.Builder
	sb.WriteString(fmt.Sprint(len(m)))
	for _, l := range m {
		wPts(&sb, l)
	}
	return sb.String()
}

func runC07(op string, in []string) string {
	return guard(func() string {
		r := &tokReader{t: in}
		switch op {
		case "line":
			open := r.int() == 1
			box := rdBound(r)
			ls := orb.LineString(r.pts())
			before := spts(ls)
			if !c07Returns([]orb.LineString{ls}, box, open, op, in) {
				return "hang"
			}
			out := clip.LineString(box, ls, clip.OpenBound(open))
			res := smls(out)
			unmod := spts(ls) == before
			// clipping a piece again returns it unchanged
			idem := true
			for _, piece := range out {
				// (a piece's own end points lie on the boundary, so the comparison is made with the closed
				// bound in both modes; all its vertices have region code 0, no intersection is computed)
				again := clip.LineString(box, piece.Clone(), clip.OpenBound(false))
				if len(again) != 1 || spts(again[0]) != spts(piece) {
					idem = false
				}
			}
			return res + " " + b2s(idem) + " " + b2s(unmod)
		case "mls":
			// the second entry point: clip.MultiLineString, with the option passed explicitly in both modes;
			// alongside, clip.LineString of every member (on a clone) with the same option
			open := r.int() == 1
			box := rdBound(r)
			n := r.int()
			mls := make(orb.MultiLineString, n)
			for i := range mls {
				mls[i] = orb.LineString(r.pts())
			}
			before := smls(mls)
			if !c07Returns(mls, box, open, op, in) {
				return "hang"
			}
			out := clip.MultiLineString(box, mls, clip.OpenBound(open))
			res := smls(out)
			unmod := smls(mls) == before
			var sb strings.Builder
			sb.WriteString(fmt.Sprint(n))
			for _, ls := range mls {
				sb.WriteString(" ")
				sb.WriteString(smls(clip.LineString(box, ls.Clone(), clip.OpenBound(open))))
			}
			return res + " " + b2s(unmod) + " " + sb.String()
		}
		return "badop"
	})
}

// c07Returns reports whether the real clip call of the case (op, in) returns: the watchdog for the loop of
// clip.line.  Before the rounding guard was added (finding C07-corner-rounding-nontermination, fixed:
// an end point is clipped at most twice, then snapped onto the box) the loop could alternate for ever
// between two edges at a corner.  A looping goroutine cannot be stopped, so normally the caller just
// makes the call itself — no timeout, no false alarm on a loaded machine.  Only when a replica of the
// loop WITHOUT the guard, with the same float arithmetic (c07Cycles), does not leave the loop — exactly
// the inputs on which the guard matters — the REAL call is first made in a child process (this
// executable in probe mode) that is killed after 10 seconds: the outcome `hang` is what was actually
// observed of the real code (the driver answers `propfail hang`), and nothing is left spinning.
func c07Returns(lines []orb.LineString, box orb.Bound, open bool, op string, in []string) bool {
	predicted := false
	for _, ls := range lines {
		if c07Cycles(box, ls, open) {
			predicted = true
		}
	}
	if !predicted {
		return true
	}
	exe, err := os.Executable()
	if err != nil {
		panic(err)
	}
	cmd := exec.Command(exe)
	cmd.Env = append(os.Environ(), c07ProbeEnv+"="+op+" "+strings.Join(in, " "))
	if err := cmd.Start(); err != nil {
		panic(err)
	}
	done := make(chan error, 1)
	go func() { done <- cmd.Wait() }()
	select {
	case err := <-done:
		if err != nil {
			panic(fmt.Sprint("probe: ", err)) // the real call crashed in the child: outcome `panic`
		}
		return true
	case <-time.After(10 * time.Second):
		cmd.Process.Kill()
		<-done
		return false
	}
}

func c07Code(b orb.Bound, p orb.Point, open bool) int {
	code := 0
	if open {
		if p[0] <= b.Min[0] {
			code |= 1
		} else if p[0] >= b.Max[0] {
			code |= 2
		}
		if p[1] <= b.Min[1] {
			code |= 4
		} else if p[1] >= b.Max[1] {
			code |= 8
		}
		return code
	}
	if p[0] < b.Min[0] {
		code |= 1
	} else if p[0] > b.Max[0] {
		code |= 2
	}
	if p[1] < b.Min[1] {
		code |= 4
	} else if p[1] > b.Max[1] {
		code |= 8
	}
	return code
}

// c07Cycles: does the inner loop of clip.line, taken WITHOUT its two-clips-per-end guard, fail to finish
// within 64 rounds on some segment of ls?  (Exact arithmetic needs at most four.)  Used only to decide
// HOW the real code is called.
func c07Cycles(box orb.Bound, ls orb.LineString, open bool) bool {
	for i := 1; i < len(ls); i++ {
		a, b := ls[i-1], ls[i]
		codeA, codeB := c07Code(box, a, open), c07Code(box, b, open)
		n := 0
		for ; n < 64; n++ {
			if codeA|codeB == 0 || codeA&codeB != 0 {
				break
			}
			edge, moveA := codeB, false
			if codeA != 0 {
				edge, moveA = codeA, true
			}
			var p orb.Point
			switch {
			case edge&8 != 0:
				p = orb.Point{a[0] + (b[0]-a[0])*(box.Max[1]-a[1])/(b[1]-a[1]), box.Max[1]}
			case edge&4 != 0:
				p = orb.Point{a[0] + (b[0]-a[0])*(box.Min[1]-a[1])/(b[1]-a[1]), box.Min[1]}
			case edge&2 != 0:
				p = orb.Point{box.Max[0], a[1] + (b[1]-a[1])*(box.Max[0]-a[0])/(b[0]-a[0])}
			default:
				p = orb.Point{box.Min[0], a[1] + (b[1]-a[1])*(box.Min[0]-a[0])/(b[0]-a[0])}
			}
			if moveA {
				a, codeA = p, c07Code(box, p, false)
			} else {
				b, codeB = p, c07Code(box, p, false)
			}
		}
		if n == 64 {
			return true
		}
	}
	return false
}

// c07Box is a clip box together with the recipe for placing vertices relative to it.
type c07Box struct {
	b    orb.Bound
	kind int // 0: integer grid 1..5 (vertices on the 7x7 grid), 1: quarter grid, negative corners allowed, 2: general-position floats
}

func (x c07Box) tok() string {
	return fmt.Sprintf("%s %s %s %s", fb(x.b.Min[0]), fb(x.b.Min[1]), fb(x.b.Max[0]), fb(x.b.Max[1]))
}

// c07RandBox draws a box with non-integer and negative corners.
//
//	kind 1: corners on the quarter grid in [-8, 8] (the placement arithmetic below is exact on it, so
//	        vertices land exactly on edges, corners and on lines through corners);
//	kind 2: general-position float corners, magnitude up to 1, 10, 100 or 1000, either sign.
func c07RandBox(r interface {
	Intn(int) int
	Float64() float64
}, kind int) c07Box {
	if kind == 1 {
		x0, y0 := r.Intn(56)-32, r.Intn(56)-32
		w, h := 1+r.Intn(16), 1+r.Intn(16)
		return c07Box{orb.Bound{Min: orb.Point{float64(x0) / 4, float64(y0) / 4}, Max: orb.Point{float64(x0+w) / 4, float64(y0+h) / 4}}, 1}
	}
	scale := []float64{1, 10, 100, 1000}[r.Intn(4)]
	for {
		x0, y0 := (r.Float64()*2-1)*scale, (r.Float64()*2-1)*scale
		w, h := (0.01+r.Float64())*scale/2, (0.01+r.Float64())*scale/2
		b := orb.Bound{Min: orb.Point{x0, y0}, Max: orb.Point{x0 + w, y0 + h}}
		if b.Min[0] < b.Max[0] && b.Min[1] < b.Max[1] {
			return c07Box{b, 2}
		}
	}
}

// c07Coord places one coordinate relative to [lo, hi]: below, exactly lo, inside, exactly hi, above
// (insideOnly: never outside).  Quarter-grid boxes get quarter-grid offsets (exact coincidences with
// edges, corners and corner diagonals); float boxes get random offsets (general position) but the
// exact edge values lo / hi are copied, so vertices on edges and corners do occur.
func c07Coord(r interface {
	Intn(int) int
	Float64() float64
}, kind int, lo, hi float64, insideOnly bool) float64 {
	cls := r.Intn(11)
	if insideOnly {
		cls = 2 + r.Intn(7)
	}
	w := hi - lo
	switch {
	case cls < 2: // below
		if kind == 1 {
			return lo - float64(1+r.Intn(int(w*4)+4))/4
		}
		return lo - (0.001+r.Float64())*w
	case cls < 4:
		return lo
	case cls < 7: // inside (or on an edge, for the narrowest quarter-grid boxes)
		if kind == 1 {
			return lo + float64(r.Intn(int(w*4)+1))/4
		}
		return lo + r.Float64()*w
	case cls < 9:
		return hi
	default: // above
		if kind == 1 {
			return hi + float64(1+r.Intn(int(w*4)+4))/4
		}
		return hi + (0.001+r.Float64())*w
	}
}

func c07In(b orb.Bound, p orb.Point) bool {
	return b.Min[0] <= p[0] && p[0] <= b.Max[0] && b.Min[1] <= p[1] && p[1] <= b.Max[1]
}

func genC07(c *Ctx) {
	r := c.Rng
	bx := func(x0, y0, x1, y1 int) string {
		return fmt.Sprintf("%s %s %s %s", fb(float64(x0)), fb(float64(y0)), fb(float64(x1)), fb(float64(y1)))
	}
	// exhaustive: all segments on the 7x7 grid against all sub-boxes of the inner 5x5 grid (coordinates 1..5),
	// both options — in every tier, every run (100 boxes x 2401 segments x 2 options, sharded)
	idx := 0
	type box struct{ x0, y0, x1, y1 int }
	var boxes []box
	for x0 := 1; x0 <= 5; x0++ {
		for x1 := x0 + 1; x1 <= 5; x1++ {
			for y0 := 1; y0 <= 5; y0++ {
				for y1 := y0 + 1; y1 <= 5; y1++ {
					boxes = append(boxes, box{x0, y0, x1, y1})
				}
			}
		}
	}
	for _, b := range boxes {
		for ax := 0; ax < 7; ax++ {
			for ay := 0; ay < 7; ay++ {
				for cx := 0; cx < 7; cx++ {
					for cy := 0; cy < 7; cy++ {
						idx++
						if !c.Mine(idx) {
							continue
						}
						for o := 0; o < 2; o++ {
							c.Case("line", fmt.Sprintf("%d %s 2 %s %s %s %s", o, bx(b.x0, b.y0, b.x1, b.y1),
								fb(float64(ax)), fb(float64(ay)), fb(float64(cx)), fb(float64(cy))))
						}
					}
				}
			}
		}
		if c.Exhausted() {
			return
		}
	}
	// thorough tier: ALL two-segment paths on the 7x7 grid against all 100 boxes, both options
	// (100 x 49^3 x 2 = 23.5 million cases, sharded).  The quick tier samples them at random below.
	if c.Tier == "thorough" {
		idx = 0
		for _, b := range boxes {
			bt := bx(b.x0, b.y0, b.x1, b.y1)
			for a := 0; a < 49; a++ {
				for m := 0; m < 49; m++ {
					for e := 0; e < 49; e++ {
						idx++
						if !c.Mine(idx) {
							continue
						}
						for o := 0; o < 2; o++ {
							c.Case("line", fmt.Sprintf("%d %s 3 %s %s %s %s %s %s", o, bt,
								fb(float64(a/7)), fb(float64(a%7)), fb(float64(m/7)), fb(float64(m%7)), fb(float64(e/7)), fb(float64(e%7))))
						}
					}
				}
				if c.Exhausted() {
					return
				}
			}
		}
	}
	// random phase: boxes of three kinds (integer grid / quarter grid incl. negative / general-position
	// floats incl. negative and large), two-segment paths and longer lines, and multi line strings
	randBox := func() c07Box {
		switch k := r.Intn(10); {
		case k < 4:
			b := boxes[r.Intn(len(boxes))]
			return c07Box{orb.Bound{Min: orb.Point{float64(b.x0), float64(b.y0)}, Max: orb.Point{float64(b.x1), float64(b.y1)}}, 0}
		case k < 7:
			return c07RandBox(r, 1)
		default:
			return c07RandBox(r, 2)
		}
	}
	// one line string for the box; `insideOnly`: no vertex outside the closed box (vertices on the
	// boundary and runs along edges included)
	// `place`: 0 = the absolute vertex families of the integer boxes (7x7 grid, half-integer grid,
	// floats in [0,6]); 1 / 2 = placed relative to the box (c07Coord) on the quarter grid / in general position
	randLine := func(b orb.Bound, place int, insideOnly bool) []orb.Point {
		if insideOnly && place == 0 {
			place = 1
		}
		n := 3
		mode := r.Intn(4)
		if mode >= 2 {
			n = 2 + r.Intn(6)
		}
		if r.Intn(40) == 0 {
			n = r.Intn(2)
		}
		ps := make([]orb.Point, n)
		aim := place == 2 && n >= 2 && r.Intn(6) == 0
		for i := range ps {
			switch {
			case aim && i > 0 && c07In(b, ps[i-1]):
				// general position, previous vertex in the closed box: aim the segment through a corner of
				// the box to a point beyond it (the exact line misses the corner by rounding only)
				c := orb.Point{b.Min[0], b.Min[1]}
				if r.Intn(2) == 0 {
					c[0] = b.Max[0]
				}
				if r.Intn(2) == 0 {
					c[1] = b.Max[1]
				}
				t := 0.1 + r.Float64()*3
				ps[i] = orb.Point{c[0] + t*(c[0]-ps[i-1][0]), c[1] + t*(c[1]-ps[i-1][1])}
			case aim && i%2 == 0:
				ps[i] = orb.Point{c07Coord(r, place, b.Min[0], b.Max[0], true), c07Coord(r, place, b.Min[1], b.Max[1], true)}
			case place != 0:
				ps[i] = orb.Point{c07Coord(r, place, b.Min[0], b.Max[0], insideOnly), c07Coord(r, place, b.Min[1], b.Max[1], insideOnly)}
			case mode == 3: // general position floats
				ps[i] = orb.Point{r.Float64() * 6, r.Float64() * 6}
			case mode == 2: // half-integer grid
				ps[i] = orb.Point{float64(r.Intn(13)) / 2, float64(r.Intn(13)) / 2}
			default:
				ps[i] = orb.Point{float64(r.Intn(7)), float64(r.Intn(7))}
			}
			if i > 0 && r.Intn(8) == 0 {
				ps[i] = ps[i-1] // repeated vertex
			}
		}
		return ps
	}
	for k := 0; k < c.Budget && !c.Exhausted(); k++ {
		b := randBox()
		o := r.Intn(2)
		place := b.kind
		if b.kind == 0 && r.Intn(6) == 0 {
			place = 1 // integer box, vertices placed relative to it on the quarter grid
		}
		if r.Intn(5) != 0 {
			c.Case("line", fmt.Sprintf("%d %s %s", o, b.tok(), spts(randLine(b.b, place, r.Intn(12) == 0))))
			continue
		}
		// clip.MultiLineString: 0..4 members; every member is also judged on its own as a `line` case
		n := r.Intn(5)
		if b.kind == 0 && r.Intn(2) == 0 {
			place = 1
		}
		var sb strings.Builder
		sb.WriteString(fmt.Sprint(n))
		members := make([]string, n)
		for i := range members {
			members[i] = spts(randLine(b.b, place, r.Intn(3) == 0))
			sb.WriteString(" ")
			sb.WriteString(members[i])
		}
		c.Case("mls", fmt.Sprintf("%d %s %s", o, b.tok(), sb.String()))
		for _, m := range members {
			c.Case("line", fmt.Sprintf("%d %s %s", o, b.tok(), m))
		}
	}
}
