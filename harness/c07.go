package main

import (
	"fmt"
	"strings"

	"github.com/paulmach/orb"
	"github.com/paulmach/orb/clip"
)

func init() { register(&Prop{ID: "C07", Run: runC07, Gen: genC07}) }

func smls(m orb.MultiLineString) string {
	var sb strings.Builder
	sb.WriteString(fmt.Sprint(len(m)))
	for _, l := range m {
		wPts(&sb, l)
	}
	return sb.String()
}

func runC07(op string, in []string) string {
	return guard(func() string {
		r := &tokReader{t: in}
		switch op {
		case "line":
			open := r.int() == 1
			box := rdBound(r)
			ls := orb.LineString(r.pts())
			before := spts(ls)
			out := clip.LineString(box, ls, clip.OpenBound(open))
			res := smls(out)
			unmod := spts(ls) == before
			// clipping a piece again returns it unchanged
			idem := true
			for _, piece := range out {
				again := clip.LineString(box, piece.Clone(), clip.OpenBound(open))
				if open {
					// in open mode a piece's own endpoints lie on the boundary: compare in closed mode
					again = clip.LineString(box, piece.Clone())
				}
				if len(again) != 1 || spts(again[0]) != spts(piece) {
					idem = false
				}
			}
			return res + " " + b2s(idem) + " " + b2s(unmod)
		}
		return "badop"
	})
}

func genC07(c *Ctx) {
	r := c.Rng
	bx := func(x0, y0, x1, y1 int) string {
		return fmt.Sprintf("%s %s %s %s", fb(float64(x0)), fb(float64(y0)), fb(float64(x1)), fb(float64(y1)))
	}
	// exhaustive: all segments on the 7x7 grid against all sub-boxes of the inner 5x5 grid (coordinates 1..5), both options
	idx := 0
	type box struct{ x0, y0, x1, y1 int }
	var boxes []box
	for x0 := 1; x0 <= 5; x0++ {
		for x1 := x0 + 1; x1 <= 5; x1++ {
			for y0 := 1; y0 <= 5; y0++ {
				for y1 := y0 + 1; y1 <= 5; y1++ {
					boxes = append(boxes, box{x0, y0, x1, y1})
				}
			}
		}
	}
	for _, b := range boxes {
		for ax := 0; ax < 7; ax++ {
			for ay := 0; ay < 7; ay++ {
				for cx := 0; cx < 7; cx++ {
					for cy := 0; cy < 7; cy++ {
						idx++
						if !c.Mine(idx) {
							continue
						}
						if c.Tier != "thorough" && idx%4 != c.Shard%4 && (ax+ay+cx+cy)%3 != 0 {
							continue // quick: a third of the segment space per run
						}
						for o := 0; o < 2; o++ {
							c.Case("line", fmt.Sprintf("%d %s 2 %s %s %s %s", o, bx(b.x0, b.y0, b.x1, b.y1),
								fb(float64(ax)), fb(float64(ay)), fb(float64(cx)), fb(float64(cy))))
						}
					}
				}
			}
		}
		if c.Exhausted() {
			return
		}
	}
	// two-segment paths (thorough: all; quick: random sample) and longer random lines
	n2 := c.Budget
	for k := 0; k < n2 && !c.Exhausted(); k++ {
		b := boxes[r.Intn(len(boxes))]
		n := 3
		mode := r.Intn(4)
		if mode >= 2 {
			n = 2 + r.Intn(6)
		}
		if r.Intn(40) == 0 {
			n = r.Intn(2)
		}
		ps := make([]orb.Point, n)
		for i := range ps {
			switch mode {
			case 3: // general position floats
				ps[i] = orb.Point{r.Float64() * 6, r.Float64() * 6}
			case 2: // half-integer grid
				ps[i] = orb.Point{float64(r.Intn(13)) / 2, float64(r.Intn(13)) / 2}
			default:
				ps[i] = orb.Point{float64(r.Intn(7)), float64(r.Intn(7))}
			}
			if i > 0 && r.Intn(8) == 0 {
				ps[i] = ps[i-1] // repeated vertex
			}
		}
		c.Case("line", fmt.Sprintf("%d %s %s", r.Intn(2), bx(b.x0, b.y0, b.x1, b.y1), spts(ps)))
	}
}
