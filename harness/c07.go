package main

import (
	"fmt"
	"os"
	"os/exec"
	"strings"
	"time"

	"github.com/paulmach/orb"
	"github.com/paulmach/orb/clip"
)

const c07ProbeEnv = "ORBVERIF_C07_PROBE"

func init() {
	// probe mode (see c07Returns): make the bare clip calls of the case described by the environment variable and exit
	if probe := os.Getenv(c07ProbeEnv); probe != "" {
		f := strings.Fields(probe)
		c07Call(f[0], f[1:])
		os.Exit(0)
	}
	register(&Prop{ID: "C07", Run: runC07, Gen: genC07})
}

// ---- option lists --------------------------------------------------------------------------------
//
// clip.LineString / clip.MultiLineString take `opts ...clip.Option`; the only option is clip.OpenBound(yes).
// The code runs the options in list order over a fresh options value, so the LAST one wins and no option
// means the closed bound (model: lean/Orb/ClipOptions.lean, theorems options_* in OrbProofs/C07.lean).
// The property speaks of "the option" — the request, not its spelling — so every real call of this file is
// made with one of the many spellings of the request:
//
//   * a case carries the request (0 closed, 1 open) as its first token; the spelling is chosen per case from
//     c07Spell by a hash of the case's tokens (deterministic: a replayed line makes the same calls);
//   * or the case carries the option list itself as trailing tokens `<k> <b_1> … <b_k>` (k = 0: the
//     option-less call), and that list is passed; the driver computes the request with the model
//     `applyOptions` (and answers `bad` if the first token says otherwise).
//
// CALL HISTORY MUST NOT MATTER: before the real call of EVERY case a decoy call is made on clones of the
// same input with the OPPOSITE request (through both entry points), so a flag that survives a call
// (a shared default options value, a cached result keyed without the option) shows on the next line.
// The idempotence re-clip of a piece is made option-less (closed bound) — directly after a call that may
// have asked for the open bound.

// c07Spell[request]: every list of at most three options with that effective value (and the empty list).
var c07Spell = [2][][]int{
	{{}, {0}, {0, 0}, {1, 0}, {0, 0, 0}, {0, 1, 0}, {1, 0, 0}, {1, 1, 0}},
	{{1}, {0, 1}, {1, 1}, {0, 0, 1}, {0, 1, 1}, {1, 0, 1}, {1, 1, 1}},
}

func c07Opts(bits []int) []clip.Option {
	if len(bits) == 0 {
		return nil // `clip.LineString(box, ls)`: no option at all
	}
	opts := make([]clip.Option, len(bits))
	for i, b := range bits {
		opts[i] = clip.OpenBound(b == 1)
	}
	return opts
}

func c07Hash(in []string) uint64 {
	h := uint64(14695981039346656037)
	for _, t := range in {
		for i := 0; i < len(t); i++ {
			h = (h ^ uint64(t[i])) * 1099511628211
		}
		h = (h ^ ' ') * 1099511628211
	}
	return h ^ h>>29
}

// c07Case is a parsed case: the option list of the real call, the (differently spelled) lists of the
// member-wise / repeated calls, the decoy's list, the box and the line strings.
type c07Case struct {
	multi bool
	opts  []int
	alt   func(i int) []int // another spelling of the same request
	decoy []int             // a spelling of the opposite request
	box   orb.Bound
	lines orb.MultiLineString
}

func c07Parse(op string, in []string) c07Case {
	r := &tokReader{t: in}
	h := c07Hash(in)
	var cs c07Case
	req := r.int() & 1
	cs.opts = c07Spell[req][h%uint64(len(c07Spell[req]))]
	cs.box = rdBound(r)
	if op == "line" {
		cs.lines = orb.MultiLineString{orb.LineString(r.pts())}
	} else {
		cs.multi = true
		cs.lines = make(orb.MultiLineString, r.int())
		for i := range cs.lines {
			cs.lines[i] = orb.LineString(r.pts())
		}
	}
	if len(r.rest()) > 0 { // an explicit option list
		cs.opts = make([]int, r.int())
		for i := range cs.opts {
			cs.opts[i] = r.int() & 1
		}
		req = 0
		if n := len(cs.opts); n > 0 {
			req = cs.opts[n-1]
		}
	}
	cs.alt = func(i int) []int {
		return c07Spell[req][(h>>11+uint64(i))%uint64(len(c07Spell[req]))]
	}
	cs.decoy = c07Spell[1-req][(h>>23)%uint64(len(c07Spell[1-req]))]
	return cs
}

// c07Decoy: the same input (clones), the opposite request, both entry points.  Results are dropped.
func c07Decoy(cs c07Case) {
	for _, ls := range cs.lines {
		clip.LineString(cs.box, ls.Clone(), c07Opts(cs.decoy)...)
	}
	clip.MultiLineString(cs.box, cs.lines.Clone(), c07Opts(cs.decoy)...)
}

// c07Call makes the clip calls of a case (decoy, then the real call) and nothing else.
func c07Call(op string, in []string) {
	cs := c07Parse(op, in)
	c07Decoy(cs)
	if !cs.multi {
		clip.LineString(cs.box, cs.lines[0], c07Opts(cs.opts)...)
		return
	}
	clip.MultiLineString(cs.box, cs.lines, c07Opts(cs.opts)...)
}

func smls(m orb.MultiLineString) string {
	var sb strings.Builder
	sb.WriteString(fmt.Sprint(len(m)))
	for _, l := range m {
		wPts(&sb, l)
	}
	return sb.String()
}

func runC07(op string, in []string) string {
	return guard(func() string {
		switch op {
		case "line":
			cs := c07Parse(op, in)
			ls := cs.lines[0]
			before := spts(ls)
			if !c07Returns(cs, op, in) {
				return "hang"
			}
			c07Decoy(cs)
			out := clip.LineString(cs.box, ls, c07Opts(cs.opts)...)
			res := smls(out)
			unmod := spts(ls) == before
			// clipping a piece again returns it unchanged
			idem := true
			for _, piece := range out {
				// (a piece's own end points lie on the boundary, so the comparison is made with the closed
				// bound in both modes — here by the OPTION-LESS call, right after a call that may have asked for
				// the open bound; all its vertices have region code 0, no intersection is computed)
				again := clip.LineString(cs.box, piece.Clone())
				if len(again) != 1 || spts(again[0]) != spts(piece) {
					idem = false
				}
			}
			return res + " " + b2s(idem) + " " + b2s(unmod)
		case "mls":
			// the second entry point: clip.MultiLineString; alongside, clip.LineString of every member (on a
			// clone) with the same request spelled differently
			cs := c07Parse(op, in)
			mls := cs.lines
			before := smls(mls)
			if !c07Returns(cs, op, in) {
				return "hang"
			}
			c07Decoy(cs)
			out := clip.MultiLineString(cs.box, mls, c07Opts(cs.opts)...)
			res := smls(out)
			unmod := smls(mls) == before
			var sb strings.Builder
			sb.WriteString(fmt.Sprint(len(mls)))
			for i, ls := range mls {
				sb.WriteString(" ")
				sb.WriteString(smls(clip.LineString(cs.box, ls.Clone(), c07Opts(cs.alt(i))...)))
			}
			return res + " " + b2s(unmod) + " " + sb.String()
		}
		return "badop"
	})
}

// The watchdog's limits.  A case is a hang when the CHILD HAS BURNT c07CPULimit of CPU time
// (/proc/<pid>/stat, utime + stime) — a non-terminating loop spins — not when wall time has passed: the
// former 10 s wall-clock limit reported `hang` for a child that, on a machine with load > 200, had not
// been scheduled yet (the case replayed `ok`).  A child that neither exits nor computes is given
// c07WallCap as a last resort.  Without /proc the limit is wall time only.
const (
	c07CPULimit = 10 * time.Second
	c07WallCap  = 10 * time.Minute
)

// CPU time (user + system) consumed so far by process pid; ok = false when /proc is not available
func c07ProcCPU(pid int) (time.Duration, bool) {
	data, err := os.ReadFile(fmt.Sprintf("/proc/%d/stat", pid))
	if err != nil {
		return 0, false
	}
	str := string(data)
	i := strings.LastIndexByte(str, ')')
	if i < 0 {
		return 0, false
	}
	f := strings.Fields(str[i+1:])
	if len(f) < 13 {
		return 0, false
	}
	var ut, st int64
	if _, err := fmt.Sscan(f[11], &ut); err != nil {
		return 0, false
	}
	if _, err := fmt.Sscan(f[12], &st); err != nil {
		return 0, false
	}
	return time.Duration(ut+st) * (time.Second / 100), true // USER_HZ = 100
}

// c07Returns reports whether the real clip calls of the case (op, in) return: the watchdog for the loop of
// clip.line.  Before the rounding guard was added (finding C07-corner-rounding-nontermination, fixed:
// an end point is clipped at most twice, then snapped onto the box) the loop could alternate for ever
// between two edges at a corner.  A looping goroutine cannot be stopped, so normally the caller just
// makes the calls itself — no timeout, no false alarm on a loaded machine.  Only when a replica of the
// loop WITHOUT the guard, with the same float arithmetic (c07Cycles; in either mode, the decoy call uses
// the other one), does not leave the loop — exactly the inputs on which the guard matters — the REAL
// calls are first made in a child process (this executable in probe mode) that is killed once it has
// used c07CPULimit of CPU time: the outcome `hang` is what was actually observed of the real code (the
// driver answers `propfail hang`), and nothing is left spinning.
func c07Returns(cs c07Case, op string, in []string) bool {
	predicted := false
	for _, ls := range cs.lines {
		if c07Cycles(cs.box, ls, false) || c07Cycles(cs.box, ls, true) {
			predicted = true
		}
	}
	if !predicted {
		return true
	}
	exe, err := os.Executable()
	if err != nil {
		panic(err)
	}
	cmd := exec.Command(exe)
	cmd.Env = append(os.Environ(), c07ProbeEnv+"="+op+" "+strings.Join(in, " "))
	if err := cmd.Start(); err != nil {
		panic(err)
	}
	done := make(chan error, 1)
	go func() { done <- cmd.Wait() }()
	t0 := time.Now()
	tick := time.NewTicker(100 * time.Millisecond)
	defer tick.Stop()
	_, haveCPU := c07ProcCPU(cmd.Process.Pid)
	for {
		select {
		case err := <-done:
			if err != nil {
				panic(fmt.Sprint("probe: ", err)) // the real call crashed in the child: outcome `panic`
			}
			return true
		case <-tick.C:
			hung := time.Since(t0) > c07WallCap
			if cpu, ok := c07ProcCPU(cmd.Process.Pid); ok && cpu >= c07CPULimit {
				hung = true
			}
			if !haveCPU && time.Since(t0) > 10*c07CPULimit {
				hung = true
			}
			if hung {
				cmd.Process.Kill()
				<-done
				return false
			}
		}
	}
}

func c07Code(b orb.Bound, p orb.Point, open bool) int {
	code := 0
	if open {
		if p[0] <= b.Min[0] {
			code |= 1
		} else if p[0] >= b.Max[0] {
			code |= 2
		}
		if p[1] <= b.Min[1] {
			code |= 4
		} else if p[1] >= b.Max[1] {
			code |= 8
		}
		return code
	}
	if p[0] < b.Min[0] {
		code |= 1
	} else if p[0] > b.Max[0] {
		code |= 2
	}
	if p[1] < b.Min[1] {
		code |= 4
	} else if p[1] > b.Max[1] {
		code |= 8
	}
	return code
}

// c07Cycles: does the inner loop of clip.line, taken WITHOUT its two-clips-per-end guard, fail to finish
// within 64 rounds on some segment of ls?  (Exact arithmetic needs at most four.)  Used only to decide
// HOW the real code is called.
func c07Cycles(box orb.Bound, ls orb.LineString, open bool) bool {
	for i := 1; i < len(ls); i++ {
		a, b := ls[i-1], ls[i]
		codeA, codeB := c07Code(box, a, open), c07Code(box, b, open)
		n := 0
		for ; n < 64; n++ {
			if codeA|codeB == 0 || codeA&codeB != 0 {
				break
			}
			edge, moveA := codeB, false
			if codeA != 0 {
				edge, moveA = codeA, true
			}
			var p orb.Point
			switch {
			case edge&8 != 0:
				p = orb.Point{a[0] + (b[0]-a[0])*(box.Max[1]-a[1])/(b[1]-a[1]), box.Max[1]}
			case edge&4 != 0:
				p = orb.Point{a[0] + (b[0]-a[0])*(box.Min[1]-a[1])/(b[1]-a[1]), box.Min[1]}
			case edge&2 != 0:
				p = orb.Point{box.Max[0], a[1] + (b[1]-a[1])*(box.Max[0]-a[0])/(b[0]-a[0])}
			default:
				p = orb.Point{box.Min[0], a[1] + (b[1]-a[1])*(box.Min[0]-a[0])/(b[0]-a[0])}
			}
			if moveA {
				a, codeA = p, c07Code(box, p, false)
			} else {
				b, codeB = p, c07Code(box, p, false)
			}
		}
		if n == 64 {
			return true
		}
	}
	return false
}

// c07Box is a clip box together with the recipe for placing vertices relative to it.
type c07Box struct {
	b    orb.Bound
	kind int // 0: integer grid 1..5 (vertices on the 7x7 grid), 1: quarter grid, negative corners allowed, 2: general-position floats
}

func (x c07Box) tok() string {
	return fmt.Sprintf("%s %s %s %s", fb(x.b.Min[0]), fb(x.b.Min[1]), fb(x.b.Max[0]), fb(x.b.Max[1]))
}

// c07RandBox draws a box with non-integer and negative corners.
//
//	kind 1: corners on the quarter grid in [-8, 8] (the placement arithmetic below is exact on it, so
//	        vertices land exactly on edges, corners and on lines through corners);
//	kind 2: general-position float corners, magnitude up to 1, 10, 100 or 1000, either sign.
func c07RandBox(r clipRng, kind int) c07Box {
	if kind == 1 {
		x0, y0 := r.Intn(56)-32, r.Intn(56)-32
		w, h := 1+r.Intn(16), 1+r.Intn(16)
		return c07Box{orb.Bound{Min: orb.Point{float64(x0) / 4, float64(y0) / 4}, Max: orb.Point{float64(x0+w) / 4, float64(y0+h) / 4}}, 1}
	}
	scale := []float64{1, 10, 100, 1000}[r.Intn(4)]
	for {
		x0, y0 := (r.Float64()*2-1)*scale, (r.Float64()*2-1)*scale
		w, h := (0.01+r.Float64())*scale/2, (0.01+r.Float64())*scale/2
		b := orb.Bound{Min: orb.Point{x0, y0}, Max: orb.Point{x0 + w, y0 + h}}
		if b.Min[0] < b.Max[0] && b.Min[1] < b.Max[1] {
			return c07Box{b, 2}
		}
	}
}

// c07Coord places one coordinate relative to [lo, hi]: below, exactly lo, inside, exactly hi, above, or a
// NEAR MISS of lo / hi (clipnear.go: one ulp, a few ulps, 1e-15 .. 1e-7 inside or outside the edge)
// (insideOnly: never outside).  Quarter-grid boxes get quarter-grid offsets (exact coincidences with
// edges, corners and corner diagonals); float boxes get random offsets (general position) but the
// exact edge values lo / hi are copied, so vertices on edges and corners do occur.
func c07Coord(r clipRng, kind int, lo, hi float64, insideOnly bool) float64 {
	cls := r.Intn(14)
	if insideOnly {
		cls = 2 + r.Intn(7)
		if r.Intn(5) == 0 {
			cls = 11
		}
	}
	w := hi - lo
	switch {
	case cls >= 11: // near miss of an edge, inside or outside
		return clipNearCoord(r, lo, hi, insideOnly)
	case cls < 2: // below
		if kind == 1 {
			return lo - float64(1+r.Intn(int(w*4)+4))/4
		}
		return lo - (0.001+r.Float64())*w
	case cls < 4:
		return lo
	case cls < 7: // inside (or on an edge, for the narrowest quarter-grid boxes)
		if kind == 1 {
			return lo + float64(r.Intn(int(w*4)+1))/4
		}
		return lo + r.Float64()*w
	case cls < 9:
		return hi
	default: // above
		if kind == 1 {
			return hi + float64(1+r.Intn(int(w*4)+4))/4
		}
		return hi + (0.001+r.Float64())*w
	}
}

// c07NearBoxes: the boxes of the deterministic near-miss sweep (integer, quarter grid with negative corners,
// the unit square, general position, large magnitude).
var c07NearBoxes = []orb.Bound{
	{Min: orb.Point{1, 2}, Max: orb.Point{3, 5}},
	{Min: orb.Point{-1.75, 0.25}, Max: orb.Point{-0.5, 2}},
	{Min: orb.Point{0, 0}, Max: orb.Point{1, 1}},
	{Min: orb.Point{0.3137066217615, -7.7713900482}, Max: orb.Point{2.90210746105, -6.1000000000001}},
	{Min: orb.Point{100.1, -1000.3}, Max: orb.Point{250.7, -999.1}},
}

// genC07Near: for every box above, axis, edge (lo / hi) and offset of clipNearOffsets (1, 2, 5 ulps, 1e-15 .. 1e-7,
// inside and outside: up to 24 per edge): a vertex P with that coordinate — the other coordinate inside, exactly on an edge
// of the other axis, or the same near miss of it (next to a corner) — in five line shapes (into P, out of
// P, a run parallel to the edge at that distance, across the whole box ending in P, an excursion to P),
// both requests.  About 14 000 cases, in every tier and run (sharded).
func genC07Near(c *Ctx) {
	idx := 0
	for _, b := range c07NearBoxes {
		bt := fmt.Sprintf("%s %s %s %s", fb(b.Min[0]), fb(b.Min[1]), fb(b.Max[0]), fb(b.Max[1]))
		for axis := 0; axis < 2; axis++ {
			o := 1 - axis
			mid := orb.Point{b.Min[0] + (b.Max[0]-b.Min[0])*0.375, b.Min[1] + (b.Max[1]-b.Min[1])*0.625}
			mid2 := orb.Point{b.Min[0] + (b.Max[0]-b.Min[0])*0.75, b.Min[1] + (b.Max[1]-b.Min[1])*0.25}
			for edge := 0; edge < 2; edge++ {
				e, far := b.Min[axis], b.Max[axis]+(b.Max[axis]-b.Min[axis])
				eo := b.Min[o]
				if edge == 1 {
					e, far = b.Max[axis], b.Min[axis]-(b.Max[axis]-b.Min[axis])
					eo = b.Max[o]
				}
				offs, offsO := clipNearOffsets(e), clipNearOffsets(eo)
				for k, v := range offs {
					idx++
					if !c.Mine(idx) {
						continue
					}
					for other := 0; other < 3; other++ {
						var p, q, fr orb.Point
						p[axis], q[axis], fr[axis] = v, v, far
						switch other {
						case 0:
							p[o] = mid[o]
						case 1:
							p[o] = eo
						default:
							p[o] = offsO[k%len(offsO)]
						}
						q[o] = mid2[o]
						fr[o] = mid[o]
						for _, l := range [][]orb.Point{{mid, p}, {p, mid}, {p, q}, {fr, p}, {mid, p, mid2}} {
							for req := 0; req < 2; req++ {
								c.Case("line", fmt.Sprintf("%d %s %s", req, bt, spts(l)))
							}
						}
					}
				}
			}
		}
	}
}

// genC07Options: every option list of length 0 .. 4 (31 lists) against lines on which the two requests
// differ (a run along an edge, a vertex on the boundary, a corner touch) and lines on which they agree,
// through both entry points.
func genC07Options(c *Ctx) {
	type wit struct {
		box string
		ls  [][]orb.Point
	}
	f := func(v ...float64) string {
		t := make([]string, len(v))
		for i, x := range v {
			t[i] = fb(x)
		}
		return strings.Join(t, " ")
	}
	wits := []wit{
		{f(0, 0, 2, 2), [][]orb.Point{{{1, 1}, {2, 1}, {2, 2}, {3, 3}}, {{-1, 1}, {3, 1}}}},
		{f(1, 1, 3, 3), [][]orb.Point{{{2, 2}, {3, 2}, {2, 1.5}}, {{1, 0}, {1, 4}}, {{0, 0}, {4, 4}}}},
		{f(-1.5, -0.25, 0.5, 2), [][]orb.Point{{{-1.5, -0.25}, {0.5, -0.25}, {0.5, 2}}, {{-1, 0}, {0, 1}}, {{-3, 3}, {1, -1}}}},
		{f(0.1, 0.2, 0.7, 0.9), [][]orb.Point{{{0.1, 0.5}, {0.4, 0.9}, {0.7, 0.5}, {0.4, 0.2}, {0.1, 0.5}}, {{0, 0.2}, {1, 0.2}}}},
	}
	idx := 0
	for n := 0; n <= 4; n++ {
		for m := 0; m < 1<<n; m++ {
			idx++
			if !c.Mine(idx) {
				continue
			}
			bits := make([]string, n)
			req := 0 // the generator's own reading of the list (the driver checks it against the model)
			for i := range bits {
				bits[i] = fmt.Sprint(m >> i & 1)
				req = m >> i & 1
			}
			ol := strings.TrimSpace(fmt.Sprintf("%d %s", n, strings.Join(bits, " ")))
			for _, w := range wits {
				var sb strings.Builder
				sb.WriteString(fmt.Sprint(len(w.ls)))
				for _, l := range w.ls {
					c.Case("line", fmt.Sprintf("%d %s %s %s", req, w.box, spts(l), ol))
					sb.WriteString(" ")
					sb.WriteString(spts(l))
				}
				c.Case("mls", fmt.Sprintf("%d %s %s %s", req, w.box, sb.String(), ol))
			}
		}
	}
}

func c07In(b orb.Bound, p orb.Point) bool {
	return b.Min[0] <= p[0] && p[0] <= b.Max[0] && b.Min[1] <= p[1] && p[1] <= b.Max[1]
}

func genC07(c *Ctx) {
	r := c.Rng
	bx := func(x0, y0, x1, y1 int) string {
		return fmt.Sprintf("%s %s %s %s", fb(float64(x0)), fb(float64(y0)), fb(float64(x1)), fb(float64(y1)))
	}
	// fixed families (every tier, every run, sharded): all short option lists; the near-miss sweep
	genC07Options(c)
	genC07Near(c)
	// exhaustive: all segments on the 7x7 grid against all sub-boxes of the inner 5x5 grid (coordinates 1..5),
	// both options — in every tier, every run (100 boxes x 2401 segments x 2 options, sharded)
	idx := 0
	type box struct{ x0, y0, x1, y1 int }
	var boxes []box
	for x0 := 1; x0 <= 5; x0++ {
		for x1 := x0 + 1; x1 <= 5; x1++ {
			for y0 := 1; y0 <= 5; y0++ {
				for y1 := y0 + 1; y1 <= 5; y1++ {
					boxes = append(boxes, box{x0, y0, x1, y1})
				}
			}
		}
	}
	for _, b := range boxes {
		for ax := 0; ax < 7; ax++ {
			for ay := 0; ay < 7; ay++ {
				for cx := 0; cx < 7; cx++ {
					for cy := 0; cy < 7; cy++ {
						idx++
						if !c.Mine(idx) {
							continue
						}
						for o := 0; o < 2; o++ {
							c.Case("line", fmt.Sprintf("%d %s 2 %s %s %s %s", o, bx(b.x0, b.y0, b.x1, b.y1),
								fb(float64(ax)), fb(float64(ay)), fb(float64(cx)), fb(float64(cy))))
						}
					}
				}
			}
		}
		if c.Exhausted() {
			return
		}
	}
	// thorough tier: ALL two-segment paths on the 7x7 grid against all 100 boxes, both options
	// (100 x 49^3 x 2 = 23.5 million cases, sharded).  The quick tier samples them at random below.
	if c.Tier == "thorough" {
		idx = 0
		for _, b := range boxes {
			bt := bx(b.x0, b.y0, b.x1, b.y1)
			for a := 0; a < 49; a++ {
				for m := 0; m < 49; m++ {
					for e := 0; e < 49; e++ {
						idx++
						if !c.Mine(idx) {
							continue
						}
						for o := 0; o < 2; o++ {
							c.Case("line", fmt.Sprintf("%d %s 3 %s %s %s %s %s %s", o, bt,
								fb(float64(a/7)), fb(float64(a%7)), fb(float64(m/7)), fb(float64(m%7)), fb(float64(e/7)), fb(float64(e%7))))
						}
					}
				}
				if c.Exhausted() {
					return
				}
			}
		}
	}
	// random phase: boxes of three kinds (integer grid / quarter grid incl. negative / general-position
	// floats incl. negative and large), two-segment paths and longer lines, and multi line strings
	randBox := func() c07Box {
		switch k := r.Intn(10); {
		case k < 4:
			b := boxes[r.Intn(len(boxes))]
			return c07Box{orb.Bound{Min: orb.Point{float64(b.x0), float64(b.y0)}, Max: orb.Point{float64(b.x1), float64(b.y1)}}, 0}
		case k < 7:
			return c07RandBox(r, 1)
		default:
			return c07RandBox(r, 2)
		}
	}
	// one line string for the box; `insideOnly`: no vertex outside the closed box (vertices on the
	// boundary and runs along edges included)
	// `place`: 0 = the absolute vertex families of the integer boxes (7x7 grid, half-integer grid,
	// floats in [0,6]); 1 / 2 = placed relative to the box (c07Coord) on the quarter grid / in general position
	randLine := func(b orb.Bound, place int, insideOnly bool) []orb.Point {
		if insideOnly && place == 0 {
			place = 1
		}
		n := 3
		mode := r.Intn(4)
		if mode >= 2 {
			n = 2 + r.Intn(6)
		}
		if r.Intn(40) == 0 {
			n = r.Intn(2)
		}
		ps := make([]orb.Point, n)
		aim := place == 2 && n >= 2 && r.Intn(6) == 0
		for i := range ps {
			switch {
			case aim && i > 0 && c07In(b, ps[i-1]):
				// general position, previous vertex in the closed box: aim the segment through a corner of
				// the box to a point beyond it (the exact line misses the corner by rounding only)
				c := orb.Point{b.Min[0], b.Min[1]}
				if r.Intn(2) == 0 {
					c[0] = b.Max[0]
				}
				if r.Intn(2) == 0 {
					c[1] = b.Max[1]
				}
				t := 0.1 + r.Float64()*3
				ps[i] = orb.Point{c[0] + t*(c[0]-ps[i-1][0]), c[1] + t*(c[1]-ps[i-1][1])}
			case aim && i%2 == 0:
				ps[i] = orb.Point{c07Coord(r, place, b.Min[0], b.Max[0], true), c07Coord(r, place, b.Min[1], b.Max[1], true)}
			case place != 0:
				ps[i] = orb.Point{c07Coord(r, place, b.Min[0], b.Max[0], insideOnly), c07Coord(r, place, b.Min[1], b.Max[1], insideOnly)}
			case mode == 3: // general position floats
				ps[i] = orb.Point{r.Float64() * 6, r.Float64() * 6}
			case mode == 2: // half-integer grid
				ps[i] = orb.Point{float64(r.Intn(13)) / 2, float64(r.Intn(13)) / 2}
			default:
				ps[i] = orb.Point{float64(r.Intn(7)), float64(r.Intn(7))}
			}
			if i > 0 && r.Intn(8) == 0 {
				ps[i] = ps[i-1] // repeated vertex
			}
		}
		// near misses for every family (the relative placement draws them per coordinate as well): one vertex
		// in a while is moved next to an edge or a corner of the box
		if len(ps) > 0 && r.Intn(6) == 0 {
			for k := 1 + r.Intn(2); k > 0; k-- {
				i := r.Intn(len(ps))
				ps[i] = clipNudgePoint(r, b, ps[i], insideOnly)
			}
		}
		return ps
	}
	// an option list for the ops that carry one: 0 .. 6 entries, any values (0: the option-less call)
	randOpts := func() (req int, list string) {
		n := r.Intn(7)
		if r.Intn(4) == 0 {
			n = 0
		}
		t := []string{fmt.Sprint(n)}
		for i := 0; i < n; i++ {
			req = r.Intn(2)
			t = append(t, fmt.Sprint(req))
		}
		return req, strings.Join(t, " ")
	}
	for k := 0; k < c.Budget && !c.Exhausted(); k++ {
		b := randBox()
		o := r.Intn(2)
		place := b.kind
		if b.kind == 0 && r.Intn(6) == 0 {
			place = 1 // integer box, vertices placed relative to it on the quarter grid
		}
		if r.Intn(5) != 0 {
			l := spts(randLine(b.b, place, r.Intn(12) == 0))
			c.Case("line", fmt.Sprintf("%d %s %s", o, b.tok(), l))
			if r.Intn(3) == 0 { // the same line with an explicit option list
				req, list := randOpts()
				c.Case("line", fmt.Sprintf("%d %s %s %s", req, b.tok(), l, list))
			}
			continue
		}
		// clip.MultiLineString: 0..4 members; every member is also judged on its own as a `line` case
		n := r.Intn(5)
		if b.kind == 0 && r.Intn(2) == 0 {
			place = 1
		}
		var sb strings.Builder
		sb.WriteString(fmt.Sprint(n))
		members := make([]string, n)
		for i := range members {
			members[i] = spts(randLine(b.b, place, r.Intn(3) == 0))
			sb.WriteString(" ")
			sb.WriteString(members[i])
		}
		c.Case("mls", fmt.Sprintf("%d %s %s", o, b.tok(), sb.String()))
		if r.Intn(2) == 0 {
			req, list := randOpts()
			c.Case("mls", fmt.Sprintf("%d %s %s %s", req, b.tok(), sb.String(), list))
		}
		for _, m := range members {
			c.Case("line", fmt.Sprintf("%d %s %s", o, b.tok(), m))
		}
	}
}
