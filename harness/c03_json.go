package main

// C03 — property values that travel as JSON text (slices, maps, everything uncomparable).
//
// Token  j:<shape>:<hstr json text>[:<arg>…]  for the x-shapes below: the VALUE is rebuilt from the
// args (raw byte strings as hex, integers in decimal, floats as bit patterns) — not parsed back from
// the text, so elements that JSON cannot carry unchanged (invalid UTF-8, control characters, the
// characters encoding/json escapes, -0, named slice types, pointers, Marshaler types) reach
// mvt.Marshal as they are.  The text is computed by the generator with encoding/json (which is
// what the property promises for such values) and checked again by Run; the driver recomputes it
// on its own for the shapes whose text it can derive (strings and integers: Driver/C03.lean,
// `jsonArgsOK`).

import (
	"encoding/json"
	"fmt"
	"math"
	"math/rand"
	"strconv"
	"strings"
	"unicode/utf8"

	"github.com/paulmach/orb"
)

// c03JStrPool: what a hand-written string encoder gets wrong.
var c03JStrPool = func() []string {
	out := []string{
		"", "a", "q r", `"`, `\`, "/", "<", ">", "&", "'", "a<b", "x>y", "R&D", "</script>", `say "hi"`, `back\slash`, `A`, `\n`,
		"\x7f", "del\x7fete", "\u0080", "\u009f", "\u00a0", "é", "日本語", "\u2028", "\u2029", "a\u2028b\u2029c", "\u2027", "\u202a", "\ufffd", "\ufeff",
		"😀", "\U0010ffff", "a😀b", "\xff", "\xc3", "a\x80b", "\xed\xa0\x80", "\xc0\xaf", "\xf8\x88\x80\x80\x80", "\xe2\x80", "\xf0\x9f\x98", "\xf4\x90\x80\x80", "ok\xffok\xfe",
		"null", "true", "1", "-0", "1e3", "[]", "{}", `["a"]`, `{"a":1}`, " ", "  lead", "trail  ", "tab\there", "line\nfeed", "cr\rlf\n", "\b\f", "\x1b[0m",
		"ctrl\x01", "nul\x00nul", strings.Repeat("<&>", 40), strings.Repeat("é\x01\"", 30),
	}
	for b := 0; b < 0x20; b++ {
		out = append(out, string([]byte{byte(b)}))
	}
	return out
}()

var c03JIntPool = []int64{0, 1, -1, 2, 7, 10, -10, 99, 100, 127, 128, -128, -129, 255, 256, 32767, 32768, -32768, 65535, 65536,
	1 << 31, 1<<31 - 1, -(1 << 31), 1<<32 - 1, 1 << 32, 1<<53 - 1, 1 << 53, 1<<53 + 1, -(1<<53 + 1), 1000000000000000000, 999999999999999999,
	math.MaxInt64, math.MinInt64, math.MaxInt64 - 1, math.MinInt64 + 1, 1234567890123456789, -1234567890123456789}

var c03JUintPool = []uint64{0, 1, 9, 10, 255, 256, 65535, 65536, 1<<32 - 1, 1 << 32, 1<<53 + 1, 1 << 63, 1<<63 - 1, math.MaxUint64, math.MaxUint64 - 1, 10000000000000000000, 9999999999999999999}

// finite floats whose JSON text needs an exponent, many digits, or a sign on zero
var c03JF64Pool = []uint64{
	0x0000000000000000, 0x8000000000000000, 0x3ff0000000000000, 0xbff0000000000000, 0x3fb999999999999a, 0x3fd5555555555555, 0x4004000000000000,
	0x444b1ae4d6e2ef50, 0x444b1ae4d6e2ef4f, 0x4415af1d78b58c40, 0x3eb0c6f7a0b5ed8d, 0x3eb0c6f7a0b5ed8c, 0x3e7ad7f29abcaf48, 0x3e8421f5f40d8376,
	0x4340000000000000, 0x4340000000000001, 0x433fffffffffffff, 0x0000000000000001, 0x000fffffffffffff, 0x0010000000000000, 0x7fefffffffffffff, 0xffefffffffffffff,
	0x419d6f34547e0000, 0x3ff0000000000001, 0x400921fb54442d18, 0xc05edd3c07ee0b0b, 0x7e37e43c8800759c, 0x01a56e1fc2f8f359,
}

var c03JF32Pool = []uint32{0x00000000, 0x80000000, 0x3f800000, 0x3dcccccd, 0x3eaaaaab, 0x4b800000, 0x4b800001, 0x7f7fffff, 0x00000001, 0x00800000, 0x60ad78ec, 0x33d6bf95, 0x358637bd, 0x358637be, 0xc2f6e979, 0x5a0e1bca}

type c03JNamed []string

type c03JStruct struct {
	Tags  []string `json:"tags"`
	Name  string   `json:"name"`
	Inner map[string]string
}

// c03JM is a Marshaler: its text is its own business (compacted and HTML-escaped by encoding/json)
type c03JM []string

func (m c03JM) MarshalJSON() ([]byte, error) {
	inner, err := json.Marshal([]string(m))
	if err != nil {
		return nil, err
	}
	return []byte(`{ "n" : ` + strconv.Itoa(len(m)) + `, "v" : ` + string(inner) + ` }`), nil
}

// c03JRawTexts: valid JSON texts for json.RawMessage (a []byte type with MarshalJSON)
var c03JRawTexts = []string{`{"a":"<b>"}`, `[1, 2 ,3]`, "\"\u2028\"", ` { "k" : [ true , null ] } `, `"a&b"`, `1e400`, `-0`, `"\u2029"`, `"😀"`, "\"tab\\there\""}

func c03JArgsH(ss []string) []string {
	out := make([]string, len(ss))
	for i, s := range ss {
		out[i] = c03H(s)
	}
	return out
}

func c03JUnH(args []string) []string {
	out := make([]string, len(args))
	for i, a := range args {
		out[i] = c03UnH(a)
	}
	return out
}

func c03JInts(args []string) []int64 {
	out := make([]int64, len(args))
	for i, a := range args {
		v, err := strconv.ParseInt(a, 10, 64)
		if err != nil {
			panic(err)
		}
		out[i] = v
	}
	return out
}

func c03JUints(args []string) []uint64 {
	out := make([]uint64, len(args))
	for i, a := range args {
		v, err := strconv.ParseUint(a, 10, 64)
		if err != nil {
			panic(err)
		}
		out[i] = v
	}
	return out
}

// c03JBuild makes the Go value of an x-shape from its args; ok=false for an unknown shape.
func c03JBuild(shape string, args []string) (v interface{}, ok bool) {
	ok = true
	switch shape {
	// ---- strings
	case "xstrs":
		v = c03JUnH(args) // non-nil also when empty
	case "xnamed":
		v = c03JNamed(c03JUnH(args))
	case "xany":
		x := make([]interface{}, len(args))
		for i, s := range c03JUnH(args) {
			x[i] = s
		}
		v = x
	case "xptrs":
		ss := c03JUnH(args)
		x := make([]*string, len(ss))
		for i := range ss {
			if i%3 != 2 {
				x[i] = &ss[i]
			}
		}
		v = x
	case "xmss":
		ss := c03JUnH(args)
		x := map[string]string{}
		for i := 0; i+1 < len(ss); i += 2 {
			x[ss[i]] = ss[i+1]
		}
		if len(ss)%2 == 1 {
			x[ss[len(ss)-1]] = ""
		}
		v = x
	case "xmsa":
		ss := c03JUnH(args)
		x := map[string]interface{}{}
		for i, s := range ss {
			if i%2 == 0 {
				x[s] = ss[(i+1)%len(ss)]
			} else {
				x[s] = []interface{}{ss[i-1], nil, true}
			}
		}
		v = x
	case "xmsl":
		ss := c03JUnH(args)
		x := map[string][]string{"k": ss}
		if len(ss) > 0 {
			x[ss[0]] = ss[:1]
		}
		v = x
	case "xnest":
		ss := c03JUnH(args)
		x := [][]string{ss, nil, {}}
		if len(ss) > 0 {
			x = append(x, ss[len(ss)-1:])
		}
		v = x
	case "xstruct":
		ss := c03JUnH(args)
		x := c03JStruct{Tags: ss}
		if len(ss) > 0 {
			x.Name = ss[0]
			x.Inner = map[string]string{ss[len(ss)-1]: ss[0]}
		}
		v = x
	case "xjm":
		v = c03JM(c03JUnH(args))
	case "xraw":
		v = json.RawMessage(c03UnH(args[0]))
	case "xbytes":
		v = []byte(c03UnH(args[0]))
	// ---- integers
	case "xints":
		x := make([]int, len(args))
		for i, n := range c03JInts(args) {
			x[i] = int(n)
		}
		v = x
	case "xi8s":
		x := make([]int8, len(args))
		for i, n := range c03JInts(args) {
			x[i] = int8(n)
		}
		v = x
	case "xi16s":
		x := make([]int16, len(args))
		for i, n := range c03JInts(args) {
			x[i] = int16(n)
		}
		v = x
	case "xi32s":
		x := make([]int32, len(args))
		for i, n := range c03JInts(args) {
			x[i] = int32(n)
		}
		v = x
	case "xi64s":
		v = c03JInts(args)
	case "xuints":
		x := make([]uint, len(args))
		for i, n := range c03JUints(args) {
			x[i] = uint(n)
		}
		v = x
	case "xu16s":
		x := make([]uint16, len(args))
		for i, n := range c03JUints(args) {
			x[i] = uint16(n)
		}
		v = x
	case "xu32s":
		x := make([]uint32, len(args))
		for i, n := range c03JUints(args) {
			x[i] = uint32(n)
		}
		v = x
	case "xu64s":
		v = c03JUints(args)
	case "xiany":
		x := make([]interface{}, len(args))
		for i, n := range c03JInts(args) {
			if i%2 == 0 {
				x[i] = n
			} else {
				x[i] = int(n)
			}
		}
		v = x
	case "xmsi":
		x := map[string]int64{}
		for i, n := range c03JInts(args) {
			x["k"+strconv.Itoa(i)] = n
		}
		v = x
	case "xmis":
		x := map[int64]string{}
		for i, n := range c03JInts(args) {
			x[n] = "v" + strconv.Itoa(i)
		}
		v = x
	case "xmus":
		x := map[uint64]bool{}
		for i, n := range c03JUints(args) {
			x[n] = i%2 == 0
		}
		v = x
	// ---- floats, bools
	case "xf64s":
		x := make([]float64, len(args))
		for i, a := range args {
			x[i] = pf(a)
		}
		v = x
	case "xf32s":
		x := make([]float32, len(args))
		for i, a := range args {
			b, err := strconv.ParseUint(a, 16, 32)
			if err != nil {
				panic(err)
			}
			x[i] = math.Float32frombits(uint32(b))
		}
		v = x
	case "xfany":
		x := make([]interface{}, len(args))
		for i, a := range args {
			if i%2 == 0 {
				x[i] = pf(a)
			} else {
				x[i] = float32(pf(a))
			}
		}
		v = x
	case "xmsf":
		x := map[string]float64{}
		for i, a := range args {
			x["f"+strconv.Itoa(i)] = pf(a)
		}
		v = x
	case "xbools":
		x := make([]bool, len(args))
		for i, a := range args {
			x[i] = a == "1"
		}
		v = x
	// ---- a bit of everything: args = one string, one integer, one float
	case "xmixed":
		s, n, f := c03UnH(args[0]), c03JInts(args[1:2])[0], pf(args[2])
		v = []interface{}{s, n, f, true, nil, []string{s}, map[string]interface{}{s: []int64{n}}, c03JStruct{Name: s}, &s, [2]float64{f, -f}, orb.Point{f, 1}}
	default:
		ok = false
	}
	return
}

// c03JTok: the token of an x-shape value; "" when encoding/json refuses the value.
func c03JTok(shape string, args []string) string {
	v, ok := c03JBuild(shape, args)
	if !ok {
		panic("unknown json shape " + shape)
	}
	text, err := json.Marshal(v)
	if err != nil {
		return ""
	}
	t := "j:" + shape + ":" + c03H(string(text))
	if len(args) > 0 {
		t += ":" + strings.Join(args, ":")
	}
	return t
}

var c03JStrShapes = []string{"xstrs", "xnamed", "xany", "xptrs", "xmss", "xmsa", "xmsl", "xnest", "xstruct", "xjm"}
var c03JIntShapes = []string{"xints", "xi8s", "xi16s", "xi32s", "xi64s", "xiany", "xmsi", "xmis"}
var c03JUintShapes = []string{"xuints", "xu16s", "xu32s", "xu64s", "xmus"}
var c03JFloatShapes = []string{"xf64s", "xf32s", "xfany", "xmsf"}

func c03JF64Args(r *rand.Rand, n int) []string {
	out := make([]string, n)
	for i := range out {
		switch r.Intn(3) {
		case 0:
			out[i] = fmt.Sprintf("%016x", c03JF64Pool[r.Intn(len(c03JF64Pool))])
		case 1:
			out[i] = fb(float64(r.Intn(2001)-1000) / 8)
		default:
			f := math.Float64frombits(r.Uint64())
			if math.IsNaN(f) || math.IsInf(f, 0) {
				f = 0.1
			}
			out[i] = fb(f)
		}
	}
	return out
}

// c03JSONX draws a random x-shape value with 0..4 elements from the pools.
func c03JSONX(r *rand.Rand) string {
	n := r.Intn(5)
	for {
		var shape string
		var args []string
		switch r.Intn(10) {
		case 0, 1, 2, 3:
			shape = c03JStrShapes[r.Intn(len(c03JStrShapes))]
			for i := 0; i < n; i++ {
				args = append(args, c03H(c03JStrPool[r.Intn(len(c03JStrPool))]))
			}
		case 4, 5:
			shape = c03JIntShapes[r.Intn(len(c03JIntShapes))]
			for i := 0; i < n; i++ {
				v := c03JIntPool[r.Intn(len(c03JIntPool))]
				if r.Intn(4) == 0 {
					v = int64(r.Uint64())
				}
				args = append(args, strconv.FormatInt(v, 10))
			}
		case 6:
			shape = c03JUintShapes[r.Intn(len(c03JUintShapes))]
			for i := 0; i < n; i++ {
				v := c03JUintPool[r.Intn(len(c03JUintPool))]
				if r.Intn(4) == 0 {
					v = r.Uint64()
				}
				args = append(args, strconv.FormatUint(v, 10))
			}
		case 7:
			shape = c03JFloatShapes[r.Intn(len(c03JFloatShapes))]
			args = c03JF64Args(r, n)
			if shape == "xf32s" {
				for i := range args {
					args[i] = fmt.Sprintf("%08x", c03JF32Pool[r.Intn(len(c03JF32Pool))])
				}
			}
		case 8:
			switch r.Intn(4) {
			case 0:
				shape, args = "xraw", []string{c03H(c03JRawTexts[r.Intn(len(c03JRawTexts))])}
			case 1:
				shape, args = "xbytes", []string{c03H(c03JStrPool[r.Intn(len(c03JStrPool))])}
			default:
				shape = "xbools"
				for i := 0; i < n; i++ {
					args = append(args, strconv.Itoa(r.Intn(2)))
				}
			}
		default:
			shape = "xmixed"
			args = []string{c03H(c03JStrPool[r.Intn(len(c03JStrPool))]), strconv.FormatInt(c03JIntPool[r.Intn(len(c03JIntPool))], 10), c03JF64Args(r, 1)[0]}
		}
		if t := c03JTok(shape, args); t != "" {
			return t
		}
	}
}

// c03JSONFixed: every pool entry through every shape of its kind, one small feature each (so
// that a failure names the element), then all entries of a pool in one value.
func c03JSONFixed(c *Ctx, n *int) {
	emit := func(toks ...string) {
		*n++
		if !c.Mine(*n) {
			return
		}
		var ps []c03Prop
		for i, t := range toks {
			if t != "" {
				ps = append(ps, c03Prop{"p" + strconv.Itoa(i), t})
			}
		}
		if len(ps) > 0 {
			c.Case("rt", c03ShowLayers(c03One("json", orb.Point{1, 2}, ps...)))
		}
	}
	for _, s := range c03JStrPool {
		h := c03H(s)
		for _, shape := range c03JStrShapes {
			emit(c03JTok(shape, []string{h}))
		}
		// next to tame neighbours, and next to the plain string value with the same text
		plain := "" // a Lean String cannot hold a byte string that is not UTF-8 (those: op rawstr)
		if utf8.ValidString(s) {
			plain = "s:" + h
		}
		emit(c03JTok("xstrs", []string{c03H("a"), h, c03H("z")}), plain, c03JTok("xbytes", []string{h}))
		emit(c03JTok("xmixed", []string{h, "-7", "3fb999999999999a"}))
	}
	for _, v := range c03JIntPool {
		a := strconv.FormatInt(v, 10)
		for _, shape := range c03JIntShapes {
			emit(c03JTok(shape, []string{a}), c03JTok(shape, []string{"5", a, "-5"}))
		}
	}
	for _, v := range c03JUintPool {
		a := strconv.FormatUint(v, 10)
		for _, shape := range c03JUintShapes {
			emit(c03JTok(shape, []string{a}), c03JTok(shape, []string{"5", a}))
		}
	}
	for _, b := range c03JF64Pool {
		a := fmt.Sprintf("%016x", b)
		for _, shape := range []string{"xf64s", "xfany", "xmsf"} {
			emit(c03JTok(shape, []string{a}), c03JTok(shape, []string{"3ff8000000000000", a}))
		}
	}
	for _, b := range c03JF32Pool {
		a := fmt.Sprintf("%08x", b)
		emit(c03JTok("xf32s", []string{a}), c03JTok("xf32s", []string{"3fc00000", a}))
	}
	for _, t := range c03JRawTexts {
		emit(c03JTok("xraw", []string{c03H(t)}))
	}
	emit(c03JTok("xbools", nil), c03JTok("xbools", []string{"1"}), c03JTok("xbools", []string{"0", "1", "1"}))
	// empty (non-nil) values of every shape
	for _, shapes := range [][]string{c03JStrShapes, c03JIntShapes, c03JUintShapes, c03JFloatShapes} {
		var toks []string
		for _, shape := range shapes {
			toks = append(toks, c03JTok(shape, nil))
		}
		emit(toks...)
	}
	// whole pools in one value
	emit(c03JTok("xstrs", c03JArgsH(c03JStrPool)), c03JTok("xany", c03JArgsH(c03JStrPool)), c03JTok("xmss", c03JArgsH(c03JStrPool)))
	var ia, ua, fa []string
	for _, v := range c03JIntPool {
		ia = append(ia, strconv.FormatInt(v, 10))
	}
	for _, v := range c03JUintPool {
		ua = append(ua, strconv.FormatUint(v, 10))
	}
	for _, b := range c03JF64Pool {
		fa = append(fa, fmt.Sprintf("%016x", b))
	}
	emit(c03JTok("xints", ia), c03JTok("xi64s", ia), c03JTok("xiany", ia), c03JTok("xu64s", ua), c03JTok("xuints", ua), c03JTok("xf64s", fa), c03JTok("xfany", fa))
	// two features of one layer whose JSON texts are equal although the Go values are not
	// ([]string{"a"} / []interface{}{"a"} / the string `["a"]`): one entry of the value table
	one := []string{c03H("a")}
	emit(c03JTok("xstrs", one), c03JTok("xany", one), c03JTok("xnamed", one), "s:"+c03H(`["a"]`), c03JTok("xints", []string{"1"}), c03JTok("xi8s", []string{"1"}), "s:"+c03H("[1]"))
}
