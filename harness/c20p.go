package main

// C20, parametrised entry points (op `callp`).
//
// Every generic entry point that takes something BESIDES the geometry — smart clipping's orientation
// and box, clipping's box, the simplifiers' threshold / keep count / distance function, Round's
// factor, project's point function, tile cover's zoom (and MergeUp's target), DistanceFrom's point,
// the WKB / EWKB byte order and SRID — is exercised with NON-DEFAULT values of those parameters.
// The case line carries the parameter token; `c20ParamEntry` builds ONE entry value closed over the
// parameters, and that same value produces the generic outcome, the kind-specific outcome and the
// outcome of every member of a collection.  The driver's clauses are the ones of `call` (typed
// agreement with the code's wrapping, collection = combination of the members' results), evaluated
// with the parameters of the line (the box for the bound pre-test, the byte order / SRID for the
// collection header, the zoom for the covered area).  A generic function that hands a default to a
// member or to the kind-specific function instead of the caller's value disagrees with them here.
//
// (clip.OpenBound is accepted by clip.LineString / clip.MultiLineString only; no function with a
// geometry-interface parameter takes it, so it has no entry here.)

import (
	"encoding/binary"
	"fmt"
	"math"
	"math/rand"
	"strconv"
	"strings"

	"github.com/paulmach/orb"
	"github.com/paulmach/orb/clip"
	"github.com/paulmach/orb/clip/smartclip"
	"github.com/paulmach/orb/encoding/ewkb"
	"github.com/paulmach/orb/encoding/wkb"
	"github.com/paulmach/orb/geo"
	"github.com/paulmach/orb/maptile"
	"github.com/paulmach/orb/maptile/tilecover"
	"github.com/paulmach/orb/planar"
	"github.com/paulmach/orb/project"
	"github.com/paulmach/orb/simplify"
)

/* ---------- entry constructors (the default entries of c20.go are built with them too) ---------- */

func clipEntry(name string, box orb.Bound) entry {
	return entry{name: name, combine: "clip", call: func(g orb.Geometry) string { return gsn(clip.Geometry(box, g)) }, typed: clipTypedB(box)}
}

func smartEntry(name string, box orb.Bound, o orb.Orientation) entry {
	plain := clipTypedB(box)
	return entry{name: name, combine: "smartclip", call: func(g orb.Geometry) string { return gsn(smartclip.Geometry(box, g, o)) },
		typed: func(g orb.Geometry) string {
			switch v := g.(type) {
			case orb.Ring:
				return gsn(smartclip.Ring(box, v, o))
			case orb.Polygon:
				return gsn(smartclip.Polygon(box, v, o))
			case orb.MultiPolygon:
				return gsn(smartclip.MultiPolygon(box, v, o))
			}
			return plain(g) // every other kind is handed to plain clipping
		}}
}

func roundEntry(name string, factor []int) entry {
	return entry{name: name, alts: true, combine: "map", call: func(g orb.Geometry) string { return gsn(orb.Round(g, factor...)) }}
}

// roundDefEntry: orb.Round with the package variable orb.DefaultRoundingFactor set to d for the
// duration of the call (the only way to a factor that is not an integer, or beyond the int range)
// and restored afterwards — also when the call panics.
func roundDefEntry(name string, d float64, factor []int) entry {
	return entry{name: name, alts: true, combine: "map", call: func(g orb.Geometry) string {
		old := orb.DefaultRoundingFactor
		orb.DefaultRoundingFactor = d
		defer func() { orb.DefaultRoundingFactor = old }()
		return gsn(orb.Round(g, factor...))
	}}
}

func projEntry(name string, f orb.Projection) entry {
	return entry{name: name, alts: true, combine: "map", call: func(g orb.Geometry) string { return gsn(project.Geometry(g, f)) },
		typed: func(g orb.Geometry) string {
			switch v := g.(type) {
			case orb.Point:
				return gsn(project.Point(v, f))
			case orb.MultiPoint:
				return gsn(project.MultiPoint(v, f))
			case orb.LineString:
				return gsn(project.LineString(v, f))
			case orb.MultiLineString:
				return gsn(project.MultiLineString(v, f))
			case orb.Ring:
				return gsn(project.Ring(v, f))
			case orb.Polygon:
				return gsn(project.Polygon(v, f))
			case orb.MultiPolygon:
				return gsn(project.MultiPolygon(v, f))
			case orb.Collection:
				return gsn(project.Collection(v, f))
			case orb.Bound:
				return gsn(project.Bound(v, f))
			}
			return "-"
		}}
}

// coverTyped: the kind's own tile cover function at zoom z
func coverTyped(g orb.Geometry, z maptile.Zoom) (maptile.Set, error, bool) {
	switch v := g.(type) {
	case orb.Point:
		return tilecover.Point(v, z), nil, true
	case orb.MultiPoint:
		return tilecover.MultiPoint(v, z), nil, true
	case orb.LineString:
		return tilecover.LineString(v, z), nil, true
	case orb.MultiLineString:
		return tilecover.MultiLineString(v, z), nil, true
	case orb.Ring:
		s, err := tilecover.Ring(v, z)
		return s, err, true
	case orb.Polygon:
		s, err := tilecover.Polygon(v, z)
		return s, err, true
	case orb.MultiPolygon:
		s, err := tilecover.MultiPolygon(v, z)
		return s, err, true
	case orb.Collection:
		s, err := tilecover.Collection(v, z)
		return s, err, true
	case orb.Bound:
		return tilecover.Bound(v, z), nil, true
	}
	return nil, nil, false
}

func coverEntry(name string, z maptile.Zoom) entry {
	return entry{name: name, readOnly: true, combine: "union", call: func(g orb.Geometry) string { return sset(tilecover.Geometry(g, z)) },
		typed: func(g orb.Geometry) string {
			s, err, ok := coverTyped(g, z)
			if !ok {
				return "-"
			}
			return sset(s, err)
		}}
}

// mergeEntry: tilecover.MergeUp(tilecover.Geometry(g, z), target) — the documented use of MergeUp
// ("outputs of the Geometry function").  Collection clause (driver, `cover`): the AREA covered by the
// result (its tiles expanded to zoom z) is the union of the areas the members' results cover.
func mergeEntry(name string, z, target maptile.Zoom) entry {
	up := func(s maptile.Set, err error) string {
		if err != nil {
			return "err"
		}
		if s == nil {
			return sset(s, nil)
		}
		return sset(tilecover.MergeUp(s, target), nil)
	}
	return entry{name: name, readOnly: true, combine: "cover", call: func(g orb.Geometry) string { return up(tilecover.Geometry(g, z)) },
		typed: func(g orb.Geometry) string {
			s, err, ok := coverTyped(g, z)
			if !ok {
				return "-"
			}
			return up(s, err)
		}}
}

// distTyped: the distance (and index) from the exported kind-specific pieces: planar.Distance for a
// point; for a multi-point the first point at the least planar.DistanceSquared; for a line (and a
// ring, measured as the line of its vertices) the first segment at the least
// planar.DistanceFromSegmentSquared; the square root of that least value.
func distTyped(g orb.Geometry, pt orb.Point) (float64, int, bool) {
	segs := func(ps []orb.Point) (float64, int, bool) {
		dist, index := math.Inf(1), -1
		for i := 0; i < len(ps)-1; i++ {
			if d := planar.DistanceFromSegmentSquared(ps[i], ps[i+1], pt); d < dist {
				dist, index = d, i
			}
		}
		return math.Sqrt(dist), index, true
	}
	switch v := g.(type) {
	case orb.Point:
		return planar.Distance(v, pt), 0, true
	case orb.MultiPoint:
		dist, index := math.Inf(1), -1
		for i := range v {
			if d := planar.DistanceSquared(v[i], pt); d < dist {
				dist, index = d, i
			}
		}
		return math.Sqrt(dist), index, true
	case orb.LineString:
		return segs(v)
	case orb.Ring:
		return segs(v)
	}
	return 0, 0, false
}

func distEntry(name string, pt orb.Point) entry {
	return entry{name: name, readOnly: true, alts: true, combine: "min", call: func(g orb.Geometry) string { return fb(planar.DistanceFrom(g, pt)) },
		typed: func(g orb.Geometry) string {
			if d, _, ok := distTyped(g, pt); ok {
				return fb(d)
			}
			return "-"
		}}
}

func distIdxEntry(name string, pt orb.Point) entry {
	return entry{name: name, readOnly: true, alts: true, combine: "minidx", call: func(g orb.Geometry) string {
		d, i := planar.DistanceFromWithIndex(g, pt)
		return fb(d) + "_" + fmt.Sprint(i)
	}, typed: func(g orb.Geometry) string {
		if d, i, ok := distTyped(g, pt); ok {
			return fb(d) + "_" + fmt.Sprint(i)
		}
		return "-"
	}}
}

/* ---------- parameter tokens ---------- */

// a parameter token is `_`-separated fields: floats as 16 hex digits, integers in decimal, names as they are

func pfields(tok string) []string { return strings.Split(tok, "_") }

func pfloats(fs []string) ([]float64, bool) {
	out := make([]float64, len(fs))
	for i, f := range fs {
		if len(f) != 16 {
			return nil, false
		}
		u, err := strconv.ParseUint(f, 16, 64)
		if err != nil {
			return nil, false
		}
		out[i] = math.Float64frombits(u)
	}
	return out, true
}

func pbox(fs []string) (orb.Bound, bool) {
	v, ok := pfloats(fs)
	if !ok || len(v) != 4 {
		return orb.Bound{}, false
	}
	return orb.Bound{Min: orb.Point{v[0], v[1]}, Max: orb.Point{v[2], v[3]}}, true
}

func boxTok(b orb.Bound) string {
	return fb(b.Min[0]) + "_" + fb(b.Min[1]) + "_" + fb(b.Max[0]) + "_" + fb(b.Max[1])
}

var c20Projections = map[string]orb.Projection{
	"shift": shift,
	"flipx": func(p orb.Point) orb.Point { return orb.Point{-p[0], p[1]} },
	"flipy": func(p orb.Point) orb.Point { return orb.Point{p[0], 3 - p[1]} },
	"rot90": func(p orb.Point) orb.Point { return orb.Point{-p[1], p[0]} },
	"rot45": func(p orb.Point) orb.Point { return orb.Point{p[0] - p[1], p[0] + p[1]} },
	"swap":  func(p orb.Point) orb.Point { return orb.Point{p[1], p[0]} },
	"neg":   func(p orb.Point) orb.Point { return orb.Point{-2 * p[0], -p[1] / 2} },
	"const": func(p orb.Point) orb.Point { return orb.Point{7, -3} },
	"fold":  func(p orb.Point) orb.Point { return orb.Point{math.Abs(p[0] - 2), p[1] * p[1]} },
	"merc":  project.WGS84.ToMercator,
	"wgs":   project.Mercator.ToWGS84,
}

var c20ProjNames = []string{"flipx", "flipy", "rot90", "rot45", "swap", "neg", "const", "fold", "merc", "wgs", "shift"}

var c20DistFuncs = map[string]orb.DistanceFunc{
	"planar": planar.Distance,
	"sq":     planar.DistanceSquared,
	"geo":    geo.Distance,
	"hav":    geo.DistanceHaversine,
}

var c20DistNames = []string{"planar", "sq", "geo", "hav"}

func porder(s string) (binary.ByteOrder, bool) {
	switch s {
	case "le":
		return binary.LittleEndian, true
	case "be":
		return binary.BigEndian, true
	}
	return nil, false
}

// c20ParamEntry builds the entry `base` with the parameter values of `tok`; nil if `tok` is not a
// parameter token of that entry.
func c20ParamEntry(base, tok string) *entry {
	f := pfields(tok)
	mk := func(e entry) *entry { return &e }
	switch base {
	case "smartclip": // <o>_<box>
		if len(f) != 5 {
			return nil
		}
		o, err := strconv.Atoi(f[0])
		box, ok := pbox(f[1:])
		if err != nil || !ok {
			return nil
		}
		return mk(smartEntry(base, box, orb.Orientation(o)))
	case "clip": // <box>
		box, ok := pbox(f)
		if !ok {
			return nil
		}
		return mk(clipEntry(base, box))
	case "simplify.dp": // <threshold>
		v, ok := pfloats(f)
		if !ok || len(v) != 1 {
			return nil
		}
		return mk(simpEntry(base, func() orb.Simplifier { return simplify.DouglasPeucker(v[0]) }))
	case "simplify.radial": // <distance function>_<threshold>
		if len(f) != 2 {
			return nil
		}
		df, ok1 := c20DistFuncs[f[0]]
		v, ok2 := pfloats(f[1:])
		if !ok1 || !ok2 {
			return nil
		}
		return mk(simpEntry(base, func() orb.Simplifier { return simplify.Radial(df, v[0]) }))
	case "simplify.vis": // t_<threshold> | k_<keep> | b_<threshold>_<keep>
		switch {
		case len(f) == 2 && f[0] == "t":
			v, ok := pfloats(f[1:])
			if !ok {
				return nil
			}
			return mk(simpEntry(base, func() orb.Simplifier { return simplify.VisvalingamThreshold(v[0]) }))
		case len(f) == 2 && f[0] == "k":
			k, err := strconv.Atoi(f[1])
			if err != nil {
				return nil
			}
			return mk(simpEntry(base, func() orb.Simplifier { return simplify.VisvalingamKeep(k) }))
		case len(f) == 3 && f[0] == "b":
			v, ok := pfloats(f[1:2])
			k, err := strconv.Atoi(f[2])
			if !ok || err != nil {
				return nil
			}
			return mk(simpEntry(base, func() orb.Simplifier { return simplify.Visvalingam(v[0], k) }))
		}
		return nil
	case "round": // def | <factor> | <factor>_<ignored second factor> | D<default factor bits>[_<factor>…]
		if tok == "def" {
			return mk(roundEntry(base, nil))
		}
		if strings.HasPrefix(f[0], "D") {
			// the package default orb.DefaultRoundingFactor set to the given float64 for the call; explicit
			// factors after it (which must then win over the default)
			d, ok := pfloats([]string{f[0][1:]})
			if !ok {
				return nil
			}
			var fac []int
			for _, x := range f[1:] {
				n, err := strconv.Atoi(x)
				if err != nil {
					return nil
				}
				fac = append(fac, n)
			}
			return mk(roundDefEntry(base, d[0], fac))
		}
		var fac []int
		for _, x := range f {
			n, err := strconv.Atoi(x)
			if err != nil {
				return nil
			}
			fac = append(fac, n)
		}
		return mk(roundEntry(base, fac))
	case "project": // <name of the point function>
		p, ok := c20Projections[tok]
		if !ok {
			return nil
		}
		return mk(projEntry(base, p))
	case "tilecover": // <zoom>
		z, err := strconv.Atoi(tok)
		if err != nil || z < 0 || z > 30 {
			return nil
		}
		return mk(coverEntry(base, maptile.Zoom(z)))
	case "tilecover.mergeup": // <zoom>_<target zoom>
		if len(f) != 2 {
			return nil
		}
		z, err1 := strconv.Atoi(f[0])
		t, err2 := strconv.Atoi(f[1])
		if err1 != nil || err2 != nil || z < 0 || z > 30 || t < 0 || t > z {
			return nil
		}
		return mk(mergeEntry(base, maptile.Zoom(z), maptile.Zoom(t)))
	case "planar.distfrom", "planar.distfromidx": // <x>_<y>
		v, ok := pfloats(f)
		if !ok || len(v) != 2 {
			return nil
		}
		if base == "planar.distfrom" {
			return mk(distEntry(base, orb.Point{v[0], v[1]}))
		}
		return mk(distIdxEntry(base, orb.Point{v[0], v[1]}))
	case "wkb", "wkb.hex", "wkb.must", "wkb.musthex": // le | be
		bo, ok := porder(tok)
		if !ok {
			return nil
		}
		marshal := func(g orb.Geometry) string { return bytesOut(wkb.Marshal(g, bo)) }
		switch base {
		case "wkb":
			return mk(encEntry(base, "wkb", true, marshal))
		case "wkb.hex":
			return mk(aliasEntry(base, func(g orb.Geometry) string { return hexString(wkb.MarshalToHex(g, bo)) }, marshal))
		case "wkb.must":
			return mk(aliasEntry(base, func(g orb.Geometry) string { return hexOrEmpty(wkb.MustMarshal(g, bo)) }, marshal))
		}
		return mk(aliasEntry(base, func(g orb.Geometry) string { return hexString(wkb.MustMarshalToHex(g, bo), nil) }, marshal))
	case "ewkb", "ewkb.hex", "ewkb.must", "ewkb.musthex": // <srid>_<le|be>
		if len(f) != 2 {
			return nil
		}
		srid, err := strconv.Atoi(f[0])
		bo, ok := porder(f[1])
		if err != nil || !ok || srid < 0 || srid > math.MaxUint32 {
			return nil
		}
		marshal := func(g orb.Geometry) string { return bytesOut(ewkb.Marshal(g, srid, bo)) }
		switch base {
		case "ewkb":
			return mk(encEntry(base, "ewkb", true, marshal))
		case "ewkb.hex":
			return mk(aliasEntry(base, func(g orb.Geometry) string { return hexString(ewkb.MarshalToHex(g, srid, bo)) }, marshal))
		case "ewkb.must":
			return mk(aliasEntry(base, func(g orb.Geometry) string { return hexOrEmpty(ewkb.MustMarshal(g, srid, bo)) }, marshal))
		}
		return mk(aliasEntry(base, func(g orb.Geometry) string { return hexString(ewkb.MustMarshalToHex(g, srid, bo), nil) }, marshal))
	case "ewkb.value": // <srid>: the driver.Valuer writes little endian
		srid, err := strconv.Atoi(tok)
		if err != nil || srid < 0 || srid > math.MaxUint32 {
			return nil
		}
		return mk(aliasEntry(base, func(g orb.Geometry) string { return driverValue(ewkb.Value(g, srid).Value()) },
			func(g orb.Geometry) string { return bytesOut(ewkb.Marshal(g, srid)) }))
	}
	return nil
}

/* ---------- parameter grids ---------- */

type pgrid struct {
	base string
	// toks: the structured parameter values (non-default ones and the default)
	toks []string
	// rnd: a random parameter token
	rnd func(r *rand.Rand) string
	// prep adapts a value to the parameters before it is written on the case line (tile cover: the
	// value is scaled by a power of two so that the number of tiles stays small at deep zooms)
	prep func(tok string, g orb.Geometry) orb.Geometry
	// small: exercised over the leaves and one collection form only (the parameter space is the point)
	small bool
}

var c20Boxes = []orb.Bound{
	{Min: orb.Point{2, 2}, Max: orb.Point{8, 8}},        // cuts the triangle leaf, holds a corner of `big`
	{Min: orb.Point{-3, 0.5}, Max: orb.Point{2.5, 2}},   // wide and low, off the grid
	{Min: orb.Point{1, 1}, Max: orb.Point{3, 3}},        // the triangle leaf's own bound: everything on the boundary
	{Min: orb.Point{1.5, -2}, Max: orb.Point{2.5, 7.5}}, // a tall band: cut shapes fall into two pieces
	c20Box,
}

func hb(x float64) string { return fb(x) }

func c20Grids() []pgrid {
	var smartToks, clipToks []string
	for _, b := range c20Boxes {
		clipToks = append(clipToks, boxTok(b))
		for _, o := range []int{-1, 1} {
			smartToks = append(smartToks, fmt.Sprintf("%d_%s", o, boxTok(b)))
		}
	}
	// (values of orb.Orientation that are neither CW nor CCW make smartWrap panic "invalid orientation"
	// on purpose: outside the property's quantifier, exercised by C16)
	rbox := func(r *rand.Rand) orb.Bound {
		if r.Intn(3) == 0 {
			return c20Boxes[r.Intn(len(c20Boxes))]
		}
		x0, y0 := float64(r.Intn(25)-12)/2, float64(r.Intn(25)-12)/2
		return orb.Bound{Min: orb.Point{x0, y0}, Max: orb.Point{x0 + float64(1+r.Intn(16))/2, y0 + float64(1+r.Intn(16))/2}}
	}
	thr := []float64{0, 2, 1e18, -1, math.Inf(1), 1e-300}
	rthr := func(r *rand.Rand) float64 {
		switch r.Intn(4) {
		case 0:
			return thr[r.Intn(len(thr))]
		case 1:
			return float64(r.Intn(40)) / 4
		default:
			return r.Float64() * 6
		}
	}
	keeps := []int{0, 1, 2, 3, 4, 5, 7, 1 << 40, -1}
	var dpToks, radToks, visToks []string
	for _, t := range thr {
		dpToks = append(dpToks, hb(t))
		visToks = append(visToks, "t_"+hb(t))
	}
	for _, d := range c20DistNames {
		for _, t := range []float64{0, 2, 3e5, 1e18} {
			radToks = append(radToks, d+"_"+hb(t))
		}
	}
	for _, k := range keeps {
		visToks = append(visToks, fmt.Sprintf("k_%d", k))
	}
	for _, t := range []float64{0, 2, 1e18} {
		for _, k := range []int{0, 3, 5, 1 << 40} {
			visToks = append(visToks, fmt.Sprintf("b_%s_%d", hb(t), k))
		}
	}
	var zoomToks, mergeToks []string
	for z := 0; z <= 22; z++ {
		zoomToks = append(zoomToks, fmt.Sprint(z))
	}
	for z := 0; z <= 9; z++ { // no scaling: at zoom 9 the leaves cover some dozens of tiles, whole quads among them
		seen := map[int]bool{}
		for _, t := range []int{0, z / 2, z - 1, z} {
			if t >= 0 && !seen[t] {
				seen[t] = true
				mergeToks = append(mergeToks, fmt.Sprintf("%d_%d", z, t))
			}
		}
	}
	zoomOf := func(tok string) int { z, _ := strconv.Atoi(pfields(tok)[0]); return z }
	scaleForZoom := func(tok string, g orb.Geometry) orb.Geometry {
		if z := zoomOf(tok); z > 6 {
			return scaleGeom(g, math.Ldexp(1, 6-z))
		}
		return g
	}
	pts := []orb.Point{{0, 0}, {3, 3}, {2.5, 1.5}, {-7.5, 100}, {1e300, -1e300}, {2, 2}}
	var ptToks []string
	for _, p := range pts {
		ptToks = append(ptToks, hb(p[0])+"_"+hb(p[1]))
	}
	rpt := func(r *rand.Rand) string {
		if r.Intn(4) == 0 {
			return ptToks[r.Intn(len(ptToks))]
		}
		return hb(float64(r.Intn(41)-20)/2) + "_" + hb(float64(r.Intn(41)-20)/2)
	}
	pick := func(l []string) func(r *rand.Rand) string {
		return func(r *rand.Rand) string { return l[r.Intn(len(l))] }
	}
	orders := []string{"be", "le"}
	var ewkbToks []string
	for _, s := range []string{"0", "1", "3857", "4326", "4294967295"} {
		for _, o := range orders {
			ewkbToks = append(ewkbToks, s+"_"+o)
		}
	}
	roundToks := []string{"def", "1", "0", "-10", "3", "1000000", "1125899906842624", "4611686018427387904", "10_7", "-1"}
	// orb.DefaultRoundingFactor varied (restored after every call): non-integers, beyond the int
	// range, tiny, zero, negative, non-finite — with no explicit factor (the default is used: also by
	// the members of a collection) and with one (which must win)
	roundDefs := []float64{2.5, 0.5, 0.1, 1e-3, 1.5, 1e6 + 0.5, 3, 1e30, 9.3e18, 1e300, 5e-324, 0, math.Copysign(0, -1), -1, -2.5, -1e30,
		math.NaN(), math.Inf(1), math.Inf(-1)}
	for _, d := range roundDefs {
		roundToks = append(roundToks, "D"+hb(d))
	}
	roundToks = append(roundToks, "D"+hb(2.5)+"_10", "D"+hb(math.NaN())+"_3", "D"+hb(0)+"_1_7")
	return []pgrid{
		{base: "smartclip", toks: smartToks, rnd: func(r *rand.Rand) string {
			o := []int{-1, -1, -1, 1, 1}[r.Intn(5)]
			return fmt.Sprintf("%d_%s", o, boxTok(rbox(r)))
		}},
		{base: "clip", toks: clipToks, rnd: func(r *rand.Rand) string { return boxTok(rbox(r)) }},
		{base: "simplify.dp", toks: dpToks, rnd: func(r *rand.Rand) string { return hb(rthr(r)) }},
		{base: "simplify.radial", toks: radToks, rnd: func(r *rand.Rand) string {
			return c20DistNames[r.Intn(len(c20DistNames))] + "_" + hb(rthr(r)*[]float64{1, 1, 1e5}[r.Intn(3)])
		}},
		{base: "simplify.vis", toks: visToks, rnd: func(r *rand.Rand) string {
			switch r.Intn(3) {
			case 0:
				return "t_" + hb(rthr(r))
			case 1:
				return fmt.Sprintf("k_%d", keeps[r.Intn(len(keeps))])
			}
			return fmt.Sprintf("b_%s_%d", hb(rthr(r)), r.Intn(7))
		}},
		{base: "round", toks: roundToks, rnd: func(r *rand.Rand) string {
			switch r.Intn(4) {
			case 0:
				return roundToks[r.Intn(len(roundToks))]
			case 1: // a random default: a quarter-integer, a power of ten (either sign of the exponent), any float64
				switch r.Intn(3) {
				case 0:
					return "D" + hb(float64(r.Intn(8001)-4000)/4)
				case 1:
					return "D" + hb(math.Pow(10, float64(r.Intn(41)-20))*(1+float64(r.Intn(3))/2))
				}
				return "D" + hb(coord(r, CoordBits))
			}
			return fmt.Sprint(r.Intn(2001) - 1000)
		}},
		{base: "project", toks: c20ProjNames, rnd: pick(c20ProjNames)},
		{base: "tilecover", toks: zoomToks, rnd: pick(zoomToks), prep: scaleForZoom, small: true},
		{base: "tilecover.mergeup", toks: mergeToks, rnd: pick(mergeToks), small: true},
		{base: "planar.distfrom", toks: ptToks, rnd: rpt},
		{base: "planar.distfromidx", toks: ptToks, rnd: rpt},
		{base: "wkb", toks: orders, rnd: pick(orders)},
		{base: "wkb.hex", toks: orders, rnd: pick(orders), small: true},
		{base: "wkb.must", toks: orders, rnd: pick(orders), small: true},
		{base: "wkb.musthex", toks: orders, rnd: pick(orders), small: true},
		{base: "ewkb", toks: ewkbToks, rnd: pick(ewkbToks)},
		{base: "ewkb.hex", toks: ewkbToks, rnd: pick(ewkbToks), small: true},
		{base: "ewkb.must", toks: ewkbToks, rnd: pick(ewkbToks), small: true},
		{base: "ewkb.musthex", toks: ewkbToks, rnd: pick(ewkbToks), small: true},
		{base: "ewkb.value", toks: []string{"0", "1", "3857", "4294967295"}, rnd: pick([]string{"0", "1", "3857", "4294967295"}), small: true},
	}
}

// scaleGeom: a deep copy of g with every coordinate multiplied by s (a power of two: exact)
func scaleGeom(g orb.Geometry, s float64) orb.Geometry {
	switch v := g.(type) {
	case nil:
		return nil
	case orb.Point:
		return orb.Point{v[0] * s, v[1] * s}
	case orb.Bound:
		return orb.Bound{Min: orb.Point{v.Min[0] * s, v.Min[1] * s}, Max: orb.Point{v.Max[0] * s, v.Max[1] * s}}
	case orb.Collection:
		if v == nil {
			return v
		}
		out := make(orb.Collection, len(v))
		for i := range v {
			out[i] = scaleGeom(v[i], s)
		}
		return out
	}
	c := orb.Clone(g)
	forEachVertex(c, func(p *orb.Point) { p[0] *= s; p[1] *= s })
	return c
}

/* ---------- values ---------- */

// c20CutLeaves: two-dimensional values that the default box (0,0)-(4,4) and the boxes of c20Boxes
// really CUT (the leaves of c20Leaves lie inside, outside or around the default box: none of them
// reaches the code that wraps a clipped ring round the box, the only code that looks at the
// orientation), in both windings, with holes, in several pieces, open, and their multi forms.
func c20CutLeaves() []orb.Geometry {
	rev := func(r orb.Ring) orb.Ring {
		c := r.Clone()
		c.Reverse()
		return c
	}
	right := orb.Ring{{2, 1}, {2, 3}, {6, 3}, {6, 1}, {2, 1}}   // clockwise, sticks out to the right
	corner := orb.Ring{{3, 3}, {6, 3}, {3, 6}, {3, 3}}          // counter-clockwise, over the top right corner
	band := orb.Ring{{1, -1}, {2, -1}, {2, 5}, {1, 5}, {1, -1}} // through the box from bottom to top
	comb := orb.Ring{{-1, 1}, {5, 1}, {5, 3}, {3, 3}, {3, 2}, {1, 2}, {1, 3}, {-1, 3}, {-1, 1}}
	outerH := orb.Ring{{1, 0.5}, {7, 0.5}, {7, 3.5}, {1, 3.5}, {1, 0.5}} // with a hole that is cut too
	holeH := orb.Ring{{2, 1}, {2, 3}, {5, 3}, {5, 1}, {2, 1}}
	holeIn := orb.Ring{{1.5, 1}, {1.5, 1.5}, {1.75, 1.5}, {1.5, 1}}
	open := orb.Ring{{1, 1}, {6, 1}, {6, 3}, {1, 3}} // not closed, end points inside
	inside := orb.Polygon{{{1, 2}, {2, 2}, {2, 3}, {1, 2}}}
	outside := orb.Polygon{{{10, 10}, {12, 10}, {12, 12}, {10, 10}}}
	return []orb.Geometry{
		right, rev(right), corner, rev(corner), band, comb, rev(comb), open,
		orb.Polygon{right}, orb.Polygon{rev(right)}, orb.Polygon{corner}, orb.Polygon{outerH, holeH}, orb.Polygon{rev(outerH), rev(holeH)},
		orb.Polygon{outerH, holeIn}, orb.Polygon{outerH, holeH, holeIn}, orb.Polygon{band, orb.Ring{}},
		orb.MultiPolygon{{right}}, orb.MultiPolygon{{rev(right)}, inside, outside}, orb.MultiPolygon{{corner}, {band}},
		orb.MultiPolygon{{outerH, holeH}, {rev(corner)}}, orb.MultiPolygon{{}, {comb}, nil},
	}
}

// c20Wraps: v alone, and as a member of collections: the only member, first / middle / last among
// members of dimension 0, 1 and 2, twice, and nested (under the single-member unwrapping and beside
// other members)
func c20Wraps(v orb.Geometry, small bool) []orb.Geometry {
	in2 := orb.Polygon{{{1, 2}, {2, 2}, {2, 3}, {1, 2}}}
	in1 := orb.LineString{{0.5, 0.5}, {3.5, 0.5}, {3.5, 1.5}}
	pt := orb.Point{2, 2}
	if small {
		return []orb.Geometry{v, orb.Collection{in1, v, in2}}
	}
	return []orb.Geometry{
		v,
		orb.Collection{v},
		orb.Collection{v, in2, in1},
		orb.Collection{in1, v, pt},
		orb.Collection{pt, orb.Ring(in2[0]), v},
		orb.Collection{v, v},
		orb.Collection{orb.Collection{v}},
		orb.Collection{orb.Collection{orb.Collection{v}}},
		orb.Collection{pt, orb.Collection{v, in1}},
		orb.Collection{orb.Collection{}, orb.Collection{in2, orb.Collection{pt, v}}},
	}
}

// genC20Params: the structured family of `callp` — every parametrised entry point x every parameter
// value of its grid x (leaves of c20Leaves + cut leaves) x collection forms, and pairs of cut leaves.
func genC20Params(c *Ctx, idx int) int {
	leaves := append(c20Leaves(), c20CutLeaves()...)
	cuts := c20CutLeaves()
	emit := func(g pgrid, tok string, v orb.Geometry) {
		idx++
		if !c.Mine(idx) {
			return
		}
		v = orb.Clone(v)
		if g.prep != nil {
			v = g.prep(tok, v)
		}
		c.Case("callp", g.base+" "+tok+" "+gsN(v))
	}
	specials := c20SpecialLeaves()
	for _, g := range c20Grids() {
		for ti, tok := range g.toks {
			// values with non-finite / huge / tiny / signed-zero coordinates: a rotating eleventh of them
			// per parameter value (every one of them meets every entry point; tile cover: c20TileRisk)
			if !c20TileEntry(g.base) {
				for i, sp := range specials {
					if (i+ti)%11 == 0 {
						emit(g, tok, sp)
						emit(g, tok, orb.Collection{orb.LineString{{0.5, 0.5}, {3.5, 0.5}, {3.5, 1.5}}, sp})
					}
				}
			}
			emit(g, tok, nil)
			for _, a := range leaves {
				for _, v := range c20Wraps(a, g.small) {
					emit(g, tok, v)
				}
			}
			if g.small && c.Tier != "thorough" {
				continue
			}
			for i, a := range cuts {
				for j, b := range cuts {
					if (i+2*j)%5 != 0 && c.Tier != "thorough" {
						continue
					}
					emit(g, tok, orb.Collection{a, b})
				}
			}
		}
	}
	return idx
}

// genC20ParamsRandom: random values with random parameter values (a second loop of c.Budget cases; the
// random family of `call` keeps its own budget)
func genC20ParamsRandom(c *Ctx, opts, safeOpts func() GenOpts) {
	grids := c20Grids()
	cuts := c20CutLeaves()
	for k := 0; k < c.Budget && !c.Exhausted(); k++ {
		g := grids[c.Rng.Intn(len(grids))]
		if k%4 == 0 {
			g = grids[c.Rng.Intn(2)] // the clippers: the richest parameter space
		}
		tok := g.rnd(c.Rng)
		v := genGeom(c.Rng, opts(), 0)
		if col, ok := v.(orb.Collection); ok && col != nil && c.Rng.Intn(3) == 0 {
			// a shape known to be cut by most boxes among the random members
			col = append(col.Clone(), cuts[c.Rng.Intn(len(cuts))])
			i := c.Rng.Intn(len(col))
			col[i], col[len(col)-1] = col[len(col)-1], col[i]
			v = col
		}
		if g.prep != nil {
			v = g.prep(tok, v)
		}
		if c20TileEntry(g.base) && c20TileRisk(v, c20TileZoom(tok)) {
			v = genGeom(c.Rng, safeOpts(), 0)
			if g.prep != nil {
				v = g.prep(tok, v)
			}
		}
		c.Case("callp", g.base+" "+tok+" "+gsN(v))
	}
}
