package main

import (
	"encoding/binary"
	"fmt"
	"math"
	"strings"

	"github.com/paulmach/orb/encoding/mvt/vectortile"
)

// C05 — the WIDE families.  The hostile streams of C03 / C02 / c05.go mutate small base inputs (a handful
// of layers, features, keys, members, points), so a decoder whose allocation has a CROSS term (keys x
// features, values x features, layers x keys, members x members …) stays far below the allocation bounds
// on all of them.  Here every table an input can carry is made n entries long, n = 100, 1000, 4000, one
// table or two at a time; the cases are judged by the existing allocation clauses (Driver/C03 handleHostile:
// 64·len + 64 KiB; Driver/C02 handleHostile: 1024·len + 1 MiB; Driver/C05 handleWkb: model accounting).

var c05WideSizes = []int{100, 1000, 4000}

// --- MVT ------------------------------------------------------------------------------------------------

func c05u32(v uint32) *uint32 { return &v }
func c05str(s string) *string { return &s }

func c05Key(i int) string { return "k" + strings.ToUpper(fmt.Sprintf("%x", i)) }

// c05WideValue: the i-th value of a wide value table (every kind in turn)
func c05WideValue(i int) *vectortile.Tile_Value {
	switch i % 7 {
	case 0:
		return &vectortile.Tile_Value{StringValue: c05str(c05Key(i))}
	case 1:
		f := float32(i) + 0.5
		return &vectortile.Tile_Value{FloatValue: &f}
	case 2:
		f := float64(i) + 0.25
		return &vectortile.Tile_Value{DoubleValue: &f}
	case 3:
		v := int64(-i)
		return &vectortile.Tile_Value{IntValue: &v}
	case 4:
		v := uint64(i)
		return &vectortile.Tile_Value{UintValue: &v}
	case 5:
		v := int64(-i)
		return &vectortile.Tile_Value{SintValue: &v}
	}
	b := i%2 == 0
	return &vectortile.Tile_Value{BoolValue: &b}
}

func c05zz(v int) uint32 { return uint32((v << 1) ^ (v >> 31)) }

func c05PointGeom(i int) []uint32 { return []uint32{9, c05zz(i % 4096), c05zz((i * 7) % 4096)} }

// c05WideTile: the tile of one wide shape with parameter n (nil: the shape does not exist at this n).
func c05WideTile(shape string, n int) *vectortile.Tile {
	pt, ls, pg := vectortile.Tile_POINT, vectortile.Tile_LINESTRING, vectortile.Tile_POLYGON
	layer := func(name string) *vectortile.Tile_Layer {
		return &vectortile.Tile_Layer{Name: c05str(name), Version: c05u32(2), Extent: c05u32(4096)}
	}
	table := func(l *vectortile.Tile_Layer, keys, values int) {
		for i := 0; i < keys; i++ {
			l.Keys = append(l.Keys, c05Key(i))
		}
		for i := 0; i < values; i++ {
			l.Values = append(l.Values, c05WideValue(i))
		}
	}
	one := func(l *vectortile.Tile_Layer) *vectortile.Tile {
		return &vectortile.Tile{Layers: []*vectortile.Tile_Layer{l}}
	}
	l := layer("wide")
	switch shape {
	case "keys-x-features": // n keys, n values, n features, one tag each
		table(l, n, n)
		for i := 0; i < n; i++ {
			l.Features = append(l.Features, &vectortile.Tile_Feature{Type: &pt, Tags: []uint32{uint32(i), uint32(i)}, Geometry: c05PointGeom(i)})
		}
	case "keys-x-features-firstkey": // n keys and values, every feature tagged with key 0 only
		table(l, n, n)
		for i := 0; i < n; i++ {
			l.Features = append(l.Features, &vectortile.Tile_Feature{Type: &pt, Tags: []uint32{0, uint32(i)}, Geometry: c05PointGeom(i)})
		}
	case "keys-x-features-untagged": // n keys and values, n features without tags
		table(l, n, n)
		for i := 0; i < n; i++ {
			l.Features = append(l.Features, &vectortile.Tile_Feature{Type: &pt, Geometry: c05PointGeom(i)})
		}
	case "all-tags": // m keys, m values, m features carrying all m tags (m*m <= 160000 tag pairs)
		m := n
		if m > 400 {
			return nil
		}
		table(l, m, m)
		for i := 0; i < m; i++ {
			f := &vectortile.Tile_Feature{Type: &pt, Geometry: c05PointGeom(i)}
			for k := 0; k < m; k++ {
				f.Tags = append(f.Tags, uint32(k), uint32((k+i)%m))
			}
			l.Features = append(l.Features, f)
		}
	case "values": // one key, n values, n features
		table(l, 1, n)
		for i := 0; i < n; i++ {
			l.Features = append(l.Features, &vectortile.Tile_Feature{Type: &pt, Tags: []uint32{0, uint32(i)}, Geometry: c05PointGeom(i)})
		}
	case "values-unused": // n values, n keys, one feature
		table(l, n, n)
		l.Features = append(l.Features, &vectortile.Tile_Feature{Type: &pt, Tags: []uint32{uint32(n - 1), uint32(n - 1)}, Geometry: c05PointGeom(1)})
	case "dup-tags": // one feature, n tag pairs all (0,0)
		table(l, 1, 1)
		f := &vectortile.Tile_Feature{Type: &pt, Geometry: c05PointGeom(1)}
		for i := 0; i < n; i++ {
			f.Tags = append(f.Tags, 0, 0)
		}
		l.Features = append(l.Features, f)
	case "one-feature-all-tags": // n keys, n values, one feature with all of them
		table(l, n, n)
		f := &vectortile.Tile_Feature{Type: &pt, Geometry: c05PointGeom(1)}
		for i := 0; i < n; i++ {
			f.Tags = append(f.Tags, uint32(i), uint32(i))
		}
		l.Features = append(l.Features, f)
	case "long-strings": // n/10 keys and string values of 100 bytes
		for i := 0; i < n/10+1; i++ {
			l.Keys = append(l.Keys, c05Key(i)+strings.Repeat("k", 96))
			l.Values = append(l.Values, &vectortile.Tile_Value{StringValue: c05str(c05Key(i) + strings.Repeat("v", 96))})
			l.Features = append(l.Features, &vectortile.Tile_Feature{Type: &pt, Tags: []uint32{uint32(i), uint32(i)}, Geometry: c05PointGeom(i)})
		}
	case "ids": // n features with ids, no tags
		for i := 0; i < n; i++ {
			id := uint64(i) << 20
			l.Features = append(l.Features, &vectortile.Tile_Feature{Id: &id, Type: &pt, Geometry: c05PointGeom(i)})
		}
	case "long-line": // one line string of 2n points
		g := []uint32{9, 0, 0, uint32(2 | (2*n-1)<<3)}
		for i := 1; i < 2*n; i++ {
			g = append(g, c05zz(1+i%3), c05zz(i%2))
		}
		l.Features = append(l.Features, &vectortile.Tile_Feature{Type: &ls, Geometry: g})
	case "multipoint": // one multi point of 4n points
		g := []uint32{uint32(1 | (4*n)<<3)}
		for i := 0; i < 4*n; i++ {
			g = append(g, c05zz(1+i%3), c05zz(i%2))
		}
		l.Features = append(l.Features, &vectortile.Tile_Feature{Type: &pt, Geometry: g})
	case "many-lines": // a multi line string of n two-point lines
		var g []uint32
		for i := 0; i < n; i++ {
			g = append(g, 9, 2, 2, 10, 2, 0)
		}
		l.Features = append(l.Features, &vectortile.Tile_Feature{Type: &ls, Geometry: g})
	case "many-rings": // a polygon feature of n four-point rings, all wound the same way (n polygons)
		var g []uint32
		for i := 0; i < n; i++ {
			g = append(g, 9, 2, 2, 2|2<<3, 4, 0, 0, 4, 15)
		}
		l.Features = append(l.Features, &vectortile.Tile_Feature{Type: &pg, Geometry: g})
	case "many-holes": // one outer ring and n-1 rings wound the other way
		g := []uint32{9, 0, 0, 2 | 2<<3, 4, 0, 0, 4, 15}
		for i := 1; i < n; i++ {
			g = append(g, 9, 2, 2, 2|2<<3, 0, 4, 4, 0, 15)
		}
		l.Features = append(l.Features, &vectortile.Tile_Feature{Type: &pg, Geometry: g})
	case "layers": // n layers of one key, one value, one tagged feature
		t := &vectortile.Tile{}
		for i := 0; i < n; i++ {
			li := layer(c05Key(i))
			table(li, 1, 1)
			li.Features = append(li.Features, &vectortile.Tile_Feature{Type: &pt, Tags: []uint32{0, 0}, Geometry: c05PointGeom(i)})
			t.Layers = append(t.Layers, li)
		}
		return t
	case "layers-x-keys": // n layers of 30 keys and values, one feature with one tag
		t := &vectortile.Tile{}
		for i := 0; i < n; i++ {
			li := layer(c05Key(i))
			table(li, 30, 30)
			li.Features = append(li.Features, &vectortile.Tile_Feature{Type: &pt, Tags: []uint32{29, 29}, Geometry: c05PointGeom(i)})
			t.Layers = append(t.Layers, li)
		}
		return t
	case "big-then-small-layers": // one layer with n keys, values and features, then n/10 small ones (the decoder reuses its tables)
		table(l, n, n)
		for i := 0; i < n; i++ {
			l.Features = append(l.Features, &vectortile.Tile_Feature{Type: &pt, Tags: []uint32{uint32(i), uint32(i)}, Geometry: c05PointGeom(i)})
		}
		t := one(l)
		for i := 0; i < n/10; i++ {
			li := layer(c05Key(i))
			table(li, 1, 1)
			li.Features = append(li.Features, &vectortile.Tile_Feature{Type: &pt, Tags: []uint32{0, 0}, Geometry: c05PointGeom(i)})
			t.Layers = append(t.Layers, li)
		}
		return t
	case "empty-layers": // n layers of the same name without anything
		t := &vectortile.Tile{}
		for i := 0; i < n; i++ {
			t.Layers = append(t.Layers, layer("a"))
		}
		return t
	default:
		panic("c05WideTile: " + shape)
	}
	return one(l)
}

var c05WideMVTShapes = []string{"keys-x-features", "keys-x-features-firstkey", "keys-x-features-untagged", "all-tags", "values",
	"values-unused", "dup-tags", "one-feature-all-tags", "long-strings", "ids", "long-line", "multipoint", "many-lines",
	"many-rings", "many-holes", "layers", "layers-x-keys", "big-then-small-layers", "empty-layers"}

// genC05WideMVT: every shape at every size, plain; the first shapes also gzipped, cut short, with a tag
// index beyond the tables in the last feature (an error after all the work) and with an inflated count.
// Smallest sizes first; sharded.  Thorough adds n = 200, 400, 2000.
func genC05WideMVT(c *Ctx, thorough bool, emit func(string)) {
	sizes := c05WideSizes
	if thorough {
		sizes = []int{100, 200, 400, 1000, 2000, 4000}
	}
	idx := 0
	put := func(b []byte) {
		idx++
		if c.Mine(idx) {
			emit(hexOrEmptyMVT(b))
		}
	}
	for _, n := range sizes {
		for si, shape := range c05WideMVTShapes {
			t := c05WideTile(shape, n)
			if t == nil {
				continue
			}
			b, err := t.Marshal()
			if err != nil {
				continue
			}
			put(b)
			if si%3 == 0 || thorough {
				put(mvtGzip(b))
			}
			if si < 5 || shape == "long-line" || shape == "layers" {
				put(b[:len(b)/2])
				put(b[:len(b)-1])
				// hostile endings: the last feature of the last layer refers beyond the tables / claims 2^20 points
				last := t.Layers[len(t.Layers)-1]
				if k := len(last.Features); k > 0 {
					f := last.Features[k-1]
					saveT, saveG := f.Tags, f.Geometry
					f.Tags = []uint32{uint32(len(last.Keys) + 5), uint32(len(last.Values) + 5)}
					if b2, err := t.Marshal(); err == nil {
						put(b2)
					}
					f.Tags = saveT
					if len(saveG) > 3 {
						f.Geometry = append([]uint32{}, saveG...)
						f.Geometry[len(f.Geometry)-3] = f.Geometry[len(f.Geometry)-3]&7 | 1<<20<<3
						if b2, err := t.Marshal(); err == nil {
							put(b2)
						}
						f.Geometry = saveG
					}
				}
			}
		}
	}
}

// --- GeoJSON / BSON ---------------------------------------------------------------------------------------

func c05jpt(i int) *jnode { return jarr(jnum(float64(i%360)-180), jnum(float64(i%170)-85.5)) }

func c05jgeom(ty string, co *jnode) *jnode {
	return jobj().set("type", jstr(ty)).set("coordinates", co)
}

func c05jpoint(i int) *jnode { return c05jgeom("Point", c05jpt(i)) }

func c05jfeature(g *jnode, props *jnode) *jnode {
	f := jobj().set("type", jstr("Feature")).set("geometry", g)
	if props != nil {
		f.set("properties", props)
	}
	return f
}

func c05jprops(m, i int) *jnode {
	p := jobj()
	for k := 0; k < m; k++ {
		switch k % 3 {
		case 0:
			p.set(c05Key(k), jnum(float64(i+k)))
		case 1:
			p.set(c05Key(k), jstr(c05Key(i)))
		default:
			p.set(c05Key(k), jbool(k%2 == 0))
		}
	}
	return p
}

func c05jring(i int) *jnode {
	x := float64(i % 100)
	return jarr(jarr(jnum(x), jnum(0)), jarr(jnum(x+1), jnum(0)), jarr(jnum(x+1), jnum(1)), jarr(jnum(x), jnum(0)))
}

// c05WideDoc: the document of one wide shape with parameter n (nil: not at this n).
func c05WideDoc(shape string, n int) *jnode {
	rep := func(f func(i int) *jnode) *jnode {
		a := jarr()
		for i := 0; i < n; i++ {
			a.arr = append(a.arr, f(i))
		}
		return a
	}
	fc := func(feats *jnode) *jnode { return jobj().set("type", jstr("FeatureCollection")).set("features", feats) }
	gc := func(ms *jnode) *jnode { return jobj().set("type", jstr("GeometryCollection")).set("geometries", ms) }
	switch shape {
	case "fc-features":
		return fc(rep(func(i int) *jnode { return c05jfeature(c05jpoint(i), c05jprops(1, i)) }))
	case "fc-features-x-props": // n features of m properties each, n*m <= 40000
		m := 40000 / n
		if m > 100 {
			m = 100
		}
		return fc(rep(func(i int) *jnode { return c05jfeature(c05jpoint(i), c05jprops(m, i)) }))
	case "fc-features-no-props":
		return fc(rep(func(i int) *jnode { return c05jfeature(c05jpoint(i), nil) }))
	case "fc-features-ids-bboxes":
		return fc(rep(func(i int) *jnode {
			return c05jfeature(c05jpoint(i), jnull()).set("id", jstr(c05Key(i))).set("bbox", jarr(jnum(0), jnum(1), jnum(2), jnum(3)))
		}))
	case "fc-last-null": // an error after all the work
		a := rep(func(i int) *jnode { return c05jfeature(c05jpoint(i), c05jprops(1, i)) })
		a.arr[n-1] = jnull()
		return fc(a)
	case "fc-last-bad-geometry":
		a := rep(func(i int) *jnode { return c05jfeature(c05jpoint(i), c05jprops(1, i)) })
		a.arr[n-1] = c05jfeature(c05jgeom("Point", jarr(jnum(1))), nil)
		return fc(a)
	case "fc-extra-members": // n foreign members
		d := fc(jarr(c05jfeature(c05jpoint(1), nil)))
		for i := 0; i < n; i++ {
			d.set("x"+c05Key(i), jarr(jnum(float64(i))))
		}
		return d
	case "feature-props":
		return c05jfeature(c05jpoint(1), c05jprops(n, 1))
	case "feature-props-array":
		return c05jfeature(c05jpoint(1), jobj().set("a", rep(func(i int) *jnode { return jnum(float64(i)) })).
			set("b", rep(func(i int) *jnode { return jobj().set("c", jarr(jnum(float64(i)))) })))
	case "feature-id-object":
		return c05jfeature(c05jpoint(1), nil).set("id", c05jprops(n, 2))
	case "feature-bbox":
		return c05jfeature(c05jpoint(1), nil).set("bbox", rep(func(i int) *jnode { return jnum(float64(i)) }))
	case "feature-extra-members":
		d := c05jfeature(c05jpoint(1), jobj())
		for i := 0; i < n; i++ {
			d.set("x"+c05Key(i), jstr("v"))
		}
		return d
	case "gc-members":
		return gc(rep(c05jpoint))
	case "gc-members-nested": // n members, each a collection of one point
		return gc(rep(func(i int) *jnode { return gc(jarr(c05jpoint(i))) }))
	case "gc-last-null":
		a := rep(c05jpoint)
		a.arr[n-1] = jnull()
		return gc(a)
	case "gc-in-feature":
		return c05jfeature(gc(rep(c05jpoint)), c05jprops(2, 1))
	case "multipoint":
		return c05jgeom("MultiPoint", rep(c05jpt))
	case "linestring":
		return c05jgeom("LineString", rep(c05jpt))
	case "linestring-last-short": // the last position has one number
		a := rep(c05jpt)
		a.arr[n-1] = jarr(jnum(1))
		return c05jgeom("LineString", a)
	case "multilinestring":
		return c05jgeom("MultiLineString", rep(func(i int) *jnode { return jarr(c05jpt(i), c05jpt(i+1)) }))
	case "polygon-rings":
		return c05jgeom("Polygon", rep(c05jring))
	case "polygon-long-ring":
		return c05jgeom("Polygon", jarr(rep(c05jpt)))
	case "multipolygon":
		return c05jgeom("MultiPolygon", rep(func(i int) *jnode { return jarr(c05jring(i)) }))
	case "point-long": // a position of n numbers
		return c05jgeom("Point", rep(func(i int) *jnode { return jnum(float64(i)) }))
	case "geometry-extra-members":
		d := c05jpoint(1)
		for i := 0; i < n; i++ {
			d.set("x"+c05Key(i), jnum(float64(i)))
		}
		return d
	case "geometry-types": // n `type` members in front of the coordinates (each one is an assignment)
		d := jobj()
		for i := 0; i < n; i++ {
			d.set("type", jstr([]string{"LineString", "Point"}[i%2]))
		}
		return d.set("type", jstr("Point")).set("coordinates", c05jpt(1))
	case "geometry-coordinates": // n `coordinates` members
		d := jobj().set("type", jstr("Point"))
		for i := 0; i < n; i++ {
			d.set("coordinates", c05jpt(i))
		}
		return d
	}
	panic("c05WideDoc: " + shape)
}

var c05WideGJShapes = []string{"fc-features", "fc-features-x-props", "fc-features-no-props", "fc-features-ids-bboxes", "fc-last-null",
	"fc-last-bad-geometry", "fc-extra-members", "feature-props", "feature-props-array", "feature-id-object", "feature-bbox",
	"feature-extra-members", "gc-members", "gc-members-nested", "gc-last-null", "gc-in-feature", "multipoint", "linestring",
	"linestring-last-short", "multilinestring", "polygon-rings", "polygon-long-ring", "multipolygon", "point-long",
	"geometry-extra-members", "geometry-types", "geometry-coordinates"}

// genC05WideGJ: every shape at every size, as JSON text and as BSON; the first shapes also cut short.
func genC05WideGJ(c *Ctx, thorough bool, emit func(string)) {
	sizes := c05WideSizes
	if thorough {
		sizes = []int{100, 300, 1000, 2000, 4000}
	}
	idx := 0
	for _, n := range sizes {
		for si, shape := range c05WideGJShapes {
			idx++
			if !c.Mine(idx) {
				continue
			}
			d := c05WideDoc(shape, n)
			if d == nil {
				continue
			}
			js := hostileJSON(d)
			emit(js)
			bs, ok := hostileBSON(c, d)
			if ok {
				emit(bs)
			}
			if si%4 == 0 { // cut short: in the middle and just before the end
				for _, s := range []string{js, bs} {
					f := strings.Fields(s)
					if len(f) == 2 && len(f[1]) > 8 {
						h := f[1]
						emit(f[0] + " " + h[:len(h)/4*2])
						emit(f[0] + " " + h[:len(h)-2])
					}
				}
			}
		}
	}
}

// --- WKB ------------------------------------------------------------------------------------------------

// c05WideWKBBytes: a well-formed encoding of `kind` with n elements; `at` = offsets of its count words
// (the top-level one first).
func c05WideWKBBytes(kind string, n int, o binary.ByteOrder, srid bool) (b []byte, at []int) {
	ob := byte(1)
	if o == binary.BigEndian {
		ob = 0
	}
	hdr := func(t uint32, top bool) {
		b = append(b, ob)
		if top && srid {
			b = append(b, u32b(o, t|0x20000000)...)
			b = append(b, u32b(o, 4326)...)
		} else {
			b = append(b, u32b(o, t)...)
		}
	}
	count := func(v int) {
		at = append(at, len(b))
		b = append(b, u32b(o, uint32(v))...)
	}
	pt := func(i int) {
		var w [8]byte
		o.PutUint64(w[:], math.Float64bits(float64(i%1000)+0.5))
		b = append(b, w[:]...)
		o.PutUint64(w[:], math.Float64bits(float64(-(i % 90))))
		b = append(b, w[:]...)
	}
	ring := func(i int) {
		count(4)
		pt(i)
		pt(i + 1)
		pt(i + 2)
		pt(i)
	}
	switch kind {
	case "linestring":
		hdr(2, true)
		count(n)
		for i := 0; i < n; i++ {
			pt(i)
		}
	case "multipoint":
		hdr(4, true)
		count(n)
		for i := 0; i < n; i++ {
			hdr(1, false)
			pt(i)
		}
	case "polygon-long-ring":
		hdr(3, true)
		count(1)
		count(n)
		for i := 0; i < n; i++ {
			pt(i)
		}
	case "polygon-rings":
		hdr(3, true)
		count(n)
		for i := 0; i < n; i++ {
			ring(i)
		}
	case "multilinestring":
		hdr(5, true)
		count(n)
		for i := 0; i < n; i++ {
			hdr(2, false)
			count(2)
			pt(i)
			pt(i + 1)
		}
	case "multipolygon":
		hdr(6, true)
		count(n)
		for i := 0; i < n; i++ {
			hdr(3, false)
			count(1)
			ring(i)
		}
	case "collection":
		hdr(7, true)
		count(n)
		for i := 0; i < n; i++ {
			switch i % 3 {
			case 0:
				hdr(1, false)
				pt(i)
			case 1:
				hdr(2, false)
				count(2)
				pt(i)
				pt(i + 1)
			default:
				hdr(4, false)
				count(1)
				hdr(1, false)
				pt(i)
			}
		}
	case "collection-of-collections":
		hdr(7, true)
		count(n)
		for i := 0; i < n; i++ {
			hdr(7, false)
			count(1)
			hdr(1, false)
			pt(i)
		}
	default:
		panic("c05WideWKBBytes: " + kind)
	}
	return b, at
}

var c05WideWKBKinds = []struct{ kind, dest string }{{"linestring", "LS"}, {"multipoint", "MP"}, {"polygon-long-ring", "PG"},
	{"polygon-rings", "PG"}, {"multilinestring", "MLS"}, {"multipolygon", "MPG"}, {"collection", "C"}, {"collection-of-collections", "C"},
	{"linestring", "R"}, {"multipoint", "B"}}

// genC05WideWKB: long encodings (n elements: points, rings, members), well-formed and with the claimed
// counts off by one either way, at what the remaining bytes can just (not) hold, with the 2^28 bit set,
// cut short — into the matching typed destination and into `any`; also as hex text.
func genC05WideWKB(c *Ctx, thorough bool, emit func(string)) {
	sizes := c05WideSizes
	if thorough {
		sizes = []int{100, 1000, 4000, 20000}
	}
	idx := 0
	put := func(b []byte, dest string) {
		idx++
		if c.Mine(idx) {
			emit(hx(b) + " " + dest)
		}
	}
	set := func(b []byte, at int, o binary.ByteOrder, v uint32) []byte {
		m := append([]byte(nil), b...)
		copy(m[at:], u32b(o, v))
		return m
	}
	// the Lean model of the byte decoder is quadratic in the input length (`data.length` at every member:
	// 64 KB in 0.7 s, 300 KB in 20 s): an encoding is at most 64 KiB long (thorough: 160 KiB), n is
	// lowered to what fits
	limit := 65536 + 64
	if thorough {
		limit = 160 << 10
	}
	for _, n0 := range sizes {
		for ki, k := range c05WideWKBKinds {
			var o binary.ByteOrder = binary.LittleEndian
			if (ki+n0/100)%2 == 1 {
				o = binary.BigEndian
			}
			n := n0
			b, at := c05WideWKBBytes(k.kind, n, o, ki%3 == 1)
			if len(b) > limit {
				n = n * limit / len(b)
				b, at = c05WideWKBBytes(k.kind, n, o, ki%3 == 1)
			}
			put(b, k.dest)
			put(b, "any")
			top, last := at[0], at[len(at)-1]
			for vi, m := range [][]byte{
				set(b, top, o, uint32(n+1)), set(b, top, o, uint32(n-1)), set(b, top, o, uint32(n)|1<<28), set(b, top, o, uint32(n)|1<<31),
				set(b, top, o, uint32((len(b)-top-4)/16)), set(b, top, o, uint32((len(b)-top-4)/16+1)), set(b, top, o, uint32(len(b))),
				set(b, last, o, 5), set(b, last, o, uint32(n)|1<<28),
				b[:len(b)-1], b[:len(b)-16], b[:len(b)/2], b[:top+4], append(append([]byte(nil), b...), b[:21]...),
			} {
				d := k.dest
				if vi%2 == 1 {
					d = "any"
				}
				put(m, d)
			}
			if n <= 1000 || thorough {
				put([]byte(fmt.Sprintf("%x", b)), k.dest)
				put(append([]byte(`\x`), []byte(fmt.Sprintf("%x", b[:len(b)-3]))...), "any")
			}
		}
	}
}

// --- the shortest WKB inputs --------------------------------------------------------------------------------

// bytes at which the decoders branch: byte-order marks, type words, the hex framing characters, flag bits
var c05BoundaryBytes = []byte{0, 1, 2, 3, 4, 5, 6, 7, 8, 9, 0x10, 0x20, '0', '1', '2', '\\', 'x', 'X', 'a', 'f', 'g', 0x7f, 0x80, 0xa0, 0xe0, 0xfe, 0xff}

// c05ShortWKB: the empty string, every 1-byte string, the 2-byte strings (thorough: all 65536; quick:
// every second byte of the boundary set plus one residue class mod 5 of the others, chosen by the seed),
// and 3- to 5-byte strings over the first bytes the decoders look at and a small alphabet (the decoders
// read nothing before 5 bytes are there: each length below must be refused by every entry point).  Sharded.
func c05ShortWKB(c *Ctx, thorough bool, emit func([]byte)) {
	idx := 0
	put := func(b ...byte) {
		idx++
		if c.Mine(idx) {
			emit(b)
		}
	}
	isBoundary := map[byte]bool{}
	for _, b := range c05BoundaryBytes {
		isBoundary[b] = true
	}
	phase := c.Rng.Intn(5)
	put()
	for a := 0; a < 256; a++ {
		put(byte(a))
	}
	for a := 0; a < 256; a++ {
		for b := 0; b < 256; b++ {
			if thorough || isBoundary[byte(b)] || (a+b)%5 == phase {
				put(byte(a), byte(b))
			} else {
				idx++
			}
		}
	}
	first := []byte{0, 1, 2, '0', '\\', 0xff}
	alpha := []byte{0, 1, 2, 7, 0x20, '1', 'x', 0xff}
	alpha5 := alpha
	if !thorough {
		alpha5 = []byte{0, 1, 7, 0x20}
	}
	for _, f := range first {
		for _, x := range alpha {
			for _, y := range alpha {
				put(f, x, y)
				for _, z := range alpha {
					put(f, x, y, z)
				}
			}
		}
		for _, x := range alpha5 {
			for _, y := range alpha5 {
				for _, z := range alpha5 {
					for _, w := range alpha5 {
						put(f, x, y, z, w)
					}
				}
			}
		}
	}
}
