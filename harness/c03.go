package main

// C03 — Mapbox Vector Tiles: Marshal → Unmarshal round trip, deterministic marshalling,
// and the MVT share of C05 (hostile tiles: runMVTHostile / genMVTHostile).
//
// Line formats (strings travel as "h"+hex of their bytes; numbers in decimal; float64 as 16
// hex digits; geometries in the shared prefix format of proto.go):
//
//   C03 rt <nL> { <name> <version> <extent> <nF> { <id> <gval> <nP> { <key> <pval> } } }
//       => M <ok|err:<class>|panic> ; D <0|1|g> ; VT <tile> ; U <outcome> ; G <same|outcome> ; Z <len> <gzipped len>
//          ; K <kept values> <decoy calls> ok | changed <name>@<stage> …      (kept results: c03_keep.go)
//   id    : - | i:<kind>:<int> | u:<kind>:<nat> | f64:<bits> | f32:<bits> | s:<hstr> | o
//   pval  : s:<hstr> | b:<0|1> | i:<kind>:<int> | u:<kind>:<nat> | f32:<bits> | f64:<bits> | nil
//           | j:<shape>:<hstr json text>[:<arg>…] | jbad[:<n>] | x:<tag> | str:<type>:<hstr of String()>
//           (x-shapes of j: carry the raw elements the value is built from: c03_json.go)
//           (shapes nilints / nilstrs / nilmapf are typed nil slices / maps: JSON text "null";
//            str: a comparable fmt.Stringer value of Go type number <type>)
//   <nP>  : a count, or "n" for a nil Properties map
//   tile  : <nL> { <name> <version> <extent> <nK> <key>* <nV> <tval>* <nF> { <id|-> <type> <nT> <tag>* <nG> <word>* } }
//   tval  : s:<hstr> | f:<bits32> | d:<bits64> | i:<int> | u:<nat> | z:<int> | b:<0|1> | e
//   outcome: ok <nL> { <name> <version> <extent> <nF> { <idbits|-> <geom> <nP> { <key> <dval> } } } | err:<class> | panic
//   dval  : s:<hstr> | d:<bits64> | b:<0|1> | nil
//
//   C03 hostile <hex|empty> => U <class> <alloc> ; G <class> <alloc> <declen> [; VT <tile>]
//
//   C03 wire  <layers as in rt> => M <class> ; D <0|1> [; B <hex|empty> ; VT <tile> ; U <outcome> ; K …]
//       the BYTES mvt.Marshal wrote (compared byte for byte with the model's encodeTile, and
//       decoded by the model's decodeTile), the structure the generated package reads from
//       them, and what mvt.Unmarshal makes of them
//   C03 wireh <hex|empty> => U <outcome> ; K …
//       hostile / truncated / hand-built wire strings through mvt.Unmarshal (full outcome)
//   C03 rawstr <hname> <hkey> <hval> => <class> <hname'> <hkey'> <hval'> <same|gzdiff> <D> <kept|changed:…>
//       raw byte strings (also non-UTF-8) as layer name, key and string value: what comes back
//   C03 newlayers <reps> <nL> { <hname> <nF> } => N <distinct tiles> <reps> ; S <0|1> ; O <hname>*
//       mvt.Marshal(mvt.NewLayers(map)) repeated on one map (c03RunNewLayers)

import (
	"bytes"
	"compress/gzip"
	"encoding/hex"
	"encoding/json"
	"fmt"
	"io"
	"io/ioutil"
	"math"
	"math/rand"
	"os"
	"runtime"
	"sort"
	"strconv"
	"strings"

	"github.com/paulmach/orb"
	"github.com/paulmach/orb/encoding/mvt"
	"github.com/paulmach/orb/encoding/mvt/vectortile"
	"github.com/paulmach/orb/geojson"
)

func init() { register(&Prop{ID: "C03", Run: runC03, Gen: genC03}) }

// ---------------------------------------------------------------- tokens

func c03H(s string) string { return "h" + hex.EncodeToString([]byte(s)) }

func c03UnH(t string) string {
	if len(t) == 0 || t[0] != 'h' {
		panic("bad string token " + t)
	}
	b, err := hex.DecodeString(t[1:])
	if err != nil {
		panic("bad string token " + t)
	}
	return string(b)
}

type c03Prop struct {
	key string
	tok string
}

type c03Feat struct {
	id       string
	geom     orb.Geometry
	props    []c03Prop
	nilProps bool // Properties is a nil map (token "n")
}

type c03Layer struct {
	name            string
	version, extent uint32
	feats           []c03Feat
}

func c03SignedKind(kind string, v int64) interface{} {
	switch kind {
	case "int":
		return int(v)
	case "int8":
		return int8(v)
	case "int16":
		return int16(v)
	case "int32":
		return int32(v)
	case "int64":
		return int64(v)
	}
	panic("bad signed kind " + kind)
}

func c03UnsignedKind(kind string, v uint64) interface{} {
	switch kind {
	case "uint":
		return uint(v)
	case "uint8":
		return uint8(v)
	case "uint16":
		return uint16(v)
	case "uint32":
		return uint32(v)
	case "uint64":
		return uint64(v)
	}
	panic("bad unsigned kind " + kind)
}

type c03Unsupported struct{ A int }

type c03NamedInt int
type c03NamedFloat float64
type c03NamedString string
type c03NamedBool bool

var c03Chan = make(chan int)

// values whose JSON encoding fails (token jbad:<n>; plain jbad = 0)
func c03JBad(n string) interface{} {
	switch n {
	case "1":
		return map[string]float64{"a": math.Inf(1)}
	case "2":
		return []interface{}{"fine", func() {}}
	case "3":
		return func() {}
	case "4":
		return []float32{float32(math.Inf(-1))}
	case "5":
		return map[string]interface{}{"deep": []interface{}{map[string]interface{}{"c": make(chan int)}}}
	case "6":
		return []complex128{1}
	}
	return []interface{}{math.NaN()}
}

// comparable fmt.Stringer values (encodeValue's second case); String() is injective on each type
type c03StrA struct{ S string }

func (s c03StrA) String() string { return s.S }

type c03StrB struct{ S string }

func (s c03StrB) String() string { return s.S }

type c03StrInt int

func (s c03StrInt) String() string { return strconv.Itoa(int(s)) }

// c03Val rebuilds the Go property value from its token.
func c03Val(tok string) interface{} {
	p := strings.Split(tok, ":")
	switch p[0] {
	case "s":
		return c03UnH(p[1])
	case "b":
		return p[1] == "1"
	case "i":
		v, err := strconv.ParseInt(p[2], 10, 64)
		if err != nil {
			panic(err)
		}
		return c03SignedKind(p[1], v)
	case "u":
		v, err := strconv.ParseUint(p[2], 10, 64)
		if err != nil {
			panic(err)
		}
		return c03UnsignedKind(p[1], v)
	case "f32":
		v, err := strconv.ParseUint(p[1], 16, 32)
		if err != nil {
			panic(err)
		}
		return math.Float32frombits(uint32(v))
	case "f64":
		return pf(p[1])
	case "nil":
		return nil
	case "j":
		text := []byte(c03UnH(p[2]))
		var v interface{}
		switch p[1] {
		case "any":
			if err := json.Unmarshal(text, &v); err != nil {
				panic(err)
			}
		case "ints":
			var x []int
			if err := json.Unmarshal(text, &x); err != nil {
				panic(err)
			}
			v = x
		case "strs":
			var x []string
			if err := json.Unmarshal(text, &x); err != nil {
				panic(err)
			}
			v = x
		case "mapf":
			var x map[string]float64
			if err := json.Unmarshal(text, &x); err != nil {
				panic(err)
			}
			v = x
		case "nilints":
			v = []int(nil)
		case "nilstrs":
			v = []string(nil)
		case "nilmapf":
			v = map[string]float64(nil)
		default:
			// the x-shapes: the value is built from the args, not parsed back from the text (c03_json.go)
			var ok bool
			if v, ok = c03JBuild(p[1], p[3:]); !ok {
				panic("bad json shape " + p[1])
			}
		}
		back, err := json.Marshal(v)
		if err != nil || string(back) != string(text) {
			panic("json token is not canonical: " + string(text) + " vs " + string(back))
		}
		return v
	case "str":
		text := c03UnH(p[2])
		switch p[1] {
		case "0":
			return c03StrA{text}
		case "1":
			return c03StrB{text}
		default:
			n, err := strconv.Atoi(text)
			if err != nil || strconv.Itoa(n) != text {
				panic("stringer int token is not canonical: " + text)
			}
			return c03StrInt(n)
		}
	case "jbad":
		if len(p) > 1 {
			return c03JBad(p[1])
		}
		return c03JBad("0")
	case "x":
		switch p[1] {
		case "0":
			return c03Unsupported{1}
		case "1":
			return complex(1, 2)
		// comparable values that are not of one of the predeclared types encodeValue lists and are no
		// fmt.Stringer: named numeric / string / bool types, arrays (orb.Point), pointers, channels
		case "3":
			return c03NamedInt(7)
		case "4":
			return c03NamedFloat(2.5)
		case "5":
			return c03NamedString("named")
		case "6":
			return c03NamedBool(true)
		case "7":
			return orb.Point{1, 2}
		case "8":
			return &c03Unsupported{2}
		case "9":
			return c03Chan
		case "10":
			return [0]int{}
		case "11":
			return struct{}{}
		case "12":
			return uintptr(9)
		case "13":
			return orb.Bound{Min: orb.Point{0, 0}, Max: orb.Point{1, 1}}
		default:
			return [2]int{1, 2}
		}
	}
	panic("bad value token " + tok)
}

func c03ID(tok string) interface{} {
	p := strings.Split(tok, ":")
	switch p[0] {
	case "-":
		return nil
	case "i":
		v, err := strconv.ParseInt(p[2], 10, 64)
		if err != nil {
			panic(err)
		}
		return c03SignedKind(p[1], v)
	case "u":
		v, err := strconv.ParseUint(p[2], 10, 64)
		if err != nil {
			panic(err)
		}
		return c03UnsignedKind(p[1], v)
	case "f64":
		return pf(p[1])
	case "f32":
		v, err := strconv.ParseUint(p[1], 16, 32)
		if err != nil {
			panic(err)
		}
		return math.Float32frombits(uint32(v))
	case "s":
		return c03UnH(p[1])
	case "o":
		return true
	}
	panic("bad id token " + tok)
}

func c03ParseLayers(r *tokReader) []c03Layer {
	n := r.int()
	ls := make([]c03Layer, n)
	for i := range ls {
		ls[i].name = c03UnH(r.next())
		ls[i].version = uint32(pu(r.next()))
		ls[i].extent = uint32(pu(r.next()))
		nf := r.int()
		ls[i].feats = make([]c03Feat, nf)
		for j := range ls[i].feats {
			f := &ls[i].feats[j]
			f.id = r.next()
			f.geom = r.geom()
			np := 0
			if r.i < len(r.t) && r.t[r.i] == "n" {
				r.next()
				f.nilProps = true
			} else {
				np = r.int()
			}
			f.props = make([]c03Prop, np)
			for k := range f.props {
				f.props[k].key = c03UnH(r.next())
				f.props[k].tok = r.next()
			}
		}
	}
	return ls
}

func c03ShowLayers(ls []c03Layer) string {
	var sb strings.Builder
	sb.WriteString(strconv.Itoa(len(ls)))
	for _, l := range ls {
		fmt.Fprintf(&sb, " %s %d %d %d", c03H(l.name), l.version, l.extent, len(l.feats))
		for _, f := range l.feats {
			np := strconv.Itoa(len(f.props))
			if f.nilProps && len(f.props) == 0 {
				np = "n"
			}
			sb.WriteString(" " + f.id + " " + gs(f.geom) + " " + np)
			for _, p := range f.props {
				sb.WriteString(" " + c03H(p.key) + " " + p.tok)
			}
		}
	}
	return sb.String()
}

// c03Build makes mvt.Layers; `variant` selects the insertion order of every property map.
func c03Build(ls []c03Layer, variant int) mvt.Layers {
	out := make(mvt.Layers, len(ls))
	for i, l := range ls {
		fs := make([]*geojson.Feature, len(l.feats))
		for j, f := range l.feats {
			gf := geojson.NewFeature(f.geom)
			gf.ID = c03ID(f.id)
			n := len(f.props)
			props := geojson.Properties{}
			for k := 0; k < n; k++ {
				idx := k
				switch variant {
				case 1:
					idx = n - 1 - k
				case 2:
					idx = (k*7 + 3) % n
					if n%7 == 0 {
						idx = (k + n/2) % n
					}
				}
				p := f.props[idx]
				props[p.key] = c03Val(p.tok)
			}
			if variant == 2 {
				// make sure nothing was skipped by the index walk
				for _, p := range f.props {
					if _, ok := props[p.key]; !ok {
						props[p.key] = c03Val(p.tok)
					}
				}
			}
			gf.Properties = props
			if f.nilProps && n == 0 {
				gf.Properties = nil
			}
			fs[j] = gf
		}
		out[i] = &mvt.Layer{Name: l.name, Version: l.version, Extent: l.extent, Features: fs}
	}
	return out
}

func c03ErrClass(err error) string {
	if err == mvt.ErrDataIsGZipped {
		return "gzipped"
	}
	if err == io.ErrUnexpectedEOF {
		return "ueof"
	}
	s := err.Error()
	switch {
	case strings.Contains(s, "geometry collections are not supported"):
		return "collection"
	case strings.Contains(s, "no more data"):
		return "nomore"
	case strings.Contains(s, "data cut short"):
		return "cutshort"
	case strings.Contains(s, "first command not one moveTo"):
		return "notmoveto"
	case strings.Contains(s, "second command not a lineTo"):
		return "notlineto"
	case strings.Contains(s, "geom is not long enough"):
		return "short"
	case strings.Contains(s, "unknown geometry type"):
		return "unknowntype"
	case strings.Contains(s, "unable to encode value"):
		return "valenc"
	case strings.Contains(s, "uncomparable"):
		return "uncomparable"
	case strings.Contains(s, "failed to create gzreader"), strings.Contains(s, "failed to unzip"):
		return "gzip"
	case strings.Contains(s, "unexpected EOF"):
		return "ueof"
	}
	return "wire"
}

func c03ShowTVal(v *vectortile.Tile_Value) string {
	switch {
	case v == nil:
		return "e"
	case v.StringValue != nil:
		return "s:" + c03H(*v.StringValue)
	case v.FloatValue != nil:
		return fmt.Sprintf("f:%08x", math.Float32bits(*v.FloatValue))
	case v.DoubleValue != nil:
		return "d:" + fb(*v.DoubleValue)
	case v.IntValue != nil:
		return fmt.Sprintf("i:%d", *v.IntValue)
	case v.UintValue != nil:
		return fmt.Sprintf("u:%d", *v.UintValue)
	case v.SintValue != nil:
		return fmt.Sprintf("z:%d", *v.SintValue)
	case v.BoolValue != nil:
		return "b:" + b2s(*v.BoolValue)
	}
	return "e"
}

func c03ShowVT(vt *vectortile.Tile) string {
	var sb strings.Builder
	sb.WriteString(strconv.Itoa(len(vt.Layers)))
	for _, l := range vt.Layers {
		fmt.Fprintf(&sb, " %s %d %d %d", c03H(l.GetName()), l.GetVersion(), l.GetExtent(), len(l.Keys))
		for _, k := range l.Keys {
			sb.WriteString(" " + c03H(k))
		}
		sb.WriteString(" " + strconv.Itoa(len(l.Values)))
		for _, v := range l.Values {
			sb.WriteString(" " + c03ShowTVal(v))
		}
		sb.WriteString(" " + strconv.Itoa(len(l.Features)))
		for _, f := range l.Features {
			if f.Id == nil {
				sb.WriteString(" -")
			} else {
				fmt.Fprintf(&sb, " %d", *f.Id)
			}
			fmt.Fprintf(&sb, " %d %d", int32(f.GetType()), len(f.Tags))
			for _, t := range f.Tags {
				fmt.Fprintf(&sb, " %d", t)
			}
			fmt.Fprintf(&sb, " %d", len(f.Geometry))
			for _, t := range f.Geometry {
				fmt.Fprintf(&sb, " %d", t)
			}
		}
	}
	return sb.String()
}

func c03ShowDVal(v interface{}) string {
	switch t := v.(type) {
	case nil:
		return "nil"
	case string:
		return "s:" + c03H(t)
	case float64:
		return "d:" + fb(t)
	case bool:
		return "b:" + b2s(t)
	}
	return fmt.Sprintf("?:%T", v)
}

func c03ShowDecoded(ls mvt.Layers) string {
	var sb strings.Builder
	sb.WriteString("ok " + strconv.Itoa(len(ls)))
	for _, l := range ls {
		fmt.Fprintf(&sb, " %s %d %d %d", c03H(l.Name), l.Version, l.Extent, len(l.Features))
		for _, f := range l.Features {
			switch id := f.ID.(type) {
			case nil:
				sb.WriteString(" -")
			case float64:
				sb.WriteString(" " + fb(id))
			default:
				fmt.Fprintf(&sb, " ?%T", id)
			}
			sb.WriteString(" " + c03Gs(f.Geometry))
			keys := make([]string, 0, len(f.Properties))
			for k := range f.Properties {
				keys = append(keys, k)
			}
			sort.Strings(keys)
			sb.WriteString(" " + strconv.Itoa(len(keys)))
			for _, k := range keys {
				sb.WriteString(" " + c03H(k) + " " + c03ShowDVal(f.Properties[k]))
			}
		}
	}
	return sb.String()
}

// c03Gs prints a decoded geometry; a typed nil slice (returned by the decoder when its loop
// does not run) is printed as the empty value of its kind.
func c03Gs(g orb.Geometry) string {
	switch s := gs(g); s {
	case "nMP":
		return "MP 0"
	case "nLS":
		return "LS 0"
	case "nMLS":
		return "MLS 0"
	case "nR":
		return "R 0"
	case "nPG":
		return "PG 0"
	case "nMPG":
		return "MPG 0"
	case "nC":
		return "C 0"
	default:
		return s
	}
}

func c03Outcome(ls mvt.Layers, err error) string {
	if err != nil {
		return "err:" + c03ErrClass(err)
	}
	return c03ShowDecoded(ls)
}

// ---------------------------------------------------------------- run

func runC03(op string, in []string) string {
	switch op {
	case "rt":
		return c03RunRT(in)
	case "hostile":
		return runMVTHostile(in)
	case "wire":
		return c03RunWire(in)
	case "wireh":
		return c03RunWireH(in)
	case "rawstr":
		return c03RunRawStr(in)
	case "newlayers":
		return c03RunNewLayers(in)
	}
	return "badop"
}

func c03Marshal(ls []c03Layer, variant int, gz bool) (data []byte, class string) {
	class = guard(func() string {
		var err error
		if gz {
			data, err = mvt.MarshalGzipped(c03Build(ls, variant))
		} else {
			data, err = mvt.Marshal(c03Build(ls, variant))
		}
		if err != nil {
			return "err:" + c03ErrClass(err)
		}
		return "ok"
	})
	return
}

// c03MarshalV marshals a value that is already built (the same Go value can be marshalled twice).
func c03MarshalV(v mvt.Layers, gz bool) (data []byte, class string) {
	class = guard(func() string {
		var err error
		if gz {
			data, err = mvt.MarshalGzipped(v)
		} else {
			data, err = mvt.Marshal(v)
		}
		if err != nil {
			return "err:" + c03ErrClass(err)
		}
		return "ok"
	})
	return
}

// c03MarshalAll: the value m0 (variant 0) marshalled twice, then three freshly built values with
// other map insertion orders; every returned slice is kept.  det: all five agree.
func c03MarshalAll(k *c03Keeper, ls []c03Layer, m0 mvt.Layers) (data []byte, class string, det bool) {
	k.argUntouched("arg", "marshal", m0, func() { data, class = c03MarshalV(m0, false) })
	k.keepBytes("m0", data)
	det = true
	d1, c1 := c03MarshalV(m0, false) // the same VALUE once more
	k.keepBytes("m0again", d1)
	if c1 != class || !bytes.Equal(d1, data) {
		det = false
	}
	for v := 1; v <= 3; v++ {
		d2, c2 := c03Marshal(ls, v%3, false)
		k.keepBytes("m"+strconv.Itoa(v), d2)
		if c2 != class || !bytes.Equal(d2, data) {
			det = false
		}
	}
	return
}

func c03RunRT(in []string) string {
	var ls []c03Layer
	var m0 mvt.Layers
	if bad := guard(func() string { ls = c03ParseLayers(&tokReader{t: in}); m0 = c03Build(ls, 0); return "" }); bad != "" {
		return "badinput"
	}
	k := &c03Keeper{}
	data, class, det := c03MarshalAll(k, ls, m0)
	out := "M " + class + " ; D " + b2s(det)
	if class != "ok" {
		return out
	}
	var vt vectortile.Tile
	if err := vt.Unmarshal(data); err != nil {
		return out + " ; VT undecodable"
	}
	out += " ; VT " + c03ShowVT(&vt)
	u := guard(func() string { l, err := k.decode("u", data, mvt.Unmarshal); return c03Outcome(l, err) })
	out += " ; U " + u
	gzDet := true
	gzLen := 0
	var gz0 []byte
	g := guard(func() string {
		var gz []byte
		var c string
		k.argUntouched("arg", "marshalgz", m0, func() { gz, c = c03MarshalV(m0, true) })
		k.keepBytes("g0", gz)
		gzLen = len(gz)
		if c == "ok" {
			gz0 = gz
		}
		if c != "ok" {
			return "marshalgz-" + c
		}
		// MarshalGzipped must be as deterministic as Marshal (other map orders, same bytes)
		for v := 1; v <= 2; v++ {
			gz2, c2 := c03Marshal(ls, v, true)
			k.keepBytes("g"+strconv.Itoa(v), gz2)
			if c2 != c || !bytes.Equal(gz2, gz) {
				gzDet = false
			}
		}
		l, err := k.decode("gu", gz, mvt.UnmarshalGzipped)
		return c03Outcome(l, err)
	})
	if g == u {
		g = "same"
	}
	if det && !gzDet {
		out = strings.Replace(out, " ; D 1", " ; D g", 1)
	}
	// the same value marshalled from several goroutines at once
	if !gzDet {
		gz0 = nil
	}
	if det {
		k.concurrent(m0, data, gz0)
	}
	// every result obtained above is still alive: further calls on other data, then look again
	k.disturb(ls)
	// Z: length of the tile and of its gzipped form (the driver tags the compression ratio)
	return out + " ; G " + g + fmt.Sprintf(" ; Z %d %d", len(data), gzLen) + " ; " + k.section()
}

// c03RunRawStr: layer name, key and string value as raw bytes (possibly not UTF-8).
func c03RunRawStr(in []string) string {
	if len(in) != 3 {
		return "badinput"
	}
	var name, key, val string
	if bad := guard(func() string { name, key, val = c03UnH(in[0]), c03UnH(in[1]), c03UnH(in[2]); return "" }); bad != "" {
		return "badinput"
	}
	build := func() mvt.Layers {
		f := geojson.NewFeature(orb.Point{1, 2})
		f.Properties = geojson.Properties{key: val, "z" + key: val + "z"}
		return mvt.Layers{&mvt.Layer{Name: name, Version: 2, Extent: 4096, Features: []*geojson.Feature{f}}}
	}
	show := func(ls mvt.Layers) string {
		if len(ls) != 1 || len(ls[0].Features) != 1 || len(ls[0].Features[0].Properties) != 2 {
			return "shape - - -"
		}
		for k, v := range ls[0].Features[0].Properties {
			if s, ok := v.(string); ok && k == key {
				if z, ok := ls[0].Features[0].Properties["z"+key].(string); !ok || z != val+"z" {
					return "second - - -"
				}
				return "ok " + c03H(ls[0].Name) + " " + c03H(k) + " " + c03H(s)
			}
		}
		return "nokey - - -"
	}
	k := &c03Keeper{}
	kept := func() string {
		k.disturb(nil)
		if len(k.changed) == 0 {
			return "kept"
		}
		return "changed:" + strings.Join(k.changed, ",")
	}
	return guard(func() string {
		data, err := mvt.Marshal(build())
		if err != nil {
			return "err:" + c03ErrClass(err) + " - - - - 1 kept"
		}
		k.keepBytes("m0", data)
		det := true
		for i := 0; i < 3; i++ {
			d2, err := mvt.Marshal(build())
			k.keepBytes("m"+strconv.Itoa(i+1), d2)
			if err != nil || !bytes.Equal(d2, data) {
				det = false
			}
		}
		ls, err := k.decode("u", data, mvt.Unmarshal)
		if err != nil {
			return "err:" + c03ErrClass(err) + " - - - - " + b2s(det) + " kept"
		}
		out := show(ls)
		gz, err := mvt.MarshalGzipped(build())
		g := "gzdiff"
		var lg mvt.Layers
		if err == nil {
			k.keepBytes("g0", gz)
			if lg, err = k.decode("gu", gz, mvt.UnmarshalGzipped); err == nil && show(lg) == out {
				g = "same"
			}
		}
		kp := kept()
		// the values are looked at once more after the other calls
		if show(ls) != out || (g == "same" && show(lg) != out) {
			kp = "changed:shown"
		}
		return out + " " + g + " " + b2s(det) + " " + kp
	})
}

// c03RunNewLayers: `newlayers <reps> <nL> { <hname> <nF> }` — the documented way to build a tile,
// mvt.Marshal(mvt.NewLayers(map)), repeated on ONE map: how many different byte strings come out
// (a function of the map gives one), and whether each of them decodes to the map's layers as a set.
//   => N <distinct outputs> <reps> ; S <0|1> ; O <names of the first result, in order>
func c03RunNewLayers(in []string) string {
	if len(in) < 2 {
		return "badinput"
	}
	var reps int
	var names []string
	var counts []int
	if bad := guard(func() string {
		r := &tokReader{t: in}
		reps = r.int()
		n := r.int()
		for i := 0; i < n; i++ {
			names = append(names, c03UnH(r.next()))
			counts = append(counts, r.int())
		}
		return ""
	}); bad != "" || reps < 1 || reps > 1000 {
		return "badinput"
	}
	m := map[string]*geojson.FeatureCollection{}
	for i, name := range names {
		fc := geojson.NewFeatureCollection()
		for j := 0; j < counts[i]; j++ {
			f := geojson.NewFeature(orb.Point{float64(i), float64(j)})
			f.Properties = geojson.Properties{"layer": name, "j": j}
			fc.Append(f)
		}
		m[name] = fc
	}
	return guard(func() string {
		seen := map[string]bool{}
		setOK := true
		first := ""
		for rep := 0; rep < reps; rep++ {
			ls := mvt.NewLayers(m)
			data, err := mvt.Marshal(ls)
			if err != nil {
				return "err:" + c03ErrClass(err)
			}
			seen[string(data)] = true
			back, err := mvt.Unmarshal(data)
			if err != nil || len(back) != len(m) {
				setOK = false
				continue
			}
			order := ""
			for _, l := range back {
				order += " " + c03H(l.Name)
				fc, ok := m[l.Name]
				if !ok || len(l.Features) != len(fc.Features) || l.Version != 1 || l.Extent != mvt.DefaultExtent {
					setOK = false
					continue
				}
				for j, f := range l.Features {
					if p, ok := f.Geometry.(orb.Point); !ok || p != fc.Features[j].Geometry.(orb.Point) || f.Properties["layer"] != l.Name || f.Properties["j"] != float64(j) {
						setOK = false
					}
				}
			}
			if rep == 0 {
				first = order
			}
		}
		return fmt.Sprintf("N %d %d ; S %s ; O%s", len(seen), reps, b2s(setOK), first)
	})
}

// c03NewLayersLive: the newlayers op is generated when known_findings.json lists the finding
// C03-newlayers-order (layer order follows Go's map iteration: recorded, not repaired) or when the
// library no longer shows it (then the clause guards the repair).
func c03NewLayersLive(c *Ctx) bool {
	for _, k := range c.known {
		if k.id == "C03-newlayers-order" {
			return true
		}
	}
	out := c03RunNewLayers([]string{"64", "6", c03H("a"), "1", c03H("b"), "1", c03H("c"), "1", c03H("d"), "1", c03H("e"), "1", c03H("f"), "1"})
	return strings.HasPrefix(out, "N 1 ")
}

func genC03NewLayers(c *Ctx, n *int) {
	if !c03NewLayersLive(c) {
		return
	}
	pool := []string{"roads", "water", "buildings", "poi", "landuse", "a", "b", "", "é", "Z", "z", "10", "9", "admin", "place_label", "x y"}
	emit := func(reps int, names []string, counts []int) {
		*n++
		if !c.Mine(*n) {
			return
		}
		toks := []string{strconv.Itoa(reps), strconv.Itoa(len(names))}
		for i, nm := range names {
			toks = append(toks, c03H(nm), strconv.Itoa(counts[i]))
		}
		c.Case("newlayers", strings.Join(toks, " "))
	}
	for nl := 0; nl <= len(pool); nl++ {
		counts := make([]int, nl)
		for i := range counts {
			counts[i] = 1 + i%3
		}
		emit(16, pool[:nl], counts)
		if nl >= 2 {
			emit(16, pool[len(pool)-nl:], counts)
		}
	}
	var many []string
	for i := 0; i < 40; i++ {
		many = append(many, fmt.Sprintf("layer%02d", (i*7)%40))
	}
	emit(8, many, make([]int, 40)) // more than one map bucket; empty layers
	for i := 0; i < 12; i++ {
		nl := 2 + c.Rng.Intn(7)
		perm := c.Rng.Perm(len(pool))[:nl]
		names := make([]string, nl)
		counts := make([]int, nl)
		for j, p := range perm {
			names[j] = pool[p]
			counts[j] = c.Rng.Intn(4)
		}
		// each shard draws its own
		toks := []string{"16", strconv.Itoa(nl)}
		for j, nm := range names {
			toks = append(toks, c03H(nm), strconv.Itoa(counts[j]))
		}
		c.Case("newlayers", strings.Join(toks, " "))
	}
}

// ---------------------------------------------------------------- generators (round trip)

var c03SKinds = []string{"int", "int8", "int16", "int32", "int64"}
var c03UKinds = []string{"uint", "uint8", "uint16", "uint32", "uint64"}
var c03SBits = []uint{64, 8, 16, 32, 64}

func c03Int(r *rand.Rand, bits uint, signed bool) string {
	var v uint64
	switch r.Intn(4) {
	case 0:
		v = uint64(r.Intn(4))
	case 1:
		v = uint64(r.Intn(200))
	default:
		v = r.Uint64()
	}
	if signed {
		x := int64(v) >> (64 - bits) // arithmetic shift keeps the value in range
		if r.Intn(4) == 0 {
			x = int64(v%7) - 3
		}
		if bits < 64 {
			lim := int64(1) << (bits - 1)
			if x >= lim || x < -lim {
				x %= lim
			}
		}
		return strconv.FormatInt(x, 10)
	}
	if bits < 64 {
		v &= (uint64(1) << bits) - 1
	}
	if r.Intn(4) == 0 {
		v %= 5
	}
	return strconv.FormatUint(v, 10)
}

var c03F64Pool = []uint64{
	0x0000000000000000, 0x3ff0000000000000, 0xbff0000000000000, 0x4000000000000000, 0x3fe0000000000000,
	0x7ff0000000000000, 0xfff0000000000000, 0x7ff8000000000000, 0x0000000000000001, 0x7fefffffffffffff,
	0x4340000000000000, 0x4340000000000001, 0x3ff0000000000001,
	0xfff8000000000000, 0x7ff0000000000001, 0x7fffffffffffffff, 0xfff80fc000000000, // NaNs with sign / payload: kept bit for bit
}
var c03F32Pool = []uint32{0x00000000, 0x3f800000, 0xbf800000, 0x40000000, 0x7f800000, 0xff800000, 0x7fc00000, 0x00000001, 0x7f7fffff, 0x3f800001,
	// NaNs with a sign, a payload, signalling: float64(float32) keeps sign and payload (<< 29) and sets the quiet bit
	0xffc00000, 0x7f800001, 0xff800001, 0x7fffffff, 0xff807e00, 0x7fa00000, 0x7fc00001, 0x007fffff, 0x00800000}

var c03Words = []string{"", "a", "b", "name", "null", "true", "1", "k k", "é", "class", "[1,2]", "id", "z", "Name", "NAME", "A", "B", "Class", "[]", "{}", "17"}

func c03JSON(r *rand.Rand) string {
	var v interface{}
	shape := "any"
	if r.Intn(2) == 0 {
		return c03JSONX(r) // elements from the hostile pools, values built from raw args
	}
	switch r.Intn(11) {
	case 7:
		// the JSON text "[1,2]" is also a string value of c03Words: both share one table entry
		v, shape = []int{1, 2}, "ints"
	case 8:
		return "j:nilints:" + c03H("null") // typed nil slice: json.Marshal gives "null", shared with nil and "null"
	case 9:
		if r.Intn(2) == 0 {
			return "j:nilstrs:" + c03H("null")
		}
		return "j:nilmapf:" + c03H("null")
	case 10:
		v, shape = []string{}, "strs" // "[]", also a string value of c03Words
	case 0:
		v = []interface{}{}
	case 1:
		v = []interface{}{1.0, "a", nil, true}
	case 2:
		v = map[string]interface{}{"b": 2.5, "a": []interface{}{"x"}}
	case 3:
		v, shape = []int{1, -2, 3}, "ints"
	case 4:
		v, shape = []string{"p", "q r"}, "strs"
	case 5:
		v, shape = map[string]float64{"z": 1, "y": -0.5}, "mapf"
	default:
		v = map[string]interface{}{}
	}
	text, err := json.Marshal(v)
	if err != nil {
		panic(err)
	}
	return "j:" + shape + ":" + c03H(string(text))
}

// c03PVal draws a property value token; wf excludes the values outside the quantifier
// (unsupported types, failing JSON) and the negative zeros (their own family).
func c03PVal(r *rand.Rand, wf bool) string {
	n := 12
	if !wf {
		n = 15
	}
	switch r.Intn(n) {
	case 0, 1:
		return "s:" + c03H(c03Words[r.Intn(len(c03Words))])
	case 2:
		return "b:" + strconv.Itoa(r.Intn(2))
	case 3, 4:
		k := r.Intn(5)
		return "i:" + c03SKinds[k] + ":" + c03Int(r, c03SBits[k], true)
	case 5, 6:
		k := r.Intn(5)
		return "u:" + c03UKinds[k] + ":" + c03Int(r, c03SBits[k], false)
	case 7:
		if r.Intn(2) == 0 {
			return fmt.Sprintf("f32:%08x", c03F32Pool[r.Intn(len(c03F32Pool))])
		}
		return fmt.Sprintf("f32:%08x", math.Float32bits(float32(r.Intn(64)-32)/4))
	case 8, 9:
		if r.Intn(2) == 0 {
			return fmt.Sprintf("f64:%016x", c03F64Pool[r.Intn(len(c03F64Pool))])
		}
		if r.Intn(2) == 0 {
			return "f64:" + fb(float64(r.Intn(64)-32)/4)
		}
		return "f64:" + fb(coord(r, CoordFloat))
	case 10:
		return "nil"
	case 11:
		return c03JSON(r)
	case 12:
		if r.Intn(2) == 0 {
			return "jbad:" + strconv.Itoa(r.Intn(7))
		}
		return "jbad"
	case 13:
		if r.Intn(2) == 0 {
			// a comparable fmt.Stringer: its own table entry even when the text equals a string value
			if r.Intn(3) == 0 {
				return "str:2:" + c03H(strconv.Itoa(r.Intn(40)-3))
			}
			return "str:" + strconv.Itoa(r.Intn(2)) + ":" + c03H(c03Words[r.Intn(len(c03Words))])
		}
		return "x:" + strconv.Itoa(r.Intn(14))
	default:
		if r.Intn(2) == 0 {
			return "f64:8000000000000000"
		}
		return "f32:80000000"
	}
}

func c03Props(r *rand.Rand, wf bool) []c03Prop {
	n := r.Intn(5)
	if r.Intn(8) == 0 {
		n = 0
	}
	seen := map[string]bool{}
	var ps []c03Prop
	for i := 0; i < n; i++ {
		k := c03Words[r.Intn(len(c03Words))]
		if seen[k] {
			continue
		}
		seen[k] = true
		ps = append(ps, c03Prop{k, c03PVal(r, wf)})
	}
	return ps
}

func c03IDTok(r *rand.Rand, wf bool) string {
	n := 4
	if !wf {
		n = 9
	}
	switch r.Intn(n) {
	case 0, 1:
		return "-"
	case 2:
		k := r.Intn(5)
		v := r.Int63n(1 << 20)
		if k == 1 {
			v %= 128
		} else if k == 2 {
			v %= 1 << 15
		} else if k != 3 && r.Intn(3) == 0 {
			v = r.Int63n(1 << 53)
		}
		return "i:" + c03SKinds[k] + ":" + strconv.FormatInt(v, 10)
	case 3:
		k := r.Intn(5)
		v := uint64(r.Int63n(1 << 20))
		if k == 1 {
			v %= 256
		} else if k == 2 {
			v %= 1 << 16
		} else if k != 3 && r.Intn(3) == 0 {
			v = uint64(r.Int63n(1 << 53))
		}
		return "u:" + c03UKinds[k] + ":" + strconv.FormatUint(v, 10)
	case 4:
		k := r.Intn(5)
		return "i:" + c03SKinds[k] + ":" + c03Int(r, c03SBits[k], true)
	case 5:
		k := r.Intn(5)
		return "u:" + c03UKinds[k] + ":" + c03Int(r, c03SBits[k], false)
	case 6:
		fs := []float64{0, 1, 2.9, -0.5, -1, -2.5, 1e15, 9.007199254740993e15, 1e19, -1e19, 9.3e18, math.Inf(1), math.Inf(-1), math.NaN(), 4294967296.75}
		f := fs[r.Intn(len(fs))]
		if r.Intn(3) == 0 {
			return fmt.Sprintf("f32:%08x", math.Float32bits(float32(f)))
		}
		return "f64:" + fb(f)
	case 7:
		ss := []string{"12", "-3", "+7", "abc", "", "007", "9223372036854775807", "9223372036854775808", "-9223372036854775808", "1_000", " 5", "5 ", "0x10", "-", "+", "-0", "1e3", "٣"}
		return "s:" + c03H(ss[r.Intn(len(ss))])
	default:
		return "o"
	}
}

func c03Coord(r *rand.Rand, mode int) float64 {
	switch mode {
	case 0:
		return float64(r.Intn(17) - 8)
	case 1:
		return float64(r.Intn(4300) - 100)
	default:
		return float64(r.Int63n(1<<29-1) - (1<<28 - 1))
	}
}

func c03Pt(r *rand.Rand, mode int) orb.Point {
	return orb.Point{c03Coord(r, mode), c03Coord(r, mode)}
}

func c03Pts(r *rand.Rand, mode, min, max int) []orb.Point {
	n := min + r.Intn(max-min+1)
	ps := make([]orb.Point, n)
	for i := range ps {
		if i > 0 && r.Intn(8) == 0 {
			ps[i] = ps[r.Intn(i)]
		} else {
			ps[i] = c03Pt(r, mode)
		}
	}
	return ps
}

// c03Area2 is the exact doubled shoelace area with the origin shift of Ring.Orientation.
func c03Area2(ps []orb.Point) (sign int) {
	// |coord| < 2^28: differences < 2^29, products < 2^58, sums of < 32 terms < 2^63.
	var a int64
	ox, oy := int64(ps[0][0]), int64(ps[0][1])
	for i := 1; i < len(ps)-1; i++ {
		a += (int64(ps[i][0])-ox)*(int64(ps[i+1][1])-oy) - (int64(ps[i+1][0])-ox)*(int64(ps[i][1])-oy)
	}
	switch {
	case a > 0:
		return 1
	case a < 0:
		return -1
	}
	return 0
}

// c03Ring makes a closed ring with the wanted shoelace sign whose closing vertex is not doubled.
func c03Ring(r *rand.Rand, mode int, want int) orb.Ring {
	for {
		ps := c03Pts(r, mode, 3, 6)
		if ps[len(ps)-1] == ps[0] {
			continue
		}
		ps = append(ps, ps[0])
		s := c03Area2(ps)
		if s == 0 {
			continue
		}
		if s != want {
			for i, j := 0, len(ps)-1; i < j; i, j = i+1, j-1 {
				ps[i], ps[j] = ps[j], ps[i]
			}
			if ps[len(ps)-2] == ps[0] {
				continue
			}
		}
		return orb.Ring(ps)
	}
}

func c03Polygon(r *rand.Rand, mode int) orb.Polygon {
	p := orb.Polygon{c03Ring(r, mode, 1)}
	for i := r.Intn(3); i > 0; i-- {
		p = append(p, c03Ring(r, mode, -1))
	}
	return p
}

// c03WFGeom draws a non-collection geometry of the quantifier.
func c03WFGeom(r *rand.Rand) orb.Geometry {
	mode := r.Intn(3)
	switch r.Intn(8) {
	case 0:
		return c03Pt(r, mode)
	case 1:
		return orb.MultiPoint(c03Pts(r, mode, 1, 4))
	case 2:
		return orb.LineString(c03Pts(r, mode, 1, 5))
	case 3:
		m := make(orb.MultiLineString, 1+r.Intn(3))
		for i := range m {
			m[i] = orb.LineString(c03Pts(r, mode, 1, 4))
		}
		return m
	case 4:
		return c03Ring(r, mode, 1)
	case 5:
		return c03Polygon(r, mode)
	case 6:
		m := make(orb.MultiPolygon, 1+r.Intn(3))
		for i := range m {
			m[i] = c03Polygon(r, mode)
		}
		return m
	default:
		for {
			a, b := c03Pt(r, mode), c03Pt(r, mode)
			if a[0] == b[0] || a[1] == b[1] {
				continue
			}
			if a[0] > b[0] {
				a[0], b[0] = b[0], a[0]
			}
			if a[1] > b[1] {
				a[1], b[1] = b[1], a[1]
			}
			return orb.Bound{Min: a, Max: b}
		}
	}
}

// c03AnyGeom draws from the non-well-formed stream: empty parts, open / degenerate / wrongly
// wound rings, large and fractional coordinates, typed nil slices, collections.
func c03AnyGeom(r *rand.Rand, depth int) orb.Geometry {
	switch r.Intn(10) {
	case 0:
		return c03WFGeom(r)
	case 1:
		// integer coordinates over the whole int32 range: deltas wrap
		g := genGeom(r, GenOpts{Mode: CoordSmallInt, MaxPts: 4, MaxDepth: 0}, 0)
		forEachVertex(g, func(p *orb.Point) {
			if r.Intn(2) == 0 {
				p[0] = float64(r.Int63n(1<<32-1) - (1<<31 - 1))
				p[1] = float64(r.Int63n(1<<32-1) - (1<<31 - 1))
			}
		})
		return g
	case 2:
		// fractional coordinates: int32() truncates toward zero
		g := genGeom(r, GenOpts{Mode: CoordHalf, MaxPts: 4, MaxDepth: 0}, 0)
		return g
	case 3:
		if depth > 0 {
			return c03WFGeom(r)
		}
		n := r.Intn(4)
		c := make(orb.Collection, n)
		for i := range c {
			if r.Intn(6) == 0 {
				c[i] = c03AnyGeom(r, depth+1)
			} else {
				c[i] = c03WFGeom(r)
			}
		}
		if r.Intn(10) == 0 {
			c = append(c, orb.Collection{orb.Point{1, 2}})
		}
		return c
	default:
		return genGeom(r, GenOpts{Mode: CoordSmallInt, MaxPts: 5, MaxDepth: 0, TopNil: depth == 0}, depth)
	}
}

func c03GenLayers(r *rand.Rand, wf bool) []c03Layer {
	nl := 1 + r.Intn(3)
	if r.Intn(40) == 0 {
		nl = 0
	}
	ls := make([]c03Layer, nl)
	for i := range ls {
		l := &ls[i]
		l.name = c03Words[r.Intn(len(c03Words))]
		l.version = uint32(1 + r.Intn(2))
		l.extent = uint32(256 << uint(r.Intn(6)))
		if !wf && r.Intn(4) == 0 {
			l.version = r.Uint32()
			l.extent = r.Uint32()
		}
		nf := 1 + r.Intn(4)
		if r.Intn(12) == 0 {
			nf = 0
		}
		l.feats = make([]c03Feat, nf)
		for j := range l.feats {
			f := &l.feats[j]
			f.id = c03IDTok(r, wf)
			f.props = c03Props(r, wf)
			if len(f.props) == 0 && r.Intn(2) == 0 {
				f.nilProps = true
			}
			switch {
			case wf && r.Intn(10) == 0:
				f.geom = nil
			case wf && r.Intn(12) == 0:
				f.geom = orb.Collection{c03WFGeom(r)}
			case wf:
				f.geom = c03WFGeom(r)
			default:
				f.geom = c03AnyGeom(r, 0)
			}
		}
	}
	return ls
}

func c03One(name string, g orb.Geometry, props ...c03Prop) []c03Layer {
	return []c03Layer{{name: name, version: 2, extent: 4096, feats: []c03Feat{{id: "-", geom: g, props: props}}}}
}

// c03Fixed lists the deterministic families: the recorded findings and the boundary shapes.
func c03Fixed() [][]c03Layer {
	sq := orb.Ring{{0, 0}, {4, 0}, {4, 4}, {0, 4}, {0, 0}}
	hole := orb.Ring{{1, 1}, {1, 2}, {2, 2}, {2, 1}, {1, 1}}
	var out [][]c03Layer
	// collections: 0, 1, 2, 3 members, nested
	out = append(out,
		c03One("c0", orb.Collection{}),
		c03One("c1", orb.Collection{orb.Point{1, 2}}),
		c03One("c2", orb.Collection{orb.Point{1, 2}, orb.LineString{{0, 0}, {3, 4}}}),
		c03One("c3", orb.Collection{orb.Point{1, 2}, orb.LineString{{0, 0}, {3, 4}}, orb.Polygon{sq}}),
		c03One("cn", orb.Collection{orb.Collection{orb.Point{1, 2}}}),
	)
	// rings whose closing vertex is doubled
	a, b, c := orb.Point{0, 0}, orb.Point{5, 0}, orb.Point{0, 5}
	out = append(out,
		c03One("dup", orb.Ring{a, b, c, a, a}),
		c03One("dup", orb.Polygon{{a, b, c, a, a}}),
		c03One("dup", orb.Polygon{sq, {{1, 1}, {1, 2}, {2, 2}, {1, 1}, {1, 1}}}),
		c03One("dup", orb.MultiPolygon{{sq}, {{{10, 10}, {15, 10}, {10, 15}, {10, 10}, {10, 10}}}}),
	)
	// thin counter-clockwise triangles at large coordinates: the float shoelace of
	// Ring.Orientation rounds to zero although the exact area is positive
	k := float64(1 << 27)
	thin := orb.Ring{{0, 0}, {k, k - 1}, {k + 1, k}, {0, 0}}
	thin2 := orb.Ring{{-k, -k}, {0, -1}, {1, 0}, {-k, -k}}
	out = append(out,
		c03One("thin", orb.MultiPolygon{{sq}, {thin}}),
		c03One("thin", orb.MultiPolygon{{sq, hole}, {thin2}}),
		c03One("thin", orb.MultiPolygon{{thin}, {sq}}),
		c03One("thin", orb.Polygon{thin}),
	)
	// negative zeros next to positive ones
	z, nz := "f64:0000000000000000", "f64:8000000000000000"
	z32, nz32 := "f32:00000000", "f32:80000000"
	out = append(out,
		c03One("nz", orb.Point{1, 1}, c03Prop{"a", z}, c03Prop{"b", nz}),
		c03One("nz", orb.Point{1, 1}, c03Prop{"a", nz}, c03Prop{"b", z}),
		c03One("nz", orb.Point{1, 1}, c03Prop{"a", z32}, c03Prop{"b", nz32}),
		c03One("nz", orb.Point{1, 1}, c03Prop{"a", nz}),
		c03One("nz", orb.Point{1, 1}, c03Prop{"a", z}, c03Prop{"b", nz32}),
		[]c03Layer{{name: "nz", version: 1, extent: 4096, feats: []c03Feat{
			{id: "-", geom: orb.Point{1, 1}, props: []c03Prop{{"a", z}}},
			{id: "-", geom: orb.Point{2, 2}, props: []c03Prop{{"a", nz}}}}}},
	)
	// boundary shapes outside the quantifier
	out = append(out,
		c03One("e", orb.MultiPoint{}),
		c03One("e", orb.LineString{}),
		c03One("e", orb.MultiLineString{}),
		c03One("e", orb.MultiLineString{{}}),
		c03One("e", orb.Ring{}),
		c03One("e", orb.Polygon{}),
		c03One("e", orb.Polygon{{}}),
		c03One("e", orb.MultiPolygon{}),
		c03One("e", orb.MultiPolygon{{}}),
		c03One("e", orb.LineString{{1, 1}}),
		c03One("e", orb.Ring{{1, 1}}),
		c03One("e", orb.Ring{{1, 1}, {2, 2}}),
		c03One("e", orb.Ring{{0, 0}, {4, 0}, {4, 4}}),
		c03One("e", orb.Bound{Min: orb.Point{1, 1}, Max: orb.Point{1, 1}}),
		c03One("e", orb.Bound{Min: orb.Point{3, 3}, Max: orb.Point{1, 1}}),
		[]c03Layer{{name: "two", version: 1, extent: 256, feats: []c03Feat{
			{id: "-", geom: orb.MultiPoint{{1, 1}, {2, 2}, {3, 3}}},
			{id: "-", geom: orb.MultiLineString{}}}}},
		[]c03Layer{{name: "two", version: 1, extent: 256, feats: []c03Feat{
			{id: "-", geom: orb.Point{1, 1}},
			{id: "-", geom: orb.MultiPolygon{}},
			{id: "-", geom: orb.Polygon{}}}}},
	)
	// every integer / float kind in one map, the same number under different Go types
	var all []c03Prop
	for i, kd := range c03SKinds {
		all = append(all, c03Prop{"s" + strconv.Itoa(i), "i:" + kd + ":1"})
	}
	for i, kd := range c03UKinds {
		all = append(all, c03Prop{"u" + strconv.Itoa(i), "u:" + kd + ":1"})
	}
	all = append(all, c03Prop{"f", "f32:3f800000"}, c03Prop{"d", "f64:3ff0000000000000"}, c03Prop{"t", "b:1"},
		c03Prop{"n", "nil"}, c03Prop{"ns", "s:" + c03H("null")}, c03Prop{"one", "s:" + c03H("1")},
		c03Prop{"big", "i:int64:-9223372036854775808"}, c03Prop{"ubig", "u:uint64:18446744073709551615"},
		c03Prop{"odd", "u:uint64:9007199254740993"}, c03Prop{"nan", "f64:7ff8000000000000"}, c03Prop{"nan2", "f64:7ff8000000000000"})
	out = append(out, c03One("kinds", orb.Point{1, 1}, all...))
	// --- review round 1 ---
	// a JSON text equal to an existing string value shares its table entry (both orders, two features)
	j12 := "j:ints:" + c03H("[1,2]")
	s12 := "s:" + c03H("[1,2]")
	out = append(out,
		c03One("jt", orb.Point{1, 1}, c03Prop{"a", s12}, c03Prop{"b", j12}),
		c03One("jt", orb.Point{1, 1}, c03Prop{"a", j12}, c03Prop{"b", s12}),
		[]c03Layer{{name: "jt", version: 2, extent: 4096, feats: []c03Feat{
			{id: "-", geom: orb.Point{1, 1}, props: []c03Prop{{"a", j12}, {"n", "nil"}}},
			{id: "-", geom: orb.Point{2, 2}, props: []c03Prop{{"a", s12}, {"n", "s:" + c03H("null")}, {"m", "j:nilints:" + c03H("null")}, {"o", "j:nilmapf:" + c03H("null")}}}}}},
		c03One("tn", orb.Point{1, 1}, c03Prop{"a", "j:nilints:" + c03H("null")}, c03Prop{"b", "nil"}, c03Prop{"c", "j:nilstrs:" + c03H("null")}),
	)
	// key / value table indexes >= 16 and >= 128 (two-byte tag varints) re-used by a second and third feature
	for _, n := range []int{20, 40, 130, 300} {
		var p1, p2, p3 []c03Prop
		for i := 0; i < n; i++ {
			k := fmt.Sprintf("k%03d", i)
			p1 = append(p1, c03Prop{k, fmt.Sprintf("i:int:%d", 1000+i)})
			p2 = append(p2, c03Prop{k, fmt.Sprintf("i:int:%d", 1000+(i*7+3)%n)}) // same keys, the values permuted
			if i%3 != 0 {
				p3 = append(p3, c03Prop{k, fmt.Sprintf("i:int:%d", 1000+(n-1-i))})
			}
		}
		p3 = append(p3, c03Prop{"zz", "s:" + c03H("new")})
		out = append(out, []c03Layer{{name: "many", version: 2, extent: 4096, feats: []c03Feat{
			{id: "-", geom: orb.Point{1, 1}, props: p1},
			{id: "-", geom: orb.Point{2, 2}, props: p2},
			{id: "-", geom: orb.Point{3, 3}, props: p3}}}})
	}
	// comparable fmt.Stringer values: own entries, not shared with the equal string / between types
	sx := c03H("x")
	out = append(out,
		c03One("str", orb.Point{1, 1}, c03Prop{"a", "str:0:" + sx}, c03Prop{"b", "s:" + sx}, c03Prop{"c", "str:1:" + sx}, c03Prop{"d", "str:0:" + sx}),
		c03One("str", orb.Point{1, 1}, c03Prop{"a", "str:2:" + c03H("17")}, c03Prop{"b", "i:int:17"}, c03Prop{"c", "s:" + c03H("17")}, c03Prop{"d", "str:2:" + c03H("17")}),
	)
	// a nil Properties map; a lone negative zero of each float type (bit-exact); −0 next to +0 of the OTHER type
	out = append(out,
		[]c03Layer{{name: "np", version: 2, extent: 4096, feats: []c03Feat{{id: "-", geom: orb.Point{1, 1}, nilProps: true}, {id: "i:int:3", geom: orb.LineString{{0, 0}, {1, 1}}, nilProps: true}}}},
		c03One("lz", orb.Point{1, 1}, c03Prop{"a", nz32}),
		c03One("lz", orb.Point{1, 1}, c03Prop{"a", nz}, c03Prop{"b", z32}, c03Prop{"c", nz}),
		[]c03Layer{
			{name: "lz1", version: 1, extent: 4096, feats: []c03Feat{{id: "-", geom: orb.Point{1, 1}, props: []c03Prop{{"a", nz}}}}},
			{name: "lz2", version: 1, extent: 4096, feats: []c03Feat{{id: "-", geom: orb.Point{1, 1}, props: []c03Prop{{"a", z}}}}}},
	)
	// float32 NaNs with sign / payload / signalling bit, float64 NaNs with payload
	var nans []c03Prop
	for i, b := range []uint32{0x7fc00000, 0xffc00000, 0x7f800001, 0xff800001, 0x7fffffff, 0xff807e00, 0x7fa00000} {
		nans = append(nans, c03Prop{fmt.Sprintf("n%d", i), fmt.Sprintf("f32:%08x", b)})
	}
	for i, b := range []uint64{0xfff8000000000000, 0x7ff0000000000001, 0x7fffffffffffffff, 0x7ff8000020000000} {
		nans = append(nans, c03Prop{fmt.Sprintf("d%d", i), fmt.Sprintf("f64:%016x", b)})
	}
	out = append(out, c03One("nan", orb.Point{1, 1}, nans...))
	// ids at and above 2^53: Unmarshal returns float64(id)
	for _, id := range []string{"u:uint64:9007199254740992", "u:uint64:9007199254740993", "i:int64:9007199254740993", "u:uint64:9007199254740995",
		"u:uint64:1152921504606846976", "u:uint64:18446744073709551615", "i:int64:9223372036854775807"} {
		ls := c03One("bigid", orb.Point{1, 2})
		ls[0].feats[0].id = id
		out = append(out, ls)
	}
	// rings with fractional coordinates: Closed() is decided on the float64 points, the command
	// words are built from the int32 truncations (open as floats, closed after truncation; and the reverse order)
	out = append(out,
		c03One("fr", orb.Ring{{0.5, 0}, {4, 0}, {4, 4}, {0, 0}}),
		c03One("fr", orb.Ring{{0, 0}, {4, 0}, {4, 4}, {0.5, 0.25}}),
		c03One("fr", orb.Polygon{{{0.5, 0}, {4, 0}, {4, 4}, {0, 0}}, {{1, 1}, {1, 2}, {2, 2}, {1.75, 1.5}}}),
		c03One("fr", orb.MultiPolygon{{{{-0.5, 0}, {4, 0}, {4, 4}, {0, 4}, {0.5, -0.5}}}, {{{10, 10}, {15, 10}, {10, 15}, {10, 10}}}}),
		c03One("fr", orb.Ring{{0.5, 0}, {4, 0}, {4, 4}, {0.5, 0}}),
		c03One("fr", orb.Ring{{0.5, 0}, {4, 0}, {0, 0}}),
		c03One("fr", orb.Collection{orb.Ring{{0.5, 0}, {4, 0}, {4, 4}, {0, 0}}}),
		c03One("fr", orb.Point{1.5, 2.5}),
		c03One("fr", orb.LineString{{-0.5, 0.5}, {2.75, -3.25}}),
	)
	// nested collections: in the quantifier's reading every leaf is a member
	out = append(out,
		c03One("cn", orb.Collection{orb.Point{1, 2}, orb.Collection{orb.LineString{{0, 0}, {3, 4}}}}),
		c03One("cn", orb.Collection{orb.Collection{}}),
		c03One("cn", orb.Collection{orb.Collection{orb.Collection{orb.Point{1, 2}}}}),
	)
	return out
}

func genC03(c *Ctx) {
	if os.Getenv("C03_HOSTILE") != "" {
		genMVTHostile(c, func(input string) { c.Case("hostile", input) })
		return
	}
	rng := c.Rng
	for i, ls := range c03Fixed() {
		if c.Mine(i) {
			c.Case("rt", c03ShowLayers(ls))
		}
	}
	n := 1000
	// zigzag boundary deltas at the command-word level: a line from (x0,0) to (x0+d,0)
	var ds []int64
	for k := uint(0); k <= 31; k++ {
		for _, e := range []int64{-1, 0, 1} {
			ds = append(ds, int64(1)<<k+e, -(int64(1)<<k)+e)
		}
	}
	for _, d := range ds {
		for _, x0 := range []int64{0, 1, -1, 1<<28 - 1, -(1<<28 - 1), 1<<31 - 1, -(1 << 31)} {
			x1 := x0 + d
			if x1 > 1<<31-1 || x1 < -(1<<31) {
				continue
			}
			n++
			if c.Mine(n) {
				c.Case("rt", c03ShowLayers(c03One("d", orb.LineString{{float64(x0), 0}, {float64(x1), float64(d % 1000)}})))
			}
		}
	}
	// every triangle of a 3x3 grid as the ring after a square: first ring / new polygon / hole
	sq := orb.Ring{{0, 0}, {4, 0}, {4, 4}, {0, 4}, {0, 0}}
	for a := 0; a < 9; a++ {
		for b := 0; b < 9; b++ {
			for d := 0; d < 9; d++ {
				n++
				if !c.Mine(n) {
					continue
				}
				p := func(i int) orb.Point { return orb.Point{float64(1 + i%3), float64(1 + i/3)} }
				tri := orb.Ring{p(a), p(b), p(d), p(a)}
				c.Case("rt", c03ShowLayers(c03One("t", orb.MultiPolygon{{sq}, {tri}})))
				if (a+b+d)%3 == 0 {
					c.Case("rt", c03ShowLayers(c03One("t", orb.Polygon{tri, sq})))
				}
			}
		}
	}
	// small rings far from the origin; highly repetitive (and equally large incompressible) tiles
	// through the gzipped round trip (c03_far_rep.go)
	c03FarFixed(c, &n)
	c03RepFixed(c, &n)
	// slice / map / Marshaler property values with hostile elements (c03_json.go)
	c03JSONFixed(c, &n)
	// mvt.Marshal(mvt.NewLayers(map)) repeated on one map
	genC03NewLayers(c, &n)
	for i := 0; i < c.Budget && !c.Exhausted(); i++ {
		c.Case("rt", c03ShowLayers(c03GenLayers(rng, i%3 != 2)))
		if i%4 == 0 {
			c.Case("rt", c03ShowLayers(c03FarRandom(rng)))
		}
		if i%100 == 1 {
			c.Case("rt", c03ShowLayers(c03RepRandom(rng)))
		}
	}
	genC03Wire(c)
}

// ---------------------------------------------------------------- hostile tiles (C05)

func mvtAllocOf(f func()) uint64 {
	var ms runtime.MemStats
	runtime.ReadMemStats(&ms)
	a0 := ms.TotalAlloc
	f()
	runtime.ReadMemStats(&ms)
	return ms.TotalAlloc - a0
}

func mvtWalk(ls mvt.Layers) {
	n := 0
	for _, l := range ls {
		n += len(l.Name)
		for _, f := range l.Features {
			n += len(gs(f.Geometry))
			for k, v := range f.Properties {
				n += len(k) + len(c03ShowDVal(v))
			}
			if f.Geometry != nil {
				_ = f.Geometry.Bound()
			}
		}
	}
	_ = n
}

// mvtMeasure runs f under guard with a TotalAlloc delta; a suspicious delta is measured again
// (up to three more times) and the smallest one kept: other goroutines of the harness
// allocate too, the decoders are deterministic.
func mvtMeasure(n int, f func() string) (string, uint64) {
	var class string
	alloc := mvtAllocOf(func() { class = guard(f) })
	for try := 0; try < 3 && alloc > uint64(8*n+2048); try++ { // no upper bound: noise of any size is re-measured (DESIGN 9.3)
		a2 := mvtAllocOf(func() { class = guard(f) })
		if a2 < alloc {
			alloc = a2
		}
	}
	return class, alloc
}

// mvtCanonical: the bytes are exactly the encoding of the known fields (gogo keeps unknown
// fields and extensions and writes them back, so the tile is rebuilt from the known fields only).
func mvtCanonical(vt *vectortile.Tile, data []byte) bool {
	cp := &vectortile.Tile{}
	for _, l := range vt.Layers {
		if l == nil {
			return false
		}
		nl := &vectortile.Tile_Layer{Version: l.Version, Name: l.Name, Keys: l.Keys, Extent: l.Extent}
		for _, f := range l.Features {
			if f == nil {
				return false
			}
			nl.Features = append(nl.Features, &vectortile.Tile_Feature{Id: f.Id, Tags: f.Tags, Type: f.Type, Geometry: f.Geometry})
		}
		for _, v := range l.Values {
			if v == nil {
				return false
			}
			nl.Values = append(nl.Values, &vectortile.Tile_Value{StringValue: v.StringValue, FloatValue: v.FloatValue,
				DoubleValue: v.DoubleValue, IntValue: v.IntValue, UintValue: v.UintValue, SintValue: v.SintValue, BoolValue: v.BoolValue})
		}
		cp.Layers = append(cp.Layers, nl)
	}
	back, err := cp.Marshal()
	return err == nil && bytes.Equal(back, data)
}

// runMVTHostile: input = the tile bytes as hex ("empty" for no bytes).
func runMVTHostile(in []string) string {
	if len(in) != 1 {
		return "badinput"
	}
	var data []byte
	if in[0] != "empty" {
		var err error
		data, err = hex.DecodeString(in[0])
		if err != nil {
			return "badinput"
		}
	}
	// the decode call is measured; the walk over the result (which allocates strings) is not
	var last mvt.Layers
	dec := func(f func([]byte) (mvt.Layers, error)) func() string {
		return func() string {
			last = nil
			ls, err := f(data)
			if err != nil {
				return "err:" + c03ErrClass(err)
			}
			last = ls
			return "ok"
		}
	}
	walk := func(class string) string {
		if class != "ok" {
			return class
		}
		if w := guard(func() string { mvtWalk(last); return "" }); w != "" {
			return "panic-walk"
		}
		return class
	}
	uc, ua := mvtMeasure(len(data), dec(mvt.Unmarshal))
	uc = walk(uc)
	declen := 0
	if zr, err := gzip.NewReader(bytes.NewReader(data)); err == nil {
		if d, err := ioutil.ReadAll(zr); err == nil {
			declen = len(d)
		}
	}
	var gc string
	var ga uint64
	if len(data) >= 2 && data[0] == 0x1f && data[1] == 0x8b {
		gc, ga = mvtMeasure(len(data)+declen, dec(mvt.UnmarshalGzipped))
	} else {
		gc = guard(dec(mvt.UnmarshalGzipped)) // fails on the missing gzip header; not measured
	}
	gc = walk(gc)
	out := fmt.Sprintf("U %s %d ; G %s %d %d", uc, ua, gc, ga, declen)
	// the tile structure, when the bytes are exactly its canonical encoding
	var vt vectortile.Tile
	if len(data) < 4096 && vt.Unmarshal(data) == nil {
		if mvtCanonical(&vt, data) {
			out += " ; VT " + c03ShowVT(&vt)
		}
	}
	return out
}

// --- a minimal protobuf wire writer, so that absent / doubled / unpacked fields can be produced

type mvtW struct{ b []byte }

func (w *mvtW) varint(v uint64) {
	for v >= 0x80 {
		w.b = append(w.b, byte(v)|0x80)
		v >>= 7
	}
	w.b = append(w.b, byte(v))
}
func (w *mvtW) key(field, wt int)          { w.varint(uint64(field<<3 | wt)) }
func (w *mvtW) vfield(field int, v uint64) { w.key(field, 0); w.varint(v) }
func (w *mvtW) bytes(field int, p []byte) {
	w.key(field, 2)
	w.varint(uint64(len(p)))
	w.b = append(w.b, p...)
}
func (w *mvtW) packed(field int, vs []uint32) {
	var p mvtW
	for _, v := range vs {
		p.varint(uint64(v))
	}
	w.bytes(field, p.b)
}

type mvtRawFeature struct {
	id                    *uint64
	tags, geom            []uint32
	typ                   *int32
	noTags, noGeom        bool // drop the field even if non-empty
	emptyGeom, dupGeom    bool // present-but-empty field / field written twice
	unpackedGeom, typLast bool
}

func (f *mvtRawFeature) encode() []byte {
	var w mvtW
	if f.id != nil {
		w.vfield(1, *f.id)
	}
	if !f.noTags && len(f.tags) > 0 {
		w.packed(2, f.tags)
	}
	if f.typ != nil && !f.typLast {
		w.vfield(3, uint64(uint32(*f.typ)))
	}
	switch {
	case f.noGeom:
	case f.emptyGeom:
		w.bytes(4, nil)
	case f.unpackedGeom:
		for _, v := range f.geom {
			w.vfield(4, uint64(v))
		}
	default:
		if len(f.geom) > 0 {
			w.packed(4, f.geom)
		}
		if f.dupGeom {
			w.packed(4, f.geom)
		}
	}
	if f.typ != nil && f.typLast {
		w.vfield(3, uint64(uint32(*f.typ)))
	}
	return w.b
}

func mvtRawTile(r *rand.Rand, vt *vectortile.Tile, mutate func(li, fi int, f *mvtRawFeature)) []byte {
	var t mvtW
	for li, l := range vt.Layers {
		var w mvtW
		drop := -1
		if r.Intn(6) == 0 {
			drop = r.Intn(4)
		}
		if drop != 0 {
			w.vfield(15, uint64(l.GetVersion()))
		}
		if drop != 1 {
			w.bytes(1, []byte(l.GetName()))
		}
		for fi, f := range l.Features {
			rf := &mvtRawFeature{id: f.Id, tags: f.Tags, geom: f.Geometry}
			if f.Type != nil {
				ty := int32(*f.Type)
				rf.typ = &ty
			}
			mutate(li, fi, rf)
			w.bytes(2, rf.encode())
		}
		for _, k := range l.Keys {
			w.bytes(3, []byte(k))
		}
		for _, v := range l.Values {
			b, _ := v.Marshal()
			if r.Intn(20) == 0 {
				b = nil
			}
			w.bytes(4, b)
		}
		if drop != 2 && l.Extent != nil {
			w.vfield(5, uint64(*l.Extent))
		}
		t.bytes(3, w.b)
	}
	return t.b
}

func mvtGzip(b []byte) []byte {
	var buf bytes.Buffer
	zw := gzip.NewWriter(&buf)
	zw.Write(b)
	zw.Close()
	return buf.Bytes()
}

// mvtBaseTile marshals a generated layer list (retrying until Marshal accepts it).
func mvtBaseTile(r *rand.Rand) []byte {
	for {
		ls := c03GenLayers(r, r.Intn(4) != 0)
		if len(ls) == 0 {
			continue
		}
		data, class := c03Marshal(ls, 0, false)
		if class == "ok" && len(data) > 0 {
			return data
		}
	}
}

var mvtCounts = []uint32{0, 1, 2, 3, 100, 1 << 10, 1 << 12, 1 << 16, 1<<16 + 1, 1 << 20}

// mvtMutateStruct changes command words / tags / types in the decoded structure.
func mvtMutateStruct(r *rand.Rand, vt *vectortile.Tile) {
	for _, l := range vt.Layers {
		for _, f := range l.Features {
			if r.Intn(2) == 0 {
				continue
			}
			switch r.Intn(9) {
			case 0: // count inflation in a command word
				if len(f.Geometry) > 0 {
					i := r.Intn(len(f.Geometry))
					f.Geometry[i] = f.Geometry[i]&7 | mvtCounts[r.Intn(len(mvtCounts))]<<3
				}
			case 1: // first command word: any id, inflated count
				if len(f.Geometry) > 0 {
					f.Geometry[0] = uint32(r.Intn(8)) | mvtCounts[r.Intn(len(mvtCounts))]<<3
				}
			case 2: // command id change
				if len(f.Geometry) > 0 {
					i := r.Intn(len(f.Geometry))
					f.Geometry[i] = f.Geometry[i]&^7 | uint32(r.Intn(8))
				}
			case 3: // geometry type change
				t := vectortile.Tile_GeomType([]int32{0, 1, 2, 3, 4, -1}[r.Intn(6)])
				f.Type = &t
				if r.Intn(4) == 0 {
					f.Type = nil
				}
			case 4: // truncate / drop the geometry
				if len(f.Geometry) > 0 {
					f.Geometry = f.Geometry[:r.Intn(len(f.Geometry))]
				}
			case 5: // tags: odd length, out of range
				f.Tags = append(f.Tags, uint32(r.Intn(4)))
				if r.Intn(2) == 0 {
					f.Tags = append(f.Tags, r.Uint32())
				}
			case 6: // random word
				if len(f.Geometry) > 0 {
					f.Geometry[r.Intn(len(f.Geometry))] = r.Uint32()
				}
			case 7: // doubled geometry
				f.Geometry = append(f.Geometry, f.Geometry...)
			case 8: // a ClosePath-with-count point feature (the allocation class)
				t := vectortile.Tile_POINT
				f.Type = &t
				f.Geometry = []uint32{7 | mvtCounts[r.Intn(len(mvtCounts))]<<3, uint32(r.Intn(10))}
			}
		}
		if r.Intn(8) == 0 && len(l.Features) > 0 {
			l.Features = append(l.Features, l.Features[r.Intn(len(l.Features))])
		}
		if r.Intn(8) == 0 && len(l.Values) > 0 {
			l.Values[r.Intn(len(l.Values))] = &vectortile.Tile_Value{}
		}
		if r.Intn(10) == 0 && len(l.Keys) > 0 {
			l.Keys = l.Keys[:len(l.Keys)-1]
		}
	}
}

// genMVTHostile emits hostile tiles (hex): every 0–2 byte tile; then structure-aware
// mutations of valid tiles (struct level, wire level, byte level), plain and gzipped.
func genMVTHostile(c *Ctx, emit func(input string)) {
	r := c.Rng
	// exhaustive: every tile of length 0, 1, 2
	n := 0
	if c.Mine(n) {
		emit("empty")
	}
	for a := 0; a < 256; a++ {
		n++
		if c.Mine(n) {
			emit(hex.EncodeToString([]byte{byte(a)}))
		}
	}
	for a := 0; a < 256; a++ {
		for b := 0; b < 256; b++ {
			n++
			if c.Mine(n) {
				emit(hex.EncodeToString([]byte{byte(a), byte(b)}))
			}
		}
	}
	// the recorded witnesses
	if c.Mine(0) {
		pt := vectortile.Tile_POINT
		name, ver := "a", uint32(2)
		big := &vectortile.Tile{Layers: []*vectortile.Tile_Layer{{Name: &name, Version: &ver,
			Features: []*vectortile.Tile_Feature{{Type: &pt, Geometry: []uint32{7 | 1<<24<<3, 0}}}}}}
		b, _ := big.Marshal()
		emit(hexOrEmptyMVT(b))
		nogeom := &vectortile.Tile{Layers: []*vectortile.Tile_Layer{{Name: &name, Version: &ver,
			Features: []*vectortile.Tile_Feature{{Type: &pt}}}}}
		b, _ = nogeom.Marshal()
		emit(hexOrEmptyMVT(b))
	}
	for i := 0; i < c.Budget && !c.Exhausted(); i++ {
		base := mvtBaseTile(r)
		var out []byte
		switch r.Intn(10) {
		case 0: // truncate
			out = base[:r.Intn(len(base))]
		case 1: // splice two tiles
			o := mvtBaseTile(r)
			out = append(append([]byte{}, base[:r.Intn(len(base)+1)]...), o[r.Intn(len(o)):]...)
		case 2: // bit flips
			out = append([]byte{}, base...)
			for k := 1 + r.Intn(3); k > 0; k-- {
				out[r.Intn(len(out))] ^= 1 << uint(r.Intn(8))
			}
		case 3: // byte replace / insert / delete
			out = append([]byte{}, base...)
			p := r.Intn(len(out))
			switch r.Intn(3) {
			case 0:
				out[p] = byte(r.Intn(256))
			case 1:
				out = append(out[:p], append([]byte{byte(r.Intn(256))}, out[p:]...)...)
			default:
				out = append(out[:p], out[p+1:]...)
			}
		case 4, 5, 6: // structure level: command words, tags, types (canonical encoding)
			var vt vectortile.Tile
			if vt.Unmarshal(base) != nil {
				continue
			}
			mvtMutateStruct(r, &vt)
			b, err := vt.Marshal()
			if err != nil {
				continue
			}
			out = b
		case 7, 8: // wire level: dropped / doubled / empty / unpacked fields
			var vt vectortile.Tile
			if vt.Unmarshal(base) != nil {
				continue
			}
			if r.Intn(2) == 0 {
				mvtMutateStruct(r, &vt)
			}
			out = mvtRawTile(r, &vt, func(li, fi int, f *mvtRawFeature) {
				switch r.Intn(8) {
				case 0:
					f.noGeom = true
				case 1:
					f.emptyGeom = true
				case 2:
					f.dupGeom = true
				case 3:
					f.unpackedGeom = true
				case 4:
					f.noTags = true
				case 5:
					f.typ = nil
				case 6:
					f.typLast = true
				}
			})
		default: // valid tile, untouched
			out = base
		}
		switch r.Intn(8) {
		case 0:
			out = mvtGzip(out)
		case 1: // damaged gzip stream
			z := mvtGzip(out)
			if r.Intn(2) == 0 {
				z = z[:r.Intn(len(z))]
			} else {
				z[r.Intn(len(z))] ^= 1 << uint(r.Intn(8))
			}
			out = z
		}
		emit(hexOrEmptyMVT(out))
	}
}

func hexOrEmptyMVT(b []byte) string {
	if len(b) == 0 {
		return "empty"
	}
	return hex.EncodeToString(b)
}

// ---------------------------------------------------------------- the wire encoding (ops wire / wireh)

func c03RunWire(in []string) string {
	var ls []c03Layer
	if bad := guard(func() string { ls = c03ParseLayers(&tokReader{t: in}); return "" }); bad != "" {
		return "badinput"
	}
	var m0 mvt.Layers
	if bad := guard(func() string { m0 = c03Build(ls, 0); return "" }); bad != "" {
		return "badinput"
	}
	k := &c03Keeper{}
	data, class, det := c03MarshalAll(k, ls, m0)
	out := "M " + class + " ; D " + b2s(det)
	if class != "ok" {
		return out
	}
	out += " ; B " + hexOrEmptyMVT(data)
	var vt vectortile.Tile
	if err := vt.Unmarshal(data); err != nil {
		return out + " ; VT undecodable"
	}
	out += " ; VT " + c03ShowVT(&vt)
	u := guard(func() string { l, err := k.decode("u", data, mvt.Unmarshal); return c03Outcome(l, err) })
	k.disturb(ls)
	return out + " ; U " + u + " ; " + k.section()
}

func c03RunWireH(in []string) string {
	if len(in) != 1 {
		return "badinput"
	}
	var data []byte
	if in[0] != "empty" {
		var err error
		data, err = hex.DecodeString(in[0])
		if err != nil {
			return "badinput"
		}
	}
	k := &c03Keeper{}
	u := guard(func() string { l, err := k.decode("u", data, mvt.Unmarshal); return c03Outcome(l, err) })
	if strings.HasPrefix(u, "ok") {
		k.disturb(nil) // a decoded value is held: the fixed decoys
	}
	return "U " + u + " ; " + k.section()
}

// c03WireCrafted builds wire strings by hand around a valid tile: every scanner path that the
// canonical encoder never takes (over-long and non-minimal varints, unknown fields of every wire
// type incl. the ones Skip ignores, a fixed-width unknown field at the very end of a message,
// known fields with the wrong wire type, repeated scalar fields, two tags / geometry fields,
// value messages with several fields or trailing bytes, absent required fields).
func c03WireCrafted(r *rand.Rand) [][]byte {
	var out [][]byte
	pt := []uint32{9, 4, 6} // MoveTo(2,3)
	feat := func(mod func(w *mvtW)) []byte {
		var w mvtW
		w.vfield(1, 5)
		w.packed(2, []uint32{0, 0})
		w.vfield(3, 1)
		w.packed(4, pt)
		if mod != nil {
			mod(&w)
		}
		return w.b
	}
	val := func() []byte { var w mvtW; w.vfield(6, 5); return w.b }
	layer := func(featB []byte, valB []byte, mod func(w *mvtW)) []byte {
		var w mvtW
		w.bytes(1, []byte("l"))
		w.bytes(2, featB)
		w.bytes(3, []byte("k"))
		w.bytes(4, valB)
		w.vfield(5, 4096)
		w.vfield(15, 2)
		if mod != nil {
			mod(&w)
		}
		return w.b
	}
	tile := func(layerB []byte, mod func(w *mvtW)) []byte {
		var w mvtW
		w.bytes(3, layerB)
		if mod != nil {
			mod(&w)
		}
		return w.b
	}
	base := func() []byte { return tile(layer(feat(nil), val(), nil), nil) }
	out = append(out, base())
	// unknown fields of every wire type, at each level, in the middle and at the very end
	for wt := 0; wt < 8; wt++ {
		for _, fld := range []int{9, 16, 100, 1 << 20} {
			for _, n := range []int{0, 1, 3, 4, 5, 7, 8, 9, 12} {
				pay := make([]byte, n)
				for i := range pay {
					pay[i] = byte(r.Intn(128))
				}
				unk := func(w *mvtW) { w.key(fld, wt); w.b = append(w.b, pay...) }
				out = append(out, tile(layer(feat(nil), val(), nil), unk))
				out = append(out, tile(layer(feat(nil), val(), unk), nil))
				out = append(out, tile(layer(feat(unk), val(), nil), nil))
				var vw mvtW
				unk(&vw)
				vw.vfield(6, 5)
				out = append(out, tile(layer(feat(nil), vw.b, nil), nil))
				// followed by a known field
				out = append(out, tile(layer(feat(func(w *mvtW) { unk(w); w.vfield(1, 9) }), val(), nil), nil))
			}
		}
	}
	// varints: non-minimal, 10 bytes with a fat last byte, 11 bytes; for uint32 readers 5 / 6 bytes
	long := func(v uint64, n int, last byte) []byte {
		b := make([]byte, n)
		for i := 0; i < n; i++ {
			b[i] = byte(v&0x7f) | 0x80
			v >>= 7
		}
		b[n-1] = last
		return b
	}
	for _, n := range []int{1, 2, 3, 5, 6, 9, 10, 11, 12} {
		for _, last := range []byte{0x00, 0x01, 0x02, 0x0f, 0x10, 0x7f} {
			vb := long(uint64(r.Int63()), n, last)
			small := long(1, n, 0)
			if n == 1 {
				small = []byte{1}
			}
			// id (uint64), type (int32 of a varint64), version / extent (uint32), a tag word, a geometry word
			out = append(out, tile(layer(feat(func(w *mvtW) { w.key(1, 0); w.b = append(w.b, vb...) }), val(), nil), nil))
			out = append(out, tile(layer(feat(func(w *mvtW) { w.key(3, 0); w.b = append(w.b, vb...) }), val(), nil), nil))
			out = append(out, tile(layer(feat(func(w *mvtW) { w.key(3, 0); w.b = append(w.b, small...) }), val(), nil), nil))
			out = append(out, tile(layer(feat(nil), val(), func(w *mvtW) { w.key(15, 0); w.b = append(w.b, vb...) }), nil))
			out = append(out, tile(layer(feat(nil), val(), func(w *mvtW) { w.key(5, 0); w.b = append(w.b, vb...) }), nil))
			out = append(out, tile(layer(feat(func(w *mvtW) { w.bytes(2, append(append([]byte{}, vb...), 0)) }), val(), nil), nil))
			out = append(out, tile(layer(feat(func(w *mvtW) { w.bytes(4, append([]byte{9, 4, 6}, vb...)) }), val(), nil), nil))
			out = append(out, tile(layer(feat(func(w *mvtW) { w.bytes(4, append(append([]byte{}, small...), 4, 6)) }), val(), nil), nil))
			// the key itself, and a length
			var kw mvtW
			kw.b = append(kw.b, long(uint64(3<<3|2), n, 0)...)
			if n == 1 {
				kw.b = []byte{3<<3 | 2}
			}
			lb := layer(feat(nil), val(), nil)
			kw.varint(uint64(len(lb)))
			kw.b = append(kw.b, lb...)
			out = append(out, kw.b)
			var lw mvtW
			lw.key(3, 2)
			lw.b = append(lw.b, vb...)
			lw.b = append(lw.b, lb...)
			out = append(out, lw.b)
			// value fields
			for _, f := range []int{4, 5, 6, 7} {
				var vw mvtW
				vw.key(f, 0)
				vw.b = append(vw.b, vb...)
				out = append(out, tile(layer(feat(nil), vw.b, nil), nil))
			}
		}
	}
	// values: every kind, several fields, trailing bytes, short fixed fields, bool bytes
	for _, vb := range [][]byte{
		{}, {0x0a, 0x01, 'x'}, {0x0a, 0x00}, {0x0a, 0x02, 'x'}, {0x15, 0, 0, 0x80, 0x3f}, {0x15, 0, 0, 0x80}, {0x15, 0, 0, 0x80, 0x3f, 0xff},
		{0x19, 0, 0, 0, 0, 0, 0, 0xf0, 0x3f}, {0x19, 0, 0, 0, 0, 0, 0, 0xf0}, {0x20, 0x01}, {0x20, 0xff, 0xff, 0xff, 0xff, 0xff, 0xff, 0xff, 0xff, 0xff, 0x01},
		{0x28, 0xff, 0xff, 0xff, 0xff, 0xff, 0xff, 0xff, 0xff, 0xff, 0x01}, {0x30, 0x01}, {0x30, 0x02}, {0x30, 0xff, 0xff, 0xff, 0xff, 0xff, 0xff, 0xff, 0xff, 0xff, 0x01},
		{0x30, 0xfe, 0xff, 0xff, 0xff, 0xff, 0xff, 0xff, 0xff, 0xff, 0x01}, {0x38, 0x00}, {0x38, 0x01}, {0x38, 0x02}, {0x38, 0x81, 0x00}, {0x38, 0x80, 0x01}, {0x38, 0x80}, {0x38},
		{0x38, 0x01, 0x0a, 0x01, 'x'}, {0x0a, 0x01, 'x', 0x38, 0x01}, {0x30, 0x01, 0xff}, {0x40, 0x01, 0x30, 0x03}, {0x45, 1, 2, 3, 4, 0x30, 0x03}, {0x45, 1, 2, 3, 4}, {0x41, 1, 2, 3, 4, 5, 6, 7, 8},
		{0x41, 1, 2, 3, 4, 5, 6, 7, 8, 0x30, 0x03}, {0x43, 0x30, 0x03}, {0x44, 0x30, 0x03}, {0x46, 0x30, 0x03}, {0x47, 0x30, 0x03}, {0x12, 0x01, 0x00}, {0x0d, 0x01, 'x'}, {0x08, 0x01},
	} {
		out = append(out, tile(layer(feat(nil), vb, nil), nil))
	}
	// features: wrong wire types for known fields, repeated fields, several tags / geometry fields
	for _, mod := range []func(w *mvtW){
		func(w *mvtW) { w.vfield(1, 77) },                               // id twice
		func(w *mvtW) { w.vfield(3, 2) },                                // type twice
		func(w *mvtW) { w.vfield(3, 0xffffffffffffffff) },               // type -1 as ten bytes
		func(w *mvtW) { w.vfield(3, 1<<32|1) },                          // int32 truncation
		func(w *mvtW) { w.packed(2, []uint32{0}) },                      // second tags field, odd
		func(w *mvtW) { w.packed(2, []uint32{0, 0, 0, 0}) },             // second tags field
		func(w *mvtW) { w.packed(2, []uint32{0}); w.packed(2, nil) },    // odd one replaced
		func(w *mvtW) { w.bytes(2, nil) },                               // empty tags field
		func(w *mvtW) { w.packed(4, []uint32{9, 8, 8, 9, 2, 2}) },       // second geometry
		func(w *mvtW) { w.bytes(4, []byte{0x80}); w.packed(4, pt) },     // malformed, then replaced
		func(w *mvtW) { w.bytes(4, []byte{9, 4, 6, 0x80}) },             // point with a malformed tail
		func(w *mvtW) { w.bytes(4, []byte{9, 4, 6, 0xff, 0xff, 0xff, 0xff, 0xff, 0x01}) },
		func(w *mvtW) { w.bytes(4, []byte{9, 4, 0x80}) },                // malformed where it is read
		func(w *mvtW) { w.bytes(4, nil) },                               // present but empty
		func(w *mvtW) { w.key(1, 2); w.varint(3) },                      // id as length-delimited key
		func(w *mvtW) { w.key(2, 0); w.varint(2); w.b = append(w.b, 0, 0) }, // tags key with varint type
		func(w *mvtW) { w.key(4, 5); w.b = append(w.b, 3, 9, 2, 2) },    // geometry key with fixed32 type
		func(w *mvtW) { w.key(3, 2); w.varint(2) },                      // type key with length type
		func(w *mvtW) { w.bytes(2, []byte{0xff, 0xff, 0xff, 0xff, 0x7f, 0x00}) }, // tag word with excess bits
		func(w *mvtW) { w.bytes(2, []byte{0xff, 0xff, 0xff, 0xff, 0xff, 0x00}) }, // six-byte tag word
	} {
		out = append(out, tile(layer(feat(mod), val(), nil), nil))
	}
	// layers: repeated / absent fields, wrong wire types
	for _, mod := range []func(w *mvtW){
		func(w *mvtW) { w.vfield(15, 1) },
		func(w *mvtW) { w.vfield(5, 512) },
		func(w *mvtW) { w.bytes(1, []byte("second")) },
		func(w *mvtW) { w.vfield(15, 1<<32|7) },
		func(w *mvtW) { w.vfield(5, 1<<35) },
		func(w *mvtW) { w.key(15, 2); w.varint(1) },
		func(w *mvtW) { w.key(1, 0); w.varint(1); w.b = append(w.b, 'z') },
		func(w *mvtW) { w.key(2, 0); w.varint(0) },
		func(w *mvtW) { w.bytes(2, nil) },
		func(w *mvtW) { w.bytes(4, nil); w.bytes(3, []byte("k2")) },
		func(w *mvtW) { w.bytes(3, []byte{0xff, 0xfe}) }, // a key that is not UTF-8
	} {
		out = append(out, tile(layer(feat(nil), val(), mod), nil))
	}
	// no fields at all, empty layer, absent name / version / extent
	out = append(out, tile(nil, nil), tile([]byte{}, func(w *mvtW) { w.bytes(3, nil) }))
	{
		var w mvtW
		w.bytes(2, feat(nil))
		out = append(out, tile(w.b, nil))
	}
	// lengths: past the end, negative as int, enormous
	for _, l := range []uint64{1 << 63, 1<<63 - 1, 1<<64 - 1, 1 << 32, 200} {
		var w mvtW
		w.key(3, 2)
		w.varint(l)
		w.b = append(w.b, layer(feat(nil), val(), nil)...)
		out = append(out, w.b)
	}
	// gzip magic in front of a failing scan
	out = append(out, []byte{0x1f, 0x8b, 0x08}, []byte{0x1f, 0x8b}, append([]byte{0x1f, 0x8b, 0x01}, base()...))
	// gzip magic and a SUCCEEDING scan: 0x1f is the key (field 3, wire type 7 - never inspected), 8b 00 the
	// non-minimal length 11; the layer then (a) has a feature without geometry (decode error -> ErrDataIsGZipped),
	// (b) has no feature (success, the magic is ignored), (c) has a point feature (success)
	out = append(out,
		[]byte{0x1f, 0x8b, 0x00, 0x12, 0x02, 0x18, 0x01, 0x28, 0x80, 0x20, 0x78, 0x02, 0x0a, 0x00},
		[]byte{0x1f, 0x8b, 0x00, 0x0a, 0x01, 0x61, 0x28, 0x80, 0x20, 0x78, 0x02, 0x1a, 0x01, 0x6b},
		[]byte{0x1f, 0x8b, 0x00, 0x12, 0x07, 0x18, 0x01, 0x22, 0x03, 0x09, 0x04, 0x06, 0x78, 0x02},
		// the same three without the magic (key 0x1a): the error class is the decoder's own
		[]byte{0x1a, 0x8b, 0x00, 0x12, 0x02, 0x18, 0x01, 0x28, 0x80, 0x20, 0x78, 0x02, 0x0a, 0x00},
		[]byte{0x1a, 0x8b, 0x00, 0x0a, 0x01, 0x61, 0x28, 0x80, 0x20, 0x78, 0x02, 0x1a, 0x01, 0x6b},
		// only ONE of the two magic bytes, scan succeeds, decode error: the decoder's own class
		[]byte{0x1f, 0x0b, 0x12, 0x02, 0x18, 0x01, 0x28, 0x80, 0x20, 0x78, 0x02, 0x0a, 0x00},
		[]byte{0x1f, 0x8a, 0x00, 0x12, 0x02, 0x18, 0x01, 0x28, 0x80, 0x20, 0x78, 0x02, 0x0a, 0x00}[:13],
		[]byte{0x1f, 0x8a}, []byte{0x1f}, []byte{0x8b, 0x1f}, []byte{0x1f, 0x00, 0x8b},
		// magic, scan succeeds, odd tags (ueof -> gzipped); magic, unknown geometry type
		[]byte{0x1f, 0x8b, 0x00, 0x12, 0x09, 0x12, 0x01, 0x00, 0x18, 0x01, 0x22, 0x02, 0x09, 0x04},
		[]byte{0x1f, 0x8b, 0x00, 0x12, 0x07, 0x18, 0x09, 0x22, 0x03, 0x09, 0x04, 0x06, 0x78, 0x02},
	)
	return out
}

func genC03Wire(c *Ctx) {
	r := c.Rng
	n := 0
	for _, ls := range c03Fixed() {
		n++
		if c.Mine(n) {
			c.Case("wire", c03ShowLayers(ls))
		}
	}
	// value / id / size boundaries of the wire format: varint lengths 1..10, strings of 127 / 128 /
	// 16383 / 16384 bytes (length prefixes of 1, 2, 3 bytes), features whose message crosses them
	var bound []c03Prop
	for k := uint(0); k < 64; k += 7 {
		for _, e := range []int64{-1, 0, 1} {
			v := uint64(1)<<k + uint64(e)
			bound = append(bound, c03Prop{key: fmt.Sprintf("u%d_%d", k, e), tok: fmt.Sprintf("u:uint64:%d", v)})
			if k < 63 {
				bound = append(bound, c03Prop{key: fmt.Sprintf("i%d_%d", k, e), tok: fmt.Sprintf("i:int64:%d", int64(v))},
					c03Prop{key: fmt.Sprintf("n%d_%d", k, e), tok: fmt.Sprintf("i:int64:%d", -int64(v))})
			}
		}
	}
	bound = append(bound, c03Prop{key: "min", tok: "i:int64:-9223372036854775808"}, c03Prop{key: "max", tok: "u:uint64:18446744073709551615"})
	n++
	if c.Mine(n) {
		c.Case("wire", c03ShowLayers(c03One("bounds", orb.Point{1, 2}, bound...)))
	}
	for _, sl := range []int{0, 1, 126, 127, 128, 129, 16383, 16384, 16385} {
		n++
		if !c.Mine(n) {
			continue
		}
		s := strings.Repeat("x", sl)
		ls := c03One(s, orb.Point{1, 2}, c03Prop{key: s, tok: "s:" + c03H(s)})
		c.Case("wire", c03ShowLayers(ls))
	}
	for _, np := range []int{30, 31, 32, 33, 62, 63, 64, 65, 8190, 8191, 8192} { // geometry payload lengths around 127 / 16383
		n++
		if !c.Mine(n) {
			continue
		}
		ln := make(orb.LineString, np)
		for i := range ln {
			ln[i] = orb.Point{float64(i % 50), float64((i * 7) % 60)}
		}
		c.Case("wire", c03ShowLayers(c03One("len", ln)))
	}
	for _, id := range []string{"u:uint64:0", "u:uint64:127", "u:uint64:128", "u:uint64:18446744073709551615", "i:int64:9223372036854775807", "u:uint64:9007199254740993"} {
		n++
		if c.Mine(n) {
			ls := c03One("id", orb.Point{1, 2})
			ls[0].feats[0].id = id
			c.Case("wire", c03ShowLayers(ls))
		}
	}
	for _, ve := range [][2]uint32{{0, 0}, {127, 128}, {16383, 16384}, {1<<32 - 1, 1<<32 - 1}, {1 << 28, 1<<28 - 1}} {
		n++
		if c.Mine(n) {
			ls := c03One("ve", orb.Point{1, 2})
			ls[0].version, ls[0].extent = ve[0], ve[1]
			c.Case("wire", c03ShowLayers(ls))
		}
	}
	if c.Mine(0) {
		for _, b := range c03WireCrafted(r) {
			c.Case("wireh", hexOrEmptyMVT(b))
		}
		// names / keys / string values that are not UTF-8 (Go strings are byte strings; proto3's
		// UTF-8 check does not apply to this proto2 schema): the property clause without a model
		raws := []string{"", "a", "é", "\xff", "\xc3", "\xff\xfe", "a\x80b", "\xed\xa0\x80", "\xf8\x88\x80\x80\x80", "\x00", "x\x00\xffy", strings.Repeat("\xfe", 130)}
		for i, a := range raws {
			for _, j := range []int{0, 1, 5} {
				b, d := raws[(i+j)%len(raws)], raws[(i+2*j+3)%len(raws)]
				c.Case("rawstr", c03H(a)+" "+c03H(b)+" "+c03H(d))
			}
		}
	}
	for i := 0; i < c.Budget/2 && !c.Exhausted(); i++ {
		ls := c03GenLayers(r, i%3 != 2)
		c.Case("wire", c03ShowLayers(ls))
		// the same bytes, damaged
		data, class := c03Marshal(ls, 0, false)
		if class != "ok" || len(data) == 0 {
			continue
		}
		var out []byte
		switch r.Intn(8) {
		case 0, 1: // truncate
			out = data[:r.Intn(len(data))]
		case 2: // bit flips
			out = append([]byte{}, data...)
			for k := 1 + r.Intn(3); k > 0; k-- {
				out[r.Intn(len(out))] ^= 1 << uint(r.Intn(8))
			}
		case 3: // byte replace / insert / delete
			out = append([]byte{}, data...)
			p := r.Intn(len(out))
			switch r.Intn(3) {
			case 0:
				out[p] = byte(r.Intn(256))
			case 1:
				out = append(out[:p], append([]byte{byte(r.Intn(256))}, out[p:]...)...)
			default:
				out = append(out[:p], out[p+1:]...)
			}
		case 4: // splice with another tile
			o := mvtBaseTile(r)
			out = append(append([]byte{}, data[:r.Intn(len(data)+1)]...), o[r.Intn(len(o)):]...)
		case 5, 6: // structure level, then wire level (dropped / doubled / empty / unpacked fields)
			var vt vectortile.Tile
			if vt.Unmarshal(data) != nil {
				continue
			}
			mvtMutateStruct(r, &vt)
			out = mvtRawTile(r, &vt, func(li, fi int, f *mvtRawFeature) {
				switch r.Intn(10) {
				case 0:
					f.noGeom = true
				case 1:
					f.emptyGeom = true
				case 2:
					f.dupGeom = true
				case 3:
					f.unpackedGeom = true
				case 4:
					f.noTags = true
				case 5:
					f.typ = nil
				case 6:
					f.typLast = true
				}
			})
		default: // gzip magic, or gzipped
			if r.Intn(2) == 0 {
				out = mvtGzip(data)
			} else {
				out = append([]byte{0x1f, 0x8b}, data...)
			}
		}
		c.Case("wireh", hexOrEmptyMVT(out))
	}
}
