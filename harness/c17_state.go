package main

import (
	"math"
	"strconv"
	"strings"
	"sync"

	"github.com/paulmach/orb"
	"github.com/paulmach/orb/geo"
	"github.com/paulmach/orb/planar"
	"github.com/paulmach/orb/resample"
)

// C17 — state or size OUTSIDE ONE FRESH CALL (white-box round: C17-wb1 cache keyed by slice
// identity, C17-wb2 chunked measuring of long lines, C17-wb3 package-level scratch slice).
//
// Resample / ToInterval take nothing but their arguments, so the result of a call must not
// depend on which calls came before it, on the memory its argument lives in, or on what other
// goroutines are doing.  Three additions, all judged by the driver:
//
//  1. REUSED BUFFER (section `; B …` of every rs / iv outcome).  After the fresh call the same
//     call is repeated through ONE vertex buffer (same backing array for the whole process) whose
//     contents change between calls; each repetition must return the fresh result bit for bit:
//       same-len   buffer held a DIFFERENT line of the same length (every vertex moved)
//       same-ends  … of the same length with the same first and last vertex (interior moved)
//       longer     … a line one vertex longer, measured with ANOTHER distance function
//       shorter    … a line one vertex shorter
//       other-df   the same vertices, the call before used another distance function
//       closure-df the same vertices, the call before used a closure of the same function
//                  literal (same code pointer) that scales the distance by 3; the call itself
//                  uses the closure that scales by 1 (bit for bit the plain distance)
//       again      the same vertices, same arguments, immediately again
//       other-arg  the same vertices, the call before asked for another count / interval
//       other-op   the same vertices, the call before was the other entry point
//     Outcome: `B same <calls>` | `B <label> <result>` (first repetition that differs; `toolong <len>`
//     stands for a result far longer than the expected one, which is not transmitted) |
//     `B none` (not run: the case runs in the watchdogged child, or is too big).
//
//  2. CONCURRENT CALLERS (op `conc`):
//       conc <G> <rounds> <k> (<op> <df> <line> <arg>)*k
//         => D … <result_0> | … | D … <result_k-1> ; C same <calls> | C <member> <round> <result>
//     The k member calls are first made one after the other (these results are judged like k
//     ordinary cases); then G goroutines make `rounds` calls each — goroutine j, round r
//     resamples member (j+r) mod k out of ITS OWN private buffer — and every result must be the
//     sequential one bit for bit; then the members are called once more sequentially (round -1).
//     No race detector is needed: a shared scratch area shows up as a wrong result or a panic.
//
//  3. HUGE lines (generator only; ops rs / iv): 200..20000 vertices (log-uniform) resampled to
//     2..50000 points (log-uniform).  The driver judges them in linear time (count, end points,
//     spacing and spacing-df by one monotone walk, Float twin bit for bit).

// ---------------------------------------------------------------------------
// the call, on parsed arguments

type c17Args struct {
	op     string // rs | iv
	dfName string
	ls     orb.LineString
	n      int
	d      float64
}

func c17ParseArgs(op string, r *tokReader) c17Args {
	a := c17Args{op: op, dfName: r.next()}
	a.ls = c17Line(r)
	switch op {
	case "rs":
		a.n = r.int()
	case "iv":
		a.d = r.f()
	default:
		panic("C17: bad op " + op)
	}
	return a
}

// c17Do calls the real function on ls (NOT on a.ls) with distance function df.
func c17Do(a c17Args, ls orb.LineString, df orb.DistanceFunc) (out orb.LineString, panicked bool) {
	defer func() {
		if r := recover(); r != nil {
			out, panicked = nil, true
		}
	}()
	if a.op == "rs" {
		return resample.Resample(ls, df, a.n), false
	}
	return resample.ToInterval(ls, df, a.d), false
}

type c17Res struct {
	pts      []orb.Point // private copy
	isNil    bool
	panicked bool
}

func c17Snap(out orb.LineString, panicked bool) c17Res {
	return c17Res{pts: append([]orb.Point(nil), out...), isNil: out == nil, panicked: panicked}
}

func (e c17Res) equal(out orb.LineString, panicked bool) bool {
	if e.panicked != panicked {
		return false
	}
	if panicked {
		return true
	}
	if e.isNil != (out == nil) || len(e.pts) != len(out) {
		return false
	}
	for i, p := range out {
		q := e.pts[i]
		if math.Float64bits(p[0]) != math.Float64bits(q[0]) || math.Float64bits(p[1]) != math.Float64bits(q[1]) {
			return false
		}
	}
	return true
}

func c17Show(out orb.LineString, panicked bool) string {
	if panicked {
		return "panic"
	}
	return gs(out)
}

// c17ShowOther serialises a result that DIFFERS from the expected one (reuse / concurrent call).
// A result far longer than the expected one (more than twice its length plus 5000 points) is not
// transmitted (a stale total length makes ToInterval return millions of points): `toolong <len>`.
func c17ShowOther(out orb.LineString, panicked bool, want c17Res) string {
	if !panicked && len(out) > 2*len(want.pts)+5000 {
		return "toolong " + strconv.Itoa(len(out))
	}
	return c17Show(out, panicked)
}

// c17Screen: the measurements the resource screen of runC17 is based on.
// safe = may be called in-process: at most 1e6 points and not `risky` (vertices differ while the
// computed length is not a positive finite number: watchdogged child process only).
func c17Screen(a c17Args, ls orb.LineString, df orb.DistanceFunc) (total float64, safe bool) {
	allEqual := true
	for _, p := range ls {
		if !ls[0].Equal(p) {
			allEqual = false
		}
		if math.IsNaN(p[0]) || math.IsNaN(p[1]) || math.IsInf(p[0], 0) || math.IsInf(p[1], 0) {
			return 0, false
		}
	}
	for i := 0; i+1 < len(ls); i++ {
		total += df(ls[i], ls[i+1])
	}
	points := 0.0
	switch a.op {
	case "rs":
		points = float64(a.n)
	case "iv":
		if a.d > 0 && len(ls) > 0 {
			points = total/a.d + 1
		}
		if a.d != a.d {
			return total, false
		}
	}
	if !(points <= 1e6) {
		return total, false
	}
	risky := len(ls) >= 2 && !allEqual && !(total > 0 && total <= math.MaxFloat64)
	return total, !risky
}

// closures of ONE function literal: same code pointer, different behaviour (not inlined: the
// compiler would make one copy of the literal per call site)
//
//go:noinline
func c17Scaled(df orb.DistanceFunc, s float64) orb.DistanceFunc {
	return func(a, b orb.Point) float64 { return s * df(a, b) }
}

func c17OtherDF(name string) orb.DistanceFunc {
	if name == "geo" {
		return planar.Distance
	}
	return geo.Distance
}

// ---------------------------------------------------------------------------
// 1. the reused buffer

// c17Buf is THE vertex buffer of this process: every reuse call of every case reads its line
// from c17Buf[:n] (same &c17Buf[0] for the whole run, as in a decoder loop `ls = ls[:0]; ls = append(ls, …)`).
var c17Buf = make([]orb.Point, 1<<15)

func c17Fill(ps []orb.Point, wasNil bool) orb.LineString {
	if wasNil {
		return nil
	}
	if len(ps) > len(c17Buf) {
		c17Buf = make([]orb.Point, 2*len(ps))
	}
	copy(c17Buf, ps)
	return orb.LineString(c17Buf[:len(ps)])
}

// c17Reuse runs the reuse sequence for the case `a` whose fresh result is `want`.
func c17Reuse(a c17Args, want c17Res) string {
	df := c17DF(a.dfName)
	total, safe := c17Screen(a, a.ls, df)
	if !safe {
		return "B none"
	}
	actual := append([]orb.Point(nil), a.ls...) // the calls may modify their input
	wasNil := a.ls == nil
	n := len(actual)
	ext := 0.0
	for _, p := range actual {
		ext = math.Max(ext, math.Max(math.Abs(p[0]), math.Abs(p[1])))
	}
	calls := 0
	diff := ""
	// one step: an optional primer call (result ignored), then the case's own call out of the buffer
	step := func(label string, primer []orb.Point, pa c17Args, pdf orb.DistanceFunc, mainDF orb.DistanceFunc) {
		if diff != "" {
			return
		}
		if pdf != nil {
			pls := c17Fill(primer, primer == nil && wasNil)
			if _, ok := c17Screen(pa, pls, pdf); !ok {
				return
			}
			c17Do(pa, pls, pdf)
			calls++
		}
		out, pan := c17Do(a, c17Fill(actual, wasNil), mainDF)
		calls++
		if !want.equal(out, pan) {
			diff = "B " + label + " " + c17ShowOther(out, pan, want)
		}
	}
	// primer arguments: the same request; for ToInterval the interval is scaled with the
	// primer's length so that the number of points stays what it is for the case
	primerArgs := func(ps []orb.Point, pdf orb.DistanceFunc) c17Args {
		pa := a
		if a.op == "iv" && a.d > 0 && total > 0 && !math.IsInf(a.d, 0) {
			t := 0.0
			for i := 0; i+1 < len(ps); i++ {
				t += pdf(ps[i], ps[i+1])
			}
			if d := a.d * (t / total); d > 0 && !math.IsInf(d, 0) {
				pa.d = d
			}
		}
		return pa
	}
	if ext < 1e150 && n >= 1 {
		// the primers are lines of the case's own scale: vertices moved by multiples of its mean
		// segment length (a stale length then asks for a comparable number of points, not for 1e9)
		s := 1.0
		if total > 0 && !math.IsInf(total, 0) && n >= 2 {
			s = total / float64(n-1)
			if a.dfName == "geo" {
				s /= 111320 // metres -> degrees
			}
		} else if ext > 0 {
			s = ext / 16
		}
		p1 := make([]orb.Point, n)
		for i, p := range actual {
			p1[i] = orb.Point{p[0] + s*float64(i+1), p[1] - s*float64((i*i)%7)}
		}
		step("same-len", p1, primerArgs(p1, df), df, df)
		if n >= 3 {
			p2 := append([]orb.Point(nil), actual...)
			for i := 1; i+1 < n; i++ {
				p2[i] = orb.Point{p2[i][0] + s*float64(i%3+1), p2[i][1] + s}
			}
			step("same-ends", p2, primerArgs(p2, df), df, df)
		}
		p3 := append(append([]orb.Point(nil), actual...), orb.Point{actual[n-1][0] + s, actual[n-1][1] + s})
		odf := c17OtherDF(a.dfName)
		step("longer", p3, primerArgs(p3, odf), odf, df)
		if n >= 3 {
			step("shorter", p1[:n-1], primerArgs(p1[:n-1], df), df, df)
		}
	}
	odf := c17OtherDF(a.dfName)
	step("other-df", actual, primerArgs(actual, odf), odf, df)
	step("closure-df", actual, primerArgs(actual, c17Scaled(df, 3)), c17Scaled(df, 3), c17Scaled(df, 1))
	step("again", nil, a, nil, df)
	// another count / interval, the other entry point
	oa := a
	if a.op == "rs" {
		oa.n = a.n + 1
	} else {
		oa.d = a.d * 1.5
	}
	step("other-arg", actual, oa, df, df)
	ob := a
	if a.op == "rs" {
		ob.op, ob.d = "iv", total/float64(a.n)
		if !(a.n >= 1 && ob.d > 0) {
			ob.d = 1
		}
	} else {
		ob.op, ob.n = "rs", 3
	}
	step("other-op", actual, ob, df, df)
	if diff != "" {
		return diff
	}
	return "B same " + strconv.Itoa(calls)
}

// ---------------------------------------------------------------------------
// 2. concurrent callers

func runC17Conc(in []string) string {
	r := &tokReader{t: in}
	G, rounds, k := r.int(), r.int(), r.int()
	if G < 1 || G > 64 || rounds < 0 || rounds > 100000 || k < 1 || k > 64 {
		return "badconc"
	}
	args := make([]c17Args, k)
	want := make([]c17Res, k)
	var sb strings.Builder
	maxLen := 0
	for i := range args {
		args[i] = c17ParseArgs(r.next(), r)
		a := args[i]
		df := c17DF(a.dfName)
		if _, safe := c17Screen(a, a.ls, df); !safe {
			return "unfit-member " + strconv.Itoa(i)
		}
		if len(a.ls) > maxLen {
			maxLen = len(a.ls)
		}
		if i > 0 {
			sb.WriteString(" | ")
		}
		m := len(a.ls) - 1
		if m < 0 {
			m = 0
		}
		sb.WriteString("D " + strconv.Itoa(m))
		for j := 0; j+1 < len(a.ls); j++ {
			sb.WriteString(" " + fb(df(a.ls[j], a.ls[j+1])))
		}
		// the sequential call, on a private copy (the calls may modify their input)
		fresh := append(make(orb.LineString, 0, len(a.ls)+3), a.ls...)
		if a.ls == nil {
			fresh = nil
		}
		out, pan := c17Do(a, fresh, df)
		want[i] = c17Snap(out, pan)
		sb.WriteString(" " + c17Show(out, pan))
	}
	var mu sync.Mutex
	bad := ""
	report := func(member, round int, out orb.LineString, pan bool) {
		mu.Lock()
		if bad == "" {
			bad = "C " + strconv.Itoa(member) + " " + strconv.Itoa(round) + " " + c17ShowOther(out, pan, want[member])
		}
		mu.Unlock()
	}
	var wg sync.WaitGroup
	start := make(chan struct{})
	for j := 0; j < G; j++ {
		wg.Add(1)
		go func(j int) {
			defer wg.Done()
			buf := make([]orb.Point, maxLen+3) // private to this goroutine, reused round after round
			<-start
			for rd := 0; rd < rounds; rd++ {
				i := (j + rd) % k
				a := args[i]
				var ls orb.LineString
				if a.ls != nil {
					copy(buf, a.ls)
					ls = orb.LineString(buf[:len(a.ls)])
				}
				out, pan := c17Do(a, ls, c17DF(a.dfName))
				if !want[i].equal(out, pan) {
					report(i, rd, out, pan)
					return
				}
			}
		}(j)
	}
	close(start)
	wg.Wait()
	// once more one after the other
	for i, a := range args {
		fresh := append(make(orb.LineString, 0, len(a.ls)+3), a.ls...)
		if a.ls == nil {
			fresh = nil
		}
		out, pan := c17Do(a, fresh, c17DF(a.dfName))
		if !want[i].equal(out, pan) {
			report(i, -1, out, pan)
		}
	}
	if bad != "" {
		return sb.String() + " ; " + bad
	}
	return sb.String() + " ; C same " + strconv.Itoa(G*rounds+k)
}

// ---------------------------------------------------------------------------
// generators

func c17LogUniform(c *Ctx, lo, hi int) int {
	x := math.Exp(math.Log(float64(lo)) + c.Rng.Float64()*(math.Log(float64(hi)+1)-math.Log(float64(lo))))
	n := int(x)
	if n < lo {
		n = lo
	}
	if n > hi {
		n = hi
	}
	return n
}

// a line of n vertices of one of the well-scaled kinds (positive finite length unless all
// vertices happen to coincide); axisMax bounds the vertex count of the exact (integer) kind
func c17KindLine(c *Ctx, n int, axisMax int) (orb.LineString, string) {
	r := c.Rng
	switch r.Intn(7) {
	case 0:
		if n > axisMax {
			n = axisMax
		}
		return c17AxisLine(c, n, []int{4, 1000}[r.Intn(2)]), "pl"
	case 1, 2:
		return c17FloatLine(c, n, CoordFloat), "pl"
	case 3:
		return c17FloatLine(c, n, CoordHalf), "pl"
	case 4:
		return c17GeoLine(c, n), "geo"
	case 5:
		return c17GeoAxisLine(c, n), "geo"
	default:
		if r.Intn(2) == 0 {
			return c17AntiLine(c, n), "geo"
		}
		return c17AxisLine(c, n, 1000), "pl"
	}
}

// request for about N points on ls: by count or by interval
func c17Request(c *Ctx, ls orb.LineString, df string, N int) (op, arg string) {
	r := c.Rng
	total := c17Len(ls, c17DF(df))
	if r.Intn(2) == 0 || !(total > 0) || N < 2 {
		return "rs", strconv.Itoa(N)
	}
	d := total / float64(N-1) * []float64{1, 1, 1.0000001, 0.9999999, 1 + r.Float64()*1e-3}[r.Intn(5)]
	if r.Intn(16) == 0 {
		d = math.Inf(1)
	}
	return "iv", fb(d)
}

// huge-line family: 200..20000 vertices, 2..50000 points, both log-uniform
func c17HugeCase(c *Ctx) {
	n := c17LogUniform(c, 200, 20000)
	N := c17LogUniform(c, 2, 50000)
	ls, df := c17KindLine(c, n, 20000)
	op, arg := c17Request(c, ls, df, N)
	c17Case(c, op, df, ls, arg)
}

// medium lines: 9..49 vertices (between the random lines and the long-line family)
func c17MediumCase(c *Ctx) {
	n := 9 + c.Rng.Intn(41)
	ls, df := c17KindLine(c, n, 49)
	if c.Rng.Intn(2) == 0 {
		c17Case(c, "rs", df, ls, strconv.Itoa(c17PickN(c)))
	} else {
		c17Case(c, "iv", df, ls, fb(c17PickInterval(c, c17Len(ls, c17DF(df)))))
	}
}

// concurrent family: k = 8 member calls on lines of different lengths (2..1500 vertices,
// log-uniform; the integer kind at most 150), 2..300 points; 8 goroutines x 300 rounds
func c17ConcCase(c *Ctx) {
	const G, rounds, k = 8, 300, 8
	var sb strings.Builder
	sb.WriteString(strconv.Itoa(G) + " " + strconv.Itoa(rounds) + " " + strconv.Itoa(k))
	for i := 0; i < k; i++ {
		n := c17LogUniform(c, 2, 1500)
		if i == 0 {
			n = 800 + c.Rng.Intn(700) // at least one long member: long calls overlap
		}
		var ls orb.LineString
		var df, op, arg string
		for try := 0; ; try++ {
			ls, df = c17KindLine(c, n, 150)
			N := c17LogUniform(c, 2, 300)
			op, arg = c17Request(c, ls, df, N)
			if op == "iv" && math.IsInf(pf(arg), 1) && c.Rng.Intn(2) == 0 {
				op, arg = "rs", strconv.Itoa(N)
			}
			// members must be callable in-process (not the watchdogged kind: vertices that differ
			// while the computed length is zero, as on a line of antimeridian hops only)
			a := c17Args{op: op, dfName: df, ls: ls}
			if op == "rs" {
				a.n = pi(arg)
			} else {
				a.d = pf(arg)
			}
			if _, safe := c17Screen(a, ls, c17DF(df)); safe || try > 20 {
				break
			}
		}
		sb.WriteString(" " + op + " " + df + " " + gs(ls) + " " + arg)
	}
	c.Case("conc", sb.String())
}
