package main

import (
	"fmt"
	"math"
	"strconv"
	"strings"

	"github.com/paulmach/orb"
	"github.com/paulmach/orb/maptile"
)

func init() { register(&Prop{ID: "C13", Run: runC13, Gen: genC13}) }

func st(t maptile.Tile) string { return fmt.Sprintf("%d %d %d", t.X, t.Y, uint32(t.Z)) }

func sts(ts maptile.Tiles) string {
	s := make([]string, len(ts))
	for i, t := range ts {
		s[i] = st(t)
	}
	return strings.Join(s, " ")
}

func rdTile(r *tokReader) maptile.Tile {
	x := pu(r.next())
	y := pu(r.next())
	z := pu(r.next())
	return maptile.Tile{X: uint32(x), Y: uint32(y), Z: maptile.Zoom(z)}
}

func sb4(b orb.Bound) string {
	return fb(b.Min[0]) + " " + fb(b.Min[1]) + " " + fb(b.Max[0]) + " " + fb(b.Max[1])
}

// --- libm recorder -------------------------------------------------------------------------------
//
// The outcomes of the geography ops (`at`, `nbr`, `bnd`) end with the table "T n (fn arg value)*" of
// the libm calls the Go code makes on this input (s = math.Sin, l = math.Log, e = math.Exp,
// a = math.Atan).  The table is recorded by the mirrors below (the expressions of maptile.Fraction and
// mercator.ToGeo with the libm calls routed through the recorder); the values are Go's own.  The Lean
// driver redoes ALL the arithmetic with the model Orb.TileGeo on top of these values and must
// reproduce the IMPLEMENTATION's outputs (not the mirror's) bit for bit; an argument the table does not
// contain is reported by the driver as a diff.

type c13Rec struct {
	sb   strings.Builder
	n    int
	seen map[string]bool
}

func newC13Rec() *c13Rec { return &c13Rec{seen: map[string]bool{}} }

func (t *c13Rec) add(fn string, x, v float64) float64 {
	key := " " + fn + " " + fb(x)
	if !t.seen[key] {
		t.seen[key] = true
		t.n++
		t.sb.WriteString(key + " " + fb(v))
	}
	return v
}
func (t *c13Rec) sin(x float64) float64  { return t.add("s", x, math.Sin(x)) }
func (t *c13Rec) log(x float64) float64  { return t.add("l", x, math.Log(x)) }
func (t *c13Rec) exp(x float64) float64  { return t.add("e", x, math.Exp(x)) }
func (t *c13Rec) atan(x float64) float64 { return t.add("a", x, math.Atan(x)) }
func (t *c13Rec) String() string         { return "T " + strconv.Itoa(t.n) + t.sb.String() }

// mirror of maptile.Fraction (only its libm arguments matter)
func (t *c13Rec) fraction(ll orb.Point, z maptile.Zoom) {
	if ll[1] < -85.0511 || ll[1] > 85.0511 {
		return
	}
	siny := t.sin(ll[1] * math.Pi / 180.0)
	t.log((1.0 + siny) / (1.0 - siny))
}

// mirror of the latitude part of mercator.ToGeo
func (t *c13Rec) toGeoLat(y float64, level uint32) {
	maxtiles := float64(uint64(1 << level))
	t.atan(t.exp(math.Pi - (2*math.Pi)*(y/maxtiles)))
}

// mirror of Tile.Bound
func (t *c13Rec) bound(tile maptile.Tile, buffer float64) {
	y := float64(tile.Y)
	miny := y - buffer
	if miny < 0 {
		miny = 0
	}
	t.toGeoLat(miny, uint32(tile.Z))
	maxtiles := float64(uint32(1 << tile.Z))
	maxy := y + 1 + buffer
	if maxy > maxtiles {
		maxy = maxtiles
	}
	t.toGeoLat(maxy, uint32(tile.Z))
}

func runC13(op string, in []string) string {
	return guard(func() string {
		r := &tokReader{t: in}
		switch op {
		case "tile":
			t := rdTile(r)
			u := rdTile(r)
			z2 := maptile.Zoom(pu(r.next()))
			ch := t.Children()
			chp := make(maptile.Tiles, len(ch))
			for i, c := range ch {
				chp[i] = c.Parent()
			}
			rmin, rmax := t.Range(z2)
			return strings.Join([]string{
				b2s(t.Valid()), fmt.Sprint(t.Quadkey()), st(maptile.FromQuadkey(t.Quadkey(), t.Z)), st(t.Parent()),
				sts(ch), sts(chp), b2s(t.Contains(u)), b2s(u.Contains(t)), st(t.SharedParent(u)), st(rmin), st(rmax),
			}, " ")
		case "ciz":
			t := rdTile(r)
			zs := maptile.Zoom(pu(r.next()))
			ze := maptile.Zoom(pu(r.next()))
			l := maptile.ChildrenInZoomRange(t, zs, ze)
			if len(l) == 0 {
				return "0"
			}
			return fmt.Sprint(len(l)) + " " + sts(l)
		case "at":
			ll := orb.Point{r.f(), r.f()}
			z := maptile.Zoom(pu(r.next()))
			f := maptile.Fraction(ll, z)
			t := maptile.At(ll, z)
			b := t.Bound()
			c := t.Center()
			cf := maptile.Fraction(c, z)
			ct := maptile.At(c, z)
			rec := newC13Rec()
			rec.fraction(ll, z)
			rec.bound(t, 0)
			rec.fraction(c, z)
			return fmt.Sprintf("%s %s %d %d %s %d %d %s %s %s %s %s", fb(f[0]), fb(f[1]), t.X, t.Y, sb4(b), ct.X, ct.Y,
				fb(c[0]), fb(c[1]), fb(cf[0]), fb(cf[1]), rec)
		case "nbr":
			t := rdTile(r)
			right := maptile.Tile{X: t.X + 1, Y: t.Y, Z: t.Z}
			down := maptile.Tile{X: t.X, Y: t.Y + 1, Z: t.Z}
			parts := []string{sb4(t.Bound()), sb4(right.Bound()), sb4(down.Bound())}
			rec := newC13Rec()
			rec.bound(t, 0)
			rec.bound(right, 0)
			rec.bound(down, 0)
			for _, c := range t.Children() {
				parts = append(parts, sb4(c.Bound()))
				rec.bound(c, 0)
			}
			parts = append(parts, rec.String())
			return strings.Join(parts, " ")
		case "bnd": // Bound with an explicit tile buffer (the miny / maxy clamps)
			t := rdTile(r)
			buffer := r.f()
			rec := newC13Rec()
			rec.bound(t, buffer)
			rec.bound(t, 0)
			return sb4(t.Bound(buffer)) + " " + sb4(t.Bound()) + " " + rec.String()
		case "consts": // the compile-time constants the Float twin uses
			return strings.Join([]string{fb(math.Pi), fb(2 * math.Pi), fb(-2 * math.Pi), fb(180.0 / math.Pi), fb(85.0511), fb(-85.0511), fb(0.5)}, " ")
		}
		return "badop"
	})
}

func genC13(c *Ctx) {
	rng := c.Rng
	maxZ, pairZ := 6, 3
	if c.Tier == "thorough" {
		maxZ, pairZ = 8, 4
	}
	// exhaustive: every tile up to maxZ (paired with a pseudo-random partner), every pair up to pairZ
	i := 0
	for z := 0; z <= maxZ; z++ {
		n := 1 << uint(z)
		for x := 0; x < n; x++ {
			for y := 0; y < n; y++ {
				i++
				if !c.Mine(i) {
					continue
				}
				uz := rng.Intn(12)
				un := 1 << uint(uz)
				c.Case("tile", fmt.Sprintf("%d %d %d %d %d %d %d", x, y, z, rng.Intn(un), rng.Intn(un), uz, rng.Intn(12)))
				if z <= 5 || (x+y)%7 == 0 {
					c.Case("nbr", fmt.Sprintf("%d %d %d", x, y, z))
				}
			}
		}
	}
	for z := 0; z <= pairZ; z++ {
		n := 1 << uint(z)
		for x := 0; x < n; x++ {
			for y := 0; y < n; y++ {
				for z2 := 0; z2 <= pairZ; z2++ {
					n2 := 1 << uint(z2)
					for x2 := 0; x2 < n2; x2++ {
						for y2 := 0; y2 < n2; y2++ {
							i++
							if !c.Mine(i) {
								continue
							}
							c.Case("tile", fmt.Sprintf("%d %d %d %d %d %d %d", x, y, z, x2, y2, z2, (x+y2+z)%6))
						}
					}
				}
			}
		}
	}
	// children-in-zoom-range, small
	for z := 0; z <= 3; z++ {
		n := 1 << uint(z)
		for x := 0; x < n; x++ {
			for y := 0; y < n; y++ {
				for zs := 0; zs <= 5; zs++ {
					for ze := 0; ze <= 5; ze++ {
						i++
						if !c.Mine(i) {
							continue
						}
						c.Case("ciz", fmt.Sprintf("%d %d %d %d %d", x, y, z, zs, ze))
					}
				}
			}
		}
	}
	// children-in-zoom-range, deep: random tiles to zoom 30 with large coordinates (the shifts
	// `tile.X << d`, `xStart+dim` near 2^30), zoom windows of up to three levels starting up to three
	// levels below the tile and ending at most at zoom 30 (at most 4^5+4^4+4^3 tiles per case); plus the
	// last tile of each zoom, whose loop bounds are the largest the quantifier allows
	nCiz := c.Budget / 40
	for k := 0; k < nCiz && !c.Exhausted(); k++ {
		z := rng.Intn(31)
		n := uint64(1) << uint(z)
		x, y := uint64(rng.Int63())%n, uint64(rng.Int63())%n
		switch rng.Intn(6) {
		case 0:
			x, y = n-1, n-1
		case 1:
			x = n - 1
		case 2:
			y = n - 1
		}
		zs := z + rng.Intn(4)
		ze := zs + rng.Intn(3)
		if zs > 30 {
			zs = 30
		}
		if ze > 30 {
			ze = 30
		}
		c.Case("ciz", fmt.Sprintf("%d %d %d %d %d", x, y, z, zs, ze))
	}
	// random tiles to zoom 30; related pairs (ancestors, neighbours, same tile) and unrelated ones
	for k := 0; k < c.Budget && !c.Exhausted(); k++ {
		z := rng.Intn(31)
		n := uint64(1) << uint(z)
		x := uint64(rng.Int63()) % n
		y := uint64(rng.Int63()) % n
		var ux, uy uint64
		var uz int
		switch rng.Intn(5) {
		case 0: // descendant
			uz = z + rng.Intn(31-z)
			d := uint(uz - z)
			ux = x<<d | uint64(rng.Int63())%(1<<d)
			uy = y<<d | uint64(rng.Int63())%(1<<d)
		case 1: // ancestor
			uz = rng.Intn(z + 1)
			ux, uy = x>>uint(z-uz), y>>uint(z-uz)
		case 2: // shares a long prefix
			uz = z
			m := uint64(1)<<uint(rng.Intn(z+1)) - 1
			ux, uy = x^(uint64(rng.Int63())&m), y^(uint64(rng.Int63())&m)
		case 3: // same
			ux, uy, uz = x, y, z
		default:
			uz = rng.Intn(31)
			un := uint64(1) << uint(uz)
			ux, uy = uint64(rng.Int63())%un, uint64(rng.Int63())%un
		}
		c.Case("tile", fmt.Sprintf("%d %d %d %d %d %d %d", x, y, z, ux, uy, uz, rng.Intn(31)))
		if k%10 == 0 {
			// invalid tiles and zooms beyond the quantifier: correspondence only
			c.Case("tile", fmt.Sprintf("%d %d %d %d %d %d %d", rng.Uint32(), rng.Uint32(), rng.Intn(40), rng.Uint32(), rng.Uint32(), rng.Intn(40), rng.Intn(40)))
		}
		if k%4 == 0 && z <= 30 && x+1 < n && y+1 < n {
			c.Case("nbr", fmt.Sprintf("%d %d %d", x, y, z))
		}
	}
	// geography: points in range, on tile edges (columns AND rows, exactly and one ulp to either side),
	// antimeridian, poles
	ulpNudge := func(v float64) float64 {
		switch rng.Intn(3) {
		case 0:
			return math.Nextafter(v, math.Inf(1))
		case 1:
			return math.Nextafter(v, math.Inf(-1))
		}
		return v
	}
	for k := 0; k < c.Budget/2 && !c.Exhausted(); k++ {
		z := rng.Intn(31)
		var lon, lat float64
		switch rng.Intn(8) {
		case 0: // on a tile edge in x
			zz := rng.Intn(z + 1)
			n := float64(uint64(1) << uint(zz))
			lon = 360.0*(float64(rng.Intn(int(n)+1))/n) - 180.0
			lat = rng.Float64()*170 - 85
		case 1:
			lon = -180
			lat = rng.Float64()*180 - 90
		case 2: // just below the antimeridian
			lon = math.Nextafter(180, 0)
			lat = rng.Float64()*180 - 90
		case 3: // poles and clamp region
			lon = rng.Float64()*360 - 180
			lat = []float64{90, -90, 85.0511, -85.0511, 85.06, -85.06, 89.99, -89.99}[rng.Intn(8)]
		case 4: // on (or one ulp off) a tile edge in y: the latitude Bound() itself reports for a row edge
			// of this zoom or of a shallower one (row 0 / row n give the two edges of the mercator square,
			// beyond the clamp latitude)
			zz := rng.Intn(z + 1)
			nn := uint64(1) << uint(zz)
			row := uint64(rng.Int63()) % (nn + 1)
			if row == nn {
				lat = maptile.Tile{X: 0, Y: uint32(row - 1), Z: maptile.Zoom(zz)}.Bound().Min[1]
			} else {
				lat = maptile.Tile{X: 0, Y: uint32(row), Z: maptile.Zoom(zz)}.Bound().Max[1]
			}
			lat = ulpNudge(lat)
			lon = rng.Float64()*360 - 180
		case 5: // one ulp off (or on) a tile edge in x; also the tiny longitudes around 0 that `lon/360 + 0.5` absorbs
			zz := rng.Intn(z + 1)
			n := float64(uint64(1) << uint(zz))
			lon = ulpNudge(360.0*(float64(rng.Intn(int(n)+1))/n) - 180.0)
			if rng.Intn(8) == 0 {
				lon = []float64{-5e-324, 5e-324, -1e-300, -1e-17, -1e-15, 1e-15, math.Copysign(0, -1)}[rng.Intn(7)]
			}
			if lon < -180 {
				lon = -180
			}
			lat = rng.Float64()*170 - 85
		default:
			lon = rng.Float64()*360 - 180
			lat = rng.Float64()*180 - 90
		}
		if lon >= 180 {
			lon = math.Nextafter(180, 0)
		}
		c.Case("at", fmt.Sprintf("%s %s %d", fb(lon), fb(lat), z))
	}
	// latitudes OUTSIDE [-90, 90] and the special values: the quantifier is "any latitude (clamped beyond
	// +-85.0511)" and `at_clamped_row` is stated for every latitude, so the clamp clauses
	// (at-clamp-north / at-clamp-south) and the bit-exact Fraction comparison are exercised on the whole
	// float line — one ulp to either side of +-85.0511 and +-90, where a clamp decided on sin(lat) folds
	// back (90+-k*180, 180, 269, 271, 360+-...), huge values, +-Inf (NaN: correspondence only) — and on the
	// small end (+-0, denormals).  One case in four also takes a longitude outside [-180, 180] (outside
	// the quantifier: the longitude clause is not judged there, everything else is; kept below 10^6
	// degrees so that `uint32(f)` stays inside the int64 range, where Go defines it).
	c13Lats := []float64{91, 100, 135, 179, 180, 181, 269, 270, 271, 359, 360, 361, 449, 450, 451, 630, 720, 1e3, 1e6, 1e15, 1e300,
		math.MaxFloat64, 90.000001, 85.0511, 85.05112878, 85.051129, 85.06, 86, 89, 89.999999, 90,
		0, 5e-324, 1e-300, 1e-17, 45, 66.51326044311186, 84.9, 85.05}
	c13Lons := []float64{180.000001, 181, 200, 270, 360, 539, 540, 541, 720, 1e3, 12345.678, 1e5, 999999,
		math.Nextafter(180, 1000), -180.000001, -181, -200, -360, -540, -1e3, -1e5, -999999, math.Nextafter(-180, -1000)}
	nBeyond := c.Budget/8 + 64
	for k := 0; k < nBeyond && !c.Exhausted(); k++ {
		z := rng.Intn(31)
		var lat float64
		switch rng.Intn(8) {
		case 0, 1: // the fixed values, either sign, exactly or one ulp to either side
			lat = ulpNudge(c13Lats[rng.Intn(len(c13Lats))])
		case 2: // just beyond the poles
			lat = 90 + rng.Float64()*math.Pow(10, -float64(rng.Intn(13)))
		case 3: // where sin folds back into the unclamped band: 180k +- 85.0511
			lat = 180*float64(1+rng.Intn(6)) + (rng.Float64()*2-1)*90
		case 4: // around the clamp latitude itself, a few ulps to either side
			lat = 85.0511
			for j := rng.Intn(5); j > 0; j-- {
				lat = ulpNudge(lat)
			}
		case 5: // infinities (and NaN, rarely)
			lat = math.Inf(1)
			if rng.Intn(6) == 0 {
				lat = math.NaN()
			}
		case 6: // orders of magnitude
			lat = 90 * math.Pow(10, rng.Float64()*300)
		default:
			lat = 90 + rng.Float64()*270
		}
		if rng.Intn(2) == 0 {
			lat = -lat
		}
		lon := rng.Float64()*360 - 180
		switch rng.Intn(8) {
		case 0, 1:
			lon = c13Lons[rng.Intn(len(c13Lons))]
		case 2:
			lon = (rng.Float64()*2 - 1) * math.Pow(10, 2+rng.Float64()*4)
		case 3:
			lon = []float64{180, -180, 0, math.Copysign(0, -1), math.Nextafter(180, 0)}[rng.Intn(5)]
		}
		c.Case("at", fmt.Sprintf("%s %s %d", fb(lon), fb(lat), z))
	}
	if c.Shard == 0 {
		// every fixed latitude (both signs) at a low, a middle and the deepest zoom; every fixed longitude
		for _, z := range []int{0, 1, 7, 30} {
			for _, la := range c13Lats {
				c.Case("at", fmt.Sprintf("%s %s %d", fb(10), fb(la), z))
				c.Case("at", fmt.Sprintf("%s %s %d", fb(-170.5), fb(-la), z))
			}
			for _, la := range []float64{math.Inf(1), math.Inf(-1), math.NaN()} {
				c.Case("at", fmt.Sprintf("%s %s %d", fb(10), fb(la), z))
			}
			for _, lo := range c13Lons {
				c.Case("at", fmt.Sprintf("%s %s %d", fb(lo), fb(33.25), z))
				c.Case("at", fmt.Sprintf("%s %s %d", fb(lo), fb(100), z))
			}
		}
	}
	// zooms beyond the quantifier (correspondence only): 31, and from 32 on the uint32 shifts wrap to 0 —
	// `max != 0` in At is false, Fraction's maxtiles is 0; from 64 on ToGeo's uint64 shift wraps as well
	for k := 0; k < c.Budget/100+8 && !c.Exhausted(); k++ {
		z := []int{31, 32, 32, 33, 40, 63, 64, 65, 100}[rng.Intn(9)]
		lon := rng.Float64()*360 - 180
		lat := rng.Float64()*180 - 90
		switch rng.Intn(4) {
		case 0:
			lon, lat = 10, 10
		case 1:
			lon = 180
		}
		c.Case("at", fmt.Sprintf("%s %s %d", fb(lon), fb(lat), z))
	}
	// Bound with a tile buffer: the two clamps (miny < 0, maxy > maxtiles), negative and fractional buffers
	for k := 0; k < c.Budget/8 && !c.Exhausted(); k++ {
		z := rng.Intn(31)
		n := uint64(1) << uint(z)
		x := uint64(rng.Int63()) % n
		var y uint64
		switch rng.Intn(4) {
		case 0:
			y = uint64(rng.Intn(3)) % n
		case 1:
			y = n - 1 - uint64(rng.Intn(3))%n
		default:
			y = uint64(rng.Int63()) % n
		}
		buffer := []float64{0, 0.5, 1, 2, 0.25, 3, -0.25, 1e-3}[rng.Intn(8)]
		if rng.Intn(3) == 0 {
			buffer = rng.Float64() * 4
		}
		c.Case("bnd", fmt.Sprintf("%d %d %d %s", x, y, z, fb(buffer)))
	}
	// the antimeridian itself (lon = 180 is inside the property's quantifier)
	if c.Shard == 0 {
		c.Case("consts", "")
		for z := 0; z <= 30; z++ {
			c.Case("at", fmt.Sprintf("%s %s %d", fb(180), fb(0), z))
			c.Case("at", fmt.Sprintf("%s %s %d", fb(180), fb(45.5), z))
		}
	}
}
