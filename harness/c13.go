package main

import (
	"fmt"
	"math"
	"strings"

	"github.com/paulmach/orb"
	"github.com/paulmach/orb/maptile"
)

func init() { register(&Prop{ID: "C13", Run: runC13, Gen: genC13}) }

func st(t maptile.Tile) string { return fmt.Sprintf("%d %d %d", t.X, t.Y, uint32(t.Z)) }

func sts(ts maptile.Tiles) string {
	s := make([]string, len(ts))
	for i, t := range ts {
		s[i] = st(t)
	}
	return strings.Join(s, " ")
}

func rdTile(r *tokReader) maptile.Tile {
	x := pu(r.next())
	y := pu(r.next())
	z := pu(r.next())
	return maptile.Tile{X: uint32(x), Y: uint32(y), Z: maptile.Zoom(z)}
}

func sb4(b orb.Bound) string {
	return fb(b.Min[0]) + " " + fb(b.Min[1]) + " " + fb(b.Max[0]) + " " + fb(b.Max[1])
}

func runC13(op string, in []string) string {
	return guard(func() string {
		r := &tokReader{t: in}
		switch op {
		case "tile":
			t := rdTile(r)
			u := rdTile(r)
			z2 := maptile.Zoom(pu(r.next()))
			ch := t.Children()
			chp := make(maptile.Tiles, len(ch))
			for i, c := range ch {
				chp[i] = c.Parent()
			}
			rmin, rmax := t.Range(z2)
			return strings.Join([]string{
				b2s(t.Valid()), fmt.Sprint(t.Quadkey()), st(maptile.FromQuadkey(t.Quadkey(), t.Z)), st(t.Parent()),
				sts(ch), sts(chp), b2s(t.Contains(u)), b2s(u.Contains(t)), st(t.SharedParent(u)), st(rmin), st(rmax),
			}, " ")
		case "ciz":
			t := rdTile(r)
			zs := maptile.Zoom(pu(r.next()))
			ze := maptile.Zoom(pu(r.next()))
			l := maptile.ChildrenInZoomRange(t, zs, ze)
			if len(l) == 0 {
				return "0"
			}
			return fmt.Sprint(len(l)) + " " + sts(l)
		case "at":
			ll := orb.Point{r.f(), r.f()}
			z := maptile.Zoom(pu(r.next()))
			f := maptile.Fraction(ll, z)
			t := maptile.At(ll, z)
			b := t.Bound()
			ct := maptile.At(t.Center(), z)
			return fmt.Sprintf("%s %s %d %d %s %d %d", fb(f[0]), fb(f[1]), t.X, t.Y, sb4(b), ct.X, ct.Y)
		case "nbr":
			t := rdTile(r)
			right := maptile.Tile{X: t.X + 1, Y: t.Y, Z: t.Z}
			down := maptile.Tile{X: t.X, Y: t.Y + 1, Z: t.Z}
			parts := []string{sb4(t.Bound()), sb4(right.Bound()), sb4(down.Bound())}
			for _, c := range t.Children() {
				parts = append(parts, sb4(c.Bound()))
			}
			return strings.Join(parts, " ")
		}
		return "badop"
	})
}

func genC13(c *Ctx) {
	rng := c.Rng
	maxZ, pairZ := 6, 3
	if c.Tier == "thorough" {
		maxZ, pairZ = 8, 4
	}
	// exhaustive: every tile up to maxZ (paired with a pseudo-random partner), every pair up to pairZ
	i := 0
	for z := 0; z <= maxZ; z++ {
		n := 1 << uint(z)
		for x := 0; x < n; x++ {
			for y := 0; y < n; y++ {
				i++
				if !c.Mine(i) {
					continue
				}
				uz := rng.Intn(12)
				un := 1 << uint(uz)
				c.Case("tile", fmt.Sprintf("%d %d %d %d %d %d %d", x, y, z, rng.Intn(un), rng.Intn(un), uz, rng.Intn(12)))
				if z <= 5 || (x+y)%7 == 0 {
					c.Case("nbr", fmt.Sprintf("%d %d %d", x, y, z))
				}
			}
		}
	}
	for z := 0; z <= pairZ; z++ {
		n := 1 << uint(z)
		for x := 0; x < n; x++ {
			for y := 0; y < n; y++ {
				for z2 := 0; z2 <= pairZ; z2++ {
					n2 := 1 << uint(z2)
					for x2 := 0; x2 < n2; x2++ {
						for y2 := 0; y2 < n2; y2++ {
							i++
							if !c.Mine(i) {
								continue
							}
							c.Case("tile", fmt.Sprintf("%d %d %d %d %d %d %d", x, y, z, x2, y2, z2, (x+y2+z)%6))
						}
					}
				}
			}
		}
	}
	// children-in-zoom-range, small
	for z := 0; z <= 3; z++ {
		n := 1 << uint(z)
		for x := 0; x < n; x++ {
			for y := 0; y < n; y++ {
				for zs := 0; zs <= 5; zs++ {
					for ze := 0; ze <= 5; ze++ {
						i++
						if !c.Mine(i) {
							continue
						}
						c.Case("ciz", fmt.Sprintf("%d %d %d %d %d", x, y, z, zs, ze))
					}
				}
			}
		}
	}
	// random tiles to zoom 30; related pairs (ancestors, neighbours, same tile) and unrelated ones
	for k := 0; k < c.Budget && !c.Exhausted(); k++ {
		z := rng.Intn(31)
		n := uint64(1) << uint(z)
		x := uint64(rng.Int63()) % n
		y := uint64(rng.Int63()) % n
		var ux, uy uint64
		var uz int
		switch rng.Intn(5) {
		case 0: // descendant
			uz = z + rng.Intn(31-z)
			d := uint(uz - z)
			ux = x<<d | uint64(rng.Int63())%(1<<d)
			uy = y<<d | uint64(rng.Int63())%(1<<d)
		case 1: // ancestor
			uz = rng.Intn(z + 1)
			ux, uy = x>>uint(z-uz), y>>uint(z-uz)
		case 2: // shares a long prefix
			uz = z
			m := uint64(1)<<uint(rng.Intn(z+1)) - 1
			ux, uy = x^(uint64(rng.Int63())&m), y^(uint64(rng.Int63())&m)
		case 3: // same
			ux, uy, uz = x, y, z
		default:
			uz = rng.Intn(31)
			un := uint64(1) << uint(uz)
			ux, uy = uint64(rng.Int63())%un, uint64(rng.Int63())%un
		}
		c.Case("tile", fmt.Sprintf("%d %d %d %d %d %d %d", x, y, z, ux, uy, uz, rng.Intn(31)))
		if k%10 == 0 {
			// invalid tiles and zooms beyond the quantifier: correspondence only
			c.Case("tile", fmt.Sprintf("%d %d %d %d %d %d %d", rng.Uint32(), rng.Uint32(), rng.Intn(40), rng.Uint32(), rng.Uint32(), rng.Intn(40), rng.Intn(40)))
		}
		if k%4 == 0 && z <= 30 && x+1 < n && y+1 < n {
			c.Case("nbr", fmt.Sprintf("%d %d %d", x, y, z))
		}
	}
	// geography: points in range, on tile edges, antimeridian, poles
	for k := 0; k < c.Budget/2 && !c.Exhausted(); k++ {
		z := rng.Intn(31)
		var lon, lat float64
		switch rng.Intn(6) {
		case 0: // on a tile edge in x
			zz := rng.Intn(z + 1)
			n := float64(uint64(1) << uint(zz))
			lon = 360.0*(float64(rng.Intn(int(n)+1))/n) - 180.0
			lat = rng.Float64()*170 - 85
		case 1:
			lon = -180
			lat = rng.Float64()*180 - 90
		case 2: // just below the antimeridian
			lon = math.Nextafter(180, 0)
			lat = rng.Float64()*180 - 90
		case 3: // poles and clamp region
			lon = rng.Float64()*360 - 180
			lat = []float64{90, -90, 85.0511, -85.0511, 85.06, -85.06, 89.99, -89.99}[rng.Intn(8)]
		default:
			lon = rng.Float64()*360 - 180
			lat = rng.Float64()*180 - 90
		}
		if lon >= 180 {
			lon = math.Nextafter(180, 0)
		}
		c.Case("at", fmt.Sprintf("%s %s %d", fb(lon), fb(lat), z))
	}
	// the antimeridian itself (lon = 180 is inside the property's quantifier)
	if c.Shard == 0 {
		for z := 0; z <= 30; z++ {
			c.Case("at", fmt.Sprintf("%s %s %d", fb(180), fb(0), z))
			c.Case("at", fmt.Sprintf("%s %s %d", fb(180), fb(45.5), z))
		}
	}
}
