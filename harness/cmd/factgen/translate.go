package main

// A tiny Go -> Lean translator for the straight-line / simple-loop integer code of
// maptile/tile.go.  It regenerates lean/Generated/TileGo.lean on every run; the theorems in
// OrbProofs/C13Tie.lean prove that each regenerated definition IS the hand-written model
// definition (by `rfl`), so for these functions the model is tied to the source by translation,
// not only by sampled correspondence.
//
// Supported subset (anything else => the function is reported as an unresolved anchor):
//   types   uint32 / Zoom (32-bit), uint64, bool, Tile, Tiles
//   exprs   literals, variables, t.X/.Y/.Z, + - << >> & | ^, comparisons, &&, conversions
//           uint32() uint64() Zoom(), Tile{…}, Tiles{…}, calls of translated methods,
//           uint32(32 - bits.LeadingZeros32(e))
//   stmts   return, x := e, x = e, x op= e, t.F op= e, var decls, if (returning or assigning),
//           for i = 0; i < n; i++ { assignments }

import (
	"fmt"
	"go/ast"
	"go/token"
	"sort"
	"strings"
)

type gty int

const (
	tyInt gty = iota // untyped constant
	tyU32
	tyU64
	tyBool
	tyTile
	tyTiles
)

type trans struct {
	pk   *pkgFiles
	vars map[string]gty
	err  string
}

func (t *trans) fail(format string, a ...interface{}) string {
	if t.err == "" {
		t.err = fmt.Sprintf(format, a...)
	}
	return "sorryUnsupported"
}

var methodNames = map[string]string{"toZoom": "toZoom", "Parent": "parent", "Children": "children", "Siblings": "siblings",
	"Valid": "valid", "Contains": "contains", "Quadkey": "quadkey", "SharedParent": "sharedParent", "Range": "range"}

func goTy(e ast.Expr) gty {
	switch n, _ := typeName(e); n {
	case "uint32", "Zoom":
		return tyU32
	case "uint64":
		return tyU64
	case "bool":
		return tyBool
	case "Tile":
		return tyTile
	case "Tiles":
		return tyTiles
	}
	return tyInt
}

func (t *trans) expr(e ast.Expr) (string, gty) {
	switch x := e.(type) {
	case *ast.BasicLit:
		if x.Kind == token.INT {
			return x.Value, tyInt
		}
	case *ast.ParenExpr:
		s, ty := t.expr(x.X)
		return "(" + s + ")", ty
	case *ast.Ident:
		if x.Name == "true" || x.Name == "false" {
			return x.Name, tyBool
		}
		if ty, ok := t.vars[x.Name]; ok {
			return x.Name, ty
		}
		return t.fail("unknown identifier %s", x.Name), tyInt
	case *ast.SelectorExpr:
		base, ty := t.expr(x.X)
		if ty == tyTile {
			switch x.Sel.Name {
			case "X":
				return base + ".x", tyU32
			case "Y":
				return base + ".y", tyU32
			case "Z":
				return base + ".z", tyU32
			}
		}
		return t.fail("selector %s", src(t.pk, e)), tyInt
	case *ast.CompositeLit:
		switch goTy(x.Type) {
		case tyTile:
			f := map[string]string{"X": "0", "Y": "0", "Z": "0"}
			for i, el := range x.Elts {
				if kv, ok := el.(*ast.KeyValueExpr); ok {
					v, _ := t.expr(kv.Value)
					f[kv.Key.(*ast.Ident).Name] = v
				} else {
					v, _ := t.expr(el)
					f[[]string{"X", "Y", "Z"}[i]] = v
				}
			}
			return fmt.Sprintf("(⟨%s, %s, %s⟩ : Tile)", f["X"], f["Y"], f["Z"]), tyTile
		case tyTiles:
			var els []string
			for _, el := range x.Elts {
				v, _ := t.expr(el)
				els = append(els, v)
			}
			return "[" + strings.Join(els, ", ") + "]", tyTiles
		}
	case *ast.CallExpr:
		// conversions
		if id, ok := x.Fun.(*ast.Ident); ok && len(x.Args) == 1 {
			switch id.Name {
			case "uint32":
				// uint32(32 - bits.LeadingZeros32(e))  ==  bit length of e
				if b, ok := x.Args[0].(*ast.BinaryExpr); ok && b.Op == token.SUB {
					if l, ok := b.X.(*ast.BasicLit); ok && l.Value == "32" {
						if c, ok := b.Y.(*ast.CallExpr); ok && src(t.pk, c.Fun) == "bits.LeadingZeros32" {
							a, _ := t.expr(c.Args[0])
							return "bitLen (" + a + ")", tyU32
						}
					}
				}
				a, ty := t.expr(x.Args[0])
				if ty == tyU64 {
					return "((" + a + ") % W32)", tyU32
				}
				return a, tyU32
			case "Zoom":
				a, _ := t.expr(x.Args[0])
				return a, tyU32
			case "uint64":
				a, _ := t.expr(x.Args[0])
				return a, tyU64
			}
		}
		// method calls on a tile
		if sel, ok := x.Fun.(*ast.SelectorExpr); ok {
			if m, ok := methodNames[sel.Sel.Name]; ok {
				recv, ty := t.expr(sel.X)
				if ty == tyTile {
					args := []string{recv}
					for _, a := range x.Args {
						s, _ := t.expr(a)
						args = append(args, "("+s+")")
					}
					rt := tyTile
					switch m {
					case "children", "siblings":
						rt = tyTiles
					case "valid", "contains":
						rt = tyBool
					case "quadkey":
						rt = tyU64
					}
					return "(" + m + " " + strings.Join(args, " ") + ")", rt
				}
			}
		}
	case *ast.BinaryExpr:
		l, lt := t.expr(x.X)
		r, rt := t.expr(x.Y)
		ty := lt
		if ty == tyInt {
			ty = rt
		}
		switch x.Op {
		case token.LAND:
			return l + " && " + r, tyBool
		case token.LOR:
			return l + " || " + r, tyBool
		case token.EQL:
			if lt == tyTile {
				return l + " == " + r, tyBool
			}
			return l + " = " + r, tyBool
		case token.NEQ:
			return l + " ≠ " + r, tyBool
		case token.LSS:
			return l + " < " + r, tyBool
		case token.GTR:
			return l + " > " + r, tyBool
		case token.LEQ:
			return l + " ≤ " + r, tyBool
		case token.GEQ:
			return l + " ≥ " + r, tyBool
		case token.AND:
			return l + " &&& " + r, ty
		case token.OR:
			return l + " ||| " + r, ty
		case token.XOR:
			return l + " ^^^ " + r, ty
		case token.MUL:
			if ty == tyU32 {
				return fmt.Sprintf("mul32 (%s) (%s)", l, r), ty
			}
			return l + " * " + r, ty
		}
		sh := x.Op == token.SHL || x.Op == token.SHR
		if sh {
			ty = lt // the shift count does not type the result; an untyped constant adopts…
			if ty == tyInt {
				ty = tyU64 // …uint64 in the only contexts that occur here (`1 << i` next to a uint64)
			}
		}
		pre := map[gty]map[token.Token]string{
			tyU32: {token.ADD: "add32", token.SUB: "sub32", token.SHL: "shl32", token.SHR: "shr32"},
			tyU64: {token.SHL: "shl64", token.SHR: "shr64", token.ADD: "add64"},
		}
		if ty == tyInt && (x.Op == token.ADD || x.Op == token.SUB) {
			return l + " " + x.Op.String() + " " + r, tyInt // shift-count arithmetic such as 2*i + 1
		}
		if f, ok := pre[ty][x.Op]; ok {
			return fmt.Sprintf("%s (%s) (%s)", f, l, r), ty
		}
	}
	return t.fail("expression %s", src(t.pk, e)), tyInt
}

// assigned returns the variables (or struct variables) a statement list assigns to, sorted.
func assigned(list []ast.Stmt) []string {
	set := map[string]bool{}
	var walk func(list []ast.Stmt)
	walk = func(list []ast.Stmt) {
		for _, s := range list {
			switch st := s.(type) {
			case *ast.AssignStmt:
				if st.Tok != token.DEFINE {
					for _, l := range st.Lhs {
						if id := rootIdent(l); id != nil {
							set[id.Name] = true
						}
					}
				}
			case *ast.IfStmt:
				walk(st.Body.List)
				if b, ok := st.Else.(*ast.BlockStmt); ok {
					walk(b.List)
				}
			}
		}
	}
	walk(list)
	var out []string
	for k := range set {
		out = append(out, k)
	}
	sort.Strings(out)
	return out
}

func tuple(vs []string) string {
	if len(vs) == 1 {
		return vs[0]
	}
	return "(" + strings.Join(vs, ", ") + ")"
}

func endsInReturn(list []ast.Stmt) bool {
	if len(list) == 0 {
		return false
	}
	_, ok := list[len(list)-1].(*ast.ReturnStmt)
	return ok
}

// assign translates `lhs op= rhs` into a `let` line.
func (t *trans) assign(st *ast.AssignStmt) string {
	if len(st.Lhs) != 1 || len(st.Rhs) != 1 {
		return t.fail("multi-assign")
	}
	rhs, rty := t.expr(st.Rhs[0])
	op := map[token.Token]string{token.OR_ASSIGN: "|||", token.AND_ASSIGN: "&&&", token.XOR_ASSIGN: "^^^"}[st.Tok]
	switch l := st.Lhs[0].(type) {
	case *ast.Ident:
		if st.Tok == token.DEFINE {
			if rty == tyInt {
				rty = tyU32
			}
			t.vars[l.Name] = rty
		}
		if op != "" {
			return fmt.Sprintf("let %s := %s %s %s", l.Name, l.Name, op, rhs)
		}
		if st.Tok == token.ASSIGN || st.Tok == token.DEFINE {
			return fmt.Sprintf("let %s := %s", l.Name, rhs)
		}
	case *ast.SelectorExpr: // t.X |= e
		base, ty := t.expr(l.X)
		if ty == tyTile && op != "" {
			f := strings.ToLower(l.Sel.Name)
			return fmt.Sprintf("let %s : Tile := { %s with %s := %s.%s %s %s }", base, base, f, base, f, op, rhs)
		}
	}
	return t.fail("assignment %s", src(t.pk, st))
}

// block translates a statement list into a Lean expression; `rest` is what follows it (for
// blocks that fall through), or "" if the block must return.
func (t *trans) block(list []ast.Stmt, rest string) string {
	if len(list) == 0 {
		if rest == "" {
			return t.fail("missing return")
		}
		return rest
	}
	s, tail := list[0], list[1:]
	cont := func() string { return t.block(tail, rest) }
	switch st := s.(type) {
	case *ast.ReturnStmt:
		var rs []string
		for _, r := range st.Results {
			e, _ := t.expr(r)
			rs = append(rs, e)
		}
		return tuple(rs)
	case *ast.AssignStmt:
		line := t.assign(st)
		return line + "\n  " + cont()
	case *ast.DeclStmt:
		gd := st.Decl.(*ast.GenDecl)
		var lines []string
		for _, sp := range gd.Specs {
			vs := sp.(*ast.ValueSpec)
			for _, n := range vs.Names {
				t.vars[n.Name] = goTy(vs.Type)
				if len(vs.Values) == 0 {
					lines = append(lines, fmt.Sprintf("let %s := 0", n.Name))
				}
			}
		}
		return strings.Join(lines, "\n  ") + "\n  " + cont()
	case *ast.IfStmt:
		c, _ := t.expr(st.Cond)
		if endsInReturn(st.Body.List) {
			saved := t.copyVars()
			then := t.block(st.Body.List, "")
			t.vars = saved
			var els string
			if b, ok := st.Else.(*ast.BlockStmt); ok {
				els = t.block(append(append([]ast.Stmt{}, b.List...), tail...), rest)
			} else {
				els = cont()
			}
			return fmt.Sprintf("if %s then %s else\n  %s", c, then, els)
		}
		// assigning if: bind the assigned variables to the value of an if-expression
		vs := assigned([]ast.Stmt{st})
		return fmt.Sprintf("let %s :=\n    %s\n  %s", tuple(vs), t.ifValue(st, vs), cont())
	case *ast.ForStmt:
		// for i = 0; i < N; i++ { assignments }
		iv, n := "", ""
		if as, ok := st.Init.(*ast.AssignStmt); ok && len(as.Lhs) == 1 {
			iv = as.Lhs[0].(*ast.Ident).Name
			if as.Tok == token.DEFINE {
				t.vars[iv] = tyU32
			}
		}
		if be, ok := st.Cond.(*ast.BinaryExpr); ok && be.Op == token.LSS && src(t.pk, be.X) == iv {
			n, _ = t.expr(be.Y)
		}
		if inc, ok := st.Post.(*ast.IncDecStmt); !ok || inc.Tok != token.INC || iv == "" || n == "" {
			return t.fail("loop shape %s", src(t.pk, st.Cond))
		}
		vs := assigned(st.Body.List)
		if len(vs) != 1 {
			return t.fail("loop assigns %v", vs)
		}
		body := t.block(st.Body.List, vs[0])
		return fmt.Sprintf("let %s := (List.range (%s)).foldl (fun %s %s =>\n    %s) %s\n  %s", vs[0], n, vs[0], iv, strings.ReplaceAll(body, "\n  ", "\n    "), vs[0], cont())
	}
	return t.fail("statement %T", s)
}

// ifValue is the value of the variables vs after executing an if statement made of assignments.
func (t *trans) ifValue(st *ast.IfStmt, vs []string) string {
	c, _ := t.expr(st.Cond)
	val := func(list []ast.Stmt) string {
		saved := t.copyVars()
		defer func() { t.vars = saved }()
		if len(list) == 1 {
			if inner, ok := list[0].(*ast.IfStmt); ok {
				return "(" + t.ifValue(inner, vs) + ")"
			}
		}
		// plain assignments: substitute into the tuple
		cur := map[string]string{}
		for _, v := range vs {
			cur[v] = v
		}
		for _, s := range list {
			as, ok := s.(*ast.AssignStmt)
			if !ok || as.Tok != token.ASSIGN || len(as.Lhs) != 1 {
				return t.fail("if-branch statement %s", src(t.pk, s))
			}
			id, ok := as.Lhs[0].(*ast.Ident)
			if !ok {
				return t.fail("if-branch lhs")
			}
			e, _ := t.expr(as.Rhs[0])
			cur[id.Name] = e
		}
		out := make([]string, len(vs))
		for i, v := range vs {
			out[i] = cur[v]
		}
		return tuple(out)
	}
	then := val(st.Body.List)
	els := tuple(vs)
	if b, ok := st.Else.(*ast.BlockStmt); ok {
		els = val(b.List)
	}
	return fmt.Sprintf("if %s then %s else %s", c, then, els)
}

func (t *trans) copyVars() map[string]gty {
	m := map[string]gty{}
	for k, v := range t.vars {
		m[k] = v
	}
	return m
}

func genTileGo() *leanFile {
	l := &leanFile{name: "TileGo"}
	l.p("/- REGENERATED by factgen (cmd/factgen/translate.go) from /repo/maptile/tile.go on every run.")
	l.p("   A direct translation of the Go functions into Lean; OrbProofs/C13Tie.lean proves each of")
	l.p("   them equal to the hand-written model `Orb.Tile`. Do not edit. -/")
	l.p("import Orb.Tile")
	l.p("namespace Generated.TileGo")
	l.p("open Orb.Tile (Tile W32 W64 shl32 shr32 add32 sub32 bitLen)")
	l.p("")
	l.p("/-- Go `a << s` / `a >> s` on uint64 -/")
	l.p("def shl64 (a s : Nat) : Nat := (a <<< s) %% W64")
	l.p("def shr64 (a s : Nat) : Nat := a >>> s")
	l.p("def add64 (a b : Nat) : Nat := (a + b) %% W64")
	l.p("def mul32 (a b : Nat) : Nat := (a * b) %% W32")
	l.p("")
	type fn struct{ recv, name, lean, ret string }
	fns := []fn{
		{"Tile", "Valid", "valid", "Bool"}, {"Tile", "Parent", "parent", "Tile"}, {"Tile", "Children", "children", "List Tile"},
		{"Tile", "Siblings", "siblings", "List Tile"}, {"Tile", "toZoom", "toZoom", "Tile"}, {"Tile", "Contains", "contains", "Bool"},
		{"Tile", "Quadkey", "quadkey", "Nat"}, {"", "FromQuadkey", "fromQuadkey", "Tile"},
		{"Tile", "SharedParent", "sharedParent", "Tile"}, {"Tile", "Range", "range", "Tile × Tile"},
	}
	var translated []string
	for _, f := range fns {
		pk, fd := findFunc("maptile", f.recv, f.name)
		if fd == nil {
			anchorLost("maptile." + f.name)
			continue
		}
		t := &trans{pk: pk, vars: map[string]gty{}}
		var params []string
		if fd.Recv != nil {
			n := fd.Recv.List[0].Names[0].Name
			t.vars[n] = tyTile
			params = append(params, fmt.Sprintf("(%s : Tile)", n))
		}
		for _, p := range fd.Type.Params.List {
			ty := goTy(p.Type)
			lt := "Nat"
			if ty == tyTile {
				lt = "Tile"
			}
			for _, n := range p.Names {
				t.vars[n.Name] = ty
				params = append(params, fmt.Sprintf("(%s : %s)", n.Name, lt))
			}
		}
		body := t.block(fd.Body.List, "")
		if t.err != "" {
			anchorLost("maptile." + f.name + " not translatable: " + t.err)
			l.p("-- %s: NOT TRANSLATED (%s)", f.name, t.err)
			continue
		}
		l.p("/-- maptile.%s -/", f.name)
		l.p("def %s %s : %s :=\n  %s\n", f.lean, strings.Join(params, " "), f.ret, body)
		translated = append(translated, f.lean)
	}
	l.p("def translated : List String := [%s]", strings.Join(quoteAll(translated), ", "))
	l.p("end Generated.TileGo")
	return l
}
