package main

// A second Go -> Lean translator, for the straight-line FLOATING-POINT / geometric code whose
// hand-written models are polymorphic over the number type (Orb/Core.lean, Orb/Clip.lean,
// Orb/Planar.lean, Orb/Contains.lean, Orb/Quadtree.lean, Orb/Simplify.lean, Orb/SmartClip.lean).
//
// It regenerates one Lean file per Go package on every run (lean/Generated/BoundGo.lean for the
// root package, ClipGo.lean, PlanarGo.lean, LengthGo.lean, QuadtreeGo.lean, SimplifyGo.lean,
// SmartclipGo.lean).  Every definition is polymorphic in `α` and takes the SAME explicit instance
// arguments the models take (`[Add α] [Sub α] … [LT α] [DecidableLT α] …`).  The theorems in
// OrbProofs/C06Tie.lean, C07Tie.lean, C08Tie.lean, C09Tie.lean, C10Tie.lean, C11Tie.lean,
// C12Tie.lean, C16Tie.lean prove each regenerated definition equal to the hand-written model
// definition, so a change of the Go source of these functions changes a Lean definition and breaks
// a proof obligation, independently of any sampling.
//
// Supported subset (anything else => the function is NOT emitted, it is recorded as an unresolved
// anchor (Generated.anchorsLost, which OrbProofs.C20 proves empty), left out of the file's
// `translated` list (which the tie file proves complete) and listed under "unresolved" in
// work/float_ties.json):
//
//   types   float64 -> α, int / uint8 / Orientation -> Nat or Int (per function), bool -> Bool,
//           orb.Point -> Pt α, orb.Bound -> Bound α, orb.LineString / Ring / MultiPoint -> List (Pt α),
//           orb.DistanceFunc -> Pt α → Pt α → α, multiple results -> a product
//   exprs   integral literals, variables, package constants with an integer value, p[0] p[1],
//           b.Min b.Max, xs[i] (= xs.getD i ⟨0,0⟩: the run-time bounds check is not part of the
//           translation), len(xs), Point{…} Bound{…}, + - * / on floats, + - | & on ints, unary - !,
//           comparisons, && || (a chain of the same operator is emitted flat), == != on floats
//           (BEq) / ints / points, math.Sqrt (-> the explicit parameter `sqrt`, as in the models),
//           float64(int) (-> Nat.cast), math.Min / math.Max (-> min / max), math.Abs (-> `fabs`), math.Nextafter(x, math.Inf(1))
//           (-> the explicit parameter `next`), calls of functions translated earlier
//   stmts   return, := , = , op= , ++ , p[0] op= e, b.Min[0] op= e, tuple assignment, var decls,
//           if / else-if / else (returning, assigning, or mixed: a mixed `if` becomes a local join
//           point `k_n`), if with an init statement, switch on an int with returning cases,
//           panic(...) (-> `none` or `.panic msg`, per function), and the index loops
//           `for i := lo; i < len(xs)-k; i++ { … xs[i+c] … xs[i+c+1] … }` that visit consecutive
//           pairs, which become the structural recursion `foldPairs` over `xs.drop (lo+c)`, and
//           `for _, x := range xs { … }` (-> List.foldl); no break / continue / return inside loops.

import (
	"encoding/json"
	"flag"
	"fmt"
	"go/ast"
	"go/token"
	"os"
	"path/filepath"
	"regexp"
	"sort"
	"strconv"
	"strings"
)

type fkind int

const (
	fkFloat fkind = iota
	fkInt
	fkBool
	fkPt
	fkBound
	fkPts
	fkTuple
	fkUInt   // untyped integer constant
	fkUFloat // untyped float constant
	fkDistFn // orb.DistanceFunc
	fkZ      // orb.Orientation (an int8 with negative values): Lean Int
	fkBad
)

type fty struct {
	k  fkind
	el []fty
}

var (
	tF   = fty{k: fkFloat}
	tI   = fty{k: fkInt}
	tB   = fty{k: fkBool}
	tP   = fty{k: fkPt}
	tBd  = fty{k: fkBound}
	tPs  = fty{k: fkPts}
	tBad = fty{k: fkBad}
	tZ   = fty{k: fkZ}
)

// ffn describes one Go function the translator is asked for.
type ffn struct {
	rel, recv, name string // Go package dir (relative to the repo root), receiver type, name
	lean            string // name of the Lean definition
	intTy           string // Lean type of Go's int in this function: "Nat" (default) or "Int"
	panicMode       string // "" (no panic allowed), "option" (panic = none), "res" (panic = .panic msg)
	prefixUntil     string // translate only the leading statements before the first one that mentions this identifier …
	prefixRet       []string
	dropParams      []string // … returning these variables; these parameters are omitted
}

type fsig struct {
	qual   string
	params []fty
	ret    fty
	extras []string
	fn     *ffn
	file   string
}

var fsigs = map[string]*fsig{}

type fpkgSpec struct {
	file    string // Lean module name under Generated
	rel     string // Go package directory
	imports []string
	fns     []ffn
}

// The functions asked for, per Go package, in dependency order.
var floatPkgs = []fpkgSpec{
	{file: "BoundGo", rel: ".", fns: []ffn{
		{recv: "Bound", name: "Top", lean: "boundTop"},
		{recv: "Bound", name: "Bottom", lean: "boundBottom"},
		{recv: "Bound", name: "Right", lean: "boundRight"},
		{recv: "Bound", name: "Left", lean: "boundLeft"},
		{recv: "Bound", name: "LeftTop", lean: "boundLeftTop"},
		{recv: "Bound", name: "RightBottom", lean: "boundRightBottom"},
		{recv: "Bound", name: "IsEmpty", lean: "boundIsEmpty"},
		{recv: "Bound", name: "Contains", lean: "boundContains"},
		{recv: "Bound", name: "Extend", lean: "boundExtend"},
		{recv: "Bound", name: "Union", lean: "boundUnion"},
		{recv: "Bound", name: "Intersects", lean: "boundIntersects"},
		{recv: "Bound", name: "Center", lean: "boundCenter"},
		{recv: "Bound", name: "Equal", lean: "boundEqual"},
		{recv: "Bound", name: "ToRing", lean: "boundToRing"},
		{recv: "Point", name: "X", lean: "pointX"},
		{recv: "Point", name: "Y", lean: "pointY"},
		{recv: "Point", name: "Lon", lean: "pointLon"},
		{recv: "Point", name: "Lat", lean: "pointLat"},
		{recv: "Point", name: "Equal", lean: "pointEqual"},
		{recv: "Ring", name: "Closed", lean: "ringClosed"},
		{recv: "Ring", name: "Orientation", lean: "ringOrientation"},
	}},
	{file: "ClipGo", rel: "clip", imports: []string{"BoundGo"}, fns: []ffn{
		{name: "bitCode", lean: "bitCode"},
		{name: "bitCodeOpen", lean: "bitCodeOpen"},
		{name: "intersect", lean: "intersect", panicMode: "option"},
		{name: "clampToBound", lean: "clampToBound"},
		{name: "Bound", lean: "clipBound"},
	}},
	{file: "PlanarGo", rel: "planar", imports: []string{"BoundGo"}, fns: []ffn{
		{name: "Distance", lean: "distance"},
		{name: "DistanceSquared", lean: "distanceSquared"},
		{name: "DistanceFromSegmentSquared", lean: "distanceFromSegmentSquared"},
		{name: "DistanceFromSegment", lean: "distanceFromSegment"},
		{name: "segmentDistanceFromSquared", lean: "segmentDistanceFromSquared"},
		{name: "multiPointCentroid", lean: "multiPointCentroid"},
		{name: "ringCentroidArea", lean: "ringCentroidArea"},
		{name: "rayIntersect", lean: "rayIntersect"},
	}},
	{file: "LengthGo", rel: "internal/length", imports: []string{"BoundGo"}, fns: []ffn{
		{name: "lineStringLength", lean: "lineStringLength"},
	}},
	{file: "QuadtreeGo", rel: "quadtree", imports: []string{"BoundGo", "PlanarGo"}, fns: []ffn{
		{name: "childIndex", lean: "childIndex"},
		{recv: "Quadtree", name: "add", lean: "addDescend", prefixUntil: "n",
			prefixRet: []string{"i", "left", "right", "bottom", "top"}, dropParams: []string{"q", "n", "p"}},
	}},
	{file: "SimplifyGo", rel: "simplify", imports: []string{"BoundGo"}, fns: []ffn{
		{name: "doubleTriangleArea", lean: "doubleTriangleArea"},
	}},
	{file: "SmartclipGo", rel: "clip/smartclip", imports: []string{"BoundGo"}, fns: []ffn{
		{name: "bitCodeOpen", lean: "bitCodeOpen"},
		{name: "pointSide", lean: "pointSide"},
		{name: "pointFor", lean: "pointFor", intTy: "Int", panicMode: "res"},
	}},
}

// ---------------------------------------------------------------------------------------------

type ftrans struct {
	pk     *pkgFiles
	spec   *ffn
	vars   map[string]fty
	err    string
	extras map[string]bool
	nk     int // join points
	notes  map[string]bool
	// loop substitution: printed Go index expression -> Lean variable
	subst   map[string]string
	retTys  []fty
	inIndex bool // inside xs[…]: a negative index is a Go panic, which the translation does not cover anyway
}

func (t *ftrans) fail(format string, a ...interface{}) string {
	if t.err == "" {
		t.err = fmt.Sprintf(format, a...)
	}
	return "unsupported"
}

func (t *ftrans) intTy() string {
	if t.spec.intTy != "" {
		return t.spec.intTy
	}
	return "Nat"
}

func (t *ftrans) leanTy(ty fty) string {
	switch ty.k {
	case fkFloat, fkUFloat:
		return "α"
	case fkInt, fkUInt:
		return t.intTy()
	case fkBool:
		return "Bool"
	case fkZ:
		return "Int"
	case fkPt:
		return "Pt α"
	case fkBound:
		return "Bound α"
	case fkPts:
		return "List (Pt α)"
	case fkDistFn:
		return "Pt α → Pt α → α"
	case fkTuple:
		var s []string
		for _, e := range ty.el {
			s = append(s, t.leanTy(e))
		}
		return strings.Join(s, " × ")
	}
	return "?"
}

func fgoTy(e ast.Expr) fty {
	n, ptr := typeName(e)
	if ptr {
		return tBad // a pointer: aliasing is outside the translated subset
	}
	switch n {
	case "float64":
		return tF
	case "int", "uint8":
		return tI
	case "Orientation":
		return tZ
	case "bool":
		return tB
	case "Point":
		return tP
	case "Bound":
		return tBd
	case "LineString", "Ring", "MultiPoint":
		return tPs
	case "DistanceFunc":
		return fty{k: fkDistFn}
	}
	return tBad
}

func fIsNum(ty fty) bool {
	return ty.k == fkFloat || ty.k == fkInt || ty.k == fkUInt || ty.k == fkUFloat
}

// unify the types of two numeric operands (untyped constants adopt the other side's type)
func fUnify(a, b fty) fty {
	switch {
	case a.k == fkFloat || b.k == fkFloat:
		if (a.k == fkFloat || a.k == fkUInt || a.k == fkUFloat) && (b.k == fkFloat || b.k == fkUInt || b.k == fkUFloat) {
			return tF
		}
		return tBad
	case a.k == fkInt || b.k == fkInt:
		if (a.k == fkInt || a.k == fkUInt) && (b.k == fkInt || b.k == fkUInt) {
			return tI
		}
		return tBad
	case a.k == fkUFloat || b.k == fkUFloat:
		return fty{k: fkUFloat}
	case a.k == fkUInt && b.k == fkUInt:
		return fty{k: fkUInt}
	}
	return tBad
}

// Go identifiers that are Lean keywords (or would be read as notation) get a trailing underscore.
var leanReserved = map[string]bool{"from": true, "to": true, "at": true, "fun": true, "let": true, "have": true, "show": true,
	"then": true, "match": true, "with": true, "do": true, "in": true, "end": true, "open": true, "def": true, "theorem": true,
	"by": true, "where": true, "using": true, "calc": true, "deriving": true, "instance": true, "structure": true, "class": true,
	"namespace": true, "section": true, "variable": true, "universe": true, "export": true, "prefix": true, "infix": true,
	"notation": true, "macro": true, "syntax": true, "mutual": true, "private": true, "protected": true, "partial": true,
	"nomatch": true, "nofun": true, "suffices": true, "obtain": true, "example": true, "abbrev": true, "inductive": true,
	"extends": true, "Type": true, "Prop": true, "Sort": true, "set_option": true, "attribute": true, "local": true,
	"scoped": true, "noncomputable": true, "opaque": true, "axiom": true, "unsafe": true, "sorry": true, "admit": true,
	"α": true, "sqrt": true, "next": true, "min": true, "max": true, "fabs": true, "ptEq": true, "foldPairs": true, "decide": true,
	"some": true, "none": true, "p_": true, "q_": true}

func lid(name string) string {
	if leanReserved[name] || strings.HasPrefix(name, "k_") {
		return name + "_"
	}
	return name
}

func lids(names []string) []string {
	out := make([]string, len(names))
	for i, n := range names {
		out[i] = lid(n)
	}
	return out
}

var floatNumerals = map[string]bool{"0": true, "1": true, "2": true, "6": true}

var intLitRe = regexp.MustCompile(`^-?[0-9]+$`)

// relOfPkgIdent maps an import name used in a selector (orb, planar, math …) to a package dir.
func relOfPkgIdent(name string) (string, bool) {
	if name == "orb" {
		return ".", true
	}
	for rel := range pkgs {
		if filepath.Base(rel) == name {
			return rel, true
		}
	}
	return "", false
}

func (t *ftrans) constant(rel, name string) (string, fty, bool) {
	v, ok := constValueOf(rel, name)
	if !ok {
		return "", tBad, false
	}
	if v == "math.MaxUint8" {
		v = "255"
	}
	if n, err := strconv.ParseInt(v, 0, 64); err == nil && !intLitRe.MatchString(v) {
		v = strconv.FormatInt(n, 10) // 0xFF
	}
	if !intLitRe.MatchString(v) {
		return "", tBad, false
	}
	if constTypeName(rel, name) == "Orientation" {
		return "(" + v + " : Int)", tZ, true
	}
	if strings.HasPrefix(v, "-") {
		if t.intTy() != "Int" {
			return "", tBad, false
		}
		return "(" + v + ")", tI, true
	}
	return v, fty{k: fkUInt}, true
}

// constValueOf: the printed initialiser of a package-level CONSTANT (variables can change)
func constValueOf(rel, name string) (string, bool) {
	pk := pkgs[rel]
	if pk == nil {
		return "", false
	}
	for _, f := range pk.files {
		for _, d := range f.Decls {
			gd, ok := d.(*ast.GenDecl)
			if !ok || gd.Tok != token.CONST {
				continue
			}
			for _, s := range gd.Specs {
				if vs, ok := s.(*ast.ValueSpec); ok {
					for i, n := range vs.Names {
						if n.Name == name && i < len(vs.Values) {
							return src(pk, vs.Values[i]), true
						}
					}
				}
			}
		}
	}
	return "", false
}

// constTypeName: the declared type of a package-level constant ("" if it has none)
func constTypeName(rel, name string) string {
	pk := pkgs[rel]
	if pk == nil {
		return ""
	}
	for _, f := range pk.files {
		for _, d := range f.Decls {
			gd, ok := d.(*ast.GenDecl)
			if !ok {
				continue
			}
			for _, s := range gd.Specs {
				if vs, ok := s.(*ast.ValueSpec); ok && vs.Type != nil {
					for _, n := range vs.Names {
						if n.Name == name {
							tn, _ := typeName(vs.Type)
							return tn
						}
					}
				}
			}
		}
	}
	return ""
}

// numOK: an untyped numeral that becomes a float needs `OfNat α n`; the models' signature has 0, 1, 2, 6
func (t *ftrans) numOK(s string, ty fty) bool {
	if (ty.k == fkUInt || ty.k == fkUFloat) && !floatNumerals[s] {
		t.fail("float constant %s (the models are stated for the numerals 0, 1, 2, 6 only)", s)
		return false
	}
	return true
}

func isAtom(s string) bool {
	if strings.HasPrefix(s, "(") && strings.HasSuffix(s, ")") {
		// balanced from the first to the last character?
		d := 0
		for i, c := range s {
			if c == '(' {
				d++
			} else if c == ')' {
				d--
				if d == 0 && i != len(s)-1 {
					return false
				}
			}
		}
		return true
	}
	if strings.HasPrefix(s, "⟨") && strings.HasSuffix(s, "⟩") && strings.Count(s, "⟨") == 1 {
		return true
	}
	return !strings.ContainsAny(s, " \n")
}

func par(s string) string {
	if isAtom(s) {
		return s
	}
	return "(" + s + ")"
}

// expr translates a non-boolean expression (boolean ones go through boolVal / cond).
func (t *ftrans) expr(e ast.Expr) (string, fty) {
	if t.subst != nil {
		if v, ok := t.subst[src(t.pk, e)]; ok {
			return v, tP
		}
	}
	switch x := e.(type) {
	case *ast.BasicLit:
		switch x.Kind {
		case token.INT:
			return x.Value, fty{k: fkUInt}
		case token.FLOAT:
			f, err := strconv.ParseFloat(x.Value, 64)
			if err == nil && f == float64(int64(f)) && f >= 0 && f < 1e15 {
				v := strconv.FormatInt(int64(f), 10)
				if !t.numOK(v, fty{k: fkUFloat}) {
					return "unsupported", tBad
				}
				return v, fty{k: fkUFloat}
			}
			return t.fail("non-integral float literal %s", x.Value), tBad
		}
	case *ast.ParenExpr:
		return t.expr(x.X)
	case *ast.Ident:
		if x.Name == "true" || x.Name == "false" {
			return x.Name, tB
		}
		if ty, ok := t.vars[x.Name]; ok {
			return lid(x.Name), ty
		}
		if s, ty, ok := t.constant(t.pk.rel, x.Name); ok {
			return s, ty
		}
		return t.fail("unknown identifier %s", x.Name), tBad
	case *ast.SelectorExpr:
		if id, ok := x.X.(*ast.Ident); ok {
			if _, isVar := t.vars[id.Name]; !isVar {
				if rel, ok := relOfPkgIdent(id.Name); ok {
					if s, ty, ok := t.constant(rel, x.Sel.Name); ok {
						return s, ty
					}
				}
				return t.fail("selector %s", src(t.pk, e)), tBad
			}
		}
		base, ty := t.expr(x.X)
		if ty.k == fkBound {
			switch x.Sel.Name {
			case "Min":
				return base + ".lo", tP
			case "Max":
				return base + ".hi", tP
			}
		}
		return t.fail("selector %s", src(t.pk, e)), tBad
	case *ast.IndexExpr:
		base, ty := t.expr(x.X)
		switch ty.k {
		case fkPt:
			if l, ok := x.Index.(*ast.BasicLit); ok {
				switch l.Value {
				case "0":
					return par(base) + ".x", tF
				case "1":
					return par(base) + ".y", tF
				}
			}
		case fkPts:
			wasIn := t.inIndex
			t.inIndex = true
			i, ity := t.expr(x.Index)
			t.inIndex = wasIn
			if ity.k == fkInt || ity.k == fkUInt {
				if t.intTy() != "Nat" {
					return t.fail("slice index in an Int function"), tBad
				}
				t.notes["index-total"] = true
				return fmt.Sprintf("(%s.getD %s ⟨0, 0⟩)", par(base), par(i)), tP
			}
		}
		return t.fail("index %s", src(t.pk, e)), tBad
	case *ast.CompositeLit:
		switch fgoTy(x.Type).k {
		case fkPt:
			if len(x.Elts) == 0 {
				return "(⟨0, 0⟩ : Pt α)", tP
			}
			if len(x.Elts) == 2 {
				a, at := t.expr(x.Elts[0])
				b, bt := t.expr(x.Elts[1])
				if fUnify(at, tF).k == fkFloat && fUnify(bt, tF).k == fkFloat && t.numOK(a, at) && t.numOK(b, bt) {
					return fmt.Sprintf("(⟨%s, %s⟩ : Pt α)", a, b), tP
				}
			}
		case fkBound:
			f := map[string]string{}
			for _, el := range x.Elts {
				kv, ok := el.(*ast.KeyValueExpr)
				if !ok {
					return t.fail("positional Bound literal"), tBad
				}
				v, vt := t.expr(kv.Value)
				if vt.k != fkPt {
					return t.fail("Bound literal field"), tBad
				}
				f[src(t.pk, kv.Key)] = v
			}
			if len(f) == 2 && f["Min"] != "" && f["Max"] != "" {
				return fmt.Sprintf("(⟨%s, %s⟩ : Bound α)", f["Min"], f["Max"]), tBd
			}
		case fkPts:
			var els []string
			for _, el := range x.Elts {
				v, vt := t.expr(el)
				if vt.k != fkPt {
					return t.fail("list literal element"), tBad
				}
				els = append(els, v)
			}
			return "[" + strings.Join(els, ", ") + "]", tPs
		}
		return t.fail("composite literal %s", src(t.pk, e)), tBad
	case *ast.UnaryExpr:
		if x.Op == token.SUB {
			a, ty := t.expr(x.X)
			if ty.k == fkFloat {
				return "-" + par(a), tF
			}
			if (ty.k == fkInt || ty.k == fkUInt) && t.intTy() == "Int" {
				return "(-" + par(a) + ")", tI
			}
		}
		if x.Op == token.NOT {
			return t.boolVal(e), tB
		}
	case *ast.CallExpr:
		return t.call(x)
	case *ast.BinaryExpr:
		switch x.Op {
		case token.LAND, token.LOR, token.EQL, token.NEQ, token.LSS, token.GTR, token.LEQ, token.GEQ:
			return t.boolVal(e), tB
		}
		l, lt := t.expr(x.X)
		r, rt := t.expr(x.Y)
		ty := fUnify(lt, rt)
		if ty.k == fkUInt || ty.k == fkUFloat {
			return t.fail("constant expression %s (Go evaluates it exactly at compile time)", src(t.pk, e)), tBad
		}
		if ty.k == fkInt && x.Op == token.SUB && t.intTy() == "Nat" && !t.inIndex {
			return t.fail("integer subtraction %s outside an index (Go's int can go negative)", src(t.pk, e)), tBad
		}
		op := ""
		if ty.k == fkFloat {
			// a numeral next to a float needs `OfNat α n`; the models' signature has these:
			if !t.numOK(l, lt) || !t.numOK(r, rt) {
				return "unsupported", tBad
			}
		}
		switch ty.k {
		case fkFloat, fkUFloat:
			op = map[token.Token]string{token.ADD: "+", token.SUB: "-", token.MUL: "*", token.QUO: "/"}[x.Op]
		case fkInt, fkUInt:
			op = map[token.Token]string{token.ADD: "+", token.SUB: "-", token.OR: "|||", token.AND: "&&&"}[x.Op]
		}
		if op != "" {
			return par(l) + " " + op + " " + par(r), ty
		}
	}
	return t.fail("expression %s", src(t.pk, e)), tBad
}

func (t *ftrans) call(x *ast.CallExpr) (string, fty) {
	fun := src(t.pk, x.Fun)
	args := func() ([]string, []fty) {
		var as []string
		var ts []fty
		for _, a := range x.Args {
			s, ty := t.exprOrBool(a)
			as = append(as, par(s))
			ts = append(ts, ty)
		}
		return as, ts
	}
	floatArgs := func(n int) ([]string, bool) {
		as, ts := args()
		if len(as) != n {
			return nil, false
		}
		for i, ty := range ts {
			if fUnify(ty, tF).k != fkFloat || !t.numOK(as[i], ty) {
				return nil, false
			}
		}
		return as, true
	}
	switch fun {
	case "math.Sqrt":
		if as, ok := floatArgs(1); ok {
			t.extras["sqrt"] = true
			return "sqrt " + as[0], tF
		}
	case "math.Abs":
		if as, ok := floatArgs(1); ok {
			return "fabs " + as[0], tF
		}
	case "math.Min", "math.Max":
		if as, ok := floatArgs(2); ok {
			return strings.ToLower(fun[5:]) + " " + as[0] + " " + as[1], tF
		}
	case "math.Nextafter":
		if len(x.Args) == 2 && src(t.pk, x.Args[1]) == "math.Inf(1)" {
			a, ty := t.expr(x.Args[0])
			if ty.k == fkFloat {
				t.extras["next"] = true
				return "next " + par(a), tF
			}
		}
	case "len":
		if len(x.Args) == 1 {
			a, ty := t.expr(x.Args[0])
			if ty.k == fkPts && t.intTy() == "Nat" {
				return par(a) + ".length", tI
			}
		}
	case "float64":
		if len(x.Args) == 1 {
			a, ty := t.expr(x.Args[0])
			if ty.k == fkFloat {
				return a, tF
			}
			if ty.k == fkInt && t.intTy() == "Nat" {
				return "(" + a + " : α)", tF // Nat.cast, as in the models
			}
		}
	case "LineString", "orb.LineString", "MultiPoint", "orb.MultiPoint", "Ring", "orb.Ring":
		if len(x.Args) == 1 {
			a, ty := t.expr(x.Args[0])
			if ty.k == fkPts {
				return a, tPs
			}
		}
	}
	if t.err != "" {
		return "unsupported", tBad
	}
	// a DistanceFunc variable
	if id, ok := x.Fun.(*ast.Ident); ok {
		if ty, ok := t.vars[id.Name]; ok && ty.k == fkDistFn {
			as, ts := args()
			if len(as) == 2 && ts[0].k == fkPt && ts[1].k == fkPt {
				return lid(id.Name) + " " + as[0] + " " + as[1], tF
			}
			return t.fail("call %s", src(t.pk, x)), tBad
		}
	}
	// a function translated earlier
	var key string
	var recvArg []string
	switch f := x.Fun.(type) {
	case *ast.Ident:
		key = t.pk.rel + "||" + f.Name
	case *ast.SelectorExpr:
		if id, ok := f.X.(*ast.Ident); ok {
			if _, isVar := t.vars[id.Name]; !isVar {
				if rel, ok := relOfPkgIdent(id.Name); ok {
					key = rel + "||" + f.Sel.Name
				}
			}
		}
		if key == "" {
			r, rty := t.expr(f.X)
			rn := map[fkind]string{fkBound: "Bound", fkPt: "Point", fkPts: "Ring"}[rty.k]
			if rn == "" {
				return t.fail("method call %s", src(t.pk, x)), tBad
			}
			key = ".|" + rn + "|" + f.Sel.Name
			recvArg = []string{par(r)}
		}
	}
	sg := fsigs[key]
	if sg == nil {
		return t.fail("call of a function that is not translated: %s", fun), tBad
	}
	if sg.fn.panicMode != "" {
		return t.fail("call of a panicking function: %s", fun), tBad
	}
	as, ts := args()
	want := sg.params
	if recvArg != nil {
		want = want[1:]
	}
	if len(ts) != len(want) {
		return t.fail("arity of %s", fun), tBad
	}
	for i := range ts {
		ok := ts[i].k == want[i].k
		if want[i].k == fkFloat || want[i].k == fkInt {
			ok = fUnify(ts[i], want[i]).k == want[i].k && (want[i].k != fkFloat || t.numOK(as[i], ts[i]))
		}
		if !ok {
			return t.fail("argument %d of %s", i, fun), tBad
		}
	}
	if sg.fn.intTy != "" && sg.fn.intTy != t.intTy() {
		return t.fail("int type mismatch calling %s", fun), tBad
	}
	parts := []string{sg.qual}
	for _, ex := range sg.extras {
		t.extras[ex] = true
		parts = append(parts, ex)
	}
	parts = append(parts, recvArg...)
	parts = append(parts, as...)
	return strings.Join(parts, " "), sg.ret
}

// ---- booleans -------------------------------------------------------------------------------

func isLogical(e ast.Expr) (ast.Expr, bool) {
	for {
		p, ok := e.(*ast.ParenExpr)
		if !ok {
			break
		}
		e = p.X
	}
	switch x := e.(type) {
	case *ast.BinaryExpr:
		switch x.Op {
		case token.LAND, token.LOR, token.EQL, token.NEQ, token.LSS, token.GTR, token.LEQ, token.GEQ:
			return e, true
		}
	case *ast.UnaryExpr:
		if x.Op == token.NOT {
			return e, true
		}
	}
	return e, false
}

// nativeBool: does the boolean expression contain an atom that is a Bool by nature (BEq on floats
// or points, a call, a variable)?  Then the whole expression is emitted in Bool style
// (`&&`, `||`, `!`, `decide (a < b)`), otherwise in Prop style (`∧`, `∨`, `¬`, `a < b`).
func (t *ftrans) nativeBool(e ast.Expr) bool {
	e, lg := isLogical(e)
	if !lg {
		return true
	}
	switch x := e.(type) {
	case *ast.UnaryExpr:
		return t.nativeBool(x.X)
	case *ast.BinaryExpr:
		switch x.Op {
		case token.LAND, token.LOR:
			return t.nativeBool(x.X) || t.nativeBool(x.Y)
		case token.EQL, token.NEQ:
			saved := t.err
			_, lt := t.exprOrBool(x.X)
			_, rt := t.exprOrBool(x.Y)
			t.err = saved
			k := fUnify(lt, rt).k
			return !(k == fkInt || k == fkUInt)
		}
	}
	return false
}

func flatten(e ast.Expr, op token.Token, out *[]ast.Expr) {
	inner, _ := isLogical(e)
	if b, ok := inner.(*ast.BinaryExpr); ok && b.Op == op {
		flatten(b.X, op, out)
		flatten(b.Y, op, out)
		return
	}
	*out = append(*out, e)
}

func (t *ftrans) logic(e ast.Expr, prop bool) string {
	e, lg := isLogical(e)
	if !lg {
		s, ty := t.expr(e)
		if ty.k != fkBool {
			return t.fail("not a boolean: %s", src(t.pk, e))
		}
		return s
	}
	switch x := e.(type) {
	case *ast.UnaryExpr:
		a := t.logic(x.X, prop)
		if prop {
			return "¬ " + par(a)
		}
		return "!" + par(a)
	case *ast.BinaryExpr:
		switch x.Op {
		case token.LAND, token.LOR:
			var parts []ast.Expr
			flatten(e, x.Op, &parts)
			var ss []string
			for _, p := range parts {
				s := t.logic(p, prop)
				if inner, lg := isLogical(p); lg {
					if b, ok := inner.(*ast.BinaryExpr); ok && (b.Op == token.LAND || b.Op == token.LOR) {
						s = "(" + s + ")"
					}
				}
				ss = append(ss, s)
			}
			sym := map[token.Token][2]string{token.LAND: {" && ", " ∧ "}, token.LOR: {" || ", " ∨ "}}[x.Op]
			if prop {
				return strings.Join(ss, sym[1])
			}
			return strings.Join(ss, sym[0])
		}
		l, lt := t.exprOrBool(x.X)
		r, rt := t.exprOrBool(x.Y)
		switch {
		case lt.k == fkPt && rt.k == fkPt && (x.Op == token.EQL || x.Op == token.NEQ):
			if x.Op == token.EQL {
				return "ptEq " + par(l) + " " + par(r)
			}
			return "!(ptEq " + par(l) + " " + par(r) + ")"
		case lt.k == fkBool && rt.k == fkBool && (x.Op == token.EQL || x.Op == token.NEQ):
			if x.Op == token.EQL {
				return par(l) + " == " + par(r)
			}
			return par(l) + " != " + par(r)
		}
		ty := fUnify(lt, rt)
		if ty.k == fkBad || ty.k == fkUInt || ty.k == fkUFloat {
			return t.fail("comparison %s", src(t.pk, e))
		}
		isInt := ty.k == fkInt
		l, r = par(l), par(r)
		switch x.Op {
		case token.EQL:
			if isInt && prop {
				return l + " = " + r
			}
			return l + " == " + r
		case token.NEQ:
			if isInt && prop {
				return l + " ≠ " + r
			}
			return l + " != " + r
		}
		sym := map[token.Token]string{token.LSS: "<", token.GTR: ">", token.LEQ: "≤", token.GEQ: "≥"}[x.Op]
		if prop {
			return l + " " + sym + " " + r
		}
		return "decide (" + l + " " + sym + " " + r + ")"
	}
	return t.fail("boolean %s", src(t.pk, e))
}

// cond: a condition for `if`.
func (t *ftrans) cond(e ast.Expr) string {
	return t.logic(e, !t.nativeBool(e))
}

// boolVal: a Bool value.
func (t *ftrans) boolVal(e ast.Expr) string {
	if t.nativeBool(e) {
		return t.logic(e, false)
	}
	return "decide (" + t.logic(e, true) + ")"
}

func (t *ftrans) exprOrBool(e ast.Expr) (string, fty) {
	if _, lg := isLogical(e); lg {
		return t.boolVal(e), tB
	}
	return t.expr(e)
}

// ---- statements -----------------------------------------------------------------------------

func indentAll(s string, n int) string {
	pad := strings.Repeat(" ", n)
	return pad + strings.ReplaceAll(s, "\n", "\n"+pad)
}

func letLine(pat, val, rest string) string {
	if strings.HasPrefix(pat, rest+" : ") { // let x : T := v; x
		return val
	}
	if strings.Contains(val, "\n") {
		return "let " + pat + " :=\n" + indentAll(val, 4) + "\n" + rest
	}
	return "let " + pat + " := " + val + "\n" + rest
}

func ite(c, a, b string) string {
	if !strings.Contains(a, "\n") && !strings.Contains(b, "\n") && len(c)+len(a)+len(b) < 90 && !strings.HasPrefix(b, "if ") {
		return "if " + c + " then " + a + " else " + b
	}
	if strings.HasPrefix(b, "if ") {
		return "if " + c + " then\n" + indentAll(a, 2) + "\nelse " + b
	}
	return "if " + c + " then\n" + indentAll(a, 2) + "\nelse\n" + indentAll(b, 2)
}

func (t *ftrans) copyVars() map[string]fty {
	m := map[string]fty{}
	for k, v := range t.vars {
		m[k] = v
	}
	return m
}

func mentions(n ast.Node, name string) bool {
	found := false
	ast.Inspect(n, func(x ast.Node) bool {
		if id, ok := x.(*ast.Ident); ok && id.Name == name {
			found = true
		}
		return !found
	})
	return found
}

func isPanic(s ast.Stmt) (string, bool) {
	es, ok := s.(*ast.ExprStmt)
	if !ok {
		return "", false
	}
	c, ok := es.X.(*ast.CallExpr)
	if !ok {
		return "", false
	}
	if id, ok := c.Fun.(*ast.Ident); !ok || id.Name != "panic" || len(c.Args) != 1 {
		return "", false
	}
	if l, ok := c.Args[0].(*ast.BasicLit); ok && l.Kind == token.STRING {
		return l.Value, true
	}
	return `"panic"`, true
}

// terminates: every path through the list ends in return / panic
func terminates(list []ast.Stmt) bool {
	if len(list) == 0 {
		return false
	}
	switch s := list[len(list)-1].(type) {
	case *ast.ReturnStmt:
		return true
	case *ast.ExprStmt:
		_, p := isPanic(s)
		return p
	case *ast.BlockStmt:
		return terminates(s.List)
	case *ast.IfStmt:
		if s.Else == nil {
			return false
		}
		return terminates(s.Body.List) && terminates([]ast.Stmt{s.Else})
	}
	return false
}

func hasReturn(list []ast.Stmt) bool {
	found := false
	for _, s := range list {
		ast.Inspect(s, func(n ast.Node) bool {
			switch x := n.(type) {
			case *ast.ReturnStmt:
				found = true
			case *ast.ExprStmt:
				if _, p := isPanic(x); p {
					found = true
				}
			case *ast.FuncLit:
				return false
			}
			return !found
		})
	}
	return found
}

// fassigned: outer variables (already declared) assigned somewhere in the statements, sorted
func (t *ftrans) fassigned(list []ast.Stmt) []string {
	set := map[string]bool{}
	for _, s := range list {
		ast.Inspect(s, func(n ast.Node) bool {
			switch st := n.(type) {
			case *ast.AssignStmt:
				if st.Tok != token.DEFINE {
					for _, l := range st.Lhs {
						if id := rootIdent(l); id != nil {
							set[id.Name] = true
						}
					}
				}
			case *ast.IncDecStmt:
				if id := rootIdent(st.X); id != nil {
					set[id.Name] = true
				}
			}
			return true
		})
	}
	var out []string
	for k := range set {
		if _, ok := t.vars[k]; ok {
			out = append(out, k)
		}
	}
	sort.Strings(out)
	return out
}

func (t *ftrans) tupleOf(vs []string) string {
	if len(vs) == 1 {
		return lid(vs[0])
	}
	return "(" + strings.Join(lids(vs), ", ") + ")"
}

// bind produces the `let` pattern for the variables vs
func (t *ftrans) bindPat(vs []string) string {
	if len(vs) == 1 {
		return lid(vs[0]) + " : " + t.leanTy(t.vars[vs[0]])
	}
	return "(" + strings.Join(lids(vs), ", ") + ")"
}

func (t *ftrans) ret(results []ast.Expr) string {
	var rs []string
	if len(results) != len(t.retTys) {
		return t.fail("return arity")
	}
	for i, r := range results {
		s, ty := t.exprOrBool(r)
		want := t.retTys[i]
		switch {
		case ty.k == fkUInt && (want.k == fkZ || (want.k == fkInt && t.intTy() == "Int")):
			s = "(" + s + " : Int)"
		case ty.k == want.k:
		case (want.k == fkFloat || want.k == fkInt) && fUnify(ty, want).k == want.k && (want.k != fkFloat || t.numOK(s, ty)):
		default:
			return t.fail("type of returned value %s", src(t.pk, r))
		}
		rs = append(rs, s)
	}
	v := rs[0]
	if len(rs) > 1 {
		v = "(" + strings.Join(rs, ", ") + ")"
	}
	switch t.spec.panicMode {
	case "option":
		return "some " + par(v)
	case "res":
		return ".ok " + par(v)
	}
	return v
}

// store translates an assignment to `lhs` (identifier, p[0], b.Min, b.Min[0]) of the Lean value
// `val`; `cur` gives the current value of the left-hand side for op-assignments.
func (t *ftrans) store(lhs ast.Expr, mk func(cur string, curTy fty) (string, bool)) (pat, val string, ok bool) {
	cur, cty := t.expr(lhs)
	if t.err != "" {
		return "", "", false
	}
	nv, ok := mk(cur, cty)
	if !ok {
		return "", "", false
	}
	root := rootIdent(lhs)
	if root == nil {
		return "", "", false
	}
	rty := t.vars[root.Name]
	path := strings.TrimPrefix(cur, lid(root.Name))
	name := lid(root.Name)
	switch {
	case path == "":
		return name + " : " + t.leanTy(rty), nv, true
	case rty.k == fkPt && path == ".x":
		return name + " : Pt α", fmt.Sprintf("⟨%s, %s.y⟩", nv, name), true
	case rty.k == fkPt && path == ".y":
		return name + " : Pt α", fmt.Sprintf("⟨%s.x, %s⟩", name, nv), true
	case rty.k == fkBound && path == ".lo":
		return name + " : Bound α", fmt.Sprintf("⟨%s, %s.hi⟩", nv, name), true
	case rty.k == fkBound && path == ".hi":
		return name + " : Bound α", fmt.Sprintf("⟨%s.lo, %s⟩", name, nv), true
	case rty.k == fkBound && path == ".lo.x":
		return name + " : Bound α", fmt.Sprintf("⟨⟨%s, %s.lo.y⟩, %s.hi⟩", nv, name, name), true
	case rty.k == fkBound && path == ".lo.y":
		return name + " : Bound α", fmt.Sprintf("⟨⟨%s.lo.x, %s⟩, %s.hi⟩", name, nv, name), true
	case rty.k == fkBound && path == ".hi.x":
		return name + " : Bound α", fmt.Sprintf("⟨%s.lo, ⟨%s, %s.hi.y⟩⟩", name, nv, name), true
	case rty.k == fkBound && path == ".hi.y":
		return name + " : Bound α", fmt.Sprintf("⟨%s.lo, ⟨%s.hi.x, %s⟩⟩", name, name, nv), true
	}
	return "", "", false
}

func (t *ftrans) assign(st *ast.AssignStmt, rest func() string) string {
	if len(st.Lhs) != len(st.Rhs) {
		return t.fail("assignment %s", src(t.pk, st))
	}
	// tuple assignment  a, b = e1, e2  (all right-hand sides are evaluated first)
	if len(st.Lhs) > 1 {
		var names, vals []string
		var tys []fty
		for i := range st.Lhs {
			id, ok := st.Lhs[i].(*ast.Ident)
			if !ok {
				return t.fail("assignment %s", src(t.pk, st))
			}
			v, ty := t.exprOrBool(st.Rhs[i])
			names, vals, tys = append(names, id.Name), append(vals, v), append(tys, ty)
		}
		for i, n := range names {
			if _, shadow := t.vars[n]; shadow && st.Tok == token.DEFINE {
				return t.fail("declaration shadows %s", n)
			}
			if st.Tok == token.DEFINE {
				t.vars[n] = t.defTy(tys[i])
			} else if old, ok := t.vars[n]; !ok || old.k != t.defTy(tys[i]).k {
				return t.fail("assignment %s", src(t.pk, st))
			}
		}
		var ltys []string
		for _, n := range names {
			ltys = append(ltys, t.leanTy(t.vars[n]))
		}
		return letLine("("+strings.Join(lids(names), ", ")+")", "(("+strings.Join(vals, ", ")+") : "+strings.Join(ltys, " × ")+")", rest())
	}
	lhs, rhs := st.Lhs[0], st.Rhs[0]
	if st.Tok == token.DEFINE {
		id, ok := lhs.(*ast.Ident)
		if !ok {
			return t.fail("assignment %s", src(t.pk, st))
		}
		if _, shadow := t.vars[id.Name]; shadow {
			return t.fail("declaration shadows %s", id.Name)
		}
		v, ty := t.exprOrBool(rhs)
		ty = t.defTy(ty)
		if ty.k == fkBad || ty.k == fkTuple {
			return t.fail("definition %s", src(t.pk, st))
		}
		t.vars[id.Name] = ty
		return letLine(lid(id.Name)+" : "+t.leanTy(ty), v, rest())
	}
	op := map[token.Token]token.Token{token.ADD_ASSIGN: token.ADD, token.SUB_ASSIGN: token.SUB, token.MUL_ASSIGN: token.MUL,
		token.QUO_ASSIGN: token.QUO, token.OR_ASSIGN: token.OR, token.AND_ASSIGN: token.AND}[st.Tok]
	if st.Tok != token.ASSIGN && op == 0 {
		return t.fail("assignment %s", src(t.pk, st))
	}
	pat, val, ok := t.store(lhs, func(cur string, cty fty) (string, bool) {
		if st.Tok == token.ASSIGN {
			v, ty := t.exprOrBool(rhs)
			if ty.k != cty.k && fUnify(ty, cty).k != cty.k {
				return "", false
			}
			if cty.k == fkFloat && !t.numOK(v, ty) {
				return "", false
			}
			return v, true
		}
		// x op= e   is   x = x op (e)
		v, ty := t.expr(&ast.BinaryExpr{X: lhs, Op: op, Y: &ast.ParenExpr{X: rhs}})
		return v, ty.k == cty.k
	})
	if !ok {
		return t.fail("assignment %s", src(t.pk, st))
	}
	return letLine(pat, val, rest())
}

func (t *ftrans) defTy(ty fty) fty {
	switch ty.k {
	case fkUInt:
		return tI
	case fkUFloat:
		return tF
	}
	return ty
}

// block translates a statement list; k is the Lean term for "falling off the end" ("" = must not).
func (t *ftrans) block(list []ast.Stmt, k string) string {
	if t.err != "" {
		return "unsupported"
	}
	if len(list) == 0 {
		if k == "" {
			return t.fail("missing return")
		}
		return k
	}
	s, tail := list[0], list[1:]
	rest := func() string { return t.block(tail, k) }
	if msg, ok := isPanic(s); ok {
		switch t.spec.panicMode {
		case "option":
			return "none"
		case "res":
			return ".panic " + msg
		}
		return t.fail("panic in a function that must not panic")
	}
	switch st := s.(type) {
	case *ast.ReturnStmt:
		if t.spec.prefixUntil != "" {
			return t.fail("return inside the translated prefix")
		}
		return t.ret(st.Results)
	case *ast.BlockStmt:
		return t.block(append(append([]ast.Stmt{}, st.List...), tail...), k)
	case *ast.AssignStmt:
		return t.assign(st, rest)
	case *ast.IncDecStmt:
		one := &ast.BasicLit{Kind: token.INT, Value: "1"}
		tok := token.ADD_ASSIGN
		if st.Tok == token.DEC {
			tok = token.SUB_ASSIGN
		}
		return t.assign(&ast.AssignStmt{Lhs: []ast.Expr{st.X}, Tok: tok, Rhs: []ast.Expr{one}}, rest)
	case *ast.DeclStmt:
		gd, ok := st.Decl.(*ast.GenDecl)
		if !ok || gd.Tok != token.VAR {
			return t.fail("declaration")
		}
		out := ""
		for _, sp := range gd.Specs {
			vs := sp.(*ast.ValueSpec)
			if len(vs.Values) != 0 || vs.Type == nil {
				return t.fail("declaration %s", src(t.pk, st))
			}
			ty := fgoTy(vs.Type)
			zero := map[fkind]string{fkFloat: "0", fkInt: "0", fkBool: "false", fkPt: "⟨0, 0⟩"}[ty.k]
			if zero == "" {
				return t.fail("declaration %s", src(t.pk, st))
			}
			for _, n := range vs.Names {
				t.vars[n.Name] = ty
				out += "let " + lid(n.Name) + " : " + t.leanTy(ty) + " := " + zero + "\n"
			}
		}
		return out + rest()
	case *ast.IfStmt:
		return t.ifStmt(st, tail, k)
	case *ast.SwitchStmt:
		return t.switchStmt(st, tail, k)
	case *ast.ForStmt:
		return t.forStmt(st, rest)
	case *ast.RangeStmt:
		return t.rangeStmt(st, rest)
	}
	return t.fail("statement %s", strings.SplitN(src(t.pk, s), "\n", 2)[0])
}

func elseList(st *ast.IfStmt) []ast.Stmt {
	switch e := st.Else.(type) {
	case *ast.BlockStmt:
		return e.List
	case *ast.IfStmt:
		return []ast.Stmt{e}
	}
	return nil
}

func (t *ftrans) ifStmt(st *ast.IfStmt, tail []ast.Stmt, k string) string {
	if st.Init != nil {
		as, ok := st.Init.(*ast.AssignStmt)
		if !ok || as.Tok != token.DEFINE {
			return t.fail("if-init %s", src(t.pk, st.Init))
		}
		for _, l := range as.Lhs {
			id, ok := l.(*ast.Ident)
			if !ok {
				return t.fail("if-init")
			}
			if _, shadow := t.vars[id.Name]; shadow {
				return t.fail("if-init shadows %s", id.Name)
			}
			for _, s := range tail {
				if mentions(s, id.Name) {
					return t.fail("if-init variable %s is reused after the if", id.Name)
				}
			}
		}
		plain := *st
		plain.Init = nil
		return t.assign(as, func() string { return t.ifStmt(&plain, tail, k) })
	}
	c := t.cond(st.Cond)
	body, els := st.Body.List, elseList(st)
	saved := t.copyVars()
	branch := func(list []ast.Stmt, k string) string {
		t.vars = copyF(saved)
		defer func() { t.vars = saved }()
		return t.block(list, k)
	}
	restAfter := func() string {
		t.vars = saved
		return t.block(tail, k)
	}
	switch {
	case terminates(body):
		// if c { …return } [else {A}] ; rest      =>  if c then … else (A; rest)
		a := branch(body, "")
		b := branch(append(append([]ast.Stmt{}, els...), tail...), k)
		return ite(c, a, b)
	case els != nil && terminates(els):
		a := branch(append(append([]ast.Stmt{}, body...), tail...), k)
		b := branch(els, "")
		return ite(c, a, b)
	case !hasReturn(body) && !hasReturn(els):
		// a purely assigning if: bind the assigned variables to the value of an if-expression
		vs := t.fassigned([]ast.Stmt{st})
		if len(vs) == 0 {
			return t.fail("if without effect: %s", src(t.pk, st.Cond))
		}
		tup := t.tupleOf(vs)
		a := branch(body, tup)
		b := branch(els, tup)
		if len(tail) == 0 && k == tup {
			return ite(c, a, b)
		}
		return letLine(t.bindPat(vs), ite(c, a, b), restAfter())
	default:
		// mixed: some paths return, some fall through (possibly after assignments).
		// The continuation becomes a local join point taking the assigned variables.
		if len(tail) == 0 && k != "" && !strings.Contains(k, "\n") {
			// nothing follows the if: both branches continue with k itself (k names the variables
			// current at the point where it is pasted; shadowing declarations are rejected)
			return ite(c, branch(body, k), branch(els, k))
		}
		vs := t.fassigned([]ast.Stmt{st})
		t.nk++
		kn := fmt.Sprintf("k_%d", t.nk)
		var binder, callK string
		if len(vs) == 0 {
			binder, callK = "(_ : Unit)", kn+" ()"
		} else {
			for _, v := range vs {
				binder += fmt.Sprintf("(%s : %s) ", lid(v), t.leanTy(saved[v]))
			}
			binder = strings.TrimSpace(binder)
			callK = kn + " " + strings.Join(lids(vs), " ")
		}
		if k == "" && len(tail) == 0 {
			return t.fail("missing return after if")
		}
		a := branch(body, callK)
		b := branch(els, callK)
		r := restAfter()
		return "let " + kn + " := fun " + binder + " =>\n" + indentAll(r, 4) + "\n" + ite(c, a, b)
	}
}

func copyF(m map[string]fty) map[string]fty {
	o := map[string]fty{}
	for k, v := range m {
		o[k] = v
	}
	return o
}

// switch x { case c: …return }  =>  if x == c then … else …
func (t *ftrans) switchStmt(st *ast.SwitchStmt, tail []ast.Stmt, k string) string {
	if st.Init != nil || st.Tag == nil {
		return t.fail("switch shape")
	}
	tag, tty := t.expr(st.Tag)
	if tty.k != fkInt {
		return t.fail("switch tag %s", src(t.pk, st.Tag))
	}
	type arm struct{ c, body string }
	var arms []arm
	for _, cs := range st.Body.List {
		cc := cs.(*ast.CaseClause)
		if len(cc.List) != 1 || !terminates(cc.Body) {
			return t.fail("switch case shape")
		}
		v, vt := t.expr(cc.List[0])
		if fUnify(vt, tI).k != fkInt {
			return t.fail("switch case value")
		}
		saved := t.copyVars()
		b := t.block(cc.Body, "")
		t.vars = saved
		arms = append(arms, arm{par(tag) + " == " + par(v), b})
	}
	out := t.block(tail, k)
	for i := len(arms) - 1; i >= 0; i-- {
		out = ite(arms[i].c, arms[i].body, out)
	}
	return out
}

// for i := lo; i < len(xs)-k; i++ { … xs[i+c] … xs[i+c+1] … }   (consecutive pairs)
func (t *ftrans) forStmt(st *ast.ForStmt, rest func() string) string {
	init, ok := st.Init.(*ast.AssignStmt)
	if !ok || init.Tok != token.DEFINE || len(init.Lhs) != 1 {
		return t.fail("loop init")
	}
	iv := init.Lhs[0].(*ast.Ident).Name
	loLit, ok := init.Rhs[0].(*ast.BasicLit)
	if !ok || loLit.Kind != token.INT {
		return t.fail("loop start")
	}
	lo, _ := strconv.Atoi(loLit.Value)
	if inc, ok := st.Post.(*ast.IncDecStmt); !ok || inc.Tok != token.INC || src(t.pk, inc.X) != iv {
		return t.fail("loop step")
	}
	cnd, ok := st.Cond.(*ast.BinaryExpr)
	if !ok || cnd.Op != token.LSS || src(t.pk, cnd.X) != iv {
		return t.fail("loop condition")
	}
	// bound: len(xs) or len(xs)-k
	bound, kk := cnd.Y, 0
	if b, ok := bound.(*ast.BinaryExpr); ok && b.Op == token.SUB {
		l, ok := b.Y.(*ast.BasicLit)
		if !ok || l.Kind != token.INT {
			return t.fail("loop bound")
		}
		kk, _ = strconv.Atoi(l.Value)
		bound = b.X
	}
	call, ok := bound.(*ast.CallExpr)
	if !ok || src(t.pk, call.Fun) != "len" || len(call.Args) != 1 {
		return t.fail("loop bound")
	}
	xsId, ok := call.Args[0].(*ast.Ident)
	if !ok || t.vars[xsId.Name].k != fkPts {
		return t.fail("loop bound")
	}
	xs := xsId.Name
	// every use of xs and of i inside the body
	offsets := map[int]string{}
	bad := ""
	var scan func(n ast.Node) bool
	scan = func(n ast.Node) bool {
		switch x := n.(type) {
		case *ast.IndexExpr:
			if id, ok := x.X.(*ast.Ident); ok && id.Name == xs {
				off, ok := 0, false
				switch ix := x.Index.(type) {
				case *ast.Ident:
					ok = ix.Name == iv
				case *ast.BinaryExpr:
					if l, isId := ix.X.(*ast.Ident); isId && l.Name == iv {
						if c, isLit := ix.Y.(*ast.BasicLit); isLit && c.Kind == token.INT {
							off, _ = strconv.Atoi(c.Value)
							if ix.Op == token.SUB {
								off, ok = -off, true
							} else if ix.Op == token.ADD {
								ok = true
							}
						}
					}
				}
				if !ok {
					bad = "index " + src(t.pk, x)
					return false
				}
				offsets[off] = src(t.pk, x)
				return false
			}
		case *ast.Ident:
			if x.Name == xs {
				bad = "the slice is used other than by xs[i+c]"
			}
			if x.Name == iv {
				bad = "the loop counter is used other than as an index"
			}
		case *ast.BranchStmt, *ast.ReturnStmt, *ast.ForStmt, *ast.RangeStmt, *ast.FuncLit:
			bad = "control flow inside the loop"
		}
		return bad == ""
	}
	ast.Inspect(st.Body, scan)
	if bad != "" {
		return t.fail("loop body: %s", bad)
	}
	var offs []int
	for o := range offsets {
		offs = append(offs, o)
	}
	sort.Ints(offs)
	if len(offs) != 2 || offs[1] != offs[0]+1 {
		return t.fail("loop does not visit consecutive pairs")
	}
	c := offs[0]
	if kk != c+1 || lo+c < 0 {
		return t.fail("loop range does not match the indices used")
	}
	vs := t.fassigned(st.Body.List)
	for _, v := range vs {
		if v == xs {
			return t.fail("loop assigns the slice")
		}
	}
	if len(vs) == 0 {
		return t.fail("loop without effect")
	}
	saved := t.copyVars()
	oldSubst := t.subst
	t.subst = map[string]string{offsets[c]: "p_", offsets[c+1]: "q_"}
	t.vars["p_"], t.vars["q_"] = tP, tP
	delete(t.vars, xs)
	body := t.block(st.Body.List, t.tupleOf(vs))
	t.subst = oldSubst
	t.vars = saved
	var binder string
	if len(vs) == 1 {
		binder = "(" + lid(vs[0]) + " : " + t.leanTy(t.vars[vs[0]]) + ")"
	} else {
		var tys []string
		for _, v := range vs {
			tys = append(tys, t.leanTy(t.vars[v]))
		}
		binder = "((" + strings.Join(lids(vs), ", ") + ") : " + strings.Join(tys, " × ") + ")"
	}
	list := lid(xs)
	if lo+c > 0 {
		list = fmt.Sprintf("(%s.drop %d)", lid(xs), lo+c)
	}
	val := "foldPairs (fun " + binder + " (p_ q_ : Pt α) =>\n" + indentAll(body, 4) + ")\n  " + list + " " + t.tupleOf(vs)
	return letLine(t.bindPat(vs), val, rest())
}

// for _, x := range xs { … }   =>   List.foldl over xs
func (t *ftrans) rangeStmt(st *ast.RangeStmt, rest func() string) string {
	if st.Tok != token.DEFINE || st.Value == nil {
		return t.fail("range loop shape")
	}
	if k, ok := st.Key.(*ast.Ident); !ok || k.Name != "_" {
		return t.fail("range loop with an index")
	}
	xv, ok := st.Value.(*ast.Ident)
	xsId, ok2 := st.X.(*ast.Ident)
	if !ok || !ok2 || t.vars[xsId.Name].k != fkPts {
		return t.fail("range loop shape")
	}
	if _, shadow := t.vars[xv.Name]; shadow {
		return t.fail("range variable shadows %s", xv.Name)
	}
	bad := ""
	ast.Inspect(st.Body, func(n ast.Node) bool {
		switch x := n.(type) {
		case *ast.Ident:
			if x.Name == xsId.Name {
				bad = "the slice is used inside the loop"
			}
		case *ast.BranchStmt, *ast.ReturnStmt, *ast.ForStmt, *ast.RangeStmt, *ast.FuncLit:
			bad = "control flow inside the loop"
		}
		return bad == ""
	})
	if bad != "" {
		return t.fail("loop body: %s", bad)
	}
	vs := t.fassigned(st.Body.List)
	if len(vs) == 0 {
		return t.fail("loop without effect")
	}
	saved := t.copyVars()
	t.vars[xv.Name] = tP
	body := t.block(st.Body.List, t.tupleOf(vs))
	t.vars = saved
	var binder string
	if len(vs) == 1 {
		binder = "(" + lid(vs[0]) + " : " + t.leanTy(t.vars[vs[0]]) + ")"
	} else {
		var tys []string
		for _, v := range vs {
			tys = append(tys, t.leanTy(t.vars[v]))
		}
		binder = "((" + strings.Join(lids(vs), ", ") + ") : " + strings.Join(tys, " × ") + ")"
	}
	val := "List.foldl (fun " + binder + " (" + lid(xv.Name) + " : Pt α) =>\n" + indentAll(body, 4) + ")\n  " + t.tupleOf(vs) + " " + lid(xsId.Name)
	return letLine(t.bindPat(vs), val, rest())
}

// ---------------------------------------------------------------------------------------------

type floatSummary struct {
	Translated map[string][]string          `json:"translated"`
	Unresolved map[string]string            `json:"unresolved"`
	Notes      map[string]map[string]string `json:"notes"`
}

func (t *ftrans) translate(fd *ast.FuncDecl, qual string) (def string, sg *fsig) {
	var params []string
	var ptys []fty
	drop := map[string]bool{}
	for _, d := range t.spec.dropParams {
		drop[d] = true
	}
	addParam := func(name string, te ast.Expr) {
		if drop[name] {
			return
		}
		ty := fgoTy(te)
		if ty.k == fkBad {
			t.fail("parameter type %s", src(t.pk, te))
			return
		}
		t.vars[name] = ty
		ptys = append(ptys, ty)
		params = append(params, fmt.Sprintf("(%s : %s)", lid(name), t.leanTy(ty)))
	}
	if fd.Recv != nil && len(fd.Recv.List[0].Names) == 1 {
		addParam(fd.Recv.List[0].Names[0].Name, fd.Recv.List[0].Type)
	}
	for _, p := range fd.Type.Params.List {
		for _, n := range p.Names {
			addParam(n.Name, p.Type)
		}
	}
	var ret fty
	var body string
	if t.spec.prefixUntil != "" {
		var prefix []ast.Stmt
		for _, s := range fd.Body.List {
			if mentions(s, t.spec.prefixUntil) {
				break
			}
			prefix = append(prefix, s)
		}
		body = t.block(prefix, "("+strings.Join(lids(t.spec.prefixRet), ", ")+")")
		for _, v := range t.spec.prefixRet {
			ty, ok := t.vars[v] // (declared at the top level of the prefix, or a parameter)
			if !ok {
				t.fail("prefix variable %s", v)
			}
			ret.el = append(ret.el, ty)
		}
		ret.k = fkTuple
	} else {
		if fd.Type.Results == nil {
			t.fail("no result")
			return "", nil
		}
		var rtys []fty
		for _, r := range fd.Type.Results.List {
			n := len(r.Names)
			if n == 0 {
				n = 1
			}
			for i := 0; i < n; i++ {
				ty := fgoTy(r.Type)
				if ty.k == fkBad {
					t.fail("result type %s", src(t.pk, r.Type))
				}
				rtys = append(rtys, ty)
			}
			if len(r.Names) > 0 {
				for _, nm := range r.Names {
					if mentions(fd.Body, nm.Name) {
						t.fail("named result %s is used", nm.Name)
					}
				}
			}
		}
		t.retTys = rtys
		if len(rtys) == 1 {
			ret = rtys[0]
		} else {
			ret = fty{k: fkTuple, el: rtys}
		}
		body = t.block(fd.Body.List, "")
	}
	if t.err != "" {
		return "", nil
	}
	var extras []string
	for _, ex := range []string{"sqrt", "next"} {
		if t.extras[ex] {
			extras = append(extras, ex)
			params = append([]string{"(" + ex + " : α → α)"}, params...)
		}
	}
	// keep the order sqrt, next
	if len(extras) == 2 {
		params[0], params[1] = params[1], params[0]
	}
	rt := t.leanTy(ret)
	switch t.spec.panicMode {
	case "option":
		rt = "Option (" + rt + ")"
	case "res":
		rt = "Res String (" + rt + ")"
	}
	pos := t.pk.fset.Position(fd.Pos())
	doc := fmt.Sprintf("/-- %s (%s:%d)", strings.TrimPrefix(funcKey(t.pk, fd), ".."), filepath.ToSlash(filepath.Join(t.pk.rel, filepath.Base(pos.Filename))), pos.Line)
	if t.spec.prefixUntil != "" {
		doc += fmt.Sprintf(": the statements before the first use of `%s`, returning (%s)", t.spec.prefixUntil, strings.Join(t.spec.prefixRet, ", "))
	}
	doc += " -/"
	def = fmt.Sprintf("%s\ndef %s %s : %s :=\n%s\n", doc, t.spec.lean, strings.Join(params, " "), rt, indentAll(body, 2))
	return def, &fsig{qual: qual, params: ptys, ret: ret, extras: extras, fn: t.spec}
}

var floatVariables = "variable {α : Type} [Add α] [Sub α] [Mul α] [Div α] [Neg α] [LT α] [LE α] [DecidableLT α] [DecidableLE α]\n" +
	"  [BEq α] [Min α] [Max α] [OfNat α 0] [OfNat α 1] [OfNat α 2] [OfNat α 6] [NatCast α]"

func genFloatTies() []*leanFile {
	sum := floatSummary{Translated: map[string][]string{}, Unresolved: map[string]string{}, Notes: map[string]map[string]string{}}
	var files []*leanFile
	for pi := range floatPkgs {
		sp := &floatPkgs[pi]
		l := &leanFile{name: sp.file}
		goPkg := sp.rel
		if goPkg == "." {
			goPkg = "(root package orb)"
		}
		l.p("/- REGENERATED by factgen (cmd/factgen/translate_float.go) from /repo/%s on every run.", goPkg)
		l.p("   A direct translation of Go functions into Lean, polymorphic in the number type `α` with the")
		l.p("   same explicit instance arguments the hand-written models take; OrbProofs/C*Tie.lean prove each")
		l.p("   definition equal to the model definition.  Do not edit. -/")
		l.p("import Orb.Core")
		for _, im := range sp.imports {
			l.p("import Generated.%s", im)
		}
		l.p("namespace Generated.%s", sp.file)
		l.p("open Orb Orb.Core")
		l.p("")
		l.p("%s", floatVariables)
		l.p("")
		if sp.file == "BoundGo" {
			l.p("/-- Go `==` on `orb.Point` (an array of two float64) -/")
			l.p("def ptEq (p q : Pt α) : Bool := p.x == q.x && p.y == q.y")
			l.p("")
			l.p("/-- `math.Abs`, as the models have it -/")
			l.p("def fabs (a : α) : α := if a < 0 then -a else a")
			l.p("")
			l.p("/-- the index loops `for i := lo; i < len(xs)-k; i++ { … xs[i+c] … xs[i+c+1] … }`: the body is run on")
			l.p("    every consecutive pair of `xs.drop (lo+c)`, in order -/")
			l.p("def foldPairs {β σ : Type} (f : σ → β → β → σ) : List β → σ → σ")
			l.p("  | a :: b :: t, s => foldPairs f (b :: t) (f s a b)")
			l.p("  | _, s => s")
			l.p("")
		} else {
			l.p("open Generated.BoundGo (ptEq fabs foldPairs)")
			l.p("")
		}
		var translated []string
		for fi := range sp.fns {
			f := &sp.fns[fi]
			f.rel = sp.rel
			key := f.rel + "|" + f.recv + "|" + f.name
			goName := strings.TrimPrefix(f.rel+"."+f.recv+"."+f.name, "..")
			pk, fd := findFunc(f.rel, f.recv, f.name)
			if fd == nil || fd.Body == nil {
				anchorLost(goName + " (float tie): function not found")
				sum.Unresolved[goName] = "function not found"
				l.p("-- %s: NOT FOUND\n", goName)
				continue
			}
			t := &ftrans{pk: pk, spec: f, vars: map[string]fty{}, extras: map[string]bool{}, notes: map[string]bool{}}
			def, sg := t.translate(fd, "Generated."+sp.file+"."+f.lean)
			if t.err != "" || sg == nil {
				if t.err == "" {
					t.err = "not translatable"
				}
				anchorLost(goName + " (float tie) not translatable: " + t.err)
				sum.Unresolved[goName] = t.err
				l.p("-- %s: NOT TRANSLATED (%s)\n", goName, t.err)
				continue
			}
			sg.file = sp.file
			fsigs[key] = sg
			l.p("%s", def)
			translated = append(translated, f.lean)
			if len(t.notes) > 0 {
				m := map[string]string{}
				if t.notes["index-total"] {
					m["index-total"] = "xs[i] is translated as xs.getD i ⟨0,0⟩; Go's bounds check (a panic) is not part of the translation"
				}
				sum.Notes[goName] = m
			}
		}
		l.p("def translated : List String := [%s]", strings.Join(quoteAll(translated), ", "))
		l.p("end Generated.%s", sp.file)
		sum.Translated[sp.file] = translated
		files = append(files, l)
	}
	// JSON summary next to the signature file (work/float_ties.json)
	if f := flag.Lookup("sigs"); f != nil && f.Value.String() != "" {
		b, _ := json.MarshalIndent(sum, "", " ")
		os.WriteFile(filepath.Join(filepath.Dir(f.Value.String()), "float_ties.json"), b, 0o644)
	}
	return files
}
