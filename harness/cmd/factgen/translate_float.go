package main

// A second Go -> Lean translator, for the straight-line FLOATING-POINT / geometric code whose
// hand-written models are polymorphic over the number type (Orb/Core.lean, Orb/Clip.lean,
// Orb/Planar.lean, Orb/Contains.lean, Orb/Quadtree.lean, Orb/Simplify.lean, Orb/SmartClip.lean).
//
// It regenerates one Lean file per Go package on every run (lean/Generated/BoundGo.lean for the
// root package, ClipGo.lean, PlanarGo.lean, LengthGo.lean, QuadtreeGo.lean, SimplifyGo.lean,
// SmartclipGo.lean); they import Orb.LoopForms (the generic loop forms and their lemmas).  Every definition is polymorphic in `α` and takes the SAME explicit instance
// arguments the models take (`[Add α] [Sub α] … [LT α] [DecidableLT α] …`).  The theorems in
// OrbProofs/C06Tie.lean, C07Tie.lean, C08Tie.lean, C09Tie.lean, C10Tie.lean, C11Tie.lean,
// C12Tie.lean, C16Tie.lean prove each regenerated definition equal to the hand-written model
// definition, so a change of the Go source of these functions changes a Lean definition and breaks
// a proof obligation, independently of any sampling.
//
// Supported subset (anything else => the function is NOT emitted, it is recorded as an unresolved
// anchor (Generated.anchorsLost, which OrbProofs.C20 proves empty), left out of the file's
// `translated` list (which the tie file proves complete) and listed under "unresolved" in
// work/float_ties.json):
//
//   types   float64 -> α, int / uint8 / Orientation -> Nat or Int (per function), bool -> Bool,
//           orb.Point -> Pt α, orb.Bound -> Bound α, orb.LineString / Ring / MultiPoint -> List (Pt α),
//           orb.Polygon / MultiLineString / []Ring / []LineString -> List (List (Pt α)),
//           orb.MultiPolygon / []Polygon -> List (List (List (Pt α))) (the Go name of a slice type is kept: it
//           selects the method set), orb.DistanceFunc -> Pt α → Pt α → α, multiple results -> a product
//   exprs   integral literals, variables, package constants with an integer value, p[0] p[1],
//           b.Min b.Max, xs[i] (= xs.getD i zero: the run-time bounds check is not part of the
//           translation — except in "res" functions, see below), len(xs), Point{…} Bound{…} (keyed or
//           positional) Polygon{r}, + - * / on floats, + - | & on ints, unary - !, comparisons, && ||
//           (a chain of the same operator is emitted flat), == != on floats (BEq) / ints / points,
//           math.Sqrt (-> the explicit parameter `sqrt`, as in the models), float64(int) (-> Nat.cast),
//           math.Min / math.Max (-> min / max), math.Abs (-> `fabs`), math.Nextafter(x, math.Inf(1))
//           (-> the explicit parameter `next`), math.Inf(1) (-> the explicit parameter `inf`), the
//           package variable emptyBound (-> the explicit parameter `eb`), conversions between slice
//           types of the same shape, append(xs, v) / append(xs, ys...) (-> ++: lists are values),
//           calls of functions and methods translated earlier, calls of the functions a spec declares
//           opaque (`abstract`: they become explicit function parameters), nil as a slice result
//           (-> []), and xs == nil / xs != nil (-> isEmpty) ONLY for a variable the translator knows
//           to be nil exactly when it is empty (declared by `var`, by a call of a translated function
//           all of whose results are such, by a non-empty literal, or after `if len(xs) == 0 { return }`,
//           and never assigned anything but append(xs, …) / nil)
//   stmts   return, := (a name of an enclosing scope is shadowed: the new variable gets a primed Lean
//           name), = , op= , ++ , p[0] op= e, b.Min[0] op= e, tuple assignment, a, b := f(…), var decls,
//           if / else-if / else (returning, assigning, or mixed: a mixed `if` becomes a local join
//           point `k_n`), if with an init statement, switch on an int with returning cases,
//           panic(...) (-> `none` or `.panic msg`, per function), and the loops
//             for i := lo; i < len(xs)-k; i++ { … xs[i+c] … }             every element of xs.drop (lo+c)
//             for i := lo; i < len(xs)-k; i++ { … xs[i+c] … xs[i+c+1] … } every consecutive pair of it
//             for _, x := range xs { … }                                   every element
//             for i := range xs { … } / for i, x := range xs { … }         over List.range xs.length
//           A body without `return` becomes List.foldl / foldPairs over the tuple of the outer
//           variables it assigns; a body that returns (or, in a "res" function, may panic) becomes
//           foldlRet / foldPairsRet of Orb.LoopForms (`Sum.inl r` = return r).  `continue` is
//           supported; break, labels, nested loops, closures are not.
//   "res"   functions (panicMode "res") are translated WITH Go's run-time checks: xs[i] outside the
//           loop forms is preceded by `if i < xs.length then … else .panic "index out of range [i]
//           with length n"`, a call of another "res" function is matched on (`.ok v` continues); such
//           an operation on the right of && / || is refused.
//   typeCase: one case of a function's top-level `switch g := g.(type)` can be translated on its own,
//           the switch variable being a parameter of the case's type; a call F(x, …) of such a function with x
//           of a named slice type is resolved to that case.
//   second batch (maptile.Fraction, internal/mercator, project, geo, resample):
//           per-package `variable` line and float numerals; per-function `consts` (the Go source of a constant
//           (sub)expression -> the symbol the model keeps for it: math.Pi, the folded 2*math.Pi, 180.0/math.Pi, a
//           literal like 85.0511 or 0.9999, a named constant whose definition is checked; arithmetic between two
//           constants is refused because Go folds it exactly), `libm` (math.Sin/Cos/Log/Atan/… -> explicit function
//           parameters), `absParam` (math.Abs/Min/Max -> parameters), `natCast` (float64(n) -> a parameter;
//           uint32(a<<b) -> Orb.Tile.shl32, uint64(a<<b) -> (a <<< b) % 2^64); []float64 -> List α,
//           make([]T, n) -> List.replicate ("res": a size a-b is checked), xs[i] = e -> xs.set i e (under
//           for i := range xs, or bounds-checked in a "res" function), orb.Projection -> a pure Pt α → Pt α,
//           counted loops that use the counter freely -> a fold over List.range' lo (len-(k+lo)), named results
//           with a bare return, var x = e, a package variable with an initialiser that nothing in the package
//           assigns -> its initialiser (with `consts`), `varField` (the function literal initialising a field
//           of a package variable).
//   third batch (encoding/mvt, simplify, maptile.At, tilecover):
//           `applyField` (a function returning a struct of closures, translated as "field F of the result, applied":
//           the statements before the return, then the closure's body; p := F(…) / p.Field stand for the partial
//           applications), `viewRecv` (a method with a pointer receiver, through a view of what it touches: a scalar
//           field is a parameter, a slice of pointers is the list of the values of one field of the — distinct —
//           elements, the loop replaces the i-th value; any other use of the receiver leaves it unresolved), `u32`
//           (a - b on uint32 wraps: (a + 2^32 - b) % 2^32; uint32(x) << n = shl32; uint64(x) << n = (x <<< n) % 2^64;
//           uint32(f) of a float = the parameter floorU32; bits.TrailingZeros32 = the parameter tz32), maptile.Tile
//           values (literal, fields, field updates), `setTotal` (xs[e] = v -> xs.set e v, xs[:n] -> xs.take n:
//           bounds checks not translated), a simplifier interface value -> a pure total function, an opaque geometry
//           type G with project.Geometry as a parameter, a write-only maptile.Set -> the list of inserted keys.

import (
	"encoding/json"
	"flag"
	"fmt"
	"go/ast"
	"go/parser"
	"go/token"
	"os"
	"path/filepath"
	"regexp"
	"sort"
	"strconv"
	"strings"
)

type fkind int

const (
	fkFloat fkind = iota
	fkInt
	fkBool
	fkPt
	fkBound
	fkPts
	fkTuple
	fkUInt   // untyped integer constant
	fkUFloat // untyped float constant
	fkDistFn // orb.DistanceFunc
	fkZ      // orb.Orientation (an int8 with negative values): Lean Int
	fkTiles  // maptile.Set (a Go map) that is only written (set[k] = true) and returned: the list of the keys in insertion order
	fkSimp   // simplify.simplifier (an interface with one method): List (Pt α) → Bool → List (Pt α), a pure total function
	fkUnit   // a discarded result
	fkG      // an orb.Geometry value, opaque: the type variable G (zero value = the nil interface, the parameter `gnil`)
	fkGs     // a slice of them: List G
	fkTile   // maptile.Tile: Orb.Tile.Tile
	fkFs     // []float64: List α
	fkProjFn // orb.Projection: Pt α → Pt α (a pure function: a closure with state is outside the translation)
	fkPtss   // []Ring, Polygon, MultiLineString: List (List (Pt α))
	fkPtsss  // []Polygon, MultiPolygon: List (List (List (Pt α)))
	fkBad
)

type fty struct {
	k     fkind
	el    []fty
	name  string // Go name of a slice type (Ring, LineString, MultiPoint, Polygon, …, "[]Ring"): selects the method set
	ln    string // (entries of ftrans.vars) Lean name of the variable, "" = lid(Go name)
	depth int    // (entries of ftrans.vars) scope depth of the declaration
	nie   bool   // a slice value known to be nil if and only if it is empty (then `x == nil` is `x.isEmpty`)
}

var (
	tF   = fty{k: fkFloat}
	tI   = fty{k: fkInt}
	tB   = fty{k: fkBool}
	tP   = fty{k: fkPt}
	tBd  = fty{k: fkBound}
	tPs  = fty{k: fkPts}
	tBad = fty{k: fkBad}
	tZ   = fty{k: fkZ}
)

// ffn describes one Go function the translator is asked for.
type ffn struct {
	rel, recv, name string            // Go package dir (relative to the repo root), receiver type, name
	lean            string            // name of the Lean definition
	intTy           string            // Lean type of Go's int in this function: "Nat" (default) or "Int"
	panicMode       string            // "" (no panic allowed), "option" (panic = none), "res" (panic = .panic msg)
	errTy           string            // "res": the Lean type of the error component of `Res` ("" = String)
	abstract        []string          // functions of the same package that stay opaque: explicit function parameters
	consts          map[string]fconst // Go source of a constant (sub)expression, blanks removed -> what it is in Lean
	libm            bool              // math.Sin / math.Log -> the explicit parameters `sin` / `log`
	absParam        bool              // math.Abs -> the explicit parameter `abs` (the models of package geo) instead of `fabs`
	natCast         string            // float64(n) -> this explicit parameter (Nat → α) instead of Nat.cast
	varField        bool              // name = "V.F": the function literal that initialises field F of the package variable V (nothing in the package assigns V)
	applyField      string            // the function returns a struct of closures: translate "field F of the result, applied", i.e. the body of the function literal given to F with its parameters added to the function's (a returned call g(…) becomes the same for g)
	u32             bool              // the ints of the function are uint32: a - b is (a + 2^32 - b) % 2^32 (a + b does not wrap in the translation, as for int)
	viewRecv        string            // "Extent,Features.Geometry": a method with a pointer receiver r is translated through a VIEW of what it touches: r.Extent is a parameter, the slice of pointers r.Features is the list of the values of their field Geometry (distinct pointers), `for _, f := range r.Features { … f.Geometry … }` reads / replaces the i-th value; the result is that list after the method
	setTotal        bool              // xs[e] = v at any index is xs.set e v and xs[:n] is xs.take n: Go's bounds checks (panics) are not part of the translation, as for xs[i] read through getD
	typeCase        string            // translate the body of this case of the function's top-level `switch g := g.(type)`: the switch
	// variable becomes a parameter of the case's type, in place of the (dropped) interface parameter
	prefixUntil string // translate only the leading statements before the first one that mentions this identifier …
	prefixRet   []string
	dropParams  []string // … returning these variables; these parameters are omitted
}

// fconst: a compile-time constant of the Go source the models keep as a symbol (or write differently)
type fconst struct {
	lean   string
	extras []string
	def    string // for a named constant of the package: the initialiser it must have (blanks removed)
}

type fsig struct {
	qual   string
	params []fty
	ret    fty
	extras []string
	fn     *ffn
	file   string
	nie    bool // the (slice) result is nil if and only if it is empty
}

var fsigs = map[string]*fsig{}

type fpkgSpec struct {
	file     string // Lean module name under Generated
	rel      string // Go package directory
	imports  []string
	fns      []ffn
	leanImps []string        // further Lean modules to import
	opens    []string        // further namespaces to open
	vars     string          // the `variable` line ("" = floatVariables)
	numerals map[string]bool // float numerals with an OfNat instance in `vars` (nil = floatNumerals)
}

// The functions asked for, per Go package, in dependency order.
var floatPkgs = []fpkgSpec{
	{file: "BoundGo", rel: ".", fns: []ffn{
		{recv: "Bound", name: "Top", lean: "boundTop"},
		{recv: "Bound", name: "Bottom", lean: "boundBottom"},
		{recv: "Bound", name: "Right", lean: "boundRight"},
		{recv: "Bound", name: "Left", lean: "boundLeft"},
		{recv: "Bound", name: "LeftTop", lean: "boundLeftTop"},
		{recv: "Bound", name: "RightBottom", lean: "boundRightBottom"},
		{recv: "Bound", name: "IsEmpty", lean: "boundIsEmpty"},
		{recv: "Bound", name: "Contains", lean: "boundContains"},
		{recv: "Bound", name: "Extend", lean: "boundExtend"},
		{recv: "Bound", name: "Union", lean: "boundUnion"},
		{recv: "Bound", name: "Intersects", lean: "boundIntersects"},
		{recv: "Bound", name: "Center", lean: "boundCenter"},
		{recv: "Bound", name: "Equal", lean: "boundEqual"},
		{recv: "Bound", name: "ToRing", lean: "boundToRing"},
		{recv: "Point", name: "X", lean: "pointX"},
		{recv: "Point", name: "Y", lean: "pointY"},
		{recv: "Point", name: "Lon", lean: "pointLon"},
		{recv: "Point", name: "Lat", lean: "pointLat"},
		{recv: "Point", name: "Equal", lean: "pointEqual"},
		{recv: "Ring", name: "Closed", lean: "ringClosed"},
		{recv: "Ring", name: "Orientation", lean: "ringOrientation"},
		// the slice kinds: loops over the points / rings / polygons
		{recv: "MultiPoint", name: "Bound", lean: "multiPointBound"},
		{recv: "MultiPoint", name: "Equal", lean: "multiPointEqual"},
		{recv: "LineString", name: "Bound", lean: "lineStringBound"},
		{recv: "LineString", name: "Equal", lean: "lineStringEqual"},
		{recv: "Ring", name: "Bound", lean: "ringBound"},
		{recv: "Ring", name: "Equal", lean: "ringEqual"},
		{recv: "Polygon", name: "Bound", lean: "polygonBound"},
		{recv: "Polygon", name: "Equal", lean: "polygonEqual"},
		{recv: "MultiLineString", name: "Bound", lean: "multiLineStringBound"},
		{recv: "MultiLineString", name: "Equal", lean: "multiLineStringEqual"},
		{recv: "MultiPolygon", name: "Bound", lean: "multiPolygonBound"},
		{recv: "MultiPolygon", name: "Equal", lean: "multiPolygonEqual"},
	}},
	{file: "ClipGo", rel: "clip", imports: []string{"BoundGo"}, fns: []ffn{
		{name: "bitCode", lean: "bitCode"},
		{name: "bitCodeOpen", lean: "bitCodeOpen"},
		{name: "intersect", lean: "intersect", panicMode: "option"},
		{name: "clampToBound", lean: "clampToBound"},
		{name: "Bound", lean: "clipBound"},
		{name: "MultiPoint", lean: "clipMultiPoint"},
		{name: "Ring", lean: "clipRing", abstract: []string{"ring"}},
		{name: "Polygon", lean: "clipPolygon"},
		{name: "MultiPolygon", lean: "clipMultiPolygon"},
	}},
	{file: "PlanarGo", rel: "planar", imports: []string{"BoundGo"}, fns: []ffn{
		{name: "Distance", lean: "distance"},
		{name: "DistanceSquared", lean: "distanceSquared"},
		{name: "DistanceFromSegmentSquared", lean: "distanceFromSegmentSquared"},
		{name: "DistanceFromSegment", lean: "distanceFromSegment"},
		{name: "segmentDistanceFromSquared", lean: "segmentDistanceFromSquared"},
		{name: "multiPointCentroid", lean: "multiPointCentroid"},
		{name: "ringCentroidArea", lean: "ringCentroidArea"},
		{name: "rayIntersect", lean: "rayIntersect"},
		{name: "RingContains", lean: "ringContains", panicMode: "res", errTy: "Unit"},
		{name: "PolygonContains", lean: "polygonContains", panicMode: "res", errTy: "Unit"},
		{name: "MultiPolygonContains", lean: "multiPolygonContains", panicMode: "res", errTy: "Unit"},
		{name: "lineStringCentroidDist", lean: "lineStringCentroidDist"},
		{name: "multiLineStringCentroid", lean: "multiLineStringCentroid"},
		{name: "polygonCentroidArea", lean: "polygonCentroidArea"},
		{name: "multiPolygonCentroidArea", lean: "multiPolygonCentroidArea"},
	}},
	{file: "LengthGo", rel: "internal/length", imports: []string{"BoundGo"}, fns: []ffn{
		{name: "lineStringLength", lean: "lineStringLength"},
		{name: "polygonLength", lean: "polygonLength"},
		{name: "Length", lean: "lengthLineString", typeCase: "orb.LineString", dropParams: []string{"g"}},
		{name: "Length", lean: "lengthMultiLineString", typeCase: "orb.MultiLineString", dropParams: []string{"g"}},
		{name: "Length", lean: "lengthRing", typeCase: "orb.Ring", dropParams: []string{"g"}},
		{name: "Length", lean: "lengthPolygon", typeCase: "orb.Polygon", dropParams: []string{"g"}},
		{name: "Length", lean: "lengthMultiPolygon", typeCase: "orb.MultiPolygon", dropParams: []string{"g"}},
		{name: "Length", lean: "lengthBound", typeCase: "orb.Bound", dropParams: []string{"g"}},
	}},
	{file: "QuadtreeGo", rel: "quadtree", imports: []string{"BoundGo", "PlanarGo"}, fns: []ffn{
		{name: "childIndex", lean: "childIndex"},
		{recv: "Quadtree", name: "add", lean: "addDescend", prefixUntil: "n",
			prefixRet: []string{"i", "left", "right", "bottom", "top"}, dropParams: []string{"q", "n", "p"}},
	}},
	{file: "SimplifyGo", rel: "simplify", imports: []string{"BoundGo"}, fns: []ffn{
		{name: "doubleTriangleArea", lean: "doubleTriangleArea"},
		// helpers.go: the loops around the simplifier (an interface value: a pure function parameter)
		{name: "runSimplify", lean: "runSimplify"},
		{name: "lineString", lean: "lineString"},
		{name: "multiLineString", lean: "multiLineString"},
		{name: "ring", lean: "ring"},
		{name: "polygon", lean: "polygon", setTotal: true},
		{name: "multiPolygon", lean: "multiPolygon", setTotal: true},
	}},
	{file: "TileGeoGo", rel: "maptile", imports: []string{"BoundGo"}, leanImps: []string{"Orb.Tile"}, opens: []string{"Orb.Tile (shl32)"},
		vars: "variable {α : Type} [Add α] [Sub α] [Mul α] [Div α] [Neg α] [LT α] [DecidableLT α]\n" +
			"  [OfNat α 0] [OfNat α 1] [OfNat α 2] [OfNat α 90] [OfNat α 180] [OfNat α 360]",
		numerals: map[string]bool{"0": true, "1": true, "2": true, "90": true, "180": true, "360": true},
		fns: []ffn{
			// the models (Orb.TileGeo) keep libm's functions, math.Pi, the folded constant 2*math.Pi and the
			// literal 85.0511 as symbols, write 0.5 as 1/2, and convert through `ofNat`
			{name: "Fraction", lean: "fraction", libm: true, natCast: "ofNat", consts: map[string]fconst{
				"0.5": {"(1 / 2)", nil, ""}, "85.0511": {"latMax", []string{"latMax"}, ""}, "math.Pi": {"pi", []string{"pi"}, ""},
				"-2*math.Pi": {"(-twoPi)", []string{"twoPi"}, ""}}},
			{name: "At", lean: "at_", libm: true, natCast: "ofNat", u32: true, consts: map[string]fconst{
				"0.5": {"(1 / 2)", nil, ""}, "85.0511": {"latMax", []string{"latMax"}, ""}, "math.Pi": {"pi", []string{"pi"}, ""},
				"-2*math.Pi": {"(-twoPi)", []string{"twoPi"}, ""}}},
		}},
	{file: "GeoGo", rel: "geo", imports: []string{"BoundGo"},
		vars:     floatVariables + " [OfNat α 90] [OfNat α 180]",
		numerals: map[string]bool{"0": true, "1": true, "2": true, "6": true, "90": true, "180": true},
		fns: []ffn{
			// the models (Orb.Geo) take libm's functions, math.Abs / Min / Max, math.Pi and orb.EarthRadius from
			// the record `Fn`; 2*math.Pi and 2.0*orb.EarthRadius (folded by Go; doubling is exact) are products there
			{name: "deg2rad", lean: "deg2rad", consts: geoConsts},
			{name: "rad2deg", lean: "rad2deg", consts: geoConsts},
			{name: "Distance", lean: "distance", libm: true, absParam: true, consts: geoConsts},
			{name: "DistanceHaversine", lean: "distanceHaversine", libm: true, absParam: true, consts: geoConsts},
			{name: "Bearing", lean: "bearing", libm: true, absParam: true, consts: geoConsts},
			{name: "Midpoint", lean: "midpoint", libm: true, absParam: true, consts: geoConsts},
			{name: "PointAtBearingAndDistance", lean: "pointAtBearingAndDistance", libm: true, absParam: true, consts: geoConsts},
			{name: "PointAtDistanceAlongLine", lean: "pointAtDistanceAlongLine", panicMode: "res", errTy: "Unit", libm: true, absParam: true, consts: geoConsts},
			{name: "NewBoundAroundPoint", lean: "newBoundAroundPoint", libm: true, absParam: true, consts: geoConsts},
			{name: "BoundPad", lean: "boundPad", libm: true, absParam: true, consts: geoConsts},
			{name: "BoundHeight", lean: "boundHeight", libm: true, absParam: true, consts: geoConsts},
			{name: "BoundWidth", lean: "boundWidth", libm: true, absParam: true, consts: geoConsts},
			// the spherical-excess loop of ringArea stays opaque (a function parameter); math.Abs is the models' F.abs
			{name: "SignedArea", lean: "signedArea", abstract: []string{"ringArea"}},
			{name: "polygonArea", lean: "polygonArea", abstract: []string{"ringArea"}, absParam: true},
			{name: "multiPolygonArea", lean: "multiPolygonArea"},
			{name: "Area", lean: "areaRing", typeCase: "orb.Ring", dropParams: []string{"g"}, abstract: []string{"ringArea"}, absParam: true},
			{name: "Area", lean: "areaPolygon", typeCase: "orb.Polygon", dropParams: []string{"g"}},
			{name: "Area", lean: "areaMultiPolygon", typeCase: "orb.MultiPolygon", dropParams: []string{"g"}},
			{name: "Area", lean: "areaBound", typeCase: "orb.Bound", dropParams: []string{"g"}},
		}},
	{file: "ResampleGo", rel: "resample", imports: []string{"BoundGo"}, leanImps: []string{"Orb.Resample"}, fns: []ffn{
		{name: "precomputeDistances", lean: "precomputeDistances", panicMode: "res", errTy: "Resample.Fail"},
	}},
	{file: "ProjectGo", rel: "project", imports: []string{"BoundGo"},
		vars:     floatVariables + " [OfNat α 90] [OfNat α 180] [OfNat α 360]",
		numerals: map[string]bool{"0": true, "1": true, "2": true, "6": true, "90": true, "180": true, "360": true},
		fns: []ffn{
			// projections.go: the closures of the package variables Mercator / WGS84; the models (Orb.Project) keep the
			// folded constants as symbols of the record MFn
			{name: "Mercator.ToWGS84", lean: "mercatorToWGS84", varField: true, libm: true, absParam: true, consts: projConsts},
			{name: "WGS84.ToMercator", lean: "wgs84ToMercator", varField: true, libm: true, absParam: true, consts: projConsts},
			{name: "Point", lean: "projPoint"},
			{name: "MultiPoint", lean: "projMultiPoint"},
			{name: "LineString", lean: "projLineString"},
			{name: "MultiLineString", lean: "projMultiLineString"},
			{name: "Ring", lean: "projRing"},
			{name: "Polygon", lean: "projPolygon"},
			{name: "MultiPolygon", lean: "projMultiPolygon"},
			{name: "Bound", lean: "projBound"},
		}},
	{file: "MercatorGo", rel: "internal/mercator", imports: []string{"BoundGo"}, leanImps: []string{"Orb.Tile"},
		vars: "variable {α : Type} [Add α] [Sub α] [Mul α] [Div α] [Neg α] [LT α] [DecidableLT α]\n" +
			"  [OfNat α 0] [OfNat α 1] [OfNat α 2] [OfNat α 90] [OfNat α 180] [OfNat α 360]",
		numerals: map[string]bool{"0": true, "1": true, "2": true, "90": true, "180": true, "360": true},
		fns: []ffn{
			// the models (Orb.Project, Orb.TileGeo) keep libm's functions, math.Pi, the folded constants 2*math.Pi and
			// 180.0/math.Pi and the literal 0.9999 as symbols, write 0.5 as 1/2, and convert through `ofNat`
			{name: "ToPlanar", lean: "toPlanar", libm: true, natCast: "ofNat", consts: mercConsts},
			{name: "ToGeo", lean: "toGeo", libm: true, natCast: "ofNat", consts: mercConsts},
		}},
	{file: "MvtGo", rel: "encoding/mvt", imports: []string{"BoundGo", "MercatorGo"}, leanImps: []string{"Orb.Tile"},
		vars: "variable {α G : Type} [Add α] [Sub α] [Mul α] [Div α] [Neg α] [LT α] [DecidableLT α]\n" +
			"  [OfNat α 0] [OfNat α 1] [OfNat α 2] [OfNat α 90] [OfNat α 180] [OfNat α 360]",
		numerals: map[string]bool{"0": true, "1": true, "2": true, "90": true, "180": true, "360": true},
		fns: []ffn{
			// projection.go: the two closures of the struct newProjection returns, each as "the field, applied"
			{name: "isPowerOfTwo", lean: "isPowerOfTwo", u32: true},
			{name: "nonPowerOfTwoProjection", lean: "nonPow2ToTile", applyField: "ToTile", u32: true, libm: true, natCast: "ofNat", consts: mercConsts},
			{name: "nonPowerOfTwoProjection", lean: "nonPow2ToWGS84", applyField: "ToWGS84", u32: true, libm: true, natCast: "ofNat", consts: mercConsts},
			{name: "newProjection", lean: "newProjToTile", applyField: "ToTile", u32: true, libm: true, natCast: "ofNat", consts: mercConsts},
			{name: "newProjection", lean: "newProjToWGS84", applyField: "ToWGS84", u32: true, libm: true, natCast: "ofNat", consts: mercConsts},
			// layer.go: the methods that re-project every feature, through a view of *Layer
			{recv: "Layer", name: "ProjectToTile", lean: "layerProjectToTile", viewRecv: "Extent,Features.Geometry", u32: true},
			{recv: "Layer", name: "ProjectToWGS84", lean: "layerProjectToWGS84", viewRecv: "Extent,Features.Geometry", u32: true},
		}},
	{file: "TilecoverGo", rel: "maptile/tilecover", imports: []string{"BoundGo", "TileGeoGo"}, leanImps: []string{"Orb.Tile"},
		vars: "variable {α : Type} [Add α] [Sub α] [Mul α] [Div α] [Neg α] [LT α] [DecidableLT α]\n" +
			"  [OfNat α 0] [OfNat α 1] [OfNat α 2] [OfNat α 90] [OfNat α 180] [OfNat α 360]",
		numerals: map[string]bool{"0": true, "1": true, "2": true, "90": true, "180": true, "360": true},
		fns: []ffn{
			{name: "Point", lean: "coverPoint"},
			{name: "MultiPoint", lean: "coverMultiPoint"},
		}},
	{file: "SmartclipGo", rel: "clip/smartclip", imports: []string{"BoundGo"}, fns: []ffn{
		{name: "bitCodeOpen", lean: "bitCodeOpen"},
		{name: "pointSide", lean: "pointSide"},
		{name: "pointFor", lean: "pointFor", intTy: "Int", panicMode: "res"},
	}},
}

// ---------------------------------------------------------------------------------------------

type ftrans struct {
	pk     *pkgFiles
	spec   *ffn
	vars   map[string]fty
	err    string
	extras map[string]bool
	nk     int // join points
	notes  map[string]bool
	// loop substitution: printed Go index expression -> Lean variable
	subst        map[string]fsub
	retTys       []fty
	numerals     map[string]bool
	closures     map[string]map[string]string // p := F(…) for a function translated field by field: field -> the partial application
	namedResults []string
	inPkgVar     bool
	inIndex      bool // inside xs[…]: a negative index is a Go panic, which the translation does not cover anyway
	depth        int  // scope depth (0 = the function's top-level block)
	body         ast.Node
	// loops
	loopK     string // inside a loop body: the Lean term for `continue` ("" = not in a loop)
	inRetLoop bool   // inside the body of a loop that may return: `return e` is `Sum.inl e`
	plainLoop bool   // inside the body of a loop translated as a plain fold …
	plainPend bool   // … a panicking operation turned up: the loop has to be redone in the returning form
	// "res" functions: the panicking operations (index checks, calls of panicking functions) of the
	// statement being translated, in evaluation order
	pending  []fpend
	nv       int
	safeIdx  map[string]bool // printed index expressions known to be in range (xs[i] under `for i := range xs`)
	scopeEnd map[*ast.EmptyStmt]bool
	// slices: nil is the empty list.  `x == nil` can only be translated for a variable that is nil iff
	// empty; nieTrust: the variables no assignment can make otherwise (only x = append(x, …), x = nil)
	nieTrust map[string]bool
	retNie   bool
}

type fsub struct {
	v  string
	ty fty
}

// fpend: one panicking operation hoisted in front of the statement it occurs in
type fpend struct {
	guard, msg string // if guard then … else .panic msg
	call, v    string // match call with | .ok v => … | .err e_ => .err e_ | .panic m_ => .panic m_
}

// ln: the Lean name of a Go variable
func (t *ftrans) ln(name string) string {
	if ty, ok := t.vars[name]; ok && ty.ln != "" {
		return ty.ln
	}
	return lid(name)
}

func (t *ftrans) lns(names []string) []string {
	out := make([]string, len(names))
	for i, n := range names {
		out[i] = t.ln(n)
	}
	return out
}

// declare a variable introduced by := / var / range.  A name of an enclosing scope is shadowed: the
// new variable gets a fresh Lean name (continuations pasted later name the outer variable).  Shadowing
// is accepted only where the translator restores the scope afterwards (if-branches, loop bodies).
func (t *ftrans) declare(name string, ty fty) string {
	if name == "_" {
		return "_"
	}
	ty.depth, ty.ln = t.depth, ""
	if _, clash := extraTypes[lid(name)]; clash {
		t.fail("the variable %s has the name of an explicit parameter", name)
		return lid(name)
	}
	if old, ok := t.vars[name]; ok {
		if old.depth >= t.depth {
			t.fail("declaration shadows %s", name)
			return lid(name)
		}
		// (a prime cannot occur in a Go identifier, nor in the names the translator makes up)
		ty.ln = lid(name) + "'"
		if old.ln != "" {
			ty.ln = old.ln + "'"
		}
	}
	t.vars[name] = ty
	return t.ln(name)
}

func (t *ftrans) resTy() string {
	if t.spec.errTy != "" {
		return t.spec.errTy
	}
	return "String"
}

// retLean: the Lean type of the function's result
func (t *ftrans) retLean() string {
	var ret fty
	if len(t.retTys) == 1 {
		ret = t.retTys[0]
	} else {
		ret = fty{k: fkTuple, el: t.retTys}
	}
	rt := t.leanTy(ret)
	switch t.spec.panicMode {
	case "option":
		rt = "Option (" + rt + ")"
	case "res":
		rt = "Res " + t.resTy() + " (" + rt + ")"
	}
	return rt
}

// exit: a value the function returns with (a `return`, a panic), at the current position
func (t *ftrans) exit(s string) string {
	if t.inRetLoop {
		return "Sum.inl " + par(s)
	}
	return s
}

func (t *ftrans) take() []fpend {
	p := t.pending
	t.pending = nil
	return p
}

// wrap puts the panicking operations of a statement in front of its translation
func (t *ftrans) wrap(pend []fpend, out string) string {
	if len(pend) > 0 && t.plainLoop {
		t.plainPend = true
	}
	for i := len(pend) - 1; i >= 0; i-- {
		p := pend[i]
		if p.guard != "" {
			out = "if " + p.guard + " then\n" + indentAll(out, 2) + "\nelse\n  " + t.exit(".panic "+p.msg)
		} else {
			out = "(match " + p.call + " with\n| .ok " + p.v + " =>\n" + indentAll(out, 4) + "\n| .err e_ => " + t.exit(".err e_") +
				"\n| .panic m_ => " + t.exit(".panic m_") + ")"
		}
	}
	return out
}

func (t *ftrans) fail(format string, a ...interface{}) string {
	if t.err == "" {
		t.err = fmt.Sprintf(format, a...)
	}
	return "unsupported"
}

func (t *ftrans) intTy() string {
	if t.spec.intTy != "" {
		return t.spec.intTy
	}
	return "Nat"
}

func isList(ty fty) bool {
	return ty.k == fkPts || ty.k == fkPtss || ty.k == fkPtsss || ty.k == fkFs || ty.k == fkGs
}

// the named slice types of package orb
var listNames = map[string]fkind{"LineString": fkPts, "Ring": fkPts, "MultiPoint": fkPts,
	"Polygon": fkPtss, "MultiLineString": fkPtss, "MultiPolygon": fkPtsss}

// elemTy: the type of xs[i]
func elemTy(ty fty) fty {
	sub := ""
	switch ty.name {
	case "Polygon":
		sub = "Ring"
	case "MultiLineString":
		sub = "LineString"
	case "MultiPolygon":
		sub = "Polygon"
	default:
		if n := strings.TrimPrefix(ty.name, "[]"); n != ty.name {
			sub = n
		}
	}
	switch ty.k {
	case fkFs:
		return tF
	case fkGs:
		return fty{k: fkG}
	case fkPts:
		return tP
	case fkPtss:
		if listNames[sub] == fkPts {
			return fty{k: fkPts, name: sub}
		}
		return fty{k: fkPts}
	case fkPtsss:
		if listNames[sub] == fkPtss {
			return fty{k: fkPtss, name: sub}
		}
		return fty{k: fkPtss}
	}
	return tBad
}

// zeroOf: the Lean text of Go's zero value of the type (what xs.getD falls back to)
func zeroOf(ty fty) string {
	switch ty.k {
	case fkFloat:
		return "0"
	case fkG:
		return "gnil"
	case fkPt:
		return "⟨0, 0⟩"
	case fkPts, fkPtss, fkPtsss, fkFs:
		return "[]"
	}
	return ""
}

func (t *ftrans) leanTy(ty fty) string {
	switch ty.k {
	case fkFloat, fkUFloat:
		return "α"
	case fkInt, fkUInt:
		return t.intTy()
	case fkBool:
		return "Bool"
	case fkZ:
		return "Int"
	case fkPt:
		return "Pt α"
	case fkBound:
		return "Bound α"
	case fkPts:
		return "List (Pt α)"
	case fkTile:
		return "Orb.Tile.Tile"
	case fkTiles:
		return "List Orb.Tile.Tile"
	case fkSimp:
		return "List (Pt α) → Bool → List (Pt α)"
	case fkUnit:
		return "Unit"
	case fkG:
		return "G"
	case fkGs:
		return "List G"
	case fkFs:
		return "List α"
	case fkPtss:
		return "List (List (Pt α))"
	case fkPtsss:
		return "List (List (List (Pt α)))"
	case fkDistFn:
		return "Pt α → Pt α → α"
	case fkProjFn:
		return "Pt α → Pt α"
	case fkTuple:
		var s []string
		for _, e := range ty.el {
			s = append(s, t.leanTy(e))
		}
		return strings.Join(s, " × ")
	}
	return "?"
}

func fgoTy(e ast.Expr) fty {
	if at, ok := e.(*ast.ArrayType); ok {
		if at.Len != nil {
			return tBad
		}
		el := fgoTy(at.Elt)
		switch el.k {
		case fkG:
			return fty{k: fkGs, name: "[]G"}
		case fkFloat:
			return fty{k: fkFs, name: "[]float64"}
		case fkPt:
			return fty{k: fkPts, name: "[]Point"}
		case fkPts:
			if el.name != "" {
				return fty{k: fkPtss, name: "[]" + el.name}
			}
		case fkPtss:
			if el.name != "" {
				return fty{k: fkPtsss, name: "[]" + el.name}
			}
		}
		return tBad
	}
	n, ptr := typeName(e)
	if ptr {
		return tBad // a pointer: aliasing is outside the translated subset
	}
	switch n {
	case "float64":
		return tF
	case "int", "uint8", "uint32", "Zoom":
		return tI
	case "Orientation":
		return tZ
	case "bool":
		return tB
	case "Point":
		return tP
	case "Bound":
		return tBd
	case "LineString", "Ring", "MultiPoint", "Polygon", "MultiLineString", "MultiPolygon":
		return fty{k: listNames[n], name: n}
	case "DistanceFunc":
		return fty{k: fkDistFn}
	case "Projection":
		return fty{k: fkProjFn}
	case "Tile":
		return fty{k: fkTile}
	case "orbGeometryG":
		return fty{k: fkG}
	case "simplifier":
		return fty{k: fkSimp}
	case "Set":
		return fty{k: fkTiles}
	}
	return tBad
}

func fIsNum(ty fty) bool {
	return ty.k == fkFloat || ty.k == fkInt || ty.k == fkUInt || ty.k == fkUFloat
}

// unify the types of two numeric operands (untyped constants adopt the other side's type)
func fUnify(a, b fty) fty {
	switch {
	case a.k == fkFloat || b.k == fkFloat:
		if (a.k == fkFloat || a.k == fkUInt || a.k == fkUFloat) && (b.k == fkFloat || b.k == fkUInt || b.k == fkUFloat) {
			return tF
		}
		return tBad
	case a.k == fkInt || b.k == fkInt:
		if (a.k == fkInt || a.k == fkUInt) && (b.k == fkInt || b.k == fkUInt) {
			return tI
		}
		return tBad
	case a.k == fkUFloat || b.k == fkUFloat:
		return fty{k: fkUFloat}
	case a.k == fkUInt && b.k == fkUInt:
		return fty{k: fkUInt}
	}
	return tBad
}

// Go identifiers that are Lean keywords (or would be read as notation) get a trailing underscore.
var leanReserved = map[string]bool{"from": true, "to": true, "at": true, "fun": true, "let": true, "have": true, "show": true,
	"then": true, "match": true, "with": true, "do": true, "in": true, "end": true, "open": true, "def": true, "theorem": true,
	"by": true, "where": true, "using": true, "calc": true, "deriving": true, "instance": true, "structure": true, "class": true,
	"namespace": true, "section": true, "variable": true, "universe": true, "export": true, "prefix": true, "infix": true,
	"notation": true, "macro": true, "syntax": true, "mutual": true, "private": true, "protected": true, "partial": true,
	"nomatch": true, "nofun": true, "suffices": true, "obtain": true, "example": true, "abbrev": true, "inductive": true,
	"extends": true, "Type": true, "Prop": true, "Sort": true, "set_option": true, "attribute": true, "local": true,
	"scoped": true, "noncomputable": true, "opaque": true, "axiom": true, "unsafe": true, "sorry": true, "admit": true,
	"α": true, "sqrt": true, "next": true, "min": true, "max": true, "fabs": true, "ptEq": true, "foldPairs": true, "decide": true,
	"some": true, "none": true, "p_": true, "q_": true, "x_": true, "ret_": true, "e_": true, "m_": true,
	"eb": true, "inf": true, "foldlRet": true, "foldPairsRet": true,
	"abs": true, "cos": true, "asin": true, "atan2": true, "fmax": true, "fmin": true, "R": true, "mPerDeg": true, "atan": true, "exp": true, "tan": true, "floor": true, "floorU32": true, "tz32": true, "gnil": true, "projectGeometry": true, "G": true, "i_": true, "extent_": true, "d180pi": true, "c9999": true, "piHalf": true, "rPi": true, "rPi180": true, "sin": true, "log": true, "pi": true, "twoPi": true, "latMax": true, "ofNat": true, "shl32": true}

func lid(name string) string {
	if leanReserved[name] || strings.HasPrefix(name, "k_") || strings.HasPrefix(name, "v_") {
		return name + "_"
	}
	return name
}

func lids(names []string) []string {
	out := make([]string, len(names))
	for i, n := range names {
		out[i] = lid(n)
	}
	return out
}

var floatNumerals = map[string]bool{"0": true, "1": true, "2": true, "6": true}

var intLitRe = regexp.MustCompile(`^-?[0-9]+$`)

// relOfPkgIdent maps an import name used in a selector (orb, planar, math …) to a package dir.
func relOfPkgIdent(name string) (string, bool) {
	if name == "orb" {
		return ".", true
	}
	for rel := range pkgs {
		if filepath.Base(rel) == name {
			return rel, true
		}
	}
	return "", false
}

func (t *ftrans) constant(rel, name string) (string, fty, bool) {
	v, ok := constValueOf(rel, name)
	if !ok {
		return "", tBad, false
	}
	if v == "math.MaxUint8" {
		v = "255"
	}
	if n, err := strconv.ParseInt(v, 0, 64); err == nil && !intLitRe.MatchString(v) {
		v = strconv.FormatInt(n, 10) // 0xFF
	}
	if !intLitRe.MatchString(v) {
		return "", tBad, false
	}
	if constTypeName(rel, name) == "Orientation" {
		return "(" + v + " : Int)", tZ, true
	}
	if strings.HasPrefix(v, "-") {
		if t.intTy() != "Int" {
			return "", tBad, false
		}
		return "(" + v + ")", tI, true
	}
	return v, fty{k: fkUInt}, true
}

// constValueOf: the printed initialiser of a package-level CONSTANT (variables can change)
func constValueOf(rel, name string) (string, bool) {
	pk := pkgs[rel]
	if pk == nil {
		return "", false
	}
	for _, f := range pk.files {
		for _, d := range f.Decls {
			gd, ok := d.(*ast.GenDecl)
			if !ok || gd.Tok != token.CONST {
				continue
			}
			for _, s := range gd.Specs {
				if vs, ok := s.(*ast.ValueSpec); ok {
					for i, n := range vs.Names {
						if n.Name == name && i < len(vs.Values) {
							return src(pk, vs.Values[i]), true
						}
					}
				}
			}
		}
	}
	return "", false
}

// constTypeName: the declared type of a package-level constant ("" if it has none)
func constTypeName(rel, name string) string {
	pk := pkgs[rel]
	if pk == nil {
		return ""
	}
	for _, f := range pk.files {
		for _, d := range f.Decls {
			gd, ok := d.(*ast.GenDecl)
			if !ok {
				continue
			}
			for _, s := range gd.Specs {
				if vs, ok := s.(*ast.ValueSpec); ok && vs.Type != nil {
					for _, n := range vs.Names {
						if n.Name == name {
							tn, _ := typeName(vs.Type)
							return tn
						}
					}
				}
			}
		}
	}
	return ""
}

// numOK: an untyped numeral that becomes a float needs `OfNat α n`; the models' signature has 0, 1, 2, 6
func (t *ftrans) numOK(s string, ty fty) bool {
	nums := floatNumerals
	if t.numerals != nil {
		nums = t.numerals
	}
	if (ty.k == fkUInt || ty.k == fkUFloat) && !nums[s] {
		t.fail("float constant %s (the models are stated for the numerals 0, 1, 2, 6 only)", s)
		return false
	}
	return true
}

func isAtom(s string) bool {
	if strings.HasPrefix(s, "-") || strings.HasPrefix(s, "!") {
		return false // (a prefix operator: `f -x` would be a subtraction)
	}
	if strings.HasPrefix(s, "(") && strings.HasSuffix(s, ")") {
		// balanced from the first to the last character?
		d := 0
		for i, c := range s {
			if c == '(' {
				d++
			} else if c == ')' {
				d--
				if d == 0 && i != len(s)-1 {
					return false
				}
			}
		}
		return true
	}
	if strings.HasPrefix(s, "⟨") && strings.HasSuffix(s, "⟩") && strings.Count(s, "⟨") == 1 {
		return true
	}
	return !strings.ContainsAny(s, " \n")
}

func par(s string) string {
	if isAtom(s) {
		return s
	}
	return "(" + s + ")"
}

// expr translates a non-boolean expression (boolean ones go through boolVal / cond).
func (t *ftrans) expr(e ast.Expr) (string, fty) {
	if t.subst != nil {
		if v, ok := t.subst[src(t.pk, e)]; ok {
			return v.v, v.ty
		}
	}
	if t.spec.consts != nil {
		if c, ok := t.spec.consts[strings.Join(strings.Fields(src(t.pk, e)), "")]; ok {
			if c.def != "" {
				id, isId := e.(*ast.Ident)
				v, found := "", false
				if isId {
					v, found = constValueOf(t.pk.rel, id.Name)
				}
				if _, local := t.vars[src(t.pk, e)]; local || !found || strings.Join(strings.Fields(v), "") != c.def {
					return t.fail("the constant %s is not defined as %s", src(t.pk, e), c.def), tBad
				}
			}
			for _, ex := range c.extras {
				t.extras[ex] = true
			}
			return c.lean, fty{k: fkFloat, name: "const"} // (a constant: arithmetic between constants is folded by Go)
		}
	}
	switch x := e.(type) {
	case *ast.BasicLit:
		switch x.Kind {
		case token.INT:
			return x.Value, fty{k: fkUInt}
		case token.FLOAT:
			f, err := strconv.ParseFloat(x.Value, 64)
			if err == nil && f == float64(int64(f)) && f >= 0 && f < 1e15 {
				v := strconv.FormatInt(int64(f), 10)
				if !t.numOK(v, fty{k: fkUFloat}) {
					return "unsupported", tBad
				}
				return v, fty{k: fkUFloat}
			}
			return t.fail("non-integral float literal %s", x.Value), tBad
		}
	case *ast.ParenExpr:
		return t.expr(x.X)
	case *ast.Ident:
		if x.Name == "true" || x.Name == "false" {
			return x.Name, tB
		}
		if ty, ok := t.vars[x.Name]; ok {
			return t.ln(x.Name), fty{k: ty.k, el: ty.el, name: ty.name, nie: ty.nie && t.nieTrust[x.Name]}
		}
		if s, ty, ok := t.constant(t.pk.rel, x.Name); ok {
			return s, ty
		}
		if init := pkgVarInit(t.pk, x.Name); init != nil && t.spec.consts != nil && !t.inPkgVar {
			// a package-level variable with an initialiser that nothing in the package assigns or takes the
			// address of: its initialiser, translated in place (as the models have it)
			t.inPkgVar = true
			savedVars := t.vars
			t.vars = map[string]fty{}
			v, ty := t.expr(init)
			t.vars = savedVars
			t.inPkgVar = false
			if ty.k == fkFloat && len(t.pending) == 0 {
				t.notes["pkg-var-init"] = true
				return par(v), tF
			}
			return t.fail("package variable %s", x.Name), tBad
		}
		if x.Name == "emptyBound" && t.pk.rel == "." && isPkgVar(".", "emptyBound") {
			// the package's sentinel (a variable): the explicit parameter `eb`, as in the models; its
			// value is regenerated separately (Generated.Params.emptyBound*)
			t.extras["eb"] = true
			return "eb", tBd
		}
		return t.fail("unknown identifier %s", x.Name), tBad
	case *ast.SelectorExpr:
		if id, ok := x.X.(*ast.Ident); ok {
			if m := t.closures[id.Name]; m != nil {
				if s, ok := m[x.Sel.Name]; ok {
					t.notes["pure-projection"] = true
					return s, fty{k: fkProjFn}
				}
				return t.fail("selector %s", src(t.pk, e)), tBad
			}
			if _, isVar := t.vars[id.Name]; !isVar {
				if rel, ok := relOfPkgIdent(id.Name); ok {
					if s, ty, ok := t.constant(rel, x.Sel.Name); ok {
						return s, ty
					}
				}
				return t.fail("selector %s", src(t.pk, e)), tBad
			}
		}
		base, ty := t.expr(x.X)
		if ty.k == fkBound {
			switch x.Sel.Name {
			case "Min":
				return par(base) + ".lo", tP
			case "Max":
				return par(base) + ".hi", tP
			}
		}
		_ = base
		if ty.k == fkTile {
			switch x.Sel.Name {
			case "X", "Y", "Z":
				return par(base) + "." + strings.ToLower(x.Sel.Name), tI
			}
		}
		return t.fail("selector %s", src(t.pk, e)), tBad
	case *ast.IndexExpr:
		base, ty := t.expr(x.X)
		switch ty.k {
		case fkPt:
			if l, ok := x.Index.(*ast.BasicLit); ok {
				switch l.Value {
				case "0":
					return par(base) + ".x", tF
				case "1":
					return par(base) + ".y", tF
				}
			}
		case fkPts, fkPtss, fkPtsss, fkFs, fkGs:
			wasIn := t.inIndex
			t.inIndex = true
			i, ity := t.expr(x.Index)
			t.inIndex = wasIn
			if ity.k == fkInt || ity.k == fkUInt {
				if t.intTy() != "Nat" {
					return t.fail("slice index in an Int function"), tBad
				}
				el := elemTy(ty)
				if t.spec.panicMode == "res" {
					// Go's bounds check, made explicit
					if !t.safeIdx[src(t.pk, e)] {
						if !t.indexGuard(x, base, i) {
							return "unsupported", tBad
						}
					}
				} else {
					t.notes["index-total"] = true
				}
				if el.k == fkG {
					t.extras["gnil"] = true
				}
				return fmt.Sprintf("(%s.getD %s %s)", par(base), par(i), zeroOf(el)), el
			}
		}
		return t.fail("index %s", src(t.pk, e)), tBad
	case *ast.SliceExpr:
		if t.spec.setTotal && x.Low == nil && x.High != nil && !x.Slice3 && t.intTy() == "Nat" && !hasSub(x.High) {
			base, ty := t.expr(x.X)
			n, nty := t.expr(x.High)
			if isList(ty) && (nty.k == fkInt || nty.k == fkUInt) {
				t.notes["set-total"] = true
				return par(base) + ".take " + par(n), fty{k: ty.k, name: ty.name}
			}
		}
		return t.fail("expression %s", src(t.pk, e)), tBad
	case *ast.CompositeLit:
		if fgoTy(x.Type).k == fkTiles {
			var ks []string
			for _, el := range x.Elts {
				kv, ok := el.(*ast.KeyValueExpr)
				if !ok || src(t.pk, kv.Value) != "true" {
					return t.fail("composite literal %s", src(t.pk, e)), tBad
				}
				k, kty := t.expr(kv.Key)
				if kty.k != fkTile {
					return t.fail("composite literal %s", src(t.pk, e)), tBad
				}
				ks = append(ks, k)
			}
			t.notes["set-as-list"] = true
			return "[" + strings.Join(ks, ", ") + "]", fty{k: fkTiles}
		}
		if fgoTy(x.Type).k == fkTile {
			// maptile.Tile{X: …, Y: …, Z: …}
			f := map[string]string{}
			for _, el := range x.Elts {
				kv, ok := el.(*ast.KeyValueExpr)
				if !ok {
					return t.fail("positional Tile literal"), tBad
				}
				v, vt := t.expr(kv.Value)
				if vt.k != fkInt && vt.k != fkUInt {
					return t.fail("Tile literal field"), tBad
				}
				f[src(t.pk, kv.Key)] = v
			}
			if len(f) == 3 && f["X"] != "" && f["Y"] != "" && f["Z"] != "" && len(x.Elts) == 3 {
				return fmt.Sprintf("(⟨%s, %s, %s⟩ : Orb.Tile.Tile)", f["X"], f["Y"], f["Z"]), fty{k: fkTile}
			}
			return t.fail("composite literal %s", src(t.pk, e)), tBad
		}
		switch fgoTy(x.Type).k {
		case fkPt:
			if len(x.Elts) == 0 {
				return "(⟨0, 0⟩ : Pt α)", tP
			}
			if len(x.Elts) == 2 {
				a, at := t.expr(x.Elts[0])
				b, bt := t.expr(x.Elts[1])
				if fUnify(at, tF).k == fkFloat && fUnify(bt, tF).k == fkFloat && t.numOK(a, at) && t.numOK(b, bt) {
					return fmt.Sprintf("(⟨%s, %s⟩ : Pt α)", a, b), tP
				}
			}
		case fkBound:
			f := map[string]string{}
			for i, el := range x.Elts {
				kv, ok := el.(*ast.KeyValueExpr)
				if !ok {
					// positional: the fields in the order of the struct declaration
					fields := structFields(".", "Bound")
					if len(fields) != 2 || len(x.Elts) != 2 {
						return t.fail("positional Bound literal"), tBad
					}
					kv = &ast.KeyValueExpr{Key: ast.NewIdent(fields[i]), Value: el}
				}
				v, vt := t.expr(kv.Value)
				if vt.k != fkPt {
					return t.fail("Bound literal field"), tBad
				}
				f[src(t.pk, kv.Key)] = v
			}
			if len(f) == 2 && f["Min"] != "" && f["Max"] != "" {
				return fmt.Sprintf("(⟨%s, %s⟩ : Bound α)", f["Min"], f["Max"]), tBd
			}
		case fkPts, fkPtss, fkPtsss:
			lt := fgoTy(x.Type)
			var els []string
			for _, el := range x.Elts {
				if _, kv := el.(*ast.KeyValueExpr); kv {
					return t.fail("keyed list literal"), tBad
				}
				v, vt := t.expr(el)
				if vt.k != elemTy(lt).k {
					return t.fail("list literal element"), tBad
				}
				els = append(els, v)
			}
			lt.nie = len(els) > 0 // (a literal is not nil)
			return "[" + strings.Join(els, ", ") + "]", lt
		}
		return t.fail("composite literal %s", src(t.pk, e)), tBad
	case *ast.UnaryExpr:
		if x.Op == token.SUB {
			a, ty := t.expr(x.X)
			if ty.k == fkFloat {
				return "-" + par(a), fty{k: fkFloat, name: ty.name}
			}
			if (ty.k == fkInt || ty.k == fkUInt) && t.intTy() == "Int" {
				return "(-" + par(a) + ")", tI
			}
		}
		if x.Op == token.NOT {
			return t.boolVal(e), tB
		}
	case *ast.CallExpr:
		return t.call(x)
	case *ast.BinaryExpr:
		switch x.Op {
		case token.LAND, token.LOR, token.EQL, token.NEQ, token.LSS, token.GTR, token.LEQ, token.GEQ:
			return t.boolVal(e), tB
		}
		if x.Op == token.SHL && t.intTy() == "Nat" {
			// uint64(a) << b: the 64-bit shift
			if c, ok := x.X.(*ast.CallExpr); ok && src(t.pk, c.Fun) == "uint32" && len(c.Args) == 1 && t.spec.u32 {
				// uint32(a) << b: the 32-bit shift of Orb.Tile
				a, aty := t.expr(c.Args[0])
				b, bty := t.expr(x.Y)
				if (aty.k == fkInt || aty.k == fkUInt) && bty.k == fkInt {
					return "Orb.Tile.shl32 " + par(a) + " " + par(b), tI
				}
			}
			if c, ok := x.X.(*ast.CallExpr); ok && src(t.pk, c.Fun) == "uint64" && len(c.Args) == 1 {
				a, aty := t.expr(c.Args[0])
				b, bty := t.expr(x.Y)
				if aty.k == fkInt && bty.k == fkInt {
					return "((" + par(a) + " <<< " + par(b) + ") % 2 ^ 64)", tI
				}
			}
			return t.fail("shift %s", src(t.pk, e)), tBad
		}
		l, lt := t.expr(x.X)
		r, rt := t.expr(x.Y)
		ty := fUnify(lt, rt)
		isC := func(ty fty) bool { return ty.k == fkUInt || ty.k == fkUFloat || ty.name == "const" }
		if ty.k == fkUInt || ty.k == fkUFloat || (isC(lt) && isC(rt)) {
			return t.fail("constant expression %s (Go evaluates it exactly at compile time)", src(t.pk, e)), tBad
		}
		if ty.k == fkInt && x.Op == token.SUB && t.intTy() == "Nat" && !t.inIndex && t.spec.u32 {
			return "(" + par(l) + " + 2 ^ 32 - " + par(r) + ") % 2 ^ 32", tI
		}
		if ty.k == fkInt && x.Op == token.SUB && t.intTy() == "Nat" && !t.inIndex {
			return t.fail("integer subtraction %s outside an index (Go's int can go negative)", src(t.pk, e)), tBad
		}
		op := ""
		if ty.k == fkFloat {
			// a numeral next to a float needs `OfNat α n`; the models' signature has these:
			if !t.numOK(l, lt) || !t.numOK(r, rt) {
				return "unsupported", tBad
			}
		}
		switch ty.k {
		case fkFloat, fkUFloat:
			op = map[token.Token]string{token.ADD: "+", token.SUB: "-", token.MUL: "*", token.QUO: "/"}[x.Op]
		case fkInt, fkUInt:
			op = map[token.Token]string{token.ADD: "+", token.SUB: "-", token.OR: "|||", token.AND: "&&&"}[x.Op]
		}
		if op != "" {
			return par(l) + " " + op + " " + par(r), ty
		}
	}
	return t.fail("expression %s", src(t.pk, e)), tBad
}

// structFields: the field names of a struct type of the package, in declaration order
func structFields(rel, name string) []string {
	pk := pkgs[rel]
	if pk == nil {
		return nil
	}
	var out []string
	for _, f := range pk.files {
		for _, d := range f.Decls {
			gd, ok := d.(*ast.GenDecl)
			if !ok || gd.Tok != token.TYPE {
				continue
			}
			for _, s := range gd.Specs {
				ts, ok := s.(*ast.TypeSpec)
				if !ok || ts.Name.Name != name {
					continue
				}
				st, ok := ts.Type.(*ast.StructType)
				if !ok {
					return nil
				}
				for _, fl := range st.Fields.List {
					for _, n := range fl.Names {
						out = append(out, n.Name)
					}
				}
			}
		}
	}
	return out
}

// pkgVarInit: the initialiser of the package-level variable `name` (one name, one value), provided no
// statement of the package assigns a variable of that name, declares one again, or takes its address
func pkgVarInit(pk *pkgFiles, name string) ast.Expr {
	var init ast.Expr
	n := 0
	for _, f := range pk.files {
		for _, d := range f.Decls {
			gd, ok := d.(*ast.GenDecl)
			if !ok || gd.Tok != token.VAR {
				continue
			}
			for _, s := range gd.Specs {
				if vs, ok := s.(*ast.ValueSpec); ok {
					for _, id := range vs.Names {
						if id.Name == name {
							n++
							if len(vs.Names) == 1 && len(vs.Values) == 1 {
								init = vs.Values[0]
							}
						}
					}
				}
			}
		}
	}
	if n != 1 || init == nil {
		return nil
	}
	for _, f := range pk.files {
		for _, d := range f.Decls {
			if fd, ok := d.(*ast.FuncDecl); ok && fd.Body != nil {
				if writes(fd.Body, name) {
					return nil
				}
				for _, fl := range []*ast.FieldList{fd.Recv, fd.Type.Params, fd.Type.Results} {
					if fl != nil {
						for _, p := range fl.List {
							for _, id := range p.Names {
								if id.Name == name {
									return nil
								}
							}
						}
					}
				}
			}
		}
	}
	return init
}

// applyFieldDecl: for a function that returns a struct of closures (`return &T{…, F: func(p …) … {…}, …}` or
// `return g(…)` for another such function), the declaration of "field F of the result, applied to p": the
// closure's parameters are added to the function's, every such return becomes the closure's body (resp. the
// call g·F(…, p)).  The closure must not write anything declared outside it; the function returns right after
// building the closures, so what they capture never changes.
func applyFieldDecl(pk *pkgFiles, fd *ast.FuncDecl, field string) (*ast.FuncDecl, string) {
	var lit *ast.FuncLit
	why := ""
	outer := map[string]bool{}
	for _, fl := range []*ast.FieldList{fd.Recv, fd.Type.Params} {
		if fl != nil {
			for _, p := range fl.List {
				for _, n := range p.Names {
					outer[n.Name] = true
				}
			}
		}
	}
	ast.Inspect(fd.Body, func(n ast.Node) bool {
		switch x := n.(type) {
		case *ast.FuncLit:
			return false
		case *ast.AssignStmt:
			if x.Tok == token.DEFINE {
				for _, l := range x.Lhs {
					if id, ok := l.(*ast.Ident); ok {
						outer[id.Name] = true
					}
				}
			}
		case *ast.ValueSpec:
			for _, id := range x.Names {
				outer[id.Name] = true
			}
		}
		return true
	})
	sameSig := func(a, b *ast.FuncLit) bool { return src(pk, a.Type) == src(pk, b.Type) }
	var conv func(list []ast.Stmt) []ast.Stmt
	conv = func(list []ast.Stmt) []ast.Stmt {
		var out []ast.Stmt
		for _, s := range list {
			switch st := s.(type) {
			case *ast.ReturnStmt:
				if len(st.Results) != 1 {
					why = "return shape"
					return nil
				}
				r := st.Results[0]
				if u, ok := r.(*ast.UnaryExpr); ok && u.Op == token.AND {
					r = u.X
				}
				switch rv := r.(type) {
				case *ast.CompositeLit:
					var f *ast.FuncLit
					for _, el := range rv.Elts {
						if kv, ok := el.(*ast.KeyValueExpr); ok {
							if k, ok := kv.Key.(*ast.Ident); ok && k.Name == field {
								f, _ = kv.Value.(*ast.FuncLit)
							}
						}
					}
					if f == nil || (lit != nil && !sameSig(lit, f)) {
						why = "field " + field + " is not given a function literal (of one signature)"
						return nil
					}
					for v := range outer {
						if writes(f.Body, v) {
							why = "the closure writes " + v
							return nil
						}
					}
					lit = f
					out = append(out, &ast.BlockStmt{List: f.Body.List})
				case *ast.CallExpr:
					id, ok := rv.Fun.(*ast.Ident)
					if !ok {
						why = "return shape"
						return nil
					}
					out = append(out, &ast.ReturnStmt{Results: []ast.Expr{&ast.CallExpr{Fun: ast.NewIdent(id.Name + "·" + field), Args: rv.Args, Rparen: token.NoPos}}})
				default:
					why = "return shape"
					return nil
				}
			case *ast.IfStmt:
				c := *st
				c.Body = &ast.BlockStmt{List: conv(st.Body.List)}
				if st.Else != nil {
					switch e := st.Else.(type) {
					case *ast.BlockStmt:
						c.Else = &ast.BlockStmt{List: conv(e.List)}
					default:
						why = "else-if around the returned closures"
					}
				}
				out = append(out, &c)
			case *ast.BlockStmt:
				out = append(out, &ast.BlockStmt{List: conv(st.List)})
			default:
				out = append(out, s)
			}
			if why != "" {
				return nil
			}
		}
		return out
	}
	body := conv(fd.Body.List)
	if why != "" {
		return nil, why
	}
	if lit == nil {
		// only calls of other such functions: take the signature from … nowhere: refuse
		return nil, "no closure for field " + field
	}
	for _, p := range lit.Type.Params.List {
		for _, n := range p.Names {
			if outer[n.Name] {
				return nil, "closure parameter " + n.Name + " has the name of an outer variable"
			}
		}
	}
	// the calls g·F(…) get the closure's parameters as further arguments
	var extra []ast.Expr
	for _, p := range lit.Type.Params.List {
		for _, n := range p.Names {
			extra = append(extra, ast.NewIdent(n.Name))
		}
	}
	for _, s := range body {
		ast.Inspect(s, func(n ast.Node) bool {
			if c, ok := n.(*ast.CallExpr); ok {
				if id, ok := c.Fun.(*ast.Ident); ok && strings.HasSuffix(id.Name, "·"+field) {
					c.Args = append(append([]ast.Expr{}, c.Args...), extra...)
				}
			}
			return true
		})
	}
	params := &ast.FieldList{List: append(append([]*ast.Field{}, fd.Type.Params.List...), lit.Type.Params.List...)}
	return &ast.FuncDecl{Name: fd.Name, Recv: fd.Recv, Type: &ast.FuncType{Params: params, Results: lit.Type.Results}, Body: &ast.BlockStmt{List: body}}, ""
}

// viewRecvDecl: the method seen through the view "S,E.F" of its pointer receiver r (see ffn.viewRecv): r.S becomes
// the parameter s_ (uint32), r.E the parameter e_ ([]G), `for _, f := range r.E` becomes `for i_ := range e_` with
// f.F = e_[i_]; the method gets the result e_.  Any other use of r or f survives the rewrite as an unknown
// identifier and leaves the function unresolved.
func viewRecvDecl(pk *pkgFiles, fd *ast.FuncDecl, view string) (*ast.FuncDecl, string) {
	m := regexp.MustCompile(`^(\w+),(\w+)\.(\w+)$`).FindStringSubmatch(view)
	if m == nil || fd.Recv == nil || len(fd.Recv.List) != 1 || len(fd.Recv.List[0].Names) != 1 || fd.Type.Results != nil {
		return nil, "view shape"
	}
	r := fd.Recv.List[0].Names[0].Name
	scalar, elems, field := m[1], m[2], m[3]
	hasRet := false
	ast.Inspect(fd.Body, func(n ast.Node) bool {
		switch n.(type) {
		case *ast.ReturnStmt, *ast.FuncLit, *ast.GoStmt, *ast.DeferStmt:
			hasRet = true
		}
		return true
	})
	if hasRet {
		return nil, "return / closure / go / defer in a method translated through a view"
	}
	sv, ev := strings.ToLower(scalar)+"_", strings.ToLower(elems)+"_"
	if mentions(fd, sv) || mentions(fd, ev) || mentions(fd, "i_") {
		return nil, "name clash with the view"
	}
	body := src(pk, fd.Body)
	q := regexp.QuoteMeta
	body = regexp.MustCompile(`\b`+q(r)+`\.`+q(scalar)+`\b`).ReplaceAllString(body, sv)
	// the loops over the elements
	loop := regexp.MustCompile(`for _, (\w+) := range ` + q(r) + `\.` + q(elems) + ` \{`)
	fs := map[string]bool{}
	for _, mm := range loop.FindAllStringSubmatch(body, -1) {
		fs[mm[1]] = true
	}
	if len(fs) != 1 {
		return nil, "the view needs exactly one loop variable over " + r + "." + elems
	}
	var f string
	for k := range fs {
		f = k
	}
	body = loop.ReplaceAllString(body, "for i_ := range "+ev+" {")
	body = regexp.MustCompile(`\b`+q(f)+`\.`+q(field)+`\b`).ReplaceAllString(body, ev+"[i_]")
	body = strings.TrimSuffix(strings.TrimSpace(body), "}") + "\n\treturn " + ev + "\n}"
	var ps []string
	for _, p := range fd.Type.Params.List {
		var ns []string
		for _, n := range p.Names {
			ns = append(ns, n.Name)
		}
		ps = append(ps, strings.Join(ns, ", ")+" "+src(pk, p.Type))
	}
	ps = append(ps, sv+" uint32", ev+" []orbGeometryG")
	text := "package view\n\nfunc " + fd.Name.Name + "(" + strings.Join(ps, ", ") + ") []orbGeometryG " + body + "\n"
	file, err := parser.ParseFile(pk.fset, "view:"+fd.Name.Name+".go", text, 0)
	if err != nil {
		return nil, "view: " + err.Error()
	}
	for _, d := range file.Decls {
		if nfd, ok := d.(*ast.FuncDecl); ok {
			if mentions(nfd.Body, r) || mentions(nfd.Body, f) {
				return nil, "the receiver (or the loop variable) is used outside the view: " + r + ", " + f
			}
			return nfd, ""
		}
	}
	return nil, "view"
}

// findVarFieldFunc: for name "V.F", the function literal given to field F in the struct literal that
// initialises the package variable V, as a function declaration
func findVarFieldFunc(rel, name string) (*pkgFiles, *ast.FuncDecl) {
	parts := strings.SplitN(name, ".", 2)
	pk := pkgs[rel]
	if pk == nil || len(parts) != 2 {
		return nil, nil
	}
	init := pkgVarInit(pk, parts[0])
	cl, ok := init.(*ast.CompositeLit)
	if init == nil || !ok {
		return nil, nil
	}
	for _, el := range cl.Elts {
		kv, ok := el.(*ast.KeyValueExpr)
		if !ok {
			continue
		}
		if k, ok := kv.Key.(*ast.Ident); ok && k.Name == parts[1] {
			if fl, ok := kv.Value.(*ast.FuncLit); ok {
				return pk, &ast.FuncDecl{Name: ast.NewIdent(parts[1]), Type: fl.Type, Body: fl.Body}
			}
		}
	}
	return nil, nil
}

// isPkgVar: a package-level variable of the package
func isPkgVar(rel, name string) bool {
	pk := pkgs[rel]
	if pk == nil {
		return false
	}
	for _, f := range pk.files {
		for _, d := range f.Decls {
			gd, ok := d.(*ast.GenDecl)
			if !ok || gd.Tok != token.VAR {
				continue
			}
			for _, s := range gd.Specs {
				if vs, ok := s.(*ast.ValueSpec); ok {
					for _, n := range vs.Names {
						if n.Name == name {
							return true
						}
					}
				}
			}
		}
	}
	return false
}

// indexGuard ("res" functions): the run-time check of xs[i], with Go's message.  An index `a - b` is
// in range when b ≤ a and a - b < len (the subtraction is truncated in Nat).
func (t *ftrans) indexGuard(x *ast.IndexExpr, base, i string) bool {
	ix := x.Index
	for {
		p, ok := ix.(*ast.ParenExpr)
		if !ok {
			break
		}
		ix = p.X
	}
	length := par(base) + ".length"
	if b, ok := ix.(*ast.BinaryExpr); ok && b.Op == token.SUB {
		if hasSub(b.X) || hasSub(b.Y) {
			t.fail("index %s", src(t.pk, x))
			return false
		}
		wasIn, np := t.inIndex, len(t.pending)
		t.inIndex = true
		l, _ := t.expr(b.X)
		r, _ := t.expr(b.Y)
		t.inIndex = wasIn
		if len(t.pending) != np {
			t.fail("index %s", src(t.pk, x))
			return false
		}
		l, r = par(l), par(r)
		t.pending = append(t.pending, fpend{guard: r + " ≤ " + l + " ∧ " + l + " - " + r + " < " + length,
			msg: "(\"index out of range [\" ++ (if " + r + " ≤ " + l + " then toString (" + l + " - " + r + ") else \"-\" ++ toString (" + r + " - " + l +
				")) ++ \"] with length \" ++ toString " + length + ")"})
		return true
	}
	if hasSub(ix) {
		t.fail("index %s", src(t.pk, x))
		return false
	}
	t.pending = append(t.pending, fpend{guard: par(i) + " < " + length,
		msg: "(\"index out of range [\" ++ toString " + par(i) + " ++ \"] with length \" ++ toString " + length + ")"})
	return true
}

func hasSub(e ast.Expr) bool {
	found := false
	ast.Inspect(e, func(n ast.Node) bool {
		switch b := n.(type) {
		case *ast.BinaryExpr:
			if b.Op == token.SUB {
				found = true
			}
		case *ast.UnaryExpr:
			if b.Op == token.SUB {
				found = true
			}
		}
		return !found
	})
	return found
}

func (t *ftrans) call(x *ast.CallExpr) (string, fty) {
	fun := src(t.pk, x.Fun)
	args := func() ([]string, []fty) {
		var as []string
		var ts []fty
		for _, a := range x.Args {
			s, ty := t.exprOrBool(a)
			as = append(as, par(s))
			ts = append(ts, ty)
		}
		return as, ts
	}
	floatArgs := func(n int) ([]string, bool) {
		as, ts := args()
		if len(as) != n {
			return nil, false
		}
		for i, ty := range ts {
			if fUnify(ty, tF).k != fkFloat || !t.numOK(as[i], ty) {
				return nil, false
			}
		}
		return as, true
	}
	switch fun {
	case "math.Sqrt":
		if as, ok := floatArgs(1); ok {
			t.extras["sqrt"] = true
			return "sqrt " + as[0], tF
		}
	case "math.Sin", "math.Log", "math.Cos", "math.Asin", "math.Atan", "math.Exp", "math.Tan":
		if t.spec.libm {
			if as, ok := floatArgs(1); ok {
				fn := strings.ToLower(fun[5:])
				t.extras[fn] = true
				return fn + " " + as[0], tF
			}
		}
	case "math.Atan2":
		if t.spec.libm {
			if as, ok := floatArgs(2); ok {
				t.extras["atan2"] = true
				return "atan2 " + as[0] + " " + as[1], tF
			}
		}
	case "uint64":
		// uint64(a << b): the 64-bit shift
		if len(x.Args) == 1 && t.intTy() == "Nat" && t.spec.natCast != "" {
			if b, ok := x.Args[0].(*ast.BinaryExpr); ok && b.Op == token.SHL {
				l, lt := t.expr(b.X)
				r, rt := t.expr(b.Y)
				if (lt.k == fkInt || lt.k == fkUInt) && rt.k == fkInt {
					return "((" + par(l) + " <<< " + par(r) + ") % 2 ^ 64)", tI
				}
			}
		}
	case "project.Geometry":
		// project.Geometry(g, proj) on an opaque geometry value: the explicit parameter `projectGeometry`
		if len(x.Args) == 2 && t.spec.viewRecv != "" {
			g, gty := t.expr(x.Args[0])
			f, fty_ := t.expr(x.Args[1])
			if gty.k == fkG && fty_.k == fkProjFn {
				t.extras["projectGeometry"] = true
				return "projectGeometry " + par(g) + " " + par(f), fty{k: fkG}
			}
		}
	case "bits.TrailingZeros32":
		if len(x.Args) == 1 && t.spec.u32 {
			a, ty := t.expr(x.Args[0])
			if ty.k == fkInt {
				t.extras["tz32"] = true
				return "tz32 " + par(a), tI
			}
		}
	case "math.Floor":
		if t.spec.libm {
			if as, ok := floatArgs(1); ok {
				t.extras["floor"] = true
				return "floor " + as[0], tF
			}
		}
	case "uint32":
		// uint32(n) of a value that is a uint32 / Zoom already
		if len(x.Args) == 1 && t.spec.u32 {
			if _, isBin := x.Args[0].(*ast.BinaryExpr); !isBin {
				a, ty := t.expr(x.Args[0])
				if ty.k == fkInt || ty.k == fkUInt {
					return a, tI
				}
				if ty.k == fkFloat && t.spec.natCast != "" {
					// uint32(f) of a float: the explicit parameter floorU32 (as in the models)
					t.extras["floorU32"] = true
					return "floorU32 " + par(a), tI
				}
				return t.fail("conversion %s", src(t.pk, x)), tBad
			}
		}
		// uint32(a << b): the 32-bit shift of Orb.Tile
		if len(x.Args) == 1 && t.intTy() == "Nat" && t.spec.natCast != "" {
			if b, ok := x.Args[0].(*ast.BinaryExpr); ok && b.Op == token.SHL {
				l, lt := t.expr(b.X)
				r, rt := t.expr(b.Y)
				if (lt.k == fkInt || lt.k == fkUInt) && rt.k == fkInt {
					return "Orb.Tile.shl32 " + par(l) + " " + par(r), tI
				}
			}
		}
	case "math.Abs":
		if as, ok := floatArgs(1); ok && t.spec.absParam {
			t.extras["abs"] = true
			return "abs " + as[0], tF
		}
		if as, ok := floatArgs(1); ok {
			return "fabs " + as[0], tF
		}
	case "math.Min", "math.Max":
		if as, ok := floatArgs(2); ok && t.spec.absParam {
			// (package geo's models take math.Min / math.Max from their function record)
			fn := "f" + strings.ToLower(fun[5:])
			t.extras[fn] = true
			return fn + " " + as[0] + " " + as[1], tF
		}
		if as, ok := floatArgs(2); ok {
			return strings.ToLower(fun[5:]) + " " + as[0] + " " + as[1], tF
		}
	case "math.Nextafter":
		if len(x.Args) == 2 && src(t.pk, x.Args[1]) == "math.Inf(1)" {
			a, ty := t.expr(x.Args[0])
			if ty.k == fkFloat {
				t.extras["next"] = true
				return "next " + par(a), tF
			}
		}
	case "len":
		if len(x.Args) == 1 {
			a, ty := t.expr(x.Args[0])
			if isList(ty) && t.intTy() == "Nat" {
				return par(a) + ".length", tI
			}
		}
	case "append":
		// append(xs, v) / append(xs, ys...): a new list value (the model's lists are values; what
		// happens to the backing array is not part of the translation)
		if len(x.Args) == 2 {
			a, ty := t.expr(x.Args[0])
			b, bt := t.expr(x.Args[1])
			if isList(ty) {
				t.notes["append-value"] = true
				if x.Ellipsis.IsValid() {
					if bt.k == ty.k {
						// append(nil, empty...) is nil; anything else that is empty was non-nil before
						return par(a) + " ++ " + par(b), fty{k: ty.k, name: ty.name, nie: ty.nie}
					}
				} else if bt.k == elemTy(ty).k {
					return par(a) + " ++ [" + b + "]", fty{k: ty.k, name: ty.name, nie: true}
				}
			}
		}
	case "make":
		if len(x.Args) >= 1 && len(x.Args) <= 2 && fgoTy(x.Args[0]).k == fkTiles {
			if _, isArr := x.Args[0].(*ast.ArrayType); !isArr {
				if len(x.Args) == 2 {
					// (the capacity hint has no effect on the contents; it is evaluated, and must not panic)
					if _, ty := t.expr(x.Args[1]); ty.k != fkInt && ty.k != fkUInt {
						return t.fail("make %s", src(t.pk, x)), tBad
					}
				}
				t.notes["set-as-list"] = true
				return "[]", fty{k: fkTiles}
			}
		}
		// make([]T, n): n zero values.  A size a - b is negative (a panic) when a < b: only "res" functions
		if len(x.Args) == 2 && t.intTy() == "Nat" {
			lt := fgoTy(x.Args[0])
			if _, isArr := x.Args[0].(*ast.ArrayType); isArr && isList(lt) {
				size := x.Args[1]
				if b, ok := size.(*ast.BinaryExpr); ok && b.Op == token.SUB && t.spec.panicMode == "res" && !hasSub(b.X) && !hasSub(b.Y) {
					np := len(t.pending)
					l, lty := t.expr(b.X)
					r, rty := t.expr(b.Y)
					if len(t.pending) == np && fUnify(lty, tI).k == fkInt && fUnify(rty, tI).k == fkInt {
						l, r = par(l), par(r)
						t.pending = append(t.pending, fpend{guard: r + " ≤ " + l, msg: "\"makeslice: len out of range\""})
						return "List.replicate (" + l + " - " + r + ") " + zeroOf(elemTy(lt)), fty{k: lt.k, name: lt.name}
					}
				} else if !hasSub(size) {
					n, nty := t.expr(size)
					if fUnify(nty, tI).k == fkInt {
						return "List.replicate " + par(n) + " " + zeroOf(elemTy(lt)), fty{k: lt.k, name: lt.name}
					}
				}
			}
		}
		return t.fail("make %s", src(t.pk, x)), tBad
	case "math.Inf":
		// +Inf: the explicit parameter `inf`
		if len(x.Args) == 1 && src(t.pk, x.Args[0]) == "1" {
			t.extras["inf"] = true
			return "inf", tF
		}
	case "float64":
		if len(x.Args) == 1 {
			a, ty := t.expr(x.Args[0])
			if ty.k == fkFloat {
				return a, tF
			}
			if ty.k == fkInt && t.intTy() == "Nat" && t.spec.natCast != "" {
				t.extras[t.spec.natCast] = true
				return t.spec.natCast + " " + par(a), tF
			}
			if ty.k == fkInt && t.intTy() == "Nat" {
				return "(" + a + " : α)", tF // Nat.cast, as in the models
			}
		}
	}
	// a conversion between slice types of the same shape: LineString(r), orb.MultiPoint(ls), …
	if cn := strings.TrimPrefix(fun, "orb."); listNames[cn] != 0 && ((cn == fun) == (t.pk.rel == ".")) {
		if _, isVar := t.vars[cn]; !isVar && len(x.Args) == 1 {
			a, ty := t.expr(x.Args[0])
			if ty.k == listNames[cn] {
				return a, fty{k: ty.k, name: cn, nie: ty.nie}
			}
		}
		return t.fail("conversion %s", src(t.pk, x)), tBad
	}
	if t.err != "" {
		return "unsupported", tBad
	}
	// s.simplify(ls, area, false) for a simplifier s: (the simplified line, the index map that is not asked for)
	if sel, ok := x.Fun.(*ast.SelectorExpr); ok && sel.Sel.Name == "simplify" {
		if id, ok := sel.X.(*ast.Ident); ok {
			if ty, ok := t.vars[id.Name]; ok && ty.k == fkSimp {
				if len(x.Args) == 3 && src(t.pk, x.Args[2]) == "false" {
					a, aty := t.expr(x.Args[0])
					b, bty := t.exprOrBool(x.Args[1])
					if aty.k == fkPts && bty.k == fkBool {
						t.notes["pure-simplifier"] = true
						return "(" + t.ln(id.Name) + " " + par(a) + " " + par(b) + ", ())", fty{k: fkTuple, el: []fty{{k: fkPts, name: "LineString"}, {k: fkUnit}}}
					}
				}
				return t.fail("call %s", src(t.pk, x)), tBad
			}
		}
	}
	// a Projection variable
	if id, ok := x.Fun.(*ast.Ident); ok {
		if ty, ok := t.vars[id.Name]; ok && ty.k == fkProjFn {
			as, ts := args()
			if len(as) == 1 && ts[0].k == fkPt {
				t.notes["pure-projection"] = true
				return t.ln(id.Name) + " " + as[0], tP
			}
			return t.fail("call %s", src(t.pk, x)), tBad
		}
	}
	// a DistanceFunc variable
	if id, ok := x.Fun.(*ast.Ident); ok {
		if ty, ok := t.vars[id.Name]; ok && ty.k == fkDistFn {
			as, ts := args()
			if len(as) == 2 && ts[0].k == fkPt && ts[1].k == fkPt {
				return t.ln(id.Name) + " " + as[0] + " " + as[1], tF
			}
			return t.fail("call %s", src(t.pk, x)), tBad
		}
	}
	// a function of the package that stays opaque: an explicit function parameter
	if id, ok := x.Fun.(*ast.Ident); ok {
		for _, an := range t.spec.abstract {
			if an == id.Name {
				return t.abstractCall(id.Name, x)
			}
		}
	}
	// a function translated earlier
	var key string
	var recvArg []string
	switch f := x.Fun.(type) {
	case *ast.Ident:
		key = t.pk.rel + "||" + f.Name
	case *ast.SelectorExpr:
		if id, ok := f.X.(*ast.Ident); ok {
			if _, isVar := t.vars[id.Name]; !isVar {
				if rel, ok := relOfPkgIdent(id.Name); ok {
					key = rel + "||" + f.Sel.Name
				}
			}
		}
		if key == "" {
			r, rty := t.expr(f.X)
			rn := map[fkind]string{fkBound: "Bound", fkPt: "Point", fkPts: "Ring"}[rty.k]
			if isList(rty) {
				if listNames[rty.name] != 0 {
					rn = rty.name // the method set is the named type's
				} else if rty.name != "" {
					rn = "" // []Ring …: no methods
				}
			}
			if rn == "" {
				return t.fail("method call %s", src(t.pk, x)), tBad
			}
			key = ".|" + rn + "|" + f.Sel.Name
			recvArg = []string{par(r)}
		}
	}
	sg := fsigs[key]
	if sg == nil && recvArg == nil && len(x.Args) >= 1 {
		// a function translated case by case of its type switch, called with a value whose static type
		// is one of the slice kinds: that case is the one that runs (the interface value is not nil)
		saved, sp, sn := t.err, t.pending, t.nv
		_, aty := t.exprOrBool(x.Args[0])
		t.err, t.pending, t.nv = saved, sp, sn
		if isList(aty) && listNames[aty.name] != 0 {
			sg = fsigs[key+"#orb."+aty.name]
		}
	}
	if sg == nil {
		return t.fail("call of a function that is not translated: %s", fun), tBad
	}
	bind := false
	if sg.fn.panicMode != "" {
		if sg.fn.panicMode != "res" || t.spec.panicMode != "res" || sg.fn.errTy != t.spec.errTy {
			return t.fail("call of a panicking function: %s", fun), tBad
		}
		bind = true
	}
	as, ts := args()
	want := sg.params
	if recvArg != nil {
		want = want[1:]
	}
	if len(ts) != len(want) {
		return t.fail("arity of %s", fun), tBad
	}
	for i := range ts {
		ok := ts[i].k == want[i].k
		if want[i].k == fkFloat || want[i].k == fkInt {
			ok = fUnify(ts[i], want[i]).k == want[i].k && (want[i].k != fkFloat || t.numOK(as[i], ts[i]))
		}
		if !ok {
			return t.fail("argument %d of %s", i, fun), tBad
		}
	}
	if sg.fn.intTy != "" && sg.fn.intTy != t.intTy() {
		return t.fail("int type mismatch calling %s", fun), tBad
	}
	parts := []string{sg.qual}
	for _, ex := range sg.extras {
		t.extras[ex] = true
		parts = append(parts, ex)
	}
	parts = append(parts, recvArg...)
	parts = append(parts, as...)
	if bind {
		// the callee may panic: its call is hoisted in front of the statement and matched on
		t.nv++
		v := fmt.Sprintf("v_%d", t.nv)
		t.pending = append(t.pending, fpend{call: strings.Join(parts, " "), v: v})
		return v, sg.ret
	}
	rt := sg.ret
	rt.nie = sg.nie
	return strings.Join(parts, " "), rt
}

// closureCall: e is a call F(args) of a function of the package translated field by field (applyField):
// for every translated field, the partial application `(F·field extras args)` (a Pt α → Pt α)
func (t *ftrans) closureCall(e ast.Expr) map[string]string {
	c, ok := e.(*ast.CallExpr)
	if !ok {
		return nil
	}
	id, ok := c.Fun.(*ast.Ident)
	if !ok {
		return nil
	}
	prefix := t.pk.rel + "||" + id.Name + "·"
	var out map[string]string
	var keys []string
	for k := range fsigs {
		if strings.HasPrefix(k, prefix) {
			keys = append(keys, k)
		}
	}
	sort.Strings(keys)
	for _, k := range keys {
		sg := fsigs[k]
		if sg.fn.panicMode != "" || len(sg.params) != len(c.Args)+1 || sg.ret.k != fkPt || sg.params[len(c.Args)].k != fkPt {
			return nil
		}
		parts := []string{sg.qual}
		for _, ex := range sg.extras {
			t.extras[ex] = true
			parts = append(parts, ex)
		}
		for i, a := range c.Args {
			v, ty := t.exprOrBool(a)
			if ty.k != sg.params[i].k || len(t.pending) != 0 {
				t.fail("argument %d of %s", i, id.Name)
				return nil
			}
			parts = append(parts, par(v))
		}
		if out == nil {
			out = map[string]string{}
		}
		out[strings.TrimPrefix(k, prefix)] = "(" + strings.Join(parts, " ") + ")"
	}
	return out
}

// abstractCall: f(args) for a function f of the package that is not translated; f becomes a parameter
// of the definition (and of every definition that calls it), typed after f's Go signature
func (t *ftrans) abstractCall(name string, x *ast.CallExpr) (string, fty) {
	if _, isVar := t.vars[name]; isVar {
		return t.fail("call %s", src(t.pk, x)), tBad
	}
	_, fd := findFunc(t.pk.rel, "", name)
	if fd == nil || fd.Type.Results == nil || len(fd.Type.Results.List) != 1 || len(fd.Type.Results.List[0].Names) > 1 {
		return t.fail("opaque function %s", name), tBad
	}
	var ptys []fty
	var tys []string
	for _, p := range fd.Type.Params.List {
		ty := fgoTy(p.Type)
		if _, variadic := p.Type.(*ast.Ellipsis); variadic || ty.k == fkBad || ty.k == fkDistFn || len(p.Names) == 0 {
			return t.fail("opaque function %s: parameter type", name), tBad
		}
		for range p.Names {
			ptys = append(ptys, ty)
			tys = append(tys, par(t.leanTy(ty)))
		}
	}
	rty := fgoTy(fd.Type.Results.List[0].Type)
	if rty.k == fkBad || rty.k == fkDistFn {
		return t.fail("opaque function %s: result type", name), tBad
	}
	tys = append(tys, par(t.leanTy(rty)))
	ln := lid(name)
	sig := strings.Join(tys, " → ")
	if old, ok := extraTypes[ln]; ok && old != sig {
		return t.fail("opaque function %s: two signatures", name), tBad
	}
	if _, ok := extraTypes[ln]; !ok {
		extraTypes[ln] = sig
		extraOrder = append(extraOrder, ln)
	}
	if len(x.Args) != len(ptys) || x.Ellipsis.IsValid() {
		return t.fail("arity of %s", name), tBad
	}
	parts := []string{ln}
	for i, a := range x.Args {
		v, ty := t.exprOrBool(a)
		ok := ty.k == ptys[i].k
		if ptys[i].k == fkFloat || ptys[i].k == fkInt {
			ok = fUnify(ty, ptys[i]).k == ptys[i].k && (ptys[i].k != fkFloat || t.numOK(v, ty))
		}
		if !ok {
			return t.fail("argument %d of %s", i, name), tBad
		}
		parts = append(parts, par(v))
	}
	t.extras[ln] = true
	t.notes["opaque:"+name] = true
	rty.nie = false
	return strings.Join(parts, " "), rty
}

// ---- booleans -------------------------------------------------------------------------------

func isLogical(e ast.Expr) (ast.Expr, bool) {
	for {
		p, ok := e.(*ast.ParenExpr)
		if !ok {
			break
		}
		e = p.X
	}
	switch x := e.(type) {
	case *ast.BinaryExpr:
		switch x.Op {
		case token.LAND, token.LOR, token.EQL, token.NEQ, token.LSS, token.GTR, token.LEQ, token.GEQ:
			return e, true
		}
	case *ast.UnaryExpr:
		if x.Op == token.NOT {
			return e, true
		}
	}
	return e, false
}

// nativeBool: does the boolean expression contain an atom that is a Bool by nature (BEq on floats
// or points, a call, a variable)?  Then the whole expression is emitted in Bool style
// (`&&`, `||`, `!`, `decide (a < b)`), otherwise in Prop style (`∧`, `∨`, `¬`, `a < b`).
func (t *ftrans) nativeBool(e ast.Expr) bool {
	e, lg := isLogical(e)
	if !lg {
		return true
	}
	switch x := e.(type) {
	case *ast.UnaryExpr:
		return t.nativeBool(x.X)
	case *ast.BinaryExpr:
		switch x.Op {
		case token.LAND, token.LOR:
			return t.nativeBool(x.X) || t.nativeBool(x.Y)
		case token.EQL, token.NEQ:
			saved, sp, sn := t.err, t.pending, t.nv // (a trial translation: no effects are kept)
			_, lt := t.exprOrBool(x.X)
			_, rt := t.exprOrBool(x.Y)
			t.err, t.pending, t.nv = saved, sp, sn
			k := fUnify(lt, rt).k
			return !(k == fkInt || k == fkUInt)
		}
	}
	return false
}

// isNil: the predeclared nil
func (t *ftrans) isNil(e ast.Expr) bool {
	id, ok := e.(*ast.Ident)
	if !ok || id.Name != "nil" {
		return false
	}
	_, isVar := t.vars["nil"]
	return !isVar
}

// nieScan: the slice variables that stay "nil iff empty" once they are: every assignment to the name
// is x = append(x, …) or x = nil, and its address is not taken
func nieScan(body ast.Node) map[string]bool {
	bad := map[string]bool{}
	seen := map[string]bool{}
	ast.Inspect(body, func(n ast.Node) bool {
		switch st := n.(type) {
		case *ast.Ident:
			seen[st.Name] = true
		case *ast.AssignStmt:
			if st.Tok == token.DEFINE {
				return true
			}
			for i, l := range st.Lhs {
				id, ok := l.(*ast.Ident)
				if !ok {
					continue
				}
				fine := false
				if st.Tok == token.ASSIGN && len(st.Lhs) == len(st.Rhs) && len(st.Lhs) == 1 {
					switch r := st.Rhs[i].(type) {
					case *ast.Ident:
						fine = r.Name == "nil"
					case *ast.CallExpr:
						if f, ok := r.Fun.(*ast.Ident); ok && f.Name == "append" && len(r.Args) >= 1 {
							if a, ok := r.Args[0].(*ast.Ident); ok && a.Name == id.Name {
								fine = true
							}
						}
					}
				}
				if !fine {
					bad[id.Name] = true
				}
			}
		case *ast.RangeStmt:
			if st.Tok == token.ASSIGN {
				for _, e := range []ast.Expr{st.Key, st.Value} {
					if id, ok := e.(*ast.Ident); ok {
						bad[id.Name] = true
					}
				}
			}
		case *ast.UnaryExpr:
			if st.Op == token.AND {
				if id := rootIdent(st.X); id != nil {
					bad[id.Name] = true
				}
			}
		}
		return true
	})
	out := map[string]bool{}
	for n := range seen {
		if !bad[n] && n != "append" && n != "nil" {
			out[n] = true
		}
	}
	if bad["append"] || bad["nil"] {
		return map[string]bool{}
	}
	return out
}

func flatten(e ast.Expr, op token.Token, out *[]ast.Expr) {
	inner, _ := isLogical(e)
	if b, ok := inner.(*ast.BinaryExpr); ok && b.Op == op {
		flatten(b.X, op, out)
		flatten(b.Y, op, out)
		return
	}
	*out = append(*out, e)
}

func (t *ftrans) logic(e ast.Expr, prop bool) string {
	e, lg := isLogical(e)
	if !lg {
		s, ty := t.expr(e)
		if ty.k != fkBool {
			return t.fail("not a boolean: %s", src(t.pk, e))
		}
		return s
	}
	switch x := e.(type) {
	case *ast.UnaryExpr:
		a := t.logic(x.X, prop)
		if prop {
			return "¬ " + par(a)
		}
		return "!" + par(a)
	case *ast.BinaryExpr:
		switch x.Op {
		case token.LAND, token.LOR:
			var parts []ast.Expr
			flatten(e, x.Op, &parts)
			var ss []string
			for i, p := range parts {
				np := len(t.pending)
				s := t.logic(p, prop)
				if i > 0 && len(t.pending) != np {
					// Go would not evaluate it when the left operand decides
					return t.fail("a panicking operation on the right of %s", x.Op)
				}
				if inner, lg := isLogical(p); lg {
					if b, ok := inner.(*ast.BinaryExpr); ok && (b.Op == token.LAND || b.Op == token.LOR) {
						s = "(" + s + ")"
					}
				}
				ss = append(ss, s)
			}
			sym := map[token.Token][2]string{token.LAND: {" && ", " ∧ "}, token.LOR: {" || ", " ∨ "}}[x.Op]
			if prop {
				return strings.Join(ss, sym[1])
			}
			return strings.Join(ss, sym[0])
		}
		if x.Op == token.EQL || x.Op == token.NEQ {
			// xs == nil / xs != nil for a slice that is nil iff it is empty
			other := ast.Expr(nil)
			if t.isNil(x.Y) {
				other = x.X
			} else if t.isNil(x.X) {
				other = x.Y
			}
			if other != nil {
				v, ty := t.expr(other)
				if !isList(ty) || !ty.nie {
					return t.fail("comparison with nil: %s is not known to be nil exactly when it is empty", src(t.pk, other))
				}
				s := par(v) + ".isEmpty"
				if x.Op == token.NEQ {
					s = "!" + s
				}
				if prop {
					return "(" + s + ") = true"
				}
				return s
			}
		}
		l, lt := t.exprOrBool(x.X)
		r, rt := t.exprOrBool(x.Y)
		switch {
		case lt.k == fkPt && rt.k == fkPt && (x.Op == token.EQL || x.Op == token.NEQ):
			if x.Op == token.EQL {
				return "ptEq " + par(l) + " " + par(r)
			}
			return "!(ptEq " + par(l) + " " + par(r) + ")"
		case lt.k == fkBool && rt.k == fkBool && (x.Op == token.EQL || x.Op == token.NEQ):
			if x.Op == token.EQL {
				return par(l) + " == " + par(r)
			}
			return par(l) + " != " + par(r)
		}
		ty := fUnify(lt, rt)
		if ty.k == fkBad || ty.k == fkUInt || ty.k == fkUFloat {
			return t.fail("comparison %s", src(t.pk, e))
		}
		isInt := ty.k == fkInt
		l, r = par(l), par(r)
		switch x.Op {
		case token.EQL:
			if isInt && prop {
				return l + " = " + r
			}
			return l + " == " + r
		case token.NEQ:
			if isInt && prop {
				return l + " ≠ " + r
			}
			return l + " != " + r
		}
		sym := map[token.Token]string{token.LSS: "<", token.GTR: ">", token.LEQ: "≤", token.GEQ: "≥"}[x.Op]
		if prop {
			return l + " " + sym + " " + r
		}
		return "decide (" + l + " " + sym + " " + r + ")"
	}
	return t.fail("boolean %s", src(t.pk, e))
}

// cond: a condition for `if`.
func (t *ftrans) cond(e ast.Expr) string {
	return t.logic(e, !t.nativeBool(e))
}

// boolVal: a Bool value.
func (t *ftrans) boolVal(e ast.Expr) string {
	if t.nativeBool(e) {
		return t.logic(e, false)
	}
	return "decide (" + t.logic(e, true) + ")"
}

func (t *ftrans) exprOrBool(e ast.Expr) (string, fty) {
	if _, lg := isLogical(e); lg {
		return t.boolVal(e), tB
	}
	return t.expr(e)
}

// ---- statements -----------------------------------------------------------------------------

func indentAll(s string, n int) string {
	pad := strings.Repeat(" ", n)
	return pad + strings.ReplaceAll(s, "\n", "\n"+pad)
}

func letLine(pat, val, rest string) string {
	if strings.HasPrefix(pat, rest+" : ") { // let x : T := v; x
		return val
	}
	if strings.Contains(val, "\n") {
		return "let " + pat + " :=\n" + indentAll(val, 4) + "\n" + rest
	}
	return "let " + pat + " := " + val + "\n" + rest
}

func ite(c, a, b string) string {
	if !strings.Contains(a, "\n") && !strings.Contains(b, "\n") && len(c)+len(a)+len(b) < 90 && !strings.HasPrefix(b, "if ") {
		return "if " + c + " then " + a + " else " + b
	}
	if strings.HasPrefix(b, "if ") {
		return "if " + c + " then\n" + indentAll(a, 2) + "\nelse " + b
	}
	return "if " + c + " then\n" + indentAll(a, 2) + "\nelse\n" + indentAll(b, 2)
}

func (t *ftrans) copyVars() map[string]fty {
	m := map[string]fty{}
	for k, v := range t.vars {
		m[k] = v
	}
	return m
}

func mentions(n ast.Node, name string) bool {
	found := false
	ast.Inspect(n, func(x ast.Node) bool {
		if id, ok := x.(*ast.Ident); ok && id.Name == name {
			found = true
		}
		return !found
	})
	return found
}

func isPanic(s ast.Stmt) (string, bool) {
	es, ok := s.(*ast.ExprStmt)
	if !ok {
		return "", false
	}
	c, ok := es.X.(*ast.CallExpr)
	if !ok {
		return "", false
	}
	if id, ok := c.Fun.(*ast.Ident); !ok || id.Name != "panic" || len(c.Args) != 1 {
		return "", false
	}
	if l, ok := c.Args[0].(*ast.BasicLit); ok && l.Kind == token.STRING {
		return l.Value, true
	}
	return `"panic"`, true
}

// terminates: every path through the list ends in return / panic
func terminates(list []ast.Stmt) bool {
	if len(list) == 0 {
		return false
	}
	switch s := list[len(list)-1].(type) {
	case *ast.ReturnStmt:
		return true
	case *ast.BranchStmt:
		return s.Tok == token.CONTINUE && s.Label == nil
	case *ast.ExprStmt:
		_, p := isPanic(s)
		return p
	case *ast.BlockStmt:
		return terminates(s.List)
	case *ast.IfStmt:
		if s.Else == nil {
			return false
		}
		return terminates(s.Body.List) && terminates([]ast.Stmt{s.Else})
	}
	return false
}

func hasReturn(list []ast.Stmt) bool {
	found := false
	for _, s := range list {
		ast.Inspect(s, func(n ast.Node) bool {
			switch x := n.(type) {
			case *ast.ReturnStmt, *ast.BranchStmt:
				found = true
			case *ast.ExprStmt:
				if _, p := isPanic(x); p {
					found = true
				}
			case *ast.FuncLit:
				return false
			}
			return !found
		})
	}
	return found
}

// returnsIn: a `return` or a panic somewhere in the statements (not `continue`)
func returnsIn(list []ast.Stmt) bool {
	found := false
	for _, s := range list {
		ast.Inspect(s, func(n ast.Node) bool {
			switch x := n.(type) {
			case *ast.ReturnStmt:
				found = true
			case *ast.ExprStmt:
				if _, p := isPanic(x); p {
					found = true
				}
			case *ast.FuncLit:
				return false
			}
			return !found
		})
	}
	return found
}

// fassigned: outer variables (already declared) assigned somewhere in the statements, sorted.
// Variables declared inside the statements (possibly shadowing an outer one) do not count.
func (t *ftrans) fassigned(list []ast.Stmt) []string { return t.fassignedAt(list, 0) }

// fassignedAt: lvl0 = 1 when the statements are the body of a nested block (a loop body)
func (t *ftrans) fassignedAt(list []ast.Stmt, lvl0 int) []string {
	set := map[string]bool{}
	cp := func(m map[string]bool) map[string]bool {
		o := map[string]bool{}
		for k, v := range m {
			o[k] = v
		}
		return o
	}
	var walk func(list []ast.Stmt, local map[string]bool, lvl int)
	var stmt func(s ast.Stmt, local map[string]bool, lvl int)
	stmt = func(s ast.Stmt, local map[string]bool, lvl int) {
		switch st := s.(type) {
		case nil:
		case *ast.AssignStmt:
			for _, l := range st.Lhs {
				if id, ok := l.(*ast.Ident); ok && st.Tok == token.DEFINE {
					// a := of several variables re-uses those declared IN THE SAME SCOPE; those are
					// either local already or outer variables of the scope the list starts in
					if _, outer := t.vars[id.Name]; outer && !local[id.Name] && lvl == 0 && t.vars[id.Name].depth == t.depth && len(st.Lhs) > 1 {
						set[id.Name] = true
					} else {
						local[id.Name] = true
					}
				} else if id := rootIdent(l); id != nil && !local[id.Name] {
					set[id.Name] = true
				}
			}
		case *ast.IncDecStmt:
			if id := rootIdent(st.X); id != nil && !local[id.Name] {
				set[id.Name] = true
			}
		case *ast.DeclStmt:
			if gd, ok := st.Decl.(*ast.GenDecl); ok {
				for _, sp := range gd.Specs {
					if vs, ok := sp.(*ast.ValueSpec); ok {
						for _, n := range vs.Names {
							local[n.Name] = true
						}
					}
				}
			}
		case *ast.BlockStmt:
			walk(st.List, cp(local), lvl+1)
		case *ast.IfStmt:
			l := cp(local)
			stmt(st.Init, l, lvl+1)
			walk(st.Body.List, cp(l), lvl+1)
			stmt(st.Else, cp(l), lvl+1)
		case *ast.ForStmt:
			l := cp(local)
			stmt(st.Init, l, lvl+1)
			stmt(st.Post, l, lvl+1)
			walk(st.Body.List, cp(l), lvl+1)
		case *ast.RangeStmt:
			l := cp(local)
			for _, e := range []ast.Expr{st.Key, st.Value} {
				if id, ok := e.(*ast.Ident); ok {
					if st.Tok == token.DEFINE {
						l[id.Name] = true
					} else if !l[id.Name] {
						set[id.Name] = true
					}
				}
			}
			walk(st.Body.List, cp(l), lvl+1)
		case *ast.SwitchStmt:
			l := cp(local)
			stmt(st.Init, l, lvl+1)
			for _, c := range st.Body.List {
				if cc, ok := c.(*ast.CaseClause); ok {
					walk(cc.Body, cp(l), lvl+1)
				}
			}
		case *ast.ReturnStmt, *ast.ExprStmt, *ast.BranchStmt, *ast.EmptyStmt:
		default:
			// a statement outside the subset (the translation fails on it anyway): everything assigned counts
			ast.Inspect(s, func(n ast.Node) bool {
				switch a := n.(type) {
				case *ast.AssignStmt:
					for _, l := range a.Lhs {
						if id := rootIdent(l); id != nil {
							set[id.Name] = true
						}
					}
				case *ast.IncDecStmt:
					if id := rootIdent(a.X); id != nil {
						set[id.Name] = true
					}
				}
				return true
			})
		}
	}
	walk = func(list []ast.Stmt, local map[string]bool, lvl int) {
		for _, s := range list {
			stmt(s, local, lvl)
		}
	}
	walk(list, map[string]bool{}, lvl0)
	var out []string
	for k := range set {
		if _, ok := t.vars[k]; ok {
			out = append(out, k)
		}
	}
	sort.Strings(out)
	return out
}

func (t *ftrans) tupleOf(vs []string) string {
	if len(vs) == 0 {
		return "()"
	}
	if len(vs) == 1 {
		return t.ln(vs[0])
	}
	return "(" + strings.Join(t.lns(vs), ", ") + ")"
}

// bind produces the `let` pattern for the variables vs
func (t *ftrans) bindPat(vs []string) string {
	if len(vs) == 0 {
		return "_"
	}
	if len(vs) == 1 {
		return t.ln(vs[0]) + " : " + t.leanTy(t.vars[vs[0]])
	}
	return "(" + strings.Join(t.lns(vs), ", ") + ")"
}

func (t *ftrans) ret(results []ast.Expr) string {
	var rs []string
	if len(results) == 0 && len(t.namedResults) == len(t.retTys) && len(t.retTys) > 0 {
		// a bare return: the named results as they stand (not shadowed here: a shadowed one is a compile error in Go)
		for _, n := range t.namedResults {
			if ty, ok := t.vars[n]; !ok || ty.ln != "" {
				return t.fail("bare return with a shadowed result %s", n)
			}
			results = append(results, ast.NewIdent(n))
		}
	}
	if len(results) != len(t.retTys) {
		return t.fail("return arity")
	}
	for i, r := range results {
		want := t.retTys[i]
		if t.isNil(r) && isList(want) {
			rs = append(rs, "[]") // nil: the empty list
			continue
		}
		s, ty := t.exprOrBool(r)
		if isList(want) && !ty.nie {
			t.retNie = false
		}
		switch {
		case ty.k == fkUInt && (want.k == fkZ || (want.k == fkInt && t.intTy() == "Int")):
			s = "(" + s + " : Int)"
		case ty.k == want.k:
		case (want.k == fkFloat || want.k == fkInt) && fUnify(ty, want).k == want.k && (want.k != fkFloat || t.numOK(s, ty)):
		default:
			return t.fail("type of returned value %s", src(t.pk, r))
		}
		rs = append(rs, s)
	}
	v := rs[0]
	if len(rs) > 1 {
		v = "(" + strings.Join(rs, ", ") + ")"
	}
	switch t.spec.panicMode {
	case "option":
		v = "some " + par(v)
	case "res":
		v = ".ok " + par(v)
	}
	return t.wrap(t.take(), t.exit(v))
}

// store translates an assignment to `lhs` (identifier, p[0], b.Min, b.Min[0]) of the Lean value
// `val`; `cur` gives the current value of the left-hand side for op-assignments.
func (t *ftrans) store(lhs ast.Expr, mk func(cur string, curTy fty) (string, bool)) (pat, val string, ok bool) {
	cur, cty := t.expr(lhs)
	if t.err != "" {
		return "", "", false
	}
	nv, ok := mk(cur, cty)
	if !ok {
		return "", "", false
	}
	root := rootIdent(lhs)
	if root == nil {
		return "", "", false
	}
	rty := t.vars[root.Name]
	path := strings.TrimPrefix(cur, t.ln(root.Name))
	name := t.ln(root.Name)
	switch {
	case path == "":
		return name + " : " + t.leanTy(rty), nv, true
	case rty.k == fkPt && path == ".x":
		return name + " : Pt α", fmt.Sprintf("⟨%s, %s.y⟩", nv, name), true
	case rty.k == fkPt && path == ".y":
		return name + " : Pt α", fmt.Sprintf("⟨%s.x, %s⟩", name, nv), true
	case rty.k == fkTile && path == ".x":
		return name + " : Orb.Tile.Tile", fmt.Sprintf("⟨%s, %s.y, %s.z⟩", nv, name, name), true
	case rty.k == fkTile && path == ".y":
		return name + " : Orb.Tile.Tile", fmt.Sprintf("⟨%s.x, %s, %s.z⟩", name, nv, name), true
	case rty.k == fkTile && path == ".z":
		return name + " : Orb.Tile.Tile", fmt.Sprintf("⟨%s.x, %s.y, %s⟩", name, name, nv), true
	case rty.k == fkBound && path == ".lo":
		return name + " : Bound α", fmt.Sprintf("⟨%s, %s.hi⟩", nv, name), true
	case rty.k == fkBound && path == ".hi":
		return name + " : Bound α", fmt.Sprintf("⟨%s.lo, %s⟩", name, nv), true
	case rty.k == fkBound && path == ".lo.x":
		return name + " : Bound α", fmt.Sprintf("⟨⟨%s, %s.lo.y⟩, %s.hi⟩", nv, name, name), true
	case rty.k == fkBound && path == ".lo.y":
		return name + " : Bound α", fmt.Sprintf("⟨⟨%s.lo.x, %s⟩, %s.hi⟩", name, nv, name), true
	case rty.k == fkBound && path == ".hi.x":
		return name + " : Bound α", fmt.Sprintf("⟨%s.lo, ⟨%s, %s.hi.y⟩⟩", name, nv, name), true
	case rty.k == fkBound && path == ".hi.y":
		return name + " : Bound α", fmt.Sprintf("⟨%s.lo, ⟨%s.hi.x, %s⟩⟩", name, name, nv), true
	}
	return "", "", false
}

func (t *ftrans) assign(st *ast.AssignStmt, rest func() string) string {
	// a, b := f(…)   (a function with several results; `_` discards one)
	if len(st.Lhs) > 1 && len(st.Rhs) == 1 && (st.Tok == token.DEFINE || st.Tok == token.ASSIGN) {
		v, ty := t.expr(st.Rhs[0])
		if ty.k != fkTuple || len(ty.el) != len(st.Lhs) {
			return t.fail("assignment %s", src(t.pk, st))
		}
		pend := t.take()
		var names []string
		for i, l := range st.Lhs {
			id, ok := l.(*ast.Ident)
			if !ok {
				return t.fail("assignment %s", src(t.pk, st))
			}
			names = append(names, t.bindName(id.Name, ty.el[i], st.Tok == token.DEFINE, st))
		}
		if t.err != "" {
			return "unsupported"
		}
		return t.wrap(pend, letLine("("+strings.Join(names, ", ")+")", v, rest()))
	}
	if len(st.Lhs) != len(st.Rhs) {
		return t.fail("assignment %s", src(t.pk, st))
	}
	// tuple assignment  a, b = e1, e2  (all right-hand sides are evaluated first)
	if len(st.Lhs) > 1 {
		if st.Tok != token.DEFINE && st.Tok != token.ASSIGN {
			return t.fail("assignment %s", src(t.pk, st))
		}
		var ids, vals []string
		var tys []fty
		for i := range st.Lhs {
			id, ok := st.Lhs[i].(*ast.Ident)
			if !ok || id.Name == "_" {
				return t.fail("assignment %s", src(t.pk, st))
			}
			v, ty := t.exprOrBool(st.Rhs[i])
			ids, vals, tys = append(ids, id.Name), append(vals, v), append(tys, ty)
		}
		pend := t.take()
		var names, ltys []string
		for i, n := range ids {
			names = append(names, t.bindName(n, t.defTy(tys[i]), st.Tok == token.DEFINE, st))
			ltys = append(ltys, t.leanTy(t.vars[n]))
		}
		if t.err != "" {
			return "unsupported"
		}
		return t.wrap(pend, letLine("("+strings.Join(names, ", ")+")", "(("+strings.Join(vals, ", ")+") : "+strings.Join(ltys, " × ")+")", rest()))
	}
	lhs, rhs := st.Lhs[0], st.Rhs[0]
	if st.Tok == token.DEFINE {
		if id, ok := lhs.(*ast.Ident); ok {
			if m := t.closureCall(rhs); m != nil {
				// p := F(…), F returning a struct of closures: p stands for the partial applications of F's fields
				if _, exists := t.vars[id.Name]; exists || t.closures[id.Name] != nil || writes(t.body, id.Name+"\x00") || len(t.pending) != 0 {
					return t.fail("definition %s", src(t.pk, st))
				}
				n := 0
				ast.Inspect(t.body, func(x ast.Node) bool {
					if as, ok := x.(*ast.AssignStmt); ok {
						for _, l := range as.Lhs {
							if i, ok := l.(*ast.Ident); ok && i.Name == id.Name {
								n++
							}
						}
					}
					return true
				})
				if n != 1 {
					return t.fail("%s is assigned more than once", id.Name)
				}
				if t.closures == nil {
					t.closures = map[string]map[string]string{}
				}
				t.closures[id.Name] = m
				return rest()
			}
		}
	}
	if st.Tok == token.DEFINE {
		id, ok := lhs.(*ast.Ident)
		if !ok || id.Name == "_" {
			return t.fail("assignment %s", src(t.pk, st))
		}
		v, ty := t.exprOrBool(rhs)
		ty = t.defTy(ty)
		if ty.k == fkBad || ty.k == fkTuple {
			return t.fail("definition %s", src(t.pk, st))
		}
		pend := t.take()
		name := t.declare(id.Name, ty)
		if t.err != "" {
			return "unsupported"
		}
		return t.wrap(pend, letLine(name+" : "+t.leanTy(ty), v, rest()))
	}
	op := map[token.Token]token.Token{token.ADD_ASSIGN: token.ADD, token.SUB_ASSIGN: token.SUB, token.MUL_ASSIGN: token.MUL,
		token.QUO_ASSIGN: token.QUO, token.OR_ASSIGN: token.OR, token.AND_ASSIGN: token.AND}[st.Tok]
	if st.Tok != token.ASSIGN && op == 0 {
		return t.fail("assignment %s", src(t.pk, st))
	}
	if ix, isIx := lhs.(*ast.IndexExpr); isIx && st.Tok == token.ASSIGN {
		if id, ok := ix.X.(*ast.Ident); ok && t.vars[id.Name].k == fkTiles {
			// set[k] = true on a write-only maptile.Set: one more key
			k, kty := t.expr(ix.Index)
			if kty.k != fkTile || src(t.pk, rhs) != "true" || len(t.pending) != 0 {
				return t.fail("assignment %s", src(t.pk, st))
			}
			t.notes["set-as-list"] = true
			return letLine(t.ln(id.Name)+" : List Orb.Tile.Tile", par(t.ln(id.Name))+" ++ ["+k+"]", rest())
		}
		if id, ok := ix.X.(*ast.Ident); ok && isList(t.vars[id.Name]) {
			// xs[i] = e under `for i := range xs` (i is in range): the list with its i-th element replaced
			if !t.safeIdx[src(t.pk, lhs)] && t.spec.setTotal && t.spec.panicMode == "" {
				t.notes["set-total"] = true
			} else if !t.safeIdx[src(t.pk, lhs)] && t.spec.panicMode != "res" {
				return t.fail("assignment %s (an element is assigned only where the index is known to be in range, or in a \"res\" function)", src(t.pk, st))
			}
			lty := t.vars[id.Name]
			// Go evaluates the index and the right-hand side, then checks the index
			wasIn := t.inIndex
			t.inIndex = true
			i, ity := t.expr(ix.Index)
			t.inIndex = wasIn
			v, ty := t.exprOrBool(rhs)
			if ty.k != elemTy(lty).k && fUnify(ty, elemTy(lty)).k != elemTy(lty).k {
				return t.fail("assignment %s", src(t.pk, st))
			}
			if elemTy(lty).k == fkFloat && !t.numOK(v, ty) {
				return "unsupported"
			}
			if ity.k != fkInt && ity.k != fkUInt {
				return t.fail("assignment %s", src(t.pk, st))
			}
			if !t.safeIdx[src(t.pk, lhs)] && !(t.spec.setTotal && t.spec.panicMode == "") {
				if !t.indexGuard(ix, t.ln(id.Name), i) {
					return "unsupported"
				}
			}
			pend := t.take()
			t.notes["set-value"] = true
			return t.wrap(pend, letLine(t.ln(id.Name)+" : "+t.leanTy(lty), par(t.ln(id.Name))+".set "+par(i)+" "+par(v), rest()))
		}
	}
	np := len(t.pending)
	pat, val, ok := t.store(lhs, func(cur string, cty fty) (string, bool) {
		if len(t.pending) != np {
			return "", false // a panicking operation on the left-hand side
		}
		if st.Tok == token.ASSIGN {
			v, ty := t.exprOrBool(rhs)
			if ty.k != cty.k && fUnify(ty, cty).k != cty.k {
				return "", false
			}
			if cty.k == fkFloat && !t.numOK(v, ty) {
				return "", false
			}
			return v, true
		}
		// x op= e   is   x = x op (e)
		v, ty := t.expr(&ast.BinaryExpr{X: lhs, Op: op, Y: &ast.ParenExpr{X: rhs}})
		return v, ty.k == cty.k
	})
	if !ok {
		return t.fail("assignment %s", src(t.pk, st))
	}
	pend := t.take()
	return t.wrap(pend, letLine(pat, val, rest()))
}

// bindName: the Lean name bound by one left-hand side of a multiple assignment / definition
func (t *ftrans) bindName(name string, ty fty, define bool, st ast.Stmt) string {
	if name == "_" {
		return "_"
	}
	old, exists := t.vars[name]
	if define && !(exists && old.depth == t.depth) {
		return t.declare(name, ty)
	}
	// an assignment (a := re-uses the variables already declared in the same scope)
	if !exists || old.k != ty.k {
		t.fail("assignment %s", src(t.pk, st))
	}
	return t.ln(name)
}

func (t *ftrans) defTy(ty fty) fty {
	switch ty.k {
	case fkUInt:
		return tI
	case fkUFloat:
		return tF
	}
	return ty
}

// block translates a statement list; k is the Lean term for "falling off the end" ("" = must not).
func (t *ftrans) block(list []ast.Stmt, k string) string {
	if t.err != "" {
		return "unsupported"
	}
	if len(t.pending) != 0 {
		return t.fail("internal: panicking operations were not placed")
	}
	if len(list) == 0 {
		if k == "" {
			return t.fail("missing return")
		}
		return k
	}
	s, tail := list[0], list[1:]
	rest := func() string { return t.block(tail, k) }
	if msg, ok := isPanic(s); ok {
		switch t.spec.panicMode {
		case "option":
			if t.inRetLoop {
				return t.exit("none")
			}
			return "none"
		case "res":
			return t.exit(".panic " + msg)
		}
		return t.fail("panic in a function that must not panic")
	}
	switch st := s.(type) {
	case *ast.ReturnStmt:
		if t.spec.prefixUntil != "" {
			return t.fail("return inside the translated prefix")
		}
		if t.loopK != "" && !t.inRetLoop {
			return t.fail("internal: return inside a plain loop")
		}
		return t.ret(st.Results)
	case *ast.BranchStmt:
		if st.Tok == token.CONTINUE && st.Label == nil && t.loopK != "" {
			return t.loopK
		}
		return t.fail("statement %s", src(t.pk, s))
	case *ast.EmptyStmt:
		if t.scopeEnd[st] {
			t.depth-- // (restored by the branch this stands in)
		}
		return rest()
	case *ast.BlockStmt:
		// a nested block is flattened into its continuation: it must not declare anything the
		// continuation could confuse with an outer variable
		for _, in := range st.List {
			for _, n := range declaredBy(in) {
				if _, outer := t.vars[n]; outer {
					return t.fail("a nested block declares %s again", n)
				}
				for _, after := range tail {
					if mentions(after, n) {
						return t.fail("a nested block declares %s, which is used after it", n)
					}
				}
			}
		}
		return t.block(append(append([]ast.Stmt{}, st.List...), tail...), k)
	case *ast.AssignStmt:
		return t.assign(st, rest)
	case *ast.IncDecStmt:
		one := &ast.BasicLit{Kind: token.INT, Value: "1"}
		tok := token.ADD_ASSIGN
		if st.Tok == token.DEC {
			tok = token.SUB_ASSIGN
		}
		return t.assign(&ast.AssignStmt{Lhs: []ast.Expr{st.X}, Tok: tok, Rhs: []ast.Expr{one}}, rest)
	case *ast.DeclStmt:
		gd, ok := st.Decl.(*ast.GenDecl)
		if !ok || gd.Tok != token.VAR {
			return t.fail("declaration")
		}
		out := ""
		for _, sp := range gd.Specs {
			vs := sp.(*ast.ValueSpec)
			if vs.Type == nil && len(vs.Values) == len(vs.Names) && len(vs.Names) == 1 {
				// var x = e   (as x := e)
				v, ty := t.exprOrBool(vs.Values[0])
				ty = t.defTy(ty)
				if ty.k == fkBad || ty.k == fkTuple || len(t.pending) != 0 {
					return t.fail("declaration %s", src(t.pk, st))
				}
				name := t.declare(vs.Names[0].Name, ty)
				out += "let " + name + " : " + t.leanTy(ty) + " := " + v + "\n"
				continue
			}
			if len(vs.Values) != 0 || vs.Type == nil {
				return t.fail("declaration %s", src(t.pk, st))
			}
			ty := fgoTy(vs.Type)
			zero := map[fkind]string{fkFloat: "0", fkInt: "0", fkBool: "false", fkPt: "⟨0, 0⟩", fkPts: "[]", fkPtss: "[]", fkPtsss: "[]", fkFs: "[]"}[ty.k]
			if zero == "" {
				return t.fail("declaration %s", src(t.pk, st))
			}
			ty.nie = isList(ty) // (a nil slice)
			for _, n := range vs.Names {
				name := t.declare(n.Name, ty)
				out += "let " + name + " : " + t.leanTy(ty) + " := " + zero + "\n"
			}
		}
		return out + rest()
	case *ast.IfStmt:
		return t.ifStmt(st, tail, k)
	case *ast.SwitchStmt:
		return t.switchStmt(st, tail, k)
	case *ast.ForStmt:
		return t.forStmt(st, rest)
	case *ast.RangeStmt:
		return t.rangeStmt(st, rest)
	}
	return t.fail("statement %s", strings.SplitN(src(t.pk, s), "\n", 2)[0])
}

// writes: the name is assigned, declared, incremented or has its address taken somewhere in the node
func writes(n ast.Node, name string) bool {
	found := false
	is := func(e ast.Expr) {
		if id := rootIdent(e); id != nil && id.Name == name {
			found = true
		}
	}
	ast.Inspect(n, func(x ast.Node) bool {
		switch st := x.(type) {
		case *ast.AssignStmt:
			for _, l := range st.Lhs {
				is(l)
			}
		case *ast.IncDecStmt:
			is(st.X)
		case *ast.ValueSpec:
			for _, id := range st.Names {
				if id.Name == name {
					found = true
				}
			}
		case *ast.RangeStmt:
			if st.Key != nil {
				is(st.Key)
			}
			if st.Value != nil {
				is(st.Value)
			}
		case *ast.UnaryExpr:
			if st.Op == token.AND {
				is(st.X)
			}
		case *ast.FuncLit:
			for _, f := range st.Type.Params.List {
				for _, id := range f.Names {
					if id.Name == name {
						found = true
					}
				}
			}
		}
		return !found
	})
	return found
}

// onlyElemWrites: the node writes to xs, and only by statements `xs[i] = e`
func onlyElemWrites(pk *pkgFiles, n ast.Node, xs, i string) bool {
	good, other := 0, false
	ast.Inspect(n, func(x ast.Node) bool {
		if as, ok := x.(*ast.AssignStmt); ok && as.Tok == token.ASSIGN && len(as.Lhs) == 1 {
			if ix, ok := as.Lhs[0].(*ast.IndexExpr); ok && (src(pk, ix) == xs+"["+i+"]" || (i == "*" && src(pk, ix.X) == xs && !mentions(ix.Index, xs))) {
				good++
				// the rest of the statement must not write xs
				if writes(as.Rhs[0], xs) {
					other = true
				}
				return false
			}
		}
		switch st := x.(type) {
		case *ast.AssignStmt, *ast.IncDecStmt, *ast.ValueSpec, *ast.RangeStmt, *ast.UnaryExpr, *ast.FuncLit:
			if writes(st, xs) {
				other = true
			}
		}
		return true
	})
	return good > 0 && !other
}

// declaredBy: the names a statement declares in the scope it stands in
func declaredBy(s ast.Stmt) []string {
	var out []string
	switch st := s.(type) {
	case *ast.AssignStmt:
		if st.Tok == token.DEFINE {
			for _, l := range st.Lhs {
				if id, ok := l.(*ast.Ident); ok && id.Name != "_" {
					out = append(out, id.Name)
				}
			}
		}
	case *ast.DeclStmt:
		if gd, ok := st.Decl.(*ast.GenDecl); ok {
			for _, sp := range gd.Specs {
				if vs, ok := sp.(*ast.ValueSpec); ok {
					for _, n := range vs.Names {
						out = append(out, n.Name)
					}
				}
			}
		}
	}
	return out
}

func elseList(st *ast.IfStmt) []ast.Stmt {
	switch e := st.Else.(type) {
	case *ast.BlockStmt:
		return e.List
	case *ast.IfStmt:
		return []ast.Stmt{e}
	}
	return nil
}

func (t *ftrans) ifStmt(st *ast.IfStmt, tail []ast.Stmt, k string) string {
	if st.Init != nil {
		as, ok := st.Init.(*ast.AssignStmt)
		if !ok || as.Tok != token.DEFINE {
			return t.fail("if-init %s", src(t.pk, st.Init))
		}
		for _, l := range as.Lhs {
			id, ok := l.(*ast.Ident)
			if !ok {
				return t.fail("if-init")
			}
			if id.Name == "_" {
				continue
			}
			if _, shadow := t.vars[id.Name]; shadow {
				return t.fail("if-init shadows %s", id.Name)
			}
			for _, s := range tail {
				if mentions(s, id.Name) {
					return t.fail("if-init variable %s is reused after the if", id.Name)
				}
			}
		}
		plain := *st
		plain.Init = nil
		return t.assign(as, func() string { return t.ifStmt(&plain, tail, k) })
	}
	c := t.cond(st.Cond)
	pend := t.take()
	body, els := st.Body.List, elseList(st)
	saved := t.copyVars()
	depth := t.depth
	nonEmpty := "" // a slice variable known to be non-empty (hence not nil) in the next branch
	branch := func(list []ast.Stmt, k string) string {
		t.vars = copyF(saved)
		if v, ok := t.vars[nonEmpty]; ok && nonEmpty != "" && isList(v) {
			v.nie = true
			t.vars[nonEmpty] = v
		}
		nonEmpty = ""
		t.depth = depth + 1
		defer func() { t.vars = saved; t.depth = depth }()
		return t.block(list, k)
	}
	// the statements after the if, continued inside one of its branches: they stand in the outer scope,
	// so a branch that declares (shadows) something they mention cannot be continued this way
	branchThen := func(list, after []ast.Stmt, k string) string {
		if len(after) > 0 {
			for _, in := range list {
				for _, n := range declaredBy(in) {
					for _, a := range after {
						if mentions(a, n) {
							return t.fail("a branch declares %s, which is used after the if", n)
						}
					}
				}
			}
		}
		// (the marker ends the branch's scope: what follows is translated at the outer depth)
		mark := &ast.EmptyStmt{}
		t.scopeEnd[mark] = true
		return branch(append(append(append([]ast.Stmt{}, list...), mark), after...), k)
	}
	restAfter := func() string {
		t.vars = saved
		return t.block(tail, k)
	}
	switch {
	case terminates(body):
		// if c { …return } [else {A}] ; rest      =>  if c then … else (A; rest)
		a := branch(body, "")
		nonEmpty = lenIsZero(st.Cond) // if len(x) == 0 { …return }: x is not empty from here on
		b := branchThen(els, tail, k)
		return t.wrap(pend, ite(c, a, b))
	case els != nil && terminates(els):
		a := branchThen(body, tail, k)
		b := branch(els, "")
		return t.wrap(pend, ite(c, a, b))
	case !hasReturn(body) && !hasReturn(els):
		// a purely assigning if: bind the assigned variables to the value of an if-expression
		vs := t.fassigned([]ast.Stmt{st})
		if len(vs) == 0 {
			return t.fail("if without effect: %s", src(t.pk, st.Cond))
		}
		tup := t.tupleOf(vs)
		a := branch(body, tup)
		b := branch(els, tup)
		if len(tail) == 0 && k == tup {
			return t.wrap(pend, ite(c, a, b))
		}
		return t.wrap(pend, letLine(t.bindPat(vs), ite(c, a, b), restAfter()))
	default:
		// mixed: some paths return, some fall through (possibly after assignments).
		// The continuation becomes a local join point taking the assigned variables.
		if len(tail) == 0 && k != "" && !strings.Contains(k, "\n") {
			// nothing follows the if: both branches continue with k itself (k names the variables
			// current at the point where it is pasted; shadowing declarations get fresh names)
			return t.wrap(pend, ite(c, branch(body, k), branch(els, k)))
		}
		vs := t.fassigned([]ast.Stmt{st})
		t.nk++
		kn := fmt.Sprintf("k_%d", t.nk)
		var binder, callK string
		if len(vs) == 0 {
			binder, callK = "(_ : Unit)", kn+" ()"
		} else {
			for _, v := range vs {
				binder += fmt.Sprintf("(%s : %s) ", t.ln(v), t.leanTy(saved[v]))
			}
			binder = strings.TrimSpace(binder)
			callK = kn + " " + strings.Join(t.lns(vs), " ")
		}
		if k == "" && len(tail) == 0 {
			return t.fail("missing return after if")
		}
		a := branch(body, callK)
		b := branch(els, callK)
		r := restAfter()
		return t.wrap(pend, "let "+kn+" := fun "+binder+" =>\n"+indentAll(r, 4)+"\n"+ite(c, a, b))
	}
}

// lenIsZero: the condition `len(x) == 0` for an identifier x ("" otherwise)
func lenIsZero(e ast.Expr) string {
	b, ok := e.(*ast.BinaryExpr)
	if !ok || b.Op != token.EQL {
		return ""
	}
	c, ok := b.X.(*ast.CallExpr)
	z, ok2 := b.Y.(*ast.BasicLit)
	if !ok || !ok2 || z.Value != "0" || len(c.Args) != 1 {
		return ""
	}
	if f, ok := c.Fun.(*ast.Ident); !ok || f.Name != "len" {
		return ""
	}
	if id, ok := c.Args[0].(*ast.Ident); ok {
		return id.Name
	}
	return ""
}

// the predeclared / package names the translator gives a meaning to: a function that declares one of
// them (or a package that does) is outside the subset
var specialNames = map[string]bool{"len": true, "append": true, "nil": true, "float64": true, "panic": true, "true": true,
	"false": true, "math": true, "orb": true, "int": true, "bool": true}

func declaresSpecial(pk *pkgFiles, fd *ast.FuncDecl) string {
	found := ""
	note := func(id *ast.Ident) {
		if id != nil && specialNames[id.Name] && found == "" {
			found = id.Name
		}
	}
	fields := func(fl *ast.FieldList) {
		if fl != nil {
			for _, f := range fl.List {
				for _, n := range f.Names {
					note(n)
				}
			}
		}
	}
	fields(fd.Recv)
	fields(fd.Type.Params)
	fields(fd.Type.Results)
	ast.Inspect(fd.Body, func(n ast.Node) bool {
		switch st := n.(type) {
		case *ast.AssignStmt:
			if st.Tok == token.DEFINE {
				for _, l := range st.Lhs {
					if id, ok := l.(*ast.Ident); ok {
						note(id)
					}
				}
			}
		case *ast.ValueSpec:
			for _, id := range st.Names {
				note(id)
			}
		case *ast.TypeSpec:
			note(st.Name)
		case *ast.RangeStmt:
			if st.Tok == token.DEFINE {
				for _, e := range []ast.Expr{st.Key, st.Value} {
					if id, ok := e.(*ast.Ident); ok {
						note(id)
					}
				}
			}
		case *ast.FuncLit:
			fields(st.Type.Params)
			fields(st.Type.Results)
		case *ast.LabeledStmt:
			note(st.Label)
		}
		return true
	})
	// package level (imports are fine: math, orb are meant to be the packages)
	for _, f := range pk.files {
		for _, d := range f.Decls {
			switch dd := d.(type) {
			case *ast.FuncDecl:
				if dd.Recv == nil {
					note(dd.Name)
				}
			case *ast.GenDecl:
				for _, sp := range dd.Specs {
					switch x := sp.(type) {
					case *ast.ValueSpec:
						for _, id := range x.Names {
							note(id)
						}
					case *ast.TypeSpec:
						note(x.Name)
					}
				}
			}
		}
	}
	return found
}

func copyF(m map[string]fty) map[string]fty {
	o := map[string]fty{}
	for k, v := range m {
		o[k] = v
	}
	return o
}

// switch x { case c: …return }  =>  if x == c then … else …
func (t *ftrans) switchStmt(st *ast.SwitchStmt, tail []ast.Stmt, k string) string {
	if st.Init != nil || st.Tag == nil {
		return t.fail("switch shape")
	}
	tag, tty := t.expr(st.Tag)
	if tty.k != fkInt {
		return t.fail("switch tag %s", src(t.pk, st.Tag))
	}
	if len(t.pending) != 0 {
		return t.fail("a panicking operation in a switch tag")
	}
	type arm struct{ c, body string }
	var arms []arm
	for _, cs := range st.Body.List {
		cc := cs.(*ast.CaseClause)
		if len(cc.List) != 1 || !terminates(cc.Body) {
			return t.fail("switch case shape")
		}
		v, vt := t.expr(cc.List[0])
		if fUnify(vt, tI).k != fkInt {
			return t.fail("switch case value")
		}
		if len(t.pending) != 0 {
			return t.fail("a panicking operation in a case value")
		}
		saved := t.copyVars()
		t.depth++
		b := t.block(cc.Body, "")
		t.depth--
		t.vars = saved
		arms = append(arms, arm{par(tag) + " == " + par(v), b})
	}
	out := t.block(tail, k)
	for i := len(arms) - 1; i >= 0; i-- {
		out = ite(arms[i].c, arms[i].body, out)
	}
	return out
}

// ---- loops ----------------------------------------------------------------------------------
//
// A loop becomes a fold over a list whose state is the tuple of the outer variables its body
// assigns.  A body without `return` (and, in a "res" function, without panicking operations)
// becomes `List.foldl` / `foldPairs`; a body that may return becomes `foldlRet` / `foldPairsRet`
// (Orb.LoopForms): the step function answers `Sum.inl r` for `return r` and `Sum.inr state` at
// the end of the body (and at `continue`).  No `break`, no labels, no nested loops.

type floop struct {
	pairs   bool   // foldPairs / foldPairsRet instead of List.foldl / foldlRet
	binders string // the element binder(s) of the step function
	list    string // the Lean list the loop runs over
	prelude string // let-lines in front of the body
	xs      string // Go name of the slice
	// for i := range xs: the body's only writes to xs are xs[i] = e (the slice is then part of the state;
	// its length does not change)
	elemWrites bool
}

// checkLoopBody: no nested loops, closures, break, goto
func (t *ftrans) checkLoopBody(body *ast.BlockStmt) string {
	bad := ""
	ast.Inspect(body, func(n ast.Node) bool {
		switch x := n.(type) {
		case *ast.BranchStmt:
			if x.Tok != token.CONTINUE || x.Label != nil {
				bad = "control flow inside the loop"
			}
		case *ast.ForStmt, *ast.RangeStmt, *ast.FuncLit, *ast.SwitchStmt, *ast.TypeSwitchStmt, *ast.SelectStmt, *ast.GoStmt, *ast.DeferStmt, *ast.LabeledStmt:
			bad = "control flow inside the loop"
		}
		return bad == ""
	})
	return bad
}

// emitLoop translates the body (setup declares the loop's own variables) and builds the fold.
func (t *ftrans) emitLoop(body *ast.BlockStmt, lp floop, setup func(), rest func() string) string {
	if t.loopK != "" {
		return t.fail("nested loop")
	}
	if len(t.pending) != 0 {
		return t.fail("a panicking operation in a loop header")
	}
	vs := t.fassignedAt(body.List, 1)
	for _, v := range vs {
		if v == lp.xs && !lp.elemWrites {
			return t.fail("loop assigns the slice")
		}
	}
	needRet := returnsIn(body.List)
	if len(vs) == 0 && !needRet {
		return t.fail("loop without effect")
	}
	saved := t.copyVars()
	oldSubst, oldSafe := t.subst, t.safeIdx
	state := t.tupleOf(vs)
	var binder string
	switch len(vs) {
	case 0:
		binder = "(_ : Unit)"
	case 1:
		binder = "(" + t.ln(vs[0]) + " : " + t.leanTy(t.vars[vs[0]]) + ")"
	default:
		var tys []string
		for _, v := range vs {
			tys = append(tys, t.leanTy(t.vars[v]))
		}
		binder = "((" + strings.Join(t.lns(vs), ", ") + ") : " + strings.Join(tys, " × ") + ")"
	}
	run := func(ret bool) string {
		t.vars = copyF(saved)
		t.depth++
		setup()
		t.inRetLoop, t.plainLoop, t.plainPend = ret, !ret, false
		if ret {
			t.loopK = "Sum.inr " + state
		} else {
			t.loopK = state
		}
		b := t.block(body.List, t.loopK)
		t.loopK, t.inRetLoop, t.plainLoop = "", false, false
		t.depth--
		t.vars, t.subst, t.safeIdx = saved, oldSubst, oldSafe
		return b
	}
	b := run(needRet)
	if !needRet && t.plainPend {
		needRet = true
		b = run(true)
	}
	if t.err != "" {
		return "unsupported"
	}
	b = lp.prelude + b
	if !needRet {
		var val string
		if lp.pairs {
			val = "foldPairs (fun " + binder + " " + lp.binders + " =>\n" + indentAll(b, 4) + ")\n  " + lp.list + " " + state
		} else {
			val = "List.foldl (fun " + binder + " " + lp.binders + " =>\n" + indentAll(b, 4) + ")\n  " + state + " " + lp.list
		}
		return letLine(t.bindPat(vs), val, rest())
	}
	fn := "foldlRet"
	if lp.pairs {
		fn = "foldPairsRet"
	}
	pat := t.tupleOf(vs)
	if len(vs) == 0 {
		pat = "_"
	}
	return "(match " + fn + " (ρ := " + t.retLean() + ") (fun " + binder + " " + lp.binders + " =>\n" + indentAll(b, 4) + ")\n  " + lp.list + " " + state +
		" with\n| .inl ret_ => " + t.exit("ret_") + "\n| .inr " + pat + " =>\n" + indentAll(rest(), 4) + ")"
}

// for i := lo; i < len(xs)-k; i++ { … xs[i+c] … [xs[i+c+1]] … }
//
//	one index:  every element of xs.drop (lo+c)          (k = c)
//	two:        every consecutive pair of xs.drop (lo+c) (k = c+1)
func (t *ftrans) forStmt(st *ast.ForStmt, rest func() string) string {
	init, ok := st.Init.(*ast.AssignStmt)
	if !ok || init.Tok != token.DEFINE || len(init.Lhs) != 1 || len(init.Rhs) != 1 {
		return t.fail("loop init")
	}
	ivId, ok := init.Lhs[0].(*ast.Ident)
	if !ok {
		return t.fail("loop init")
	}
	iv := ivId.Name
	loLit, ok := init.Rhs[0].(*ast.BasicLit)
	if !ok || loLit.Kind != token.INT {
		return t.fail("loop start")
	}
	lo, err := strconv.Atoi(loLit.Value)
	if err != nil {
		return t.fail("loop start")
	}
	if inc, ok := st.Post.(*ast.IncDecStmt); !ok || inc.Tok != token.INC || src(t.pk, inc.X) != iv {
		return t.fail("loop step")
	}
	cnd, ok := st.Cond.(*ast.BinaryExpr)
	if !ok || cnd.Op != token.LSS || src(t.pk, cnd.X) != iv {
		return t.fail("loop condition")
	}
	// bound: len(xs) or len(xs)-k
	bound, kk := cnd.Y, 0
	if b, ok := bound.(*ast.BinaryExpr); ok && b.Op == token.SUB {
		l, ok := b.Y.(*ast.BasicLit)
		if !ok || l.Kind != token.INT {
			return t.fail("loop bound")
		}
		kk, err = strconv.Atoi(l.Value)
		if err != nil {
			return t.fail("loop bound")
		}
		bound = b.X
	}
	call, ok := bound.(*ast.CallExpr)
	if !ok || src(t.pk, call.Fun) != "len" || len(call.Args) != 1 {
		return t.fail("loop bound")
	}
	xsId, ok := call.Args[0].(*ast.Ident)
	if !ok || !isList(t.vars[xsId.Name]) {
		return t.fail("loop bound")
	}
	if _, isVar := t.vars["len"]; isVar {
		return t.fail("loop bound")
	}
	xs := xsId.Name
	// every use of xs and of i inside the body
	offsets := map[int]string{}
	bad := t.checkLoopBody(st.Body)
	var scan func(n ast.Node) bool
	scan = func(n ast.Node) bool {
		switch x := n.(type) {
		case *ast.IndexExpr:
			if id, ok := x.X.(*ast.Ident); ok && id.Name == xs {
				off, ok := 0, false
				switch ix := x.Index.(type) {
				case *ast.Ident:
					ok = ix.Name == iv
				case *ast.BinaryExpr:
					if l, isId := ix.X.(*ast.Ident); isId && l.Name == iv {
						if c, isLit := ix.Y.(*ast.BasicLit); isLit && c.Kind == token.INT {
							off, _ = strconv.Atoi(c.Value)
							if ix.Op == token.SUB {
								off, ok = -off, true
							} else if ix.Op == token.ADD {
								ok = true
							}
						}
					}
				}
				if !ok {
					bad = "index " + src(t.pk, x)
					return false
				}
				offsets[off] = src(t.pk, x)
				return false
			}
		case *ast.Ident:
			if x.Name == xs {
				bad = "the slice is used other than by xs[i+c]"
			}
			if x.Name == iv {
				bad = "the loop counter is used other than as an index"
			}
		}
		return bad == ""
	}
	if bad == "" {
		ast.Inspect(st.Body, scan)
		if bad != "" {
			// the counter or the slice is used in other ways: the loop over the indices
			return t.forIndexLoop(st, xs, iv, lo, kk, rest)
		}
	}
	if bad != "" {
		return t.fail("loop body: %s", bad)
	}
	var offs []int
	for o := range offsets {
		offs = append(offs, o)
	}
	sort.Ints(offs)
	el := elemTy(t.vars[xs])
	elT := t.leanTy(el)
	var lp floop
	var sub map[string]fsub
	switch {
	case len(offs) == 1:
		c := offs[0]
		if kk != c || lo+c < 0 {
			return t.fail("loop range does not match the index used")
		}
		lp = floop{binders: "(x_ : " + elT + ")", xs: xs}
		sub = map[string]fsub{offsets[c]: {"x_", el}}
	case len(offs) == 2 && offs[1] == offs[0]+1:
		c := offs[0]
		if kk != c+1 || lo+c < 0 {
			return t.fail("loop range does not match the indices used")
		}
		lp = floop{pairs: true, binders: "(p_ q_ : " + elT + ")", xs: xs}
		sub = map[string]fsub{offsets[c]: {"p_", el}, offsets[c+1]: {"q_", el}}
	default:
		return t.fail("loop visits neither single elements nor consecutive pairs")
	}
	lp.list = t.ln(xs)
	if lo+offs[0] > 0 {
		lp.list = fmt.Sprintf("(%s.drop %d)", t.ln(xs), lo+offs[0])
	}
	setup := func() {
		t.subst = sub
		for _, v := range sub {
			t.vars[v.v] = fty{k: v.ty.k, name: v.ty.name, depth: t.depth}
		}
		delete(t.vars, xs)
		delete(t.vars, iv)
	}
	return t.emitLoop(st.Body, lp, setup, rest)
}

// for i := lo; i < len(xs)-k; i++ { … i … }  with the counter used freely (other slices indexed by it, …):
// a fold over the indices lo, …, len(xs)-k-1 = List.range' lo (xs.length - (k+lo)) (none when len(xs)-k <= lo:
// the truncated subtraction); xs[i], …, xs[i+k] are in range, any other index is checked ("res") or total.
func (t *ftrans) forIndexLoop(st *ast.ForStmt, xs, iv string, lo, kk int, rest func() string) string {
	if t.intTy() != "Nat" || lo < 0 || kk < 0 {
		return t.fail("loop over the indices in an Int function")
	}
	for _, n := range []string{xs, iv} {
		if writes(st.Body, n) {
			return t.fail("loop body: %s is assigned or declared inside the loop", n)
		}
	}
	lp := floop{list: fmt.Sprintf("(List.range' %d (%s.length - %d))", lo, par(t.ln(xs)), kk+lo)}
	setup := func() {
		t.declare(iv, tI)
		safe := map[string]bool{xs + "[" + iv + "]": true}
		for c := 1; c <= kk; c++ {
			safe[fmt.Sprintf("%s[%s+%d]", xs, iv, c)] = true
		}
		t.safeIdx = safe
	}
	saved := t.copyVars()
	t.depth++
	setup()
	lp.binders = "(" + t.ln(iv) + " : Nat)"
	t.depth--
	t.vars = saved
	t.safeIdx = nil
	t.notes["range-index"] = true
	return t.emitLoop(st.Body, lp, setup, rest)
}

// for _, x := range xs { … }        =>  a fold over xs
// for i := range xs / for i, x := …  =>  a fold over List.range xs.length, reading xs.getD i
func (t *ftrans) rangeStmt(st *ast.RangeStmt, rest func() string) string {
	if st.Tok != token.DEFINE || st.Key == nil {
		return t.fail("range loop shape")
	}
	key, ok := st.Key.(*ast.Ident)
	xsId, ok2 := st.X.(*ast.Ident)
	if !ok || !ok2 || !isList(t.vars[xsId.Name]) {
		return t.fail("range loop shape")
	}
	val := "_"
	if st.Value != nil {
		v, ok := st.Value.(*ast.Ident)
		if !ok {
			return t.fail("range loop shape")
		}
		val = v.Name
	}
	if bad := t.checkLoopBody(st.Body); bad != "" {
		return t.fail("loop body: %s", bad)
	}
	xs := xsId.Name
	xsL := t.ln(xs)
	el := elemTy(t.vars[xs])
	elT := t.leanTy(el)
	// the body neither assigns nor declares again the slice, the index, the element
	elemWrites := false
	for _, n := range []string{xs, key.Name, val} {
		if n == xs && key.Name != "_" && (onlyElemWrites(t.pk, st.Body, xs, key.Name) || (t.spec.setTotal && onlyElemWrites(t.pk, st.Body, xs, "*"))) {
			elemWrites = true
			continue
		}
		if n != "_" && (writes(st.Body, n) || n == "len") {
			return t.fail("loop body: %s is assigned or declared inside the loop", n)
		}
	}
	if key.Name == "_" {
		if val == "_" {
			return t.fail("range loop shape")
		}
		// the element only: the body must not look at the slice
		if mentions(st.Body, xs) {
			return t.fail("loop body: the slice is used inside the loop")
		}
		lp := floop{xs: xs, list: xsL}
		setup := func() {
			lp.binders = "(" + t.declare(val, el) + " : " + elT + ")"
		}
		// (the binder text is needed before the body is translated: declare once to learn the name)
		saved := t.copyVars()
		t.depth++
		setup()
		t.depth--
		t.vars = saved
		return t.emitLoop(st.Body, lp, func() { t.declare(val, el) }, rest)
	}
	if t.intTy() != "Nat" {
		return t.fail("range loop with an index in an Int function")
	}
	lp := floop{xs: xs, list: "(List.range " + par(xsL) + ".length)", elemWrites: elemWrites}
	get := fmt.Sprintf("(%s.getD %%s %s)", par(xsL), zeroOf(el))
	setup := func() {
		i := t.declare(key.Name, tI)
		t.safeIdx = map[string]bool{xs + "[" + key.Name + "]": true}
		if val != "_" {
			t.declare(val, el)
		}
		_ = i
	}
	saved := t.copyVars()
	t.depth++
	setup()
	iL := t.ln(key.Name)
	lp.binders = "(" + iL + " : Nat)"
	if val != "_" {
		lp.prelude = "let " + t.ln(val) + " : " + elT + " := " + fmt.Sprintf(get, iL) + "\n"
	}
	t.depth--
	t.vars = saved
	t.safeIdx = nil
	t.notes["range-index"] = true
	return t.emitLoop(st.Body, lp, setup, rest)
}

// ---------------------------------------------------------------------------------------------

type floatSummary struct {
	Translated map[string][]string          `json:"translated"`
	Unresolved map[string]string            `json:"unresolved"`
	Notes      map[string]map[string]string `json:"notes"`
}

func (t *ftrans) translate(fd *ast.FuncDecl, qual string) (def string, sg *fsig) {
	var params []string
	var ptys []fty
	drop := map[string]bool{}
	for _, d := range t.spec.dropParams {
		drop[d] = true
	}
	addParam := func(name string, te ast.Expr) {
		if drop[name] {
			return
		}
		ty := fgoTy(te)
		if ty.k == fkBad {
			t.fail("parameter type %s", src(t.pk, te))
			return
		}
		if name == "_" {
			t.fail("unnamed parameter")
			return
		}
		ptys = append(ptys, ty)
		params = append(params, fmt.Sprintf("(%s : %s)", t.declare(name, ty), t.leanTy(ty)))
	}
	t.body = fd.Body
	t.scopeEnd = map[*ast.EmptyStmt]bool{}
	t.nieTrust = nieScan(fd.Body)
	t.retNie = true
	if n := declaresSpecial(t.pk, fd); n != "" {
		t.fail("%s is declared again", n)
	}
	if fd.Type.Params != nil {
		for _, p := range fd.Type.Params.List {
			if _, variadic := p.Type.(*ast.Ellipsis); variadic {
				t.fail("variadic parameter")
			}
			if len(p.Names) == 0 {
				t.fail("unnamed parameter")
			}
		}
	}
	if fd.Recv != nil && len(fd.Recv.List[0].Names) == 1 {
		addParam(fd.Recv.List[0].Names[0].Name, fd.Recv.List[0].Type)
	}
	for _, p := range fd.Type.Params.List {
		for _, n := range p.Names {
			addParam(n.Name, p.Type)
		}
	}
	stmts := fd.Body.List
	if t.spec.typeCase != "" {
		stmts = nil
		found := false
		for _, s := range fd.Body.List {
			ts, ok := s.(*ast.TypeSwitchStmt)
			if !ok {
				continue
			}
			as, ok := ts.Assign.(*ast.AssignStmt)
			if !ok || len(as.Lhs) != 1 || ts.Init != nil {
				continue
			}
			for _, c := range ts.Body.List {
				cc := c.(*ast.CaseClause)
				if len(cc.List) == 1 && src(t.pk, cc.List[0]) == t.spec.typeCase {
					if found {
						t.fail("two cases %s", t.spec.typeCase)
					}
					found = true
					// the switch variable, first parameter
					n := len(params)
					delete(drop, as.Lhs[0].(*ast.Ident).Name)
					addParam(as.Lhs[0].(*ast.Ident).Name, cc.List[0])
					if len(params) == n+1 {
						params = append([]string{params[n]}, params[:n]...)
						ptys = append([]fty{ptys[n]}, ptys[:n]...)
					}
					stmts = cc.Body
				}
			}
		}
		if !found {
			t.fail("no case %s", t.spec.typeCase)
		}
	}
	var ret fty
	var body string
	namedPrelude := ""
	if t.spec.prefixUntil != "" {
		var prefix []ast.Stmt
		for _, s := range fd.Body.List {
			if mentions(s, t.spec.prefixUntil) {
				break
			}
			prefix = append(prefix, s)
		}
		body = t.block(prefix, "("+strings.Join(lids(t.spec.prefixRet), ", ")+")")
		for _, v := range t.spec.prefixRet {
			if ty, ok := t.vars[v]; ok && ty.ln != "" {
				t.fail("prefix variable %s is shadowed", v)
			}
		}
		for _, v := range t.spec.prefixRet {
			ty, ok := t.vars[v] // (declared at the top level of the prefix, or a parameter)
			if !ok {
				t.fail("prefix variable %s", v)
			}
			ret.el = append(ret.el, ty)
		}
		ret.k = fkTuple
	} else {
		if fd.Type.Results == nil {
			t.fail("no result")
			return "", nil
		}
		var rtys []fty
		for _, r := range fd.Type.Results.List {
			n := len(r.Names)
			if n == 0 {
				n = 1
			}
			for i := 0; i < n; i++ {
				ty := fgoTy(r.Type)
				if ty.k == fkBad {
					t.fail("result type %s", src(t.pk, r.Type))
				}
				rtys = append(rtys, ty)
			}
			if len(r.Names) > 0 {
				for _, nm := range r.Names {
					if !mentions(fd.Body, nm.Name) {
						continue
					}
					// a named result that is used: a variable, zero at the start, returned by a bare `return`
					// (no defer can change it afterwards: defer is outside the subset)
					ty := fgoTy(r.Type)
					zero := map[fkind]string{fkFloat: "0", fkInt: "0", fkBool: "false", fkPt: "⟨0, 0⟩"}[ty.k]
					if zero == "" || nm.Name == "_" || t.spec.typeCase != "" {
						t.fail("named result %s is used", nm.Name)
						continue
					}
					namedPrelude += "let " + t.declare(nm.Name, ty) + " : " + t.leanTy(ty) + " := " + zero + "\n"
					t.namedResults = append(t.namedResults, nm.Name)
				}
				if len(t.namedResults) != 0 && len(t.namedResults) != len(rtys) {
					t.fail("some results are named and used, others not")
				}
			}
		}
		t.retTys = rtys
		if len(rtys) == 1 {
			ret = rtys[0]
		} else {
			ret = fty{k: fkTuple, el: rtys}
		}
		body = namedPrelude + t.block(stmts, "")
	}
	if t.err == "" && len(t.pending) != 0 {
		t.fail("internal: panicking operations were not placed")
	}
	if t.err != "" {
		return "", nil
	}
	// the explicit parameters standing for what is outside the arithmetic: math.Sqrt, math.Nextafter(·, +Inf),
	// math.Inf(1), the package variable emptyBound — in this order, before the Go parameters
	var extras, eparams []string
	for _, ex := range extraOrder {
		if t.extras[ex] {
			extras = append(extras, ex)
			eparams = append(eparams, "("+ex+" : "+extraTypes[ex]+")")
		}
	}
	params = append(eparams, params...)
	rt := t.leanTy(ret)
	switch t.spec.panicMode {
	case "option":
		rt = "Option (" + rt + ")"
	case "res":
		rt = "Res " + t.resTy() + " (" + rt + ")"
	}
	pos := t.pk.fset.Position(fd.Pos())
	doc := fmt.Sprintf("/-- %s (%s:%d)", strings.TrimPrefix(funcKey(t.pk, fd), ".."), filepath.ToSlash(filepath.Join(t.pk.rel, filepath.Base(pos.Filename))), pos.Line)
	if t.spec.prefixUntil != "" {
		doc += fmt.Sprintf(": the statements before the first use of `%s`, returning (%s)", t.spec.prefixUntil, strings.Join(t.spec.prefixRet, ", "))
	}
	if t.spec.typeCase != "" {
		doc += fmt.Sprintf(": the body of `case %s` of the type switch (what precedes the switch is not part of it)", t.spec.typeCase)
	}
	doc += " -/"
	def = fmt.Sprintf("%s\ndef %s %s : %s :=\n%s\n", doc, t.spec.lean, strings.Join(params, " "), rt, indentAll(body, 2))
	return def, &fsig{qual: qual, params: ptys, ret: ret, extras: extras, fn: t.spec,
		nie: isList(ret) && t.retNie && t.spec.prefixUntil == ""}
}

var mercConsts = map[string]fconst{"0.5": {"(1 / 2)", nil, ""}, "0.9999": {"c9999", []string{"c9999"}, ""}, "math.Pi": {"pi", []string{"pi"}, ""},
	"-2*math.Pi": {"(-twoPi)", []string{"twoPi"}, ""}, "2*math.Pi": {"twoPi", []string{"twoPi"}, ""}, "180.0/math.Pi": {"d180pi", []string{"d180pi"}, ""}}

var projConsts = map[string]fconst{"math.Pi": {"pi", []string{"pi"}, ""}, "orb.EarthRadius": {"R", []string{"R"}, ""},
	"earthRadiusPi": {"rPi", []string{"rPi"}, "orb.EarthRadius*math.Pi"}, "earthRadiusPi/180.0": {"rPi180", []string{"rPi180"}, ""},
	"180.0/math.Pi": {"d180pi", []string{"d180pi"}, ""}, "math.Pi/2.0": {"piHalf", []string{"piHalf"}, ""}}

var geoConsts = map[string]fconst{"math.Pi": {"pi", []string{"pi"}, ""}, "2*math.Pi": {"(2 * pi)", []string{"pi"}, ""},
	"orb.EarthRadius": {"R", []string{"R"}, ""}, "2.0*orb.EarthRadius": {"(2 * R)", []string{"R"}, ""}, "-1": {"(-1)", nil, ""},
	"-90": {"(-90)", nil, ""}, "-180": {"(-180)", nil, ""}, "90": {"90", nil, ""}, "180": {"180", nil, ""},
	"111131.75": {"mPerDeg", []string{"mPerDeg"}, ""}}

var extraOrder = []string{"sqrt", "next", "inf", "eb", "abs", "cos", "asin", "atan2", "fmax", "fmin", "R", "mPerDeg", "sin", "log", "atan", "exp", "tan", "floor", "floorU32", "tz32",
	"pi", "twoPi", "piHalf", "d180pi", "rPi", "rPi180", "c9999", "latMax", "ofNat", "gnil", "projectGeometry"}
var extraTypes = map[string]string{"sqrt": "α → α", "next": "α → α", "inf": "α", "eb": "Bound α",
	"abs": "α → α", "sin": "α → α", "cos": "α → α", "asin": "α → α", "atan2": "α → α → α", "fmax": "α → α → α", "fmin": "α → α → α",
	"R": "α", "mPerDeg": "α", "atan": "α → α", "exp": "α → α", "tan": "α → α", "floor": "α → α", "floorU32": "α → Nat", "tz32": "Nat → Nat", "gnil": "G", "projectGeometry": "G → (Pt α → Pt α) → G", "d180pi": "α", "c9999": "α", "piHalf": "α", "rPi": "α", "rPi180": "α", "log": "α → α", "pi": "α", "twoPi": "α", "latMax": "α", "ofNat": "Nat → α"}

var floatVariables = "variable {α : Type} [Add α] [Sub α] [Mul α] [Div α] [Neg α] [LT α] [LE α] [DecidableLT α] [DecidableLE α]\n" +
	"  [BEq α] [Min α] [Max α] [OfNat α 0] [OfNat α 1] [OfNat α 2] [OfNat α 6] [NatCast α]"

func genFloatTies() []*leanFile {
	sum := floatSummary{Translated: map[string][]string{}, Unresolved: map[string]string{}, Notes: map[string]map[string]string{}}
	var files []*leanFile
	for pi := range floatPkgs {
		sp := &floatPkgs[pi]
		l := &leanFile{name: sp.file}
		goPkg := sp.rel
		if goPkg == "." {
			goPkg = "(root package orb)"
		}
		l.p("/- REGENERATED by factgen (cmd/factgen/translate_float.go) from /repo/%s on every run.", goPkg)
		l.p("   A direct translation of Go functions into Lean, polymorphic in the number type `α` with the")
		l.p("   same explicit instance arguments the hand-written models take; OrbProofs/C*Tie.lean prove each")
		l.p("   definition equal to the model definition.  Do not edit. -/")
		l.p("import Orb.Core")
		l.p("import Orb.LoopForms")
		for _, im := range sp.leanImps {
			l.p("import %s", im)
		}
		for _, im := range sp.imports {
			l.p("import Generated.%s", im)
		}
		l.p("namespace Generated.%s", sp.file)
		l.p("open Orb Orb.Core")
		l.p("open Orb.LoopForms (foldlRet foldPairsRet)")
		l.p("set_option linter.unusedVariables false")
		for _, o := range sp.opens {
			l.p("open %s", o)
		}
		l.p("")
		if sp.vars != "" {
			l.p("%s", sp.vars)
		} else {
			l.p("%s", floatVariables)
		}
		l.p("")
		if sp.file == "BoundGo" {
			l.p("/-- Go `==` on `orb.Point` (an array of two float64) -/")
			l.p("def ptEq (p q : Pt α) : Bool := p.x == q.x && p.y == q.y")
			l.p("")
			l.p("/-- `math.Abs`, as the models have it -/")
			l.p("def fabs (a : α) : α := if a < 0 then -a else a")
			l.p("")
			l.p("/-- the index loops `for i := lo; i < len(xs)-k; i++ { … xs[i+c] … xs[i+c+1] … }`: the body is run on")
			l.p("    every consecutive pair of `xs.drop (lo+c)`, in order -/")
			l.p("def foldPairs {β σ : Type} (f : σ → β → β → σ) : List β → σ → σ")
			l.p("  | a :: b :: t, s => foldPairs f (b :: t) (f s a b)")
			l.p("  | _, s => s")
			l.p("")
		} else {
			l.p("open Generated.BoundGo (ptEq fabs foldPairs)")
			l.p("")
		}
		var translated []string
		for fi := range sp.fns {
			f := &sp.fns[fi]
			f.rel = sp.rel
			key := f.rel + "|" + f.recv + "|" + f.name
			goName := strings.TrimPrefix(f.rel+"."+f.recv+"."+f.name, "..")
			if f.typeCase != "" {
				// one case of a type switch: not what a call of the function means
				key += "#" + f.typeCase
				goName += "[case " + f.typeCase + "]"
			}
			pk, fd := findFunc(f.rel, f.recv, f.name)
			if f.varField {
				pk, fd = findVarFieldFunc(f.rel, f.name)
			}
			if f.viewRecv != "" && fd != nil && fd.Body != nil {
				nfd, why := viewRecvDecl(pk, fd, f.viewRecv)
				if nfd == nil {
					anchorLost(goName + " (float tie) not translatable: " + why)
					sum.Unresolved[goName] = why
					l.p("-- %s: NOT TRANSLATED (%s)\n", goName, why)
					continue
				}
				fd = nfd
			}
			if f.applyField != "" && fd != nil && fd.Body != nil {
				key += "·" + f.applyField
				goName += "(…)." + f.applyField
				nfd, why := applyFieldDecl(pk, fd, f.applyField)
				if nfd == nil {
					anchorLost(goName + " (float tie) not translatable: " + why)
					sum.Unresolved[goName] = why
					l.p("-- %s: NOT TRANSLATED (%s)\n", goName, why)
					continue
				}
				fd = nfd
			}
			if fd == nil || fd.Body == nil {
				anchorLost(goName + " (float tie): function not found")
				sum.Unresolved[goName] = "function not found"
				l.p("-- %s: NOT FOUND\n", goName)
				continue
			}
			t := &ftrans{pk: pk, spec: f, vars: map[string]fty{}, extras: map[string]bool{}, notes: map[string]bool{}, numerals: sp.numerals}
			def, sg := t.translate(fd, "Generated."+sp.file+"."+f.lean)
			if t.err != "" || sg == nil {
				if t.err == "" {
					t.err = "not translatable"
				}
				anchorLost(goName + " (float tie) not translatable: " + t.err)
				sum.Unresolved[goName] = t.err
				l.p("-- %s: NOT TRANSLATED (%s)\n", goName, t.err)
				continue
			}
			sg.file = sp.file
			fsigs[key] = sg
			l.p("%s", def)
			translated = append(translated, f.lean)
			if len(t.notes) > 0 {
				m := map[string]string{}
				if t.notes["index-total"] {
					m["index-total"] = "xs[i] is translated as xs.getD i ⟨0,0⟩; Go's bounds check (a panic) is not part of the translation"
				}
				if t.notes["range-index"] {
					m["range-index"] = "for i := range xs runs over List.range xs.length (len(xs) is evaluated once; the body does not assign xs)"
				}
				if t.notes["set-as-list"] {
					m["set-as-list"] = "a maptile.Set that is only written (set[k] = true) and returned is the list of the keys in insertion order (the map is the set of them); reading it is outside the translation"
				}
				if t.notes["set-total"] {
					m["set-total"] = "xs[e] = v is xs.set e v and xs[:n] is xs.take n; Go's bounds checks (panics) are not part of the translation"
				}
				if t.notes["pure-simplifier"] {
					m["pure-simplifier"] = "a simplifier is translated as a pure total function on lines"
				}
				if t.notes["set-value"] {
					m["set-value"] = "xs[i] = e under for i := range xs is xs.set i e: lists are values, that the caller's backing array is written is not part of the translation"
				}
				if t.notes["pure-projection"] {
					m["pure-projection"] = "an orb.Projection is translated as a pure function Pt α → Pt α"
				}
				if t.notes["append-value"] {
					m["append-value"] = "append(xs, v) is xs ++ [v]: lists are values, the sharing of backing arrays is not part of the translation"
				}
				sum.Notes[goName] = m
			}
		}
		l.p("def translated : List String := [%s]", strings.Join(quoteAll(translated), ", "))
		l.p("end Generated.%s", sp.file)
		sum.Translated[sp.file] = translated
		files = append(files, l)
	}
	// JSON summary next to the signature file (work/float_ties.json)
	if f := flag.Lookup("sigs"); f != nil && f.Value.String() != "" {
		b, _ := json.MarshalIndent(sum, "", " ")
		os.WriteFile(filepath.Join(filepath.Dir(f.Value.String()), "float_ties.json"), b, 0o644)
	}
	return files
}
