package main

import (
	"go/ast"
	"go/token"
	"sort"
	"strconv"
	"strings"
)

// Package-level state (lean/Generated/PkgState.lean).
//
// For every library package: its package-level `var` declarations, classified syntactically
// (go/ast only, no type information):
//
//	blank  the name is `_` (interface-satisfaction assertions)
//	error  an error value: declared `error`, or initialised by errors.New / fmt.Errorf
//	const  a constant in disguise: a scalar — the initialiser is built from literals, named
//	       constants, arithmetic, conversions to basic types and calls of functions of the same
//	       package that return one basic type; a declared type, if any, is a basic type — that no
//	       code of the library assigns to, increments, ranges into or takes the address of
//	state  everything else: no initialiser, slices, maps, structs, pointers, interface values,
//	       function values, results of calls into other packages, and every scalar that is written
//	       somewhere.  These can carry information from one call to the next (caches, scratch
//	       slices, counters, free lists) or be shared between goroutines.
//
// plus, per package, what else lets a function depend on more than its arguments: the imports,
// the functions that contain `go` statements, and the package-qualified calls / conversions
// (`pkg.F(…)` with `pkg` an import of the file).
//
// The classification errs towards `state`: an identifier that is shadowed by a local variable of
// the same name still counts as written.

type pkgVar struct {
	pkg, name, typ, init, kind, file string
	written                          bool
}

var basicTypes = map[string]bool{
	"bool": true, "string": true, "int": true, "int8": true, "int16": true, "int32": true, "int64": true,
	"uint": true, "uint8": true, "uint16": true, "uint32": true, "uint64": true, "uintptr": true,
	"byte": true, "rune": true, "float32": true, "float64": true, "complex64": true, "complex128": true,
}

// rootName: the identifier (or pkg.Name selector) an assignable expression starts from
func rootOf(e ast.Expr) (ident string, sel string) {
	for {
		switch x := e.(type) {
		case *ast.ParenExpr:
			e = x.X
		case *ast.IndexExpr:
			e = x.X
		case *ast.SliceExpr:
			e = x.X
		case *ast.StarExpr:
			e = x.X
		case *ast.SelectorExpr:
			// pkg.Name … or value.field …: remember the outermost selector on an identifier
			if id, ok := x.X.(*ast.Ident); ok {
				return id.Name, x.Sel.Name
			}
			e = x.X
		case *ast.Ident:
			return x.Name, ""
		default:
			return "", ""
		}
	}
}

// writtenNames: per package, the identifiers that are the root of an assignment, an inc/dec, a
// range clause with `=`, an address-of, or the receiver of a method call (a pointer-receiver
// method may write); and, over all packages, the names written through a selector (`x.Name = …`).
func writtenNames() (local map[string]map[string]bool, viaSel map[string]bool) {
	local = map[string]map[string]bool{}
	viaSel = map[string]bool{}
	for rel, pk := range pkgs {
		w := map[string]bool{}
		local[rel] = w
		mark := func(e ast.Expr) {
			id, sel := rootOf(e)
			if id != "" {
				w[id] = true
			}
			if sel != "" {
				viaSel[sel] = true
			}
		}
		for _, f := range pk.files {
			ast.Inspect(f, func(n ast.Node) bool {
				switch x := n.(type) {
				case *ast.AssignStmt:
					if x.Tok != token.DEFINE {
						for _, l := range x.Lhs {
							mark(l)
						}
					}
				case *ast.IncDecStmt:
					mark(x.X)
				case *ast.RangeStmt:
					if x.Tok == token.ASSIGN {
						if x.Key != nil {
							mark(x.Key)
						}
						if x.Value != nil {
							mark(x.Value)
						}
					}
				case *ast.UnaryExpr:
					if x.Op == token.AND {
						mark(x.X)
					}
				case *ast.CallExpr:
					// v.Method(…): the method may have a pointer receiver
					if s, ok := x.Fun.(*ast.SelectorExpr); ok {
						if id, ok := s.X.(*ast.Ident); ok {
							w[id.Name] = true
						}
					}
				}
				return true
			})
		}
	}
	return
}

// basicResultFuncs: functions of the package (no receiver) with exactly one result of basic type
func basicResultFuncs(pk *pkgFiles) map[string]bool {
	m := map[string]bool{}
	for _, f := range pk.files {
		for _, d := range f.Decls {
			fd, ok := d.(*ast.FuncDecl)
			if !ok || fd.Recv != nil || fd.Type.Results == nil || len(fd.Type.Results.List) != 1 {
				continue
			}
			r := fd.Type.Results.List[0]
			if id, ok := r.Type.(*ast.Ident); ok && basicTypes[id.Name] && len(r.Names) <= 1 {
				m[fd.Name.Name] = true
			}
		}
	}
	return m
}

// scalarExpr: built from literals, identifiers that are not package-level vars of non-scalar kind
// (named constants, true/false, other scalars), arithmetic, conversions to basic types and calls
// of same-package functions with one basic result
func scalarExpr(e ast.Expr, pure map[string]bool) bool {
	switch x := e.(type) {
	case *ast.BasicLit:
		return true
	case *ast.Ident:
		return x.Name != "nil"
	case *ast.ParenExpr:
		return scalarExpr(x.X, pure)
	case *ast.UnaryExpr:
		return (x.Op == token.SUB || x.Op == token.ADD || x.Op == token.NOT || x.Op == token.XOR) && scalarExpr(x.X, pure)
	case *ast.BinaryExpr:
		return scalarExpr(x.X, pure) && scalarExpr(x.Y, pure)
	case *ast.SelectorExpr:
		// math.Pi, math.MaxFloat64 …: a qualified name (constants of other packages)
		_, ok := x.X.(*ast.Ident)
		return ok
	case *ast.CallExpr:
		id, ok := x.Fun.(*ast.Ident)
		if !ok || !(basicTypes[id.Name] || pure[id.Name]) {
			return false
		}
		for _, a := range x.Args {
			if !scalarExpr(a, pure) {
				return false
			}
		}
		return true
	}
	return false
}

func isErrorInit(e ast.Expr) bool {
	c, ok := e.(*ast.CallExpr)
	if !ok {
		return false
	}
	s, ok := c.Fun.(*ast.SelectorExpr)
	if !ok {
		return false
	}
	id, ok := s.X.(*ast.Ident)
	return ok && ((id.Name == "errors" && s.Sel.Name == "New") || (id.Name == "fmt" && s.Sel.Name == "Errorf"))
}

func cutLean(s string, n int) string {
	s = strings.Join(strings.Fields(s), " ")
	if len(s) > n {
		s = s[:n] + "…"
	}
	return s
}

func leanStrList(xs []string) string {
	q := make([]string, len(xs))
	for i, x := range xs {
		q[i] = strconv.Quote(x)
	}
	return "[" + strings.Join(q, ", ") + "]"
}

func genPkgState() *leanFile {
	l := &leanFile{name: "PkgState"}
	l.p("/- REGENERATED by factgen from /repo on every run. Do not edit.")
	l.p("   Package-level variables of every library package (non-test, non-generated files), classified")
	l.p("   syntactically, and what else lets a function depend on more than its arguments.")
	l.p("     blank  `var _ I = T{}` assertions")
	l.p("     error  error values (declared `error` / errors.New / fmt.Errorf)")
	l.p("     const  constants in disguise: scalars (literals, named constants, arithmetic, conversions,")
	l.p("            same-package functions with one basic result) that no library code assigns to,")
	l.p("            increments, ranges into, takes the address of or calls a method on")
	l.p("     state  everything else (uninitialised variables, slices, maps, structs, pointers, interface and")
	l.p("            function values, results of calls into other packages, every scalar that is written)")
	l.p("   The classification errs towards `state`. -/")
	l.p("namespace Generated.PkgState")
	l.p("")
	l.p("structure V where")
	l.p("  pkg : String")
	l.p("  name : String")
	l.p("  typ : String")
	l.p("  init : String")
	l.p("  kind : String")
	l.p("  written : Bool")
	l.p("  file : String")
	l.p("deriving Repr, DecidableEq")
	l.p("")

	local, viaSel := writtenNames()
	rels := []string{}
	for r := range pkgs {
		rels = append(rels, r)
	}
	sort.Strings(rels)

	var vars []pkgVar
	imports := map[string][]string{}
	goFns := map[string][]string{}
	extCalls := map[string][]string{}
	for _, rel := range rels {
		pk := pkgs[rel]
		pure := basicResultFuncs(pk)
		names := []string{}
		for n := range pk.files {
			names = append(names, n)
		}
		sort.Strings(names)
		impSet, extSet := map[string]bool{}, map[string]bool{}
		for _, fn := range names {
			f := pk.files[fn]
			// imports of this file: path and local name
			localName := map[string]string{}
			for _, im := range f.Imports {
				path, _ := strconv.Unquote(im.Path.Value)
				impSet[path] = true
				ln := path[strings.LastIndex(path, "/")+1:]
				if im.Name != nil {
					ln = im.Name.Name
				}
				localName[ln] = path
			}
			for _, d := range f.Decls {
				switch x := d.(type) {
				case *ast.GenDecl:
					if x.Tok != token.VAR {
						continue
					}
					for _, sp := range x.Specs {
						vs := sp.(*ast.ValueSpec)
						for i, n := range vs.Names {
							v := pkgVar{pkg: rel, name: n.Name, file: fn}
							if vs.Type != nil {
								v.typ = cutLean(src(pk, vs.Type), 80)
							}
							var init ast.Expr
							if i < len(vs.Values) {
								init = vs.Values[i]
								v.init = cutLean(src(pk, init), 80)
							} else if len(vs.Values) == 1 && len(vs.Names) > 1 {
								init = vs.Values[0] // a, b = f()
								v.init = cutLean(src(pk, init), 80)
							}
							v.written = local[rel][n.Name] || (ast.IsExported(n.Name) && viaSel[n.Name])
							typeBasic := vs.Type == nil
							if id, ok := vs.Type.(*ast.Ident); ok && basicTypes[id.Name] {
								typeBasic = true
							}
							switch {
							case n.Name == "_":
								v.kind, v.written = "blank", false
							case v.typ == "error" || (init != nil && isErrorInit(init)):
								v.kind = "error"
							case init != nil && len(vs.Names) == len(vs.Values) && typeBasic && scalarExpr(init, pure) && !v.written:
								v.kind = "const"
							default:
								v.kind = "state"
							}
							vars = append(vars, v)
						}
					}
				case *ast.FuncDecl:
					key := x.Name.Name
					if r := recvName(x); r != "" {
						key = r + "." + key
					}
					ast.Inspect(x, func(n ast.Node) bool {
						switch y := n.(type) {
						case *ast.GoStmt:
							goFns[rel] = append(goFns[rel], key)
						case *ast.CallExpr:
							if s, ok := y.Fun.(*ast.SelectorExpr); ok {
								if id, ok := s.X.(*ast.Ident); ok && id.Obj == nil {
									if _, isImp := localName[id.Name]; isImp {
										extSet[id.Name+"."+s.Sel.Name] = true
									}
								}
							}
						}
						return true
					})
				}
			}
		}
		for p := range impSet {
			imports[rel] = append(imports[rel], p)
		}
		sort.Strings(imports[rel])
		for c := range extSet {
			extCalls[rel] = append(extCalls[rel], c)
		}
		sort.Strings(extCalls[rel])
	}

	l.p("/-- every library package (directory relative to the repository root; `.` is package orb) -/")
	l.p("def packages : List String := %s", leanStrList(rels))
	l.p("")
	l.p("/-- every package-level `var` of every library package -/")
	l.p("def vars : List V := [")
	for i, v := range vars {
		sep := ","
		if i == len(vars)-1 {
			sep = ""
		}
		l.p("  ⟨%q, %q, %q, %q, %q, %v, %q⟩%s", v.pkg, v.name, v.typ, v.init, v.kind, v.written, v.file, sep)
	}
	l.p("]")
	l.p("")
	pairs := func(name, doc string, m map[string][]string) {
		l.p("/-- %s -/", doc)
		l.p("def %s : List (String × List String) := [", name)
		for i, r := range rels {
			sep := ","
			if i == len(rels)-1 {
				sep = ""
			}
			l.p("  (%q, %s)%s", r, leanStrList(m[r]), sep)
		}
		l.p("]")
		l.p("")
	}
	pairs("imports", "import paths per package (all non-test files)", imports)
	pairs("goStmts", "per package: the functions that contain a `go` statement (one entry per statement)", goFns)
	pairs("extCalls", "per package: the package-qualified calls and conversions `pkg.F(…)`, `pkg` an import of the file", extCalls)
	l.p("/-- the variables of package `p` that can carry state (kind `state`) -/")
	l.p("def stateVars (p : String) : List V := vars.filter fun v => v.pkg == p && v.kind == \"state\"")
	l.p("")
	l.p("/-- every package-level variable of package `p`, whatever its kind -/")
	l.p("def varsOf (p : String) : List V := vars.filter fun v => v.pkg == p")
	l.p("")
	l.p("def lookup (t : List (String × List String)) (p : String) : Option (List String) :=")
	l.p("  (t.find? fun e => e.1 == p).map (·.2)")
	l.p("")
	l.p("end Generated.PkgState")
	return l
}
