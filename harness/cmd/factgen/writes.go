package main

import (
	"fmt"
	"go/ast"
	"go/importer"
	"go/token"
	"go/types"
	"path/filepath"
	"sort"
	"strings"
)

// Write-set facts for the quadtree query path (C19).
//
// Package quadtree is TYPE-CHECKED (go/types, offline: orb's own packages from the parsed files,
// the standard library from GOROOT source) and a flow-insensitive, field-based points-to analysis
// (Andersen style, whole package, iterated to a fixpoint) answers for every expression of
// reference type "which memory may this point to":
//
//   V:<fn>.<x>        the local variable / parameter / receiver x of fn        class local
//   A:<fn>#k:<how>    the k-th allocation site of fn (make, new, composite
//                     literal, append growth, func literal, variadic slice)    class percall
//   I:<T.f>@<class>   the field f inside an object of that class               class <class>
//   TREE              the Quadtree struct, its nodes and everything they hold  class tree
//   CALLER-BUF        the RESULT BUFFER supplied by the caller of a query method (the
//                     parameter `buf []orb.Pointer` of KNearest / KNearestMatching /
//                     InBound / InBoundMatching: "an optional buffer parameter is
//                     provided to allow for the reuse of result slice memory" — per
//                     goroutine by the documented contract, the library may write it) class caller-buf
//   CALLER-ARG        every other reference the caller of an exported function hands
//                     in: the filter function, the pointer given to Add / Remove, the
//                     variadic `maxDistance ...float64` (the CALLER'S slice when the call
//                     is written `lims...`), receivers of non-tree types.  Nothing says
//                     these are per goroutine: they may be read, never written       class caller-arg
//   GLOBAL            package-level variables and what they hold               class global
//   UNKNOWN           results of code outside the package                      class unknown
//
// Struct fields of objects outside TREE/CALLER/GLOBAL/UNKNOWN are tracked per (type, field)
// (every store to T.f in the whole package, in a composite literal or an assignment, flows into
// the one cell F:T.f); whatever is loaded from TREE is TREE.  Independently of the data flow,
// every expression of static type *node / *Quadtree is TREE.
//
// Emitted for the functions reachable from the documented read-only query methods:
//   writes     every assignment, ++/--, range assignment, channel send, go statement, and the
//              DESTINATION argument of copy / append / clear / delete and of every call that leaves
//              the package with a reference argument (sort.*, …), each with the classes of the memory
//              the destination may designate, the abstract objects, the root identifier and the
//              reference fields the path goes through
//   bindings   how every local / parameter / receiver of reference type (or whose address is
//              taken) gets its value: one entry per :=, =, var, range, call site, entry point
//   fieldInits how every reference field of a struct is initialised or assigned (whole package)
//   callbacks  calls through caller-supplied code (the filter, Pointer.Point)
// so that the obligation "every write root on a query path is per-call allocated" is a `decide`
// theorem over these tables (OrbProofs/C19.lean).

// the documented read-only entry points
var queryRoots = []string{
	"Quadtree.Find", "Quadtree.Matching", "Quadtree.KNearest", "Quadtree.KNearestMatching",
	"Quadtree.InBound", "Quadtree.InBoundMatching", "Quadtree.Bound",
}

// the types whose every instance is tree-owned memory
var treeTypes = map[string]bool{"Quadtree": true, "node": true}

func rootIdent(e ast.Expr) *ast.Ident {
	for {
		switch t := e.(type) {
		case *ast.Ident:
			return t
		case *ast.SelectorExpr:
			e = t.X
		case *ast.IndexExpr:
			e = t.X
		case *ast.StarExpr:
			e = t.X
		case *ast.ParenExpr:
			e = t.X
		case *ast.SliceExpr:
			e = t.X
		default:
			return nil
		}
	}
}

func typeName(e ast.Expr) (name string, ptr bool) {
	if s, ok := e.(*ast.StarExpr); ok {
		n, _ := typeName(s.X)
		return n, true
	}
	switch t := e.(type) {
	case *ast.Ident:
		return t.Name, false
	case *ast.SelectorExpr:
		return t.Sel.Name, false
	}
	return "", false
}

func quoteAll(s []string) []string {
	o := make([]string, len(s))
	for i, x := range s {
		o[i] = fmt.Sprintf("%q", x)
	}
	return o
}

// ---------------------------------------------------------------------------------------------
// type checking

const orbPath = "github.com/paulmach/orb"

type orbImporter struct {
	std  types.Importer
	done map[string]*types.Package
	errs *[]string
}

func (m *orbImporter) Import(path string) (*types.Package, error) {
	if p, ok := m.done[path]; ok {
		return p, nil
	}
	if path == orbPath || strings.HasPrefix(path, orbPath+"/") {
		rel := strings.TrimPrefix(strings.TrimPrefix(path, orbPath), "/")
		if rel == "" {
			rel = "."
		}
		rel = filepath.FromSlash(rel)
		if pk := pkgs[rel]; pk != nil {
			p, _ := m.check(path, pk, nil)
			m.done[path] = p
			return p, nil
		}
	}
	p, err := m.std.Import(path)
	if err != nil || p == nil {
		*m.errs = append(*m.errs, fmt.Sprintf("import %s: %v", path, err))
		p = types.NewPackage(path, filepath.Base(path))
		p.MarkComplete()
	}
	m.done[path] = p
	return p, nil
}

func (m *orbImporter) check(path string, pk *pkgFiles, info *types.Info) (*types.Package, error) {
	names := []string{}
	for n := range pk.files {
		names = append(names, n)
	}
	sort.Strings(names)
	var files []*ast.File
	for _, n := range names {
		files = append(files, pk.files[n])
	}
	report := info != nil // only the analysed package's own errors are facts
	cfg := types.Config{Importer: m, FakeImportC: true, Error: func(err error) {
		if report {
			*m.errs = append(*m.errs, err.Error())
		}
	}}
	return cfg.Check(path, pk.fset, files, info)
}

// ---------------------------------------------------------------------------------------------
// abstract objects

const (
	oTree      = "TREE"
	oCallerBuf = "CALLER-BUF"
	oCallerArg = "CALLER-ARG"
	oGlobal    = "GLOBAL"
	oUnknown   = "UNKNOWN"
)

type oset map[string]bool

func isBlob(o string) bool {
	return o == oTree || o == oCallerBuf || o == oCallerArg || o == oGlobal || o == oUnknown
}

// the result-buffer parameters of the documented per-goroutine contract: function -> parameter name
// (the parameter must also have the type []orb.Pointer; everything else a caller hands in is CALLER-ARG)
var resultBufParams = map[string]string{
	"Quadtree.KNearest": "buf", "Quadtree.KNearestMatching": "buf",
	"Quadtree.InBound": "buf", "Quadtree.InBoundMatching": "buf",
}

func classOf(o string) string {
	switch {
	case o == oTree:
		return "tree"
	case o == oCallerBuf:
		return "caller-buf"
	case o == oCallerArg:
		return "caller-arg"
	case o == oGlobal:
		return "global"
	case o == oUnknown:
		return "unknown"
	case strings.HasPrefix(o, "V:"):
		return "local"
	case strings.HasPrefix(o, "A:"):
		return "percall"
	case strings.HasPrefix(o, "I:"):
		return o[strings.LastIndex(o, "@")+1:]
	}
	return "unknown"
}

func union(ss ...oset) oset {
	var r oset
	for _, s := range ss {
		for o := range s {
			if r == nil {
				r = oset{}
			}
			r[o] = true
		}
	}
	return r
}

func single(o string) oset { return oset{o: true} }

func sorted(s oset) []string {
	r := []string{}
	for o := range s {
		r = append(r, o)
	}
	sort.Strings(r)
	return r
}

func classes(s oset) []string {
	m := map[string]bool{}
	for o := range s {
		m[classOf(o)] = true
	}
	r := []string{}
	for c := range m {
		r = append(r, c)
	}
	sort.Strings(r)
	return r
}

// ---------------------------------------------------------------------------------------------
// the analysis

type wFact struct {
	fn, lhs, kind, rootVar string
	roots, objs, via       []string
}
type bFact struct {
	fn, v, kind, typ, from, value, how string
	roots                              []string
}
type fiFact struct {
	fn, field, typ, value, how string // field is "Type.field"
	roots                      []string
}
type cbFact struct{ fn, callee, via string }

type pta struct {
	pk      *pkgFiles
	info    *types.Info
	tpkg    *types.Package
	cells   map[string]oset
	changed bool
	collect bool

	resultBufs []string // (function, parameter) classified CALLER-BUF at the entry points

	decls   []*ast.FuncDecl
	fnOf    map[*types.Func]*ast.FuncDecl
	fnName  map[*ast.FuncDecl]string
	fieldID map[*types.Var]string
	varIDs  map[types.Object]string
	varUsed map[string]bool
	siteIDs map[token.Pos]string
	siteTyp map[string]types.Type // allocation site -> type of the allocated object (composite literals)
	siteCnt map[string]int
	named   []*types.TypeName

	cur      *ast.FuncDecl
	resStack []string // result-cell prefix of the function (literal) being walked
	calls    map[string]map[string]bool
	addrOfV  map[string]bool // local variables whose address is taken

	writes    []wFact
	bindings  []bFact
	fieldInit []fiFact
	callbacks []cbFact
	seen      map[string]bool
}

func (a *pta) add(cell string, s oset) {
	if cell == "" || len(s) == 0 {
		return
	}
	c := a.cells[cell]
	if c == nil {
		c = oset{}
		a.cells[cell] = c
	}
	for o := range s {
		if !c[o] {
			c[o] = true
			a.changed = true
		}
	}
}

func (a *pta) curName() string {
	if a.cur == nil {
		return "?"
	}
	return a.fnName[a.cur]
}

func (a *pta) typeOf(e ast.Expr) types.Type {
	if tv, ok := a.info.Types[e]; ok {
		return tv.Type
	}
	if id, ok := e.(*ast.Ident); ok {
		if o := a.info.ObjectOf(id); o != nil {
			return o.Type()
		}
	}
	return nil
}

func isRef(t types.Type) bool {
	if t == nil {
		return true // unknown type: be careful
	}
	switch u := t.Underlying().(type) {
	case *types.Pointer, *types.Slice, *types.Map, *types.Chan, *types.Signature, *types.Interface:
		return true
	case *types.Basic:
		return u.Kind() == types.UnsafePointer || u.Kind() == types.Invalid
	}
	return false
}

// a value that is, or is an array of, references: handled as one points-to set
func refLike(t types.Type) bool {
	if isRef(t) {
		return true
	}
	if ar, ok := t.Underlying().(*types.Array); ok {
		return refLike(ar.Elem())
	}
	return false
}

func hasRef(t types.Type) bool {
	if refLike(t) {
		return true
	}
	switch u := t.Underlying().(type) {
	case *types.Struct:
		for i := 0; i < u.NumFields(); i++ {
			if hasRef(u.Field(i).Type()) {
				return true
			}
		}
	case *types.Array:
		return hasRef(u.Elem())
	}
	return false
}

func deref(t types.Type) types.Type {
	if t == nil {
		return nil
	}
	if p, ok := t.Underlying().(*types.Pointer); ok {
		return p.Elem()
	}
	return t
}

func (a *pta) isTreeType(t types.Type) bool {
	if n, ok := t.(*types.Named); ok {
		return n.Obj().Pkg() == a.tpkg && treeTypes[n.Obj().Name()]
	}
	return false
}

func (a *pta) typeStr(t types.Type) string {
	if t == nil {
		return "?"
	}
	return types.TypeString(t, func(p *types.Package) string {
		if p == a.tpkg {
			return ""
		}
		return p.Name()
	})
}

func (a *pta) fid(f *types.Var) string {
	if s, ok := a.fieldID[f]; ok {
		return s
	}
	pkg := "?"
	if f.Pkg() != nil {
		pkg = f.Pkg().Name()
	}
	return pkg + ".?." + f.Name()
}

func (a *pta) fnAt(pos token.Pos) string {
	for _, d := range a.decls {
		if d.Pos() <= pos && pos <= d.End() {
			return a.fnName[d]
		}
	}
	return "?"
}

func (a *pta) isLocalVar(o types.Object) bool {
	v, ok := o.(*types.Var)
	if !ok || v.IsField() {
		return false
	}
	return v.Parent() != a.tpkg.Scope() && (v.Pkg() == a.tpkg || v.Pkg() == nil)
}

func (a *pta) varID(o types.Object) string {
	if s, ok := a.varIDs[o]; ok {
		return s
	}
	base := "V:" + a.fnAt(o.Pos()) + "." + o.Name()
	id := base
	for n := 2; a.varUsed[id]; n++ {
		id = fmt.Sprintf("%s#%d", base, n)
	}
	a.varUsed[id] = true
	a.varIDs[o] = id
	return id
}

func (a *pta) site(pos token.Pos, how string) string {
	if s, ok := a.siteIDs[pos]; ok {
		return s
	}
	fn := a.fnAt(pos)
	a.siteCnt[fn]++
	s := fmt.Sprintf("A:%s#%d:%s", fn, a.siteCnt[fn], how)
	a.siteIDs[pos] = s
	return s
}

// where the references stored IN object o live
func contentCell(o string) string {
	switch {
	case strings.HasPrefix(o, "V:"):
		return o
	case strings.HasPrefix(o, "A:"):
		return "E:" + o
	case strings.HasPrefix(o, "I:"):
		return "F:" + o[2:strings.LastIndex(o, "@")]
	}
	return ""
}

func (a *pta) content(s oset) oset {
	var r oset
	for o := range s {
		if isBlob(o) {
			r = union(r, single(o))
		} else {
			r = union(r, a.cells[contentCell(o)])
		}
	}
	return r
}

func (a *pta) loadField(bases oset, f *types.Var) oset {
	var r oset
	for o := range bases {
		if isBlob(o) {
			r = union(r, single(o))
		} else {
			r = union(r, a.cells["F:"+a.fid(f)])
		}
	}
	return r
}

func unparen(e ast.Expr) ast.Expr {
	for {
		p, ok := e.(*ast.ParenExpr)
		if !ok {
			return e
		}
		e = p.X
	}
}

// field selection: the objects that contain the selected field, and the field
func (a *pta) fieldSel(e *ast.SelectorExpr) (bases oset, fld *types.Var, ok bool) {
	sel := a.info.Selections[e]
	if sel == nil || sel.Kind() != types.FieldVal {
		return nil, nil, false
	}
	t := sel.Recv()
	if _, isPtr := t.Underlying().(*types.Pointer); isPtr {
		bases = a.val(e.X)
	} else {
		bases = a.locs(e.X)
	}
	t = deref(t)
	path := sel.Index()
	for k, idx := range path {
		st, isStruct := t.Underlying().(*types.Struct)
		if !isStruct {
			return single(oUnknown), nil, false
		}
		f := st.Field(idx)
		if k == len(path)-1 {
			return bases, f, true
		}
		// embedded field on the way
		if _, isPtr := f.Type().Underlying().(*types.Pointer); isPtr {
			bases = a.loadField(bases, f)
		}
		t = deref(f.Type())
	}
	return single(oUnknown), nil, false
}

// the objects that contain the memory designated by the lvalue e
func (a *pta) locs(e ast.Expr) oset {
	switch e := e.(type) {
	case *ast.ParenExpr:
		return a.locs(e.X)
	case *ast.Ident:
		if e.Name == "_" {
			return nil
		}
		o := a.info.ObjectOf(e)
		if o == nil {
			return single(oUnknown)
		}
		if a.isLocalVar(o) {
			return single(a.varID(o))
		}
		if _, isVar := o.(*types.Var); isVar {
			return single(oGlobal)
		}
		return single(oUnknown)
	case *ast.SelectorExpr:
		if bases, _, ok := a.fieldSel(e); ok {
			return bases
		}
		if a.info.Selections[e] == nil { // pkg.Var
			if _, isVar := a.info.Uses[e.Sel].(*types.Var); isVar {
				return single(oGlobal)
			}
		}
		a.val(e.X)
		return single(oUnknown)
	case *ast.IndexExpr:
		a.val(e.Index)
		return a.containers(e.X)
	case *ast.StarExpr:
		return a.val(e.X)
	case *ast.CompositeLit:
		a.val(e)
		return single(a.site(e.Pos(), "complit"))
	}
	a.val(e)
	return single(oUnknown)
}

// the objects holding the elements of the indexed / sliced / ranged expression x
func (a *pta) containers(x ast.Expr) oset {
	t := a.typeOf(x)
	if t == nil {
		a.val(x)
		return single(oUnknown)
	}
	switch u := t.Underlying().(type) {
	case *types.Array:
		return a.locs(x)
	case *types.Pointer, *types.Slice, *types.Map, *types.Chan:
		return a.val(x)
	case *types.Basic:
		if u.Info()&types.IsString != 0 {
			a.val(x)
			return nil
		}
	}
	a.val(x)
	return single(oUnknown)
}

// a pointer to the lvalue e
func (a *pta) addrOf(e ast.Expr) oset {
	e = unparen(e)
	switch e := e.(type) {
	case *ast.Ident:
		l := a.locs(e)
		for o := range l {
			if strings.HasPrefix(o, "V:") {
				a.addrOfV[o] = true
			}
		}
		return l
	case *ast.SelectorExpr:
		if bases, f, ok := a.fieldSel(e); ok {
			var r oset
			for o := range bases {
				if isBlob(o) {
					r = union(r, single(o))
				} else {
					r = union(r, single("I:"+a.fid(f)+"@"+classOf(o)))
				}
			}
			return r
		}
	}
	return a.locs(e)
}

// the objects a reference-typed expression may point to (for arrays of references: the union
// over the elements); evaluates every call and literal inside e for its effects
func (a *pta) val(e ast.Expr) oset {
	if e == nil {
		return nil
	}
	s := a.val0(e)
	if t := a.typeOf(e); t != nil {
		if p, ok := t.Underlying().(*types.Pointer); ok && a.isTreeType(p.Elem()) {
			s = union(s, single(oTree))
		}
		if !refLike(t) {
			if _, isTuple := t.(*types.Tuple); !isTuple {
				return nil
			}
		}
	}
	return s
}

func (a *pta) val0(e ast.Expr) oset {
	switch e := e.(type) {
	case *ast.BasicLit:
		return nil
	case *ast.ParenExpr:
		return a.val(e.X)
	case *ast.Ident:
		o := a.info.ObjectOf(e)
		switch o := o.(type) {
		case *types.Var:
			if a.isLocalVar(o) {
				return a.cells[a.varID(o)]
			}
			return single(oGlobal)
		case *types.Func:
			a.noteCall(o)
			return nil
		case nil:
			if e.Name == "_" {
				return nil
			}
			return single(oUnknown)
		}
		return nil // nil, constants, type names, builtins
	case *ast.FuncLit:
		s := a.site(e.Pos(), "funclit")
		// parameters of a function literal: their arguments are not tracked
		if e.Type.Params != nil {
			for _, f := range e.Type.Params.List {
				for _, n := range f.Names {
					if o := a.info.Defs[n]; o != nil && refLike(o.Type()) {
						a.add(a.varID(o), single(oUnknown))
					}
				}
			}
		}
		a.resStack = append(a.resStack, "R:"+s)
		a.stmt(e.Body)
		a.resStack = a.resStack[:len(a.resStack)-1]
		return single(s)
	case *ast.CompositeLit:
		return a.compositeLit(e)
	case *ast.UnaryExpr:
		switch e.Op {
		case token.AND:
			if cl, ok := unparen(e.X).(*ast.CompositeLit); ok {
				a.val(cl)
				s := a.site(cl.Pos(), "complit")
				if t := a.typeOf(cl); t != nil {
					a.siteTyp[s] = t
				}
				return single(s)
			}
			return a.addrOf(e.X)
		case token.ARROW: // a receive changes the channel
			ch := a.val(e.X)
			a.recordWrite("recv", e.X, "<-"+a.show(e.X), ch)
			return a.content(ch)
		}
		a.val(e.X)
		return nil
	case *ast.BinaryExpr:
		a.val(e.X)
		a.val(e.Y)
		return nil
	case *ast.StarExpr:
		return a.content(a.val(e.X))
	case *ast.SelectorExpr:
		if bases, f, ok := a.fieldSel(e); ok {
			return a.loadField(bases, f)
		}
		sel := a.info.Selections[e]
		if sel == nil { // qualified identifier
			if _, isVar := a.info.Uses[e.Sel].(*types.Var); isVar {
				return single(oGlobal)
			}
			return nil // a function or constant of another package
		}
		// method value: the closure holds the receiver
		if m, ok := sel.Obj().(*types.Func); ok {
			a.noteCall(m)
		}
		if isRef(a.typeOf(e.X)) {
			return a.val(e.X)
		}
		return a.addrOf(e.X)
	case *ast.IndexExpr:
		a.val(e.Index)
		t := a.typeOf(e.X)
		if t != nil {
			if _, isArr := t.Underlying().(*types.Array); isArr {
				return a.val(e.X)
			}
			if _, isSig := t.Underlying().(*types.Signature); isSig { // generic instantiation
				return a.val(e.X)
			}
		}
		return a.content(a.containers(e.X))
	case *ast.SliceExpr:
		a.val(e.Low)
		a.val(e.High)
		a.val(e.Max)
		t := a.typeOf(e.X)
		if t != nil {
			if _, isArr := t.Underlying().(*types.Array); isArr {
				return a.addrOf(e.X)
			}
		}
		return a.val(e.X)
	case *ast.TypeAssertExpr:
		return a.val(e.X)
	case *ast.CallExpr:
		r := a.call(e)
		if len(r) > 0 {
			return r[0]
		}
		return nil
	case *ast.KeyValueExpr:
		return union(a.val(e.Key), a.val(e.Value))
	}
	return nil
}

func (a *pta) noteCall(f *types.Func) {
	if d, ok := a.fnOf[f]; ok && a.cur != nil {
		m := a.calls[a.fnName[a.cur]]
		if m == nil {
			m = map[string]bool{}
			a.calls[a.fnName[a.cur]] = m
		}
		m[a.fnName[d]] = true
	}
}

// src location objects of a struct-valued expression (for copies of structs holding references)
func (a *pta) structSources(e ast.Expr) oset {
	switch x := unparen(e).(type) {
	case *ast.Ident, *ast.SelectorExpr, *ast.IndexExpr, *ast.StarExpr:
		return a.locs(x)
	case *ast.CompositeLit:
		a.val(x)
		return nil
	case *ast.CallExpr:
		a.val(x)
		if a.localCallee(x) {
			return nil // the callee's return statements have done the copy
		}
		return single(oUnknown)
	}
	a.val(e)
	return single(oUnknown)
}

// the reference fields of t (deep, through nested structs and arrays) may now hold blob b
func (a *pta) taint(t types.Type, b oset, depth int) {
	if depth > 8 || len(b) == 0 {
		return
	}
	switch u := t.Underlying().(type) {
	case *types.Struct:
		for i := 0; i < u.NumFields(); i++ {
			f := u.Field(i)
			if refLike(f.Type()) {
				a.add("F:"+a.fid(f), b)
			} else if hasRef(f.Type()) {
				a.taint(f.Type(), b, depth+1)
			}
		}
	case *types.Array:
		a.taint(u.Elem(), b, depth+1)
	}
}

// value of type t, given by expression rhs, is stored into cell dst ("" when the destination is a
// struct field / element whose own fields are tracked per type)
func (a *pta) flow(dst string, t types.Type, rhs ast.Expr) oset {
	if t == nil || refLike(t) {
		v := a.val(rhs)
		a.add(dst, v)
		return v
	}
	if hasRef(t) {
		src := a.structSources(rhs)
		var blobs oset
		for o := range src {
			if isBlob(o) {
				blobs = union(blobs, single(o))
			}
		}
		a.taint(t, blobs, 0)
		return src // where the copied struct (which holds references) comes from
	}
	a.val(rhs)
	return nil
}

func (a *pta) compositeLit(e *ast.CompositeLit) oset {
	t := a.typeOf(e)
	if t == nil {
		for _, el := range e.Elts {
			a.val(el)
		}
		return single(oUnknown)
	}
	switch u := t.Underlying().(type) {
	case *types.Struct:
		for i, el := range e.Elts {
			var f *types.Var
			var ve ast.Expr
			if kv, ok := el.(*ast.KeyValueExpr); ok {
				ve = kv.Value
				if id, ok := kv.Key.(*ast.Ident); ok {
					for k := 0; k < u.NumFields(); k++ {
						if u.Field(k).Name() == id.Name {
							f = u.Field(k)
						}
					}
				}
			} else if i < u.NumFields() {
				f, ve = u.Field(i), el
			}
			if f == nil {
				a.val(ve)
				continue
			}
			cell := ""
			if refLike(f.Type()) {
				cell = "F:" + a.fid(f)
			}
			v := a.flow(cell, f.Type(), ve)
			if a.collect && refLike(f.Type()) {
				a.fieldInit = append(a.fieldInit, fiFact{a.curName(), a.fid(f), a.typeStr(f.Type()), a.show(ve), a.howOf(ve), classes(v)})
			}
		}
		return nil
	case *types.Slice, *types.Map:
		s := a.site(e.Pos(), "complit")
		var et types.Type
		if sl, ok := u.(*types.Slice); ok {
			et = sl.Elem()
		} else {
			et = u.(*types.Map).Elem()
		}
		for _, el := range e.Elts {
			ve := el
			if kv, ok := el.(*ast.KeyValueExpr); ok {
				a.add("E:"+s, a.val(kv.Key))
				ve = kv.Value
			}
			a.flowInto(single(s), et, ve)
		}
		return single(s)
	case *types.Array:
		var r oset
		for _, el := range e.Elts {
			ve := el
			if kv, ok := el.(*ast.KeyValueExpr); ok {
				ve = kv.Value
			}
			if refLike(u.Elem()) {
				r = union(r, a.val(ve))
			} else {
				a.flow("", u.Elem(), ve)
			}
		}
		return r
	}
	for _, el := range e.Elts {
		a.val(el)
	}
	return nil
}

// an element of type t given by rhs is stored into the objects cs
func (a *pta) flowInto(cs oset, t types.Type, rhs ast.Expr) {
	if t == nil || refLike(t) {
		v := a.val(rhs)
		for o := range cs {
			a.add(contentCell(o), v)
		}
		return
	}
	a.flow("", t, rhs)
}

func (a *pta) howOf(e ast.Expr) string {
	switch x := unparen(e).(type) {
	case nil:
		return "zero"
	case *ast.BasicLit:
		return "literal"
	case *ast.Ident:
		switch o := a.info.ObjectOf(x).(type) {
		case *types.Nil:
			return "nil"
		case *types.Var:
			if !a.isLocalVar(o) {
				return "global"
			}
			if a.cur != nil {
				if a.cur.Recv != nil {
					for _, f := range a.cur.Recv.List {
						for _, n := range f.Names {
							if a.info.Defs[n] == o {
								return "receiver"
							}
						}
					}
				}
				for _, f := range a.cur.Type.Params.List {
					for _, n := range f.Names {
						if a.info.Defs[n] == o {
							return "param"
						}
					}
				}
			}
			return "local"
		case *types.Func:
			return "func"
		case *types.Const:
			return "const"
		}
		return "ident"
	case *ast.CompositeLit:
		return "complit"
	case *ast.FuncLit:
		return "funclit"
	case *ast.UnaryExpr:
		if x.Op == token.AND {
			if _, ok := unparen(x.X).(*ast.CompositeLit); ok {
				return "complit"
			}
			if id, ok := unparen(x.X).(*ast.Ident); ok {
				if o := a.info.ObjectOf(id); o != nil && a.isLocalVar(o) {
					return "addr-of-local"
				}
				return "addr-of-global"
			}
			return "addr-of-" + a.howOf(x.X)
		}
		if x.Op == token.ARROW {
			return "receive"
		}
		return "expr"
	case *ast.SelectorExpr:
		if sel := a.info.Selections[x]; sel != nil && sel.Kind() == types.FieldVal {
			return "field"
		}
		return "selector"
	case *ast.IndexExpr:
		return "element"
	case *ast.StarExpr:
		return "deref"
	case *ast.SliceExpr:
		return "slice-of-" + a.howOf(x.X)
	case *ast.TypeAssertExpr:
		return "assert-" + a.howOf(x.X)
	case *ast.CallExpr:
		if tv, ok := a.info.Types[x.Fun]; ok && tv.IsType() {
			if len(x.Args) == 1 {
				return "convert-" + a.howOf(x.Args[0])
			}
			return "convert"
		}
		if id, ok := unparen(x.Fun).(*ast.Ident); ok {
			if _, isB := a.info.Uses[id].(*types.Builtin); isB {
				return id.Name
			}
		}
		return "call:" + a.show(x.Fun)
	}
	return "expr"
}

func (a *pta) localCallee(e *ast.CallExpr) bool {
	switch f := unparen(e.Fun).(type) {
	case *ast.Ident:
		if fn, ok := a.info.Uses[f].(*types.Func); ok {
			_, ok := a.fnOf[fn]
			return ok
		}
	case *ast.SelectorExpr:
		if sel := a.info.Selections[f]; sel != nil && sel.Kind() == types.MethodVal {
			if fn, ok := sel.Obj().(*types.Func); ok {
				if _, ok := a.fnOf[fn]; ok {
					return true
				}
				if types.IsInterface(sel.Recv()) && fn.Pkg() == a.tpkg {
					return true
				}
			}
		}
	}
	return false
}

func (a *pta) results(prefix string, n int) []oset {
	r := make([]oset, n)
	for i := range r {
		r[i] = a.cells[fmt.Sprintf("%s#%d", prefix, i)]
	}
	return r
}

// the methods named `name` of the package's concrete types that implement iface
func (a *pta) implementers(iface *types.Interface, name string) []*types.Func {
	var out []*types.Func
	seen := map[*types.Func]bool{}
	for _, tn := range a.named {
		if types.IsInterface(tn.Type()) {
			continue
		}
		for _, t := range []types.Type{tn.Type(), types.NewPointer(tn.Type())} {
			if !types.Implements(t, iface) {
				continue
			}
			o, _, _ := types.LookupFieldOrMethod(t, true, a.tpkg, name)
			if f, ok := o.(*types.Func); ok && !seen[f] {
				seen[f] = true
				out = append(out, f)
			}
		}
	}
	return out
}

func (a *pta) recordBinding(fn, v, kind string, t types.Type, from, value, how string, roots []string) {
	if !a.collect {
		return
	}
	b := bFact{fn, v, kind, a.typeStr(t), from, value, how, roots}
	key := fmt.Sprint(b)
	if a.seen[key] {
		return
	}
	a.seen[key] = true
	a.bindings = append(a.bindings, b)
}

// bind the receiver and the arguments of a call to a function of this package
func (a *pta) bind(fn *types.Func, recvExpr ast.Expr, recvIsIface bool, e *ast.CallExpr) []oset {
	a.noteCall(fn)
	d := a.fnOf[fn]
	name := a.fnName[d]
	sig := fn.Type().(*types.Signature)
	if rv := sig.Recv(); rv != nil && recvExpr != nil {
		var v oset
		rt := rv.Type()
		_, recvPtr := rt.Underlying().(*types.Pointer)
		et := a.typeOf(recvExpr)
		switch {
		case recvIsIface:
			// the dynamic type selects the method: an object allocated as a different type never gets here
			for o := range a.val(recvExpr) {
				if st, ok := a.siteTyp[o]; ok && !types.Identical(st, deref(rt)) {
					continue
				}
				v = union(v, single(o))
			}
		case recvPtr:
			if et != nil {
				if _, isPtr := et.Underlying().(*types.Pointer); isPtr {
					v = a.val(recvExpr)
				} else {
					v = a.addrOf(recvExpr)
				}
			}
		default: // value receiver
			if et != nil {
				if _, isPtr := et.Underlying().(*types.Pointer); isPtr && refLike(rt) {
					v = a.content(a.val(recvExpr))
				} else if refLike(rt) {
					v = a.val(recvExpr)
				} else if hasRef(rt) {
					a.flow("", rt, recvExpr)
				} else {
					a.val(recvExpr)
				}
			}
		}
		if rv.Name() != "" && rv.Name() != "_" {
			if refLike(rt) {
				a.add(a.varID(rv), v)
			}
			if refLike(rt) {
				a.recordBinding(name, rv.Name(), "receiver", rt, a.curName(), a.show(recvExpr), "call-site", classes(v))
			}
		}
	}
	ps := sig.Params()
	for i, arg := range e.Args {
		var p *types.Var
		variadicElem := false
		switch {
		case sig.Variadic() && i >= ps.Len()-1:
			p = ps.At(ps.Len() - 1)
			variadicElem = !e.Ellipsis.IsValid()
		case i < ps.Len():
			p = ps.At(i)
		}
		if p == nil {
			a.val(arg)
			continue
		}
		pid := ""
		if p.Name() != "" && p.Name() != "_" {
			pid = a.varID(p)
		}
		if variadicElem {
			s := a.site(e.Rparen, "variadic")
			a.add(pid, single(s))
			a.flowInto(single(s), p.Type().(*types.Slice).Elem(), arg)
			continue
		}
		cell := ""
		if refLike(p.Type()) {
			cell = pid
		}
		v := a.flow(cell, p.Type(), arg)
		if refLike(p.Type()) && pid != "" {
			a.recordBinding(name, p.Name(), "param", p.Type(), a.curName(), a.show(arg), "call-site", classes(v))
		}
	}
	rs := sig.Results()
	return a.results("R:"+name, rs.Len())
}

// classes of the targets of a write in the current function: a variable of ANOTHER function, reached
// through a pointer, is memory of that (calling) invocation: percall
func (a *pta) classesHere(s oset) []string {
	m := map[string]bool{}
	for o := range s {
		c := classOf(o)
		if c == "local" && !strings.HasPrefix(o, "V:"+a.curName()+".") {
			c = "percall"
		}
		m[c] = true
	}
	r := []string{}
	for c := range m {
		r = append(r, c)
	}
	sort.Strings(r)
	return r
}

func (a *pta) recordWrite(kind string, dst ast.Expr, label string, targets oset) {
	if !a.collect {
		return
	}
	rv := ""
	if id := a.rootOf(dst); id != nil {
		rv = id.Name
	}
	a.writes = append(a.writes, wFact{a.curName(), label, kind, rv, a.classesHere(targets), sorted(targets), a.via(dst, kind != "assign" && kind != "incdec" && kind != "range")})
}

// the identifier a destination expression starts from, looking through conversions, type
// assertions and & as well
func (a *pta) rootOf(e ast.Expr) *ast.Ident {
	for {
		switch t := e.(type) {
		case *ast.Ident:
			return t
		case *ast.SelectorExpr:
			e = t.X
		case *ast.IndexExpr:
			e = t.X
		case *ast.StarExpr:
			e = t.X
		case *ast.ParenExpr:
			e = t.X
		case *ast.SliceExpr:
			e = t.X
		case *ast.TypeAssertExpr:
			e = t.X
		case *ast.UnaryExpr:
			if t.Op != token.AND {
				return nil
			}
			e = t.X
		case *ast.CallExpr:
			if tv, ok := a.info.Types[t.Fun]; ok && tv.IsType() && len(t.Args) == 1 {
				e = t.Args[0]
			} else {
				return nil
			}
		default:
			return nil
		}
	}
}

// the reference-typed struct fields whose value is dereferenced on the way to the written memory
func (a *pta) via(e ast.Expr, whole bool) []string {
	out := []string{}
	var walk func(e ast.Expr, used bool)
	walk = func(e ast.Expr, used bool) {
		switch x := e.(type) {
		case *ast.ParenExpr:
			walk(x.X, used)
		case *ast.SelectorExpr:
			if sel := a.info.Selections[x]; sel != nil && sel.Kind() == types.FieldVal {
				if f, ok := sel.Obj().(*types.Var); ok && used && refLike(f.Type()) {
					out = append(out, a.fid(f))
				}
				walk(x.X, true)
			}
		case *ast.IndexExpr:
			walk(x.X, true)
		case *ast.SliceExpr:
			walk(x.X, true)
		case *ast.StarExpr:
			walk(x.X, true)
		case *ast.TypeAssertExpr:
			walk(x.X, true)
		case *ast.UnaryExpr:
			if x.Op == token.AND {
				walk(x.X, false)
			}
		case *ast.CallExpr: // a conversion
			if tv, ok := a.info.Types[x.Fun]; ok && tv.IsType() && len(x.Args) == 1 {
				walk(x.Args[0], used)
			}
		}
	}
	walk(e, whole)
	sort.Strings(out)
	return out
}

func (a *pta) call(e *ast.CallExpr) []oset {
	fun := unparen(e.Fun)
	// conversion
	if tv, ok := a.info.Types[fun]; ok && tv.IsType() {
		var v oset
		for _, arg := range e.Args {
			v = union(v, a.val(arg))
		}
		return []oset{v}
	}
	nres := 1
	if t := a.typeOf(e); t != nil {
		if tu, ok := t.(*types.Tuple); ok {
			nres = tu.Len()
		}
	}
	unknownRes := func() []oset {
		r := make([]oset, nres)
		if t := a.typeOf(e); t != nil {
			if tu, ok := t.(*types.Tuple); ok {
				for i := 0; i < tu.Len(); i++ {
					if refLike(tu.At(i).Type()) {
						r[i] = single(oUnknown)
					} else if hasRef(tu.At(i).Type()) {
						a.taint(tu.At(i).Type(), single(oUnknown), 0)
					}
				}
			} else if refLike(t) {
				r[0] = single(oUnknown)
			} else if hasRef(t) {
				a.taint(t, single(oUnknown), 0)
			}
		}
		return r
	}
	// code outside the package gets reference arguments: each may be written through
	external := func(name string, recv ast.Expr) []oset {
		all := []ast.Expr{}
		if recv != nil {
			all = append(all, recv)
		}
		all = append(all, e.Args...)
		for k, arg := range all {
			t := a.typeOf(arg)
			var v oset
			a.escapeMethods(t, arg)
			if k == 0 && recv != nil && t != nil && !isRef(t) {
				// method of a concrete type outside the package: a pointer receiver sees the variable
				if sel := a.info.Selections[fun.(*ast.SelectorExpr)]; sel != nil {
					if m, ok := sel.Obj().(*types.Func); ok {
						if _, isPtr := m.Type().(*types.Signature).Recv().Type().Underlying().(*types.Pointer); isPtr {
							v = a.addrOf(arg)
							a.recordWrite("extcall:"+name, arg, a.show(arg), v)
							continue
						}
					}
				}
			}
			if t == nil || refLike(t) {
				v = a.val(arg)
				if _, isLit := unparen(arg).(*ast.FuncLit); isLit {
					continue // a closure: its body has been analysed in place
				}
				if id, ok := unparen(arg).(*ast.Ident); ok {
					if _, isNil := a.info.ObjectOf(id).(*types.Nil); isNil {
						continue
					}
				}
				a.recordWrite("extcall:"+name, arg, a.show(arg), v)
			} else if hasRef(t) {
				a.structSources(arg)
				a.recordWrite("extcall:"+name, arg, a.show(arg), single(oUnknown))
			} else {
				a.val(arg)
			}
		}
		return unknownRes()
	}
	callback := func(what string) []oset {
		for _, arg := range e.Args {
			a.val(arg)
		}
		if a.collect {
			a.callbacks = append(a.callbacks, cbFact{a.curName(), a.show(fun), what})
		}
		return unknownRes()
	}

	switch f := fun.(type) {
	case *ast.Ident:
		switch o := a.info.Uses[f].(type) {
		case *types.Builtin:
			return a.builtin(o.Name(), e)
		case *types.Func:
			if _, ok := a.fnOf[o]; ok {
				return a.bind(o, nil, false, e)
			}
			return external(f.Name, nil)
		}
		// a function value held in a variable
		a.val(f)
		return callback("func-value")
	case *ast.SelectorExpr:
		sel := a.info.Selections[f]
		if sel == nil { // pkg.Func or pkg.Var(...)
			if _, ok := a.info.Uses[f.Sel].(*types.Func); ok {
				return external(a.show(f), nil)
			}
			return callback("func-value")
		}
		if sel.Kind() == types.FieldVal { // a function stored in a field
			a.val(f)
			return callback("func-field")
		}
		m, _ := sel.Obj().(*types.Func)
		if m == nil {
			a.val(f.X)
			return callback("unknown")
		}
		if types.IsInterface(sel.Recv()) {
			if m.Pkg() == a.tpkg {
				iface, _ := sel.Recv().Underlying().(*types.Interface)
				var res []oset
				for _, impl := range a.implementers(iface, m.Name()) {
					r := a.bind(impl, f.X, true, e)
					if res == nil {
						res = make([]oset, len(r))
					}
					for i := range r {
						if i < len(res) {
							res[i] = union(res[i], r[i])
						}
					}
				}
				if res == nil {
					a.val(f.X)
					return unknownRes()
				}
				return res
			}
			a.val(f.X)
			return callback("interface-method")
		}
		if _, ok := a.fnOf[m]; ok {
			if len(sel.Index()) > 1 { // promoted through an embedded field: not tracked
				if rv := m.Type().(*types.Signature).Recv(); rv != nil && refLike(rv.Type()) {
					a.add(a.varID(rv), single(oUnknown))
				}
			}
			return a.bind(m, f.X, false, e)
		}
		return external(a.show(f), f.X)
	case *ast.FuncLit:
		a.val(f)
		for _, arg := range e.Args {
			a.val(arg)
		}
		return a.results("R:"+a.site(f.Pos(), "funclit"), nres)
	}
	a.val(fun)
	return callback("computed")
}

// a value of a type of this package handed to code outside the package (sort.Sort, heap.Push, …):
// that code can call its methods, so they are on the query path, with this value as receiver
func (a *pta) escapeMethods(t types.Type, arg ast.Expr) {
	if t == nil {
		return
	}
	n, ok := deref(t).(*types.Named)
	if !ok || n.Obj().Pkg() != a.tpkg {
		return
	}
	var recv oset
	for _, rt := range []types.Type{n, types.NewPointer(n)} {
		ms := types.NewMethodSet(rt)
		for i := 0; i < ms.Len(); i++ {
			f, ok := ms.At(i).Obj().(*types.Func)
			if !ok {
				continue
			}
			if _, ok := a.fnOf[f]; !ok {
				continue
			}
			a.noteCall(f)
			rv := f.Type().(*types.Signature).Recv()
			if rv == nil || rv.Name() == "" || rv.Name() == "_" || !refLike(rv.Type()) {
				continue
			}
			if recv == nil {
				c := a.collect
				a.collect = false
				if isRef(t) {
					recv = a.val(arg)
				} else {
					recv = a.addrOf(arg)
				}
				a.collect = c
			}
			if _, isPtr := rv.Type().Underlying().(*types.Pointer); isPtr == isRefPtr(t) || !isPtr {
				a.add(a.varID(rv), recv)
			} else {
				a.add(a.varID(rv), union(recv, single(oUnknown)))
			}
			// parameters of reference type come from the outside code
			ps := f.Type().(*types.Signature).Params()
			for k := 0; k < ps.Len(); k++ {
				if p := ps.At(k); p.Name() != "" && p.Name() != "_" && refLike(p.Type()) {
					a.add(a.varID(p), single(oUnknown))
				}
			}
		}
	}
}

func isRefPtr(t types.Type) bool {
	_, ok := t.Underlying().(*types.Pointer)
	return ok
}

func (a *pta) builtin(name string, e *ast.CallExpr) []oset {
	switch name {
	case "make", "new":
		for _, arg := range e.Args[1:] {
			a.val(arg)
		}
		return []oset{single(a.site(e.Pos(), name))}
	case "append":
		if len(e.Args) == 0 {
			return []oset{nil}
		}
		sv := a.val(e.Args[0])
		grown := single(a.site(e.Pos(), "append"))
		res := union(sv, grown)
		var et types.Type
		if t := a.typeOf(e.Args[0]); t != nil {
			if sl, ok := t.Underlying().(*types.Slice); ok {
				et = sl.Elem()
			}
		}
		for i, arg := range e.Args[1:] {
			if e.Ellipsis.IsValid() && i == len(e.Args)-2 {
				c := a.content(a.val(arg))
				if et == nil || refLike(et) {
					for o := range res {
						a.add(contentCell(o), c)
					}
				}
				continue
			}
			a.flowInto(res, et, arg)
		}
		a.recordWrite("append", e.Args[0], a.show(e.Args[0]), res)
		return []oset{res}
	case "copy":
		if len(e.Args) == 2 {
			dv := a.val(e.Args[0])
			c := a.content(a.val(e.Args[1]))
			if t := a.typeOf(e.Args[0]); t != nil {
				if sl, ok := t.Underlying().(*types.Slice); ok && refLike(sl.Elem()) {
					for o := range dv {
						a.add(contentCell(o), c)
					}
				}
			}
			a.recordWrite("copy", e.Args[0], a.show(e.Args[0]), dv)
		}
		return []oset{nil}
	case "clear", "delete", "close":
		if len(e.Args) > 0 {
			dv := a.val(e.Args[0])
			for _, arg := range e.Args[1:] {
				a.val(arg)
			}
			a.recordWrite(name, e.Args[0], a.show(e.Args[0]), dv)
		}
		return []oset{nil}
	}
	for _, arg := range e.Args {
		a.val(arg)
	}
	if name == "recover" {
		return []oset{single(oUnknown)}
	}
	return []oset{nil}
}

// store the value of rhs (or the given set, when rhs is nil) into the lvalue lhs
func (a *pta) assign(lhs ast.Expr, rhs ast.Expr, given oset, define bool) {
	lhs = unparen(lhs)
	if id, ok := lhs.(*ast.Ident); ok && id.Name == "_" {
		a.val(rhs)
		return
	}
	t := a.typeOf(lhs)
	var v oset
	evalRHS := func(cell string) {
		if rhs != nil {
			v = a.flow(cell, t, rhs)
		} else {
			v = given
			if t == nil || refLike(t) {
				a.add(cell, v)
			}
		}
	}
	switch l := lhs.(type) {
	case *ast.Ident:
		o := a.info.ObjectOf(l)
		cell := ""
		if o != nil && a.isLocalVar(o) && (t == nil || refLike(t)) {
			cell = a.varID(o)
		}
		evalRHS(cell)
		if t != nil && !refLike(t) && !hasRef(t) {
			v = nil
		}
		if o != nil && a.isLocalVar(o) && a.collect && (refLike(t) || hasRef(t) || a.addrOfV[a.varID(o)]) {
			value, how := "(tuple)", "tuple"
			if rhs != nil {
				value, how = a.show(rhs), a.howOf(rhs)
			}
			kind := "assign"
			if define && a.info.Defs[l] != nil {
				kind = "define"
			}
			a.recordBinding(a.curName(), l.Name, kind, t, a.curName(), value, how, classes(v))
		}
	case *ast.SelectorExpr:
		if _, f, ok := a.fieldSel(l); ok {
			cell := ""
			if refLike(f.Type()) {
				cell = "F:" + a.fid(f)
			}
			evalRHS(cell)
			if a.collect && refLike(f.Type()) {
				value, how := "(tuple)", "tuple"
				if rhs != nil {
					value, how = a.show(rhs), a.howOf(rhs)
				}
				a.fieldInit = append(a.fieldInit, fiFact{a.curName(), a.fid(f), a.typeStr(f.Type()), value, "assign:" + how, classes(v)})
			}
		} else {
			evalRHS("")
		}
	default: // element, deref
		cs := a.locs(lhs)
		if l, ok := lhs.(*ast.IndexExpr); ok {
			// an element of an array field / array variable
			if xt := a.typeOf(l.X); xt != nil {
				if _, isArr := xt.Underlying().(*types.Array); isArr && refLike(xt) {
					a.assignArrayElem(l.X, rhs, given, t)
					return
				}
			}
		}
		if rhs != nil {
			if t == nil || refLike(t) {
				v = a.val(rhs)
			} else {
				a.flow("", t, rhs)
			}
		} else {
			v = given
		}
		if t == nil || refLike(t) {
			for o := range cs {
				a.add(contentCell(o), v)
			}
		}
	}
}

// arr[i] = rhs where arr is an array of references: the array expression's own cell grows
func (a *pta) assignArrayElem(arr ast.Expr, rhs ast.Expr, given oset, t types.Type) {
	v := given
	if rhs != nil {
		v = a.val(rhs)
	}
	switch x := unparen(arr).(type) {
	case *ast.Ident:
		if o := a.info.ObjectOf(x); o != nil && a.isLocalVar(o) {
			a.add(a.varID(o), v)
		}
	case *ast.SelectorExpr:
		if _, f, ok := a.fieldSel(x); ok {
			a.add("F:"+a.fid(f), v)
			if a.collect {
				value, how := "(tuple)", "tuple"
				if rhs != nil {
					value, how = a.show(rhs), a.howOf(rhs)
				}
				a.fieldInit = append(a.fieldInit, fiFact{a.curName(), a.fid(f), a.typeStr(f.Type()), value, "assign-element:" + how, classes(v)})
			}
		}
	default:
		for o := range a.locs(arr) {
			a.add(contentCell(o), v)
		}
	}
}

func (a *pta) stmt(s ast.Stmt) {
	switch s := s.(type) {
	case nil:
	case *ast.BlockStmt:
		if s == nil {
			return
		}
		for _, x := range s.List {
			a.stmt(x)
		}
	case *ast.ExprStmt:
		a.val(s.X)
	case *ast.AssignStmt:
		define := s.Tok == token.DEFINE
		if len(s.Lhs) == len(s.Rhs) {
			for i := range s.Lhs {
				a.assign(s.Lhs[i], s.Rhs[i], nil, define)
			}
		} else if len(s.Rhs) == 1 {
			var rs []oset
			switch r := unparen(s.Rhs[0]).(type) {
			case *ast.CallExpr:
				rs = a.call(r)
			default: // v, ok := x.(T) | m[k] | <-ch
				rs = []oset{a.val(s.Rhs[0])}
			}
			for i, l := range s.Lhs {
				var g oset
				if i < len(rs) {
					g = rs[i]
				}
				a.assign(l, nil, g, define)
			}
		}
		for _, l := range s.Lhs {
			if id, ok := unparen(l).(*ast.Ident); ok && (id.Name == "_" || (define && a.info.Defs[id] != nil)) {
				continue // a new variable is not a write to existing memory
			}
			a.recordWrite("assign", l, a.show(l), a.locsQuiet(l))
		}
	case *ast.IncDecStmt:
		a.recordWrite("incdec", s.X, a.show(s.X), a.locsQuiet(s.X))
	case *ast.SendStmt:
		ch := a.val(s.Chan)
		if t := a.typeOf(s.Value); t == nil || refLike(t) {
			v := a.val(s.Value)
			for o := range ch {
				a.add(contentCell(o), v)
			}
		} else {
			a.flow("", t, s.Value)
		}
		a.recordWrite("send", s.Chan, a.show(s.Chan)+" <-", ch)
	case *ast.GoStmt:
		a.val(s.Call)
		a.recordWrite("go", s.Call.Fun, "go "+a.show(s.Call.Fun), nil)
	case *ast.DeferStmt:
		a.val(s.Call)
	case *ast.ReturnStmt:
		prefix := a.resStack[len(a.resStack)-1]
		if len(s.Results) == 1 {
			if c, ok := unparen(s.Results[0]).(*ast.CallExpr); ok {
				if t, ok := a.typeOf(c).(*types.Tuple); ok && t.Len() > 1 {
					for i, r := range a.call(c) {
						a.add(fmt.Sprintf("%s#%d", prefix, i), r)
					}
					return
				}
			}
		}
		for i, r := range s.Results {
			t := a.typeOf(r)
			cell := ""
			if t == nil || refLike(t) {
				cell = fmt.Sprintf("%s#%d", prefix, i)
			}
			a.flow(cell, t, r)
		}
		if len(s.Results) == 0 && len(a.resStack) == 1 && a.cur != nil && a.cur.Type.Results != nil {
			i := 0
			for _, f := range a.cur.Type.Results.List {
				for _, n := range f.Names {
					if o := a.info.Defs[n]; o != nil && refLike(o.Type()) {
						a.add(fmt.Sprintf("%s#%d", prefix, i), a.cells[a.varID(o)])
					}
					i++
				}
			}
		}
	case *ast.DeclStmt:
		if gd, ok := s.Decl.(*ast.GenDecl); ok {
			for _, sp := range gd.Specs {
				vs, ok := sp.(*ast.ValueSpec)
				if !ok {
					continue
				}
				if len(vs.Values) == len(vs.Names) {
					for i, n := range vs.Names {
						a.assign(n, vs.Values[i], nil, true)
					}
				} else if len(vs.Values) == 1 {
					var rs []oset
					if c, ok := unparen(vs.Values[0]).(*ast.CallExpr); ok {
						rs = a.call(c)
					} else {
						rs = []oset{a.val(vs.Values[0])}
					}
					for i, n := range vs.Names {
						var g oset
						if i < len(rs) {
							g = rs[i]
						}
						a.assign(n, nil, g, true)
					}
				} else if a.collect {
					for _, n := range vs.Names {
						if o := a.info.Defs[n]; o != nil && (refLike(o.Type()) || a.addrOfV[a.varID(o)]) {
							a.recordBinding(a.curName(), n.Name, "define", o.Type(), a.curName(), "", "zero", nil)
						}
					}
				}
			}
		}
	case *ast.IfStmt:
		a.stmt(s.Init)
		a.val(s.Cond)
		a.stmt(s.Body)
		a.stmt(s.Else)
	case *ast.ForStmt:
		a.stmt(s.Init)
		a.val(s.Cond)
		a.stmt(s.Post)
		a.stmt(s.Body)
	case *ast.RangeStmt:
		cs := a.containers(s.X)
		xt := a.typeOf(s.X)
		var elems oset
		if xt != nil {
			if _, isArr := xt.Underlying().(*types.Array); isArr {
				elems = a.val(s.X)
			} else {
				elems = a.content(cs)
			}
		} else {
			elems = single(oUnknown)
		}
		for _, kv := range []ast.Expr{s.Key, s.Value} {
			if kv == nil {
				continue
			}
			t := a.typeOf(kv)
			if t == nil || refLike(t) {
				a.assign(kv, nil, elems, s.Tok == token.DEFINE)
			} else if hasRef(t) {
				var blobs oset
				for o := range cs {
					if isBlob(o) {
						blobs = union(blobs, single(o))
					}
				}
				a.taint(t, blobs, 0)
			}
			if id, isID := unparen(kv).(*ast.Ident); s.Tok == token.ASSIGN && !(isID && id.Name == "_") {
				a.recordWrite("range", kv, a.show(kv), a.locsQuiet(kv))
			}
		}
		a.stmt(s.Body)
	case *ast.SwitchStmt:
		a.stmt(s.Init)
		a.val(s.Tag)
		a.stmt(s.Body)
	case *ast.TypeSwitchStmt:
		a.stmt(s.Init)
		var x ast.Expr
		switch g := s.Assign.(type) {
		case *ast.ExprStmt:
			x = g.X
		case *ast.AssignStmt:
			if len(g.Rhs) == 1 {
				x = g.Rhs[0]
			}
		}
		var v oset
		if ta, ok := unparen(x).(*ast.TypeAssertExpr); ok {
			v = a.val(ta.X)
		}
		for _, c := range s.Body.List {
			if cc, ok := c.(*ast.CaseClause); ok {
				if o := a.info.Implicits[cc]; o != nil {
					a.add(a.varID(o), v)
				}
			}
		}
		a.stmt(s.Body)
	case *ast.CaseClause:
		for _, x := range s.List {
			a.val(x)
		}
		for _, x := range s.Body {
			a.stmt(x)
		}
	case *ast.SelectStmt:
		a.stmt(s.Body)
	case *ast.CommClause:
		a.stmt(s.Comm)
		for _, x := range s.Body {
			a.stmt(x)
		}
	case *ast.LabeledStmt:
		a.stmt(s.Stmt)
	}
}

// locs() of an expression that has been evaluated already: no fact is recorded twice
func (a *pta) locsQuiet(e ast.Expr) oset {
	c := a.collect
	a.collect = false
	r := a.locs(e)
	a.collect = c
	return r
}

func (a *pta) walkAll() {
	for _, d := range a.decls {
		if d.Body == nil {
			continue
		}
		a.cur = d
		a.resStack = []string{"R:" + a.fnName[d]}
		a.stmt(d.Body)
	}
	a.cur = nil
}

// entry points: exported functions and methods can be called by anybody
func (a *pta) seedEntries() {
	for _, d := range a.decls {
		if !d.Name.IsExported() {
			continue
		}
		if rn := recvName(d); rn != "" && !ast.IsExported(rn) {
			continue // methods of unexported types: receiver and parameters only from the call sites seen
		}
		name := a.fnName[d]
		if d.Recv != nil {
			for _, f := range d.Recv.List {
				rt := a.typeOf(f.Type)
				if !refLike(rt) {
					continue
				}
				s := single(oCallerArg)
				if a.isTreeType(deref(rt)) {
					s = single(oTree)
				}
				for _, n := range f.Names {
					if o := a.info.Defs[n]; o != nil {
						a.add(a.varID(o), s)
						if a.collect {
							a.recordBinding(name, n.Name, "receiver", rt, "(caller)", "", "entry", classes(s))
						}
					}
				}
			}
		}
		for _, f := range d.Type.Params.List {
			for _, n := range f.Names {
				o := a.info.Defs[n]
				if o == nil {
					continue
				}
				if refLike(o.Type()) {
					blob := oCallerArg
					if resultBufParams[name] == n.Name && types.TypeString(o.Type(), func(p *types.Package) string { return p.Name() }) == "[]orb.Pointer" {
						blob = oCallerBuf
						if a.collect {
							a.resultBufs = append(a.resultBufs, fmt.Sprintf("(%q, %q)", name, n.Name))
						}
					}
					a.add(a.varID(o), single(blob))
					if a.collect {
						a.recordBinding(name, n.Name, "param", o.Type(), "(caller)", "", "entry", []string{classOf(blob)})
					}
				} else if a.collect && a.addrOfV[a.varID(o)] {
					a.recordBinding(name, n.Name, "param", o.Type(), "(caller)", "", "by-value-copy", []string{})
				} else if hasRef(o.Type()) {
					a.taint(o.Type(), single(oCallerArg), 0)
				}
			}
		}
	}
}

// one-line, bounded rendering of an expression for the tables
func (a *pta) show(n ast.Node) string {
	s := strings.Join(strings.Fields(src(a.pk, n)), " ")
	if len(s) > 90 {
		s = s[:87] + "..."
	}
	return s
}

func leanList(s []string) string { return "[" + strings.Join(quoteAll(s), ", ") + "]" }

func genWrites() *leanFile {
	l := &leanFile{name: "Writes"}
	l.p("/- REGENERATED by factgen from /repo on every run. Do not edit.")
	l.p("   Package quadtree is type-checked and a whole-package points-to analysis classifies the memory")
	l.p("   every write on the read-only query path may land in.  Classes:")
	l.p("     local    a variable of the running function")
	l.p("     percall  memory allocated during the call (make, new, composite literal, append growth)")
	l.p("              or a local variable of a caller on the same query path (reached through a pointer)")
	l.p("     caller-buf  the result buffer `buf []orb.Pointer` supplied by the caller of a query method (per")
	l.p("              goroutine by the documented contract; the library may write it)")
	l.p("     caller-arg  any other reference handed in by the caller of an exported function: the filter, the")
	l.p("              pointer given to Add / Remove, the variadic limits slice (`lims...` passes the CALLER'S")
	l.p("              slice), receivers of non-tree types — nothing says these are per goroutine")
	l.p("     tree     the Quadtree struct, its nodes, anything loaded from them; any *node / *Quadtree")
	l.p("     global   package-level state;   unknown  anything that comes from outside the package")
	l.p("   An EMPTY class list means the analysis found nothing the destination could designate. -/")
	l.p("namespace Generated.Writes")
	l.p("")
	l.p("/-- one write: `kind` is assign | incdec | range | send | recv | go | append | copy | clear | delete | close |")
	l.p("    extcall:<callee> (a reference argument handed to code outside the package); `lhs` the written")
	l.p("    expression (for calls: the destination argument); `roots` the classes of the memory it may")
	l.p("    designate, `objs` the abstract objects; `rootVar` the identifier the path starts from and `via`")
	l.p("    the reference-typed struct fields (Type.field) whose value is dereferenced on the way -/")
	l.p("structure W where")
	l.p("  fn : String")
	l.p("  lhs : String")
	l.p("  kind : String")
	l.p("  roots : List String")
	l.p("  rootVar : String")
	l.p("  via : List String")
	l.p("  objs : List String")
	l.p("deriving Repr, DecidableEq")
	l.p("")
	l.p("/-- how a local variable / parameter / receiver gets a value: kind is define | assign | param |")
	l.p("    receiver, `frm` the function containing the statement or call site (\"(caller)\" at an exported")
	l.p("    entry point), `how` the shape of the value expression (make, new, complit, addr-of-local,")
	l.p("    local, param, receiver, field, element, slice-of-…, call:…, nil, zero, entry, call-site) -/")
	l.p("structure B where")
	l.p("  fn : String")
	l.p("  var : String")
	l.p("  kind : String")
	l.p("  typ : String")
	l.p("  frm : String")
	l.p("  value : String")
	l.p("  how : String")
	l.p("  roots : List String")
	l.p("deriving Repr, DecidableEq")
	l.p("")
	l.p("/-- how a reference-typed struct field is initialised (composite literal) or assigned -/")
	l.p("structure FI where")
	l.p("  fn : String")
	l.p("  owner : String   -- the struct type")
	l.p("  field : String   -- Type.field")
	l.p("  typ : String")
	l.p("  value : String")
	l.p("  how : String")
	l.p("  roots : List String")
	l.p("deriving Repr, DecidableEq")
	l.p("")

	qp := pkgs["quadtree"]
	var errs []string
	a := &pta{pk: qp, cells: map[string]oset{}, fnOf: map[*types.Func]*ast.FuncDecl{}, fnName: map[*ast.FuncDecl]string{},
		fieldID: map[*types.Var]string{}, varIDs: map[types.Object]string{}, varUsed: map[string]bool{},
		siteIDs: map[token.Pos]string{}, siteTyp: map[string]types.Type{}, siteCnt: map[string]int{}, calls: map[string]map[string]bool{},
		addrOfV: map[string]bool{}, seen: map[string]bool{}}
	missing := []string{}
	if qp == nil {
		errs = append(errs, "package quadtree not found")
		missing = append(missing, queryRoots...)
	} else {
		a.info = &types.Info{Types: map[ast.Expr]types.TypeAndValue{}, Defs: map[*ast.Ident]types.Object{}, Uses: map[*ast.Ident]types.Object{},
			Selections: map[*ast.SelectorExpr]*types.Selection{}, Implicits: map[ast.Node]types.Object{}}
		imp := &orbImporter{std: importer.ForCompiler(token.NewFileSet(), "source", nil), done: map[string]*types.Package{}, errs: &errs}
		a.tpkg, _ = imp.check(orbPath+"/quadtree", qp, a.info)
		names := []string{}
		for n := range qp.files {
			names = append(names, n)
		}
		sort.Strings(names)
		for _, n := range names {
			for _, d := range qp.files[n].Decls {
				if fd, ok := d.(*ast.FuncDecl); ok {
					a.decls = append(a.decls, fd)
					q := fd.Name.Name
					if r := recvName(fd); r != "" {
						q = r + "." + q
					}
					a.fnName[fd] = q
					if f, ok := a.info.Defs[fd.Name].(*types.Func); ok {
						a.fnOf[f] = fd
					}
				}
			}
		}
		if a.tpkg != nil {
			sc := a.tpkg.Scope()
			for _, n := range sc.Names() {
				if tn, ok := sc.Lookup(n).(*types.TypeName); ok {
					a.named = append(a.named, tn)
					if st, ok := tn.Type().Underlying().(*types.Struct); ok {
						for i := 0; i < st.NumFields(); i++ {
							a.fieldID[st.Field(i)] = tn.Name() + "." + st.Field(i).Name()
						}
					}
				}
			}
		}
	}

	byName := map[string]*ast.FuncDecl{}
	for _, d := range a.decls {
		byName[a.fnName[d]] = d
	}
	reach := map[string]bool{}
	if a.tpkg != nil {
		// fixpoint
		for round := 0; round < 100; round++ {
			a.changed = false
			a.seedEntries()
			a.walkAll()
			if !a.changed {
				break
			}
		}
		// reachability: every function of the package referenced (called, dispatched to through a
		// package interface, or taken as a value) from a function already reachable, plus — as before —
		// every function of the package that shares its bare NAME with something called
		bare := map[string][]string{}
		for _, d := range a.decls {
			bare[d.Name.Name] = append(bare[d.Name.Name], a.fnName[d])
		}
		todo := append([]string(nil), queryRoots...)
		for len(todo) > 0 {
			q := todo[len(todo)-1]
			todo = todo[:len(todo)-1]
			if reach[q] {
				continue
			}
			d := byName[q]
			if d == nil {
				missing = append(missing, q)
				continue
			}
			reach[q] = true
			for c := range a.calls[q] {
				todo = append(todo, c)
			}
			if d.Body != nil {
				ast.Inspect(d.Body, func(n ast.Node) bool {
					c, ok := n.(*ast.CallExpr)
					if !ok {
						return true
					}
					switch f := c.Fun.(type) {
					case *ast.Ident:
						todo = append(todo, bare[f.Name]...)
					case *ast.SelectorExpr:
						if x, ok := f.X.(*ast.Ident); ok {
							if _, isPkg := a.info.Uses[x].(*types.PkgName); isPkg {
								return true
							}
						}
						todo = append(todo, bare[f.Sel.Name]...)
					}
					return true
				})
			}
		}
		// collect the facts of the reachable functions
		a.collect = true
		a.seedEntries()
		for _, d := range a.decls {
			if d.Body == nil {
				continue
			}
			a.cur = d
			a.resStack = []string{"R:" + a.fnName[d]}
			nW, nC := len(a.writes), len(a.callbacks)
			a.stmt(d.Body)
			if !reach[a.fnName[d]] { // writes / callbacks only of the query path; bindings and field stores of the whole package
				a.writes, a.callbacks = a.writes[:nW], a.callbacks[:nC]
			}
		}
		a.cur = nil
		if a.changed {
			errs = append(errs, "points-to solution not stable")
		}
	} else if qp != nil {
		errs = append(errs, "type check of package quadtree produced no package")
	}
	queryFuncs := []string{}
	for q := range reach {
		queryFuncs = append(queryFuncs, q)
	}
	sort.Strings(queryFuncs)
	sort.Strings(missing)
	for _, m := range missing {
		anchorLost("quadtree." + m)
	}

	l.p("def reachable : List String := %s", leanList(queryFuncs))
	l.p("")
	l.p("/-- errors of the type checker on package quadtree (the analysis needs every expression typed) -/")
	l.p("def typeErrors : List String := %s", leanList(errs))
	l.p("")

	// package-level variables of package quadtree referenced by the query path
	var globals []string
	if a.tpkg != nil {
		for _, q := range queryFuncs {
			d := byName[q]
			if d == nil || d.Body == nil {
				continue
			}
			seen := map[string]bool{}
			ast.Inspect(d.Body, func(n ast.Node) bool {
				if id, ok := n.(*ast.Ident); ok {
					if v, ok := a.info.Uses[id].(*types.Var); ok && !v.IsField() && v.Pkg() != nil && v.Parent() == v.Pkg().Scope() && !seen[v.Pkg().Name()+"."+v.Name()] {
						seen[v.Pkg().Name()+"."+v.Name()] = true
						name := v.Name()
						if v.Pkg() != a.tpkg {
							name = v.Pkg().Name() + "." + name
						}
						globals = append(globals, fmt.Sprintf("(%q, %q)", q, name))
					}
				}
				return true
			})
		}
	}
	l.p("/-- package-level variables (of any package) referenced from the query path: (function, variable) -/")
	l.p("def globalsUsed : List (String × String) := [%s]", strings.Join(globals, ", "))
	l.p("")

	sort.SliceStable(a.writes, func(i, j int) bool { return a.writes[i].fn < a.writes[j].fn })
	l.p("def writes : List W := [")
	for i, f := range a.writes {
		comma := ","
		if i == len(a.writes)-1 {
			comma = ""
		}
		l.p("  ⟨%q, %q, %q, %s, %q, %s, %s⟩%s", f.fn, f.lhs, f.kind, leanList(f.roots), f.rootVar, leanList(f.via), leanList(f.objs), comma)
	}
	l.p("]")
	l.p("")
	sort.SliceStable(a.bindings, func(i, j int) bool {
		if a.bindings[i].fn != a.bindings[j].fn {
			return a.bindings[i].fn < a.bindings[j].fn
		}
		return a.bindings[i].v < a.bindings[j].v
	})
	l.p("/-- every way a reference-typed (or address-taken) variable of a function of the package gets a value -/")
	l.p("def bindings : List B := [")
	for i, b := range a.bindings {
		comma := ","
		if i == len(a.bindings)-1 {
			comma = ""
		}
		l.p("  ⟨%q, %q, %q, %q, %q, %q, %q, %s⟩%s", b.fn, b.v, b.kind, b.typ, b.from, b.value, b.how, leanList(b.roots), comma)
	}
	l.p("]")
	l.p("")
	sort.SliceStable(a.fieldInit, func(i, j int) bool { return a.fieldInit[i].field < a.fieldInit[j].field })
	l.p("/-- every store to a reference-typed struct field in the package (composite literals and assignments) -/")
	l.p("def fieldInits : List FI := [")
	for i, f := range a.fieldInit {
		comma := ","
		if i == len(a.fieldInit)-1 {
			comma = ""
		}
		owner := f.field
		if k := strings.LastIndex(owner, "."); k >= 0 {
			owner = owner[:k]
		}
		l.p("  ⟨%q, %q, %q, %q, %q, %q, %s⟩%s", f.fn, owner, f.field, f.typ, f.value, f.how, leanList(f.roots), comma)
	}
	l.p("]")
	l.p("")
	l.p("/-- calls into caller-supplied code on the query path: (function, callee expression, kind) -/")
	l.p("def callbacks : List (String × String × String) := [")
	for i, c := range a.callbacks {
		comma := ","
		if i == len(a.callbacks)-1 {
			comma = ""
		}
		l.p("  (%q, %q, %q)%s", c.fn, c.callee, c.via, comma)
	}
	l.p("]")
	l.p("")

	// the pruning-bound pointers of the per-call visitors
	a.collect = false
	l.p("/-- how the pruning-bound pointers of the per-call visitors are initialised -/")
	l.p("structure BI where")
	l.p("  fn : String")
	l.p("  field : String")
	l.p("  value : String")
	l.p("  kind : String   -- local-copy-of-q.bound | local | tree | address-of-tree | other …")
	l.p("deriving Repr, DecidableEq")
	var boundInits []string
	if a.tpkg != nil {
		for _, q := range queryFuncs {
			d := byName[q]
			if d == nil || d.Body == nil {
				continue
			}
			// the single initialiser of each local
			inits := map[types.Object][]string{}
			ast.Inspect(d.Body, func(n ast.Node) bool {
				if st, ok := n.(*ast.AssignStmt); ok && len(st.Lhs) == len(st.Rhs) {
					for i, lh := range st.Lhs {
						if id, ok := lh.(*ast.Ident); ok {
							if o := a.info.ObjectOf(id); o != nil {
								inits[o] = append(inits[o], src(qp, st.Rhs[i]))
							}
						}
					}
				}
				return true
			})
			a.cur = d
			ast.Inspect(d.Body, func(n ast.Node) bool {
				kv, ok := n.(*ast.KeyValueExpr)
				if !ok {
					return true
				}
				id, ok := kv.Key.(*ast.Ident)
				if !ok || (id.Name != "closestBound" && id.Name != "bound") {
					return true
				}
				what := strings.Join(classes(a.val(kv.Value)), "+")
				if u, ok := kv.Value.(*ast.UnaryExpr); ok && u.Op == token.AND {
					if x, ok := u.X.(*ast.Ident); ok {
						if o := a.info.ObjectOf(x); o != nil && a.isLocalVar(o) && !hasRef(o.Type()) {
							what = "local"
							if in := inits[o]; len(in) == 1 && in[0] == "q.bound" {
								what = "local-copy-of-q.bound"
							}
						}
					} else {
						what = "address-of-" + strings.Join(classes(a.locs(u.X)), "+")
					}
				}
				boundInits = append(boundInits, fmt.Sprintf("⟨%q, %q, %q, %q⟩", q, id.Name, src(qp, kv.Value), what))
				return true
			})
			a.cur = nil
		}
	}
	l.p("def boundInits : List BI := [")
	for i, b := range boundInits {
		comma := ","
		if i == len(boundInits)-1 {
			comma = ""
		}
		l.p("  %s%s", b, comma)
	}
	l.p("]")
	l.p("")
	l.p("def missingFuncs : List String := %s", leanList(missing))
	l.p("")
	sort.Strings(a.resultBufs)
	l.p("/-- the parameters classified `caller-buf`: (exported function, parameter), of type []orb.Pointer -/")
	l.p("def resultBuffers : List (String × String) := [%s]", strings.Join(a.resultBufs, ", "))
	l.p("")
	// comparisons of two interface values in the WHOLE package (not only on the query path): `==` / `!=`
	// between operands of interface type, neither of them the literal nil, and switch statements over a tag
	// of interface type.  Such a comparison panics at run time when both operands hold the same dynamic
	// type and that type is not comparable (a struct with a slice / map / func inside, a slice, a map).
	var ifaceCmp []string
	if a.tpkg != nil {
		isIface := func(e ast.Expr) bool {
			tv, ok := a.info.Types[e]
			if !ok || tv.IsNil() || tv.Type == nil {
				return false
			}
			_, isI := tv.Type.Underlying().(*types.Interface)
			return isI
		}
		for _, d := range a.decls {
			if d.Body == nil {
				continue
			}
			fn := a.fnName[d]
			ast.Inspect(d.Body, func(n ast.Node) bool {
				switch e := n.(type) {
				case *ast.BinaryExpr:
					if (e.Op == token.EQL || e.Op == token.NEQ) && isIface(e.X) && isIface(e.Y) {
						ifaceCmp = append(ifaceCmp, fmt.Sprintf("(%q, %q)", fn, a.show(e)))
					}
				case *ast.SwitchStmt:
					if e.Tag != nil && isIface(e.Tag) {
						ifaceCmp = append(ifaceCmp, fmt.Sprintf("(%q, %q)", fn, "switch "+a.show(e.Tag)))
					}
				}
				return true
			})
		}
	}
	l.p("/-- every comparison of two interface values (neither the literal nil) in package quadtree, the whole")
	l.p("    package: (function, expression).  Comparing two orb.Pointer values panics when they hold the same")
	l.p("    uncomparable dynamic type (a value struct with a slice or map inside, e.g. geojson.Feature). -/")
	l.p("def interfaceComparisons : List (String × String) := [%s]", strings.Join(ifaceCmp, ", "))
	l.p("end Generated.Writes")
	return l
}
