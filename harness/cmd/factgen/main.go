// Command factgen extracts facts from /repo's Go source (go/parser + go/ast only)
// into Lean definitions under lean/Generated, so that the theorems are re-checked
// against what the code says now.  It also writes a signature (hash of the
// comment-free printed AST) for every function, used as a staleness trip-wire.
package main

import (
	"bytes"
	"crypto/sha256"
	"encoding/json"
	"flag"
	"fmt"
	"go/ast"
	"go/parser"
	"go/printer"
	"go/token"
	"os"
	"path/filepath"
	"sort"
	"strings"
)

type pkgFiles struct {
	rel   string // package dir relative to the repo root ("." for the root)
	fset  *token.FileSet
	files map[string]*ast.File
}

var pkgs = map[string]*pkgFiles{}

func load(repo string) {
	filepath.Walk(repo, func(p string, info os.FileInfo, err error) error {
		if err != nil {
			return nil
		}
		if info.IsDir() {
			if strings.HasPrefix(info.Name(), ".") && p != repo {
				return filepath.SkipDir
			}
			return nil
		}
		if strings.HasSuffix(p, ".go") && !strings.HasSuffix(p, "_test.go") {
			// The harness is built with -tags verif.  Library code that is compiled only WITHOUT that tag
			// (or hook code that is compiled without it) would never be executed by any check while being
			// what every user runs: refuse such a tree outright.
			mentions, tagged := buildConstraint(p)
			hook := strings.HasPrefix(info.Name(), "verif_")
			if mentions && !hook {
				fmt.Fprintf(os.Stderr, "factgen: %s has a build constraint that mentions the verification tag `verif`; only verif_*.go hook files may\n", p)
				os.Exit(1)
			}
			if hook && !tagged {
				fmt.Fprintf(os.Stderr, "factgen: hook file %s is not guarded by `//go:build verif`\n", p)
				os.Exit(1)
			}
		}
		if !strings.HasSuffix(p, ".go") || strings.HasSuffix(p, "_test.go") || strings.HasSuffix(p, ".pb.go") ||
			strings.HasPrefix(info.Name(), "verif_") {
			return nil
		}
		rel, _ := filepath.Rel(repo, filepath.Dir(p))
		pk := pkgs[rel]
		if pk == nil {
			pk = &pkgFiles{rel: rel, fset: token.NewFileSet(), files: map[string]*ast.File{}}
			pkgs[rel] = pk
		}
		f, err := parser.ParseFile(pk.fset, p, nil, 0)
		if err != nil {
			fmt.Fprintln(os.Stderr, "factgen: parse error:", err)
			os.Exit(1)
		}
		pk.files[info.Name()] = f
		return nil
	})
}

// buildConstraint reports whether the file's header (everything before the package clause) has a
// //go:build or // +build line that mentions the word verif, and whether it is exactly guarded by it.
func buildConstraint(path string) (mentions, guarded bool) {
	data, err := os.ReadFile(path)
	if err != nil {
		return false, false
	}
	for _, line := range strings.Split(string(data), "\n") {
		t := strings.TrimSpace(line)
		if strings.HasPrefix(t, "package ") {
			break
		}
		if strings.HasPrefix(t, "//go:build") || strings.HasPrefix(t, "// +build") {
			if strings.Contains(t, "verif") {
				mentions = true
				rest := strings.TrimSpace(strings.TrimPrefix(strings.TrimPrefix(t, "//go:build"), "// +build"))
				if rest == "verif" {
					guarded = true
				}
			}
		}
	}
	return
}

func recvName(fd *ast.FuncDecl) string {
	if fd.Recv == nil || len(fd.Recv.List) == 0 {
		return ""
	}
	t := fd.Recv.List[0].Type
	if s, ok := t.(*ast.StarExpr); ok {
		t = s.X
	}
	if id, ok := t.(*ast.Ident); ok {
		return id.Name
	}
	return "?"
}

func funcKey(pk *pkgFiles, fd *ast.FuncDecl) string {
	k := pk.rel + "."
	if r := recvName(fd); r != "" {
		k += r + "."
	}
	return k + fd.Name.Name
}

func eachFunc(f func(pk *pkgFiles, file string, fd *ast.FuncDecl)) {
	rels := []string{}
	for r := range pkgs {
		rels = append(rels, r)
	}
	sort.Strings(rels)
	for _, r := range rels {
		pk := pkgs[r]
		names := []string{}
		for n := range pk.files {
			names = append(names, n)
		}
		sort.Strings(names)
		for _, n := range names {
			for _, d := range pk.files[n].Decls {
				if fd, ok := d.(*ast.FuncDecl); ok {
					f(pk, n, fd)
				}
			}
		}
	}
}

func findFunc(rel, recv, name string) (*pkgFiles, *ast.FuncDecl) {
	var rp *pkgFiles
	var rf *ast.FuncDecl
	eachFunc(func(pk *pkgFiles, file string, fd *ast.FuncDecl) {
		if pk.rel == rel && fd.Name.Name == name && recvName(fd) == recv {
			rp, rf = pk, fd
		}
	})
	return rp, rf
}

func src(pk *pkgFiles, n ast.Node) string {
	var b bytes.Buffer
	printer.Fprint(&b, pk.fset, n)
	return b.String()
}

// constant/var initialiser lookup: returns the printed expression
func valueOf(rel, name string) (string, bool) {
	pk := pkgs[rel]
	if pk == nil {
		return "", false
	}
	for _, f := range pk.files {
		for _, d := range f.Decls {
			gd, ok := d.(*ast.GenDecl)
			if !ok {
				continue
			}
			for _, s := range gd.Specs {
				vs, ok := s.(*ast.ValueSpec)
				if !ok {
					continue
				}
				for i, n := range vs.Names {
					if n.Name == name && i < len(vs.Values) {
						return src(pk, vs.Values[i]), true
					}
				}
			}
		}
	}
	return "", false
}

type leanFile struct {
	name string
	b    strings.Builder
}

func (l *leanFile) p(format string, a ...interface{}) { fmt.Fprintf(&l.b, format+"\n", a...) }

var lost []string

func anchorLost(what string) { lost = append(lost, what) }

func main() {
	repo := flag.String("repo", "/repo", "repository root")
	out := flag.String("out", "", "output dir for Generated/*.lean")
	sigs := flag.String("sigs", "", "output file for function signatures (json)")
	flag.Parse()
	load(*repo)
	if *out != "" {
		os.MkdirAll(*out, 0o755)
	}

	files := []*leanFile{genParams(), genSwitches(), genTables(), genWrites(), genTileGo()}
	files = append(files, genFloatTies()...) // translate_float.go: BoundGo, ClipGo, PlanarGo, … (float ties)
	files = append(files, genPkgState())     // pkgstate.go: package-level variables, imports, go statements per package (C17)
	for _, lf := range files {
		if err := os.WriteFile(filepath.Join(*out, lf.name+".lean"), []byte(lf.b.String()), 0o644); err != nil {
			fmt.Fprintln(os.Stderr, err)
			os.Exit(1)
		}
	}
	// Anchors
	var a strings.Builder
	a.WriteString("/- REGENERATED by factgen on every run: anchors that could not be resolved in the Go source. -/\nnamespace Generated\n")
	a.WriteString("def anchorsLost : List String := [")
	for i, l := range lost {
		if i > 0 {
			a.WriteString(", ")
		}
		fmt.Fprintf(&a, "%q", l)
	}
	a.WriteString("]\nend Generated\n")
	os.WriteFile(filepath.Join(*out, "Anchors.lean"), []byte(a.String()), 0o644)

	if *sigs != "" {
		m := map[string]string{}
		eachFunc(func(pk *pkgFiles, file string, fd *ast.FuncDecl) {
			h := sha256.Sum256([]byte(src(pk, fd)))
			m[funcKey(pk, fd)] = fmt.Sprintf("%x", h[:8])
		})
		b, _ := json.MarshalIndent(m, "", " ")
		os.WriteFile(*sigs, b, 0o644)
	}
}
