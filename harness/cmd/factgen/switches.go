package main

import (
	"fmt"
	"go/ast"
	"go/token"
	"sort"
	"strings"
)

var nineKinds = map[string]bool{"Point": true, "MultiPoint": true, "LineString": true, "MultiLineString": true,
	"Ring": true, "Polygon": true, "MultiPolygon": true, "Collection": true, "Bound": true}

// kindOf returns the geometry kind named by a case type expression (`orb.Point`, `Point`), or "".
func kindOf(e ast.Expr) string {
	switch t := e.(type) {
	case *ast.SelectorExpr:
		if id, ok := t.X.(*ast.Ident); ok && id.Name == "orb" && nineKinds[t.Sel.Name] {
			return t.Sel.Name
		}
	case *ast.Ident:
		if nineKinds[t.Name] {
			return t.Name
		}
	}
	return ""
}

// isPanicCall: a call that does not return — the builtin `panic`, `log.Panic*`, `log.Fatal*`, `os.Exit`.
func isPanicCall(c *ast.CallExpr) bool {
	switch f := c.Fun.(type) {
	case *ast.Ident:
		return f.Name == "panic"
	case *ast.SelectorExpr:
		if id, ok := f.X.(*ast.Ident); ok {
			if id.Name == "log" && (strings.HasPrefix(f.Sel.Name, "Panic") || strings.HasPrefix(f.Sel.Name, "Fatal")) {
				return true
			}
			if id.Name == "os" && f.Sel.Name == "Exit" {
				return true
			}
		}
	}
	return false
}

// panicsIn reports whether a non-returning call occurs anywhere inside n (at any depth: nested
// blocks, if/else arms, loops, function literals) at a source position after `after`.
// Deliberately conservative: a panic that is guarded by a condition, or that sits in unrelated later
// code, still counts — a switch flagged this way needs all nine kinds or an explicit justification.
func panicsIn(n ast.Node, after token.Pos) bool {
	found := false
	ast.Inspect(n, func(m ast.Node) bool {
		if c, ok := m.(*ast.CallExpr); ok && c.Pos() > after && isPanicCall(c) {
			found = true
		}
		return !found
	})
	return found
}

type swFact struct {
	pkg, fn     string
	idx         int
	kinds       []string
	other       []string // other case types (nil, pointers, …)
	hasDefault  bool
	defPanics   bool // a non-returning call anywhere in the default clause
	tailPanics  bool // a non-returning call anywhere after the switch in the enclosing function body
	emptyBodies int
}

// switchesIn collects the geometry type switches below `root` (a function body or a package-level
// initialiser) in source order — at ANY depth and inside ANY statement or expression: blocks, if /
// for / range / switch / select bodies, labelled statements, function literals (deferred, go'ed,
// assigned or passed as arguments).  `body` is the body of the innermost enclosing function.
func switchesIn(pk *pkgFiles, fn string, root ast.Node, body ast.Node, idx *int, out *[]swFact) {
	var stack []ast.Node       // nodes being visited
	bodies := []ast.Node{body} // enclosing function bodies (innermost last)
	ast.Inspect(root, func(n ast.Node) bool {
		if n == nil {
			top := stack[len(stack)-1]
			stack = stack[:len(stack)-1]
			if _, ok := top.(*ast.FuncLit); ok {
				bodies = bodies[:len(bodies)-1]
			}
			return true
		}
		stack = append(stack, n)
		switch st := n.(type) {
		case *ast.FuncLit:
			bodies = append(bodies, st.Body)
		case *ast.TypeSwitchStmt:
			f := swFact{pkg: pk.rel, fn: fn}
			seen := map[string]bool{}
			for _, cc := range st.Body.List {
				cl := cc.(*ast.CaseClause)
				if cl.List == nil {
					f.hasDefault = true
					for _, b := range cl.Body {
						if panicsIn(b, token.NoPos) {
							f.defPanics = true
						}
					}
				}
				if len(cl.Body) == 0 {
					f.emptyBodies++
				}
				for _, e := range cl.List {
					if k := kindOf(e); k != "" {
						if !seen[k] {
							seen[k] = true
							f.kinds = append(f.kinds, k)
						}
					} else {
						f.other = append(f.other, src(pk, e))
					}
				}
			}
			if len(f.kinds) >= 2 {
				*idx++
				f.idx = *idx
				f.tailPanics = panicsIn(bodies[len(bodies)-1], st.End())
				sort.Strings(f.kinds)
				*out = append(*out, f)
			}
		}
		return true
	})
}

func collectSwitches() []swFact {
	var out []swFact
	eachFunc(func(pk *pkgFiles, file string, fd *ast.FuncDecl) {
		if fd.Body == nil {
			return
		}
		idx := 0
		switchesIn(pk, strings.TrimPrefix(funcKey(pk, fd), pk.rel+"."), fd.Body, fd.Body, &idx, &out)
	})
	// function literals in package-level variable initialisers (`var f = func(g orb.Geometry) {…}`)
	rels := []string{}
	for r := range pkgs {
		rels = append(rels, r)
	}
	sort.Strings(rels)
	for _, r := range rels {
		pk := pkgs[r]
		names := []string{}
		for n := range pk.files {
			names = append(names, n)
		}
		sort.Strings(names)
		for _, n := range names {
			for _, d := range pk.files[n].Decls {
				gd, ok := d.(*ast.GenDecl)
				if !ok || gd.Tok != token.VAR {
					continue
				}
				for _, sp := range gd.Specs {
					vs, ok := sp.(*ast.ValueSpec)
					if !ok {
						continue
					}
					for i, v := range vs.Values {
						name := "var"
						if i < len(vs.Names) {
							name = "var " + vs.Names[i].Name
						}
						idx := 0
						switchesIn(pk, name, v, v, &idx, &out)
					}
				}
			}
		}
	}
	return out
}

func genSwitches() *leanFile {
	l := &leanFile{name: "Switches"}
	l.p("/- REGENERATED by factgen from /repo on every run. Do not edit.")
	l.p("   Every type switch in non-test code whose cases name at least two of the nine geometry kinds,")
	l.p("   wherever it stands (any nesting, labelled statements, select bodies, function literals,")
	l.p("   package-level initialisers). -/")
	l.p("namespace Generated.Switches")
	l.p("structure Sw where")
	l.p("  pkg : String")
	l.p("  fn : String")
	l.p("  idx : Nat            -- n-th such switch inside the function (source order)")
	l.p("  kinds : List String  -- geometry kinds named by the cases (sorted)")
	l.p("  hasDefault : Bool")
	l.p("  defaultPanics : Bool -- a non-returning call (panic, log.Panic*/Fatal*, os.Exit) anywhere in the default clause")
	l.p("  tailPanics : Bool    -- a non-returning call anywhere AFTER the switch in the enclosing function body")
	l.p("deriving Repr, DecidableEq")
	l.p("")
	l.p("def switches : List Sw := [")
	sw := collectSwitches()
	for i, f := range sw {
		ks := make([]string, len(f.kinds))
		for j, k := range f.kinds {
			ks[j] = fmt.Sprintf("%q", k)
		}
		comma := ","
		if i == len(sw)-1 {
			comma = ""
		}
		l.p("  ⟨%q, %q, %d, [%s], %v, %v, %v⟩%s", f.pkg, f.fn, f.idx, strings.Join(ks, ", "), f.hasDefault, f.defPanics, f.tailPanics, comma)
	}
	l.p("]")
	l.p("end Generated.Switches")
	return l
}
