package main

import (
	"bytes"
	"encoding/binary"
	"encoding/hex"
	"fmt"
	"runtime"
	"strings"
	"time"

	"github.com/paulmach/orb"
	"github.com/paulmach/orb/encoding/ewkb"
	"github.com/paulmach/orb/encoding/wkb"
)

func init() { register(&Prop{ID: "C05", Run: runC05, Gen: genC05}) }

// guardT runs f under recover and a watchdog (a decoder that loops forever is reported as "timeout";
// the goroutine is abandoned).
func guardT(f func() string) string {
	ch := make(chan string, 1)
	go func() { ch <- guard(f) }()
	select {
	case s := <-ch:
		return s
	case <-time.After(5 * time.Second):
		return "timeout"
	}
}

func allocDelta(f func()) uint64 {
	var a, b runtime.MemStats
	runtime.ReadMemStats(&a)
	f()
	runtime.ReadMemStats(&b)
	return b.TotalAlloc - a.TotalAlloc
}

func runC05(op string, in []string) string {
	switch op {
	case "wkb":
		var data []byte
		if in[0] != "empty" {
			var err error
			data, err = hex.DecodeString(in[0])
			if err != nil {
				return "badhex"
			}
		}
		cp := func() []byte { return append([]byte{}, data...) }
		var um string
		var umG orb.Geometry
		var umS int
		var umErr error
		// TotalAlloc is process-wide (the harness has other goroutines): take the minimum of three runs
		alloc := ^uint64(0)
		for rep := 0; rep < 3; rep++ {
			a := allocDelta(func() {
				um = guardT(func() string {
					umG, umS, umErr = ewkb.Unmarshal(cp())
					return wkbOutcome(umG, umS, umErr)
				})
			})
			if a < alloc {
				alloc = a
			}
		}
		st := guardT(func() string { return wkbOutcome(ewkb.NewDecoder(bytes.NewReader(cp())).Decode()) })
		scan := func(s interface{ Scan(interface{}) error }, get func() (orb.Geometry, int, bool)) string {
			return guardT(func() string {
				if err := s.Scan(cp()); err != nil {
					return "err " + wkbErrClass(err)
				}
				g, srid, valid := get()
				if !valid {
					return "invalid"
				}
				return fmt.Sprintf("ok %d %s", srid, gs(g))
			})
		}
		s1 := ewkb.Scanner(nil)
		sc := scan(s1, func() (orb.Geometry, int, bool) { return s1.Geometry, s1.SRID, s1.Valid })
		s2 := ewkb.ScannerPrefixSRID(nil)
		psc := scan(s2, func() (orb.Geometry, int, bool) { return s2.Geometry, s2.SRID, s2.Valid })
		s3 := wkb.Scanner(nil)
		wsc := scan(s3, func() (orb.Geometry, int, bool) { return s3.Geometry, 0, s3.Valid })
		// when a value is returned, re-encoding it and decoding again is stable
		stable := true
		if umErr == nil && umG != nil && um != "panic" && um != "timeout" {
			stable = guardT(func() string {
				b, err := ewkb.Marshal(umG, umS)
				if err != nil {
					return "0"
				}
				g2, s2, err := ewkb.Unmarshal(b)
				if err != nil || s2 != umS || gs(g2) != gs(umG) {
					return "0"
				}
				return "1"
			}) == "1"
		}
		return strings.Join([]string{um, st, sc, psc, wsc, fmt.Sprintf("A %d %s", alloc, b2s(stable))}, " ; ")
	}
	switch op {
	case "wkt":
		return runWKTHostile(in)
	case "mvt":
		return runMVTHostile(in)
	case "gj":
		return runGeoJSONHostile(in)
	}
	return "badop"
}

func hx(b []byte) string { return hexOrEmpty(b) }

func u32b(o binary.ByteOrder, v uint32) []byte { b := make([]byte, 4); o.PutUint32(b, v); return b }

func genC05(c *Ctx) {
	r := c.Rng
	// the other three decoder families: hostile streams built by the C04 / C03 / C02 plug-ins
	// (exhaustive short families + structure-aware mutations), judged by their handlers
	sub := *c
	quota := c.Budget / 4
	n := 0
	genWKTHostile(c, func(in string) {
		if n < quota || c.Tier == "thorough" {
			c.Case("wkt", in)
		}
		n++
	})
	n = 0
	genMVTHostile(c, func(in string) {
		if n < quota || c.Tier == "thorough" {
			c.Case("mvt", in)
		}
		n++
	})
	n = 0
	genGeoJSONHostile(c, func(in string) {
		if n < quota || c.Tier == "thorough" {
			c.Case("gj", in)
		}
		n++
	})
	_ = sub
	// exhaustive header family: order byte x type word x boundary counts x truncation point
	counts := []uint32{0, 1, 2, 1 << 28, 1<<28 + 1, 1 << 31, 1<<32 - 1}
	types := []uint32{0, 1, 2, 3, 4, 5, 6, 7, 8, 0x11, 1003, 0x20000001, 0x20000002, 0x20000003, 0x20000004, 0x20000005, 0x20000006, 0x20000007, 0x20000000, 0x80000001}
	tail := make([]byte, 48)
	for i := range tail {
		tail[i] = byte(i*37 + 1)
	}
	idx := 0
	for _, ob := range []byte{0, 1, 2} {
		var o binary.ByteOrder = binary.LittleEndian
		if ob == 0 {
			o = binary.BigEndian
		}
		for _, t := range types {
			for _, n := range counts {
				var full []byte
				full = append(full, ob)
				full = append(full, u32b(o, t)...)
				if t&0x20000000 != 0 {
					full = append(full, u32b(o, 4326)...)
				}
				full = append(full, u32b(o, n)...)
				// a nested member header + data so that multi types get something to chew on
				full = append(full, ob)
				full = append(full, u32b(o, (t&0xf+6)%7+1)...)
				full = append(full, u32b(o, n)...)
				full = append(full, tail...)
				for cut := 0; cut <= len(full); cut++ {
					idx++
					if !c.Mine(idx) {
						continue
					}
					if c.Tier != "thorough" && cut > 30 && cut%7 != 0 {
						continue
					}
					c.Case("wkb", hx(full[:cut]))
				}
			}
		}
	}
	// every 0..2 byte string (quick: sampled third byte)
	if c.Shard == 0 {
		c.Case("wkb", "empty")
		for a := 0; a < 256; a++ {
			c.Case("wkb", hx([]byte{byte(a)}))
			for b := 0; b < 256; b += 5 {
				c.Case("wkb", hx([]byte{byte(a), byte(b)}))
			}
		}
	}
	// structure-aware mutations of valid encodings
	for k := 0; k < c.Budget && !c.Exhausted(); k++ {
		g := genGeom(r, GenOpts{Mode: []CoordMode{CoordSmallInt, CoordBits}[r.Intn(2)], MaxPts: 5, MaxDepth: 3}, 0)
		var o binary.ByteOrder = binary.LittleEndian
		if r.Intn(2) == 0 {
			o = binary.BigEndian
		}
		b, err := ewkb.Marshal(g, []int{0, 4326}[r.Intn(2)], o)
		if err != nil || len(b) == 0 {
			continue
		}
		m := append([]byte(nil), b...)
		for n := 1 + r.Intn(3); n > 0; n-- {
			switch r.Intn(7) {
			case 0: // truncate
				m = m[:r.Intn(len(m)+1)]
			case 1: // bit flip
				if len(m) > 0 {
					m[r.Intn(len(m))] ^= 1 << uint(r.Intn(8))
				}
			case 2: // count inflation: overwrite a 4-byte aligned-ish word with a boundary count
				if len(m) >= 9 {
					p := 5 + r.Intn(len(m)-8)
					copy(m[p:], u32b(o, counts[r.Intn(len(counts))]))
				}
			case 3: // splice another encoding in
				g2 := genGeom(r, GenOpts{Mode: CoordSmallInt, MaxPts: 3, MaxDepth: 2}, 0)
				b2, _ := ewkb.Marshal(g2, 0, o)
				p := r.Intn(len(m) + 1)
				m = append(append(append([]byte(nil), m[:p]...), b2...), m[p:]...)
			case 4: // nesting: wrap as the single member of a collection / multi of claimed type
				hdr := append([]byte{m0(m)}, u32b(o, []uint32{7, 4, 5, 6}[r.Intn(4)])...)
				hdr = append(hdr, u32b(o, uint32(1+r.Intn(2)))...)
				m = append(hdr, m...)
			case 5: // hex framing, possibly damaged
				h := []byte(hex.EncodeToString(m))
				if r.Intn(2) == 0 {
					h = append([]byte(`\x`), h...)
				}
				if len(h) > 0 && r.Intn(3) == 0 {
					h[r.Intn(len(h))] = "gz _"[r.Intn(4)]
				}
				m = h
			case 6: // 4-byte prefix
				m = append(u32b(binary.LittleEndian, r.Uint32()), m...)
			}
		}
		if len(m) > 4096 {
			m = m[:4096]
		}
		c.Case("wkb", hx(m))
	}
}

func m0(m []byte) byte {
	if len(m) > 0 {
		return m[0]
	}
	return 1
}
