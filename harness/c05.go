package main

import (
	"bytes"
	"compress/gzip"
	"encoding/binary"
	"encoding/hex"
	"fmt"
	"os"
	"os/exec"
	"runtime"
	"strconv"
	"strings"
	"time"

	"github.com/paulmach/orb"
	"github.com/paulmach/orb/encoding/ewkb"
	"github.com/paulmach/orb/encoding/mvt/vectortile"
	"github.com/paulmach/orb/encoding/wkb"
	"github.com/paulmach/orb/encoding/wkt"
	"go.mongodb.org/mongo-driver/bson"
)

// C05 — decoders never panic, never loop forever, never over-allocate on hostile input.
//
// ops
//   wkb <hex> [dest]     => um ; st ; sc ; psc ; wsc ; dsc ; dpsc ; dwsc ; wum ; wst ; X <…> ; A <um> <st> <scan> <stable> <wum> <wst>
//                           ewkb.Unmarshal, the stream Decoder, ewkb.Scanner / ScannerPrefixSRID / wkb.Scanner
//                           into a nil destination, the same three scanners into the typed destination
//                           `dest` (one of c01Dests; default any), wkb.Unmarshal and wkb.NewDecoder(r).Decode()
//                           (wum, wst), the three scanners handed the bytes as a string / a nil slice (X: class
//                           only), TotalAlloc of ewkb.Unmarshal, of ewkb Decode, of ewkb.Scanner(dest).Scan, of
//                           wkb.Unmarshal and of wkb Decode, re-encoding stability of a returned value
//   selftest [run]       => ok <listed> <called> | fail <missing:name | uncalled:name>… | noprops
//                           every PUBLIC decoder entry point props.json lists for C05 (c05Entries) must be called
//                           on the hostile bytes by some op: the table is compared with props.json, sample inputs
//                           are run through every op and the call counters read (`run`: the counters of this
//                           shard's whole generation, no samples)
//   wkbnest <kind> <k>   => ok | err <class> | crash <what> | timeout
//                           k one-member multi (kind mls, mpoly) / collection (kind coll) headers around an
//                           empty member, decoded in a CHILD process (a Go stack overflow is fatal, not a panic);
//                           nestings up to a little beyond wkbcommon.MaxCollectionDepth also travel as `wkb`
//                           cases, where outcome and allocation are compared with the model
//   wkt / mvt / gj       the hostile streams of C04 / C03 / C02, run by their runners under a watchdog; then every
//                           listed entry point of the family is called DIRECTLY on the same bytes (c05Direct:
//                           `; ep <called> <name:panic>…`), the GeoJSON methods as methods (UnmarshalJSON(data) /
//                           UnmarshalBSON(data), not through json.Unmarshal / bson.Unmarshal as C02's runner does);
//                           gj also reports `; wf 0|1`: the bytes are a well-formed document (json.Valid /
//                           the strict parser c05BsonDoc) and, when C02's runner saw a panic, `; pw <origins>`
//                           (where the panics are raised: orb / bson / other): the known-finding label for
//                           corrupt BSON requires `wf 0` and `pw bson`;
//                           the wide families (c05_wide.go): tables of n = 100, 1000, 4000 entries of every kind
//
// Quick tier: the budget is apportioned per stream and per sub-family, in this order: the self-test and
// the witnesses of past fixes and of recorded findings (c05Witnesses, shard 0), the fixed families, a sample
// of the exhaustive tiny-input families, structure-aware mutations, the wide families (c05_wide.go), the
// self-test of the call counters.

func init() {
	// child mode of the `wkbnest` op (see c05NestChild); must run before flag parsing
	if a := os.Getenv("ORBVERIF_C05_NEST"); a != "" {
		c05NestChild(a)
	}
	register(&Prop{ID: "C05", Run: runC05, Gen: genC05})
}

// --- watchdog -------------------------------------------------------------------------------------

// guardTL runs f under recover and a watchdog.  The limit is counted in 10 ms ticks of a ticker, not
// read off the wall clock: a ticker drops the ticks nobody waits for, so a stall of the whole process
// (an overloaded machine, a stopped container) costs one tick, whereas a decoder that loops outlasts
// all of them.  A decoder that does not come back within `first` is then given a second, `again` times
// longer chance, and only then reported as "timeout"; the goroutines are abandoned.
func guardTL(first time.Duration, again int, f func() string) string {
	run := func(d time.Duration) (string, bool) {
		ch := make(chan string, 1)
		go func() { ch <- guard(f) }()
		tk := time.NewTicker(10 * time.Millisecond)
		defer tk.Stop()
		for n := int(d / (10 * time.Millisecond)); n > 0; n-- {
			select {
			case s := <-ch:
				return s, true
			case <-tk.C:
			}
		}
		select {
		case s := <-ch:
			return s, true
		default:
			return "", false
		}
	}
	if s, ok := run(first); ok {
		return s
	}
	if s, ok := run(time.Duration(again) * first); ok {
		return s
	}
	return "timeout"
}

// guardT: the WKB decoders answer in microseconds (the largest recorded witness in 0.2 s).
func guardT(f func() string) string { return guardTL(5*time.Second, 12, f) }

// the delegated runners decode one input through up to nine entry points and measure some of them
// three times; the largest recorded inputs need seconds (and C02's runner has a 120 s watchdog of its
// own inside): 150 s, then 450 s more
const c05DelegatedLimit = 150 * time.Second

func allocDelta(f func()) uint64 {
	var a, b runtime.MemStats
	runtime.ReadMemStats(&a)
	f()
	runtime.ReadMemStats(&b)
	return b.TotalAlloc - a.TotalAlloc
}

// c05Measure: TotalAlloc is process-wide (the harness has other goroutines), so a measurement that
// looks large is repeated and the minimum taken.
// (16 bytes per input byte + 4 KiB is below every bound Driver/C05 applies: whatever could fail is repeated)
func c05Measure(n int, f func()) uint64 { return c05MeasureAbove(uint64(16*n+4096), f) }

// c05MeasureAbove: a figure above `thr` is measured again; two measurements that agree are the decoder's
// own (it is deterministic), two that differ show a burst of the harness's other goroutines, which is
// waited out (c05Pause) before the next one; the minimum is kept.
func c05MeasureAbove(thr uint64, f func()) uint64 {
	a := allocDelta(f)
	for k := 0; k < 4 && a > thr; k++ {
		// the repetitions run with GOMAXPROCS 1, as testing.AllocsPerRun does: no other goroutine of the
		// harness runs in parallel with the measured call
		a2 := func() uint64 {
			defer runtime.GOMAXPROCS(runtime.GOMAXPROCS(1))
			return allocDelta(f)
		}()
		same := a2 <= a+512 && a <= a2+512
		if a2 < a {
			a = a2
		}
		if same {
			break
		}
		c05Pause(k)
	}
	return a
}

// c05Pause: before the k-th repetition of a suspicious measurement.  The harness's collector goroutine
// allocates while it files an answered line (strings.Fields of a line of 100 000 tokens: megabytes, over
// several milliseconds): repetitions microseconds apart would all fall into the same burst.
func c05Pause(k int) { time.Sleep(time.Duration((k+1)*(k+1)) * 5 * time.Millisecond) }

// c05WKTTypedAlloc: the largest TotalAlloc delta of one call among the seven typed WKT parsers.
func c05WKTTypedAlloc(s string) uint64 {
	fs := []func(){
		func() { wkt.UnmarshalPoint(s) }, func() { wkt.UnmarshalMultiPoint(s) }, func() { wkt.UnmarshalLineString(s) },
		func() { wkt.UnmarshalMultiLineString(s) }, func() { wkt.UnmarshalPolygon(s) }, func() { wkt.UnmarshalMultiPolygon(s) },
		func() { wkt.UnmarshalCollection(s) },
	}
	var worst uint64
	for _, f := range fs {
		f := f
		g := func() { guard(func() string { f(); return "" }) }
		a := c05MeasureAbove(wktAllocBudget(len(s)), g)
		if a > worst {
			worst = a
		}
	}
	return worst
}

// c05Figures: the allocation figures a delegated runner reports and the length they are judged against
// (sections `U c n ; G c n d` of C03's runner, `alloc a len t` of C02's, `alloc n` / `talloc n` of C04's and ours).
func c05Figures(op string, in []string, out string) (worst uint64, n int) {
	switch op {
	case "mvt":
		if in[0] != "empty" {
			n = len(in[0]) / 2
		}
	case "wkt":
		n = len(wktUnhex(in[0]))
	}
	for _, sec := range strings.Split(out, " ; ") {
		f := strings.Fields(sec)
		var vals []string
		switch {
		case len(f) == 3 && f[0] == "U":
			vals = f[2:3]
		case len(f) == 4 && f[0] == "G" && f[3] == "0": // the gzipped call is judged against the unzipped length
			vals = f[2:3]
		case len(f) == 4 && f[0] == "alloc":
			vals = []string{f[1], f[3]}
			n, _ = strconv.Atoi(f[2])
		case len(f) == 2 && (f[0] == "alloc" || f[0] == "talloc"):
			vals = f[1:2]
		}
		for _, v := range vals {
			if u, err := strconv.ParseUint(v, 10, 64); err == nil && u > worst {
				worst = u
			}
		}
	}
	return worst, n
}

// c05Steady runs a delegated runner; when an allocation figure it reports looks large for the input
// (above the bound the op's driver applies: c05RetryAbove) and the run was
// quick, the whole runner is run again after a pause, up to three times, and the run with the smallest
// figure kept.  The runners repeat a suspicious measurement themselves, but microseconds apart, and
// the bursts of the harness's collector goroutine (see c05Pause) last milliseconds; the decoders are
// deterministic in what they allocate, so a figure that is large every time is the decoder's.
// c05RetryAbove: the allocation bounds of Driver/C03 (allocPerByte, allocFixed), Driver/C02 (allocBound) and
// Driver/C04 (allocC, allocK); used only to decide whether a run is repeated, never for a verdict.
func c05RetryAbove(op string, n int) uint64 {
	switch op {
	case "gj":
		return uint64(1024*n + 1048576)
	case "wkt":
		return wktAllocBudget(n)
	}
	return uint64(64*n + 65536)
}

func c05Steady(op string, in []string, run func() string) string {
	t0 := time.Now()
	out := run()
	// the delegated runners' own watchdogs read the wall clock (C04: 20 s, C02: 3 x 40 s): a stall of the
	// process makes them fire on inputs that decode in microseconds (seen under load: seven in one thorough
	// run).  A timeout is given two more chances; a decoder that really loops outlasts them all.
	for k := 0; k < 2 && out == "timeout"; k++ {
		time.Sleep(200 * time.Millisecond)
		t0 = time.Now()
		out = run()
	}
	if out == "timeout" || out == "panic" || strings.HasPrefix(out, "bad") || len(in) == 0 {
		return out
	}
	worst, n := c05Figures(op, in, out)
	for k := 1; k <= 3 && worst > c05RetryAbove(op, n) && time.Since(t0) < 2*time.Second; k++ {
		time.Sleep(time.Duration(k*k) * 20 * time.Millisecond)
		o2 := run()
		if o2 == "timeout" || o2 == "panic" {
			break
		}
		w2, _ := c05Figures(op, in, o2)
		same := w2 <= worst+worst/64 && worst <= w2+w2/64
		if w2 < worst {
			out, worst = o2, w2
		}
		if same { // the same figure twice: the decoder's own
			break
		}
	}
	return out
}

// --- runner ---------------------------------------------------------------------------------------

func runC05(op string, in []string) string {
	switch op {
	case "wkb":
		return runC05WKB(in)
	case "wkbnest":
		return runC05Nest(in)
	case "selftest":
		return runC05SelfTest(in)
	case "wkt":
		return guardTL(c05DelegatedLimit, 3, func() string {
			if len(in) == 0 {
				return runWKTHostile(in)
			}
			// C04's runner measures wkt.Unmarshal; the seven typed parsers are measured here
			s := wktUnhex(in[0])
			out := c05Steady("wkt", in, func() string {
				o := runWKTHostile(in)
				if o == "timeout" || o == "panic" {
					return o
				}
				return o + " ; talloc " + strconv.FormatUint(c05WKTTypedAlloc(s), 10)
			})
			if out == "timeout" || out == "panic" {
				return out
			}
			return out + " ; " + c05Direct("wkt", []byte(s))
		})
	case "mvt":
		return guardTL(c05DelegatedLimit, 3, func() string {
			out := c05Steady("mvt", in, func() string { return runMVTHostile(in) })
			if out == "timeout" || out == "panic" || out == "badinput" {
				return out
			}
			var data []byte
			if in[0] != "empty" {
				data, _ = hex.DecodeString(in[0])
			}
			return out + " ; " + c05Direct("mvt", data)
		})
	case "gj":
		return guardTL(c05DelegatedLimit, 3, func() string {
			out := c05Steady("gj", in, func() string { return runGeoJSONHostile(in) })
			if out == "timeout" || out == "panic" || out == "badinput" || (in[0] != "json" && in[0] != "bson") {
				return out
			}
			var data []byte
			if in[1] != "empty" {
				data, _ = hex.DecodeString(in[1])
			}
			pw := ""
			for _, t := range strings.Fields(out) {
				if t == "panic" {
					pw = " ; " + c05PanicWho(in[0], data)
					break
				}
			}
			return out + pw + " ; " + c05WellFormed(in[0], data) + " ; " + c05Direct(in[0], data)
		})
	}
	return "badop"
}

func runC05WKB(in []string) string {
	if len(in) < 1 {
		return "badinput"
	}
	var data []byte
	if in[0] != "empty" {
		var err error
		data, err = hex.DecodeString(in[0])
		if err != nil {
			return "badhex"
		}
	}
	dest := "any"
	if len(in) > 1 {
		dest = in[1]
		ok := false
		for _, d := range c01Dests {
			ok = ok || d == dest
		}
		if !ok {
			return "baddest"
		}
	}
	cp := func() []byte { return append([]byte{}, data...) }
	var umG orb.Geometry
	var umS int
	var umErr error
	um := guardT(func() string {
		c05Hit("encoding/ewkb.Unmarshal")
		umG, umS, umErr = ewkb.Unmarshal(cp())
		return wkbOutcome(umG, umS, umErr)
	})
	st := guardT(func() string {
		c05Hit("encoding/ewkb.NewDecoder", "encoding/ewkb.Decoder.Decode")
		return wkbOutcome(ewkb.NewDecoder(bytes.NewReader(cp())).Decode())
	})
	// the three scanner wrappers; `which` 0 ewkb.Scanner, 1 ewkb.ScannerPrefixSRID, 2 wkb.Scanner;
	// arg: what Scan is handed — the bytes, the bytes as a string, a nil slice
	scanArg := func(which int, d string, arg func() interface{}) string {
		return guardT(func() string {
			dst, read := newDest(d)
			var err error
			var g orb.Geometry
			var srid int
			var valid bool
			switch which {
			case 0, 1:
				var s *ewkb.GeometryScanner
				if which == 0 {
					c05Hit("encoding/ewkb.Scanner", "encoding/ewkb.GeometryScanner.Scan")
					s = ewkb.Scanner(dst)
				} else {
					c05Hit("encoding/ewkb.ScannerPrefixSRID", "encoding/ewkb.GeometryScanner.Scan")
					s = ewkb.ScannerPrefixSRID(dst)
				}
				err = s.Scan(arg())
				g, srid, valid = s.Geometry, s.SRID, s.Valid
			default:
				c05Hit("encoding/wkb.Scanner", "encoding/wkb.GeometryScanner.Scan")
				s := wkb.Scanner(dst)
				err = s.Scan(arg())
				g, valid = s.Geometry, s.Valid
			}
			if err != nil {
				return "err " + wkbErrClass(err)
			}
			if !valid {
				return "invalid"
			}
			if read != nil && gs(read()) != gs(g) {
				return "dest-differs " + gs(read())
			}
			return fmt.Sprintf("ok %d %s", srid, gs(g))
		})
	}
	scan := func(which int, d string) string { return scanArg(which, d, func() interface{} { return cp() }) }
	outs := []string{um, st}
	hung := um == "timeout" || st == "timeout"
	for _, sc := range []struct {
		which int
		d     string
	}{{0, "any"}, {1, "any"}, {2, "any"}, {0, dest}, {1, dest}, {2, dest}} {
		o := "timeout" // after one decoder has hung the verdict is settled: do not wait for the others
		if !hung {
			o = scan(sc.which, sc.d)
			hung = o == "timeout"
		}
		outs = append(outs, o)
	}
	// package wkb's own byte and stream decoder (the wrappers drop the SRID and map the errors)
	for _, f := range []func() string{
		func() string {
			c05Hit("encoding/wkb.Unmarshal")
			g, err := wkb.Unmarshal(cp())
			return wkbOutcome(g, 0, err)
		},
		func() string {
			c05Hit("encoding/wkb.NewDecoder", "encoding/wkb.Decoder.Decode")
			g, err := wkb.NewDecoder(bytes.NewReader(cp())).Decode()
			return wkbOutcome(g, 0, err)
		},
	} {
		o := "timeout"
		if !hung {
			o = guardT(f)
			hung = o == "timeout"
		}
		outs = append(outs, o)
	}
	// Scan is handed an interface{}: the same bytes as a string (unsupported data type) and a nil slice
	// (SQL NULL) must come back too; outcome classes only
	var xs []string
	for which := 0; which < 3; which++ {
		for _, arg := range []func() interface{}{
			func() interface{} { return string(data) },
			func() interface{} { return []byte(nil) },
		} {
			o := "timeout"
			if !hung {
				o = scanArg(which, dest, arg)
				hung = o == "timeout"
			}
			if f := strings.Fields(o); len(f) > 2 && f[0] == "ok" {
				o = "ok"
			}
			xs = append(xs, strings.Replace(o, " ", ":", -1))
		}
	}
	bad := false
	for _, o := range append(append([]string{}, outs...), xs...) {
		bad = bad || o == "panic" || o == "timeout"
	}
	// a long outcome (thousands of tokens for a long geometry) is written once: `= j` stands for outs[j]
	for i := range outs {
		for j := 0; j < i; j++ {
			if len(outs[i]) > 64 && outs[i] == outs[j] {
				outs[i] = "= " + strconv.Itoa(j)
				break
			}
		}
	}
	outs = append(outs, "X "+strings.Join(xs, " "))
	// allocation of the kinds of entry point (only when every call came back: the calls are
	// deterministic, so the measured repetitions need no watchdog of their own)
	var aum, ast, asc, awum, awst uint64
	if !bad {
		awum = c05Measure(len(data), func() { guard(func() string { wkb.Unmarshal(cp()); return "" }) })
		awst = c05Measure(len(data), func() {
			guard(func() string { wkb.NewDecoder(bytes.NewReader(cp())).Decode(); return "" })
		})
		aum = c05Measure(len(data), func() { guard(func() string { ewkb.Unmarshal(cp()); return "" }) })
		ast = c05Measure(len(data), func() {
			guard(func() string { ewkb.NewDecoder(bytes.NewReader(cp())).Decode(); return "" })
		})
		asc = c05Measure(len(data), func() {
			guard(func() string { dst, _ := newDest(dest); ewkb.Scanner(dst).Scan(cp()); return "" })
		})
	}
	// when a value is returned, re-encoding it and decoding again is stable
	stable := true
	if umErr == nil && umG != nil && um != "panic" && um != "timeout" {
		stable = guardT(func() string {
			b, err := ewkb.Marshal(umG, umS)
			if err != nil {
				return "0"
			}
			g2, s2, err := ewkb.Unmarshal(b)
			if err != nil || s2 != umS || gs(g2) != gs(umG) {
				return "0"
			}
			return "1"
		}) == "1"
	}
	outs = append(outs, fmt.Sprintf("A %d %d %d %s %d %d", aum, ast, asc, b2s(stable), awum, awst))
	return strings.Join(outs, " ; ")
}

// --- deep nesting: run in a child process ----------------------------------------------------------

func c05NestInput(kind string, k int) []byte {
	typ, leaf := byte(5), byte(2)
	switch kind {
	case "mpoly":
		typ, leaf = 6, 3
	case "coll":
		typ = 7
	}
	b := make([]byte, 0, 9*k+9)
	for i := 0; i < k; i++ {
		b = append(b, 1, typ, 0, 0, 0, 1, 0, 0, 0)
	}
	return append(b, 1, leaf, 0, 0, 0, 0, 0, 0, 0)
}

// c05NestChild: `kind:k` — decode and exit; a stack overflow kills this process, not the harness.
func c05NestChild(arg string) {
	f := strings.Split(arg, ":")
	k, _ := strconv.Atoi(f[1])
	data := c05NestInput(f[0], k)
	var err error
	if f[0] == "coll" {
		_, _, err = ewkb.NewDecoder(bytes.NewReader(data)).Decode()
	} else {
		_, _, err = ewkb.Unmarshal(data)
	}
	if err != nil {
		fmt.Println("err " + wkbErrClass(err))
	} else {
		fmt.Println("ok")
	}
	os.Exit(0)
}

func runC05Nest(in []string) string {
	if len(in) != 2 || (in[0] != "mls" && in[0] != "mpoly" && in[0] != "coll") {
		return "badinput"
	}
	k, err := strconv.Atoi(in[1])
	if err != nil || k < 0 || k > 20000000 {
		return "badinput"
	}
	cmd := exec.Command(os.Args[0])
	cmd.Env = append(os.Environ(), "ORBVERIF_C05_NEST="+in[0]+":"+in[1])
	var so, se bytes.Buffer
	cmd.Stdout, cmd.Stderr = &so, &se
	if err := cmd.Start(); err != nil {
		return "badstart"
	}
	done := make(chan error, 1)
	go func() { done <- cmd.Wait() }()
	select {
	case err = <-done:
	case <-time.After(10 * time.Minute):
		cmd.Process.Kill()
		return "timeout"
	}
	if err != nil {
		if strings.Contains(se.String(), "stack overflow") {
			return "crash stack-overflow"
		}
		return "crash other"
	}
	out := strings.TrimSpace(so.String())
	if out == "" {
		return "crash silent"
	}
	return out
}

// --- witnesses of past fixes and of recorded findings ----------------------------------------------

func hx(b []byte) string { return hexOrEmpty(b) }

func u32b(o binary.ByteOrder, v uint32) []byte { b := make([]byte, 4); o.PutUint32(b, v); return b }

func c05Gzip(b []byte) []byte {
	var buf bytes.Buffer
	zw := gzip.NewWriter(&buf)
	zw.Write(b)
	zw.Close()
	return buf.Bytes()
}

// c05NestedMulti: the input family `Orb.WKB.nestedMultiInput` (a multi claiming k+1 members, k nested
// one-member multi headers, an empty member): it used to be decoded, in quadratic time and allocation,
// by the byte-slice decoder (fixed: a member must be of the plain type; ErrIncorrectGeometry for k >= 1).
func c05NestedMulti(typ, leaf byte, k int) []byte {
	b := append([]byte{1, typ, 0, 0, 0}, u32b(binary.LittleEndian, uint32(k+1))...)
	for i := 0; i < k; i++ {
		b = append(b, 1, typ, 0, 0, 0, 1, 0, 0, 0)
	}
	return append(b, 1, leaf, 0, 0, 0, 0, 0, 0, 0)
}

// c05NestedColl: k nested one-member collections around LINESTRING EMPTY; wide: every collection but the
// innermost claims a second member, a point that follows the nested collection.
func c05NestedColl(k int, wide bool, o binary.ByteOrder) []byte {
	ob := byte(1)
	if o == binary.BigEndian {
		ob = 0
	}
	var b []byte
	for i := 0; i < k; i++ {
		n := uint32(1)
		if wide && i < k-1 {
			n = 2
		}
		b = append(append(append(b, ob), u32b(o, 7)...), u32b(o, n)...)
	}
	b = append(append(append(b, ob), u32b(o, 2)...), u32b(o, 0)...)
	if wide {
		for i := 0; i < k-1; i++ {
			b = append(append(b, ob), u32b(o, 1)...)
			b = append(b, 0, 0, 0, 0, 0, 0, 0xf0, 0x3f, 0, 0, 0, 0, 0, 0, 0, 0x40)
		}
	}
	return b
}

type c05Case struct{ op, in string }

// c05Witnesses: one input per defect of the decoders that /repo has fixed (reverting the fix makes
// the quick tier fail on it) and per recorded finding; emitted first, on shard 0.
func c05Witnesses(thorough bool) []c05Case {
	var w []c05Case
	add := func(op, in string) { w = append(w, c05Case{op, in}) }
	// MVT: 57d2ed6 (point feature starting with ClosePath and a huge count), 8f96bde (feature without
	// geometry), e1c9f1a (fewer than two bytes)
	pt, ls := vectortile.Tile_POINT, vectortile.Tile_LINESTRING
	name, ver := "a", uint32(2)
	tile := func(fs ...*vectortile.Tile_Feature) string {
		t := &vectortile.Tile{Layers: []*vectortile.Tile_Layer{{Name: &name, Version: &ver, Features: fs}}}
		b, _ := t.Marshal()
		return hx(b)
	}
	add("mvt", tile(&vectortile.Tile_Feature{Type: &pt, Geometry: []uint32{7 | 1<<24<<3, 0}}))
	add("mvt", tile(&vectortile.Tile_Feature{Type: &pt, Geometry: []uint32{2 | 1<<20<<3, 0, 0}}))
	add("mvt", tile(&vectortile.Tile_Feature{Type: &pt}))
	add("mvt", tile(&vectortile.Tile_Feature{Type: &ls}))
	add("mvt", tile(&vectortile.Tile_Feature{Type: &pt, Geometry: []uint32{9, 2, 2}}, &vectortile.Tile_Feature{Type: &pt}))
	add("mvt", "empty")
	add("mvt", "1f")
	add("mvt", "1f8b")
	// recorded finding: a gzip bomb (8 MiB of zeros in 8 kB) is inflated whole
	add("mvt", hx(c05Gzip(make([]byte, 8<<20))))
	// GeoJSON: 87467ba (padded null feature), 6b9e2e7 (null member of a collection), the smallest documents
	for _, s := range []string{" null", "null\n", "\tnull ", "null", "{}", "[]", `{"type":"Point"}`,
		`{"type":"GeometryCollection","geometries":[null]}`, `{"type":"GeometryCollection","geometries":null}`,
		`{"type":"Feature","geometry":null}`, `{"type":"FeatureCollection","features":[null]}`,
		`{"type":"Feature","geometry":{"type":"GeometryCollection","geometries":[null]},"properties":null}`} {
		add("gj", "json "+hx([]byte(s)))
	}
	for _, d := range []bson.D{
		{{Key: "type", Value: "GeometryCollection"}, {Key: "geometries", Value: bson.A{nil}}},
		{{Key: "type", Value: "Feature"}, {Key: "geometry", Value: bson.D{{Key: "type", Value: "GeometryCollection"}, {Key: "geometries", Value: bson.A{nil}}}}},
		{{Key: "type", Value: "Point"}},
		{},
	} {
		if b, err := bson.Marshal(d); err == nil {
			add("gj", "bson "+hx(b))
		}
	}
	// WKT: 5a01c04 (collections split on letters: exponent coordinates, quadratic on long digit runs)
	for _, s := range []string{"GEOMETRYCOLLECTION(POINT(1e5 2))", "GEOMETRYCOLLECTION(POINT(1 2),LINESTRING(1e-3 2,3 4))",
		"GEOMETRYCOLLECTION" + strings.Repeat("1", 8000), "GEOMETRYCOLLECTION(" + strings.Repeat("1", 40000) + ")",
		"GEOMETRYCOLLECTION(ZZ(1 2))", "GEOMETRYCOLLECTION(POINT(1 2)zPOINT(3 4))", "", "POINT"} {
		add("wkt", wktHostileInput(s))
	}
	// WKB: 7525976 (num*16 wrapped in uint32), 0de7204 (bad byte-order mark in the stream decoder),
	// every cap at once in the stream decoder, the nested-multi family (members of a multi are of the plain
	// type only: it used to decode in quadratic time; k = 8000 is the former 2.8 s / 769 MB witness)
	for _, b := range [][]byte{
		{1, 2, 0, 0, 0, 0, 0, 0, 0x10, 1, 2, 3},
		{0, 0, 0, 0, 2, 0x10, 0, 0, 0, 1, 2, 3},
		{1, 3, 0, 0, 0, 1, 0, 0, 0, 0, 0, 0, 0x10, 1, 2, 3},
		{2, 1, 0, 0, 0, 0, 0, 0, 0, 0, 0, 0, 0, 0, 0, 0, 0, 0, 0, 0, 0},
		{1, 7, 0, 0, 0, 1, 0, 0, 0, 2, 1, 0, 0, 0},
		{1, 6, 0, 0, 0, 255, 255, 255, 255, 1, 3, 0, 0, 0, 255, 255, 255, 255, 255, 255, 255, 255},
		{1, 7, 0, 0, 0, 255, 255, 255, 255, 1, 7, 0, 0, 0, 255, 255, 255, 255, 1, 4, 0, 0, 0, 255, 255, 255, 255},
	} {
		add("wkb", hx(b))
	}
	for _, k := range []int{3, 40, 400} {
		add("wkb", hx(c05NestedMulti(5, 2, k))+" any")
		add("wkb", hx(c05NestedMulti(6, 3, k))+" MPG")
	}
	add("wkb", hx(c05NestedMulti(5, 2, 400))+" LS")
	add("wkb", hx(c05NestedMulti(4, 1, 400))+" MP")
	add("wkb", hx(c05NestedMulti(5, 2, 8000))+" any")
	add("wkb", hx(c05NestedMulti(6, 3, 8000))+" PG")
	if thorough {
		add("wkb", hx(c05NestedMulti(5, 2, 1000))+" MLS")
		add("wkb", hx(c05NestedMulti(5, 2, 100000))+" any")
	}
	// nested collections around wkbcommon.MaxCollectionDepth (10000): decoded up to it, ErrNestingTooDeep
	// beyond, in both decoders and every scanner; outcome, allocation and recursion depth against the model
	for i, k := range []int{1, 2, 100, 101, 9999, 10000, 10001} {
		var o binary.ByteOrder = binary.LittleEndian
		if i%2 == 1 {
			o = binary.BigEndian
		}
		add("wkb", hx(c05NestedColl(k, false, o))+" "+[]string{"any", "C"}[i%2])
		add("wkb", hx(c05NestedColl(k, true, o))+" "+[]string{"C", "any"}[i%2])
	}
	if thorough {
		add("wkb", hx(c05NestedColl(10002, true, binary.LittleEndian))+" B")
		add("wkb", hx(c05NestedColl(50000, false, binary.LittleEndian))+" any")
	}
	// nesting depth far beyond: a clean error at once (it was fine at 100000 levels and a fatal stack
	// overflow at 4 million, 36 MB of input); decoded in a child process
	add("wkbnest", "mls 1")
	add("wkbnest", "mls 2")
	add("wkbnest", "mpoly 2")
	add("wkbnest", "coll 10000")
	add("wkbnest", "coll 10001")
	add("wkbnest", "mls 100000")
	add("wkbnest", "coll 100000")
	add("wkbnest", "mls 4000000")
	add("wkbnest", "coll 4000000")
	if thorough {
		add("wkbnest", "mpoly 100000")
		add("wkbnest", "mpoly 4000000")
		add("wkbnest", "coll 20000000")
	}
	return w
}

// --- generator ------------------------------------------------------------------------------------

// c05Sub: a bare context for the generators of the other plug-ins (they use Rng, Tier, Budget, Shard,
// Shards, Mine, Exhausted and the emit callback only).
func c05Sub(c *Ctx, budget int) *Ctx {
	return &Ctx{Rng: c.Rng, Tier: c.Tier, Budget: budget, Shard: c.Shard, Shards: c.Shards, Stale: c.Stale, deadline: c.deadline}
}

// c05Sampled runs gen twice: once to count what it would emit on this shard, then to run about `want`
// of those cases, evenly spread with a seed-dependent phase (all of them when want <= 0 or few enough).
func c05Sampled(c *Ctx, want int, op string, gen func(emit func(string)), keep func(string) bool) {
	n := 0
	gen(func(s string) {
		if keep == nil || keep(s) {
			n++
		}
	})
	stride := 1
	if want > 0 && n > want {
		stride = (n + want - 1) / want
	}
	phase := c.Rng.Intn(stride)
	i := 0
	gen(func(s string) {
		if keep != nil && !keep(s) {
			return
		}
		if i%stride == phase {
			c.Case(op, s)
		}
		i++
	})
}

func genC05(c *Ctx) {
	thorough := c.Tier == "thorough"
	q := c.Budget / 4 // quick: cases per delegated stream and shard
	if q < 30 {
		q = 30
	}
	if c.Shard == 0 {
		// the table of entry points against props.json, sample inputs through every op
		c.Case("selftest", "")
		for _, w := range c05Witnesses(thorough) {
			c.Case(w.op, w.in)
		}
	}
	genC05WKT(c, q, thorough)
	genC05MVT(c, q, thorough)
	genC05GJ(c, q, thorough)
	genC05WKB(c, thorough)
	// the wide families (few, large cases; sharded; not cut by the time budget): tables of n entries of
	// every kind.  Last, and the ones with the fewest tokens per line first: the harness's collector
	// allocates in proportion to the tokens of a line when it files the answer, and TotalAlloc is process-wide
	genC05WideMVT(c, thorough, func(in string) { c.Case("mvt", in) })
	genC05WideWKB(c, thorough, func(in string) { c.Case("wkb", in) })
	genC05WideGJ(c, thorough, func(in string) { c.Case("gj", in) })
	// every listed entry point has been called on this shard's hostile bytes
	c.Case("selftest", "run")
}

// WKT: exhaustive short sentences and the fixed list (all), then mutations.
func genC05WKT(c *Ctx, q int, thorough bool) {
	if thorough {
		genWKTHostile(c, func(in string) { c.Case("wkt", in) })
		return
	}
	seen := map[string]bool{}
	genWKTHostile(c05Sub(c, 0), func(in string) {
		if !seen[in] {
			seen[in] = true
			c.Case("wkt", in)
		}
	})
	genWKTHostile(c05Sub(c, q/2), func(in string) {
		if !seen[in] {
			c.Case("wkt", in)
		}
	})
}

// MVT: the recorded witnesses and every 0- and 1-byte tile, a third of the quota of 2-byte tiles,
// half of it structure-aware mutations.
func genC05MVT(c *Ctx, q int, thorough bool) {
	if thorough {
		genMVTHostile(c, func(in string) { c.Case("mvt", in) })
		return
	}
	tiny2 := func(in string) bool { return len(in) == 4 }
	seen := map[string]bool{}
	fixed := c05Sub(c, 0)
	genMVTHostile(fixed, func(in string) {
		if !tiny2(in) && !seen[in] {
			seen[in] = true
			c.Case("mvt", in)
		}
	})
	c05Sampled(c, q/3, "mvt", func(emit func(string)) { genMVTHostile(c05Sub(c, 0), emit) }, tiny2)
	n := 0
	genMVTHostile(c05Sub(c, q/2), func(in string) {
		if in != "empty" && len(in) > 4 && !seen[in] && n < q {
			n++
			c.Case("mvt", in)
		}
	})
}

// GeoJSON / BSON: the corpus of past disagreements (all), a third of the quota each from the tiny-document
// family, the typed-substitution family and structure-aware mutations.
func genC05GJ(c *Ctx, q int, thorough bool) {
	if thorough {
		genGeoJSONHostile(c, func(in string) { c.Case("gj", in) })
		return
	}
	genGeoJSONHostileCorpus(c05Sub(c, 0), func(in string) { c.Case("gj", in) })
	c05Sampled(c, q/3, "gj", func(emit func(string)) { genGeoJSONHostileFixed(c05Sub(c, 0), emit) }, nil)
	c05Sampled(c, q/3, "gj", func(emit func(string)) { genGeoJSONHostileTyped(c05Sub(c, 0), false, emit) }, nil)
	genGeoJSONHostileN(c05Sub(c, q/3), q/3, func(in string) { c.Case("gj", in) })
}

func genC05WKB(c *Ctx, thorough bool) {
	r := c.Rng
	// exhaustive header family: order byte x type word x boundary counts x nested member x truncation point
	counts := []uint32{0, 1, 2, 1 << 28, 1<<28 + 1, 1 << 31, 1<<32 - 1}
	types := []uint32{0, 1, 2, 3, 4, 5, 6, 7, 8, 0x11, 1003, 0x20000001, 0x20000002, 0x20000003, 0x20000004, 0x20000005, 0x20000006, 0x20000007, 0x20000000, 0x80000001}
	tail := make([]byte, 48)
	for i := range tail {
		tail[i] = byte(i*37 + 1)
	}
	// the member types a container of type t is given: the well-typed one (Point in MultiPoint, LineString
	// in MultiLineString, Polygon in MultiPolygon; each of 1..7 in a collection), the container's own type
	// (a nested one-member multi: accepted by the Scan* functions at the top, not as a member) and for the
	// plain types the type itself
	members := func(t uint32) []uint32 {
		switch t & 0xf {
		case 4, 5, 6:
			return []uint32{t&0xf - 3, t & 0xf}
		case 7:
			return []uint32{1, 2, 3, 4, 5, 6, 7}
		}
		if t&0xf >= 1 && t&0xf <= 3 {
			return []uint32{t & 0xf}
		}
		return []uint32{1}
	}
	idx := 0
	for _, ob := range []byte{0, 1, 2} {
		var o binary.ByteOrder = binary.LittleEndian
		if ob == 0 {
			o = binary.BigEndian
		}
		for _, t := range types {
			for _, mt := range members(t) {
				for _, n := range counts {
					var full []byte
					full = append(full, ob)
					full = append(full, u32b(o, t)...)
					if t&0x20000000 != 0 {
						full = append(full, u32b(o, 4326)...)
					}
					full = append(full, u32b(o, n)...)
					// a nested member header + data so that multi types get something to chew on
					full = append(full, ob)
					full = append(full, u32b(o, mt)...)
					full = append(full, u32b(o, n)...)
					full = append(full, tail...)
					for cut := 0; cut <= len(full); cut++ {
						idx++
						if !c.Mine(idx) {
							continue
						}
						// quick: every cut up to the end of a two-point member, then every seventh
						if !thorough && cut > 52 && cut%7 != 0 {
							continue
						}
						c.Case("wkb", hx(full[:cut])+" "+c01Dests[(idx/c.Shards)%len(c01Dests)])
					}
				}
			}
		}
	}
	// every 0-, 1- and 2-byte string (thorough: all 65536 two-byte strings; quick: every second byte from the
	// boundary set and a fifth of the others, the residue rotating with the seed), sharded
	c05ShortWKB(c, thorough, func(b []byte) { c.Case("wkb", hx(b)+" "+c01Dests[(int(m0(b))+len(b))%len(c01Dests)]) })
	// structure-aware mutations of valid encodings
	for k := 0; k < c.Budget && !c.Exhausted(); k++ {
		// points per part: mostly a handful, sometimes dozens or hundreds (the cap below is 64 KiB)
		maxPts := 5
		switch r.Intn(20) {
		case 0:
			maxPts = 400
		case 1, 2:
			maxPts = 40
		}
		g := genGeom(r, GenOpts{Mode: []CoordMode{CoordSmallInt, CoordBits}[r.Intn(2)], MaxPts: maxPts, MaxDepth: 3}, 0)
		var o binary.ByteOrder = binary.LittleEndian
		if r.Intn(2) == 0 {
			o = binary.BigEndian
		}
		b, err := ewkb.Marshal(g, []int{0, 4326}[r.Intn(2)], o)
		if err != nil || len(b) == 0 {
			continue
		}
		m := append([]byte(nil), b...)
		for n := 1 + r.Intn(3); n > 0; n-- {
			switch r.Intn(8) {
			case 0: // truncate
				m = m[:r.Intn(len(m)+1)]
			case 1: // bit flip
				if len(m) > 0 {
					m[r.Intn(len(m))] ^= 1 << uint(r.Intn(8))
				}
			case 2: // count inflation: overwrite a 4-byte aligned-ish word with a boundary count, or with a
				// count near what the remaining bytes can hold (16 / 21 / 9 bytes per element), or any count
				if len(m) >= 9 {
					p := 5 + r.Intn(len(m)-8)
					if r.Intn(3) == 0 {
						p = 5 // the top-level count
					}
					copy(m[p:], u32b(o, c05Count(r, counts, len(m)-p-4)))
				}
			case 3: // splice another encoding in
				g2 := genGeom(r, GenOpts{Mode: CoordSmallInt, MaxPts: 3, MaxDepth: 2}, 0)
				b2, _ := ewkb.Marshal(g2, 0, o)
				p := r.Intn(len(m) + 1)
				m = append(append(append([]byte(nil), m[:p]...), b2...), m[p:]...)
			case 4: // nesting: wrap as the single member of a collection / multi of claimed type
				hdr := append([]byte{m0(m)}, u32b(o, []uint32{7, 4, 5, 6}[r.Intn(4)])...)
				hdr = append(hdr, u32b(o, uint32(1+r.Intn(2)))...)
				m = append(hdr, m...)
			case 5: // hex framing, possibly damaged
				h := []byte(hex.EncodeToString(m))
				if r.Intn(2) == 0 {
					h = append([]byte(`\x`), h...)
				}
				if len(h) > 0 && r.Intn(3) == 0 {
					h[r.Intn(len(h))] = "gz _"[r.Intn(4)]
				}
				m = h
			case 6: // 4-byte prefix
				m = append(u32b(binary.LittleEndian, r.Uint32()), m...)
			case 7: // a chain of nested one-member multi / collection headers in front
				t := []uint32{4, 5, 6, 7}[r.Intn(4)]
				var hdr []byte
				for d := 1 + r.Intn(6); d > 0; d-- {
					hdr = append(hdr, m0(m))
					hdr = append(hdr, u32b(o, t)...)
					hdr = append(hdr, u32b(o, uint32(1+r.Intn(3)/2))...)
				}
				m = append(hdr, m...)
			}
		}
		if len(m) > 65536 {
			m = m[:65536]
		}
		c.Case("wkb", hx(m)+" "+c01Dests[r.Intn(len(c01Dests))])
	}
}

// c05Count: a claimed element count — from the boundary set, near what `rest` remaining bytes can hold at
// 16 (point), 21 (point member), 9 (empty member) or 4 (ring header) bytes per element, small, or anything.
func c05Count(r interface{ Intn(int) int }, boundary []uint32, rest int) uint32 {
	switch r.Intn(5) {
	case 0:
		return boundary[r.Intn(len(boundary))]
	case 1, 2:
		per := []int{16, 21, 9, 4}[r.Intn(4)]
		n := rest/per + r.Intn(5) - 2
		if n < 0 {
			n = 0
		}
		if r.Intn(4) == 0 { // the same count with the 2^28 / 2^32-wrap bit set
			return uint32(n) | 1<<28
		}
		return uint32(n)
	case 3:
		return uint32(r.Intn(70000))
	}
	return uint32(r.Intn(1<<16))<<16 | uint32(r.Intn(1<<16))
}

func m0(m []byte) byte {
	if len(m) > 0 {
		return m[0]
	}
	return 1
}
