package main

// C04 — WKT text round trip, typed entry points, re-spellings; and the WKT share of C05
// (runWKTHostile / genWKTHostile: hostile input never panics, never over-allocates).
//
// ops: rt (marshal, parse with all eight functions), respell, parse (hostile stream, outcomes only),
// hostile (the same with allocation measured; C05 calls it as op wkt), seq (several encoder calls —
// wkt.Marshal and wkt.MarshalString, the package's only encoder entry points — in a row or from two
// goroutines, every result kept and judged only when all calls are done: runWKTSeq); par (concurrent
// parse phase), bseq (seq at text lengths around every power of two up to 1 MiB), brt (round trips at
// member counts around 2^16 / 2^17 and deep nesting): c04_wb.go.
//
// fmt's %g and strconv.ParseFloat are parameters of the Lean model.  Every case line therefore
// carries Go's own answers (computed here, on the input side of the line, so that a replay
// recomputes nothing of them):
//   F n (bits texthex)*   the %g text of every coordinate of the value
//   T m (tokhex bits|err)* ParseFloat's result for every maximal run of bytes in [0-9A-Za-z.+_-]
//                          of the text(s) that get parsed
// Texts travel as lower-case hex of their bytes ("empty" for the empty string).

import (
	"encoding/hex"
	"fmt"
	"math"
	"math/rand"
	"os"
	"runtime"
	"strconv"
	"strings"
	"sync"
	"time"

	"github.com/paulmach/orb"
	"github.com/paulmach/orb/encoding/wkt"
)

func init() { register(&Prop{ID: "C04", Run: runC04, Gen: genC04}) }

func wktHex(s string) string {
	if len(s) == 0 {
		return "empty"
	}
	return hex.EncodeToString([]byte(s))
}

func wktUnhex(t string) string {
	if t == "empty" {
		return ""
	}
	b, err := hex.DecodeString(t)
	if err != nil {
		panic("bad hex token " + t)
	}
	return string(b)
}

func wktErrClass(err error) string {
	switch err {
	case wkt.ErrNotWKT:
		return "notwkt"
	case wkt.ErrIncorrectGeometry:
		return "incorrect"
	case wkt.ErrUnsupportedGeometry:
		return "unsupported"
	}
	return "other"
}

func wktOutcome(g orb.Geometry, err error) string {
	if err != nil {
		return "err " + wktErrClass(err)
	}
	return "ok " + gs(g)
}

// wktEight runs Unmarshal and the seven typed functions (order: Point, MultiPoint, LineString,
// MultiLineString, Polygon, MultiPolygon, Collection), each under guard.
func wktEight(s string) []string {
	return []string{
		guard(func() string { g, err := wkt.Unmarshal(s); return wktOutcome(g, err) }),
		guard(func() string { g, err := wkt.UnmarshalPoint(s); return wktOutcome(g, err) }),
		guard(func() string { g, err := wkt.UnmarshalMultiPoint(s); return wktOutcome(g, err) }),
		guard(func() string { g, err := wkt.UnmarshalLineString(s); return wktOutcome(g, err) }),
		guard(func() string { g, err := wkt.UnmarshalMultiLineString(s); return wktOutcome(g, err) }),
		guard(func() string { g, err := wkt.UnmarshalPolygon(s); return wktOutcome(g, err) }),
		guard(func() string { g, err := wkt.UnmarshalMultiPolygon(s); return wktOutcome(g, err) }),
		guard(func() string { g, err := wkt.UnmarshalCollection(s); return wktOutcome(g, err) }),
	}
}

func isFAByte(b byte) bool {
	return ('0' <= b && b <= '9') || ('A' <= b && b <= 'Z') || ('a' <= b && b <= 'z') || b == '.' || b == '+' || b == '-' || b == '_'
}

// wktPFTable: "T m (tokhex bits|err)*" over the maximal [0-9A-Za-z.+_-] runs of the texts.
func wktPFTable(texts ...string) string {
	seen := map[string]bool{}
	var sb strings.Builder
	n := 0
	for _, s := range texts {
		for i := 0; i < len(s); {
			if !isFAByte(s[i]) {
				i++
				continue
			}
			j := i
			for j < len(s) && isFAByte(s[j]) {
				j++
			}
			tok := s[i:j]
			i = j
			if seen[tok] {
				continue
			}
			seen[tok] = true
			n++
			sb.WriteString(" ")
			sb.WriteString(wktHex(tok))
			f, err := strconv.ParseFloat(tok, 64)
			if err != nil {
				sb.WriteString(" err")
			} else {
				sb.WriteString(" " + fb(f))
			}
		}
	}
	return "T " + strconv.Itoa(n) + sb.String()
}

func wktCoords(g orb.Geometry, f func(float64)) {
	switch g := g.(type) {
	case orb.Point:
		f(g[0])
		f(g[1])
	case orb.Bound:
		f(g.Min[0])
		f(g.Min[1])
		f(g.Max[0])
		f(g.Max[1])
	case orb.Collection:
		for _, m := range g {
			wktCoords(m, f)
		}
	case nil:
	default:
		forEachVertex(g, func(p *orb.Point) { f(p[0]); f(p[1]) })
	}
}

// wktFTable: "F n (bits texthex)*" — fmt's %g text of every coordinate.
func wktFTable(g orb.Geometry) string {
	seen := map[uint64]bool{}
	var sb strings.Builder
	n := 0
	wktCoords(g, func(x float64) {
		b := math.Float64bits(x)
		if seen[b] {
			return
		}
		seen[b] = true
		n++
		sb.WriteString(" " + fb(x) + " " + wktHex(fmt.Sprintf("%g", x)))
	})
	return "F " + strconv.Itoa(n) + sb.String()
}

// --- re-spelling (mirror of Driver.C04.respell) ---

func wktBlank(c int) string {
	switch c % 8 {
	case 4:
		return " "
	case 5:
		return "\t"
	case 6:
		return "\n"
	case 7:
		return "  \t"
	}
	return ""
}

func isAlphaByte(b byte) bool { return ('A' <= b && b <= 'Z') || ('a' <= b && b <= 'z') }

// respellWKT consumes codes left to right: one per keyword letter (alphabetic run of length >= 2;
// odd = lower case), two per '(' ')' ',' (blanks before, after), one before and one after the text.
func respellWKT(codes []int, s string) string {
	next := func() int {
		if len(codes) == 0 {
			return 0
		}
		c := codes[0]
		codes = codes[1:]
		return c
	}
	var sb strings.Builder
	sb.WriteString(wktBlank(next()))
	prevAlpha := false
	for i := 0; i < len(s); i++ {
		b := s[i]
		switch {
		case b == '(' || b == ')' || b == ',':
			c1 := next()
			c2 := next()
			sb.WriteString(wktBlank(c1))
			sb.WriteByte(b)
			sb.WriteString(wktBlank(c2))
			prevAlpha = false
		case isAlphaByte(b):
			nextAlpha := i+1 < len(s) && isAlphaByte(s[i+1])
			if prevAlpha || nextAlpha {
				c := next()
				if c%2 == 1 && 'A' <= b && b <= 'Z' {
					b += 'a' - 'A'
				}
			}
			sb.WriteByte(b)
			prevAlpha = true
		default:
			sb.WriteByte(b)
			prevAlpha = false
		}
	}
	sb.WriteString(wktBlank(next()))
	return sb.String()
}

// --- runner ---

func runC04(op string, in []string) string {
	switch op {
	case "rt":
		g, _ := parseGeom(in)
		text, ok := wktMarshalGuarded(g)
		if !ok {
			return "panic"
		}
		return wktHex(text) + " ; " + strings.Join(wktEight(text), " ; ")
	case "respell":
		r := &tokReader{t: in}
		g := r.geom()
		if r.next() != "R" {
			panic("respell: expected R")
		}
		n := r.int()
		codes := make([]int, n)
		for i := range codes {
			codes[i] = r.int()
		}
		text, ok := wktMarshalGuarded(g)
		if !ok {
			return "panic"
		}
		text2 := respellWKT(codes, text)
		return wktHex(text) + " ; " + wktHex(text2) + " ; " + strings.Join(wktEight(text), " ; ") + " ; " + strings.Join(wktEight(text2), " ; ")
	case "parse":
		return strings.Join(wktEight(wktUnhex(in[0])), " ; ")
	case "hostile":
		return runWKTHostile(in)
	case "seq":
		return runWKTSeq(in)
	case "par":
		return runWKTPar(in)
	case "bseq":
		return runWKTBigSeq(in)
	case "brt":
		return runWKTBigRt(in)
	}
	return "badop"
}

// --- op seq: several encoder calls in a row, every result kept, all of them judged afterwards ---
//
// "A returned text must stay what it was": a caller may hold the []byte / string it got from
// wkt.Marshal / wkt.MarshalString for as long as it likes, may call the encoders again meanwhile
// (from this or another goroutine) and may write into the []byte it was given (including its spare
// capacity) without any other result, earlier or later, changing.
//
// input  = <mode s|p> <n> (<entry 0=Marshal 1=MarshalString> <value>)*n | F… T…
// output = for every item: <text at call (copied)> ; <kept result when all calls are done, "=" if
// unchanged> ; <wkt.Unmarshal of the KEPT result> ; <text of a fresh call of the same entry point
// after every kept []byte has been overwritten up to its capacity, "=" if equal>
// mode p: the items with even index are encoded by one goroutine, those with odd index by another,
// both started together.
func runWKTSeq(in []string) string {
	r := &tokReader{t: in}
	mode := r.next()
	n := r.int()
	type item struct {
		entry  int
		g      orb.Geometry
		b      []byte
		s      string
		atCall string
	}
	items := make([]item, n)
	for i := range items {
		items[i].entry = r.int()
		items[i].g = r.geom()
	}
	call := func(it *item) {
		if it.entry == 0 {
			it.b = wkt.Marshal(it.g)
			it.atCall = string(it.b) // a copy
		} else {
			it.s = wkt.MarshalString(it.g)
			it.atCall = string([]byte(it.s)) // a copy that shares nothing with the result
		}
	}
	panicked := false
	if mode == "p" {
		var wg sync.WaitGroup
		var mu sync.Mutex
		start := make(chan struct{})
		for k := 0; k < 2; k++ {
			wg.Add(1)
			go func(k int) {
				defer wg.Done()
				defer func() {
					if recover() != nil {
						mu.Lock()
						panicked = true
						mu.Unlock()
					}
				}()
				<-start
				for i := k; i < n; i += 2 {
					call(&items[i])
					runtime.Gosched()
				}
			}(k)
		}
		close(start)
		wg.Wait()
	} else {
		func() {
			defer func() {
				if recover() != nil {
					panicked = true
				}
			}()
			for i := range items {
				call(&items[i])
			}
		}()
	}
	if panicked {
		return "panic"
	}
	kept := func(it *item) string {
		if it.entry == 0 {
			return string(it.b)
		}
		return it.s
	}
	same := func(a, ref string) string {
		if a == ref {
			return "="
		}
		return wktHex(a)
	}
	ends := make([]string, n)
	outs := make([]string, n)
	for i := range items {
		ends[i] = kept(&items[i])
		e := ends[i]
		outs[i] = guard(func() string { g, err := wkt.Unmarshal(e); return wktOutcome(g, err) })
	}
	// the caller owns what it was given: overwrite every kept []byte up to its capacity …
	for i := range items {
		if b := items[i].b; b != nil {
			b = b[:cap(b)]
			for j := range b {
				b[j] = '#'
			}
		}
	}
	// … and the encoders must not notice
	var sb strings.Builder
	for i := range items {
		it := items[i]
		fresh := guard(func() string {
			if it.entry == 0 {
				return "t" + string(wkt.Marshal(it.g))
			}
			return "t" + wkt.MarshalString(it.g)
		})
		if fresh == "panic" {
			return "panic"
		}
		if i > 0 {
			sb.WriteString(" ; ")
		}
		sb.WriteString(wktHex(it.atCall) + " ; " + same(ends[i], it.atCall) + " ; " + outs[i] + " ; " + same(fresh[1:], it.atCall))
	}
	return sb.String()
}

// wktSeqInput: the case line of op seq for the given values and entry points.
func wktSeqInput(mode string, entries []int, gs_ []orb.Geometry) string {
	var sb strings.Builder
	sb.WriteString(mode + " " + strconv.Itoa(len(gs_)))
	texts := make([]string, len(gs_))
	for i, g := range gs_ {
		sb.WriteString(" " + strconv.Itoa(entries[i]) + " " + gs(g))
		texts[i], _ = wktMarshalGuarded(g)
	}
	return sb.String() + " | " + wktFTable(orb.Collection(gs_)) + " " + wktPFTable(texts...)
}

func wktMarshalGuarded(g orb.Geometry) (text string, ok bool) {
	defer func() {
		if r := recover(); r != nil {
			ok = false
		}
	}()
	return wkt.MarshalString(g), true
}

// --- C05: hostile input ---

func wktAllocOnce(s string) uint64 {
	var a, b runtime.MemStats
	runtime.ReadMemStats(&a)
	func() {
		defer func() { recover() }()
		_, _ = wkt.Unmarshal(s)
	}()
	runtime.ReadMemStats(&b)
	return b.TotalAlloc - a.TotalAlloc
}

// wktAllocBudget mirrors Driver.C04.allocC/allocK; a measurement above it is repeated (other
// goroutines of the harness allocate concurrently; noise only ever adds) and the minimum is reported.
func wktAllocBudget(n int) uint64 { return 128*uint64(n) + 262144 }

const wktTimeout = 20 * time.Second

// runWKTHostile: input = <text as hex> [| T table …] (the table is for the driver only).
// Output = the eight outcomes ; alloc <TotalAlloc delta of one wkt.Unmarshal call>, or "timeout".
func runWKTHostile(in []string) string {
	s := wktUnhex(in[0])
	done := make(chan string, 1)
	go func() {
		a := wktAllocOnce(s)
		for k := 0; k < 2 && a > wktAllocBudget(len(s)); k++ {
			if a2 := wktAllocOnce(s); a2 < a {
				a = a2
			}
		}
		done <- strings.Join(wktEight(s), " ; ") + " ; alloc " + strconv.FormatUint(a, 10)
	}()
	select {
	case out := <-done:
		return out
	case <-time.After(wktTimeout):
		return "timeout"
	}
}

var wktAlphabet = []string{"POINT", "(", ")", ",", "1", " ", "EMPTY", "MULTIPOINT", "LINESTRING", "POLYGON",
	"GEOMETRYCOLLECTION", "1e5", "-", "((", "))", "x"}

func wktHostileInput(s string) string { return wktHex(s) + " | " + wktPFTable(s) }

// wktMutate applies one structure-aware mutation to a valid text.
func wktMutate(r *rand.Rand, s string, other string) string {
	b := []byte(s)
	pos := func() int {
		if len(b) == 0 {
			return 0
		}
		return r.Intn(len(b))
	}
	ins := func(i int, x string) string { return string(b[:i]) + x + string(b[i:]) }
	switch r.Intn(14) {
	case 0: // truncate
		return string(b[:pos()])
	case 1: // drop a prefix
		return string(b[pos():])
	case 2: // splice with another valid text
		o := []byte(other)
		j := 0
		if len(o) > 0 {
			j = r.Intn(len(o))
		}
		return string(b[:pos()]) + string(o[j:])
	case 3: // delete a byte
		if len(b) == 0 {
			return s
		}
		i := pos()
		return string(b[:i]) + string(b[i+1:])
	case 4: // duplicate a byte
		if len(b) == 0 {
			return s
		}
		i := pos()
		return ins(i, string(b[i:i+1]))
	case 5: // unbalance: insert a parenthesis / comma
		return ins(pos(), []string{"(", ")", ",", "((", "))", "),(", ")),(("}[r.Intn(7)])
	case 6: // unbalance: remove one parenthesis
		var idx []int
		for i, c := range b {
			if c == '(' || c == ')' {
				idx = append(idx, i)
			}
		}
		if len(idx) == 0 {
			return s
		}
		i := idx[r.Intn(len(idx))]
		return string(b[:i]) + string(b[i+1:])
	case 7: // deep nesting
		k := 1 + r.Intn(40)
		switch r.Intn(4) {
		case 0:
			return strings.Repeat("GEOMETRYCOLLECTION(", k) + s + strings.Repeat(")", k)
		case 1:
			return strings.Repeat("GEOMETRYCOLLECTION(", k) + s
		case 2:
			return ins(pos(), strings.Repeat("(", k))
		default:
			return "MULTIPOLYGON" + strings.Repeat("(", k) + "1 2" + strings.Repeat(")", r.Intn(k+2))
		}
	case 8: // overwrite a byte (ASCII noise, invalid UTF-8, multi-byte runes)
		if len(b) == 0 {
			return s
		}
		i := pos()
		x := []string{" ", "\t", "\n", "\r", "\f", "|", "z", "Z", "e", "E", "a", "0", ".", "+", "-", "_", "\x00", "\xff", "\x80", "\xc3", "é", "ſ", "K", "€", "😀", "\xed\xa0\x80", "\xf4\x90\x80\x80", "\xe0\x80\x80", "\xc0\xaf"}[r.Intn(29)]
		return string(b[:i]) + x + string(b[i+1:])
	case 9: // insert noise
		x := []string{" ", "\t", "\n", "\r", "\f", "|", "z", "Z", "e", "1e5", "x", "EMPTY", " EMPTY", "\xff", "é", "😀", "\xe2\x82", "inf", "NaN", "0x1p-2", "1_0", "POINT", "Z(", "z("}[r.Intn(24)]
		return ins(pos(), x)
	case 10: // change the case of some letters
		for i, c := range b {
			if isAlphaByte(c) && r.Intn(3) == 0 {
				b[i] = c ^ 0x20
			}
		}
		return string(b)
	case 11: // tail garbage
		return s + []string{")", "(", ",", " ", "x", "\xff", "é", "😀", ")x", " x", "\xe2\x82", "Z", "z"}[r.Intn(13)]
	case 12: // swap two bytes
		if len(b) < 2 {
			return s
		}
		i, j := pos(), pos()
		b[i], b[j] = b[j], b[i]
		return string(b)
	default: // replace the keyword
		i := strings.IndexAny(s, "( ")
		if i < 0 {
			return s
		}
		return wktAlphabet[[]int{0, 7, 8, 9, 10}[r.Intn(5)]] + s[i:]
	}
}

// --- long texts: many members / many points per member (the allocation clause must see growth) ---

func wktRep(s string, n int, sep string) string {
	if n <= 0 {
		return ""
	}
	return s + strings.Repeat(sep+s, n-1)
}

// wktLongPts: k points "x y" joined by commas, coordinates from a small alphabet (keeps the
// ParseFloat table of the line short).
func wktLongPts(r *rand.Rand, k int) string {
	var sb strings.Builder
	for i := 0; i < k; i++ {
		if i > 0 {
			sb.WriteByte(',')
		}
		if r == nil {
			sb.WriteString("1 2")
		} else {
			sb.WriteString([]string{"0", "1", "2", "-3", "4.5", "1e5", "7", "10"}[r.Intn(8)] + " " + []string{"0", "1", "2", "-3", "4.5", "1e5", "7", "10"}[r.Intn(8)])
		}
	}
	return sb.String()
}

// wktLongShape: a valid text of the given kind with `members` members of `per` parts of `pts` points
// (what "member" and "part" mean depends on the kind; unused levels are ignored).
func wktLongShape(r *rand.Rand, kind, members, per, pts int) string {
	p := func() string { return wktLongPts(r, pts) }
	list := func(n int, f func() string) string {
		var sb strings.Builder
		for i := 0; i < n; i++ {
			if i > 0 {
				sb.WriteByte(',')
			}
			sb.WriteString(f())
		}
		return sb.String()
	}
	switch kind {
	case 0:
		return "MULTIPOINT(" + list(members, func() string { return "(" + wktLongPts(r, 1) + ")" }) + ")"
	case 1:
		return "LINESTRING(" + wktLongPts(r, members*pts) + ")"
	case 2:
		return "MULTILINESTRING(" + list(members, func() string { return "(" + p() + ")" }) + ")"
	case 3:
		return "POLYGON(" + list(members, func() string { return "(" + p() + ")" }) + ")"
	case 4:
		return "MULTIPOLYGON(" + list(members, func() string { return "(" + list(per, func() string { return "(" + p() + ")" }) + ")" }) + ")"
	case 5: // a collection of many small members of every kind
		return "GEOMETRYCOLLECTION(" + list(members, func() string {
			k := 6
			if r != nil {
				k = r.Intn(8)
			}
			switch k {
			case 0:
				return "POINT(" + wktLongPts(r, 1) + ")"
			case 1:
				return "LINESTRING(" + p() + ")"
			case 2:
				return "MULTILINESTRING(" + list(per, func() string { return "(" + p() + ")" }) + ")"
			case 3:
				return "POLYGON(" + list(per, func() string { return "(" + p() + ")" }) + ")"
			case 4:
				return "MULTIPOLYGON(" + list(per, func() string { return "((" + p() + "))" }) + ")"
			case 5:
				return "MULTIPOINT(" + list(per, func() string { return "(" + wktLongPts(r, 1) + ")" }) + ")"
			case 6:
				return "MULTILINESTRING((" + p() + "),(" + p() + "))"
			default:
				return []string{"POLYGON EMPTY", "GEOMETRYCOLLECTION EMPTY", "GEOMETRYCOLLECTION(POINT(1 2))", "LINESTRING EMPTY"}[r.Intn(4)]
			}
		}) + ")"
	default: // one long multi-geometry inside nested collections, with siblings
		in := wktLongShape(r, []int{0, 2, 3, 4}[members%4], members, per, pts)
		return "GEOMETRYCOLLECTION(POINT(1 2),GEOMETRYCOLLECTION(" + in + ",POINT(3 4)),LINESTRING(1 2,3 4))"
	}
}

// wktLongFamily: the fixed long texts — for every multi kind and for collections, R = 300 and 1000
// members (thorough: 4000 too).  A per-member cost proportional to the whole text is about R/8 times
// the linear allowance of 128 bytes per input byte: already 3x the whole budget at R = 300.  Then
// hundreds of points per member and balanced shapes in between.  (The Lean model, which has to parse
// every text too, is quadratic in the member count: 0.3 s at 1000 members, 2 s at 4000.)
func wktLongFamily(thorough bool, emit func(s string)) {
	sizes := []int{300, 1000}
	if thorough {
		sizes = []int{300, 1000, 4000}
	}
	for _, n := range sizes {
		emit(wktLongShape(nil, 0, n, 1, 1))
		emit(wktLongShape(nil, 2, n, 1, 1))
		emit(wktLongShape(nil, 2, n, 1, 2))
		emit(wktLongShape(nil, 3, n, 1, 1))
		emit(wktLongShape(nil, 3, n, 1, 4))
		emit(wktLongShape(nil, 4, n, 1, 1))
		emit(wktLongShape(nil, 4, 1, n, 1))
		emit(wktLongShape(nil, 5, n, 2, 2))
		emit(wktLongShape(nil, 6, n+1, 1, 1)) // a long MULTILINESTRING two collections deep
		emit(wktLongShape(nil, 6, n+3, 1, 1)) // … a long MULTIPOLYGON
		emit("GEOMETRYCOLLECTION(" + wktRep("POINT(1 2)", n, ",") + ")")
		emit("GEOMETRYCOLLECTION(" + wktRep("LINESTRING(1 2,3 4)", n, ",") + ")")
		emit("GEOMETRYCOLLECTION(" + wktRep("MULTILINESTRING((1 2,3 4),(1 2))", n/2, ",") + ")")
		emit("GEOMETRYCOLLECTION(" + wktRep("MULTIPOLYGON(((1 2,3 4)),((1 2)))", n/2, ",") + ")")
		emit("GEOMETRYCOLLECTION(" + wktRep("GEOMETRYCOLLECTION(POINT(1 2),POINT(3 4))", n/2, ",") + ")")
		emit("GEOMETRYCOLLECTION(GEOMETRYCOLLECTION(" + wktRep("POINT(1 2)", n, ",") + "))")
	}
	for _, sh := range [][3]int{{60, 1, 60}, {20, 20, 10}, {8, 1, 800}, {3, 3, 700}, {400, 3, 3}} {
		emit(wktLongShape(nil, 2, sh[0], sh[1], sh[2]))
		emit(wktLongShape(nil, 3, sh[0], sh[1], sh[2]))
		emit(wktLongShape(nil, 4, sh[0], sh[1], sh[2]))
	}
	// hostile variants: the same sizes with a broken tail / broken member (the parser must not have
	// paid for the whole before it notices)
	emit(wktLongShape(nil, 2, 1000, 1, 2) + "x")
	emit("MULTILINESTRING(" + wktRep("(1 2)", 1000, ",") + ",(1 x))")
	emit("MULTIPOLYGON(" + wktRep("((1 2))", 1000, ",") + ",((1)))")
	emit("POLYGON(" + wktRep("(1 2)", 1000, " , ") + ")")
	emit("MULTILINESTRING(" + wktRep("(1 2)", 1000, "\t,\n") + ")")
}

// wktLongRandom: a random long text (<= 16 kB): kind, member count (200..3000), parts and
// points per member drawn so that the product stays bounded; one in three then mutated.
func wktLongRandom(r *rand.Rand) string {
	kind := r.Intn(7)
	var members, per, pts int
	switch r.Intn(3) {
	case 0: // many members, short each
		members, per, pts = 200+r.Intn(2800), 1+r.Intn(2), 1+r.Intn(2)
	case 1: // few members, long each
		members, per, pts = 1+r.Intn(8), 1+r.Intn(3), 200+r.Intn(800)
	default: // balanced
		members, per, pts = 20+r.Intn(80), 1+r.Intn(4), 5+r.Intn(20)
	}
	for members*per*pts > 6000 {
		if members > 8 {
			members = members * 2 / 3
		} else {
			pts = pts * 2 / 3
		}
	}
	s := wktLongShape(r, kind, members, per, pts)
	for len(s) > 16000 { // the model is quadratic in the member count
		members = members*2/3 + 1
		pts = pts*4/5 + 1
		s = wktLongShape(r, kind, members, per, pts)
	}
	if r.Intn(3) == 0 {
		s = wktMutate(r, s, "POINT(1 2)")
	}
	return s
}

// genWKTHostile emits hostile inputs (hex text + ParseFloat table):
//   - exhaustively every sentence of <= 3 (quick) / <= 5 (thorough) tokens over the 16-token alphabet,
//     sharded by c.Mine;
//   - a fixed family (quirk witnesses, long inputs on the collection path);
//   - the long family (wktLongFamily: thousands of members / of points per member for every multi
//     kind and for collections; sharded by c.Mine) and three deep two-member nests;
//   - c.Budget structure-aware mutations of valid texts from the C04 generator, one in 250 of them
//     a random long text instead (wktLongRandom).
func genWKTHostile(c *Ctx, emit func(input string)) {
	r := c.Rng
	maxTok := 3
	if c.Tier == "thorough" {
		maxTok = 5
	}
	idx := 0
	var rec func(prefix string, depth int)
	rec = func(prefix string, depth int) {
		if c.Mine(idx) {
			emit(wktHostileInput(prefix))
		}
		idx++
		if depth == maxTok || c.Exhausted() {
			return
		}
		for _, t := range wktAlphabet {
			rec(prefix+t, depth+1)
		}
	}
	rec("", 0)
	if c.Shard == 0 {
		for _, s := range []string{
			"x", "(", " ", "POINT", "POIN", "POINT(", "POINT()", "POINT( )", "POINT(1 2)x", "POINT(1  2)", "POINT(1 2 3)", "POINT(1 2",
			"LINESTRING", "LINESTRING EMPTY", "LINESTRING  EMPTY", "linestring empty", "LINEſTRING EMPTY", "LINESTRING EMPTK",
			"POLYGON((1 2)|,|(3 4))", "POLYGON((1 2)\f,\r(3 4))", "POLYGON(())", "MULTIPOLYGON(())", "MULTILINESTRING((),(1 2,3 4))",
			"GEOMETRYCOLLECTION", "GEOMETRYCOLLECTIONx", "GEOMETRYCOLLECTION(", "GEOMETRYCOLLECTION()", "GEOMETRYCOLLECTION EMPTY",
			"GEOMETRYCOLLECTION(POINT(1 2)\xff", "GEOMETRYCOLLECTION(POINT(1 2)\xffPOINT(3 4))", "GEOMETRYCOLLECTION(POINT(1 2)é",
			"GEOMETRYCOLLECTION(POINT(1 2)éPOINT(3 4))", "GEOMETRYCOLLECTION(ZZ(1 2))", "GEOMETRYCOLLECTION(POINT(1 2)zPOINT(3 4))",
			"GEOMETRYCOLLECTION(POINT(1 2)😀POINT(3 4))", "GEOMETRYCOLLECTION(POINT(1 2)\xe2\x82POINT(3 4))",
			"GEOMETRYCOLLECTION(POINT(1 2)\xe2\x82", "GEOMETRYCOLLECTION(\xffGEOMETRYCOLLECTION(\xff\xffPOINT(1 2)\xff\xff)",
			"GEOMETRYCOLLECTION(POINT(1 2), POINT(3 4))", "GEOMETRYCOLLECTION( POINT(1 2))", "GEOMETRYCOLLECTION (POINT(1 2))",
			"POINT(inf nan)", "POINT(0x1p-2 1_0)", "POINT(+Inf -infinity)", "POINT(1e400 1e-400)", "POINT(.5 5.)", "POINT(1e 2)",
			strings.Repeat("GEOMETRYCOLLECTION(", 60) + "POINT(1 2)" + strings.Repeat(")", 60),
			strings.Repeat("(", 300), "MULTIPOLYGON" + strings.Repeat("(", 300), "POLYGON(" + strings.Repeat("),(", 300) + ")",
			"LINESTRING(" + strings.Repeat("1 2,", 500) + "1 2)",
			// long inputs: the allocation bound is linear (the letter-splitting collection parser that
			// /repo 5a01c04 replaced was quadratic here: 8 kB -> 34 MB, 40 kB -> 860 MB)
			"GEOMETRYCOLLECTION" + strings.Repeat("1", 2000), "GEOMETRYCOLLECTION(LINESTRING(" + strings.Repeat("1 2,", 500) + "1 2))",
			"GEOMETRYCOLLECTION" + strings.Repeat("1", 8000), "GEOMETRYCOLLECTION(" + strings.Repeat("1", 40000) + ")",
			"GEOMETRYCOLLECTION(" + strings.Repeat("POINT(1 2),", 1000) + "POINT(1 2))",
			"GEOMETRYCOLLECTION(LINESTRING(" + strings.Repeat("1 2,", 3000) + "1 2))",
			strings.Repeat("GEOMETRYCOLLECTION(", 400) + "POINT(1 2)" + strings.Repeat(")", 400),
			"GEOMETRYCOLLECTION(" + strings.Repeat("(", 5000) + strings.Repeat(",", 5000) + strings.Repeat(")", 5000) + ")",
			"GEOMETRYCOLLECTION(" + strings.Repeat(",", 20000) + ")",
			"POLYGON(" + strings.Repeat("),(", 3000) + ")", "MULTIPOLYGON(" + strings.Repeat(")),((", 2000) + ")",
			"LINESTRING(" + strings.Repeat("1 2,", 3000) + "1 2)", "MULTIPOINT(" + strings.Repeat("(1 2),", 2000) + "(1 2))",
		} {
			emit(wktHostileInput(s))
		}
	}
	// long texts of every multi kind and of collections, spread over the shards
	{
		li := 0
		wktLongFamily(c.Tier == "thorough", func(s string) {
			if wktSpread(c, li) {
				emit(wktHostileInput(s))
			}
			li++
		})
		// collections nested 257 / 300 / 513 deep around a two-member innermost collection (a comma
		// 256+ parentheses deep is not a member separator of any enclosing collection)
		for _, d := range []int{257, 300, 513} {
			if wktSpread(c, li) {
				emit(wktHostileInput(strings.Repeat("GEOMETRYCOLLECTION(", d) + "POINT(1 2),POINT(3 4)" + strings.Repeat(")", d)))
			}
			li++
		}
	}
	for k := 0; k < c.Budget && !c.Exhausted(); k++ {
		if k%250 == 37 {
			emit(wktHostileInput(wktLongRandom(r)))
			continue
		}
		g := wktGenGeom(r, r.Intn(3), 0)
		o := wktGenGeom(r, r.Intn(3), 0)
		s, _ := wktMarshalGuarded(g)
		t, _ := wktMarshalGuarded(o)
		m := wktMutate(r, s, t)
		for r.Intn(3) == 0 {
			m = wktMutate(r, m, t)
		}
		emit(wktHostileInput(m))
	}
}

// --- C04 generator ---

// wktCoord draws a finite coordinate; style 0 = plain decimals only (never printed with an exponent),
// 1 = mixed, 2 = mixed with emphasis on exponent forms.
func wktCoord(r *rand.Rand, style int) float64 {
	if style == 0 {
		switch r.Intn(5) {
		case 0:
			return float64(r.Intn(17) - 8)
		case 1:
			return math.Round((r.Float64()*2-1)*1e4) / 100 // short decimals
		case 2:
			return (r.Float64()*2 - 1) * 180 // full precision, 1e-4 <= |x| < 1e21 (almost surely)
		case 3:
			if r.Intn(3) == 0 { // whole numbers around the int64 / uint64 / 2^53 boundaries and powers of ten
				m := []float64{9007199254740992, 9223372036854775808, 18446744073709551616, 1e15, 1e16, 1e17, 1e18, 1e19, 9.5e18, 4294967296, 2147483648}[r.Intn(11)]
				return math.Copysign(m*[]float64{1, 1, 1.5, 0.999999999999, 1.000000000001}[r.Intn(5)], float64(r.Intn(2)*2-1))
			}
			return []float64{0, math.Copysign(0, -1), 1, -1, 0.5, 1e20, 123456789012345680000, 0.0001, -0.0001234}[r.Intn(9)]
		default:
			return float64(r.Intn(1<<21+1) - 1<<20)
		}
	}
	switch r.Intn(8 - 2*(style-1)) {
	case 0:
		return (r.Float64()*2 - 1) * 1e-7
	case 1:
		return (r.Float64()*2 - 1) * 1e22
	case 2:
		return math.Float64frombits(r.Uint64()&0x7fefffffffffffff | uint64(r.Intn(2))<<63) // any finite
	case 3:
		return []float64{1e21, -1e21, 1e-5, 2e-7, 9.999e-5, 5e-324, -5e-324, math.MaxFloat64, -math.MaxFloat64, 2.2250738585072014e-308, 1e100}[r.Intn(11)]
	default:
		return wktCoord(r, 0)
	}
}

func wktPoints(r *rand.Rand, style, max int, nonEmpty bool) []orb.Point {
	n := size(r, max)
	if nonEmpty && n == 0 {
		n = 1 + r.Intn(3)
	}
	ps := make([]orb.Point, n)
	for i := range ps {
		ps[i] = orb.Point{wktCoord(r, style), wktCoord(r, style)}
	}
	return ps
}

// wktGenGeom draws a geometry of any of the nine kinds.  Empty members of multi-geometries are rare
// (1 in 8 per value) so that most values are inside the class where the round trip holds.
func wktGenGeom(r *rand.Rand, style int, depth int) orb.Geometry {
	return wktGenGeomD(r, style, depth, 2)
}

// wktGenGeomD: collections occur at depths < maxDepth (maxDepth = 2 is the historical shape: a
// collection of collections of non-collections).
func wktGenGeomD(r *rand.Rand, style int, depth int, maxDepth int) orb.Geometry {
	emptyOK := r.Intn(8) == 0
	pts := func() []orb.Point { return wktPoints(r, style, 5, !emptyOK) }
	poly := func() orb.Polygon {
		n := size(r, 3)
		if !emptyOK && n == 0 {
			n = 1
		}
		p := make(orb.Polygon, n)
		for i := range p {
			p[i] = orb.Ring(pts())
		}
		return p
	}
	k := r.Intn(9)
	if k != 8 && depth > 0 && depth < maxDepth && maxDepth > 2 && r.Intn(4) == 0 {
		k = 8 // deep mode: keep descending (a member is a collection with probability 1/3, not 1/9)
	}
	if k == 8 && depth >= maxDepth {
		k = r.Intn(8)
	}
	switch k {
	case 0:
		return orb.Point{wktCoord(r, style), wktCoord(r, style)}
	case 1:
		return orb.MultiPoint(wktPoints(r, style, 5, false))
	case 2:
		return orb.LineString(wktPoints(r, style, 5, false))
	case 3:
		m := make(orb.MultiLineString, size(r, 3))
		for i := range m {
			m[i] = orb.LineString(pts())
		}
		return m
	case 4:
		return orb.Ring(pts())
	case 5:
		p := poly()
		if r.Intn(6) == 0 {
			p = orb.Polygon{}
		}
		return p
	case 6:
		m := make(orb.MultiPolygon, size(r, 3))
		for i := range m {
			m[i] = poly()
		}
		return m
	case 7:
		return orb.Bound{Min: orb.Point{wktCoord(r, style), wktCoord(r, style)}, Max: orb.Point{wktCoord(r, style), wktCoord(r, style)}}
	default:
		c := make(orb.Collection, size(r, 4))
		clean := r.Intn(2) == 0 // members that keep the collection inside the class that round-trips
		for i := range c {
			for {
				c[i] = wktGenGeomD(r, style, depth+1, maxDepth)
				if !clean {
					break
				}
				if _, nested := c[i].(orb.Collection); nested {
					continue
				}
				if s, _ := wktMarshalGuarded(c[i]); strings.HasSuffix(s, "EMPTY") || strings.Contains(s, "()") {
					continue
				}
				break
			}
		}
		return c
	}
}

// wktDeepChain: a collection nested k levels deep (k+1 collection levels when the innermost value is
// itself an empty collection), with non-collection siblings before and after the descending member
// at every level and now and then a second, shallower branch.  The innermost value is a plain
// geometry, an EMPTY value or an empty collection.
func wktDeepChain(r *rand.Rand, style, k int) orb.Geometry {
	sib := func() orb.Geometry { return wktGenGeomD(r, style, 1, 1) } // never a collection
	if k <= 0 {
		switch r.Intn(8) {
		case 0:
			return orb.Collection{}
		case 1:
			return orb.LineString{}
		case 2:
			return orb.MultiPolygon{}
		default:
			return sib()
		}
	}
	var c orb.Collection
	for i := r.Intn(2); i > 0; i-- {
		c = append(c, sib())
	}
	c = append(c, wktDeepChain(r, style, k-1))
	if r.Intn(6) == 0 {
		c = append(c, wktDeepChain(r, style, r.Intn(k)))
	}
	for i := r.Intn(2); i > 0; i-- {
		c = append(c, sib())
	}
	return c
}

// wktNest wraps g in k collections, g being the only member at every level.
func wktNest(g orb.Geometry, k int) orb.Geometry {
	for ; k > 0; k-- {
		g = orb.Collection{g}
	}
	return g
}

// wktNestSib wraps g in k collections.  mode 0: g is the only member at every level; mode 1: every
// 64th level and the outermost one get a point before and a line string after the nested member;
// mode 2: every level gets a point AFTER the nested member (a comma right after a deep member at
// every parenthesis depth).
func wktNestSib(g orb.Geometry, k, mode int) orb.Geometry {
	for l := 1; l <= k; l++ {
		switch {
		case mode == 1 && (l%64 == 0 || l == k):
			g = orb.Collection{orb.Point{float64(l), 0}, g, orb.LineString{{0, float64(l)}, {1, 1}}}
		case mode == 2:
			g = orb.Collection{g, orb.Point{1, 0}}
		default:
			g = orb.Collection{g}
		}
	}
	return g
}

// wktDeepDepths: nesting depths around the places where a narrow parenthesis counter wraps (int8 /
// uint8: 128, 256, 512) and well beyond.
var wktDeepDepths = []int{127, 128, 129, 255, 256, 257, 258, 300, 511, 512, 513, 700, 1000}

// wktDeepFamily: for every depth of wktDeepDepths, collections nested that deep around an innermost
// collection of SEVERAL members (a comma at parenthesis depth = nesting depth): variant 0 bare,
// variant 1 (quick: depths <= 513) a mixed innermost collection and members before/after the nested
// one at some levels, variant 2 (quick: depths <= 300) a member after the nested one at EVERY level.
// The Lean model's parser costs about 10 x depth x length list steps per parse (5 s at depth 1000).
func wktDeepFamily(thorough bool, emit func(g orb.Geometry, depth, variant int)) {
	two := orb.Collection{orb.Point{1, 2}, orb.Point{3, 4}}
	mixed := orb.Collection{
		orb.MultiPolygon{{{{0, 0}, {1, 0}, {0, 0}}}, {{{5, 5}, {6, 6}}, {{7, 7}, {8, 8}}}},
		orb.LineString{{1, 2}, {3, 4}, {5, 6}},
		orb.Collection{},
		orb.Point{1e21, 2e-7},
	}
	for _, d := range wktDeepDepths {
		emit(wktNestSib(two, d, 0), d, 0)
		if thorough || d <= 513 {
			emit(wktNestSib(mixed, d, 1), d, 1)
		}
		if thorough || d <= 300 {
			emit(wktNestSib(orb.MultiPoint{{1, 2}, {3, 4}}, d, 2), d, 2)
		}
	}
}

// wktSpread: like c.Mine for the expensive fixed families, but keeps them off shard 0 (which carries
// the rest of the fixed family) when there are other shards.
func wktSpread(c *Ctx, i int) bool {
	if c.Shards <= 1 {
		return true
	}
	return c.Shard == 1+i%(c.Shards-1)
}

// wktSeqDraw: the values and entry points of one random `seq` case: 2..7 calls, mostly the []byte
// entry point first, sizes mixed (a later text shorter / longer than an earlier one, equal values
// twice, empty texts).
func wktSeqDraw(r *rand.Rand) (string, []int, []orb.Geometry) {
	n := 2 + r.Intn(6)
	gs_ := make([]orb.Geometry, n)
	entries := make([]int, n)
	style := r.Intn(3)
	for i := range gs_ {
		switch x := r.Intn(12); {
		case x == 0:
			gs_[i] = wktTopNil(r)
		case x == 1 && i > 0:
			gs_[i] = gs_[r.Intn(i)] // the same value again
		case x == 2:
			gs_[i] = orb.Point{wktCoord(r, style), wktCoord(r, style)}
		case x == 3: // a longer text (beyond any small initial buffer; one in four: 4-20 kB)
			np := 20 + r.Intn(60)
			if r.Intn(4) == 0 {
				np = 300 + r.Intn(900)
			}
			ps := make(orb.LineString, np)
			for j := range ps {
				ps[j] = orb.Point{wktCoord(r, style), wktCoord(r, style)}
			}
			gs_[i] = ps
		default:
			for try := 0; ; try++ {
				gs_[i] = wktGenGeom(r, style, 0)
				if s, _ := wktMarshalGuarded(gs_[i]); !strings.Contains(s, "()") || try >= 8 {
					break
				}
			}
		}
		if r.Intn(4) != 0 {
			entries[i] = 0
		} else {
			entries[i] = 1
		}
	}
	mode := "s"
	if r.Intn(4) == 0 {
		mode = "p"
	}
	return mode, entries, gs_
}

func wktTopNil(r *rand.Rand) orb.Geometry {
	switch r.Intn(8) {
	case 0:
		return nil
	case 1:
		return orb.MultiPoint(nil)
	case 2:
		return orb.LineString(nil)
	case 3:
		return orb.MultiLineString(nil)
	case 4:
		return orb.Ring(nil)
	case 5:
		return orb.Polygon(nil)
	case 6:
		return orb.MultiPolygon(nil)
	}
	return orb.Collection(nil)
}

func wktRtInput(g orb.Geometry, texts ...string) string {
	return gs(g) + " | " + wktFTable(g) + " " + wktPFTable(texts...)
}

func wktRespellInput(r *rand.Rand, g orb.Geometry, dense bool) string {
	text, _ := wktMarshalGuarded(g)
	n := 2
	for i := 0; i < len(text); i++ {
		switch {
		case text[i] == '(' || text[i] == ')' || text[i] == ',':
			n += 2
		case isAlphaByte(text[i]):
			n++
		}
	}
	codes := make([]int, n)
	var sb strings.Builder
	for i := range codes {
		if dense || r.Intn(4) == 0 {
			codes[i] = r.Intn(8)
		} else {
			codes[i] = r.Intn(2) // case flips only, no blanks
		}
		sb.WriteString(" " + strconv.Itoa(codes[i]))
	}
	text2 := respellWKT(codes, text)
	return gs(g) + " R " + strconv.Itoa(n) + sb.String() + " | " + wktFTable(g) + " " + wktPFTable(text, text2)
}

func genC04(c *Ctx) {
	r := c.Rng
	rt := func(g orb.Geometry) {
		text, _ := wktMarshalGuarded(g)
		c.Case("rt", wktRtInput(g, text))
	}
	if c.Shard == 0 {
		// fixed family: orb's own sample values, every top-level nil, one witness per known failure class
		for _, g := range orb.AllGeometries {
			rt(g)
		}
		rt(nil)
		for _, g := range []orb.Geometry{orb.MultiPoint(nil), orb.LineString(nil), orb.MultiLineString(nil), orb.Ring(nil),
			orb.Polygon(nil), orb.MultiPolygon(nil), orb.Collection(nil),
			orb.MultiPoint{}, orb.LineString{}, orb.MultiLineString{}, orb.Ring{}, orb.Polygon{}, orb.MultiPolygon{}, orb.Collection{},
			orb.Collection{orb.LineString{}}, orb.Collection{orb.LineString{}, orb.Point{1, 2}}, orb.Collection{orb.Point{1, 2}, orb.Polygon{}},
			orb.Collection{orb.Collection{orb.Point{1, 2}}}, orb.Collection{orb.Collection{}}, orb.Collection{orb.Point{1, 2}, orb.Collection{orb.Point{3, 4}}},
			orb.Collection{orb.Point{1e21, 2}}, orb.Collection{orb.Point{1, 2e-7}}, orb.Collection{orb.Point{1e20, 0.0001}},
			orb.MultiLineString{{}, {{1, 2}, {3, 4}}}, orb.MultiLineString{{}}, orb.Polygon{{}}, orb.Polygon{{{1, 2}}, {}}, orb.MultiPolygon{{}},
			orb.MultiPolygon{{{}}}, orb.MultiPolygon{{{{1, 2}}}, {}}, orb.Collection{orb.Polygon{{}}},
			orb.Point{1e21, 2e-7}, orb.Point{math.MaxFloat64, 5e-324}, orb.Point{math.Copysign(0, -1), 0},
			orb.Collection{orb.Point{1, 2}, orb.LineString{{3, 4}, {5, 6}}, orb.Polygon{{{0, 0}, {1, 0}, {1, 1}, {0, 0}}}, orb.MultiPolygon{{{{0, 0}, {1, 0}, {0, 0}}}, {{{5, 5}, {6, 6}}}}},
			orb.Bound{Min: orb.Point{1, 2}, Max: orb.Point{3, 4}},
			// collections nested deeper than two levels (3, 4, 5, 12 and 40 levels), with members after the
			// nested one, exponent-form coordinates, EMPTY values and multi-polygons (commas at parenthesis
			// depth 3 of their own) at the bottom
			wktNest(orb.Point{1, 2}, 3), wktNest(orb.Point{1e21, 2e-7}, 4), wktNest(orb.Collection{}, 3), wktNest(orb.LineString{}, 5),
			wktNest(orb.MultiPolygon{{{{0, 0}, {1, 0}, {0, 0}}}, {{{5, 5}, {6, 6}}, {{7, 7}, {8, 8}}}}, 3),
			wktNest(orb.MultiPolygon{{{{0, 0}, {1, 0}, {0, 0}}}, {{{5, 5}, {6, 6}}}}, 4),
			wktNest(orb.MultiPoint{{1, 2}, {3, 4}}, 12), wktNest(orb.Point{1, 2}, 40),
			orb.Collection{orb.Point{1, 2}, orb.Collection{orb.Point{3, 4}, orb.Collection{orb.Point{5, 6}, orb.Collection{orb.Point{7, 8}, orb.LineString{{1, 1}, {2, 2}}}, orb.Point{9, 10}}, orb.Polygon{}}, orb.Point{11, 12}},
			orb.Collection{orb.Collection{orb.Collection{orb.Collection{orb.LineString{{1e21, 2}, {3, 4e-7}}, orb.Point{5, 6}}, orb.Collection{}}}, orb.MultiPoint{}},
			wktNest(orb.Polygon{{}}, 3), wktNest(orb.MultiLineString{{}, {{1, 2}, {3, 4}}}, 4),
		} {
			rt(g)
			if g != nil {
				c.Case("respell", wktRespellInput(r, g, true))
			}
		}
	}
	// deep nests around a multi-member innermost collection (spread over the shards: the Lean model's
	// splitter costs about depth x length list steps per parse)
	{
		idx := 0
		wktDeepFamily(c.Tier == "thorough", func(g orb.Geometry, depth, variant int) {
			if wktSpread(c, idx) {
				rt(g)
				if depth <= 300 && variant != 2 {
					c.Case("respell", wktRespellInput(r, g, variant == 1))
				}
			}
			idx++
		})
	}
	// several encoder calls in a row, every result kept and judged afterwards (op seq): fixed family
	if c.Shard == 0 {
		all := append([]orb.Geometry{}, orb.AllGeometries...)
		zeros := func(n int) []int { return make([]int, n) }
		ones := func(n int) []int {
			e := make([]int, n)
			for i := range e {
				e[i] = 1
			}
			return e
		}
		alt := func(n, first int) []int {
			e := make([]int, n)
			for i := range e {
				e[i] = (first + i) % 2
			}
			return e
		}
		long := make(orb.LineString, 200)
		for i := range long {
			long[i] = orb.Point{float64(i), float64(-i) / 4}
		}
		for _, mode := range []string{"s", "p"} {
			c.Case("seq", wktSeqInput(mode, zeros(len(all)), all))
			c.Case("seq", wktSeqInput(mode, ones(len(all)), all))
			c.Case("seq", wktSeqInput(mode, alt(len(all), 0), all))
			c.Case("seq", wktSeqInput(mode, alt(len(all), 1), all))
			for _, pair := range [][2]orb.Geometry{
				{orb.Point{1, 2}, orb.Point{3, 4}},
				{orb.Point{1, 2}, orb.LineString{{3, 4}, {5, 6}}},
				{orb.LineString{{3, 4}, {5, 6}}, orb.Point{1, 2}},
				{orb.Point{1, 2}, orb.Point{1, 2}},
				{long, orb.Point{1, 2}},
				{orb.Point{1, 2}, long},
				{long, long},
				{orb.Collection{orb.Point{1, 2}, orb.Collection{orb.LineString{{3, 4}, {5, 6}}}}, orb.MultiPolygon{{{{0, 0}, {1, 0}, {0, 0}}}}},
				{orb.Point{1, 2}, orb.MultiPoint{}},
				{orb.MultiPoint{}, orb.LineString{}},
				{orb.Point{1, 2}, nil},
				{orb.Bound{Min: orb.Point{1, 2}, Max: orb.Point{3, 4}}, orb.Ring{{0, 0}, {1, 0}, {0, 0}}},
			} {
				for _, e := range [][]int{{0, 0}, {0, 1}, {1, 0}, {1, 1}} {
					c.Case("seq", wktSeqInput(mode, e, pair[:]))
				}
			}
			c.Case("seq", wktSeqInput(mode, []int{0, 0, 0, 0, 1, 0}, []orb.Geometry{long, orb.Point{1, 2}, long, orb.Point{3, 4}, orb.Point{5, 6}, orb.Polygon{}}))
		}
	}
	// white-box round (c04_wb.go): concurrent parse phase, seq at every buffer size class up to 1 MiB,
	// round trips at member counts around 2^16 / 2^17 and at deep nesting
	parCalls := 60000
	if c.Tier == "thorough" {
		parCalls = 200000
	}
	genWKTPar(c, parCalls)
	genWKTBigSeq(c, 20)
	genWKTBigRt(c)
	n := c.Budget
	for k := 0; k < n && !c.Exhausted(); k++ {
		if k%64 == 5 {
			c.Case("par", wktParDraw(r, parCalls))
		}
		if k%4 == 0 {
			mode, entries, gs_ := wktSeqDraw(r)
			c.Case("seq", wktSeqInput(mode, entries, gs_))
		}
		style := r.Intn(3)
		var g orb.Geometry
		switch x := r.Intn(40); {
		case x == 0:
			g = wktTopNil(r)
		case x < 7:
			// collections nested deeper than two levels.  Three in four of these values are kept free of
			// `()` members (re-drawn otherwise) so that the round trip is judged positively at depth.
			for try := 0; ; try++ {
				if x < 4 { // 3..6 (now and then up to 12) levels: one descending chain with siblings
					k := 3 + r.Intn(4)
					if r.Intn(4) == 0 {
						k = 7 + r.Intn(6)
					}
					g = wktDeepChain(r, style, k)
				} else { // bushy nesting up to depth 3..5
					g = wktGenGeomD(r, style, 0, 3+r.Intn(3))
				}
				if s, _ := wktMarshalGuarded(g); !strings.Contains(s, "()") || try >= 8 || r.Intn(4) == 0 {
					break
				}
			}
		default:
			g = wktGenGeom(r, style, 0)
		}
		rt(g)
		if g != nil {
			c.Case("respell", wktRespellInput(r, g, r.Intn(2) == 0))
		}
	}
	// `<KEYWORD><blanks>EMPTY` with anything but exactly one space in between: outside the property's
	// quantifier (its re-spellings put blanks next to commas, parentheses and at the ends only).  The code
	// answers ErrNotWKT (theorem `empty_form_needs_single_space`); compared with the model here.
	if c.Shard == 0 {
		for _, kw := range []string{"MULTIPOINT", "LINESTRING", "MULTILINESTRING", "POLYGON", "MULTIPOLYGON", "GEOMETRYCOLLECTION", "POINT"} {
			for _, sep := range []string{" ", "", "  ", "\t", "\n", " \t", "\t ", "   ", "\n\n"} {
				for _, e := range []string{"EMPTY", "empty", "Empty"} {
					for _, k := range []string{kw, strings.ToLower(kw)} {
						c.Case("parse", wktHostileInput(k+sep+e))
						c.Case("parse", wktHostileInput(" "+k+sep+e+"\n"))
						c.Case("parse", wktHostileInput("GEOMETRYCOLLECTION("+k+sep+e+",POINT(1 2))"))
					}
				}
			}
		}
	}
	// the hostile stream of C05, here compared outcome by outcome (no allocation measurement)
	old := c.Budget
	c.Budget = old / 2
	op := "parse"
	if os.Getenv("C04_HOSTILE") != "" { // development switch: exercise the C05 plug-in (allocation measured) through C04
		op = "hostile"
	}
	genWKTHostile(c, func(input string) { c.Case(op, input) })
	c.Budget = old
}
