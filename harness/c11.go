package main

import (
	"fmt"
	"strconv"
	"strings"

	"github.com/paulmach/orb"
	"github.com/paulmach/orb/quadtree"
)

func init() { register(&Prop{ID: "C11", Run: runC11, Gen: genC11}) }

type qpt struct {
	id int
	p  orb.Point
}

func (q *qpt) Point() orb.Point { return q.p }

func qid(p orb.Pointer) string { return strconv.Itoa(p.(*qpt).id) }

func qids(ps []orb.Pointer) string {
	var sb strings.Builder
	sb.WriteString(strconv.Itoa(len(ps)))
	for _, p := range ps {
		sb.WriteString(" ")
		sb.WriteString(qid(p))
	}
	return sb.String()
}

func modFilter(m, r int) quadtree.FilterFunc {
	if m == 1 {
		return nil
	}
	return func(p orb.Pointer) bool { return p.(*qpt).id%m == r }
}

// runHistory executes a history on a fresh tree; one result per op, then the tree dump.
func runHistory(r *tokReader) string {
	bnd := orb.Bound{Min: r.pt(), Max: r.pt()}
	n := r.int()
	q := quadtree.New(bnd)
	res := make([]string, 0, n+1)
	idsOf := func() map[int]bool {
		m := map[int]bool{}
		for _, p := range q.VerifContents() {
			m[p.(*qpt).id] = true
		}
		return m
	}
	for i := 0; i < n; i++ {
		out := guard(func() string {
			switch op := r.next(); op {
			case "a":
				id := r.int()
				p := r.pt()
				if err := q.Add(&qpt{id, p}); err != nil {
					return "0"
				}
				return "1"
			case "ri", "rp":
				var eq quadtree.FilterFunc
				if op == "ri" {
					id := r.int()
					eq = func(p orb.Pointer) bool { return p.(*qpt).id == id }
				}
				p := r.pt()
				before := idsOf()
				ok := q.Remove(&qpt{-1, p}, eq)
				if !ok {
					return "0"
				}
				after := idsOf()
				gone := []string{}
				for id := range before {
					if !after[id] {
						gone = append(gone, strconv.Itoa(id))
					}
				}
				if len(gone) != 1 {
					return "1 ?"
				}
				return "1 " + gone[0]
			case "f":
				v := q.Find(r.pt())
				if v == nil {
					return "-"
				}
				return qid(v)
			case "m":
				p := r.pt()
				m, rr := r.int(), r.int()
				v := q.Matching(p, modFilter(m, rr))
				if v == nil {
					return "-"
				}
				return qid(v)
			case "k":
				p := r.pt()
				k, m, rr := r.int(), r.int(), r.int()
				md := r.next()
				var out []orb.Pointer
				if md == "-" {
					out = q.KNearestMatching(nil, p, k, modFilter(m, rr))
				} else {
					out = q.KNearestMatching(nil, p, k, modFilter(m, rr), pf(md))
				}
				return qids(out)
			case "b":
				b := orb.Bound{Min: r.pt(), Max: r.pt()}
				m, rr := r.int(), r.int()
				return qids(q.InBoundMatching(nil, b, modFilter(m, rr)))
			default:
				panic("bad op " + op)
			}
		})
		if out == "panic" {
			return "panic"
		}
		res = append(res, out)
	}
	res = append(res, "T "+q.VerifDump(qid))
	return strings.Join(res, " ; ")
}

func runC11(op string, in []string) string {
	return guard(func() string {
		if op != "hist" {
			return "badop"
		}
		return runHistory(&tokReader{t: in})
	})
}

// histGen builds random histories over a point alphabet.
type histGen struct {
	c      *Ctx
	pts    []orb.Point // alphabet
	nextID int
	live   []qpt
}

func (h *histGen) pt() orb.Point {
	r := h.c.Rng
	if len(h.pts) > 0 && r.Intn(5) != 0 {
		return h.pts[r.Intn(len(h.pts))]
	}
	return orb.Point{float64(r.Intn(41)-20) / 2, float64(r.Intn(41)-20) / 2}
}

func fpt(p orb.Point) string { return fb(p[0]) + " " + fb(p[1]) }

func (h *histGen) op() string {
	r := h.c.Rng
	x := r.Intn(100)
	switch {
	case x < 35 || len(h.live) == 0 && x < 60:
		h.nextID++
		p := h.pt()
		h.live = append(h.live, qpt{h.nextID, p})
		return fmt.Sprintf("a %d %s", h.nextID, fpt(p))
	case x < 45: // remove by identity (sometimes of something absent)
		if len(h.live) > 0 && r.Intn(6) != 0 {
			i := r.Intn(len(h.live))
			v := h.live[i]
			h.live = append(h.live[:i], h.live[i+1:]...)
			return fmt.Sprintf("ri %d %s", v.id, fpt(v.p))
		}
		return fmt.Sprintf("ri %d %s", 9999, fpt(h.pt()))
	case x < 55: // remove by point
		return "rp " + fpt(h.pt())
	case x < 65:
		return "f " + fpt(h.pt())
	case x < 72:
		m := 2 + r.Intn(2)
		return fmt.Sprintf("m %s %d %d", fpt(h.pt()), m, r.Intn(m))
	case x < 88:
		m := 1
		if r.Intn(3) == 0 {
			m = 2 + r.Intn(2)
		}
		md := "-"
		if r.Intn(3) == 0 {
			md = fb(float64(r.Intn(12)) / 2)
		}
		k := r.Intn(6)
		if r.Intn(12) == 0 { // large k: more than the tree holds, heaps beyond any small-size fast path
			k = []int{16, 63, 64, 65, 100, 300}[r.Intn(6)]
		}
		return fmt.Sprintf("k %s %d %d %d %s", fpt(h.pt()), k, m, r.Intn(m), md)
	default:
		a, b := h.pt(), h.pt()
		if a[0] > b[0] {
			a[0], b[0] = b[0], a[0]
		}
		if a[1] > b[1] {
			a[1], b[1] = b[1], a[1]
		}
		m := 1
		if r.Intn(3) == 0 {
			m = 2
		}
		return fmt.Sprintf("b %s %s %d %d", fpt(a), fpt(b), m, r.Intn(m))
	}
}

func genC11(c *Ctx) {
	r := c.Rng
	bound := "c024000000000000 c024000000000000 4024000000000000 4024000000000000" // [-10,10]^2
	// exhaustive: all histories of length <= L over a small op alphabet
	alpha := []string{}
	pts := []orb.Point{{0, 0}, {10, 10}, {-10, 5}, {5, 5}, {2.5, -2.5}, {11, 0}}
	for i, p := range pts[:5] {
		alpha = append(alpha, fmt.Sprintf("a %d %s", 100+i, fpt(p)))
	}
	alpha = append(alpha, fmt.Sprintf("a 200 %s", fpt(pts[0]))) // duplicate point, new id
	alpha = append(alpha, fmt.Sprintf("a 300 %s", fpt(pts[5]))) // outside
	alpha = append(alpha,
		"rp "+fpt(pts[0]), "ri 103 "+fpt(pts[3]), "rp "+fpt(pts[4]),
		"f "+fpt(orb.Point{1, 1}), "m "+fpt(orb.Point{4, 4})+" 2 0",
		"k "+fpt(orb.Point{0, 0})+" 2 1 0 -", "k "+fpt(orb.Point{5, 5})+" 3 1 0 "+fb(8), "k "+fpt(orb.Point{0, 0})+" 0 1 0 -",
		"b "+fpt(orb.Point{0, 0})+" "+fpt(orb.Point{10, 10})+" 1 0")
	L := 3
	if c.Tier == "thorough" {
		L = 4
	}
	idx := 0
	var rec func(prefix []string)
	rec = func(prefix []string) {
		if len(prefix) > 0 {
			idx++
			if c.Mine(idx) {
				c.Case("hist", fmt.Sprintf("%s %d %s", bound, len(prefix), strings.Join(prefix, " ")))
			}
		}
		if len(prefix) == L || c.Exhausted() {
			return
		}
		for _, a := range alpha {
			dup := false
			if strings.HasPrefix(a, "a ") { // ids stand for pointer identity: never add the same one twice
				for _, q := range prefix {
					if q == a {
						dup = true
					}
				}
			}
			if !dup {
				rec(append(prefix, a))
			}
		}
	}
	rec(nil)
	// random histories
	maxOps := 60
	if c.Tier == "thorough" {
		maxOps = 400
	}
	for k := 0; k < c.Budget && !c.Exhausted(); k++ {
		h := &histGen{c: c}
		na := 2 + r.Intn(10)
		for i := 0; i < na; i++ {
			switch r.Intn(4) {
			case 0: // on midlines of the root and deeper cells, and on the bound
				h.pts = append(h.pts, orb.Point{[]float64{0, 5, -5, 2.5, 10, -10, 7.5}[r.Intn(7)], []float64{0, 5, -5, 2.5, 10, -10, -7.5}[r.Intn(7)]})
			default:
				h.pts = append(h.pts, orb.Point{float64(r.Intn(41)-20) / 2, float64(r.Intn(41)-20) / 2})
			}
		}
		if r.Intn(4) == 0 { // general-position floats
			for i := range h.pts {
				h.pts[i] = orb.Point{r.Float64()*24 - 12, r.Float64()*24 - 12}
			}
		}
		n := 1 + r.Intn(maxOps)
		ops := make([]string, n)
		for i := range ops {
			ops[i] = h.op()
		}
		b := bound
		if r.Intn(5) == 0 {
			b = fmt.Sprintf("%s %s %s %s", fb(-3), fb(-7.5), fb(12), fb(9))
		}
		c.Case("hist", fmt.Sprintf("%s %d %s", b, n, strings.Join(ops, " ")))
	}
}
