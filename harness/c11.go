package main

import (
	"fmt"
	"math"
	"strconv"
	"strings"

	"github.com/paulmach/orb"
	"github.com/paulmach/orb/quadtree"
)

func init() { register(&Prop{ID: "C11", Run: runC11, Gen: genC11}) }

type qpt struct {
	id int
	p  orb.Point
}

func (q *qpt) Point() orb.Point { return q.p }

// The family of orb.Pointer implementations the histories store and pass (op `histP`): the quantifier
// of the property is over stored POINTERS, whatever their dynamic type.  The library may call
// Point() on them and hand them to the caller's filter, nothing else: in particular it may not
// compare two Pointer interface values (`==` panics for the kinds marked uncomparable), type-assert
// them, or use them as map keys.
type (
	// a comparable value struct, value receiver
	qval struct {
		id int
		p  orb.Point
	}
	// a value struct with a slice inside (like a record with tags): UNCOMPARABLE
	qunc struct {
		id  int
		p   orb.Point
		pad []byte
	}
	// Point() has a value receiver; stored as *qvr (kind 3: comparable pointer) and by value
	// (kind 4: a map inside, like geojson.Feature: UNCOMPARABLE)
	qvr struct {
		id   int
		p    orb.Point
		tags map[string]int
	}
	// a struct that embeds a pointer (promoted method, the embedded pointer is nil-able)
	qemb struct{ *qpt }
	// a wrapper that holds another Pointer in an interface field: comparable for the compiler,
	// but comparing two of them panics at run time when the inner dynamic type is uncomparable
	qbox struct{ in orb.Pointer }
	// nil-able kinds: slice {id, x, y}, map, func — all UNCOMPARABLE
	qsl []float64
	qmp map[string]float64
	qfn func() (int, orb.Point)
)

func (q qval) Point() orb.Point { return q.p }
func (q qunc) Point() orb.Point { return q.p }
func (q qvr) Point() orb.Point  { return q.p }
func (q qbox) Point() orb.Point { return q.in.Point() }
func (q qsl) Point() orb.Point  { return orb.Point{q[1], q[2]} }
func (q qmp) Point() orb.Point  { return orb.Point{q["x"], q["y"]} }
func (q qfn) Point() orb.Point  { _, p := q(); return p }

const c11PtrKinds = 11

// mkPtr builds a pointer of the given kind of the family.
func mkPtr(kind, id int, p orb.Point) orb.Pointer {
	switch kind {
	case 1:
		return qval{id, p}
	case 2:
		return qunc{id, p, []byte{1, 2, 3}}
	case 3:
		return &qvr{id, p, nil}
	case 4:
		return qvr{id, p, map[string]int{"k": id}}
	case 5:
		return qemb{&qpt{id, p}}
	case 6:
		return qbox{qunc{id, p, nil}}
	case 7:
		return qsl{float64(id), p[0], p[1]}
	case 8:
		return qmp{"id": float64(id), "x": p[0], "y": p[1]}
	case 9:
		return qfn(func() (int, orb.Point) { return id, p })
	case 10:
		return qbox{&qpt{id, p}}
	}
	return &qpt{id, p}
}

// ptrMode is the first token of op `histP`: `P<k>` every pointer of the history (stored ones and the
// probes handed to Remove) has kind k; `M<s>` mixed: the kind of a stored pointer follows from its id,
// the kind of a Remove probe from the index of the operation.
type ptrMode struct {
	uniform bool
	n       int
}

func parsePtrMode(t string) ptrMode {
	if len(t) < 2 || (t[0] != 'P' && t[0] != 'M') {
		panic("bad pointer mode " + t)
	}
	return ptrMode{t[0] == 'P', pi(t[1:])}
}

func (m ptrMode) kind(i int) int {
	if m.uniform {
		return m.n
	}
	k := (i*7 + m.n) % c11PtrKinds
	if k < 0 {
		k += c11PtrKinds
	}
	return k
}

func qidInt(p orb.Pointer) int {
	switch v := p.(type) {
	case *qpt:
		return v.id
	case qval:
		return v.id
	case qunc:
		return v.id
	case *qvr:
		return v.id
	case qvr:
		return v.id
	case qemb:
		return v.qpt.id
	case qbox:
		return qidInt(v.in)
	case qsl:
		return int(v[0])
	case qmp:
		return int(v["id"])
	case qfn:
		id, _ := v()
		return id
	}
	panic(fmt.Sprintf("pointer of a type the harness never stored: %T", p))
}

func qid(p orb.Pointer) string { return strconv.Itoa(qidInt(p)) }

func qids(ps []orb.Pointer) string {
	var sb strings.Builder
	sb.WriteString(strconv.Itoa(len(ps)))
	for _, p := range ps {
		sb.WriteString(" ")
		sb.WriteString(qid(p))
	}
	return sb.String()
}

func modFilter(m, r int) quadtree.FilterFunc {
	if m == 1 {
		return nil
	}
	return func(p orb.Pointer) bool { return qidInt(p)%m == r }
}

// c11Sentinel fills the caller-supplied result buffers ("dirty" buffers): it is never stored in a
// tree, so any answer that mentions its id leaked stale buffer content.
const c11SentinelID = 777777

// dirtyBuf returns a non-nil buffer of the given length and capacity whose whole capacity is
// filled with sentinel pointers.
func dirtyBuf(blen, bcap int) []orb.Pointer {
	if bcap < blen {
		bcap = blen
	}
	s := &qpt{c11SentinelID, orb.Point{0, 0}}
	buf := make([]orb.Pointer, bcap)
	for i := range buf {
		buf[i] = s
	}
	return buf[:blen]
}

func samePointBits(a, b orb.Point) bool {
	return math.Float64bits(a[0]) == math.Float64bits(b[0]) && math.Float64bits(a[1]) == math.Float64bits(b[1])
}

// the elements behind the limit in the caller's limits array: never to be read or written by the library
var c11LimSentinels = [3]float64{12345.678, -1, math.Inf(1)}

// runHistory executes a history on a fresh tree; one result per op, then the tree dump.
//
//	a id pt            Add; the same id always denotes the SAME pointer object (added twice = a
//	                   multiset with that pointer twice; re-added after removal = the same pointer again)
//	an                 Add(nil)
//	ri id pt           Remove(probe{pt}, eq: same id)
//	rp pt              Remove(probe{pt}, nil)
//	rs id pt           Remove(the pointer object with this id itself, nil)   (pt must be its point)
//	rm pt m r          Remove(probe{pt}, eq: id%m==r)   (eq may accept many pointers at different distances)
//	f pt               Find
//	m pt m r           Matching(filter id%m==r)
//	k pt k m r md      m==1: the wrapper KNearest, else KNearestMatching; k may be negative; nil buffer
//	kB pt k m r md l c the same with a dirty non-nil buffer of length l and capacity c
//	b lo hi m r        m==1: the wrapper InBound, else InBoundMatching; nil buffer
//	bB lo hi m r l c   the same with a dirty non-nil buffer
//
// Pointers (stored ones and the probes given to Remove) are of the kinds `mode` selects.
//
// The distance limit of k / kB is passed the way a caller passes it who keeps its limits in a slice:
// ONE array per history, `q.KNearest(buf, p, k, lims[:1]...)` (op index%5 == 4: `lims[:2]...`, a second
// element the library must ignore; no limit and op index%3 == 0: `lims[:0]...`).  The harness stores a
// limit into lims[0] only when the op's limit token differs from the token of the previous limited op,
// and after EVERY k-nearest call compares the whole array bit for bit with what it stored: a
// difference is reported behind the answer as `L! <index> <stored bits> <bits now>` (the driver's
// clause `argument-mutated limit`).
//
// A panic of the library ends the history: the answers so far, then the token `panic`.
func runHistory(r *tokReader, mode ptrMode) string {
	bnd := orb.Bound{Min: r.pt(), Max: r.pt()}
	n := r.int()
	q := quadtree.New(bnd)
	res := make([]string, 0, n+1)
	ptrs := map[int]orb.Pointer{}
	ptsOf := map[int]orb.Point{}
	lims := []float64{0, c11LimSentinels[0], c11LimSentinels[1], c11LimSentinels[2]}
	limTok := ""
	// the last few slices the library returned (k-nearest and bound searches, nil-buffer and buffer
	// forms) stay alive here together with the ids they held when they were returned; after EVERY
	// later op they are read again: an answer the caller still holds may not change under a later
	// call (marker `EA! <op index of the rewritten answer> <element> <id then> <id now>` behind the
	// later op's answer; the driver's clause `earlier-answer-rewritten`).
	type heldAnswer struct {
		op  int
		ps  []orb.Pointer
		ids []int
	}
	var held []heldAnswer
	var fresh *heldAnswer
	safeID := func(p orb.Pointer) (id int) {
		if p == nil {
			return -1 << 40
		}
		defer func() {
			if recover() != nil {
				id = -1<<40 + 1
			}
		}()
		return qidInt(p)
	}
	hold := func(i int, ps []orb.Pointer) []orb.Pointer {
		h := &heldAnswer{op: i, ps: ps, ids: make([]int, len(ps))}
		for j, p := range ps {
			h.ids[j] = safeID(p)
		}
		fresh = h
		return ps
	}
	heldChanged := func() string {
		for _, h := range held {
			n := len(h.ps)
			for j := 0; j < n; j++ {
				if n > 512 && j == 256 { // long answers: both ends
					j = n - 256
				}
				if now := safeID(h.ps[j]); now != h.ids[j] {
					return fmt.Sprintf(" EA! %d %d %d %d", h.op, j, h.ids[j], now)
				}
			}
		}
		return ""
	}
	limsChanged := func() string {
		want := [4]float64{0, c11LimSentinels[0], c11LimSentinels[1], c11LimSentinels[2]}
		from := 1
		if limTok != "" {
			want[0] = pf(limTok)
			from = 0
		}
		for i := from; i < 4; i++ {
			if math.Float64bits(lims[i]) != math.Float64bits(want[i]) {
				return fmt.Sprintf(" L! %d %s %s", i, fb(want[i]), fb(lims[i]))
			}
		}
		return ""
	}
	countsOf := func() map[int]int {
		m := map[int]int{}
		for _, p := range q.VerifContents() {
			m[qidInt(p)]++
		}
		return m
	}
	remove := func(probe orb.Pointer, eq quadtree.FilterFunc) func() string {
		return func() string {
			before := countsOf()
			ok := q.Remove(probe, eq)
			if !ok {
				return "0"
			}
			after := countsOf()
			gone := []string{}
			for id, c := range before {
				for i := after[id]; i < c; i++ {
					gone = append(gone, strconv.Itoa(id))
				}
			}
			extra := 0
			for id, c := range after {
				if c > before[id] {
					extra++
				}
			}
			if len(gone) != 1 || extra != 0 {
				return "1 ?"
			}
			return "1 " + gone[0]
		}
	}
	for i := 0; i < n; i++ {
		// the arguments are read outside guard(): a malformed case is a harness bug, not a library panic
		var call func() string
		switch op := r.next(); op {
		case "a", "rs":
			id := r.int()
			p := r.pt()
			v := ptrs[id]
			if v == nil {
				v = mkPtr(mode.kind(id), id, p)
				ptrs[id] = v
				ptsOf[id] = p
			} else if !samePointBits(ptsOf[id], p) {
				return "badcase id-reused-with-another-point"
			}
			if op == "rs" {
				call = remove(v, nil)
				break
			}
			call = func() string {
				if err := q.Add(v); err != nil {
					return "0"
				}
				return "1"
			}
		case "an":
			call = func() string {
				if err := q.Add(nil); err != nil {
					return "0"
				}
				return "1"
			}
		case "ri":
			id := r.int()
			call = remove(mkPtr(mode.kind(i), -1, r.pt()), func(p orb.Pointer) bool { return qidInt(p) == id })
		case "rp":
			call = remove(mkPtr(mode.kind(i), -1, r.pt()), nil)
		case "rm":
			p := r.pt()
			m, rr := r.int(), r.int()
			call = remove(mkPtr(mode.kind(i), -1, p), func(p orb.Pointer) bool { return qidInt(p)%m == rr })
		case "f":
			p := r.pt()
			call = func() string {
				v := q.Find(p)
				if v == nil {
					return "-"
				}
				return qid(v)
			}
		case "m":
			p := r.pt()
			m, rr := r.int(), r.int()
			call = func() string {
				v := q.Matching(p, modFilter(m, rr))
				if v == nil {
					return "-"
				}
				return qid(v)
			}
		case "k", "kB":
			p := r.pt()
			k, m, rr := r.int(), r.int(), r.int()
			md := r.next()
			var buf []orb.Pointer
			if op == "kB" {
				bl, bc := r.int(), r.int()
				buf = dirtyBuf(bl, bc)
			}
			var lim []float64
			if md != "-" {
				pf(md) // a malformed token is a harness bug
				if md != limTok {
					lims[0] = pf(md)
					limTok = md
				}
				lim = lims[:1]
				if i%5 == 4 {
					lim = lims[:2]
				}
			} else if i%3 == 0 {
				lim = lims[:0]
			}
			call = func() string {
				var out string
				if m == 1 {
					out = qids(hold(i, q.KNearest(buf, p, k, lim...)))
				} else {
					out = qids(hold(i, q.KNearestMatching(buf, p, k, modFilter(m, rr), lim...)))
				}
				return out + limsChanged()
			}
		case "b", "bB":
			b := orb.Bound{Min: r.pt(), Max: r.pt()}
			m, rr := r.int(), r.int()
			var buf []orb.Pointer
			if op == "bB" {
				bl, bc := r.int(), r.int()
				buf = dirtyBuf(bl, bc)
			}
			call = func() string {
				if m == 1 {
					return qids(hold(i, q.InBound(buf, b)))
				}
				return qids(hold(i, q.InBoundMatching(buf, b, modFilter(m, rr))))
			}
		default:
			return "badcase op " + op
		}
		fresh = nil
		out := guard(call)
		if out == "panic" {
			res = append(res, out)
			return strings.Join(res, " ; ")
		}
		out += heldChanged()
		res = append(res, out)
		if fresh != nil && len(fresh.ps) > 0 {
			if len(held) == 6 {
				held = append(held[:0], held[1:]...)
			}
			held = append(held, *fresh)
		}
	}
	res = append(res, "T "+q.VerifDump(qid))
	return strings.Join(res, " ; ")
}

func runC11(op string, in []string) string {
	return guard(func() string {
		switch op {
		case "hist":
			return runHistory(&tokReader{t: in}, ptrMode{true, 0})
		case "histP": // the same with the pointer kinds named by the first token
			return runHistory(&tokReader{t: in[1:]}, parsePtrMode(in[0]))
		case "trunc": // marker emitted by the generator when an exhaustive enumeration was cut short
			return "-"
		}
		return "badop"
	})
}

// histGen builds random histories over a point alphabet.
type histGen struct {
	c      *Ctx
	pts    []orb.Point // alphabet
	nextID int
	live   []qpt
	// used by opX only (C11): every pointer ever created, id -> point tokens
	ever    map[int]string
	everIDs []int
	lastK   string // the previous k-nearest op, verbatim (re-issued now and then: same limit slice, same answer)
	lastLim string // the limit token of the previous limited k-nearest op
}

func (h *histGen) pt() orb.Point {
	r := h.c.Rng
	if len(h.pts) > 0 && r.Intn(5) != 0 {
		return h.pts[r.Intn(len(h.pts))]
	}
	return orb.Point{float64(r.Intn(41)-20) / 2, float64(r.Intn(41)-20) / 2}
}

func fpt(p orb.Point) string { return fb(p[0]) + " " + fb(p[1]) }

// op is the basic vocabulary (shared with C19, whose runner understands exactly these ops).
func (h *histGen) op() string {
	r := h.c.Rng
	x := r.Intn(100)
	switch {
	case x < 35 || len(h.live) == 0 && x < 60:
		h.nextID++
		p := h.pt()
		h.live = append(h.live, qpt{h.nextID, p})
		return fmt.Sprintf("a %d %s", h.nextID, fpt(p))
	case x < 45: // remove by identity (sometimes of something absent)
		if len(h.live) > 0 && r.Intn(6) != 0 {
			i := r.Intn(len(h.live))
			v := h.live[i]
			h.live = append(h.live[:i], h.live[i+1:]...)
			return fmt.Sprintf("ri %d %s", v.id, fpt(v.p))
		}
		return fmt.Sprintf("ri %d %s", 9999, fpt(h.pt()))
	case x < 55: // remove by point
		return "rp " + fpt(h.pt())
	case x < 65:
		return "f " + fpt(h.pt())
	case x < 72:
		m := 2 + r.Intn(2)
		return fmt.Sprintf("m %s %d %d", fpt(h.pt()), m, r.Intn(m))
	case x < 88:
		m := 1
		if r.Intn(3) == 0 {
			m = 2 + r.Intn(2)
		}
		md := "-"
		if r.Intn(3) == 0 {
			md = fb(float64(r.Intn(12)) / 2)
		}
		k := r.Intn(6)
		if r.Intn(12) == 0 { // large k: more than the tree holds, heaps beyond any small-size fast path
			k = []int{16, 63, 64, 65, 100, 300, 127, 128, 129, 255, 256, 257, 1000}[r.Intn(13)]
		}
		return fmt.Sprintf("k %s %d %d %d %s", fpt(h.pt()), k, m, r.Intn(m), md)
	default:
		a, b := h.pt(), h.pt()
		if a[0] > b[0] {
			a[0], b[0] = b[0], a[0]
		}
		if a[1] > b[1] {
			a[1], b[1] = b[1], a[1]
		}
		m := 1
		if r.Intn(3) == 0 {
			m = 2
		}
		return fmt.Sprintf("b %s %s %d %d", fpt(a), fpt(b), m, r.Intn(m))
	}
}

// bufSpec draws a dirty-buffer shape: empty with no capacity, too small, exactly fitting, roomy,
// and a non-zero length (the library must reslice, not append after stale entries).
func (h *histGen) bufSpec() string {
	r := h.c.Rng
	switch r.Intn(5) {
	case 0:
		return "0 0"
	case 1:
		return "0 1"
	case 2:
		return fmt.Sprintf("0 %d", 2+r.Intn(4))
	case 3:
		return fmt.Sprintf("%d %d", 1+r.Intn(3), 4+r.Intn(60))
	default:
		return "3 3"
	}
}

// opX is C11's full vocabulary: the basic ops plus the wrappers' degenerate arguments, repeated
// pointers, Remove with a many-pointer eq, Add(nil), dirty buffers and inverted boxes.
func (h *histGen) opX() string {
	r := h.c.Rng
	if h.ever == nil {
		h.ever = map[int]string{}
	}
	x := r.Intn(100)
	switch {
	case x < 7 && len(h.everIDs) > 0: // the same pointer again: still stored (twice in the multiset) or removed earlier
		id := h.everIDs[r.Intn(len(h.everIDs))]
		return fmt.Sprintf("a %d %s", id, h.ever[id])
	case x < 16: // Remove with an eq that accepts a whole residue class (m = 1: every pointer), from any point
		m := 1 + r.Intn(3)
		return fmt.Sprintf("rm %s %d %d", fpt(h.pt()), m, r.Intn(m))
	case x < 18:
		return "an"
	case x < 21 && h.lastK != "": // the previous k-nearest call once more: same arguments, same limits slice
		return h.lastK
	case x < 24 && len(h.everIDs) > 0: // Remove(the pointer object itself, nil): stored, stored twice, or removed earlier
		id := h.everIDs[r.Intn(len(h.everIDs))]
		return fmt.Sprintf("rs %d %s", id, h.ever[id])
	}
	o := h.op()
	f := strings.Fields(o)
	switch f[0] {
	case "a":
		id := pi(f[1])
		if _, ok := h.ever[id]; !ok {
			h.ever[id] = f[2] + " " + f[3]
			h.everIDs = append(h.everIDs, id)
		}
	case "k":
		// f: k x y k m r md
		if r.Intn(8) == 0 {
			f[3] = []string{"-1", "-1", "-7", "-9223372036854775808"}[r.Intn(4)]
		}
		if r.Intn(4) == 0 { // other limits: negative (the code squares it), zero, -0, non-dyadic
			switch r.Intn(6) {
			case 0, 1:
				f[6] = fb(-float64(1+r.Intn(11)) / 2)
			case 2:
				f[6] = fb(0)
			case 3:
				f[6] = fb(math.Copysign(0, -1))
			case 4:
				f[6] = fb(r.Float64() * 9)
			default:
				f[6] = fb(-r.Float64() * 9)
			}
		}
		// runs of calls with the same limit: the caller's limits slice is then not stored to in between
		if f[6] != "-" {
			if h.lastLim != "" && r.Intn(3) == 0 {
				f[6] = h.lastLim
			}
			h.lastLim = f[6]
		}
		if r.Intn(2) == 0 {
			f[0] = "kB"
			f = append(f, h.bufSpec())
		}
		o = strings.Join(f, " ")
		h.lastK = o
	case "b":
		// f: b x0 y0 x1 y1 m r
		if r.Intn(6) == 0 { // inverted in one or both axes (an empty box)
			if r.Intn(2) == 0 {
				f[1], f[3] = f[3], f[1]
			}
			if r.Intn(2) == 0 {
				f[2], f[4] = f[4], f[2]
			}
		}
		if r.Intn(2) == 0 {
			f[0] = "bB"
			f = append(f, h.bufSpec())
		}
		o = strings.Join(f, " ")
	}
	return o
}

// c11Bound is a tree bound together with a point-alphabet builder for it.
type c11Bound struct {
	lo, hi orb.Point
	kind   string
}

func (b c11Bound) tok() string { return fpt(b.lo) + " " + fpt(b.hi) }

// coord draws a coordinate related to [lo,hi]: the ends, the midlines of the first three levels
// (computed with the library's own (l+r)/2), a random interior value, or a value just outside.
func c11Coord(r interface {
	Intn(int) int
	Float64() float64
}, lo, hi float64) float64 {
	mid := (lo + hi) / 2
	switch r.Intn(12) {
	case 0:
		return lo
	case 1:
		return hi
	case 2, 3:
		return mid
	case 4:
		return (lo + mid) / 2
	case 5:
		return (mid + hi) / 2
	case 6:
		return ((lo+mid)/2 + mid) / 2
	case 7:
		return lo - (hi-lo)/8 - 0.25
	default:
		return lo + r.Float64()*(hi-lo)
	}
}

func genC11(c *Ctx) {
	r := c.Rng
	bound := "c024000000000000 c024000000000000 4024000000000000 4024000000000000" // [-10,10]^2

	// ---- exhaustive part -------------------------------------------------------------------
	// (1) all histories of length <= L1 over the 20-op alphabet
	pts := []orb.Point{{0, 0}, {10, 10}, {-10, 5}, {5, 5}, {2.5, -2.5}, {11, 0}}
	alpha := []string{}
	for i, p := range pts[:5] {
		alpha = append(alpha, fmt.Sprintf("a %d %s", 100+i, fpt(p)))
	}
	alpha = append(alpha, fmt.Sprintf("a 200 %s", fpt(pts[0]))) // duplicate point, new id
	alpha = append(alpha, fmt.Sprintf("a 300 %s", fpt(pts[5]))) // outside
	alpha = append(alpha,
		"rp "+fpt(pts[0]), "ri 103 "+fpt(pts[3]), "rp "+fpt(pts[4]),
		"f "+fpt(orb.Point{1, 1}), "m "+fpt(orb.Point{4, 4})+" 2 0",
		"k "+fpt(orb.Point{0, 0})+" 2 1 0 -", "k "+fpt(orb.Point{5, 5})+" 3 1 0 "+fb(8), "k "+fpt(orb.Point{0, 0})+" 0 1 0 -",
		"b "+fpt(orb.Point{0, 0})+" "+fpt(orb.Point{10, 10})+" 1 0",
		// Remove with an eq accepting every even id, from a point that is nobody's own
		"rm "+fpt(orb.Point{1, 1})+" 2 0",
		"an",
		"k "+fpt(orb.Point{0, 0})+" -1 1 0 -", "kB "+fpt(orb.Point{0, 0})+" 2 2 0 "+fb(-8)+" 1 1")
	// (2) all histories of length <= L2 over a reduced 9-op alphabet (three points: both root
	// midlines, a midline of a child cell, a general one; the same pointer may be added repeatedly)
	small := []string{
		fmt.Sprintf("a 100 %s", fpt(orb.Point{0, 0})),
		fmt.Sprintf("a 101 %s", fpt(orb.Point{5, 5})),
		fmt.Sprintf("a 102 %s", fpt(orb.Point{2.5, -2.5})),
		"rp " + fpt(orb.Point{0, 0}),
		"ri 101 " + fpt(orb.Point{5, 5}),
		"rm " + fpt(orb.Point{1, 1}) + " 1 0",
		"f " + fpt(orb.Point{1, 1}),
		"k " + fpt(orb.Point{0, 0}) + " 2 1 0 -",
		"b " + fpt(orb.Point{0, 0}) + " " + fpt(orb.Point{10, 10}) + " 1 0",
	}
	L1, L2 := 3, 5
	if c.Tier == "thorough" {
		L1, L2 = 4, 6
	}
	idx := 0
	var enumerateOp func(opName, name string, alpha []string, L int)
	enumerate := func(name string, alpha []string, L int) { enumerateOp("hist", name, alpha, L) }
	enumerateOp = func(opName, name string, alpha []string, L int) {
		truncated := false
		var rec func(prefix []string)
		rec = func(prefix []string) {
			if len(prefix) > 0 {
				idx++
				if c.Mine(idx) {
					c.Case(opName, fmt.Sprintf("%s %d %s", bound, len(prefix), strings.Join(prefix, " ")))
				}
			}
			if len(prefix) == L {
				return
			}
			if c.Exhausted() {
				truncated = true
				return
			}
			for _, a := range alpha {
				rec(append(prefix, a))
			}
		}
		rec(nil)
		if truncated { // never silent: the summary shows a `skip exhaustive-truncated …` tag
			c.Case("trunc", fmt.Sprintf("%s %d %d %d", name, L, idx, c.Shard))
		}
	}
	enumerate("full", alpha, L1)
	enumerate("reduced", small, L2)
	// (3) the same alphabets, one operation shorter, over the family of Pointer implementations:
	// uncomparable value structs, a wrapper holding an uncomparable value, nil-able kinds, mixed kinds;
	// the reduced alphabet gains `Remove(the stored pointer itself, nil)` and a second limited k-nearest
	// (same limit: the caller's limits slice is passed twice without being stored to in between)
	smallP := append(append([]string{}, small...), "rs 100 "+fpt(orb.Point{0, 0}), "k "+fpt(orb.Point{5, 5})+" 3 1 0 "+fb(8), "kB "+fpt(orb.Point{0, 0})+" 2 1 0 "+fb(8)+" 0 4")
	for _, pm := range []string{"P2", "P6", "P7", "M3"} {
		base := bound
		bound = pm + " " + base
		enumerateOp("histP", "full-"+pm, alpha, L1-1)
		enumerateOp("histP", "reduced-"+pm, smallP, L2-1)
		bound = base
	}

	// ---- bulk histories --------------------------------------------------------------------
	// trees of hundreds to thousands of pointers, k around every power of two and around / above the
	// tree size: heaps that outgrow any pre-allocation, result buffers of every relation to k
	if c.Tier == "thorough" {
		for i := 0; i < 20 && !c.Exhausted(); i++ {
			genC11Bulk(c, 64, 4100)
		}
	} else {
		genC11Bulk(c, 300, 1100) // every quick shard: at least one tree of more than 300 pointers
		genC11Bulk(c, 64, 300)
		genC11Bulk(c, 64, 1100)
		genC11Bulk(c, 500, []int{1100, 2100, 1100, 4100}[c.Shard%4])
	}

	// ---- piles: many pointers at ONE point, and points one ulp apart ------------------------
	// pointers with the same point form a chain one node per pointer; points one ulp apart (around 0:
	// denormals) need a thousand halvings of the cell to be separated: trees far deeper than any
	// grid or general-position history builds (64, 128, 256, 1024 levels and more)
	if c.Tier == "thorough" {
		for _, n := range []int{65, 66, 129, 130, 257, 513, 1025, 1100, 2049} {
			genC11Pile(c, n)
		}
		for i := 0; i < 40; i++ {
			genC11NearPile(c)
		}
	} else {
		genC11Pile(c, []int{65, 66, 67, 129}[c.Shard%4])
		genC11Pile(c, []int{257, 130, 1025, 258}[c.Shard%4])
		for i := 0; i < 6; i++ {
			genC11NearPile(c)
		}
	}

	// ---- random histories ------------------------------------------------------------------
	maxOps := 60
	if c.Tier == "thorough" {
		maxOps = 400
	}
	third := -1.0 / 3
	for k := 0; k < c.Budget && !c.Exhausted(); k++ {
		if r.Intn(400) == 0 {
			genC11Bulk(c, 64, map[bool]int{false: 1100, true: 4100}[c.Tier == "thorough"])
		}
		h := &histGen{c: c}
		// the tree bound
		b := c11Bound{orb.Point{-10, -10}, orb.Point{10, 10}, "std"}
		switch x := r.Intn(100); {
		case x < 52:
		case x < 62:
			b = c11Bound{orb.Point{-3, -7.5}, orb.Point{12, 9}, "std"}
		case x < 74: // non-dyadic: every (l+r)/2 below the root rounds
			b = c11Bound{orb.Point{0.1, third}, orb.Point{0.7, 2.9}, "odd"}
		case x < 80:
			lo := orb.Point{r.Float64()*10 - 12, r.Float64()*10 - 12}
			b = c11Bound{lo, orb.Point{lo[0] + r.Float64()*20, lo[1] + r.Float64()*20}, "odd"}
		case x < 85: // zero width
			b = c11Bound{orb.Point{2, -5}, orb.Point{2, 5}, "odd"}
		case x < 88: // zero height
			b = c11Bound{orb.Point{-5, 0.3}, orb.Point{5, 0.3}, "odd"}
		case x < 90: // a single point
			b = c11Bound{orb.Point{1, 1}, orb.Point{1, 1}, "odd"}
		case x < 92: // inverted: contains nothing
			b = c11Bound{orb.Point{10, 10}, orb.Point{-10, -10}, "odd"}
		case x < 96: // coordinates near 2^53: float distances round, the judge is exact
			b = c11Bound{orb.Point{math.Ldexp(1, 52), -math.Ldexp(1, 30)}, orb.Point{3 * math.Ldexp(1, 52), math.Ldexp(1, 30)}, "big"}
		default: // squared distances overflow float64 (outside the exact model: `skip dist-overflow`)
			b = c11Bound{orb.Point{-1e300, -1e300}, orb.Point{1e300, 1e300}, "huge"}
		}
		na := 2 + r.Intn(10)
		switch b.kind {
		case "std":
			for i := 0; i < na; i++ {
				switch r.Intn(4) {
				case 0: // on midlines of the root and deeper cells, and on the bound
					h.pts = append(h.pts, orb.Point{[]float64{0, 5, -5, 2.5, 10, -10, 7.5}[r.Intn(7)], []float64{0, 5, -5, 2.5, 10, -10, -7.5}[r.Intn(7)]})
				default:
					h.pts = append(h.pts, orb.Point{float64(r.Intn(41)-20) / 2, float64(r.Intn(41)-20) / 2})
				}
			}
			if r.Intn(4) == 0 { // general-position floats
				for i := range h.pts {
					h.pts[i] = orb.Point{r.Float64()*24 - 12, r.Float64()*24 - 12}
				}
			}
		case "odd":
			for i := 0; i < na+2; i++ {
				h.pts = append(h.pts, orb.Point{c11Coord(r, b.lo[0], b.hi[0]), c11Coord(r, b.lo[1], b.hi[1])})
			}
		case "big":
			for i := 0; i < na+2; i++ {
				h.pts = append(h.pts, orb.Point{
					math.Ldexp(1, 53) + float64(2*(r.Intn(9)-4)) + []float64{0, 0, math.Ldexp(1, 51), -math.Ldexp(1, 52)}[r.Intn(4)],
					[]float64{0, 0, 1, 3, math.Ldexp(1, 27), -math.Ldexp(1, 27), math.Ldexp(1, 27) + 1}[r.Intn(7)]})
			}
			h.pts = append(h.pts, orb.Point{-3, 0}, orb.Point{math.Ldexp(1, 53), 1})
		case "huge":
			for i := 0; i < na+2; i++ {
				h.pts = append(h.pts, orb.Point{
					[]float64{1e200, -1e200, 1e160, 3, -2.5, 1e153, -1e154, 0}[r.Intn(8)],
					[]float64{0, 0, 1e200, -1e160, 4, 1e154}[r.Intn(6)]})
			}
		}
		n := 1 + r.Intn(maxOps)
		ops := make([]string, n)
		for i := range ops {
			ops[i] = h.opX()
		}
		// rare: the inputs of the recorded findings (a NaN point offered to Add; a k so large that
		// make(maxHeap, 0, k+1) cannot be allocated)
		switch r.Intn(600) {
		case 0:
			h.nextID++
			p := h.pt()
			p[r.Intn(2)] = math.NaN()
			ops[r.Intn(n)] = fmt.Sprintf("a %d %s", 5000+h.nextID, fpt(p))
		case 1:
			ops[r.Intn(n)] = fmt.Sprintf("k %s %s 1 0 -", fpt(h.pt()), []string{"1125899906842624", "9223372036854775807"}[r.Intn(2)])
		}
		if pm := c11PtrModeTok(r); pm != "" {
			c.Case("histP", fmt.Sprintf("%s %s %d %s", pm, b.tok(), n, strings.Join(ops, " ")))
		} else {
			c.Case("hist", fmt.Sprintf("%s %d %s", b.tok(), n, strings.Join(ops, " ")))
		}
	}
}

// c11EmitHist emits a history over a drawn pointer mode.
func c11EmitHist(c *Ctx, lo, hi orb.Point, ops []string) {
	if pm := c11PtrModeTok(c.Rng); pm != "" {
		c.Case("histP", fmt.Sprintf("%s %s %s %d %s", pm, fpt(lo), fpt(hi), len(ops), strings.Join(ops, " ")))
	} else {
		c.Case("hist", fmt.Sprintf("%s %s %d %s", fpt(lo), fpt(hi), len(ops), strings.Join(ops, " ")))
	}
}

// genC11Pile: N pointers (distinct objects) with the SAME point — on a midline, in general position,
// on the tree bound, the single-point bound —, a few other points and removals in between, then the
// whole-bound search, k-nearest with k = N-1, N, N+1 (1 in 3 with a buffer), Find, and removals
// (all N up to 300 pointers, else 300) with bound searches in between; the dump closes the history
// (clause `contents-multiset`).
func genC11Pile(c *Ctx, N int) {
	r := c.Rng
	lo, hi := orb.Point{-10, -10}, orb.Point{10, 10}
	var p orb.Point
	switch r.Intn(6) {
	case 0:
		p = orb.Point{0, 0}
	case 1:
		p = orb.Point{10, 10}
	case 2:
		p = orb.Point{-10, 2.5}
	case 3:
		lo, hi = orb.Point{1, 1}, orb.Point{1, 1}
		p = orb.Point{1, 1}
	case 4:
		lo, hi = orb.Point{0.1, -1.0 / 3}, orb.Point{0.7, 2.9}
		p = orb.Point{0.1 + r.Float64()*0.6, r.Float64()*2.9}
	default:
		p = orb.Point{r.Float64()*20 - 10, r.Float64()*20 - 10}
	}
	other := func() orb.Point {
		return orb.Point{lo[0] + float64(r.Intn(9))/8*(hi[0]-lo[0]), lo[1] + float64(r.Intn(9))/8*(hi[1]-lo[1])}
	}
	var ops []string
	id := 0
	var pile []int
	for len(pile) < N {
		id++
		switch x := r.Intn(40); {
		case x == 0:
			ops = append(ops, fmt.Sprintf("a %d %s", id, fpt(other())))
		case x == 1 && len(pile) > 0:
			j := r.Intn(len(pile))
			ops = append(ops, fmt.Sprintf("ri %d %s", pile[j], fpt(p)))
			pile = append(pile[:j], pile[j+1:]...)
		default:
			ops = append(ops, fmt.Sprintf("a %d %s", id, fpt(p)))
			pile = append(pile, id)
		}
	}
	whole := fmt.Sprintf("b %s %s 1 0", fpt(lo), fpt(hi))
	ops = append(ops, whole, "f "+fpt(p))
	for _, k := range []int{N - 1, N, N + 1, N + 40} {
		o := fmt.Sprintf("k %s %d 1 0 -", fpt([]orb.Point{p, other()}[r.Intn(2)]), k)
		if r.Intn(3) == 0 {
			o = "kB" + o[1:] + fmt.Sprintf(" 0 %d", k)
		}
		ops = append(ops, o)
	}
	ops = append(ops, fmt.Sprintf("k %s %d 2 %d %s", fpt(p), N, r.Intn(2), fb(40)))
	nrem := N
	if nrem > 300 {
		nrem = 300
	}
	for i := 0; i < nrem; i++ {
		switch r.Intn(3) {
		case 0:
			j := r.Intn(len(pile))
			ops = append(ops, fmt.Sprintf("ri %d %s", pile[j], fpt(p)))
		case 1:
			j := r.Intn(len(pile))
			ops = append(ops, fmt.Sprintf("rs %d %s", pile[j], fpt(p)))
		default:
			ops = append(ops, "rp "+fpt(p))
		}
		if r.Intn(60) == 0 {
			ops = append(ops, whole)
		}
	}
	ops = append(ops, whole, fmt.Sprintf("k %s %d 1 0 -", fpt(p), N))
	c11EmitHist(c, lo, hi, ops)
}

// genC11NearPile: 2..40 points one ulp apart (in x, in y, or both) around a base of small or
// ordinary magnitude: the cells that separate them are 2^-60 .. 2^-1070 of the bound.
func genC11NearPile(c *Ctx) {
	r := c.Rng
	lo, hi := orb.Point{-10, -10}, orb.Point{10, 10}
	if r.Intn(4) == 0 {
		lo, hi = orb.Point{-3, -7.5}, orb.Point{12, 9}
	}
	bases := []float64{0, 1e-30, -1e-200, 5e-324, -2.5e-310, 1, 2.5, -7.3, 1e-17, math.Ldexp(1, -64), math.Ldexp(1, -66), -math.Ldexp(1, -130)}
	bx, by := bases[r.Intn(len(bases))], bases[r.Intn(len(bases))]
	mode := r.Intn(3)
	M := 2 + r.Intn(39)
	pts := make([]orb.Point, M)
	x, y := bx, by
	for i := range pts {
		pts[i] = orb.Point{x, y}
		if mode != 1 {
			x = math.Nextafter(x, 20)
		}
		if mode != 0 {
			y = math.Nextafter(y, 20)
		}
	}
	var ops []string
	var live []int
	for i, j := range r.Perm(M) {
		ops = append(ops, fmt.Sprintf("a %d %s", i+1, fpt(pts[j])))
		live = append(live, j)
		if r.Intn(8) == 0 { // the same point once more
			ops = append(ops, fmt.Sprintf("a %d %s", 1000+i, fpt(pts[j])))
		}
	}
	whole := fmt.Sprintf("b %s %s 1 0", fpt(lo), fpt(hi))
	ops = append(ops, whole,
		fmt.Sprintf("b %s %s 1 0", fpt(pts[0]), fpt(pts[M-1])),
		fmt.Sprintf("b %s %s 1 0", fpt(pts[M/2]), fpt(pts[M/2])),
		fmt.Sprintf("k %s %d 1 0 -", fpt(pts[r.Intn(M)]), M+3),
		fmt.Sprintf("k %s %d 1 0 -", fpt(orb.Point{1, -2}), M),
		"f "+fpt(pts[r.Intn(M)]))
	for i := 0; i < M; i++ {
		j := live[r.Intn(len(live))]
		if r.Intn(2) == 0 {
			ops = append(ops, "rp "+fpt(pts[j]))
		} else {
			ops = append(ops, "f "+fpt(pts[j]))
		}
	}
	ops = append(ops, whole)
	c11EmitHist(c, lo, hi, ops)
}

// c11PtrModeTok draws the pointer kinds of a history: "" = op `hist` (every pointer a *qpt), else the
// first token of op `histP`.
func c11PtrModeTok(r interface{ Intn(int) int }) string {
	switch x := r.Intn(100); {
	case x < 45:
		return ""
	case x < 80:
		return fmt.Sprintf("P%d", r.Intn(c11PtrKinds))
	default:
		return fmt.Sprintf("M%d", r.Intn(c11PtrKinds))
	}
}

var c11BulkSizes = []int{64, 65, 66, 100, 127, 128, 129, 130, 200, 255, 256, 257, 258, 300, 400, 511, 512, 513, 514, 700,
	1000, 1023, 1024, 1025, 1026, 1500, 2047, 2048, 2049, 2050, 3000, 4095, 4096, 4097, 4098}

// c11BulkKs: k around every power of two from 16 to 8192 and around / above the tree size n
func c11BulkKs(n int) []int {
	ks := []int{n - 1, n, n + 1, n + 7, 2*n + 3}
	for j := 4; j <= 13; j++ {
		for d := -1; d <= 2; d++ {
			if k := 1<<uint(j) + d; k <= 2*n+8 {
				ks = append(ks, k)
			}
		}
	}
	return ks
}

// genC11Bulk emits one bulk history: a tree grown to N pointers (minN <= N <= maxN, N around a power of
// two or a round number) on a 1/8 grid (1 in 5: general-position floats), queried with large k at up
// to four intermediate sizes and at N, then a few removals and queries again.
func genC11Bulk(c *Ctx, minN, maxN int) {
	r := c.Rng
	var cand []int
	for _, s := range c11BulkSizes {
		if s >= minN && s <= maxN {
			cand = append(cand, s)
		}
	}
	N := cand[r.Intn(len(cand))]
	if r.Intn(3) == 0 && N+3 <= maxN {
		N += r.Intn(4)
	}
	h := &histGen{c: c}
	lo, hi := orb.Point{-10, -10}, orb.Point{10, 10}
	if r.Intn(4) == 0 {
		lo, hi = orb.Point{-3, -7.5}, orb.Point{12, 9}
	}
	general := r.Intn(5) == 0
	pt := func() orb.Point {
		if general {
			return orb.Point{lo[0] + r.Float64()*(hi[0]-lo[0]), lo[1] + r.Float64()*(hi[1]-lo[1])}
		}
		return orb.Point{lo[0] + float64(r.Intn(int((hi[0]-lo[0])*8)+1))/8, lo[1] + float64(r.Intn(int((hi[1]-lo[1])*8)+1))/8}
	}
	var ops []string
	stored := 0
	type sp struct {
		id int
		p  orb.Point
	}
	var live []sp
	add := func() {
		h.nextID++
		p := pt()
		live = append(live, sp{h.nextID, p})
		ops = append(ops, fmt.Sprintf("a %d %s", h.nextID, fpt(p)))
		stored++
	}
	lastLim := ""
	query := func(n int) {
		ks := c11BulkKs(n)
		k := ks[r.Intn(len(ks))]
		if r.Intn(7) == 0 {
			k = []int{1, 5, 16, 63}[r.Intn(4)]
		}
		if k < 1 {
			k = 1
		}
		m := 1
		if r.Intn(5) < 2 {
			m = 2 + r.Intn(2)
		}
		md := "-"
		switch x := r.Intn(10); {
		case x < 6:
		case x == 6:
			md = fb(40) // everything
		case x == 7:
			md = fb(float64(3+r.Intn(24)) / 2)
		case x == 8:
			md = fb(-float64(6+r.Intn(20)) / 2)
		default:
			if lastLim != "" {
				md = lastLim
			} else {
				md = fb(9.5)
			}
		}
		if md != "-" {
			lastLim = md
		}
		o := fmt.Sprintf("k %s %d %d %d %s", fpt(pt()), k, m, r.Intn(m), md)
		switch r.Intn(8) {
		case 0:
			o = "kB" + o[1:] + fmt.Sprintf(" 0 %d", k)
		case 1:
			o = "kB" + o[1:] + fmt.Sprintf(" 0 %d", k+1)
		case 2:
			o = "kB" + o[1:] + fmt.Sprintf(" 2 %d", n+5)
		case 3:
			o = "kB" + o[1:] + []string{" 0 63", " 0 64", " 0 65", " 5 300", " 0 0"}[r.Intn(5)]
		}
		ops = append(ops, o)
	}
	// intermediate sizes at which the growing tree is queried
	var cps []int
	for _, s := range c11BulkSizes {
		if s < N && r.Intn(4) == 0 && len(cps) < 4 {
			cps = append(cps, s)
		}
	}
	cps = append(cps, N)
	for _, cp := range cps {
		for stored < cp {
			add()
		}
		for i := 1 + r.Intn(3); i > 0; i-- {
			query(cp)
		}
	}
	for i := 2 + r.Intn(4); i > 0; i-- {
		query(N)
	}
	ops = append(ops, fmt.Sprintf("b %s %s 1 0", fpt(lo), fpt(hi)), "f "+fpt(pt()))
	for i := 3 + r.Intn(5); i > 0 && len(live) > 0; i-- {
		j := r.Intn(len(live))
		v := live[j]
		switch r.Intn(4) {
		case 0:
			ops = append(ops, fmt.Sprintf("ri %d %s", v.id, fpt(v.p)))
		case 1:
			ops = append(ops, "rp "+fpt(v.p))
		case 2:
			ops = append(ops, fmt.Sprintf("rs %d %s", v.id, fpt(v.p)))
		default:
			ops = append(ops, fmt.Sprintf("rm %s 2 %d", fpt(pt()), r.Intn(2)))
		}
	}
	for i := 2 + r.Intn(2); i > 0; i-- {
		query(N)
	}
	if pm := c11PtrModeTok(r); pm != "" {
		c.Case("histP", fmt.Sprintf("%s %s %s %d %s", pm, fpt(lo), fpt(hi), len(ops), strings.Join(ops, " ")))
	} else {
		c.Case("hist", fmt.Sprintf("%s %s %d %s", fpt(lo), fpt(hi), len(ops), strings.Join(ops, " ")))
	}
}
