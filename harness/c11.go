package main

import (
	"fmt"
	"math"
	"strconv"
	"strings"

	"github.com/paulmach/orb"
	"github.com/paulmach/orb/quadtree"
)

func init() { register(&Prop{ID: "C11", Run: runC11, Gen: genC11}) }

type qpt struct {
	id int
	p  orb.Point
}

func (q *qpt) Point() orb.Point { return q.p }

func qid(p orb.Pointer) string { return strconv.Itoa(p.(*qpt).id) }

func qids(ps []orb.Pointer) string {
	var sb strings.Builder
	sb.WriteString(strconv.Itoa(len(ps)))
	for _, p := range ps {
		sb.WriteString(" ")
		sb.WriteString(qid(p))
	}
	return sb.String()
}

func modFilter(m, r int) quadtree.FilterFunc {
	if m == 1 {
		return nil
	}
	return func(p orb.Pointer) bool { return p.(*qpt).id%m == r }
}

// c11Sentinel fills the caller-supplied result buffers ("dirty" buffers): it is never stored in a
// tree, so any answer that mentions its id leaked stale buffer content.
const c11SentinelID = 777777

// dirtyBuf returns a non-nil buffer of the given length and capacity whose whole capacity is
// filled with sentinel pointers.
func dirtyBuf(blen, bcap int) []orb.Pointer {
	if bcap < blen {
		bcap = blen
	}
	s := &qpt{c11SentinelID, orb.Point{0, 0}}
	buf := make([]orb.Pointer, bcap)
	for i := range buf {
		buf[i] = s
	}
	return buf[:blen]
}

func samePointBits(a, b orb.Point) bool {
	return math.Float64bits(a[0]) == math.Float64bits(b[0]) && math.Float64bits(a[1]) == math.Float64bits(b[1])
}

// runHistory executes a history on a fresh tree; one result per op, then the tree dump.
//
//	a id pt            Add; the same id always denotes the SAME pointer object (added twice = a
//	                   multiset with that pointer twice; re-added after removal = the same pointer again)
//	an                 Add(nil)
//	ri id pt           Remove(&{pt}, eq: same id)
//	rp pt              Remove(&{pt}, nil)
//	rm pt m r          Remove(&{pt}, eq: id%m==r)   (eq may accept many pointers at different distances)
//	f pt               Find
//	m pt m r           Matching(filter id%m==r)
//	k pt k m r md      m==1: the wrapper KNearest, else KNearestMatching; k may be negative; nil buffer
//	kB pt k m r md l c the same with a dirty non-nil buffer of length l and capacity c
//	b lo hi m r        m==1: the wrapper InBound, else InBoundMatching; nil buffer
//	bB lo hi m r l c   the same with a dirty non-nil buffer
//
// A panic of the library ends the history: the answers so far, then the token `panic`.
func runHistory(r *tokReader) string {
	bnd := orb.Bound{Min: r.pt(), Max: r.pt()}
	n := r.int()
	q := quadtree.New(bnd)
	res := make([]string, 0, n+1)
	ptrs := map[int]*qpt{}
	countsOf := func() map[int]int {
		m := map[int]int{}
		for _, p := range q.VerifContents() {
			m[p.(*qpt).id]++
		}
		return m
	}
	remove := func(p orb.Point, eq quadtree.FilterFunc) func() string {
		return func() string {
			before := countsOf()
			ok := q.Remove(&qpt{-1, p}, eq)
			if !ok {
				return "0"
			}
			after := countsOf()
			gone := []string{}
			for id, c := range before {
				for i := after[id]; i < c; i++ {
					gone = append(gone, strconv.Itoa(id))
				}
			}
			extra := 0
			for id, c := range after {
				if c > before[id] {
					extra++
				}
			}
			if len(gone) != 1 || extra != 0 {
				return "1 ?"
			}
			return "1 " + gone[0]
		}
	}
	for i := 0; i < n; i++ {
		// the arguments are read outside guard(): a malformed case is a harness bug, not a library panic
		var call func() string
		switch op := r.next(); op {
		case "a":
			id := r.int()
			p := r.pt()
			v := ptrs[id]
			if v == nil {
				v = &qpt{id, p}
				ptrs[id] = v
			} else if !samePointBits(v.p, p) {
				return "badcase id-reused-with-another-point"
			}
			call = func() string {
				if err := q.Add(v); err != nil {
					return "0"
				}
				return "1"
			}
		case "an":
			call = func() string {
				if err := q.Add(nil); err != nil {
					return "0"
				}
				return "1"
			}
		case "ri":
			id := r.int()
			call = remove(r.pt(), func(p orb.Pointer) bool { return p.(*qpt).id == id })
		case "rp":
			call = remove(r.pt(), nil)
		case "rm":
			p := r.pt()
			m, rr := r.int(), r.int()
			call = remove(p, func(p orb.Pointer) bool { return p.(*qpt).id%m == rr })
		case "f":
			p := r.pt()
			call = func() string {
				v := q.Find(p)
				if v == nil {
					return "-"
				}
				return qid(v)
			}
		case "m":
			p := r.pt()
			m, rr := r.int(), r.int()
			call = func() string {
				v := q.Matching(p, modFilter(m, rr))
				if v == nil {
					return "-"
				}
				return qid(v)
			}
		case "k", "kB":
			p := r.pt()
			k, m, rr := r.int(), r.int(), r.int()
			md := r.next()
			var buf []orb.Pointer
			if op == "kB" {
				bl, bc := r.int(), r.int()
				buf = dirtyBuf(bl, bc)
			}
			var lim []float64
			if md != "-" {
				lim = []float64{pf(md)}
			}
			call = func() string {
				if m == 1 {
					return qids(q.KNearest(buf, p, k, lim...))
				}
				return qids(q.KNearestMatching(buf, p, k, modFilter(m, rr), lim...))
			}
		case "b", "bB":
			b := orb.Bound{Min: r.pt(), Max: r.pt()}
			m, rr := r.int(), r.int()
			var buf []orb.Pointer
			if op == "bB" {
				bl, bc := r.int(), r.int()
				buf = dirtyBuf(bl, bc)
			}
			call = func() string {
				if m == 1 {
					return qids(q.InBound(buf, b))
				}
				return qids(q.InBoundMatching(buf, b, modFilter(m, rr)))
			}
		default:
			return "badcase op " + op
		}
		out := guard(call)
		res = append(res, out)
		if out == "panic" {
			return strings.Join(res, " ; ")
		}
	}
	res = append(res, "T "+q.VerifDump(qid))
	return strings.Join(res, " ; ")
}

func runC11(op string, in []string) string {
	return guard(func() string {
		switch op {
		case "hist":
			return runHistory(&tokReader{t: in})
		case "trunc": // marker emitted by the generator when an exhaustive enumeration was cut short
			return "-"
		}
		return "badop"
	})
}

// histGen builds random histories over a point alphabet.
type histGen struct {
	c      *Ctx
	pts    []orb.Point // alphabet
	nextID int
	live   []qpt
	// used by opX only (C11): every pointer ever created, id -> point tokens
	ever    map[int]string
	everIDs []int
}

func (h *histGen) pt() orb.Point {
	r := h.c.Rng
	if len(h.pts) > 0 && r.Intn(5) != 0 {
		return h.pts[r.Intn(len(h.pts))]
	}
	return orb.Point{float64(r.Intn(41)-20) / 2, float64(r.Intn(41)-20) / 2}
}

func fpt(p orb.Point) string { return fb(p[0]) + " " + fb(p[1]) }

// op is the basic vocabulary (shared with C19, whose runner understands exactly these ops).
func (h *histGen) op() string {
	r := h.c.Rng
	x := r.Intn(100)
	switch {
	case x < 35 || len(h.live) == 0 && x < 60:
		h.nextID++
		p := h.pt()
		h.live = append(h.live, qpt{h.nextID, p})
		return fmt.Sprintf("a %d %s", h.nextID, fpt(p))
	case x < 45: // remove by identity (sometimes of something absent)
		if len(h.live) > 0 && r.Intn(6) != 0 {
			i := r.Intn(len(h.live))
			v := h.live[i]
			h.live = append(h.live[:i], h.live[i+1:]...)
			return fmt.Sprintf("ri %d %s", v.id, fpt(v.p))
		}
		return fmt.Sprintf("ri %d %s", 9999, fpt(h.pt()))
	case x < 55: // remove by point
		return "rp " + fpt(h.pt())
	case x < 65:
		return "f " + fpt(h.pt())
	case x < 72:
		m := 2 + r.Intn(2)
		return fmt.Sprintf("m %s %d %d", fpt(h.pt()), m, r.Intn(m))
	case x < 88:
		m := 1
		if r.Intn(3) == 0 {
			m = 2 + r.Intn(2)
		}
		md := "-"
		if r.Intn(3) == 0 {
			md = fb(float64(r.Intn(12)) / 2)
		}
		k := r.Intn(6)
		if r.Intn(12) == 0 { // large k: more than the tree holds, heaps beyond any small-size fast path
			k = []int{16, 63, 64, 65, 100, 300}[r.Intn(6)]
		}
		return fmt.Sprintf("k %s %d %d %d %s", fpt(h.pt()), k, m, r.Intn(m), md)
	default:
		a, b := h.pt(), h.pt()
		if a[0] > b[0] {
			a[0], b[0] = b[0], a[0]
		}
		if a[1] > b[1] {
			a[1], b[1] = b[1], a[1]
		}
		m := 1
		if r.Intn(3) == 0 {
			m = 2
		}
		return fmt.Sprintf("b %s %s %d %d", fpt(a), fpt(b), m, r.Intn(m))
	}
}

// bufSpec draws a dirty-buffer shape: empty with no capacity, too small, exactly fitting, roomy,
// and a non-zero length (the library must reslice, not append after stale entries).
func (h *histGen) bufSpec() string {
	r := h.c.Rng
	switch r.Intn(5) {
	case 0:
		return "0 0"
	case 1:
		return "0 1"
	case 2:
		return fmt.Sprintf("0 %d", 2+r.Intn(4))
	case 3:
		return fmt.Sprintf("%d %d", 1+r.Intn(3), 4+r.Intn(60))
	default:
		return "3 3"
	}
}

// opX is C11's full vocabulary: the basic ops plus the wrappers' degenerate arguments, repeated
// pointers, Remove with a many-pointer eq, Add(nil), dirty buffers and inverted boxes.
func (h *histGen) opX() string {
	r := h.c.Rng
	if h.ever == nil {
		h.ever = map[int]string{}
	}
	x := r.Intn(100)
	switch {
	case x < 7 && len(h.everIDs) > 0: // the same pointer again: still stored (twice in the multiset) or removed earlier
		id := h.everIDs[r.Intn(len(h.everIDs))]
		return fmt.Sprintf("a %d %s", id, h.ever[id])
	case x < 16: // Remove with an eq that accepts a whole residue class (m = 1: every pointer), from any point
		m := 1 + r.Intn(3)
		return fmt.Sprintf("rm %s %d %d", fpt(h.pt()), m, r.Intn(m))
	case x < 18:
		return "an"
	}
	o := h.op()
	f := strings.Fields(o)
	switch f[0] {
	case "a":
		id := pi(f[1])
		if _, ok := h.ever[id]; !ok {
			h.ever[id] = f[2] + " " + f[3]
			h.everIDs = append(h.everIDs, id)
		}
	case "k":
		// f: k x y k m r md
		if r.Intn(8) == 0 {
			f[3] = []string{"-1", "-1", "-7", "-9223372036854775808"}[r.Intn(4)]
		}
		if r.Intn(4) == 0 { // other limits: negative (the code squares it), zero, -0, non-dyadic
			switch r.Intn(6) {
			case 0, 1:
				f[6] = fb(-float64(1+r.Intn(11)) / 2)
			case 2:
				f[6] = fb(0)
			case 3:
				f[6] = fb(math.Copysign(0, -1))
			case 4:
				f[6] = fb(r.Float64() * 9)
			default:
				f[6] = fb(-r.Float64() * 9)
			}
		}
		if r.Intn(2) == 0 {
			f[0] = "kB"
			f = append(f, h.bufSpec())
		}
		o = strings.Join(f, " ")
	case "b":
		// f: b x0 y0 x1 y1 m r
		if r.Intn(6) == 0 { // inverted in one or both axes (an empty box)
			if r.Intn(2) == 0 {
				f[1], f[3] = f[3], f[1]
			}
			if r.Intn(2) == 0 {
				f[2], f[4] = f[4], f[2]
			}
		}
		if r.Intn(2) == 0 {
			f[0] = "bB"
			f = append(f, h.bufSpec())
		}
		o = strings.Join(f, " ")
	}
	return o
}

// c11Bound is a tree bound together with a point-alphabet builder for it.
type c11Bound struct {
	lo, hi orb.Point
	kind   string
}

func (b c11Bound) tok() string { return fpt(b.lo) + " " + fpt(b.hi) }

// coord draws a coordinate related to [lo,hi]: the ends, the midlines of the first three levels
// (computed with the library's own (l+r)/2), a random interior value, or a value just outside.
func c11Coord(r interface{ Intn(int) int; Float64() float64 }, lo, hi float64) float64 {
	mid := (lo + hi) / 2
	switch r.Intn(12) {
	case 0:
		return lo
	case 1:
		return hi
	case 2, 3:
		return mid
	case 4:
		return (lo + mid) / 2
	case 5:
		return (mid + hi) / 2
	case 6:
		return ((lo+mid)/2 + mid) / 2
	case 7:
		return lo - (hi-lo)/8 - 0.25
	default:
		return lo + r.Float64()*(hi-lo)
	}
}

func genC11(c *Ctx) {
	r := c.Rng
	bound := "c024000000000000 c024000000000000 4024000000000000 4024000000000000" // [-10,10]^2

	// ---- exhaustive part -------------------------------------------------------------------
	// (1) all histories of length <= L1 over the 20-op alphabet
	pts := []orb.Point{{0, 0}, {10, 10}, {-10, 5}, {5, 5}, {2.5, -2.5}, {11, 0}}
	alpha := []string{}
	for i, p := range pts[:5] {
		alpha = append(alpha, fmt.Sprintf("a %d %s", 100+i, fpt(p)))
	}
	alpha = append(alpha, fmt.Sprintf("a 200 %s", fpt(pts[0]))) // duplicate point, new id
	alpha = append(alpha, fmt.Sprintf("a 300 %s", fpt(pts[5]))) // outside
	alpha = append(alpha,
		"rp "+fpt(pts[0]), "ri 103 "+fpt(pts[3]), "rp "+fpt(pts[4]),
		"f "+fpt(orb.Point{1, 1}), "m "+fpt(orb.Point{4, 4})+" 2 0",
		"k "+fpt(orb.Point{0, 0})+" 2 1 0 -", "k "+fpt(orb.Point{5, 5})+" 3 1 0 "+fb(8), "k "+fpt(orb.Point{0, 0})+" 0 1 0 -",
		"b "+fpt(orb.Point{0, 0})+" "+fpt(orb.Point{10, 10})+" 1 0",
		// Remove with an eq accepting every even id, from a point that is nobody's own
		"rm "+fpt(orb.Point{1, 1})+" 2 0",
		"an",
		"k "+fpt(orb.Point{0, 0})+" -1 1 0 -", "kB "+fpt(orb.Point{0, 0})+" 2 2 0 "+fb(-8)+" 1 1")
	// (2) all histories of length <= L2 over a reduced 9-op alphabet (three points: both root
	// midlines, a midline of a child cell, a general one; the same pointer may be added repeatedly)
	small := []string{
		fmt.Sprintf("a 100 %s", fpt(orb.Point{0, 0})),
		fmt.Sprintf("a 101 %s", fpt(orb.Point{5, 5})),
		fmt.Sprintf("a 102 %s", fpt(orb.Point{2.5, -2.5})),
		"rp " + fpt(orb.Point{0, 0}),
		"ri 101 " + fpt(orb.Point{5, 5}),
		"rm " + fpt(orb.Point{1, 1}) + " 1 0",
		"f " + fpt(orb.Point{1, 1}),
		"k " + fpt(orb.Point{0, 0}) + " 2 1 0 -",
		"b " + fpt(orb.Point{0, 0}) + " " + fpt(orb.Point{10, 10}) + " 1 0",
	}
	L1, L2 := 3, 5
	if c.Tier == "thorough" {
		L1, L2 = 4, 6
	}
	idx := 0
	enumerate := func(name string, alpha []string, L int) {
		truncated := false
		var rec func(prefix []string)
		rec = func(prefix []string) {
			if len(prefix) > 0 {
				idx++
				if c.Mine(idx) {
					c.Case("hist", fmt.Sprintf("%s %d %s", bound, len(prefix), strings.Join(prefix, " ")))
				}
			}
			if len(prefix) == L {
				return
			}
			if c.Exhausted() {
				truncated = true
				return
			}
			for _, a := range alpha {
				rec(append(prefix, a))
			}
		}
		rec(nil)
		if truncated { // never silent: the summary shows a `skip exhaustive-truncated …` tag
			c.Case("trunc", fmt.Sprintf("%s %d %d %d", name, L, idx, c.Shard))
		}
	}
	enumerate("full", alpha, L1)
	enumerate("reduced", small, L2)

	// ---- random histories ------------------------------------------------------------------
	maxOps := 60
	if c.Tier == "thorough" {
		maxOps = 400
	}
	third := -1.0 / 3
	for k := 0; k < c.Budget && !c.Exhausted(); k++ {
		h := &histGen{c: c}
		// the tree bound
		b := c11Bound{orb.Point{-10, -10}, orb.Point{10, 10}, "std"}
		switch x := r.Intn(100); {
		case x < 52:
		case x < 62:
			b = c11Bound{orb.Point{-3, -7.5}, orb.Point{12, 9}, "std"}
		case x < 74: // non-dyadic: every (l+r)/2 below the root rounds
			b = c11Bound{orb.Point{0.1, third}, orb.Point{0.7, 2.9}, "odd"}
		case x < 80:
			lo := orb.Point{r.Float64()*10 - 12, r.Float64()*10 - 12}
			b = c11Bound{lo, orb.Point{lo[0] + r.Float64()*20, lo[1] + r.Float64()*20}, "odd"}
		case x < 85: // zero width
			b = c11Bound{orb.Point{2, -5}, orb.Point{2, 5}, "odd"}
		case x < 88: // zero height
			b = c11Bound{orb.Point{-5, 0.3}, orb.Point{5, 0.3}, "odd"}
		case x < 90: // a single point
			b = c11Bound{orb.Point{1, 1}, orb.Point{1, 1}, "odd"}
		case x < 92: // inverted: contains nothing
			b = c11Bound{orb.Point{10, 10}, orb.Point{-10, -10}, "odd"}
		case x < 96: // coordinates near 2^53: float distances round, the judge is exact
			b = c11Bound{orb.Point{math.Ldexp(1, 52), -math.Ldexp(1, 30)}, orb.Point{3 * math.Ldexp(1, 52), math.Ldexp(1, 30)}, "big"}
		default: // squared distances overflow float64 (outside the exact model: `skip dist-overflow`)
			b = c11Bound{orb.Point{-1e300, -1e300}, orb.Point{1e300, 1e300}, "huge"}
		}
		na := 2 + r.Intn(10)
		switch b.kind {
		case "std":
			for i := 0; i < na; i++ {
				switch r.Intn(4) {
				case 0: // on midlines of the root and deeper cells, and on the bound
					h.pts = append(h.pts, orb.Point{[]float64{0, 5, -5, 2.5, 10, -10, 7.5}[r.Intn(7)], []float64{0, 5, -5, 2.5, 10, -10, -7.5}[r.Intn(7)]})
				default:
					h.pts = append(h.pts, orb.Point{float64(r.Intn(41)-20) / 2, float64(r.Intn(41)-20) / 2})
				}
			}
			if r.Intn(4) == 0 { // general-position floats
				for i := range h.pts {
					h.pts[i] = orb.Point{r.Float64()*24 - 12, r.Float64()*24 - 12}
				}
			}
		case "odd":
			for i := 0; i < na+2; i++ {
				h.pts = append(h.pts, orb.Point{c11Coord(r, b.lo[0], b.hi[0]), c11Coord(r, b.lo[1], b.hi[1])})
			}
		case "big":
			for i := 0; i < na+2; i++ {
				h.pts = append(h.pts, orb.Point{
					math.Ldexp(1, 53) + float64(2*(r.Intn(9)-4)) + []float64{0, 0, math.Ldexp(1, 51), -math.Ldexp(1, 52)}[r.Intn(4)],
					[]float64{0, 0, 1, 3, math.Ldexp(1, 27), -math.Ldexp(1, 27), math.Ldexp(1, 27) + 1}[r.Intn(7)]})
			}
			h.pts = append(h.pts, orb.Point{-3, 0}, orb.Point{math.Ldexp(1, 53), 1})
		case "huge":
			for i := 0; i < na+2; i++ {
				h.pts = append(h.pts, orb.Point{
					[]float64{1e200, -1e200, 1e160, 3, -2.5, 1e153, -1e154, 0}[r.Intn(8)],
					[]float64{0, 0, 1e200, -1e160, 4, 1e154}[r.Intn(6)]})
			}
		}
		n := 1 + r.Intn(maxOps)
		ops := make([]string, n)
		for i := range ops {
			ops[i] = h.opX()
		}
		// rare: the inputs of the recorded findings (a NaN point offered to Add; a k so large that
		// make(maxHeap, 0, k+1) cannot be allocated)
		switch r.Intn(600) {
		case 0:
			h.nextID++
			p := h.pt()
			p[r.Intn(2)] = math.NaN()
			ops[r.Intn(n)] = fmt.Sprintf("a %d %s", 5000+h.nextID, fpt(p))
		case 1:
			ops[r.Intn(n)] = fmt.Sprintf("k %s %s 1 0 -", fpt(h.pt()), []string{"1125899906842624", "9223372036854775807"}[r.Intn(2)])
		}
		c.Case("hist", fmt.Sprintf("%s %d %s", b.tok(), n, strings.Join(ops, " ")))
	}
}
