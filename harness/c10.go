package main

import (
	"math/rand"
	"strconv"
	"strings"

	"github.com/paulmach/orb"
	"github.com/paulmach/orb/planar"
)

func init() { register(&Prop{ID: "C10", Run: runC10, Gen: genC10}) }

// c10Variants mirrors Driver.C10.ringVariants.
func c10Variants(r orb.Ring, t orb.Point) []orb.Ring {
	closeR := func(b orb.Ring) orb.Ring {
		c := make(orb.Ring, len(b), len(b)+1)
		copy(c, b)
		if len(b) > 0 {
			c = append(c, b[0])
		}
		return c
	}
	n := len(r)
	var bases []orb.Ring
	if n == 0 {
		bases = append(bases, orb.Ring{})
	}
	for k := 0; k < n; k++ {
		b := make(orb.Ring, 0, n)
		b = append(b, r[k:]...)
		b = append(b, r[:k]...)
		bases = append(bases, b)
	}
	rev := make(orb.Ring, n)
	for i := range r {
		rev[n-1-i] = r[i]
	}
	bases = append(bases, rev)
	var out []orb.Ring
	for _, b := range bases {
		out = append(out, b, closeR(b))
	}
	tr := make(orb.Ring, n)
	for i := range r {
		tr[i] = orb.Point{r[i][0] + t[0], r[i][1] + t[1]}
	}
	return append(out, tr, closeR(tr))
}

func runC10(op string, in []string) string {
	return guard(func() string {
		r := &tokReader{t: in}
		switch op {
		case "ca":
			g := r.geom()
			before := gs(g)
			c, a := planar.CentroidArea(g)
			a2 := planar.Area(g)
			if gs(g) != before {
				return "mutated-argument"
			}
			return fb(c[0]) + " " + fb(c[1]) + " " + fb(a) + " " + fb(a2)
		case "ringvar":
			rg := orb.Ring(r.pts())
			t := r.pt()
			var toks []string
			for _, v := range c10Variants(rg, t) {
				c, a := planar.CentroidArea(v)
				toks = append(toks, fb(c[0]), fb(c[1]), fb(a))
			}
			return strings.Join(toks, " ")
		case "len":
			g := r.geom()
			return fb(planar.Length(g))
		case "dist":
			g := r.geom()
			p := r.pt()
			d, idx := planar.DistanceFromWithIndex(g, p)
			d2 := planar.DistanceFrom(g, p)
			return fb(d) + " " + strconv.Itoa(idx) + " " + fb(d2)
		case "scale":
			return runC10Scale(r)
		case "seg":
			a, b, p := r.pt(), r.pt(), r.pt()
			return fb(planar.DistanceFromSegmentSquared(a, b, p)) + " " + fb(planar.DistanceFromSegment(a, b, p)) + " " +
				fb(planar.Distance(a, p)) + " " + fb(planar.DistanceSquared(a, p))
		}
		return "badop"
	})
}

// c10Coord draws a coordinate: mode 0 small ints, 1 ints to 2^20, 2 moderate floats (far from overflow).
func c10Coord(r *rand.Rand, mode int) float64 {
	switch mode {
	case 0:
		return float64(r.Intn(17) - 8)
	case 1:
		switch r.Intn(3) {
		case 0:
			return float64(r.Intn(201) - 100)
		case 1:
			return float64(r.Intn(1<<21+1) - 1<<20)
		default:
			return float64(r.Intn(20001) - 10000)
		}
	default:
		switch r.Intn(4) {
		case 0:
			return (r.Float64()*2 - 1) * 180
		case 1:
			return (r.Float64()*2 - 1) * 1e-3
		case 2:
			return (r.Float64()*2 - 1) * 1e6
		default:
			return float64(r.Intn(2001)-1000) / 8
		}
	}
}

func c10Pt(r *rand.Rand, mode int) orb.Point { return orb.Point{c10Coord(r, mode), c10Coord(r, mode)} }

func c10Pts(r *rand.Rand, mode, max int) []orb.Point {
	n := size(r, max)
	ps := make([]orb.Point, n)
	for i := range ps {
		if i > 0 && r.Intn(7) == 0 {
			ps[i] = ps[r.Intn(i)]
		} else {
			ps[i] = c10Pt(r, mode)
		}
	}
	return ps
}

func c10Ring(r *rand.Rand, mode, max int) orb.Ring {
	ps := c10Pts(r, mode, max)
	if len(ps) >= 1 && r.Intn(5) != 0 {
		ps = append(ps, ps[0])
	}
	return orb.Ring(ps)
}

// c10Convex: a convex lattice polygon (a clipped box / octagon), random start vertex and direction.
func c10Convex(r *rand.Rand, mode int) orb.Ring {
	span := 16.0
	if mode == 1 {
		span = float64(int(1) << uint(4+r.Intn(15)))
	}
	x0, y0 := float64(r.Intn(int(span))-int(span)/2), float64(r.Intn(int(span))-int(span)/2)
	w, h := float64(2+r.Intn(int(span)/2)), float64(2+r.Intn(int(span)/2))
	c := float64(r.Intn(int(min64(w, h))/2 + 1)) // corner cut
	var ps orb.Ring
	if c == 0 {
		ps = orb.Ring{{x0, y0}, {x0 + w, y0}, {x0 + w, y0 + h}, {x0, y0 + h}}
	} else {
		ps = orb.Ring{{x0 + c, y0}, {x0 + w - c, y0}, {x0 + w, y0 + c}, {x0 + w, y0 + h - c}, {x0 + w - c, y0 + h}, {x0 + c, y0 + h}, {x0, y0 + h - c}, {x0, y0 + c}}
	}
	k := r.Intn(len(ps))
	ps = append(append(orb.Ring{}, ps[k:]...), ps[:k]...)
	if r.Intn(2) == 0 {
		for i, j := 0, len(ps)-1; i < j; i, j = i+1, j-1 {
			ps[i], ps[j] = ps[j], ps[i]
		}
	}
	if r.Intn(4) != 0 {
		ps = append(ps, ps[0])
	}
	return ps
}

func min64(a, b float64) float64 {
	if a < b {
		return a
	}
	return b
}

// c10Nested: a box outer ring with holes in distinct cells of a 3x3 subdivision (nested and mutually disjoint).
func c10Nested(r *rand.Rand) orb.Polygon {
	cell := float64(4 + 2*r.Intn(40))
	x0, y0 := float64(r.Intn(200)-100), float64(r.Intn(200)-100)
	outer := orb.Ring{{x0, y0}, {x0 + 3*cell, y0}, {x0 + 3*cell, y0 + 3*cell}, {x0, y0 + 3*cell}, {x0, y0}}
	if r.Intn(2) == 0 {
		outer.Reverse()
	}
	pg := orb.Polygon{outer}
	for _, k := range r.Perm(9)[:r.Intn(5)] {
		cx, cy := x0+float64(k%3)*cell, y0+float64(k/3)*cell
		a, b := 1+float64(r.Intn(int(cell)-2)), 1+float64(r.Intn(int(cell)-2))
		var h orb.Ring
		if r.Intn(2) == 0 {
			h = orb.Ring{{cx + 1, cy + 1}, {cx + a, cy + 1}, {cx + a, cy + b}, {cx + 1, cy + b}, {cx + 1, cy + 1}}
		} else {
			h = orb.Ring{{cx + 1, cy + 1}, {cx + cell - 1, cy + 1}, {cx + a, cy + b}, {cx + 1, cy + 1}}
		}
		if r.Intn(2) == 0 {
			h.Reverse()
		}
		pg = append(pg, h)
	}
	return pg
}

var pyth = [][2]float64{{3, 4}, {4, 3}, {5, 12}, {12, 5}, {8, 15}, {15, 8}, {7, 24}, {20, 21}, {1, 0}, {0, 1}, {6, 0}, {0, 9}}

// c10PythLine: a line whose segment lengths are all integers.
func c10PythLine(r *rand.Rand, n int) orb.LineString {
	p := orb.Point{float64(r.Intn(41) - 20), float64(r.Intn(41) - 20)}
	ls := orb.LineString{p}
	for i := 0; i < n; i++ {
		v := pyth[r.Intn(len(pyth))]
		k := float64(1 + r.Intn(5))
		sx, sy := float64(1-2*r.Intn(2)), float64(1-2*r.Intn(2))
		p = orb.Point{p[0] + sx*k*v[0], p[1] + sy*k*v[1]}
		ls = append(ls, p)
	}
	return ls
}

func c10Geom(r *rand.Rand, mode int, depth int) orb.Geometry {
	switch r.Intn(16) {
	case 0:
		return c10Pt(r, mode)
	case 1:
		return orb.MultiPoint(c10Pts(r, mode, 6))
	case 2:
		return orb.LineString(c10Pts(r, mode, 7))
	case 3:
		n := size(r, 3)
		m := make(orb.MultiLineString, n)
		for i := range m {
			m[i] = orb.LineString(c10Pts(r, mode, 5))
		}
		return m
	case 4, 5:
		return c10Ring(r, mode, 8)
	case 6:
		if mode != 2 {
			return c10Convex(r, mode)
		}
		return c10Ring(r, mode, 8)
	case 7, 8:
		n := size(r, 3)
		p := make(orb.Polygon, n)
		for i := range p {
			p[i] = c10Ring(r, mode, 6)
		}
		return p
	case 9:
		if mode != 2 {
			return c10Nested(r)
		}
		return orb.Polygon{c10Ring(r, mode, 6)}
	case 10:
		n := size(r, 3)
		m := make(orb.MultiPolygon, n)
		for i := range m {
			if mode != 2 && r.Intn(2) == 0 {
				m[i] = c10Nested(r)
			} else {
				k := size(r, 2)
				m[i] = make(orb.Polygon, k)
				for j := range m[i] {
					m[i][j] = c10Ring(r, mode, 5)
				}
			}
		}
		return m
	case 11:
		a, b := c10Pt(r, mode), c10Pt(r, mode)
		if a[0] > b[0] {
			a[0], b[0] = b[0], a[0]
		}
		if a[1] > b[1] {
			a[1], b[1] = b[1], a[1]
		}
		return orb.Bound{Min: a, Max: b}
	case 12:
		if mode != 2 {
			return c10PythLine(r, 1+r.Intn(5))
		}
		return orb.LineString(c10Pts(r, mode, 7))
	default:
		if depth >= 2 {
			return c10Ring(r, mode, 6)
		}
		n := size(r, 4)
		c := make(orb.Collection, n)
		top := r.Intn(4) // restrict the member kinds so that collections of every top dimension occur
		for i := range c {
			for {
				c[i] = c10Geom(r, mode, depth+1)
				d := c[i].Dimensions()
				if top == 3 || d <= top {
					break
				}
			}
		}
		return c
	}
}

// c10Flat: a ring of total area 0 — lattice points on one line (p + k·d), or a there-and-back walk — open or closed.
func c10Flat(r *rand.Rand, mode int) orb.Ring {
	p := c10Pt(r, 0)
	d := orb.Point{float64(r.Intn(7) - 3), float64(r.Intn(7) - 3)}
	if mode == 1 {
		p = orb.Point{float64(r.Intn(2001) - 1000), float64(r.Intn(2001) - 1000)}
		d = orb.Point{float64(r.Intn(2001) - 1000), float64(r.Intn(2001) - 1000)}
	}
	n := 1 + r.Intn(5)
	rg := make(orb.Ring, 0, n+1)
	for i := 0; i < n; i++ {
		k := float64(r.Intn(9) - 4)
		rg = append(rg, orb.Point{p[0] + k*d[0], p[1] + k*d[1]})
	}
	if r.Intn(2) == 0 {
		rg = append(rg, rg[0])
	}
	return rg
}

// c10Degenerate: polygons of total area 0 (the fall-back to the outer ring's centroid AS A LINE): a flat outer ring,
// holes that use the outer ring up (the outer ring itself, reversed or rotated, or a split of a box into two halves),
// flat holes next to them; and their multi-polygon / collection wrappings (weight 0: origin).
func c10Degenerate(r *rand.Rand, mode int) orb.Geometry {
	var pg orb.Polygon
	switch r.Intn(4) {
	case 0:
		pg = orb.Polygon{c10Flat(r, mode)}
	case 1:
		pg = orb.Polygon{c10Flat(r, mode), c10Flat(r, mode)}
	case 2: // hole = the outer ring again (rotated / reversed)
		o := c10Convex(r, mode)
		h := append(orb.Ring{}, o...)
		if len(h) > 1 && h[0] == h[len(h)-1] {
			h = h[:len(h)-1]
		}
		k := r.Intn(len(h))
		h = append(append(orb.Ring{}, h[k:]...), h[:k]...)
		if r.Intn(2) == 0 {
			h.Reverse()
		}
		pg = orb.Polygon{o, h}
		if r.Intn(3) == 0 {
			pg = append(pg, c10Flat(r, mode))
		}
	default: // a box and its two halves as holes
		x0, y0 := float64(r.Intn(41)-20), float64(r.Intn(41)-20)
		w, h := float64(2*(1+r.Intn(20))), float64(1+r.Intn(40))
		o := orb.Ring{{x0, y0}, {x0 + w, y0}, {x0 + w, y0 + h}, {x0, y0 + h}, {x0, y0}}
		h1 := orb.Ring{{x0, y0}, {x0 + w/2, y0}, {x0 + w/2, y0 + h}, {x0, y0 + h}, {x0, y0}}
		h2 := orb.Ring{{x0 + w/2, y0}, {x0 + w, y0}, {x0 + w, y0 + h}, {x0 + w/2, y0 + h}}
		if r.Intn(2) == 0 {
			h1.Reverse()
		}
		pg = orb.Polygon{o, h1, h2}
	}
	switch r.Intn(6) {
	case 0:
		return orb.MultiPolygon{pg}
	case 1:
		return orb.MultiPolygon{pg, orb.Polygon{c10Flat(r, mode)}}
	case 2:
		return orb.Collection{pg, orb.LineString(c10Pts(r, mode, 4))}
	case 3:
		return c10Flat(r, mode)
	}
	return pg
}

// c10Tied: a multi-line / multi-polygon / collection / multi-point in which members occur more than once, so that the
// nearest member is tied exactly (same vertices, same float operations): the index must name the FIRST of them.
func c10Tied(r *rand.Rand, mode int) orb.Geometry {
	n := 2 + r.Intn(3)
	pos := func(k int) []int { // member i of the result is a copy of base[pos[i]]
		out := make([]int, 0, 2*k)
		for i := 0; i < k; i++ {
			out = append(out, i)
		}
		for j := 0; j < 1+r.Intn(k); j++ {
			at := r.Intn(len(out) + 1)
			out = append(out[:at], append([]int{r.Intn(k)}, out[at:]...)...)
		}
		return out
	}
	switch r.Intn(5) {
	case 4: // a polygon whose rings recur with another start vertex: the tie is between RINGS, the segment index differs
		base := make([]orb.Ring, n)
		for i := range base {
			base[i] = c10Ring(r, mode, 5)
		}
		var m orb.Polygon
		for _, i := range pos(n) {
			b := base[i]
			if len(b) > 2 && b[0] == b[len(b)-1] && r.Intn(2) == 0 { // rotate a closed ring
				o := b[:len(b)-1]
				k := r.Intn(len(o))
				b = append(append(append(orb.Ring{}, o[k:]...), o[:k]...), o[k])
			}
			m = append(m, b)
		}
		return m
	case 0:
		base := make([]orb.LineString, n)
		for i := range base {
			base[i] = orb.LineString(c10Pts(r, mode, 4))
		}
		var m orb.MultiLineString
		for _, i := range pos(n) {
			m = append(m, base[i])
		}
		return m
	case 1:
		base := make([]orb.Polygon, n)
		for i := range base {
			base[i] = orb.Polygon{c10Ring(r, mode, 5)}
			if r.Intn(3) == 0 {
				base[i] = append(base[i], c10Ring(r, mode, 4))
			}
		}
		var m orb.MultiPolygon
		for _, i := range pos(n) {
			m = append(m, base[i])
		}
		return m
	case 2:
		base := make([]orb.Geometry, n)
		for i := range base {
			base[i] = c10Geom(r, mode, 1)
		}
		var m orb.Collection
		for _, i := range pos(n) {
			m = append(m, base[i])
		}
		return m
	default:
		base := c10Pts(r, mode, 4)
		if len(base) == 0 {
			base = []orb.Point{c10Pt(r, mode)}
		}
		var m orb.MultiPoint
		for _, i := range pos(len(base)) {
			m = append(m, base[i])
		}
		return m
	}
}

// c10FloatRing: a ring of general-position floats of ONE magnitude (so that most variants are well conditioned):
// half of them star-shaped around a centre (vertices by increasing angle: simple, of substantial area), half arbitrary.
func c10FloatRing(r *rand.Rand) (orb.Ring, orb.Point) {
	s := []float64{1e-3, 1, 180, 1e6}[r.Intn(4)]
	n := 3 + r.Intn(6)
	rg := make(orb.Ring, n)
	if r.Intn(2) == 0 {
		cx, cy := (r.Float64()*2-1)*s, (r.Float64()*2-1)*s
		// directions of increasing angle without trigonometry: walk round the unit square's boundary
		for i := range rg {
			u := (float64(i) + r.Float64()*0.9) / float64(n) * 4
			var dx, dy float64
			switch {
			case u < 1:
				dx, dy = 1, 2*u-1
			case u < 2:
				dx, dy = 3-2*u, 1
			case u < 3:
				dx, dy = -1, 5-2*u
			default:
				dx, dy = 2*u-7, -1
			}
			rad := (0.25 + 0.75*r.Float64()) * s
			rg[i] = orb.Point{cx + dx*rad, cy + dy*rad}
		}
		if r.Intn(2) == 0 {
			rg.Reverse()
		}
	} else {
		for i := range rg {
			rg[i] = orb.Point{(r.Float64()*2 - 1) * s, (r.Float64()*2 - 1) * s}
		}
	}
	k := []float64{1, 1, 16, 1.0 / 16}[r.Intn(4)]
	t := orb.Point{(r.Float64()*2 - 1) * s * k, (r.Float64()*2 - 1) * s * k}
	return rg, t
}

// c10Query: a query point aligned with the geometry (a vertex, a lattice point of a segment, near the bound).
func c10Query(r *rand.Rand, mode int, g orb.Geometry) orb.Point {
	var vs []orb.Point
	if g != nil {
		forEachVertex(g, func(p *orb.Point) { vs = append(vs, *p) })
		switch v := g.(type) {
		case orb.Point:
			vs = append(vs, v)
		case orb.Bound:
			vs = append(vs, v.Min, v.Max)
		}
	}
	q := c10Pt(r, mode)
	if len(vs) == 0 {
		return q
	}
	a := vs[r.Intn(len(vs))]
	i := r.Intn(len(vs))
	b := vs[i]
	if i+1 < len(vs) && r.Intn(3) != 0 {
		a, b = vs[i], vs[i+1] // mostly a real segment
	}
	switch r.Intn(8) {
	case 0:
		return a
	case 1: // a lattice point on the segment a-b
		dx, dy := b[0]-a[0], b[1]-a[1]
		if mode != 2 && (dx != 0 || dy != 0) {
			gcd := gcdI(absI(int64(dx)), absI(int64(dy)))
			k := float64(r.Int63n(gcd + 1))
			return orb.Point{a[0] + k*dx/float64(gcd), a[1] + k*dy/float64(gcd)}
		}
		return orb.Point{(a[0] + b[0]) / 2, (a[1] + b[1]) / 2}
	case 2: // beyond an end, on the line
		return orb.Point{2*b[0] - a[0], 2*b[1] - a[1]}
	case 3: // near a vertex
		return orb.Point{a[0] + float64(r.Intn(5)-2), a[1] + float64(r.Intn(5)-2)}
	case 4: // perpendicular offset from the midpoint-ish
		return orb.Point{a[0] - (b[1] - a[1]), a[1] + (b[0] - a[0])}
	}
	return q
}

func absI(a int64) int64 {
	if a < 0 {
		return -a
	}
	return a
}

func gcdI(a, b int64) int64 {
	for b != 0 {
		a, b = b, a%b
	}
	if a == 0 {
		return 1
	}
	return a
}

func clampPt(p orb.Point) orb.Point {
	for i := 0; i < 2; i++ {
		if p[i] > 1<<20 {
			p[i] = 1 << 20
		}
		if p[i] < -(1 << 20) {
			p[i] = -(1 << 20)
		}
	}
	return p
}

// c10DefectShaped reports whether CentroidArea(g) runs into the recorded centroid defect
// (a collection whose members all have dimension < 2 is only area-weighted: known finding).
// Such cases are generated at full rate only up to a per-shard cap, so that their (known) failures
// cannot crowd other failures out of the harness's bounded failure list.
func c10DefectShaped(g orb.Geometry) bool {
	if v, ok := g.(orb.Collection); ok {
		return len(v) > 0 && v.Dimensions() < 2
	}
	return false
}

func genC10(c *Ctx) {
	r := c.Rng
	defectCases := 0
	if c.Shard == 0 {
		c10ScaleFixed(c)
		for _, g := range orb.AllGeometries {
			c.Case("ca", gs(g))
			c.Case("len", gs(g))
			c.Case("dist", gs(g)+" "+fb(1)+" "+fb(2))
		}
		l1 := orb.LineString{{0, 0}, {2, 0}}
		l2 := orb.LineString{{0, 2}, {2, 2}}
		for _, g := range []orb.Geometry{
			orb.Collection{l1, l2}, // DESIGN §7 #20 (known finding)
			orb.Collection{orb.Point{1, 1}, orb.Point{3, 3}},
			orb.MultiLineString{l1, {{10, 10}, {10, 10}}}, // zero-length member: fixed in orb 495fe7f, must pass
			orb.Collection{orb.Polygon{{{0, 0}, {4, 0}, {4, 4}, {0, 4}, {0, 0}}}, l1, orb.Point{9, 9}},
			orb.Polygon{{{0, 0}, {2, 0}, {4, 0}, {0, 0}}},                                           // flat: centroid of the outer ring as a line, (2,0)
			orb.Polygon{{{0, 0}, {4, 0}, {4, 4}, {0, 4}, {0, 0}}, {{0, 0}, {0, 4}, {4, 4}, {4, 0}}}, // hole = outer ring: (2,2)
			orb.Polygon{{{1, 1}, {1, 1}}}, orb.Polygon{{}}, orb.Ring{{3, 4}, {5, 6}},
			orb.MultiLineString{{{1, 1}, {1, 1}}, {}, {{3, 5}}},             // no length: mean of first vertices (2,3)
			orb.MultiLineString{{}, {{2, -1}, {2, 1}}, {{-2, -1}, {-2, 1}}}, // tie: index 1
			nil, orb.Ring(nil), orb.Collection{}, orb.Collection{orb.Collection{}},
		} {
			c.Case("ca", gs(g))
			c.Case("len", gs(g))
			c.Case("dist", gs(g)+" "+fb(1)+" "+fb(1))
		}
	}
	for k := 0; k < c.Budget && !c.Exhausted(); k++ {
		mode := []int{0, 0, 1, 1, 2}[r.Intn(5)]
		// tiny / huge pools: with probability 1/5 the whole case (geometry, query point, translation) is multiplied by
		// 2^e, e in -70..-8, 8..70 (sometimes +-200) - exact, so the exact (rational) spec and the bit-for-bit Float twin
		// judge it as before; on the integer pools the coordinates stay on ONE dyadic lattice n·2^e, |n| <= 2^20, where
		// areas and squared distances are exact
		e := c10Pool(r)
		switch r.Intn(10) {
		case 8, 9: // scale invariance by powers of two, every kind, bit for bit
			c10ScaleCase(c, mode)
		case 0: // ring variants: rotations, reversal, closing, integer translation
			if r.Intn(4) == 0 { // general-position floats, float translation: judged within relative 1e-9
				rg, t := c10FloatRing(r)
				rg, t = orb.Ring(c10ScaleGeom(rg, e).(orb.Ring)), c10ScalePt(t, e)
				c.Case("ringvar", spts(rg)+" "+fb(t[0])+" "+fb(t[1]))
				continue
			}
			m := r.Intn(2)
			var rg orb.Ring
			if r.Intn(4) == 0 {
				rg = c10Convex(r, m)
			} else {
				rg = orb.Ring(c10Pts(r, m, 9))
			}
			for i := range rg { // keep |v| ≤ 2^19 so that the translate stays on the 2^20 lattice
				rg[i][0], rg[i][1] = float64(int64(rg[i][0])/2), float64(int64(rg[i][1])/2)
			}
			t := orb.Point{float64(r.Intn(1<<20+1) - 1<<19), float64(r.Intn(1<<20+1) - 1<<19)}
			if r.Intn(3) == 0 {
				t = orb.Point{float64(r.Intn(21) - 10), float64(r.Intn(21) - 10)}
			}
			rg, t = orb.Ring(c10ScaleGeom(rg, e).(orb.Ring)), c10ScalePt(t, e)
			c.Case("ringvar", spts(rg)+" "+fb(t[0])+" "+fb(t[1]))
		case 1, 2: // area / centroid through the generic entry points
			var g orb.Geometry
			if r.Intn(40) == 0 {
				g = genGeom(r, GenOpts{Mode: CoordSmallInt, MaxPts: 4, MaxDepth: 2, TopNil: true}, 0)
			} else if r.Intn(12) == 0 {
				g = c10Degenerate(r, mode%2)
			} else {
				g = c10Geom(r, mode, 0)
			}
			if c10DefectShaped(g) {
				if defectCases >= 60 {
					continue
				}
				defectCases++
			}
			c.Case("ca", gs(c10ScaleGeom(g, e)))
		case 3:
			g := c10Geom(r, mode, 0)
			c.Case("len", gs(c10ScaleGeom(g, e)))
		case 4, 5, 6:
			var g orb.Geometry
			if r.Intn(40) == 0 {
				g = genGeom(r, GenOpts{Mode: CoordSmallInt, MaxPts: 4, MaxDepth: 2, TopNil: true}, 0)
			} else if r.Intn(8) == 0 {
				g = c10Tied(r, mode)
			} else {
				g = c10Geom(r, mode, 0)
			}
			q := c10Query(r, mode, g)
			if mode != 2 {
				q = clampPt(q)
			}
			g, q = c10ScaleGeom(g, e), c10ScalePt(q, e)
			c.Case("dist", gs(g)+" "+fb(q[0])+" "+fb(q[1]))
		default:
			a, b := c10Pt(r, mode), c10Pt(r, mode)
			if r.Intn(8) == 0 {
				b = a
			}
			q := c10Query(r, mode, orb.LineString{a, b})
			if mode != 2 {
				q = clampPt(q)
			}
			a, b, q = c10ScalePt(a, e), c10ScalePt(b, e), c10ScalePt(q, e)
			c.Case("seg", fb(a[0])+" "+fb(a[1])+" "+fb(b[0])+" "+fb(b[1])+" "+fb(q[0])+" "+fb(q[1]))
		}
	}
}
