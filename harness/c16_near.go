package main

import (
	"fmt"
	"math"
	"math/rand"

	"github.com/paulmach/orb"
)

// C16 — the NEAR-MISS families (white-box round).
//
// Every older family of c16.go puts a vertex either exactly ON a box line (grid polygons, rectilinear
// rings, the snapped family, the arc stream) or a random general-position distance away from it: a
// comparison `coordinate == box line` in smartclip could be replaced by `|coordinate − box line| < ε`
// (mutant C16-wb1: clipRings' "may this piece end be joined" test) without any case noticing.  The
// families below put vertices NEXT TO the box lines: one, two, three ulps and 1e-15 … 1e-7 (relative to
// the box extent) inside and outside every side and corner, with such a vertex rotated to the start of the
// ring in half of the cases, for rings (closed and not explicitly closed), polygons with holes (near-miss
// vertices on the holes too) and multi-polygons, on integer, half-integer and general-position boxes and
// on boxes with a corner in the origin (one ulp from 0 is the smallest denormal).
//
// c16GenTouch: rings that TOUCH — a hole sharing exactly one point with its outer ring, two members
// sharing one point — with the common point on a box side / corner, next to it, strictly inside or
// outside the box (valid OGC polygons; the strict quantifier of the driver had them as `not-well-formed`).

// c16NearOffsets: distances from the box line, as fractions of the box extent (besides 1..3 ulps).  The
// values straddle 1e-9 (the tolerance of C16-wb1) and 1e-6 / 1e-12 (the driver's own margins).
var c16NearOffsets = []float64{1e-16, 1e-15, 1e-14, 1e-13, 1e-12, 1e-11, 1e-10, 5e-10, 2e-9, 1e-8, 1e-7}

// c16NearCoord: a coordinate next to the box line `v`, on the side `dir` (+1: larger, -1: smaller); never `v` itself
func c16NearCoord(r *rand.Rand, v, extent float64, dir int) float64 {
	x := v
	if k := r.Intn(16); k < 5 { // one, two, three ulps (one ulp more often)
		n := 1
		if k >= 3 {
			n = k - 1
		}
		for ; n > 0; n-- {
			x = math.Nextafter(x, math.Inf(dir))
		}
	} else {
		off := c16NearOffsets[r.Intn(len(c16NearOffsets))] * extent
		if r.Intn(2) == 0 {
			off *= 0.5 + r.Float64()
		}
		x = v + float64(dir)*off
	}
	if x == v {
		x = math.Nextafter(v, math.Inf(dir))
	}
	return x
}

// c16NearPoint moves p next to the nearest side (kind 0 vertical, 1 horizontal) or corner (kind 2) of b:
// each moved coordinate lands a near-miss distance inside or outside the box line; for a corner one of the
// two coordinates may sit exactly ON its line (the vertex is then on the extension of a side, or on a side).
func c16NearPoint(r *rand.Rand, b c16Box, p orb.Point, kind int) orb.Point {
	nx, dx := b.x0, 1 // dx: the direction pointing INTO the box
	if math.Abs(p[0]-b.x1) < math.Abs(p[0]-b.x0) {
		nx, dx = b.x1, -1
	}
	ny, dy := b.y0, 1
	if math.Abs(p[1]-b.y1) < math.Abs(p[1]-b.y0) {
		ny, dy = b.y1, -1
	}
	side := func(d int) int { // inside or outside
		if r.Intn(2) == 0 {
			return -d
		}
		return d
	}
	w, h := b.x1-b.x0, b.y1-b.y0
	switch kind {
	case 0:
		return orb.Point{c16NearCoord(r, nx, w, side(dx)), p[1]}
	case 1:
		return orb.Point{p[0], c16NearCoord(r, ny, h, side(dy))}
	}
	q := orb.Point{c16NearCoord(r, nx, w, side(dx)), c16NearCoord(r, ny, h, side(dy))}
	switch r.Intn(6) {
	case 0:
		q[0] = nx
	case 1:
		q[1] = ny
	}
	return q
}

// c16NearRing: a simple ring (unclosed, wound o) with 1..3 vertices moved next to the box lines; `first` is
// the index of one of them.  nil when no simple ring came out.
func c16NearRing(r *rand.Rand, b c16Box, mode, o int) (ps []orb.Point, first int) {
	for try := 0; try < 12; try++ {
		base := c16SimpleRing(r, b, mode)
		if base == nil {
			continue
		}
		ps = append([]orb.Point(nil), base...)
		if r.Intn(8) == 0 {
			// every coordinate ON a box line replaced, line by line, by one near-miss value: the edges that lay
			// ON a side (rectilinear rings, grid polygons) now run NEXT TO it
			repl := map[[2]float64]float64{}
			at := func(axis int, v, ext float64) float64 {
				k := [2]float64{float64(axis), v}
				if _, ok := repl[k]; !ok {
					repl[k] = c16NearCoord(r, v, ext, 1-2*r.Intn(2))
				}
				return repl[k]
			}
			hit := false
			for i, p := range ps {
				if p[0] == b.x0 || p[0] == b.x1 {
					ps[i][0], first, hit = at(0, p[0], b.x1-b.x0), i, true
				}
				if p[1] == b.y0 || p[1] == b.y1 {
					ps[i][1], first, hit = at(1, p[1], b.y1-b.y0), i, true
				}
			}
			if !hit {
				continue
			}
		} else {
			for n := 1 + r.Intn(3); n > 0; n-- {
				first = r.Intn(len(ps))
				ps[first] = c16NearPoint(r, b, ps[first], r.Intn(3))
			}
		}
		if !c16Simple(ps) {
			continue
		}
		n := len(ps)
		if (c16Area2(ps) > 0) != (o > 0) {
			ps, first = c16Reverse(ps), n-1-first
		}
		return ps, first
	}
	return nil, 0
}

// the rings a and b (unclosed vertex lists) have no point in common and neither lies inside the other
func c16RingsApart(a, b []orb.Point) bool {
	for i := range a {
		for j := range b {
			if c16SegsMeet(a[i], a[(i+1)%len(a)], b[j], b[(j+1)%len(b)]) {
				return false
			}
		}
	}
	return true
}

// hole `h` lies strictly inside `outer` and apart from the rings in `others`
func c16HoleOK(h, outer []orb.Point, others [][]orb.Point) bool {
	if !c16Simple(h) || !c16RingsApart(h, outer) || !c16Inside(outer, h[0]) {
		return false
	}
	for _, q := range others {
		if !c16RingsApart(h, q) || c16Inside(q, h[0]) || c16Inside(h, q[0]) {
			return false
		}
	}
	return true
}

// c16StartAt closes the ring, starting at vertex `first` in half of the cases (clipRings re-joins the two
// pieces that meet in the first vertex of a closed ring: the only piece ends that are not boundary points)
func c16StartAt(r *rand.Rand, ps []orb.Point, first int) orb.Ring {
	k := first
	if r.Intn(2) == 0 {
		k = r.Intn(len(ps))
	}
	return c16Close(c16Rotate(ps, k))
}

// c16Origin translates the box (and later everything generated for it) so that its lower-left corner is the origin
func c16Origin(b c16Box) c16Box { return c16Box{0, 0, b.x1 - b.x0, b.y1 - b.y0} }

func c16GenNear(c *Ctx, r *rand.Rand, mode, o int) {
	b := c16GenBox(r, mode)
	if r.Intn(6) == 0 {
		b = c16Origin(b)
	}
	qs := spts(c16Samples(r, b, 16))
	switch v := r.Intn(9); {
	case v == 8:
		// a ring that is NOT explicitly closed: one end P next to a box side (a near-miss distance inside or
		// outside), the other end Q beyond the opposite side, so that the closing edge Q -> P runs through the
		// box: `box.Contains(r[0]) || box.Contains(r[len(r)-1])` decides on P alone whether that edge exists
		w, h := b.x1-b.x0, b.y1-b.y0
		f := 0.1 + 0.8*r.Float64()
		g := -0.2 + 1.4*r.Float64()
		out := 0.2 + r.Float64()
		if mode != 2 {
			f, g, out = 0.5, []float64{0, 0.5, 1}[r.Intn(3)], 1
		}
		io := 1 - 2*r.Intn(2) // +1: inside
		var pp, qq orb.Point
		switch r.Intn(4) {
		case 0: // P at the left side
			pp, qq = orb.Point{c16NearCoord(r, b.x0, w, io), b.y0 + f*h}, orb.Point{b.x1 + out*w, b.y0 + g*h}
		case 1: // right
			pp, qq = orb.Point{c16NearCoord(r, b.x1, w, -io), b.y0 + f*h}, orb.Point{b.x0 - out*w, b.y0 + g*h}
		case 2: // bottom
			pp, qq = orb.Point{b.x0 + f*w, c16NearCoord(r, b.y0, h, io)}, orb.Point{b.x0 + g*w, b.y1 + out*h}
		default: // top
			pp, qq = orb.Point{b.x0 + f*w, c16NearCoord(r, b.y1, h, -io)}, orb.Point{b.x0 + g*w, b.y0 - out*h}
		}
		// the third vertex: off the line P Q by more than the box is wide
		dx, dy := qq[0]-pp[0], qq[1]-pp[1]
		sh := (1.2 + r.Float64()) * float64(1-2*r.Intn(2))
		if mode != 2 {
			sh = float64(1 - 2*r.Intn(2))
		}
		rr := orb.Point{(pp[0]+qq[0])/2 - sh*dy, (pp[1]+qq[1])/2 + sh*dx}
		ps := []orb.Point{pp, rr, qq}
		if (c16Area2(ps) > 0) != (o > 0) {
			ps = []orb.Point{qq, rr, pp}
		}
		if c16Area2(ps) == 0 {
			return
		}
		if r.Intn(4) == 0 {
			c.Case("geom", fmt.Sprintf("%d %s %s", o, b, gs(orb.Ring(ps))))
		} else {
			c.Case("ring", fmt.Sprintf("%d %s %s %s", o, b, spts(ps), qs))
		}
	case v < 5: // one ring
		ps, first := c16NearRing(r, b, mode, o)
		if ps == nil {
			return
		}
		ring := c16StartAt(r, ps, first)
		if r.Intn(5) == 0 {
			// not explicitly closed, the near-miss vertex first or last: `box.Contains(r[0]) || box.Contains(r[len(r)-1])`
			// decides on it whether the ring is closed implicitly
			ring = c16Close(c16Rotate(ps, (first+r.Intn(2))%len(ps)))
			ring = ring[:len(ring)-1]
		}
		switch r.Intn(8) {
		case 0:
			c.Case("poly", fmt.Sprintf("%d %s %s %s", o, b, gs(orb.Polygon{ring}), qs))
		case 1:
			c.Case("geom", fmt.Sprintf("%d %s %s", o, b, gs(ring)))
		case 2:
			c.Case("mpoly", fmt.Sprintf("%d %s %s %s", o, b, gs(orb.MultiPolygon{{ring}}), qs))
		default:
			c.Case("ring", fmt.Sprintf("%d %s %s %s", o, b, spts(ring), qs))
		}
	case v < 7: // polygon with 1..2 holes; near-miss vertices on the outer ring, on a hole, or on both
		var outer []orb.Point
		first := 0
		if r.Intn(3) == 0 {
			if outer = c16SimpleRing(r, b, mode); outer != nil {
				outer = c16Wind(outer, o)
			}
		} else {
			outer, first = c16NearRing(r, b, mode, o)
		}
		if outer == nil {
			return
		}
		pg := orb.Polygon{c16StartAt(r, outer, first)}
		var holes [][]orb.Point
		snap := 0
		if mode != 2 {
			snap = 1
		}
		for hN := 1 + r.Intn(2); hN > 0; hN-- {
			h := c16Hole(r, outer, holes, b, snap)
			if h == nil || !c16HoleOK(h, outer, holes) {
				continue
			}
			hfirst := r.Intn(len(h))
			if r.Intn(3) != 0 { // move a vertex of the hole next to a box line, if the hole stays a hole
				for try := 0; try < 6; try++ {
					h2 := append([]orb.Point(nil), h...)
					i := r.Intn(len(h2))
					h2[i] = c16NearPoint(r, b, h2[i], r.Intn(3))
					if c16HoleOK(h2, outer, holes) {
						h, hfirst = h2, i
						break
					}
				}
			}
			holes = append(holes, h)
			n := len(h)
			if (c16Area2(h) > 0) != (-o > 0) {
				h, hfirst = c16Reverse(h), n-1-hfirst
			}
			pg = append(pg, c16StartAt(r, h, hfirst))
		}
		c.Case("poly", fmt.Sprintf("%d %s %s %s", o, b, gs(pg), qs))
		if r.Intn(6) == 0 {
			c.Case("geom", fmt.Sprintf("%d %s %s", o, b, gs(pg)))
		}
	default: // multi-polygon of 2..3 disjoint members with near-miss vertices
		var mp orb.MultiPolygon
		var outers [][]orb.Point
		w, h := b.x1-b.x0, b.y1-b.y0
		for pN := 2 + r.Intn(2); pN > 0; pN-- {
			for try := 0; try < 10; try++ {
				cx := b.x0 - 0.3*w + r.Float64()*1.6*w
				cy := b.y0 - 0.3*h + r.Float64()*1.6*h
				snap := 0
				if mode == 1 {
					snap = 1
				} else if mode == 0 {
					snap = 2
				}
				big := math.Max(w, h)
				ps := c16Star(r, cx, cy, 3+r.Intn(7), 0.15*big, (0.25+0.5*r.Float64())*big, snap)
				if ps == nil || !c16Simple(ps) {
					continue
				}
				first := r.Intn(len(ps))
				if r.Intn(4) != 0 {
					first = r.Intn(len(ps))
					ps = append([]orb.Point(nil), ps...)
					ps[first] = c16NearPoint(r, b, ps[first], r.Intn(3))
					if !c16Simple(ps) {
						continue
					}
				}
				ok := true
				for _, q := range outers {
					if !c16RingsApart(ps, q) || c16Inside(q, ps[0]) || c16Inside(ps, q[0]) {
						ok = false
					}
				}
				if !ok {
					continue
				}
				outers = append(outers, ps)
				n := len(ps)
				wound := ps
				if (c16Area2(ps) > 0) != (o > 0) {
					wound, first = c16Reverse(ps), n-1-first
				}
				pg := orb.Polygon{c16StartAt(r, wound, first)}
				if r.Intn(3) == 0 {
					hs := 0
					if mode != 2 {
						hs = 1
					}
					if hole := c16Hole(r, ps, nil, b, hs); hole != nil && c16HoleOK(hole, ps, nil) {
						pg = append(pg, c16Close(c16Wind(hole, -o)))
					}
				}
				mp = append(mp, pg)
				break
			}
		}
		if len(mp) == 0 {
			return
		}
		c.Case("mpoly", fmt.Sprintf("%d %s %s %s", o, b, gs(mp), qs))
		if r.Intn(6) == 0 {
			c.Case("geom", fmt.Sprintf("%d %s %s", o, b, gs(mp)))
		}
	}
}

// c16TouchRing: a triangle with its apex in P whose other two vertices lie at P + e·(a·u + (1-a)·v) and
// P + e·((1-a)·u + a·v) (u, v: directions from P)
func c16TouchTriangle(p, u, v orb.Point, e, a float64) []orb.Point {
	at := func(s, t float64) orb.Point {
		return orb.Point{p[0] + e*(s*u[0]+t*v[0]), p[1] + e*(s*u[1]+t*v[1])}
	}
	return []orb.Point{p, at(a, 1-a), at(1-a, a)}
}

// c16GenTouch: a ring touching another ring in exactly one point.
//   * hole / shell: the hole is a triangle with its apex in a CONVEX vertex P of the outer ring (its other
//     vertices inside the corner) or in the middle of an edge of the outer ring (other vertices on the
//     interior side);
//   * member / member: a second member, a triangle with its apex in P lying in the opposite (exterior) corner.
// P is first moved exactly onto the nearest box side / corner (half of the cases), next to it, or left
// where it is (strictly inside or outside the box: nothing special must happen there).
func c16GenTouch(c *Ctx, r *rand.Rand, mode, o int) {
	b := c16GenBox(r, mode)
	if r.Intn(8) == 0 {
		b = c16Origin(b)
	}
	qs := spts(c16Samples(r, b, 16))
	for try := 0; try < 20; try++ {
		base := c16SimpleRing(r, b, mode)
		if base == nil {
			continue
		}
		ps := c16Wind(append([]orb.Point(nil), base...), 1) // counter-clockwise while we construct
		n := len(ps)
		i := r.Intn(n)
		switch k := r.Intn(8); {
		case k < 4: // exactly onto the nearest side / corner
			p := ps[i]
			nx := b.x0
			if math.Abs(p[0]-b.x1) < math.Abs(p[0]-b.x0) {
				nx = b.x1
			}
			ny := b.y0
			if math.Abs(p[1]-b.y1) < math.Abs(p[1]-b.y0) {
				ny = b.y1
			}
			switch r.Intn(3) {
			case 0:
				ps[i] = orb.Point{nx, p[1]}
			case 1:
				ps[i] = orb.Point{p[0], ny}
			default:
				ps[i] = orb.Point{nx, ny}
			}
		case k < 6:
			ps[i] = c16NearPoint(r, b, ps[i], r.Intn(3))
		}
		if !c16Simple(ps) || c16Area2(ps) <= 0 {
			continue
		}
		prev, p, next := ps[(i+n-1)%n], ps[i], ps[(i+1)%n]
		e := 0.15 + 0.3*r.Float64()
		a := 0.7 + 0.2*r.Float64()
		if mode != 2 {
			e, a = 0.25, 0.75 // dyadic
		}
		var other []orb.Point
		kind := r.Intn(4) // 0,1: hole at a vertex; 2: hole at the middle of an edge; 3: second member
		switch kind {
		case 0, 1, 3:
			if c16Orient(prev, p, next) <= 0 {
				continue // not a convex vertex
			}
			u := orb.Point{prev[0] - p[0], prev[1] - p[1]}
			v := orb.Point{next[0] - p[0], next[1] - p[1]}
			if kind == 3 {
				u, v = orb.Point{-u[0], -u[1]}, orb.Point{-v[0], -v[1]}
			}
			other = c16TouchTriangle(p, u, v, e, a)
		case 2:
			m := orb.Point{(p[0] + next[0]) / 2, (p[1] + next[1]) / 2}
			d := orb.Point{next[0] - p[0], next[1] - p[1]}
			nrm := orb.Point{-d[1], d[0]} // left of the travel direction: the interior of a counter-clockwise ring
			u := orb.Point{nrm[0] + d[0]/2, nrm[1] + d[1]/2}
			v := orb.Point{nrm[0] - d[0]/2, nrm[1] - d[1]/2}
			other = c16TouchTriangle(m, u, v, e, 1)
			p = m
		}
		// no needles: the second ring is a triangle of a size comparable to the box, whatever happened to P
		// (P moved next to a neighbouring vertex would give a triangle 1e-9 wide: a sliver, not a hole)
		{
			ux, uy := other[1][0]-other[0][0], other[1][1]-other[0][1]
			vx, vy := other[2][0]-other[0][0], other[2][1]-other[0][1]
			lu, lv := math.Hypot(ux, uy), math.Hypot(vx, vy)
			ext := math.Min(b.x1-b.x0, b.y1-b.y0)
			if lu < 1e-2*ext || lv < 1e-2*ext || math.Abs(ux*vy-uy*vx) < 1e-2*lu*lv {
				continue
			}
		}
		// the two rings must meet in P only; the hole inside, the second member outside
		ok := c16Simple(other)
		for j := 0; j < n && ok; j++ {
			s, t := ps[j], ps[(j+1)%n]
			for k := 0; k < 3 && ok; k++ {
				x, y := other[k], other[(k+1)%3]
				if c16SegsMeet(s, t, x, y) {
					// allowed only when the common point is P: P is an end of the triangle edge, and the ring edge
					// passes through P without being collinear with the triangle edge
					far := y
					if y == p {
						far = x
					} else if x != p {
						ok = false
					}
					if c16Orient(s, t, p) != 0 || !c16OnSeg(s, t, p) || c16Orient(s, t, far) == 0 {
						ok = false
					}
				}
			}
		}
		if !ok || c16Inside(ps, other[1]) != (kind != 3) || c16Inside(ps, other[2]) != (kind != 3) {
			continue
		}
		outer := c16Wind(ps, o)
		start := func(q []orb.Point, w int) orb.Ring { // start at P in half of the cases
			q = c16Wind(q, w)
			k := r.Intn(len(q))
			if r.Intn(2) == 0 {
				for j := range q {
					if q[j] == p {
						k = j
					}
				}
			}
			return c16Close(c16Rotate(q, k))
		}
		if kind == 3 {
			mp := orb.MultiPolygon{{start(outer, o)}, {start(other, o)}}
			if r.Intn(2) == 0 {
				mp[0], mp[1] = mp[1], mp[0]
			}
			c.Case("mpoly", fmt.Sprintf("%d %s %s %s", o, b, gs(mp), qs))
			if r.Intn(6) == 0 {
				c.Case("geom", fmt.Sprintf("%d %s %s", o, b, gs(mp)))
			}
			return
		}
		pg := orb.Polygon{start(outer, o), start(other, -o)}
		switch r.Intn(8) {
		case 0:
			c.Case("mpoly", fmt.Sprintf("%d %s %s %s", o, b, gs(orb.MultiPolygon{pg}), qs))
		case 1:
			c.Case("geom", fmt.Sprintf("%d %s %s", o, b, gs(pg)))
		default:
			c.Case("poly", fmt.Sprintf("%d %s %s %s", o, b, gs(pg), qs))
		}
		return
	}
}

// c16GenBands: k bands that cross the box from one side to the opposite one — as a multi-polygon of k
// quadrilaterals, or as the teeth of ONE comb-shaped ring whose bar lies outside the box.  Every crossing
// band is cut into two open pieces, so smartWrap sorts up to 4k endpoints: k >= 4 is beyond the 12 elements
// up to which sort.Sort is an insertion sort (pdqsort exchanges non-adjacent elements, among them the two
// ends of one piece: sortableEndpoints.Swap re-points OtherEnd, mutants C16-m2 / C16-r2m1), and every
// polygon returned is stitched from two pieces (OtherEnd is read only when a piece is appended to a ring
// under construction).  Some bands end inside the box (one piece), along x or along y, from either side.
func c16GenBands(c *Ctx, r *rand.Rand, mode, o int) {
	k := 2 + r.Intn(6)
	g := c16GenBox(r, mode)
	u := 1.0 // width of a band and of a gap
	switch mode {
	case 1:
		u = 0.5
	case 2:
		u = 0.2 + 0.6*r.Float64()
	}
	ext := g.y1 - g.y0 // extent of the box ALONG the bands
	d := 1.0           // how far the bands stick out
	if mode == 2 {
		d = 0.3 + r.Float64()
	}
	alongY := r.Intn(2) == 0
	flip := r.Intn(2) == 0
	b := c16Box{g.x0, g.y0, g.x0 + float64(2*k+1)*u, g.y0 + ext}
	if !alongY {
		b = c16Box{g.x0, g.y0, g.x0 + ext, g.y0 + float64(2*k+1)*u}
	}
	// (s, t): s across the bands (0 … (2k+1)u), t along them (0 … ext, the box), mapped into the box
	at := func(s, t float64) orb.Point {
		if flip {
			t = ext - t
		}
		if alongY {
			return orb.Point{b.x0 + s, b.y0 + t}
		}
		return orb.Point{b.x0 + t, b.y0 + s}
	}
	slant := 0.0
	if mode == 2 && r.Intn(2) == 0 {
		slant = (r.Float64() - 0.5) * u * 0.8
	}
	comb := r.Intn(2) == 0
	var bands [][]orb.Point
	ring := []orb.Point{at(-u, -3*d), at(float64(2*k+2)*u, -3*d)}
	for t := k - 1; t >= 0; t-- {
		lo, hi := float64(2*t+1)*u, float64(2*t+2)*u
		top := ext + d
		if r.Intn(5) == 0 { // ends inside the box
			top = ext * (0.25 + 0.5*r.Float64())
			if mode != 2 {
				top = math.Max(u, math.Floor(ext/2))
			}
		}
		q := []orb.Point{at(lo, -d), at(hi, -d), at(hi+slant, top), at(lo+slant, top)}
		bands = append(bands, q)
		ring = append(ring, q[1], q[2], q[3], q[0])
	}
	ring = append(ring, at(-u, -d))
	qs := spts(c16Samples(r, b, 16))
	if comb {
		if !c16Simple(ring) {
			return
		}
		ps := c16Wind(ring, o)
		rg := c16Close(c16Rotate(ps, r.Intn(len(ps))))
		switch r.Intn(6) {
		case 0:
			c.Case("poly", fmt.Sprintf("%d %s %s %s", o, b, gs(orb.Polygon{rg}), qs))
		case 1:
			c.Case("geom", fmt.Sprintf("%d %s %s", o, b, gs(rg)))
		default:
			c.Case("ring", fmt.Sprintf("%d %s %s %s", o, b, spts(rg), qs))
		}
		return
	}
	var mp orb.MultiPolygon
	for _, q := range bands {
		ps := c16Wind(q, o)
		mp = append(mp, orb.Polygon{c16Close(c16Rotate(ps, r.Intn(len(ps))))})
	}
	r.Shuffle(len(mp), func(i, j int) { mp[i], mp[j] = mp[j], mp[i] })
	c.Case("mpoly", fmt.Sprintf("%d %s %s %s", o, b, gs(mp), qs))
	if r.Intn(6) == 0 {
		c.Case("geom", fmt.Sprintf("%d %s %s", o, b, gs(mp)))
	}
}
