package main

import (
	"bytes"
	"encoding/binary"
	"encoding/hex"
	"encoding/json"
	"flag"
	"math"
	"os"
	"path/filepath"
	"runtime"
	"sort"
	"strconv"
	"strings"
	"sync/atomic"
	"unicode"

	"github.com/paulmach/orb/encoding/mvt"
	"github.com/paulmach/orb/encoding/wkt"
	"github.com/paulmach/orb/geojson"
	"go.mongodb.org/mongo-driver/bson"
)

// C05 — the table of decoder entry points.
//
// props.json lists, under C05 `functions`, every function the property covers.  The PUBLIC ones among
// them (an exported function or method of a package outside encoding/internal) are the entry points a
// caller can hand hostile bytes to; each must be called on the hostile bytes by some op of c05.go.  This
// table is the single place that says which op does so; the call sites count their calls (c05Hit), and
// the op `selftest` compares the table with props.json and reads the counters: an entry point that is
// listed but absent from the table, or in the table but never called, fails the run.
//
// fam: wkb — called by runC05WKB at the marked call sites; wkt / mvt / json / bson — called by c05Direct
// (after the delegated runner of C04 / C03 / C02 has judged the same bytes).

type c05Entry struct {
	name string            // key as in props.json
	fam  string            // wkb | wkt | mvt | json | bson
	call func(data []byte) // direct call (nil for fam wkb)
}

var c05Entries = []c05Entry{
	{"encoding/ewkb.Unmarshal", "wkb", nil},
	{"encoding/ewkb.NewDecoder", "wkb", nil},
	{"encoding/ewkb.Decoder.Decode", "wkb", nil},
	{"encoding/ewkb.Scanner", "wkb", nil},
	{"encoding/ewkb.ScannerPrefixSRID", "wkb", nil},
	{"encoding/ewkb.GeometryScanner.Scan", "wkb", nil},
	{"encoding/wkb.Unmarshal", "wkb", nil},
	{"encoding/wkb.NewDecoder", "wkb", nil},
	{"encoding/wkb.Decoder.Decode", "wkb", nil},
	{"encoding/wkb.Scanner", "wkb", nil},
	{"encoding/wkb.GeometryScanner.Scan", "wkb", nil},

	{"encoding/wkt.Unmarshal", "wkt", func(d []byte) { wkt.Unmarshal(string(d)) }},
	{"encoding/wkt.UnmarshalPoint", "wkt", func(d []byte) { wkt.UnmarshalPoint(string(d)) }},
	{"encoding/wkt.UnmarshalMultiPoint", "wkt", func(d []byte) { wkt.UnmarshalMultiPoint(string(d)) }},
	{"encoding/wkt.UnmarshalLineString", "wkt", func(d []byte) { wkt.UnmarshalLineString(string(d)) }},
	{"encoding/wkt.UnmarshalMultiLineString", "wkt", func(d []byte) { wkt.UnmarshalMultiLineString(string(d)) }},
	{"encoding/wkt.UnmarshalPolygon", "wkt", func(d []byte) { wkt.UnmarshalPolygon(string(d)) }},
	{"encoding/wkt.UnmarshalMultiPolygon", "wkt", func(d []byte) { wkt.UnmarshalMultiPolygon(string(d)) }},
	{"encoding/wkt.UnmarshalCollection", "wkt", func(d []byte) { wkt.UnmarshalCollection(string(d)) }},

	{"encoding/mvt.Unmarshal", "mvt", func(d []byte) { mvt.Unmarshal(d) }},
	{"encoding/mvt.UnmarshalGzipped", "mvt", func(d []byte) { mvt.UnmarshalGzipped(d) }},

	{"geojson.UnmarshalGeometry", "json", func(d []byte) { geojson.UnmarshalGeometry(d) }},
	{"geojson.UnmarshalFeature", "json", func(d []byte) { geojson.UnmarshalFeature(d) }},
	{"geojson.UnmarshalFeatureCollection", "json", func(d []byte) { geojson.UnmarshalFeatureCollection(d) }},
	{"geojson.Geometry.UnmarshalJSON", "json", func(d []byte) { new(geojson.Geometry).UnmarshalJSON(d) }},
	{"geojson.Feature.UnmarshalJSON", "json", func(d []byte) { new(geojson.Feature).UnmarshalJSON(d) }},
	{"geojson.FeatureCollection.UnmarshalJSON", "json", func(d []byte) { new(geojson.FeatureCollection).UnmarshalJSON(d) }},
	{"geojson.Point.UnmarshalJSON", "json", func(d []byte) { new(geojson.Point).UnmarshalJSON(d) }},
	{"geojson.MultiPoint.UnmarshalJSON", "json", func(d []byte) { new(geojson.MultiPoint).UnmarshalJSON(d) }},
	{"geojson.LineString.UnmarshalJSON", "json", func(d []byte) { new(geojson.LineString).UnmarshalJSON(d) }},
	{"geojson.MultiLineString.UnmarshalJSON", "json", func(d []byte) { new(geojson.MultiLineString).UnmarshalJSON(d) }},
	{"geojson.Polygon.UnmarshalJSON", "json", func(d []byte) { new(geojson.Polygon).UnmarshalJSON(d) }},
	{"geojson.MultiPolygon.UnmarshalJSON", "json", func(d []byte) { new(geojson.MultiPolygon).UnmarshalJSON(d) }},

	{"geojson.Geometry.UnmarshalBSON", "bson", func(d []byte) { new(geojson.Geometry).UnmarshalBSON(d) }},
	{"geojson.Feature.UnmarshalBSON", "bson", func(d []byte) { new(geojson.Feature).UnmarshalBSON(d) }},
	{"geojson.FeatureCollection.UnmarshalBSON", "bson", func(d []byte) { new(geojson.FeatureCollection).UnmarshalBSON(d) }},
	{"geojson.Point.UnmarshalBSON", "bson", func(d []byte) { new(geojson.Point).UnmarshalBSON(d) }},
	{"geojson.MultiPoint.UnmarshalBSON", "bson", func(d []byte) { new(geojson.MultiPoint).UnmarshalBSON(d) }},
	{"geojson.LineString.UnmarshalBSON", "bson", func(d []byte) { new(geojson.LineString).UnmarshalBSON(d) }},
	{"geojson.MultiLineString.UnmarshalBSON", "bson", func(d []byte) { new(geojson.MultiLineString).UnmarshalBSON(d) }},
	{"geojson.Polygon.UnmarshalBSON", "bson", func(d []byte) { new(geojson.Polygon).UnmarshalBSON(d) }},
	{"geojson.MultiPolygon.UnmarshalBSON", "bson", func(d []byte) { new(geojson.MultiPolygon).UnmarshalBSON(d) }},
}

var c05Hits = func() map[string]*int64 {
	m := map[string]*int64{}
	for _, e := range c05Entries {
		m[e.name] = new(int64)
	}
	return m
}()

// c05Hit marks a call site: the listed entry points named are called by the statement that follows.
func c05Hit(names ...string) {
	for _, n := range names {
		p := c05Hits[n]
		if p == nil {
			panic("c05Hit: not in c05Entries: " + n)
		}
		atomic.AddInt64(p, 1)
	}
}

// c05Direct calls every entry point of the family directly on (a copy of) the bytes, each under recover;
// the caller's watchdog covers the whole.  Result: `ep <calls> <name:panic>…`.
func c05Direct(fam string, data []byte) string {
	n := 0
	var bad []string
	for _, e := range c05Entries {
		if e.fam != fam || e.call == nil {
			continue
		}
		e := e
		cp := append([]byte(nil), data...)
		c05Hit(e.name)
		n++
		if o := c05PanicOrigin(func() { e.call(cp) }); o != "" {
			bad = append(bad, e.name+":panic:"+o)
		}
	}
	out := "ep " + strconv.Itoa(n)
	if len(bad) > 0 {
		out += " " + strings.Join(bad, " ")
	}
	return out
}

// c05PanicOrigin runs f; "" when it returns, otherwise where the panic was raised: the first frame below
// the runtime's own on the panicking stack — `orb` (the library), `bson` (go.mongodb.org/mongo-driver,
// third party), `other` (standard library or anything else: reached from the library's code with the
// library's arguments).
func c05PanicOrigin(f func()) (origin string) {
	defer func() {
		if r := recover(); r != nil {
			origin = "other"
			pcs := make([]uintptr, 64)
			n := runtime.Callers(2, pcs) // skip Callers and this closure
			frames := runtime.CallersFrames(pcs[:n])
			for {
				fr, more := frames.Next()
				fn := fr.Function
				if fn != "" && !strings.HasPrefix(fn, "runtime.") {
					switch {
					case strings.HasPrefix(fn, "go.mongodb.org/mongo-driver/"):
						origin = "bson"
					case strings.HasPrefix(fn, "github.com/paulmach/orb"):
						origin = "orb"
					}
					return
				}
				if !more {
					return
				}
			}
		}
	}()
	f()
	return ""
}

// c05PanicWho: when C02's runner reports a panic, the same decodes (bson.Unmarshal / json.Unmarshal into
// the three documents and the six typed helpers) once more with the origin of each panic: `pw <origins>`
// (sorted, distinct; `none` when nothing panics this time).
func c05PanicWho(kind string, data []byte) string {
	um := func(dst interface{}) func() {
		return func() {
			cp := append([]byte(nil), data...)
			if kind == "json" {
				json.Unmarshal(cp, dst)
			} else {
				bson.Unmarshal(cp, dst)
			}
		}
	}
	// FeatureCollection.UnmarshalJSON / UnmarshalBSON visit the members of the document in Go's random map
	// order: with two bad members either the error of one or the panic of the other comes first.  The
	// decodes are repeated (up to 16 rounds) until a round shows a panic.
	set := map[string]bool{}
	for round := 0; round < 16 && len(set) == 0; round++ {
		for _, f := range []func(){
			um(&geojson.Geometry{}), um(&geojson.Feature{}), um(&geojson.FeatureCollection{}),
			um(&geojson.Point{}), um(&geojson.MultiPoint{}), um(&geojson.LineString{}),
			um(&geojson.MultiLineString{}), um(&geojson.Polygon{}), um(&geojson.MultiPolygon{}),
			func() { geojson.UnmarshalGeometry(append([]byte(nil), data...)) },
			func() { geojson.UnmarshalFeature(append([]byte(nil), data...)) },
			func() { geojson.UnmarshalFeatureCollection(append([]byte(nil), data...)) },
		} {
			if o := c05PanicOrigin(f); o != "" {
				set[o] = true
			}
		}
	}
	var l []string
	for o := range set {
		l = append(l, o)
	}
	sort.Strings(l)
	if len(l) == 0 {
		return "pw none"
	}
	return "pw " + strings.Join(l, " ")
}

// c05WellFormed: the bytes are a well-formed document of the codec.  For BSON this is decided by a strict
// parser of our own (c05BsonDoc): bson.Raw.Validate of mongo-driver v1.11.4 accepts a nested document whose
// length field is negative (0x80000033), which is exactly what makes its value reader panic.
func c05WellFormed(kind string, data []byte) string {
	ok := false
	guard(func() string {
		if kind == "json" {
			ok = json.Valid(data)
		} else {
			ok = c05BsonDoc(data, 0)
		}
		return ""
	})
	return "wf " + b2s(ok)
}

// c05BsonDoc: b is exactly one BSON document (bsonspec.org 1.1): int32 total length (>= 5, == len(b)), elements,
// a final 0; every length field inside is non-negative and stays within its parent; nesting <= 1000.
func c05BsonDoc(b []byte, depth int) bool {
	if depth > 1000 || len(b) < 5 || len(b) > math.MaxInt32 {
		return false
	}
	if int(int32(binary.LittleEndian.Uint32(b))) != len(b) || b[len(b)-1] != 0 {
		return false
	}
	b = b[4 : len(b)-1]
	i32 := func(b []byte) (int, bool) {
		if len(b) < 4 {
			return 0, false
		}
		n := int(int32(binary.LittleEndian.Uint32(b)))
		return n, n >= 0
	}
	cstr := func(b []byte) int { // length including the terminator, -1 when unterminated
		for i, c := range b {
			if c == 0 {
				return i + 1
			}
		}
		return -1
	}
	str := func(b []byte) int { // int32 n (>= 1), n bytes, the last one 0
		n, ok := i32(b)
		if !ok || n < 1 || 4+n > len(b) || b[4+n-1] != 0 {
			return -1
		}
		return 4 + n
	}
	for len(b) > 0 {
		t := b[0]
		k := cstr(b[1:])
		if k < 0 {
			return false
		}
		b = b[1+k:]
		n := -1
		switch t {
		case 0x01, 0x09, 0x11, 0x12: // double, datetime, timestamp, int64
			n = 8
		case 0x02, 0x0D, 0x0E: // string, javascript, symbol
			n = str(b)
		case 0x03, 0x04: // document, array
			if l, ok := i32(b); ok && l >= 5 && l <= len(b) && c05BsonDoc(b[:l], depth+1) {
				n = l
			}
		case 0x05: // binary: int32 n, subtype, n bytes
			if l, ok := i32(b); ok && 5+l <= len(b) {
				n = 5 + l
			}
		case 0x06, 0x0A, 0xFF, 0x7F: // undefined, null, min key, max key
			n = 0
		case 0x07: // object id
			n = 12
		case 0x08: // boolean
			if len(b) >= 1 && b[0] <= 1 {
				n = 1
			}
		case 0x0B: // regex: two cstrings
			if a := cstr(b); a > 0 {
				if c := cstr(b[a:]); c > 0 {
					n = a + c
				}
			}
		case 0x0C: // db pointer: string, 12 bytes
			if a := str(b); a > 0 {
				n = a + 12
			}
		case 0x0F: // code with scope: int32 total, string, document
			if l, ok := i32(b); ok && l >= 14 && l <= len(b) {
				if a := str(b[4:l]); a > 0 && c05BsonDoc(b[4+a:l], depth+1) {
					n = l
				}
			}
		case 0x10: // int32
			n = 4
		case 0x13: // decimal128
			n = 16
		}
		if n < 0 || n > len(b) {
			return false
		}
		b = b[n:]
	}
	return true
}

// --- self-test -------------------------------------------------------------------------------------

// c05PropsPath: props.json lies next to known_findings.json (flag -known, as ./check passes it), else
// next to the directory of the binary (work/corr), else where ORBVERIF_PROPS says.
func c05PropsPath() string {
	var cands []string
	if p := os.Getenv("ORBVERIF_PROPS"); p != "" {
		cands = append(cands, p)
	}
	if f := flag.Lookup("known"); f != nil && f.Value.String() != "" {
		cands = append(cands, filepath.Join(filepath.Dir(f.Value.String()), "props.json"))
	}
	if exe, err := os.Executable(); err == nil {
		cands = append(cands, filepath.Join(filepath.Dir(filepath.Dir(exe)), "props.json"))
	}
	for _, p := range cands {
		if _, err := os.Stat(p); err == nil {
			return p
		}
	}
	return ""
}

// c05IsPublicEntry: `pkg/path.Func` or `pkg/path.Type.Method` with every name exported, outside internal
// packages.  (The exported functions of encoding/internal/wkbcommon cannot be imported from outside the
// library; they are reached through the wkb / ewkb wrappers, whose outcomes the model follows.)
func c05IsPublicEntry(key string) bool {
	slash := strings.LastIndex(key, "/")
	dot := strings.Index(key[slash+1:], ".")
	if dot < 0 {
		return false
	}
	pkg, rest := key[:slash+1+dot], key[slash+1+dot+1:]
	if strings.Contains("/"+pkg+"/", "/internal/") {
		return false
	}
	for _, part := range strings.Split(rest, ".") {
		if part == "" || !unicode.IsUpper(rune(part[0])) {
			return false
		}
	}
	return true
}

// sample inputs: one per op and codec (any input makes the runner go through all its call sites)
var c05SelfSamples = []c05Case{
	{"wkb", "0101000000000000000000f03f0000000000000040 P"},
	{"wkt", hex.EncodeToString([]byte("POINT(1 2)"))},
	{"mvt", "1a00"},
	{"gj", "json " + hex.EncodeToString([]byte(`{"type":"Point","coordinates":[1,2]}`))},
	{"gj", "bson 0500000000"},
}

func runC05SelfTest(in []string) string {
	path := c05PropsPath()
	if path == "" {
		return "noprops"
	}
	raw, err := os.ReadFile(path)
	if err != nil {
		return "noprops"
	}
	var doc map[string]struct {
		Functions []string `json:"functions"`
	}
	if json.NewDecoder(bytes.NewReader(raw)).Decode(&doc) != nil || len(doc["C05"].Functions) == 0 {
		return "noprops"
	}
	inTable := map[string]bool{}
	for _, e := range c05Entries {
		inTable[e.name] = true
	}
	var fails []string
	listed := 0
	for _, f := range doc["C05"].Functions {
		if !c05IsPublicEntry(f) {
			continue
		}
		listed++
		if !inTable[f] {
			fails = append(fails, "missing:"+f)
		}
	}
	// `run`: the counters as this process's generation left them; otherwise: what the sample inputs add
	// (taken off again, so that a later `selftest run` sees the generated cases only)
	before := map[string]int64{}
	sample := len(in) == 0 || in[0] != "run"
	if sample {
		for _, e := range c05Entries {
			before[e.name] = atomic.LoadInt64(c05Hits[e.name])
		}
		for _, s := range c05SelfSamples {
			runC05(s.op, strings.Fields(s.in))
		}
	}
	called := 0
	for _, e := range c05Entries {
		d := atomic.LoadInt64(c05Hits[e.name]) - before[e.name]
		if sample {
			atomic.AddInt64(c05Hits[e.name], -d)
		}
		if d > 0 {
			called++
		} else {
			fails = append(fails, "uncalled:"+e.name)
		}
	}
	if len(fails) > 0 {
		sort.Strings(fails)
		return "fail " + strings.Join(fails, " ")
	}
	return "ok " + strconv.Itoa(listed) + " " + strconv.Itoa(called)
}
